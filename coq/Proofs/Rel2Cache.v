(** * Rel2Cache: C05 on the relation tier - a registered (cached) filter selects the same tables,
    counts the same rows and yields the same entities as an identical unregistered filter, in EVERY
    state satisfying [St2] (worlds with relation components, freed and recycled tables included).
    Helper prefix [r2k_]. *)
From Ark Require Import Model.Base Model.Mask Model.Pool Model.Util Model.World Model.Run.
From Ark Require Import Proofs.TableProofs Proofs.MaskProofs Proofs.WF Proofs.StorageA Proofs.RelProofs
  Proofs.LockWorld Proofs.CacheProofs Proofs.QueryProofs Proofs.Rel2Defs Proofs.Rel2Struct Properties.Common
  Proofs.Rel2Check.
From Coq Require Import Lia Permutation.
Close Scope Z_scope.   (* opened by Rel2Check *)

(** ** Vocabulary *)

(** What [to_relations] checks of a relation list, minus the liveness of the targets (which may die
    later): every entry names a relation component that is in the mask. *)
Definition r2k_rels_ok (s : W) (m : mask) (rels : list rel) : Prop :=
  forall r, In r rels -> is_rel_comp s (fst r) = true /\ mk_get m (fst r) = true.

(** The specification of table selection: non-free table of an archetype matching the filter whose
    targets match the relation list. *)
Definition r2k_sel (s : W) (f : fobj) (rels : list rel) (tid : nat) : Prop :=
  exists t a, nth_error (w_tables s) tid = Some t /\ t_free t = false /\
              nth_error (w_archs s) (t_arch t) = Some a /\ filter_matches f (a_mask a) = true /\
              tbl_matches t rels = Some true.

Definition r2k_nonempty (s : W) (tid : nat) : Prop :=
  exists t, nth_error (w_tables s) tid = Some t /\ t_len t <> 0.

(** Every archetype without relation components that the filter matches has its table (false only
    in the window after a creation that panicked between createArchetype and createTable, where the
    uncached walk panics with an index error - [archetype.tables[0]] - and the cached one does not). *)
Definition r2k_tabled (s : W) (f : fobj) : Prop :=
  forall aid a, nth_error (w_archs s) aid = Some a -> filter_matches f (a_mask a) = true ->
    a_numrel a = 0 -> a_tables a <> [].

(** ** Pure facts about [tbl_matches] *)

Lemma r2k_tbl_matches_eq : forall t l, tbl_matches t l = if tbl_has_rels t then rels_match t l else Some true.
Proof. intros t [|r l]; cbn [tbl_matches rels_match]; destruct (tbl_has_rels t); reflexivity. Qed.

Lemma r2k_rels_match_app : forall t l1 l2,
  rels_match t (l1 ++ l2) = Some true <-> rels_match t l1 = Some true /\ rels_match t l2 = Some true.
Proof.
  intros t l1. induction l1 as [|[c tg] l1 IH]; intros l2; cbn [app rels_match].
  - split; [intros H; split; [reflexivity|exact H] | intros [_ H]; exact H].
  - destruct (tbl_target t c) as [x|]; [|split; [discriminate|intros [H _]; discriminate]].
    destruct (ent_eqb tg x); [apply IH|]. split; [discriminate|intros [H _]; discriminate].
Qed.

(** Matching a concatenated relation list = matching both parts. This is what makes the cached
    path (fixed relations checked when the table enters the entry, per-query relations checked at
    query time) agree with the uncached one (all relations checked at query time). *)
Lemma r2k_tbl_matches_app : forall t l1 l2,
  tbl_matches t (l1 ++ l2) = Some true <-> tbl_matches t l1 = Some true /\ tbl_matches t l2 = Some true.
Proof.
  intros t l1 l2. rewrite !r2k_tbl_matches_eq. destruct (tbl_has_rels t); [apply r2k_rels_match_app|tauto].
Qed.

Lemma r2k_rels_match_some : forall t l, (forall r, In r l -> tbl_target t (fst r) <> None) -> rels_match t l <> None.
Proof.
  intros t l. induction l as [|[c tg] l IH]; intros H; cbn [rels_match]; [discriminate|].
  pose proof (H (c, tg) (or_introl eq_refl)) as Hc. cbn [fst] in Hc.
  destruct (tbl_target t c) as [x|]; [|congruence].
  destruct (ent_eqb tg x); [|discriminate]. apply IH. intros r Hr. apply H. right. exact Hr.
Qed.

Lemma r2k_tbl_matches_some : forall t l, (forall r, In r l -> tbl_target t (fst r) <> None) -> tbl_matches t l <> None.
Proof.
  intros t l H. rewrite r2k_tbl_matches_eq. destruct (tbl_has_rels t); [apply r2k_rels_match_some; exact H|discriminate].
Qed.

(** ** Columns of a table of an archetype *)

Lemma r2k_target_some : forall s tid t a c, WF s -> nth_error (w_tables s) tid = Some t ->
  nth_error (w_archs s) (t_arch t) = Some a -> mk_get (a_mask a) c = true ->
  exists i x, index_of c (a_comps a) = Some i /\ t_ids t = a_comps a /\ nth_error (t_targets t) i = Some x.
Proof.
  intros s tid t a c HW Ht Ha Hc.
  destruct (wf_layout s HW tid t Ht) as (a' & Ha' & Hids & _ & Hlen). rewrite Ha in Ha'. injection Ha' as <-.
  destruct (wf_arch_comps s HW _ a Ha) as (Hcomps & Hlt & _).
  assert (Hin : In c (a_comps a)). { rewrite Hcomps. apply mk_to_list_spec. split; [apply Hlt; exact Hc|exact Hc]. }
  destruct (sa_in_index_of c (a_comps a) Hin) as (i & Hi). exists i.
  pose proof (sa_nth_error_lt _ _ _ _ (rl_index_of_some _ _ _ Hi)) as Hli.
  destruct (nth_error (t_targets t) i) as [x|] eqn:Ex.
  - exists x. split; [exact Hi|]. split; [exact Hids|reflexivity].
  - apply nth_error_None in Ex. rewrite Hlen, Hids in Ex. lia.
Qed.

Lemma r2k_tbl_target_some : forall s tid t a c, WF s -> nth_error (w_tables s) tid = Some t ->
  nth_error (w_archs s) (t_arch t) = Some a -> mk_get (a_mask a) c = true -> tbl_target t c <> None.
Proof.
  intros s tid t a c HW Ht Ha Hc. destruct (r2k_target_some s tid t a c HW Ht Ha Hc) as (i & x & Hi & Hids & Hx).
  unfold tbl_target, tbl_colidx. rewrite Hids, Hi, Hx. discriminate.
Qed.

Lemma r2k_filter_mask : forall f m c, filter_matches f m = true -> mk_get (f_mask f) c = true -> mk_get m c = true.
Proof.
  intros f m c H Hc. unfold filter_matches in H. apply andb_true_iff in H. destruct H as [H _].
  rewrite mk_contains_spec in H. apply H. exact Hc.
Qed.

(** A relation list admissible for the filter never makes [tbl_matches] dereference a missing column
    on a table of a matching archetype. *)
Lemma r2k_matches_some : forall s f rels tid t a, WF s -> nth_error (w_tables s) tid = Some t ->
  nth_error (w_archs s) (t_arch t) = Some a -> filter_matches f (a_mask a) = true ->
  (forall r, In r rels -> mk_get (f_mask f) (fst r) = true) -> tbl_matches t rels <> None.
Proof.
  intros s f rels tid t a HW Ht Ha Hm Hr. apply r2k_tbl_matches_some. intros r Hin.
  apply (r2k_tbl_target_some s tid t a (fst r) HW Ht Ha). apply (r2k_filter_mask f _ _ Hm). apply Hr. exact Hin.
Qed.

Lemma r2k_relcol : forall s aid a c i, WF s -> nth_error (w_archs s) aid = Some a ->
  is_rel_comp s c = true -> index_of c (a_comps a) = Some i -> r2_relcol a i.
Proof.
  intros s aid a c i HW Ha Hc Hi. destruct (wf_arch_comps s HW aid a Ha) as (_ & _ & Hisrel & _).
  unfold r2_relcol. rewrite Hisrel. rewrite nth_error_map, (rl_index_of_some _ _ _ Hi). cbn [option_map].
  f_equal. unfold is_rel_comp in Hc. unfold kind_of. destruct (nth_error (w_reg s) c); [exact Hc|discriminate].
Qed.

Lemma r2k_relcol_numrel : forall s aid a i, WF s -> nth_error (w_archs s) aid = Some a -> r2_relcol a i -> a_numrel a <> 0.
Proof.
  intros s aid a i HW Ha Hr. destruct (wf_arch_comps s HW aid a Ha) as (_ & _ & _ & Hn & _). rewrite Hn.
  unfold r2_relcol in Hr. apply nth_error_In in Hr.
  assert (Hin : In true (filter (fun b : bool => b) (a_isrel a))) by (apply filter_In; split; [exact Hr|reflexivity]).
  destruct (filter (fun b : bool => b) (a_isrel a)); [destruct Hin|discriminate].
Qed.

Lemma r2k_has_rels_numrel : forall a, arch_has_rels a = negb (Nat.eqb (a_numrel a) 0).
Proof. reflexivity. Qed.

(** ** [tables_matching] as a filter *)

Definition r2k_keep (T : list table) (rels : list rel) (b : bool) (tid : nat) : bool :=
  match nth_error T tid with
  | Some t => (negb (b && Nat.eqb (t_len t) 0) && r2_is_some_true (tbl_matches t rels))%bool
  | None => false
  end.

Lemma r2k_tm_pure_filter : forall T rels b l acc,
  (forall tid, In tid l -> exists t, nth_error T tid = Some t /\
     ((b && Nat.eqb (t_len t) 0)%bool = false -> tbl_matches t rels <> None)) ->
  k_tm_pure T rels b l acc = inr (rev acc ++ filter (r2k_keep T rels b) l).
Proof.
  intros T rels b l. induction l as [|tid rest IH]; intros acc H.
  - cbn [k_tm_pure filter]. rewrite app_nil_r. reflexivity.
  - destruct (H tid (or_introl eq_refl)) as (t & Ht & Hn). cbn [k_tm_pure filter]. unfold r2k_keep at 1. rewrite Ht.
    assert (H' : forall tid0, In tid0 rest -> exists t0, nth_error T tid0 = Some t0 /\
       ((b && Nat.eqb (t_len t0) 0)%bool = false -> tbl_matches t0 rels <> None)) by (intros tid0 H0; apply H; right; exact H0).
    destruct (b && Nat.eqb (t_len t) 0)%bool eqn:Eb; cbn [negb andb]; [apply IH; exact H'|].
    specialize (Hn eq_refl). destruct (tbl_matches t rels) as [[|]|]; [| |congruence]; cbn [r2_is_some_true].
    + rewrite (IH (tid :: acc) H'). cbn [rev]. rewrite <- app_assoc. reflexivity.
    + apply IH; exact H'.
Qed.

Lemma r2k_keep_iff : forall T rels b tid, r2k_keep T rels b tid = true <->
  exists t, nth_error T tid = Some t /\ (b = true -> t_len t <> 0) /\ tbl_matches t rels = Some true.
Proof.
  intros T rels b tid. unfold r2k_keep. split.
  - destruct (nth_error T tid) as [t|]; [|discriminate]. intros H. apply andb_true_iff in H. destruct H as [H1 H2].
    exists t. split; [reflexivity|]. split; [|apply r2_some_true; exact H2].
    intros -> E. rewrite E in H1. discriminate.
  - intros (t & -> & Hb & Hm). rewrite Hm. cbn [r2_is_some_true]. rewrite andb_true_r.
    destruct b; [|reflexivity]. cbn [andb]. destruct (Nat.eqb (t_len t) 0) eqn:E; [|reflexivity].
    apply Nat.eqb_eq in E. exfalso. apply (Hb eq_refl). exact E.
Qed.

(** ** What the uncached walk selects in ONE archetype *)

Definition r2k_arch_sel (T : list table) (f : fobj) (rels : list rel) (a : arch) : err + list nat :=
  if negb (filter_matches f (a_mask a)) then inr []
  else if negb (arch_has_rels a) then match a_tables a with t0 :: _ => inr [t0] | [] => inl EIndex end
  else match arch_get_tables a rels with None => inl EIndex | Some cand => k_tm_pure T rels false cand [] end.

Definition r2k_of_arch (s : W) (aid : nat) (rels : list rel) (tid : nat) : Prop :=
  exists t, nth_error (w_tables s) tid = Some t /\ t_free t = false /\ t_arch t = aid /\
            tbl_matches t rels = Some true.

(** The candidates [arch_get_tables] hands out for a non-empty relation list: the lookup of the
    first relation's target id. They are non-free tables of the archetype, and every table of the
    archetype matching the list is among them. *)
Lemma r2k_get_tables_spec : forall s aid a c tg rest, St2 s -> nth_error (w_archs s) aid = Some a ->
  arch_has_rels a = true -> is_rel_comp s c = true -> mk_get (a_mask a) c = true ->
  exists cand, arch_get_tables a ((c, tg) :: rest) = Some cand /\ NoDup cand /\
    (forall tid, In tid cand -> exists t, nth_error (w_tables s) tid = Some t /\ t_free t = false /\ t_arch t = aid) /\
    (forall tid t, nth_error (w_tables s) tid = Some t -> t_free t = false -> t_arch t = aid ->
       tbl_matches t ((c, tg) :: rest) = Some true -> In tid cand).
Proof.
  intros s aid a c tg rest (HW & (HR & _) & _) Ha Hh Hc Hm.
  destruct (wf_arch_comps s HW aid a Ha) as (Hcomps & Hlt & _ & _ & Hlen).
  assert (Hin : In c (a_comps a)). { rewrite Hcomps. apply mk_to_list_spec. split; [apply Hlt; exact Hm|exact Hm]. }
  destruct (sa_in_index_of c (a_comps a) Hin) as (idx & Hidx).
  pose proof (sa_nth_error_lt _ _ _ _ (rl_index_of_some _ _ _ Hidx)) as Hli.
  destruct (nth_error (a_reltabs a) idx) as [m|] eqn:Em; [|apply nth_error_None in Em; lia].
  pose proof (r2k_relcol s aid a c idx HW Ha Hc Hidx) as Hrc.
  unfold arch_get_tables. rewrite Hh. cbn [negb]. rewrite Hidx, Em.
  assert (Hcompl : forall tid t, nth_error (w_tables s) tid = Some t -> t_free t = false -> t_arch t = aid ->
            tbl_matches t ((c, tg) :: rest) = Some true -> exists l, afind (fst tg) m = Some l /\ In tid l).
  { intros tid t Ht Hf Harch Hmt. rewrite <- Harch in Ha.
    destruct (ri_shape _ _ HR tid t a Ht Ha) as (_ & _ & _ & Hnr).
    assert (Hhr : tbl_has_rels t = true).
    { unfold tbl_has_rels. destruct (t_rels t); [|reflexivity]. cbn [length] in Hnr.
      rewrite r2k_has_rels_numrel, <- Hnr in Hh. discriminate. }
    rewrite r2k_tbl_matches_eq, Hhr in Hmt. cbn [rels_match] in Hmt.
    destruct (wf_layout s HW tid t Ht) as (a' & Ha' & Hids & _). rewrite Ha in Ha'. injection Ha' as <-.
    unfold tbl_target, tbl_colidx in Hmt. rewrite Hids, Hidx in Hmt.
    destruct (nth_error (t_targets t) idx) as [x|] eqn:Ex; [|discriminate].
    destruct (ent_eqb tg x) eqn:Ee; [|discriminate]. apply sa_ent_eqb_eq in Ee. subst x.
    destruct (ri_reltabs_complete _ _ HR tid t a idx tg Ht Hf Ha Hrc Ex) as (m' & l & Hm' & Hl & Hinl).
    rewrite Em in Hm'. injection Hm' as <-. exists l. split; [exact Hl|exact Hinl]. }
  destruct (afind (fst tg) m) as [l|] eqn:El.
  - exists l. split; [reflexivity|]. destruct (ri_reltabs _ _ HR aid a idx m (fst tg) l Ha Em El) as (Hnd & _ & Hall).
    split; [exact Hnd|]. split.
    + intros tid Hl. destruct (Hall tid Hl) as (t & Ht & _ & Hfree). exists t. split; [exact Ht|]. split.
      * destruct (t_free t); [|reflexivity]. destruct (Hfree eq_refl) as [[] _].
      * destruct (wf_arch_tables s HW aid a tid Ha) as (t' & Ht' & Harch).
        { right. right. left. exists idx, m, (fst tg), l. split; [exact Em|]. split; [exact El|exact Hl]. }
        rewrite Ht in Ht'. injection Ht' as <-. exact Harch.
    + intros tid t Ht Hf Harch Hmt. destruct (Hcompl tid t Ht Hf Harch Hmt) as (l' & E & Hinl).
      injection E as <-. exact Hinl.
  - exists []. split; [reflexivity|]. split; [constructor|]. split; [intros tid []|].
    intros tid t Ht Hf Harch Hmt. destruct (Hcompl tid t Ht Hf Harch Hmt) as (l' & E & _). discriminate.
Qed.

Lemma r2k_arch_sel_spec : forall s f rels aid a, St2 s -> nth_error (w_archs s) aid = Some a ->
  filter_matches f (a_mask a) = true -> r2k_rels_ok s (f_mask f) rels ->
  match r2k_arch_sel (w_tables s) f rels a with
  | inr ts => NoDup ts /\ forall tid, In tid ts <-> r2k_of_arch s aid rels tid
  | inl e => e = EIndex /\ a_numrel a = 0 /\ a_tables a = []
  end.
Proof.
  intros s f rels aid a HS Ha Hm Hok. pose proof HS as (HW & (HR & _) & _).
  unfold r2k_arch_sel. rewrite Hm. cbn [negb]. destruct (arch_has_rels a) eqn:Eh; cbn [negb].
  - (* archetype with relation components *)
    assert (Hcand : forall cand, NoDup cand ->
      (forall tid, In tid cand -> exists t, nth_error (w_tables s) tid = Some t /\ t_free t = false /\ t_arch t = aid) ->
      (forall tid t, nth_error (w_tables s) tid = Some t -> t_free t = false -> t_arch t = aid ->
         tbl_matches t rels = Some true -> In tid cand) ->
      match k_tm_pure (w_tables s) rels false cand [] with
      | inr ts => NoDup ts /\ forall tid, In tid ts <-> r2k_of_arch s aid rels tid
      | inl e => e = EIndex /\ a_numrel a = 0 /\ a_tables a = []
      end).
    { intros cand Hnd Hsound Hcompl. rewrite r2k_tm_pure_filter.
      - cbn [rev app]. split; [apply NoDup_filter; exact Hnd|]. intros tid. rewrite filter_In, r2k_keep_iff. split.
        + intros (Hin & t & Ht & _ & Hmt). destruct (Hsound tid Hin) as (t' & Ht' & Hf & Harch).
          rewrite Ht in Ht'. injection Ht' as <-. exists t. repeat split; assumption.
        + intros (t & Ht & Hf & Harch & Hmt). split; [apply (Hcompl tid t Ht Hf Harch Hmt)|].
          exists t. split; [exact Ht|]. split; [discriminate|exact Hmt].
      - intros tid Hin. destruct (Hsound tid Hin) as (t & Ht & Hf & Harch). exists t. split; [exact Ht|]. intros _.
        rewrite <- Harch in Ha. apply (r2k_matches_some s f rels tid t a HW Ht Ha Hm). intros r Hr. apply (Hok r Hr). }
    destruct rels as [|[c tg] rest].
    + cbn [arch_get_tables]. apply Hcand.
      * apply (ri_nodup _ _ HR aid a Ha).
      * intros tid Hin. destruct (wf_arch_tables s HW aid a tid Ha (or_introl Hin)) as (t & Ht & Harch).
        exists t. split; [exact Ht|]. split; [apply (ri_active _ _ HR aid a tid t Ha Hin Ht)|exact Harch].
      * intros tid t Ht Hf Harch _. destruct (ri_listed _ _ HR tid t Ht) as (a' & Ha' & Hl).
        rewrite Harch, Ha in Ha'. injection Ha' as <-. rewrite Hf in Hl. exact Hl.
    + destruct (Hok (c, tg) (or_introl eq_refl)) as (Hc & Hmc). cbn [fst] in Hc, Hmc.
      destruct (r2k_get_tables_spec s aid a c tg rest HS Ha Eh Hc (r2k_filter_mask f _ _ Hm Hmc))
        as (cand & Ec & Hnd & Hsound & Hcompl).
      match goal with |- context [arch_get_tables a ?l] =>
        replace (arch_get_tables a l) with (Some cand) by (symmetry; exact Ec) end.
      apply Hcand; assumption.
  - (* archetype without relation components: its one table *)
    assert (Hn : a_numrel a = 0).
    { rewrite r2k_has_rels_numrel in Eh. apply negb_false_iff, Nat.eqb_eq in Eh. exact Eh. }
    destruct (a_tables a) as [|t0 rest] eqn:Et; [repeat split; assumption|].
    pose proof (wf_arch_norel_table s HW aid a Ha Hn) as Hlen. rewrite Et in Hlen. cbn [length] in Hlen.
    destruct rest; [|cbn [length] in Hlen; lia].
    split; [constructor; [intros []|constructor]|]. intros tid. split.
    + intros [<-|[]]. assert (Hin : In t0 (a_tables a)) by (rewrite Et; left; reflexivity).
      destruct (wf_arch_tables s HW aid a t0 Ha (or_introl Hin)) as (t & Ht & Harch).
      exists t. split; [exact Ht|]. split; [apply (ri_active _ _ HR aid a t0 t Ha Hin Ht)|]. split; [exact Harch|].
      rewrite <- Harch in Ha. destruct (ri_shape _ _ HR t0 t a Ht Ha) as (_ & _ & _ & Hnr).
      rewrite r2k_tbl_matches_eq. unfold tbl_has_rels. rewrite Hn in Hnr. destruct (t_rels t); [reflexivity|discriminate].
    + intros (t & Ht & Hf & Harch & _). destruct (ri_listed _ _ HR tid t Ht) as (a' & Ha' & Hl).
      rewrite Harch, Ha in Ha'. injection Ha' as <-. rewrite Hf, Et in Hl. destruct Hl as [<-|[]]. left. reflexivity.
Qed.

(** ** The uncached selection over a list of archetype ids *)

Fixpoint r2k_sel_list (T : list table) (A : list arch) (f : fobj) (rels : list rel) (L : list nat) : err + list nat :=
  match L with
  | [] => inr []
  | aid :: rest =>
      match nth_error A aid with
      | None => inl EIndex
      | Some a =>
          match r2k_arch_sel T f rels a with
          | inl e => inl e
          | inr ts => match r2k_sel_list T A f rels rest with inl e => inl e | inr l => inr (ts ++ l) end
          end
      end
  end.

Lemma r2k_nodup_app : forall A (l1 l2 : list A), NoDup l1 -> NoDup l2 -> (forall x, In x l1 -> ~ In x l2) -> NoDup (l1 ++ l2).
Proof.
  intros A l1. induction l1 as [|x l1 IH]; intros l2 H1 H2 Hd; [exact H2|].
  inversion H1 as [|? ? Hx Hl1]; subst. cbn [app]. constructor.
  - rewrite in_app_iff. intros [H|H]; [exact (Hx H)|]. apply (Hd x (or_introl eq_refl) H).
  - apply IH; [exact Hl1|exact H2|]. intros y Hy. apply Hd. right. exact Hy.
Qed.

Definition r2k_in_archs (s : W) (f : fobj) (rels : list rel) (L : list nat) (tid : nat) : Prop :=
  exists aid a, In aid L /\ nth_error (w_archs s) aid = Some a /\ filter_matches f (a_mask a) = true /\
                r2k_of_arch s aid rels tid.

Lemma r2k_sel_list_spec : forall s f rels, St2 s -> r2k_rels_ok s (f_mask f) rels ->
  forall L, NoDup L -> (forall aid, In aid L -> aid < length (w_archs s)) ->
  match r2k_sel_list (w_tables s) (w_archs s) f rels L with
  | inr l => NoDup l /\ forall tid, In tid l <-> r2k_in_archs s f rels L tid
  | inl e => e = EIndex /\ ~ r2k_tabled s f
  end.
Proof.
  intros s f rels HS Hok L. induction L as [|aid rest IH]; intros Hnd Hlt.
  - cbn [r2k_sel_list]. split; [constructor|]. intros tid. split; [intros []|intros (aid & a & [] & _)].
  - inversion Hnd as [|? ? Hnin Hnd']; subst. cbn [r2k_sel_list].
    destruct (nth_error (w_archs s) aid) as [a|] eqn:Ea.
    2:{ apply nth_error_None in Ea. specialize (Hlt aid (or_introl eq_refl)). lia. }
    assert (Hlt' : forall aid0, In aid0 rest -> aid0 < length (w_archs s)) by (intros aid0 H0; apply Hlt; right; exact H0).
    specialize (IH Hnd' Hlt').
    destruct (filter_matches f (a_mask a)) eqn:Em.
    + pose proof (r2k_arch_sel_spec s f rels aid a HS Ea Em Hok) as Hs.
      destruct (r2k_arch_sel (w_tables s) f rels a) as [e|ts].
      * destruct Hs as (-> & Hn & Ht). split; [reflexivity|]. intros Htab. apply (Htab aid a Ea Em Hn Ht).
      * destruct Hs as (Hnts & Hts).
        destruct (r2k_sel_list (w_tables s) (w_archs s) f rels rest) as [e|l]; [exact IH|].
        destruct IH as (Hnl & Hl). split.
        -- apply r2k_nodup_app; [exact Hnts|exact Hnl|]. intros tid H1 H2. apply Hts in H1. apply Hl in H2.
           destruct H1 as (t & Ht & _ & Harch & _). destruct H2 as (aid' & a' & Hin' & _ & _ & (t' & Ht' & _ & Harch' & _)).
           rewrite Ht in Ht'. injection Ht' as <-. apply Hnin. rewrite <- Harch, Harch'. exact Hin'.
        -- intros tid. rewrite in_app_iff, Hts, Hl. split.
           ++ intros [H|(aid' & a' & Hin' & R)].
              ** exists aid, a. split; [left; reflexivity|]. split; [exact Ea|]. split; [exact Em|exact H].
              ** exists aid', a'. split; [right; exact Hin'|exact R].
           ++ intros (aid' & a' & [<-|Hin'] & Ha' & Hm' & Ho); [left; exact Ho|].
              right. exists aid', a'. repeat split; assumption.
    + assert (Es : r2k_arch_sel (w_tables s) f rels a = inr []) by (unfold r2k_arch_sel; rewrite Em; reflexivity).
      rewrite Es. destruct (r2k_sel_list (w_tables s) (w_archs s) f rels rest) as [e|l]; [exact IH|].
      destruct IH as (Hnl & Hl). cbn [app]. split; [exact Hnl|]. intros tid. rewrite Hl. split.
      * intros (aid' & a' & Hin' & R). exists aid', a'. split; [right; exact Hin'|exact R].
      * intros (aid' & a' & [<-|Hin'] & Ha' & Hm' & Ho); [rewrite Ea in Ha'; injection Ha' as <-; congruence|].
        exists aid', a'. repeat split; assumption.
Qed.

(** When the list covers every matching archetype, the selection is [r2k_sel]. *)
Lemma r2k_in_archs_sel : forall s f rels L tid,
  (forall aid a, nth_error (w_archs s) aid = Some a -> filter_matches f (a_mask a) = true -> In aid L) ->
  (r2k_in_archs s f rels L tid <-> r2k_sel s f rels tid).
Proof.
  intros s f rels L tid Hc. split.
  - intros (aid & a & _ & Ha & Hm & (t & Ht & Hf & Harch & Hmt)). exists t, a. rewrite Harch. repeat split; assumption.
  - intros (t & a & Ht & Hf & Ha & Hm & Hmt). exists (t_arch t), a. split; [apply (Hc _ a Ha Hm)|].
    split; [exact Ha|]. split; [exact Hm|]. exists t. repeat split; assumption.
Qed.

(** *** [uncached_tables] is the selection over all archetypes *)

Lemma r2k_upure_sel : forall T f rels A suf pre acc, A = pre ++ suf ->
  k_upure T f rels suf acc =
  match r2k_sel_list T A f rels (seq (length pre) (length suf)) with inl e => inl e | inr l => inr (acc ++ l) end.
Proof.
  intros T f rels A suf. induction suf as [|a suf IH]; intros pre acc E.
  - cbn [length seq r2k_sel_list k_upure]. rewrite app_nil_r. reflexivity.
  - assert (E' : A = (pre ++ [a]) ++ suf) by (rewrite <- app_assoc; exact E).
    assert (Hl : length (pre ++ [a]) = S (length pre)) by (rewrite app_length; cbn [length]; lia).
    cbn [length seq r2k_sel_list k_upure].
    assert (Hn : nth_error A (length pre) = Some a).
    { rewrite E, nth_error_app2 by lia. rewrite Nat.sub_diag. reflexivity. }
    rewrite Hn. unfold r2k_arch_sel.
    destruct (negb (filter_matches f (a_mask a))).
    { rewrite (IH (pre ++ [a]) acc E'), Hl. destruct (r2k_sel_list T A f rels (seq (S (length pre)) (length suf))); reflexivity. }
    destruct (negb (arch_has_rels a)).
    { destruct (a_tables a) as [|t0 ?]; [reflexivity|].
      rewrite (IH (pre ++ [a]) (acc ++ [t0]) E'), Hl.
      destruct (r2k_sel_list T A f rels (seq (S (length pre)) (length suf))); [reflexivity|].
      rewrite <- app_assoc. reflexivity. }
    destruct (arch_get_tables a rels) as [cand|]; [|reflexivity].
    destruct (k_tm_pure T rels false cand []) as [e|ts]; [reflexivity|].
    rewrite (IH (pre ++ [a]) (acc ++ ts) E'), Hl.
    destruct (r2k_sel_list T A f rels (seq (S (length pre)) (length suf))); [reflexivity|].
    rewrite <- app_assoc. reflexivity.
Qed.

Lemma r2k_uncached_sel : forall f rels s,
  uncached_tables f rels s =
  k_inj (r2k_sel_list (w_tables s) (w_archs s) f rels (seq 0 (length (w_archs s)))) s.
Proof.
  intros f rels s. rewrite k_uncached_pure. rewrite (r2k_upure_sel (w_tables s) f rels (w_archs s) (w_archs s) [] [] eq_refl).
  cbn [length app]. destruct (r2k_sel_list _ _ _ _ _); reflexivity.
Qed.

(** The specification of the uncached walk in every [St2] state. *)
Theorem r2k_uncached_spec : forall s f rels, St2 s -> r2k_rels_ok s (f_mask f) rels ->
  match uncached_tables f rels s with
  | Ok l s' => s' = s /\ NoDup l /\ forall tid, In tid l <-> r2k_sel s f rels tid
  | Err e s' => s' = s /\ e = EIndex /\ ~ r2k_tabled s f
  end.
Proof.
  intros s f rels HS Hok. rewrite r2k_uncached_sel.
  pose proof (r2k_sel_list_spec s f rels HS Hok (seq 0 (length (w_archs s))) (seq_NoDup _ _)) as H.
  assert (Hlt : forall aid, In aid (seq 0 (length (w_archs s))) -> aid < length (w_archs s)) by (intros aid Hi; apply in_seq in Hi; lia).
  specialize (H Hlt). destruct (r2k_sel_list _ _ _ _ _) as [e|l]; cbn [k_inj].
  - split; [reflexivity|exact H].
  - destruct H as (Hnd & Hl). split; [reflexivity|]. split; [exact Hnd|]. intros tid. rewrite Hl.
    apply r2k_in_archs_sel. intros aid a Ha _. apply in_seq. pose proof (sa_nth_error_lt _ _ _ _ Ha). lia.
Qed.

Lemma r2k_uncached_ok : forall s f rels, St2 s -> r2k_rels_ok s (f_mask f) rels -> r2k_tabled s f ->
  exists l, uncached_tables f rels s = Ok l s.
Proof.
  intros s f rels HS Hok Ht. pose proof (r2k_uncached_spec s f rels HS Hok) as H.
  destruct (uncached_tables f rels s) as [l s'|e s'].
  - destruct H as (-> & _). exists l. reflexivity.
  - destruct H as (_ & _ & Hn). contradiction.
Qed.

(** ** The cached side *)

Lemma r2k_member_sel : forall s f rels tid, r2_cache_member s f rels tid <-> r2k_sel s f rels tid.
Proof.
  intros s f rels tid. unfold r2_cache_member, r2k_sel. split.
  - intros (t & a & Ht & Hf & Ha & Hm & Hr). exists t, a. repeat split; try assumption.
    destruct (t_rels t) eqn:Er; [|apply Hr; discriminate].
    rewrite r2k_tbl_matches_eq. unfold tbl_has_rels. rewrite Er. reflexivity.
  - intros (t & a & Ht & Hf & Ha & Hm & Hr). exists t, a. repeat split; try assumption. intros _. exact Hr.
Qed.

Lemma r2k_sel_app : forall s f l1 l2 tid, r2k_sel s f (l1 ++ l2) tid <-> r2k_sel s f l1 tid /\ r2k_sel s f l2 tid.
Proof.
  intros s f l1 l2 tid. unfold r2k_sel. split.
  - intros (t & a & Ht & Hf & Ha & Hm & Hr). apply r2k_tbl_matches_app in Hr. destruct Hr as [R1 R2].
    split; exists t, a; repeat split; assumption.
  - intros [(t & a & Ht & Hf & Ha & Hm & R1) (t' & a' & Ht' & _ & _ & _ & R2)].
    rewrite Ht in Ht'. injection Ht' as <-. exists t, a. repeat split; try assumption.
    apply r2k_tbl_matches_app. split; assumption.
Qed.

Lemma r2k_sel_twin : forall s f f' rels tid, f_mask f' = f_mask f -> f_without f' = f_without f ->
  f_haswithout f' = f_haswithout f -> (r2k_sel s f' rels tid <-> r2k_sel s f rels tid).
Proof.
  intros s f f' rels tid E1 E2 E3. unfold r2k_sel, filter_matches. rewrite E1, E2, E3. tauto.
Qed.

(** What the cached path ([get_batch_tables], [query_walk], [query_next_table], EntityAt) computes
    from the entry: it walks [ce_tables e], re-checks only the PER-QUERY relations [rels] (Go:
    [start := numRelations]) and, where [b = true], skips empty tables. It never panics, and selects
    exactly the tables that match the entry's fixed relations followed by the per-query ones. *)
Lemma r2k_cached_spec : forall s addr e f rels b, St2 s -> In addr (w_centries s) ->
  nth_error (w_cheap s) addr = Some e -> nth_error (w_filters s) (ce_filter e) = Some f ->
  (forall r, In r rels -> mk_get (f_mask f) (fst r) = true) ->
  exists lc, tables_matching s (ce_tables e) rels b = Ok lc s /\ NoDup lc /\
    lc = filter (r2k_keep (w_tables s) rels b) (ce_tables e) /\
    forall tid, In tid lc <-> (r2k_sel s f (ce_rels e ++ rels) tid /\ (b = true -> r2k_nonempty s tid)).
Proof.
  intros s addr e f rels b (HW & _ & HC) Hin He Hf Hr.
  destruct (ci_entry _ _ HC addr e f Hin He Hf) as (Hnd & _ & _ & Hmem).
  exists (filter (r2k_keep (w_tables s) rels b) (ce_tables e)). split; [|split; [apply NoDup_filter; exact Hnd|split; [reflexivity|]]].
  - rewrite k_tables_matching_pure, r2k_tm_pure_filter; [reflexivity|].
    intros tid Ht. apply (Hmem tid (fun x => x)) in Ht. destruct Ht as (t & a & Ht & _ & Ha & Hm & _).
    exists t. split; [exact Ht|]. intros _. apply (r2k_matches_some s f rels tid t a HW Ht Ha Hm Hr).
  - intros tid. rewrite filter_In, (Hmem tid (fun x => x)), r2k_member_sel, r2k_sel_app, r2k_keep_iff. split.
    + intros (Hs & t & Ht & Hb & Hmt). split; [split; [exact Hs|]|].
      * destruct Hs as (t' & a & Ht' & Hfr & Ha & Hm & _). rewrite Ht in Ht'. injection Ht' as <-.
        exists t, a. repeat split; assumption.
      * intros Eb. exists t. split; [exact Ht|apply Hb; exact Eb].
    + intros ((Hs & (t & a & Ht & _ & _ & _ & Hmt)) & Hne). split; [exact Hs|].
      exists t. split; [exact Ht|]. split; [|exact Hmt].
      intros Eb. destruct (Hne Eb) as (t' & Ht' & Hl). rewrite Ht in Ht'. injection Ht' as <-. exact Hl.
Qed.

(** ** 1. The tables of the cached path = the tables of the uncached path *)

(** Registered filter [f] (index [fi]) with entry [e]; per-query relations [rels].
    - cached path: walks [ce_tables e], checks [tbl_matches t rels] (only the per-query relations;
      the fixed ones [ce_rels e] were checked when the table entered the entry), skips empty tables;
    - uncached path: [uncached_tables f (ce_rels e ++ rels)] (all relations, empty tables included).
    The cached walk never fails; the uncached one fails only with an index error, and only if a
    matching relation-free archetype has no table ([~ r2k_tabled]); otherwise both lists are
    duplicate-free and the cached one consists of the NON-EMPTY tables of the uncached one. *)
Theorem r2k_cached_tables_exact : forall s fi f cid addr e rels,
  St2 s -> nth_error (w_filters s) fi = Some f -> f_cache f = Some cid ->
  entry_addr s cid = Some addr -> nth_error (w_cheap s) addr = Some e -> ce_filter e = fi ->
  In addr (w_centries s) ->
  r2k_rels_ok s (f_mask f) (ce_rels e) -> r2k_rels_ok s (f_mask f) rels ->
  exists lc, tables_matching s (ce_tables e) rels true = Ok lc s /\ NoDup lc /\
    match uncached_tables f (ce_rels e ++ rels) s with
    | Ok lu s' => s' = s /\ NoDup lu /\
                  (forall tid, In tid lc <-> In tid lu /\ r2k_nonempty s tid) /\
                  Permutation lc (filter (fun tid => match nth_error (w_tables s) tid with
                                                     | Some t => negb (Nat.eqb (t_len t) 0) | None => false end) lu)
    | Err x s' => s' = s /\ x = EIndex /\ ~ r2k_tabled s f
    end.
Proof.
  intros s fi f cid addr e rels HS Hf _ _ He Hfi Hin Hok1 Hok2. subst fi.
  destruct (r2k_cached_spec s addr e f rels true HS Hin He Hf (fun r Hr => proj2 (Hok2 r Hr)))
    as (lc & Hc & Hnd & _ & Hlc).
  exists lc. split; [exact Hc|]. split; [exact Hnd|].
  assert (Hok : r2k_rels_ok s (f_mask f) (ce_rels e ++ rels)).
  { intros r Hr. apply in_app_iff in Hr. destruct Hr as [Hr|Hr]; [apply Hok1|apply Hok2]; exact Hr. }
  pose proof (r2k_uncached_spec s f (ce_rels e ++ rels) HS Hok) as Hu.
  destruct (uncached_tables f (ce_rels e ++ rels) s) as [lu s'|x s']; [|exact Hu].
  destruct Hu as (-> & Hndu & Hlu). split; [reflexivity|]. split; [exact Hndu|].
  assert (Hiff : forall tid, In tid lc <-> In tid lu /\ r2k_nonempty s tid).
  { intros tid. rewrite Hlc, Hlu. split; [intros [H1 H2]; split; [exact H1|apply H2; reflexivity]|intros [H1 H2]; split; [exact H1|intros _; exact H2]]. }
  split; [exact Hiff|]. apply NoDup_Permutation; [exact Hnd|apply NoDup_filter; exact Hndu|].
  intros tid. rewrite Hiff, filter_In. unfold r2k_nonempty. split.
  - intros (H1 & t & Ht & Hl). split; [exact H1|]. rewrite Ht. apply negb_true_iff, Nat.eqb_neq. exact Hl.
  - intros (H1 & H2). split; [exact H1|]. destruct (nth_error (w_tables s) tid) as [t|]; [|discriminate].
    exists t. split; [reflexivity|]. apply negb_true_iff, Nat.eqb_neq in H2. exact H2.
Qed.

(** ** 4. Batch table selection *)

(** [get_batch_tables] is handed the list [batch_rels] computes: the per-call relations [rels] for a
    registered filter, [f_rels f' ++ rels] for an unregistered one. The consumers (RemoveEntities,
    ExchangeBatch, SetRelationsBatch) skip empty tables. *)
Theorem r2k_batch_selection_same : forall s fi f cid addr e fi' f' rels,
  St2 s -> nth_error (w_filters s) fi = Some f -> f_cache f = Some cid ->
  entry_addr s cid = Some addr -> nth_error (w_cheap s) addr = Some e -> ce_filter e = fi ->
  In addr (w_centries s) -> ce_rels e = f_rels f ->
  nth_error (w_filters s) fi' = Some f' -> f_cache f' = None ->
  f_mask f' = f_mask f -> f_without f' = f_without f -> f_haswithout f' = f_haswithout f -> f_rels f' = f_rels f ->
  r2k_rels_ok s (f_mask f) (f_rels f) -> r2k_rels_ok s (f_mask f) rels ->
  exists lc, get_batch_tables fi rels s = Ok lc s /\ NoDup lc /\
    match get_batch_tables fi' (f_rels f' ++ rels) s with
    | Ok lu s' => s' = s /\ NoDup lu /\
                  (forall tid, In tid lc <-> In tid lu /\ r2k_nonempty s tid) /\
                  Permutation lc (filter (fun tid => match nth_error (w_tables s) tid with
                                                     | Some t => negb (Nat.eqb (t_len t) 0) | None => false end) lu)
    | Err x s' => s' = s /\ x = EIndex /\ ~ r2k_tabled s f'
    end.
Proof.
  intros s fi f cid addr e fi' f' rels HS Hf Hc Hea He Hfi Hin Hrels Hf' Hc' E1 E2 E3 E4 Hok1 Hok2.
  rewrite <- Hrels in Hok1.
  destruct (r2k_cached_tables_exact s fi f cid addr e rels HS Hf Hc Hea He Hfi Hin Hok1 Hok2) as (lc & Hlc & Hnd & Hu).
  exists lc. split; [|split; [exact Hnd|]].
  - unfold get_batch_tables. rewrite (q_bind_getF _ s fi f _ Hf), Hc, q_bind_get.
    unfold entry_addr in Hea. rewrite Hea. unfold bind at 1. rewrite He. cbn [of_opt ret]. exact Hlc.
  - unfold get_batch_tables. rewrite (q_bind_getF _ s fi' f' _ Hf'), Hc'.
    assert (Eu : uncached_tables f' (f_rels f' ++ rels) s = uncached_tables f (ce_rels e ++ rels) s).
    { rewrite !k_uncached_pure, E4, Hrels. f_equal.
      assert (G : forall l acc, k_upure (w_tables s) f' (f_rels f ++ rels) l acc = k_upure (w_tables s) f (f_rels f ++ rels) l acc).
      { induction l as [|a l IH]; intros acc; [reflexivity|]. cbn [k_upure]. unfold filter_matches. rewrite E1, E2, E3.
        destruct (negb _); [apply IH|]. destruct (negb (arch_has_rels a)).
        - destruct (a_tables a); [reflexivity|apply IH].
        - destruct (arch_get_tables a (f_rels f ++ rels)); [|reflexivity].
          destruct (k_tm_pure _ _ _ _ _); [reflexivity|apply IH]. }
      apply G. }
    rewrite Eu. destruct (uncached_tables f (ce_rels e ++ rels) s) as [lu s'|x s']; [exact Hu|].
    destruct Hu as (-> & -> & Hn). split; [reflexivity|]. split; [reflexivity|]. intros Ht. apply Hn.
    intros aid a Ha Hm. apply (Ht aid a Ha). unfold filter_matches in *. rewrite E1, E2, E3. exact Hm.
Qed.

(** ** Queries *)

Lemma r2k_St2_frame : forall s s', St2 s -> query_frame s s' -> St2 s'.
Proof.
  intros s s' (HW & (HR & HT) & HC)
    (E1 & E2 & E3 & E4 & E5 & E6 & E7 & E8 & E9 & E10 & E11 & E12 & E13 & E14 & E15 & E16 & E17 & _).
  split; [apply (sa_WF_ext s s'); assumption|]. split; [split|].
  - apply (r2_RelInvG_ext s s'); assumption.
  - intros aid a k l Ha Hk. rewrite E6 in Ha. rewrite E5. apply (HT aid a k l Ha Hk).
  - apply (r2_CacheInvG_ext s s'); assumption.
Qed.

Lemma r2k_sel_ext : forall s s' f rels tid, w_tables s' = w_tables s -> w_archs s' = w_archs s ->
  (r2k_sel s' f rels tid <-> r2k_sel s f rels tid).
Proof. intros s s' f rels tid Et Ea. unfold r2k_sel. rewrite Et, Ea. tauto. Qed.

Lemma r2k_nonempty_ext : forall s s' tid, w_tables s' = w_tables s -> (r2k_nonempty s' tid <-> r2k_nonempty s tid).
Proof. intros s s' tid Et. unfold r2k_nonempty. rewrite Et. tauto. Qed.

(** The (table, length) pairs Count and EntityAt walk. *)
Definition r2k_pairs (s : W) (l : list nat) : list (nat * nat) :=
  map (fun tid => (tid, match nth_error (w_tables s) tid with Some t => t_len t | None => 0 end)) l.

Lemma r2k_count_tables : forall s tabs rels b l, tables_matching s tabs rels b = Ok l s ->
  count_tables s tabs rels b = Ok (r2k_pairs s l) s.
Proof. intros s tabs rels b l H. unfold count_tables. rewrite H. reflexivity. Qed.

(** The uncached walk of Count / EntityAt is the selection over the query's archetype list. *)
Lemma r2k_walk_go_sel : forall s f q, WF s -> forall L acc,
  q_walk_go f q L acc s =
  match r2k_sel_list (w_tables s) (w_archs s) f (q_rels q) L with
  | inl e => Err e s
  | inr l => Ok (acc ++ r2k_pairs s l) s
  end.
Proof.
  intros s f q HW L. induction L as [|aid rest IH]; intros acc.
  - cbn [r2k_sel_list r2k_pairs map]. rewrite app_nil_r. reflexivity.
  - rewrite q_walk_go_cons. cbn [r2k_sel_list]. destruct (nth_error (w_archs s) aid) as [a|] eqn:Ea.
    2:{ assert (G : getA aid s = Err EIndex s) by (unfold getA, bind, get, of_opt; cbv beta; rewrite Ea; reflexivity).
        unfold bind at 1. rewrite G. reflexivity. }
    rewrite (q_bind_getA _ s aid a _ Ea). unfold r2k_arch_sel.
    destruct (negb (filter_matches f (a_mask a))).
    { rewrite IH. destruct (r2k_sel_list _ _ _ _ rest); reflexivity. }
    destruct (negb (arch_has_rels a)).
    { destruct (a_tables a) as [|t0 r] eqn:Et; [reflexivity|].
      destruct (wf_arch_tables s HW aid a t0 Ea) as (t & Ht & _); [left; rewrite Et; left; reflexivity|].
      rewrite (q_bind_getT _ s t0 t _ Ht), IH. destruct (r2k_sel_list _ _ _ _ rest); [reflexivity|].
      cbn [app r2k_pairs map]. rewrite Ht, <- app_assoc. reflexivity. }
    destruct (arch_get_tables a (q_rels q)) as [cand|]; [|reflexivity].
    cbn [of_opt]. rewrite q_bind_ret. unfold bind at 1. unfold count_tables. rewrite k_tables_matching_pure.
    destruct (k_tm_pure (w_tables s) (q_rels q) false cand []) as [e|ts]; cbn [k_inj]; [reflexivity|].
    rewrite IH. destruct (r2k_sel_list _ _ _ _ rest); [reflexivity|].
    unfold r2k_pairs. rewrite map_app, <- app_assoc. reflexivity.
Qed.

Lemma r2k_walk_uncached : forall s qi q f, WF s -> nth_error (w_queries s) qi = Some q -> q_cache q = None ->
  nth_error (w_filters s) (q_filter q) = Some f ->
  query_walk qi s =
  match r2k_sel_list (w_tables s) (w_archs s) f (q_rels q) (query_archetypes s q) with
  | inl e => Err e s
  | inr l => Ok (r2k_pairs s l) s
  end.
Proof.
  intros s qi q f HW Hq Hc Hf. rewrite q_walk_eq, (q_bind_getQ _ s qi q _ Hq), q_bind_get, Hc.
  rewrite (q_bind_getF _ s _ f _ Hf), (r2k_walk_go_sel s f q HW). reflexivity.
Qed.

Lemma r2k_walk_cached : forall s qi q addr e, nth_error (w_queries s) qi = Some q -> q_cache q = Some addr ->
  nth_error (w_cheap s) addr = Some e ->
  query_walk qi s = count_tables s (ce_tables e) (q_rels q) true.
Proof.
  intros s qi q addr e Hq Hc He. rewrite q_walk_eq, (q_bind_getQ _ s qi q _ Hq), q_bind_get, Hc.
  unfold bind at 1. rewrite He. reflexivity.
Qed.

(** *** The archetype list of an uncached query *)

(** [w_compindex] (storage.componentIndex: for every component the archetypes that have it) is used
    by uncached queries only. Neither [WF] nor [St2] constrains its CONTENT, so the comparison of a
    cached with an uncached QUERY needs this additional invariant (checked on reachable states below,
    and established by [create_archetype], the only writer). *)
Definition r2k_cidx_ok (s : W) : Prop :=
  forall c, NoDup (nth c (w_compindex s) []) /\
    forall aid, In aid (nth c (w_compindex s) []) <->
                exists a, nth_error (w_archs s) aid = Some a /\ mk_get (a_mask a) c = true.

Definition r2k_rstep (s : W) (best : nat * option nat) (c : nat) : nat * option nat :=
  let cnt := nth c (w_archcount s) 0 in
  match snd best with
  | None => (c, Some cnt)
  | Some b => if Nat.ltb cnt b then (c, Some cnt) else best
  end.

Lemma r2k_rare_step : forall s l best,
  fst (fold_left (r2k_rstep s) l best) = fst best \/ In (fst (fold_left (r2k_rstep s) l best)) l.
Proof.
  intros s l. induction l as [|c l IH]; intros best; [left; reflexivity|].
  cbn [fold_left]. destruct (IH (r2k_rstep s best c)) as [H|H].
  - rewrite H. unfold r2k_rstep. destruct (snd best); [|right; left; reflexivity].
    destruct (Nat.ltb _ _); [right; left; reflexivity|left; reflexivity].
  - right. right. exact H.
Qed.

Lemma r2k_rare_in : forall s ids, ids <> [] -> In (rare_component s ids) ids.
Proof.
  intros s [|c l] H; [congruence|].
  change (rare_component s (c :: l)) with (fst (fold_left (r2k_rstep s) l (r2k_rstep s (0, None) c))).
  destruct (r2k_rare_step s l (r2k_rstep s (0, None) c)) as [E|E].
  - left. rewrite E. reflexivity.
  - right. exact E.
Qed.

(** The archetype list an uncached query walks is duplicate-free, in range, and contains every
    archetype the filter matches, provided the rare-component hint is a component of the filter. *)
Lemma r2k_query_archs : forall s f q, WF s -> r2k_cidx_ok s ->
  (q_rare q = None \/ exists c, q_rare q = Some c /\ mk_get (f_mask f) c = true) ->
  NoDup (query_archetypes s q) /\
  (forall aid, In aid (query_archetypes s q) -> aid < length (w_archs s)) /\
  (forall aid a, nth_error (w_archs s) aid = Some a -> filter_matches f (a_mask a) = true -> In aid (query_archetypes s q)).
Proof.
  intros s f q HW Hci [Hr|(c & Hr & Hc)]; unfold query_archetypes; rewrite Hr.
  - split; [apply seq_NoDup|]. split; [intros aid H; apply in_seq in H; lia|].
    intros aid a Ha _. apply in_seq. pose proof (sa_nth_error_lt _ _ _ _ Ha). lia.
  - destruct (Hci c) as (Hnd & Hin). split; [exact Hnd|]. split.
    + intros aid H. apply Hin in H. destruct H as (a & Ha & _). apply (sa_nth_error_lt _ _ _ _ Ha).
    + intros aid a Ha Hm. apply Hin. exists a. split; [exact Ha|apply (r2k_filter_mask f _ _ Hm Hc)].
Qed.

(** *** What [to_relations] and [query_open] establish *)

Lemma r2k_to_relations_ok : forall m rels s s', to_relations m rels s = Ok tt s' -> s' = s /\ r2k_rels_ok s m rels.
Proof.
  intros m rels s s' H. pose proof (readonly_to_relations m rels s) as Hro. rewrite H in Hro. cbn [state_of] in Hro.
  split; [exact Hro|]. subst s'. revert H. unfold to_relations. induction rels as [|r rest IH]; intros H.
  - intros r [].
  - cbn [forM_] in H. unfold bind at 1 in H. unfold bind at 1 in H. cbn [get] in H.
    unfold bind at 1 in H. destruct (Nat.eqb (fst (snd r)) 0 || alive s (snd r))%bool; [|discriminate]. cbn [guard ret] in H.
    unfold bind at 1 in H. destruct (is_rel_comp s (fst r)) eqn:E1; [|discriminate]. cbn [guard ret] in H.
    destruct (mk_get m (fst r)) eqn:E2; [|discriminate]. cbn [guard ret] in H.
    intros r' [<-|Hr]; [split; assumption|]. apply (IH H r' Hr).
Qed.

Lemma r2k_query_open_inv : forall fi rels s qi s1 f, nth_error (w_filters s) fi = Some f ->
  query_open fi rels s = Ok qi s1 ->
  (f_unsafe f = false -> r2k_rels_ok s (f_mask f) rels) /\
  query_frame s s1 /\
  exists q, nth_error (w_queries s1) qi = Some q /\ q_filter q = fi /\
    q_rels q = (match f_cache f with Some _ => rels | None => f_rels f ++ rels end) /\
    q_cache q = (match f_cache f with Some cid => entry_addr s cid | None => None end) /\
    q_rare q = (if (f_unsafe f || is_nil (f_ids f))%bool then None
                else match f_cache f with Some _ => Some 0 | None => Some (rare_component s (f_ids f)) end) /\
    q_arch q = 1 /\ q_tab q = 1 /\ q_max q = None /\ q_index q = 0 /\ q_table q = None /\ q_tables q = [] /\
    mk_get (lk_mask (w_lock s1)) (q_lock q) = true.
Proof.
  intros fi rels s qi s1 f Hf H.
  pose proof (query_open_frame fi rels s) as Hfr. rewrite H in Hfr. cbn [state_of] in Hfr.
  unfold query_open in H. rewrite (q_bind_getF _ s fi f _ Hf) in H.
  unfold bind at 1 in H.
  destruct (whenM (negb (f_unsafe f)) (to_relations (f_mask f) rels) s) as [[] s0|] eqn:Ew; [|discriminate].
  assert (Hs0 : s0 = s /\ (f_unsafe f = false -> r2k_rels_ok s (f_mask f) rels)).
  { destruct (f_unsafe f); cbn [negb whenM] in Ew.
    - inversion Ew. split; [reflexivity|discriminate].
    - apply r2k_to_relations_ok in Ew. destruct Ew as [-> Hok]. split; [reflexivity|intros _; exact Hok]. }
  destruct Hs0 as (-> & Hok). split; [exact Hok|]. split; [exact Hfr|].
  rewrite q_bind_get in H. unfold bind at 1 in H.
  match type of H with match ?X with _ => _ end = _ => destruct X as [cache s'|] eqn:Ec; [|discriminate] end.
  assert (Hc : s' = s /\ cache = match f_cache f with Some cid => entry_addr s cid | None => None end).
  { destruct (f_cache f) as [cid|]; [|inversion Ec; split; reflexivity].
    unfold bind in Ec. destruct (entry_addr s cid) as [a|]; cbn [of_opt ret fail] in Ec; [|discriminate].
    inversion Ec. split; reflexivity. }
  destruct Hc as (-> & Hcache). clear Ec.
  unfold bind at 1 in H. unfold lockM in H. rewrite q_bind_get in H.
  destruct (lock_lock (w_lock s)) as [[b l']|] eqn:El; [|discriminate].
  unfold bind at 1 in H. cbn [put] in H. cbn [ret] in H. rewrite q_bind_get in H.
  unfold bind at 1 in H. cbn [put] in H. cbn [ret] in H. inversion H; subst qi s1. clear H.
  match goal with |- context [RecordSet.set w_queries (fun l => l ++ [?q0])] => exists q0 end.
  split.
  - match goal with |- nth_error _ _ = Some ?q0 => change (nth_error (w_queries s ++ [q0]) (length (w_queries s)) = Some q0) end.
    rewrite nth_error_app2 by lia. rewrite Nat.sub_diag. reflexivity.
  - cbn [q_filter q_rels q_cache q_rare q_arch q_tab q_max q_index q_table q_tables q_lock].
    repeat (split; [reflexivity|]). split; [exact Hcache|]. repeat (split; [reflexivity|]).
    change (mk_get (lk_mask l') b = true).
    unfold lock_lock in El. destruct (ipool_get (Some 64) (lk_pool (w_lock s))) as [[b0 p']|]; [|discriminate].
    inversion El; subst. cbn [lk_mask]. rewrite MaskProofs.mk_get_set, Nat.eqb_refl. reflexivity.
Qed.

(** ** 2./3. A query of a registered filter and a query of its unregistered twin *)

(** [fi] is a registered filter (built by FilterN, not an UnsafeFilter - those cannot be registered in
    Go) whose cache entry is [e]; the entry carries the filter's fixed relations. *)
Definition r2k_registered (s : W) (fi : nat) (f : fobj) (e : centry) : Prop :=
  nth_error (w_filters s) fi = Some f /\ f_unsafe f = false /\
  exists cid addr, f_cache f = Some cid /\ entry_addr s cid = Some addr /\
    nth_error (w_cheap s) addr = Some e /\ ce_filter e = fi /\ ce_rels e = f_rels f /\ In addr (w_centries s).

(** [fi'] is an identical filter that is not registered: same mask, same Without / Exclusive mask,
    same fixed relations; its component list lies in its mask (as for every filter built from ids). *)
Definition r2k_twin_of (s : W) (f : fobj) (fi' : nat) (f' : fobj) : Prop :=
  nth_error (w_filters s) fi' = Some f' /\ f_cache f' = None /\
  f_mask f' = f_mask f /\ f_without f' = f_without f /\ f_haswithout f' = f_haswithout f /\
  f_rels f' = f_rels f /\ (forall c, In c (f_ids f') -> mk_get (f_mask f') c = true).

Lemma r2k_rels_ok_ext : forall s s' m rels, w_reg s' = w_reg s -> r2k_rels_ok s m rels -> r2k_rels_ok s' m rels.
Proof. intros s s' m rels E H r Hr. unfold is_rel_comp. rewrite E. apply (H r Hr). Qed.

Lemma r2k_cidx_ok_ext : forall s s', w_compindex s' = w_compindex s -> w_archs s' = w_archs s -> r2k_cidx_ok s -> r2k_cidx_ok s'.
Proof. intros s s' E1 E2 H c. rewrite E1, E2. apply H. Qed.

Lemma r2k_tabled_twin : forall s f f', f_mask f' = f_mask f -> f_without f' = f_without f ->
  f_haswithout f' = f_haswithout f -> (r2k_tabled s f' <-> r2k_tabled s f).
Proof. intros s f f' E1 E2 E3. unfold r2k_tabled, filter_matches. rewrite E1, E2, E3. tauto. Qed.

Lemma r2k_pairs_ext : forall s s' l, w_tables s' = w_tables s -> r2k_pairs s' l = r2k_pairs s l.
Proof. intros s s' l E. unfold r2k_pairs. rewrite E. reflexivity. Qed.

(** The walks of Count / EntityAt: the cached query never fails; the uncached one fails only (index
    error) when a matching relation-free archetype has no table; otherwise the cached walk consists
    of the non-empty tables of the uncached walk (which also lists empty tables, with length 0). *)
Theorem r2k_walk_same : forall s fi f e fi' f' rels qi s1 qi' s1',
  St2 s -> r2k_cidx_ok s -> r2k_registered s fi f e -> r2k_twin_of s f fi' f' ->
  r2k_rels_ok s (f_mask f) (f_rels f) ->
  query_open fi rels s = Ok qi s1 -> query_open fi' rels s = Ok qi' s1' ->
  exists lc, query_walk qi s1 = Ok (r2k_pairs s lc) s1 /\ NoDup lc /\
    match query_walk qi' s1' with
    | Ok wu s2 => s2 = s1' /\ exists lu, wu = r2k_pairs s lu /\ NoDup lu /\
                  (forall tid, In tid lu <-> r2k_sel s f (f_rels f ++ rels) tid) /\
                  (forall tid, In tid lc <-> In tid lu /\ r2k_nonempty s tid)
    | Err x s2 => s2 = s1' /\ x = EIndex /\ ~ r2k_tabled s f
    end.
Proof.
  intros s fi f e fi' f' rels qi s1 qi' s1' HS Hci (Hf & Hun & cid & addr & Hc & Hea & He & Hfi & Hrels & Hin)
    (Hf' & Hc' & E1 & E2 & E3 & E4 & Hids) Hokf Ho Ho'.
  destruct (r2k_query_open_inv fi rels s qi s1 f Hf Ho) as (Hok & Hfr & q & Hq & _ & Hqr & Hqc & _).
  destruct (r2k_query_open_inv fi' rels s qi' s1' f' Hf' Ho') as (_ & Hfr' & q' & Hq' & Hqf' & Hqr' & Hqc' & Hrare' & _).
  specialize (Hok Hun). rewrite Hc in Hqr, Hqc. rewrite Hea in Hqc. rewrite Hc' in Hqr', Hqc', Hrare'.
  pose proof (r2k_St2_frame s s1 HS Hfr) as HS1. pose proof (r2k_St2_frame s s1' HS Hfr') as HS1'.
  pose proof Hfr as (_ & Fr & _ & _ & _ & Fa & Ft & _ & Fc & _ & _ & Fh & Fe & _ & Ff & _).
  pose proof Hfr' as (_ & Fr' & _ & _ & _ & Fa' & Ft' & _ & Fc' & _ & _ & Fh' & Fe' & _ & Ff' & _).
  (* the cached walk *)
  assert (He1 : nth_error (w_cheap s1) addr = Some e) by (rewrite Fh; exact He).
  assert (Hf1 : nth_error (w_filters s1) (ce_filter e) = Some f) by (rewrite Ff, Hfi; exact Hf).
  assert (Hin1 : In addr (w_centries s1)) by (rewrite Fe; exact Hin).
  destruct (r2k_cached_spec s1 addr e f rels true HS1 Hin1 He1 Hf1 (fun r Hr => proj2 (Hok r Hr)))
    as (lc & Hlc & Hnd & _ & Hmem).
  exists lc. split; [|split; [exact Hnd|]].
  { rewrite (r2k_walk_cached s1 qi q addr e Hq Hqc He1), Hqr, (r2k_count_tables s1 _ _ _ lc Hlc).
    rewrite (r2k_pairs_ext s s1 lc Ft). reflexivity. }
  (* the uncached walk *)
  destruct HS1' as (HW1' & HRC1').
  assert (Hf1' : nth_error (w_filters s1') (q_filter q') = Some f') by (rewrite Ff', Hqf'; exact Hf').
  rewrite (r2k_walk_uncached s1' qi' q' f' HW1' Hq' Hqc' Hf1'), Hqr'.
  assert (Hok' : r2k_rels_ok s1' (f_mask f') (f_rels f' ++ rels)).
  { apply (r2k_rels_ok_ext s s1' _ _ Fr'). rewrite E1, E4. intros r Hr. apply in_app_iff in Hr.
    destruct Hr as [Hr|Hr]; [apply Hokf|apply Hok]; exact Hr. }
  assert (Hrc : q_rare q' = None \/ exists c, q_rare q' = Some c /\ mk_get (f_mask f') c = true).
  { rewrite Hrare'. destruct (f_unsafe f' || is_nil (f_ids f'))%bool eqn:Eb; [left; reflexivity|].
    right. eexists. split; [reflexivity|]. apply Hids. apply r2k_rare_in.
    apply orb_false_iff in Eb. destruct Eb as [_ Eb]. destruct (f_ids f'); [discriminate|discriminate]. }
  destruct (r2k_query_archs s1' f' q' HW1' (r2k_cidx_ok_ext s s1' Fc' Fa' Hci) Hrc) as (HLnd & HLlt & HLc).
  pose proof (r2k_sel_list_spec s1' f' (f_rels f' ++ rels) (conj HW1' HRC1') Hok' _ HLnd HLlt) as Hsl.
  destruct (r2k_sel_list (w_tables s1') (w_archs s1') f' (f_rels f' ++ rels) (query_archetypes s1' q')) as [x|lu].
  - destruct Hsl as (-> & Hnt). split; [reflexivity|]. split; [reflexivity|]. intros Ht. apply Hnt.
    intros aid a Ha. rewrite Fa' in Ha. apply (proj2 (r2k_tabled_twin s f f' E1 E2 E3) Ht aid a Ha).
  - destruct Hsl as (Hndu & Hlu). split; [reflexivity|]. exists lu. split; [apply (r2k_pairs_ext s s1' lu Ft')|].
    split; [exact Hndu|].
    assert (Hlu' : forall tid, In tid lu <-> r2k_sel s f (f_rels f ++ rels) tid).
    { intros tid. rewrite Hlu, (r2k_in_archs_sel s1' f' _ _ tid HLc).
      rewrite (r2k_sel_ext s s1' f' _ tid Ft' Fa'), (r2k_sel_twin s f f' _ tid E1 E2 E3), E4. tauto. }
    split; [exact Hlu'|]. intros tid. rewrite Hmem, Hlu'.
    rewrite (r2k_sel_ext s s1 f _ tid Ft Fa), (r2k_nonempty_ext s s1 tid Ft), Hrels.
    split; [intros [H1 H2]; split; [exact H1|apply H2; reflexivity]|].
    intros [H1 H2]. split; [exact H1|intros _; exact H2].
Qed.

(** *** Sums and rows of walks that differ by empty tables and by order *)

Definition r2k_ne (s : W) (tid : nat) : bool :=
  match nth_error (w_tables s) tid with Some t => negb (Nat.eqb (t_len t) 0) | None => false end.

Lemma r2k_fold_sum : forall (w : list (nat * nat)) n,
  fold_left (fun acc p => acc + snd p) w n = n + list_sum (map snd w).
Proof.
  induction w as [|p w IH]; intros n; cbn [fold_left map list_sum fold_right]; [lia|]. rewrite IH. unfold list_sum. lia.
Qed.

Lemma r2k_list_sum_perm : forall l l', Permutation l l' -> list_sum l = list_sum l'.
Proof. intros l l' H. unfold list_sum. induction H; cbn [fold_right]; lia. Qed.

Lemma r2k_perm_nonempty : forall s lc lu, NoDup lc -> NoDup lu ->
  (forall tid, In tid lc <-> In tid lu /\ r2k_nonempty s tid) -> Permutation lc (filter (r2k_ne s) lu).
Proof.
  intros s lc lu H1 H2 H. apply NoDup_Permutation; [exact H1|apply NoDup_filter; exact H2|].
  intros tid. rewrite H, filter_In. unfold r2k_nonempty, r2k_ne. split.
  - intros (Hi & t & Ht & Hl). split; [exact Hi|]. rewrite Ht. apply negb_true_iff, Nat.eqb_neq. exact Hl.
  - intros (Hi & Hb). split; [exact Hi|]. destruct (nth_error (w_tables s) tid) as [t|]; [|discriminate].
    exists t. split; [reflexivity|]. apply negb_true_iff, Nat.eqb_neq in Hb. exact Hb.
Qed.

Definition r2k_len (s : W) (tid : nat) : nat :=
  match nth_error (w_tables s) tid with Some t => t_len t | None => 0 end.

Lemma r2k_pairs_snd : forall s l, map snd (r2k_pairs s l) = map (r2k_len s) l.
Proof. intros s l. unfold r2k_pairs. rewrite map_map. reflexivity. Qed.

Lemma r2k_sum_filter : forall s l, list_sum (map snd (r2k_pairs s (filter (r2k_ne s) l))) = list_sum (map snd (r2k_pairs s l)).
Proof.
  intros s l. rewrite !r2k_pairs_snd. unfold list_sum. induction l as [|tid l IH]; [reflexivity|]. cbn [filter].
  assert (H : r2k_ne s tid = false -> r2k_len s tid = 0).
  { unfold r2k_ne, r2k_len. destruct (nth_error (w_tables s) tid) as [t|]; [|reflexivity].
    intros H. apply negb_false_iff, Nat.eqb_eq in H. exact H. }
  destruct (r2k_ne s tid); cbn [map fold_right].
  - rewrite IH. reflexivity.
  - rewrite (H eq_refl), IH. reflexivity.
Qed.

Lemma r2k_rows_filter : forall s l, q_rows_of (w_tables s) (filter (r2k_ne s) l) = q_rows_of (w_tables s) l.
Proof.
  intros s l. induction l as [|tid l IH]; [reflexivity|]. cbn [filter]. unfold r2k_ne at 1. unfold q_rows_of in *.
  destruct (nth_error (w_tables s) tid) as [t|] eqn:Et.
  - destruct (Nat.eqb (t_len t) 0) eqn:El; cbn [negb flat_map]; rewrite Et.
    + apply Nat.eqb_eq in El. rewrite El. cbn [firstn app]. exact IH.
    + rewrite IH. reflexivity.
  - cbn [flat_map]. rewrite Et. exact IH.
Qed.

Lemma r2k_sum_same : forall s lc lu, NoDup lc -> NoDup lu ->
  (forall tid, In tid lc <-> In tid lu /\ r2k_nonempty s tid) ->
  fold_left (fun acc p => acc + snd p) (r2k_pairs s lc) 0 = fold_left (fun acc p => acc + snd p) (r2k_pairs s lu) 0.
Proof.
  intros s lc lu H1 H2 H. rewrite !r2k_fold_sum. f_equal. rewrite <- (r2k_sum_filter s lu).
  apply r2k_list_sum_perm. apply Permutation_map. unfold r2k_pairs. apply Permutation_map.
  apply (r2k_perm_nonempty s lc lu H1 H2 H).
Qed.

Lemma r2k_rows_same : forall s lc lu, NoDup lc -> NoDup lu ->
  (forall tid, In tid lc <-> In tid lu /\ r2k_nonempty s tid) ->
  Permutation (walk_rows s (r2k_pairs s lc)) (walk_rows s (r2k_pairs s lu)).
Proof.
  intros s lc lu H1 H2 H. unfold r2k_pairs. rewrite !q_walk_rows_map, <- (r2k_rows_filter s lu).
  unfold q_rows_of. apply Permutation_flat_map. apply (r2k_perm_nonempty s lc lu H1 H2 H).
Qed.

Lemma r2k_walk_rows_ext : forall s s' w, w_tables s' = w_tables s -> walk_rows s' w = walk_rows s w.
Proof. intros s s' w E. unfold walk_rows. rewrite E. reflexivity. Qed.

(** ** 2. Count *)

(** General form: the cached Count always succeeds; the uncached one returns the same number, or
    panics with an index error in a world where a matching relation-free archetype has no table. *)
Theorem r2k_count_same_gen : forall s fi f e fi' f' rels qi s1 qi' s1',
  St2 s -> r2k_cidx_ok s -> r2k_registered s fi f e -> r2k_twin_of s f fi' f' ->
  r2k_rels_ok s (f_mask f) (f_rels f) ->
  query_open fi rels s = Ok qi s1 -> query_open fi' rels s = Ok qi' s1' ->
  exists n, query_count qi s1 = Ok n s1 /\
    match query_count qi' s1' with
    | Ok n' s2 => s2 = s1' /\ n' = n
    | Err x s2 => s2 = s1' /\ x = EIndex /\ ~ r2k_tabled s f
    end.
Proof.
  intros s fi f e fi' f' rels qi s1 qi' s1' HS Hci Hr Ht Hokf Ho Ho'.
  destruct (r2k_walk_same s fi f e fi' f' rels qi s1 qi' s1' HS Hci Hr Ht Hokf Ho Ho') as (lc & Hwc & Hnd & Hu).
  eexists. split; [apply (query_count_is_walk_sum qi s1 _ s1 Hwc)|].
  unfold query_count, bind. destruct (query_walk qi' s1') as [wu s2|x s2]; [|exact Hu].
  destruct Hu as (-> & lu & -> & Hndu & Hlu & Hiff). cbn [ret]. split; [reflexivity|].
  symmetry. apply (r2k_sum_same s lc lu Hnd Hndu Hiff).
Qed.

Theorem r2k_count_same : forall s fi f e fi' f' rels qi s1 qi' s1',
  St2 s -> r2k_cidx_ok s -> r2k_registered s fi f e -> r2k_twin_of s f fi' f' ->
  r2k_rels_ok s (f_mask f) (f_rels f) -> r2k_tabled s f ->
  query_open fi rels s = Ok qi s1 -> query_open fi' rels s = Ok qi' s1' ->
  exists n, query_count qi s1 = Ok n s1 /\ query_count qi' s1' = Ok n s1'.
Proof.
  intros s fi f e fi' f' rels qi s1 qi' s1' HS Hci Hr Ht Hokf Htab Ho Ho'.
  destruct (r2k_count_same_gen s fi f e fi' f' rels qi s1 qi' s1' HS Hci Hr Ht Hokf Ho Ho') as (n & Hc & Hu).
  exists n. split; [exact Hc|]. destruct (query_count qi' s1') as [n' s2|x s2].
  - destruct Hu as (-> & ->). reflexivity.
  - destruct Hu as (_ & _ & Hn). contradiction.
Qed.

(** ** 3. The entities *)

Theorem r2k_entities_same : forall s fi f e fi' f' rels qi s1 qi' s1',
  St2 s -> r2k_cidx_ok s -> r2k_registered s fi f e -> r2k_twin_of s f fi' f' ->
  r2k_rels_ok s (f_mask f) (f_rels f) -> r2k_tabled s f ->
  query_open fi rels s = Ok qi s1 -> query_open fi' rels s = Ok qi' s1' ->
  exists wc wu, query_walk qi s1 = Ok wc s1 /\ query_walk qi' s1' = Ok wu s1' /\
    Permutation (walk_rows s1 wc) (walk_rows s1' wu).
Proof.
  intros s fi f e fi' f' rels qi s1 qi' s1' HS Hci Hr Ht Hokf Htab Ho Ho'.
  destruct (r2k_walk_same s fi f e fi' f' rels qi s1 qi' s1' HS Hci Hr Ht Hokf Ho Ho') as (lc & Hwc & Hnd & Hu).
  destruct Hr as (Hf & _). destruct Ht as (Hf' & _).
  pose proof (query_open_frame fi rels s) as Hfr. rewrite Ho in Hfr. cbn [state_of] in Hfr.
  pose proof (query_open_frame fi' rels s) as Hfr'. rewrite Ho' in Hfr'. cbn [state_of] in Hfr'.
  destruct Hfr as (_ & _ & _ & _ & _ & _ & Ft & _). destruct Hfr' as (_ & _ & _ & _ & _ & _ & Ft' & _).
  destruct (query_walk qi' s1') as [wu s2|x s2].
  - destruct Hu as (-> & lu & -> & Hndu & Hlu & Hiff). exists (r2k_pairs s lc), (r2k_pairs s lu).
    split; [exact Hwc|]. split; [reflexivity|].
    rewrite (r2k_walk_rows_ext s s1 _ Ft), (r2k_walk_rows_ext s s1' _ Ft'). apply (r2k_rows_same s lc lu Hnd Hndu Hiff).
  - destruct Hu as (_ & _ & Hn). contradiction.
Qed.

(** Iterating both queries to the end (Next / Entity until Next returns false) yields the same
    entities up to order, by [drain_is_walk]. *)
Theorem r2k_iteration_same : forall d s fi f e fi' f' rels qi s1 qi' s1',
  St2 s -> r2k_cidx_ok s -> r2k_registered s fi f e -> r2k_twin_of s f fi' f' ->
  r2k_rels_ok s (f_mask f) (f_rels f) -> r2k_tabled s f ->
  query_open fi rels s = Ok qi s1 -> query_open fi' rels s = Ok qi' s1' ->
  exists n, forall fuel, n < fuel ->
    exists es s2 es' s2', drain d fuel qi s1 = Ok es s2 /\ drain d fuel qi' s1' = Ok es' s2' /\ Permutation es es'.
Proof.
  intros d s fi f e fi' f' rels qi s1 qi' s1' HS Hci Hr Ht Hokf Htab Ho Ho'.
  destruct (r2k_entities_same s fi f e fi' f' rels qi s1 qi' s1' HS Hci Hr Ht Hokf Htab Ho Ho') as (wc & wu & Hwc & Hwu & Hp).
  pose proof Hr as (Hf & _). pose proof Ht as (Hf' & _).
  destruct (r2k_query_open_inv fi rels s qi s1 f Hf Ho) as (_ & Hfr & q & Hq & _ & _ & _ & _ & A1 & A2 & A3 & A4 & A5 & A6 & A7).
  destruct (r2k_query_open_inv fi' rels s qi' s1' f' Hf' Ho') as (_ & Hfr' & q' & Hq' & _ & _ & _ & _ & B1 & B2 & B3 & B4 & B5 & B6 & B7).
  destruct (r2k_St2_frame s s1 HS Hfr) as (HW1 & _). destruct (r2k_St2_frame s s1' HS Hfr') as (HW1' & _).
  exists (length (walk_rows s1 wc)). intros fuel Hfuel.
  pose proof (drain_is_walk d qi s1 q wc HW1 Hq A1 A2 A3 A4 A5 A6 A7 Hwc fuel Hfuel) as D1.
  assert (Hfuel' : length (walk_rows s1' wu) < fuel) by (rewrite <- (Permutation_length Hp); exact Hfuel).
  pose proof (drain_is_walk d qi' s1' q' wu HW1' Hq' B1 B2 B3 B4 B5 B6 B7 Hwu fuel Hfuel') as D2.
  destruct (drain d fuel qi s1) as [es s2|]; [|destruct D1]. destruct (drain d fuel qi' s1') as [es' s2'|]; [|destruct D2].
  destruct D1 as (-> & _). destruct D2 as (-> & _). exists (walk_rows s1 wc), s2, (walk_rows s1' wu), s2'.
  split; [reflexivity|]. split; [reflexivity|exact Hp].
Qed.

(** EntityAt: both queries enumerate the same entities (at different indices: the order of the
    tables differs). *)
Lemma r2k_pairs_shape : forall s s0 l, WF s0 -> w_tables s0 = w_tables s ->
  (forall tid, In tid l -> nth_error (w_tables s) tid <> None) ->
  forall p, In p (r2k_pairs s l) ->
    exists t, nth_error (w_tables s0) (fst p) = Some t /\ snd p = t_len t /\ t_len t <= length (t_ents t).
Proof.
  intros s s0 l HW0 E0 Hex p Hp0. unfold r2k_pairs in Hp0. apply in_map_iff in Hp0. destruct Hp0 as (tid & <- & Hin).
  cbn [fst snd]. rewrite E0. destruct (nth_error (w_tables s) tid) as [t|] eqn:Et; [|exfalso; apply (Hex tid Hin Et)].
  exists t. split; [reflexivity|]. split; [reflexivity|].
  pose proof (wf_tables s0 HW0) as HF. rewrite Forall_forall in HF. rewrite <- E0 in Et. apply nth_error_In in Et.
  apply HF in Et. destruct Et as ((T1 & T2 & _) & _). lia.
Qed.

Lemma r2k_entity_at_in : forall s qi w x, query_walk qi s = Ok w s ->
  (forall p, In p w -> exists t, nth_error (w_tables s) (fst p) = Some t /\ snd p = t_len t /\ t_len t <= length (t_ents t)) ->
  ((exists i, query_entity_at qi i s = Ok x s) <-> In x (walk_rows s w)).
Proof.
  intros s qi w x Hw Hp. split.
  - intros (i & Hi). pose proof (query_entity_at_spec qi s w i Hw Hp) as H. rewrite Hi in H.
    destruct H as (_ & H). apply nth_error_In in H. exact H.
  - intros Hin. apply In_nth_error in Hin. destruct Hin as (i & Hi). exists i.
    pose proof (query_entity_at_spec qi s w i Hw Hp) as H. destruct (query_entity_at qi i s) as [y s'|y s'].
    + destruct H as (-> & H). rewrite Hi in H. injection H as <-. reflexivity.
    + destruct H as (_ & H). apply nth_error_None in H. rewrite Hi in H. discriminate.
Qed.

Theorem r2k_entity_at_same : forall s fi f e fi' f' rels qi s1 qi' s1',
  St2 s -> r2k_cidx_ok s -> r2k_registered s fi f e -> r2k_twin_of s f fi' f' ->
  r2k_rels_ok s (f_mask f) (f_rels f) -> r2k_tabled s f ->
  query_open fi rels s = Ok qi s1 -> query_open fi' rels s = Ok qi' s1' ->
  forall x, (exists i, query_entity_at qi i s1 = Ok x s1) <-> (exists i', query_entity_at qi' i' s1' = Ok x s1').
Proof.
  intros s fi f e fi' f' rels qi s1 qi' s1' HS Hci Hr Ht Hokf Htab Ho Ho' x.
  destruct (r2k_walk_same s fi f e fi' f' rels qi s1 qi' s1' HS Hci Hr Ht Hokf Ho Ho') as (lc & Hwc & Hnd & Hu).
  pose proof (query_open_frame fi rels s) as Hfr. rewrite Ho in Hfr. cbn [state_of] in Hfr.
  pose proof (query_open_frame fi' rels s) as Hfr'. rewrite Ho' in Hfr'. cbn [state_of] in Hfr'.
  destruct (r2k_St2_frame s s1 HS Hfr) as (HW1 & _). destruct (r2k_St2_frame s s1' HS Hfr') as (HW1' & _).
  destruct Hfr as (_ & _ & _ & _ & _ & _ & Ft & _). destruct Hfr' as (_ & _ & _ & _ & _ & _ & Ft' & _).
  destruct (query_walk qi' s1') as [wu s2|y s2] eqn:Hwu; [|destruct Hu as (_ & _ & Hn); contradiction].
  destruct Hu as (-> & lu & -> & Hndu & Hlu & Hiff).
  assert (Hexu : forall tid, In tid lu -> nth_error (w_tables s) tid <> None).
  { intros tid Hin. apply Hlu in Hin. destruct Hin as (t & a & Ht' & _). rewrite Ht'. discriminate. }
  assert (Hexc : forall tid, In tid lc -> nth_error (w_tables s) tid <> None).
  { intros tid Hin. apply Hiff in Hin. apply Hexu. apply Hin. }
  rewrite (r2k_entity_at_in s1 qi _ x Hwc (r2k_pairs_shape s s1 lc HW1 Ft Hexc)).
  rewrite (r2k_entity_at_in s1' qi' _ x Hwu (r2k_pairs_shape s s1' lu HW1' Ft' Hexu)).
  rewrite (r2k_walk_rows_ext s s1 _ Ft), (r2k_walk_rows_ext s s1' _ Ft').
  pose proof (r2k_rows_same s lc lu Hnd Hndu Hiff) as Hp.
  split; intros H; [apply (Permutation_in _ Hp H)|apply (Permutation_in _ (Permutation_sym Hp) H)].
Qed.

(** ** The component index: checker, and its maintenance by [create_archetype] *)

Definition r2k_cidx_b (s : W) : bool :=
  r2_alli (fun c l =>
    (r2_nodupb l &&
     forallb (fun aid => match nth_error (w_archs s) aid with Some a => mk_get (a_mask a) c | None => false end) l &&
     r2_alli (fun aid a => if mk_get (a_mask a) c then memb aid l else true) 0 (w_archs s))%bool) 0 (w_compindex s).

Theorem r2k_cidx_b_sound : forall s, WF s -> r2k_cidx_b s = true -> r2k_cidx_ok s.
Proof.
  intros s HW H c. destruct (nth_error (w_compindex s) c) as [l|] eqn:El.
  - rewrite (nth_error_nth _ _ [] El). pose proof (r2_alli0_sound _ _ _ H c l El) as H1. cbv beta in H1.
    apply andb_true_iff in H1. destruct H1 as [H1 H3]. apply andb_true_iff in H1. destruct H1 as [H1 H2].
    split; [apply r2_nodupb_sound; exact H1|]. intros aid. split.
    + intros Hin. rewrite forallb_forall in H2. specialize (H2 aid Hin).
      destruct (nth_error (w_archs s) aid) as [a|]; [|discriminate]. exists a. split; [reflexivity|exact H2].
    + intros (a & Ha & Hc). pose proof (r2_alli0_sound _ _ _ H3 aid a Ha) as H4. cbv beta in H4. rewrite Hc in H4.
      apply sa_memb_in. exact H4.
  - rewrite (nth_overflow _ _ (proj1 (nth_error_None _ _) El)). split; [constructor|]. intros aid. split; [intros []|].
    intros (a & Ha & Hc). destruct (wf_arch_comps s HW aid a Ha) as (_ & Hlt & _). apply Hlt in Hc.
    destruct (wf_index_lists s HW) as (Hlen & _). apply nth_error_None in El. lia.
Qed.

(** [r2k_cidx_ok] depends on [w_compindex], the number of archetypes and their masks only; every
    operation except [create_archetype] leaves these alone. *)
Lemma r2k_cidx_ok_frame : forall s s', w_compindex s' = w_compindex s -> length (w_archs s') = length (w_archs s) ->
  (forall aid a, nth_error (w_archs s) aid = Some a -> exists a', nth_error (w_archs s') aid = Some a' /\ a_mask a' = a_mask a) ->
  r2k_cidx_ok s -> r2k_cidx_ok s'.
Proof.
  intros s s' Ec El Ha H c. rewrite Ec. destruct (H c) as (Hnd & Hin). split; [exact Hnd|]. intros aid. rewrite Hin. split.
  - intros (a & Ea & Hc). destruct (Ha aid a Ea) as (a' & Ea' & Em). exists a'. split; [exact Ea'|]. rewrite Em. exact Hc.
  - intros (a' & Ea' & Hc). pose proof (sa_nth_error_lt _ _ _ _ Ea') as Hlt. rewrite El in Hlt.
    destruct (nth_error (w_archs s) aid) as [a|] eqn:Ea; [|apply nth_error_None in Ea; lia].
    destruct (Ha aid a Ea) as (a'' & Ea'' & Em). rewrite Ea' in Ea''. injection Ea'' as <-.
    exists a. split; [reflexivity|]. rewrite <- Em. exact Hc.
Qed.

Lemma r2k_nth_default : forall (l : list (list nat)) c, nth c l [] = match nth_error l c with Some x => x | None => [] end.
Proof.
  intros l c. destruct (nth_error l c) as [x|] eqn:E; [apply (nth_error_nth _ _ [] E)|].
  apply nth_overflow. apply nth_error_None. exact E.
Qed.

Lemma r2k_fold_updf : forall (g : list nat -> list nat) comps ci c, NoDup comps ->
  nth_error (fold_left (fun ci c => updf c g ci) comps ci) c =
  if memb c comps then option_map g (nth_error ci c) else nth_error ci c.
Proof.
  intros g comps. induction comps as [|x comps IH]; intros ci c Hnd; [reflexivity|].
  inversion Hnd as [|? ? Hx Hnd']; subst. cbn [fold_left]. rewrite (IH _ c Hnd'), nth_error_updf.
  unfold memb at 2. cbn [index_of]. destruct (Nat.eqb x c) eqn:E.
  - apply Nat.eqb_eq in E. subst c. destruct (memb x comps) eqn:Em; [apply sa_memb_in in Em; contradiction|reflexivity].
  - unfold memb. destruct (index_of c comps); reflexivity.
Qed.

(** The archetype record creation [create_archetype_bare] (the only writer of the component index;
    [create_archetype] = this followed by the creation of the table of a relation-free archetype,
    which does not touch the index) maintains it. *)
Theorem r2k_create_archetype_cidx : forall s m, WF s -> r2k_cidx_ok s ->
  (forall j, mk_get m j = true -> j < length (w_reg s)) ->
  r2k_cidx_ok (state_of (create_archetype_bare m s)).
Proof.
  intros s m HW H Hm c. unfold create_archetype_bare, bind, get, put, ret. cbn [state_of].
  match goal with |- context [RecordSet.set w_archs (fun l => l ++ [?a0])] => set (na := a0) end.
  match goal with |- context [RecordSet.set w_relarchs ?F ?S0] =>
    change (w_compindex (RecordSet.set w_relarchs F S0)) with
      (fold_left (fun ci c => updf c (fun l => l ++ [length (w_archs s)]) ci) (mk_to_list m (length (w_reg s))) (w_compindex s));
    change (w_archs (RecordSet.set w_relarchs F S0)) with (w_archs s ++ [na])
  end.
  assert (Hna : a_mask na = m) by reflexivity. clearbody na.
  destruct (wf_index_lists s HW) as (Hlen & _). destruct (H c) as (Hnd & Hin).
  rewrite r2k_nth_default, (r2k_fold_updf _ _ _ c (proj1 (mk_to_list_sorted m (length (w_reg s))))).
  rewrite r2k_nth_default in Hnd, Hin.
  assert (Hold : forall aid, (exists a0, nth_error (w_archs s) aid = Some a0 /\ mk_get (a_mask a0) c = true) -> aid < length (w_archs s)).
  { intros aid (a0 & Ha0 & _). apply (sa_nth_error_lt _ _ _ _ Ha0). }
  destruct (memb c (mk_to_list m (length (w_reg s)))) eqn:Emb.
  - apply sa_memb_in, mk_to_list_spec in Emb. destruct Emb as (Hc & Hmc).
    destruct (nth_error (w_compindex s) c) as [l|] eqn:El; [|apply nth_error_None in El; lia]. cbn [option_map].
    split.
    + apply r2k_nodup_app; [exact Hnd|constructor; [intros []|constructor]|]. intros x Hx [<-|[]].
      apply Hin, Hold in Hx. lia.
    + intros aid. rewrite in_app_iff, Hin. split.
      * intros [(a0 & Ha0 & Hc0)|[<-|[]]].
        -- exists a0. split; [rewrite nth_error_app1 by (apply (sa_nth_error_lt _ _ _ _ Ha0)); exact Ha0|exact Hc0].
        -- exists na. split; [rewrite nth_error_app2 by lia; rewrite Nat.sub_diag; reflexivity|]. rewrite Hna. exact Hmc.
      * intros (a0 & Ha0 & Hc0). destruct (Nat.lt_ge_cases aid (length (w_archs s))) as [Hlt|Hge].
        -- left. exists a0. split; [rewrite nth_error_app1 in Ha0 by exact Hlt; exact Ha0|exact Hc0].
        -- right. left. pose proof (sa_nth_error_lt _ _ _ _ Ha0) as Hl. rewrite app_length in Hl. cbn [length] in Hl. lia.
  - assert (Hnm : mk_get m c = false).
    { destruct (mk_get m c) eqn:Eg; [|reflexivity]. exfalso.
      assert (Hi : In c (mk_to_list m (length (w_reg s)))) by (apply mk_to_list_spec; split; [apply Hm; exact Eg|exact Eg]).
      apply sa_memb_in in Hi. congruence. }
    split; [exact Hnd|]. intros aid. rewrite Hin. split.
    + intros (a0 & Ha0 & Hc0). exists a0. split; [rewrite nth_error_app1 by (apply (sa_nth_error_lt _ _ _ _ Ha0)); exact Ha0|exact Hc0].
    + intros (a0 & Ha0 & Hc0). destruct (Nat.lt_ge_cases aid (length (w_archs s))) as [Hlt|Hge].
      * exists a0. split; [rewrite nth_error_app1 in Ha0 by exact Hlt; exact Ha0|exact Hc0].
      * exfalso. rewrite nth_error_app2 in Ha0 by exact Hge. destruct (aid - length (w_archs s)) as [|k]; cbn in Ha0.
        -- injection Ha0 as <-. rewrite Hna in Hc0. congruence.
        -- destruct k; discriminate.
Qed.

(** The initial world has an exact (empty) component index. *)
Lemma r2k_cidx_init : forall c, r2k_cidx_ok (init_world c).
Proof.
  intros c c'. unfold init_world. cbn [w_compindex w_archs]. rewrite nth_repeat. split; [constructor|].
  intros aid. split; [intros []|]. intros (a & Ha & Hc). destruct aid as [|aid]; [|destruct aid; discriminate].
  cbn in Ha. injection Ha as <-. cbn [a_mask] in Hc. unfold mk_get in Hc. rewrite N.bits_0 in Hc. discriminate.
Qed.

(** ** Boolean checkers for the remaining hypotheses (used for the examples below) *)

Definition r2k_rels_ok_b (s : W) (m : mask) (rels : list rel) : bool :=
  forallb (fun r : rel => (is_rel_comp s (fst r) && mk_get m (fst r))%bool) rels.

Lemma r2k_rels_ok_b_sound : forall s m rels, r2k_rels_ok_b s m rels = true -> r2k_rels_ok s m rels.
Proof.
  intros s m rels H r Hr. unfold r2k_rels_ok_b in H. rewrite forallb_forall in H. specialize (H r Hr).
  apply andb_true_iff in H. exact H.
Qed.

Definition r2k_tabled_b (s : W) (f : fobj) : bool :=
  forallb (fun a => (negb (filter_matches f (a_mask a)) || negb (Nat.eqb (a_numrel a) 0) || negb (is_nil (a_tables a)))%bool) (w_archs s).

Lemma r2k_tabled_b_sound : forall s f, r2k_tabled_b s f = true -> r2k_tabled s f.
Proof.
  intros s f H aid a Ha Hm Hn Ht. unfold r2k_tabled_b in H. rewrite forallb_forall in H.
  specialize (H a (nth_error_In _ _ Ha)). rewrite Hm, Hn, Ht in H. discriminate.
Qed.

(** ** Validation on reachable worlds (component ids of [small_cfg]: 0,1,2 plain; 3,4 relations)

    Script: three targets h0,h1,h2; filters 0/1 = With(3) with the relation (3 -> h1) FIXED in the
    filter, filters 2/3 = With(3) without fixed relations; 0 and 2 are registered, 1 and 3 are their
    unregistered twins. Children with targets h0, h1, (h0,h1), (h1,h0). Then h0 dies (its tables 1 and
    3 are freed, the children move to zero-target tables), tables 1 and 3 are RECYCLED for the new
    target h2, and the only entity of table 1 is removed again (table 1: non-free, empty). *)
Open Scope Z_scope.
Definition r2k_ex_script : list (list Z) :=
  [[0]; [0]; [0];
   [15; 0; 1;3; 0; 0; 1; 3;1]; [15; 0; 1;3; 0; 0; 1; 3;1]; [16; 0];
   [15; 0; 1;3; 0; 0; 0]; [15; 0; 1;3; 0; 0; 0]; [16; 2];
   [2; 2;0;3; 1; 3;0]; [2; 2;0;3; 1; 3;1]; [2; 2;3;4; 2; 3;0; 4;1]; [2; 2;3;4; 2; 3;1; 4;0];
   [11; 0]; [2; 2;0;3; 1; 3;2]; [2; 2;3;4; 2; 3;2; 4;1]; [11; 7]].
Close Scope Z_scope.
Definition r2k_ex_world : W := exec small_cfg r2k_ex_script.
Definition r2k_ex_mid : W := exec small_cfg (firstn 14 r2k_ex_script).

(** (table: archetype, length, free, relations) and the cache entries *)
Example r2k_ex_shapes :
  map (fun t => (t_arch t, t_len t, t_free t, t_rels t)) (w_tables r2k_ex_mid) =
    [(0, 2, false, []); (1, 0, true, [(3, (2, 0%N))]); (1, 1, false, [(3, (3, 0%N))]);
     (2, 0, true, [(3, (2, 0%N)); (4, (3, 0%N))]); (2, 1, false, [(3, (0, 0%N)); (4, (3, 0%N))]);
     (1, 1, false, [(3, (0, 0%N))]); (2, 1, false, [(3, (3, 0%N)); (4, (0, 0%N))])] /\
  map (fun t => (t_arch t, t_len t, t_free t, t_rels t)) (w_tables r2k_ex_world) =
    [(0, 2, false, []); (1, 0, false, [(3, (4, 0%N))]); (1, 1, false, [(3, (3, 0%N))]);
     (2, 1, false, [(3, (4, 0%N)); (4, (3, 0%N))]); (2, 1, false, [(3, (0, 0%N)); (4, (3, 0%N))]);
     (1, 1, false, [(3, (0, 0%N))]); (2, 1, false, [(3, (3, 0%N)); (4, (0, 0%N))])] /\
  map ce_tables (w_cheap r2k_ex_world) = [[2; 6]; [5; 2; 4; 6; 1; 3]].
Proof. vm_compute. repeat split; reflexivity. Qed.

(** Observation of one filter: Count, the walk and the rows of a fresh query; the batch selection. *)
Definition r2k_obs (s : W) (fi : nat) (rels : list rel) : option nat * list (nat * nat) * list ent * option (list nat) :=
  let b := match batch_rels fi rels s with
           | Ok r s1 => match get_batch_tables fi r s1 with Ok l _ => Some l | Err _ _ => None end
           | Err _ _ => None end in
  match query_open fi rels s with
  | Ok qi s1 =>
      match query_walk qi s1 with
      | Ok w _ => (match query_count qi s1 with Ok n _ => Some n | Err _ _ => None end, w, walk_rows s1 w, b)
      | Err _ _ => (None, [], [], b)
      end
  | Err _ _ => (None, [], [], b)
  end.

(** after the recycling: fixed relation only; no relation; per-query relation (3 -> h2 = entity 4)
    on top of a cached filter. The uncached walk lists the empty table 1, the cached one skips it. *)
Example r2k_ex_values :
  r2k_obs r2k_ex_world 0 [] = (Some 2, [(2, 1); (6, 1)], [(6, 0%N); (8, 0%N)], Some [2; 6]) /\
  r2k_obs r2k_ex_world 1 [] = (Some 2, [(2, 1); (6, 1)], [(6, 0%N); (8, 0%N)], Some [2; 6]) /\
  r2k_obs r2k_ex_world 2 [] = (Some 5, [(5, 1); (2, 1); (4, 1); (6, 1); (3, 1)],
                               [(5, 0%N); (6, 0%N); (7, 0%N); (8, 0%N); (9, 0%N)], Some [5; 2; 4; 6; 3]) /\
  r2k_obs r2k_ex_world 3 [] = (Some 5, [(5, 1); (2, 1); (1, 0); (4, 1); (6, 1); (3, 1)],
                               [(5, 0%N); (6, 0%N); (7, 0%N); (8, 0%N); (9, 0%N)], Some [5; 2; 1; 4; 6; 3]) /\
  r2k_obs r2k_ex_world 2 [(3, (4, 0%N))] = (Some 1, [(3, 1)], [(9, 0%N)], Some [3]) /\
  r2k_obs r2k_ex_world 3 [(3, (4, 0%N))] = (Some 1, [(1, 0); (3, 1)], [(9, 0%N)], Some [1; 3]) /\
  (* between the death of h0 and the recycling (tables 1, 3 free) *)
  r2k_obs r2k_ex_mid 2 [] = r2k_obs r2k_ex_mid 3 [] /\ r2k_obs r2k_ex_mid 0 [] = r2k_obs r2k_ex_mid 1 [] /\
  fst (fst (fst (r2k_obs r2k_ex_mid 2 []))) = Some 4.
Proof. vm_compute. repeat split; reflexivity. Qed.

(** The hypotheses of the theorems hold in this world (non-vacuity), for both pairs of filters. *)
Definition r2k_ex_dflt : fobj :=
  {| f_ids := []; f_mask := 0%N; f_without := 0%N; f_haswithout := false; f_cache := None; f_rels := []; f_unsafe := true |}.
Definition r2k_ex_f (i : nat) : fobj := nth i (w_filters r2k_ex_world) r2k_ex_dflt.
Definition r2k_ex_e (i : nat) : centry :=
  nth i (w_cheap r2k_ex_world) {| ce_id := 0; ce_filter := 0; ce_rels := []; ce_tables := [] |}.

Ltac r2k_vm := vm_compute; reflexivity.

Lemma r2k_ex_pair : forall k, k = 0 \/ k = 1 ->
  r2k_registered r2k_ex_world (2 * k) (r2k_ex_f (2 * k)) (r2k_ex_e k) /\
  r2k_twin_of r2k_ex_world (r2k_ex_f (2 * k)) (2 * k + 1) (r2k_ex_f (2 * k + 1)) /\
  r2k_rels_ok r2k_ex_world (f_mask (r2k_ex_f (2 * k))) (f_rels (r2k_ex_f (2 * k))) /\
  r2k_tabled r2k_ex_world (r2k_ex_f (2 * k)).
Proof.
  intros k Hk. unfold r2k_registered, r2k_twin_of.
  split; [split; [destruct Hk as [->| ->]; r2k_vm|split; [destruct Hk as [->| ->]; r2k_vm|]]|].
  - exists k, k. split; [destruct Hk as [->| ->]; r2k_vm|]. split; [destruct Hk as [->| ->]; r2k_vm|].
    split; [destruct Hk as [->| ->]; r2k_vm|]. split; [destruct Hk as [->| ->]; r2k_vm|].
    split; [destruct Hk as [->| ->]; r2k_vm|].
    assert (E : w_centries r2k_ex_world = [0; 1]) by r2k_vm. rewrite E. destruct Hk as [->| ->]; [left|right; left]; reflexivity.
  - split; [split; [destruct Hk as [->| ->]; r2k_vm|split; [destruct Hk as [->| ->]; r2k_vm|]]|].
    + split; [destruct Hk as [->| ->]; r2k_vm|]. split; [destruct Hk as [->| ->]; r2k_vm|].
      split; [destruct Hk as [->| ->]; r2k_vm|]. split; [destruct Hk as [->| ->]; r2k_vm|].
      intros c Hc.
      assert (E : mk_of_list (f_ids (r2k_ex_f (2 * k + 1))) = f_mask (r2k_ex_f (2 * k + 1))) by (destruct Hk as [->| ->]; r2k_vm).
      rewrite <- E. apply mk_get_of_list. exact Hc.
    + split; [apply r2k_rels_ok_b_sound; destruct Hk as [->| ->]; r2k_vm|apply r2k_tabled_b_sound; destruct Hk as [->| ->]; r2k_vm].
Qed.

Lemma r2k_ex_St2 : St2 r2k_ex_world.
Proof. apply st2_b_sound. r2k_vm. Qed.

Lemma r2k_ex_cidx_b : r2k_cidx_b r2k_ex_world = true.
Proof. r2k_vm. Qed.

Lemma r2k_ex_cidx : r2k_cidx_ok r2k_ex_world.
Proof. exact (r2k_cidx_b_sound _ (proj1 r2k_ex_St2) r2k_ex_cidx_b). Qed.

Lemma r2k_ex_fixed : f_rels (r2k_ex_f 0) = [(3, (3, 0%N))] /\ f_rels (r2k_ex_f 2) = [].
Proof. split; r2k_vm. Qed.

(** Hence, in this world, for EVERY per-query relation list the two filters of a pair agree. *)
Example r2k_ex_apply : forall k rels qi s1 qi' s1', k = 0 \/ k = 1 ->
  query_open (2 * k) rels r2k_ex_world = Ok qi s1 -> query_open (2 * k + 1) rels r2k_ex_world = Ok qi' s1' ->
  exists n, query_count qi s1 = Ok n s1 /\ query_count qi' s1' = Ok n s1'.
Proof.
  intros k rels qi s1 qi' s1' Hk Ho Ho'.
  destruct (r2k_ex_pair k Hk) as (B1 & B2 & B3 & B4).
  apply (r2k_count_same r2k_ex_world _ _ _ _ _ rels qi s1 qi' s1' r2k_ex_St2 r2k_ex_cidx B1 B2 B3 B4 Ho Ho').
Qed.

(** ** Why the hypotheses are there: the statements without them are false of the model *)

(** (refuted) [r2k_count_same] / [r2k_batch_selection_same] without [r2k_tabled]: after a NewEntity
    that panicked between createArchetype and createTable (relation on the non-relation component
    0) archetype {0} exists without a table. The registered filter With(0) counts 0 entities; its
    unregistered twin panics with an index error ([archetype.tables[0]] in Go). The state satisfies
    [St2] and [r2k_cidx_ok]. This is the window already tolerated by [k_cache_exact_tol] in the
    relation-free tier; it is reachable only by continuing to use the world after a panic. *)
Open Scope Z_scope.
Definition r2k_untabled_script : list (list Z) :=
  [[0]; [15; 0; 1;0; 0; 0; 0]; [15; 0; 1;0; 0; 0; 0]; [16; 0]; [2; 1;0; 1; 0;0]].
(** (refuted) the theorems without "the fixed relations name relation components" ([r2k_rels_ok]
    for [f_rels f]): a filter built with the unchecked constructor (unsafe flag of op 15: no
    [to_relations] check) carrying the fixed "relation" (component 0 -> zero entity), component 0
    not being a relation component, and then registered. The cached twin yields the entity, the
    uncached one nothing. Not reachable through the Go API: [UnsafeFilter] has neither fixed
    relations nor Register, and FilterN.Relations goes through ToRelations. *)
Definition r2k_nonrel_script : list (list Z) :=
  [[0]; [15; 1; 2;0;3; 0; 0; 1; 0;-1]; [15; 1; 2;0;3; 0; 0; 1; 0;-1]; [16; 0]; [2; 2;0;3; 1; 3;0]].
Close Scope Z_scope.

(** REGRESSION (formerly a refutation): before the repair of createArchetype (/repo fix "create the
    table of a relation-free archetype together with the archetype") this script left archetype {0}
    without a table: the registered filter With(0) counted 0 while its unregistered twin panicked,
    which is why the theorems carry the hypothesis [r2k_tabled]. With the repaired model the call
    succeeds (the superfluous relation on the plain component 0 is ignored), the archetype has its
    table and both filters agree; [r2k_tabled] holds here and, by StorageA/StorageD/Rel2Hist
    ([archs_tabled_norel]), in every state of the covered histories. *)
Example r2k_untabled_refutes :
  let s := exec small_cfg r2k_untabled_script in
  st2_b s = true /\ r2k_cidx_b s = true /\
  map (fun a => (a_comps a, a_tables a)) (w_archs s) = [([], [0]); ([0], [1])] /\
  r2k_obs s 0 [] = (Some 1, [(1, 1)], [(3, 0%N)], Some [1]) /\ r2k_obs s 1 [] = (Some 1, [(1, 1)], [(3, 0%N)], Some [1]) /\
  option_map (r2k_tabled_b s) (nth_error (w_filters s) 0) = Some true.
Proof. vm_compute. repeat split; reflexivity. Qed.

Example r2k_nonrel_refutes :
  let s := exec small_cfg r2k_nonrel_script in
  st2_b s = true /\ r2k_cidx_b s = true /\
  r2k_obs s 0 [] = (Some 1, [(1, 1)], [(3, 0%N)], Some [1]) /\ r2k_obs s 1 [] = (Some 0, [], [], Some []) /\
  option_map (fun f => r2k_rels_ok_b s (f_mask f) (f_rels f)) (nth_error (w_filters s) 0) = Some false.
Proof. vm_compute. repeat split; reflexivity. Qed.

(** ** Random histories: after EVERY step (panicking steps included) of pseudo-random histories
    (generator [r2_gen_line] of Rel2Check: entity creation with relations, SetRelations, removal of
    entities and targets, Shrink, Reset, batch operations through filters, exchanges) the component
    index is exact and four pairs (registered filter, unregistered twin) agree on Count, on the
    entities and on the batch selection, with no / one / two per-query relations. Where [r2k_tabled]
    fails (after a panic inside archetype creation) only "the cached query works" is checked.
    Reset unregisters all filters; the harness registers them again (so registration in a world
    with freed tables is exercised as well).
    Pairs: With(3); With(3) with (3 -> h0) fixed; With(3,4); With(3).Without(4). *)
Definition r2k_sub (l l' : list ent) : bool := forallb (fun x => existsb (ent_eqb x) l') l.
Definition r2k_subn (l l' : list nat) : bool := forallb (fun x => memb x l') l.

Definition r2k_agree (s : W) (fi fi' : nat) (rels : list rel) : bool :=
  let '(n, w, rows, b) := r2k_obs s fi rels in
  let '(n', w', rows', b') := r2k_obs s fi' rels in
  match nth_error (w_filters s) fi with
  | None => false
  | Some f =>
      if r2k_tabled_b s f then
        match n, n', b, b' with
        | Some c, Some c', Some l, Some l' =>
            (Nat.eqb c c' && Nat.eqb (length rows) (length rows') && r2k_sub rows rows' && r2k_sub rows' rows &&
             r2k_subn (filter (r2k_ne s) l) (filter (r2k_ne s) l') && r2k_subn (filter (r2k_ne s) l') (filter (r2k_ne s) l))%bool
        | None, None, _, _ => true     (* both rejected by to_relations (dead per-query target) *)
        | _, _, _, _ => false
        end
      else match n with Some _ => true | None => match n' with None => true | _ => false end end
  end.

Definition r2k_step_ok (s : W) : bool :=
  let r1 := match nth_error (w_issued s) 1 with Some e => [(3, e)] | None => [] end in
  let r2 := match nth_error (w_issued s) 2 with Some e => [(4, e)] | None => [] end in
  (r2k_cidx_b s &&
   forallb (fun k => (r2k_agree s (2 * k) (2 * k + 1) [] && r2k_agree s (2 * k) (2 * k + 1) r1 &&
                      (if Nat.eqb k 2 then r2k_agree s (2 * k) (2 * k + 1) r2 && r2k_agree s (2 * k) (2 * k + 1) (r1 ++ r2) else true))%bool) [0; 1; 2; 3])%bool.

(** Reset unregisters every filter: register the even-numbered filters again. *)
Definition r2k_reregister (s : W) : W :=
  fold_left (fun s k => match nth_error (w_filters s) k with
                        | Some f => match f_cache f with
                                    | None => fst (step false false s [16%Z; Z.of_nat k])
                                    | Some _ => s end
                        | None => s end) [0; 2; 4; 6] s.

(** (all steps agree, number of panicking steps, number of steps at which the filters were registered) *)
Fixpoint r2k_fuzz (n : nat) (x : N) (s : W) : bool * nat * nat :=
  let reg := match nth_error (w_filters s) 0 with Some f => match f_cache f with Some _ => 1 | None => 0 end | None => 0 end in
  match n with
  | O => (r2k_step_ok s, 0, reg)
  | S n' =>
      let l := r2_gen_line x (N.of_nat (length (w_issued s))) in
      let '(s', out) := step false false s l in
      let '(ok, errs, regs) := r2k_fuzz n' (r2_lcg (r2_lcg (r2_lcg (r2_lcg x)))) (r2k_reregister s') in
      ((r2k_step_ok s && ok)%bool, Nat.add (if Z.eqb (hd 9%Z out) 0 then 0 else 1) errs, reg + regs)
  end.
Open Scope Z_scope.
Definition r2k_fuzz_pre : list (list Z) :=
  [[0]; [0]; [0];
   [15; 0; 1;3; 0; 0; 0]; [15; 0; 1;3; 0; 0; 0]; [16; 0];
   [15; 0; 1;3; 0; 0; 1; 3;0]; [15; 0; 1;3; 0; 0; 1; 3;0]; [16; 2];
   [15; 0; 2;3;4; 0; 0; 0]; [15; 0; 2;3;4; 0; 0; 0]; [16; 4];
   [15; 0; 1;3; 1;4; 0; 0]; [15; 0; 1;3; 1;4; 0; 0]; [16; 6]].
Close Scope Z_scope.

Example r2k_fuzz_1 : r2k_fuzz 500 12345 (exec r2_cfg r2k_fuzz_pre) = (true, 152, 501).
Proof. vm_compute. reflexivity. Qed.
Example r2k_fuzz_2 : r2k_fuzz 500 31337 (exec r2_cfg r2k_fuzz_pre) = (true, 210, 501).
Proof. vm_compute. reflexivity. Qed.
Example r2k_fuzz_3 : r2k_fuzz 500 4242 (exec r2_cfg r2k_fuzz_pre) = (true, 186, 501).
Proof. vm_compute. reflexivity. Qed.
(** the comparison is not vacuous: two different filters of the example world disagree *)
Example r2k_agree_can_fail : r2k_agree r2k_ex_world 0 3 [] = false /\ r2k_agree r2k_ex_world 0 1 [] = true /\
  r2k_agree r2k_ex_world 2 3 [(3, (4, 0%N))] = true.
Proof. vm_compute. repeat split; reflexivity. Qed.

Definition r2k_all :=
  (r2k_tbl_matches_app, r2k_arch_sel_spec, r2k_sel_list_spec, r2k_uncached_spec, r2k_uncached_ok, r2k_cached_spec,
   r2k_cached_tables_exact, r2k_batch_selection_same, r2k_St2_frame, r2k_query_open_inv, r2k_walk_same,
   r2k_count_same_gen, r2k_count_same, r2k_entities_same, r2k_iteration_same, r2k_entity_at_same,
   r2k_cidx_b_sound, r2k_cidx_ok_frame, r2k_create_archetype_cidx, r2k_cidx_init,
   r2k_ex_shapes, r2k_ex_values, r2k_ex_pair, r2k_ex_St2, r2k_ex_cidx, r2k_ex_fixed, r2k_ex_apply,
   r2k_untabled_refutes, r2k_nonrel_refutes, r2k_fuzz_1, r2k_fuzz_2, r2k_fuzz_3, r2k_agree_can_fail).
Print Assumptions r2k_all.
