(** * InvRun: the relation-tier invariant evaluated after every step of a script.

    [inv_script lines] replays a script like [run_script] and emits, per operation, the failure flag
    followed by the indices of the invariant checks that are FALSE in the state after the step
    (well-formedness 0-17, relation bookkeeping and targets 18.., cache last; see Rel2Defs). It is
    extracted next to [run_script]; the C04 check runs it on every generated script of its
    correspondence streams, so the executable invariant ([st2_b], proved sound for [St2]) is tested
    on every state the streams reach - including the states at recovered panics. This is testing
    in support of the invariant's validation, not a proof. *)
From Ark Require Import Model.Base Model.Mask Model.Pool Model.Util Model.World Model.Run.
From Ark Require Import Proofs.Rel2Defs.

Fixpoint inv_failing (i : nat) (l : list bool) : list Z :=
  match l with [] => [] | b :: t => if b then inv_failing (S i) t else Z.of_nat i :: inv_failing (S i) t end.

Fixpoint inv_lines (debug : bool) (s : W) (lines : list (list Z)) : list (list Z) :=
  match lines with
  | [] => []
  | l :: rest => let '(s', out) := step debug false s l in
                 (hd 9%Z out :: inv_failing 0 (wf_checks s' ++ rel_inv_checks s' ++ [cache_inv_b s'])) :: inv_lines debug s' rest
  end.

Definition inv_script (lines : list (list Z)) : list (list Z) :=
  match lines with
  | cfg :: [wd] :: ops =>
      match decode_cfg cfg with
      | Some c => inv_lines (sc_debug c) (init_world c) ops
      | None => [[(-2)%Z]]
      end
  | _ => [[(-2)%Z]]
  end.

(** If no index is reported the state satisfies [St2]. *)
Lemma inv_failing_nil : forall l i, inv_failing i l = [] -> forallb (fun b : bool => b) l = true.
Proof.
  induction l as [|b t IH]; intros i H; [reflexivity|]. destruct b; cbn in *; [apply (IH (S i)); exact H | discriminate].
Qed.

Theorem inv_clean_is_St2 : forall s,
  inv_failing 0 (wf_checks s ++ rel_inv_checks s ++ [cache_inv_b s]) = [] -> St2 s.
Proof.
  intros s H. apply st2_b_sound. apply inv_failing_nil in H.
  rewrite !forallb_app in H. apply andb_true_iff in H. destruct H as [H1 H2]. apply andb_true_iff in H2. destruct H2 as [H2 H3].
  cbn in H3. rewrite andb_true_r in H3.
  unfold st2_b, wf_b, rel_inv_b. rewrite H1, H2, H3. reflexivity.
Qed.
