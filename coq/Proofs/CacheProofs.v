(** * CacheProofs: the filter cache is maintained incrementally and stays equal to what an
    unregistered filter computes. Property C05 (relation-free worlds for the invariant part; the
    maintenance steps themselves are proved in general). *)
From Ark Require Import Model.Base Model.Mask Model.Pool Model.Util Model.World Model.Run.
From Ark Require Import Proofs.TableProofs Proofs.MaskProofs Proofs.WF Proofs.StorageA Proofs.StorageBDefs.
From RecordUpdate Require Import RecordSet.
Import RecordSetNotations.
From Coq Require Import Lia.

(** What an unregistered filter selects: the tables [uncached_tables] walks. In a relation-free
    world: for every archetype matching the filter, its table. *)
Definition cache_exact (s : W) : Prop :=
  forall addr e f, In addr (w_centries s) -> nth_error (w_cheap s) addr = Some e ->
    nth_error (w_filters s) (ce_filter e) = Some f ->
    uncached_tables f (ce_rels e) s = Ok (ce_tables e) s \/
    (exists l, uncached_tables f (ce_rels e) s = Ok l s /\ NoDup l /\ NoDup (ce_tables e) /\
               forall t, In t l <-> In t (ce_tables e)).

(** ** Helpers: [uncached_tables] is a pure function of [w_tables] and [w_archs] *)

Definition k_inj {A} (r : err + A) (s : W) : res W A :=
  match r with inl e => Err e s | inr a => Ok a s end.

Fixpoint k_tm_pure (T : list table) (rels : list rel) (b : bool) (l acc : list nat) : err + list nat :=
  match l with
  | [] => inr (rev acc)
  | tid :: rest =>
      match nth_error T tid with
      | None => inl EIndex
      | Some t =>
          if (b && Nat.eqb (t_len t) 0)%bool then k_tm_pure T rels b rest acc
          else match tbl_matches t rels with
               | None => inl ENil
               | Some true => k_tm_pure T rels b rest (tid :: acc)
               | Some false => k_tm_pure T rels b rest acc
               end
      end
  end.

Definition k_tm_go (s : W) (rels : list rel) (need_nonempty : bool) : list nat -> list nat -> res W (list nat) :=
  fix go (l : list nat) (acc : list nat) : res W (list nat) :=
     match l with
     | [] => Ok (rev acc) s
     | tid :: rest =>
         match nth_error (w_tables s) tid with
         | None => Err EIndex s
         | Some t =>
             if (need_nonempty && Nat.eqb (t_len t) 0)%bool then go rest acc
             else match tbl_matches t rels with
                  | None => Err ENil s
                  | Some true => go rest (tid :: acc)
                  | Some false => go rest acc
                  end
         end
     end.

Lemma k_tm_go_pure : forall s rels b tabs acc,
  k_tm_go s rels b tabs acc = k_inj (k_tm_pure (w_tables s) rels b tabs acc) s.
Proof.
  intros s rels b tabs.
  induction tabs as [|tid rest IH]; intros acc; [reflexivity|].
  cbn [k_tm_pure k_tm_go]. destruct (nth_error (w_tables s) tid) as [t|]; [|reflexivity].
  destruct (b && Nat.eqb (t_len t) 0)%bool; [apply IH|].
  destruct (tbl_matches t rels) as [[|]|]; [apply IH|apply IH|reflexivity].
Qed.

Lemma k_tables_matching_pure : forall s tabs rels b,
  tables_matching s tabs rels b = k_inj (k_tm_pure (w_tables s) rels b tabs []) s.
Proof. intros. rewrite <- k_tm_go_pure. reflexivity. Qed.

Fixpoint k_upure (T : list table) (f : fobj) (rels : list rel) (l : list arch) (acc : list nat) : err + list nat :=
  match l with
  | [] => inr acc
  | a :: rest =>
      if negb (filter_matches f (a_mask a)) then k_upure T f rels rest acc
      else if negb (arch_has_rels a) then
        match a_tables a with
        | t0 :: _ => k_upure T f rels rest (acc ++ [t0])
        | [] => inl EIndex
        end
      else match arch_get_tables a rels with
           | None => inl EIndex
           | Some cand =>
               match k_tm_pure T rels false cand [] with
               | inl e => inl e
               | inr ts => k_upure T f rels rest (acc ++ ts)
               end
           end
  end.

Definition k_ugo (f : fobj) (rels : list rel) : list arch -> list nat -> MW (list nat) :=
  fix go (l : list arch) (acc : list nat) : MW (list nat) :=
     match l with
     | [] => ret acc
     | a :: rest =>
         if negb (filter_matches f (a_mask a)) then go rest acc
         else if negb (arch_has_rels a) then
           match a_tables a with
           | t0 :: _ => go rest (acc ++ [t0])
           | [] => fail EIndex
           end
         else
           cand <- of_opt (arch_get_tables a rels) EIndex ;;
           ts <- (fun s => tables_matching s cand rels false) ;;
           go rest (acc ++ ts)
     end.

Lemma k_ugo_pure : forall f rels s l acc,
  k_ugo f rels l acc s = k_inj (k_upure (w_tables s) f rels l acc) s.
Proof.
  intros f rels s l. induction l as [|a rest IH]; intros acc; [reflexivity|].
  cbn [k_upure k_ugo]. destruct (negb (filter_matches f (a_mask a))); [apply IH|].
  destruct (negb (arch_has_rels a)).
  - destruct (a_tables a); [reflexivity|apply IH].
  - unfold bind at 1. destruct (arch_get_tables a rels) as [cand|]; [|reflexivity].
    cbn [of_opt ret]. unfold bind at 1. rewrite k_tables_matching_pure.
    destruct (k_tm_pure (w_tables s) rels false cand []); [reflexivity|]. cbn [k_inj]. apply IH.
Qed.

(** [uncached_tables] reads only [w_archs] and [w_tables] and returns its input state. *)
Lemma k_uncached_pure : forall f rels s,
  uncached_tables f rels s = k_inj (k_upure (w_tables s) f rels (w_archs s) []) s.
Proof. intros f rels s. rewrite <- k_ugo_pure. reflexivity. Qed.

Lemma k_uncached_frame : forall f rels s s',
  w_tables s' = w_tables s -> w_archs s' = w_archs s ->
  forall r, uncached_tables f rels s' = Ok r s' -> uncached_tables f rels s = Ok r s.
Proof.
  intros f rels s s' ET EA r. rewrite !k_uncached_pure, ET, EA.
  destruct (k_upure (w_tables s) f rels (w_archs s) []); cbn [k_inj]; intros H; inversion H; reflexivity.
Qed.

Lemma k_uncached_state : forall f rels s r s', uncached_tables f rels s = Ok r s' -> s' = s.
Proof.
  intros f rels s r s'. rewrite k_uncached_pure.
  destruct (k_upure (w_tables s) f rels (w_archs s) []); cbn [k_inj]; intros H; inversion H; reflexivity.
Qed.

(** ** Registration *)

(** Registration fills the entry with exactly the uncached selection. *)
Theorem register_fills_exact : forall s fi f, St s -> nth_error (w_filters s) fi = Some f -> f_cache f = None ->
  match filter_register fi s with
  | Ok _ s' =>
      exists addr e tabs, w_centries s' = w_centries s ++ [addr] /\ nth_error (w_cheap s') addr = Some e /\
        ce_filter e = fi /\ ce_rels e = f_rels f /\ ce_tables e = tabs /\
        uncached_tables f (f_rels f) s = Ok tabs s /\ w_tables s' = w_tables s /\ w_archs s' = w_archs s
  | Err _ s' => True
  end.
Proof.
  intros s fi f _ Hf Hc. unfold filter_register.
  assert (EF : getF fi s = Ok f s) by (unfold getF, bind, get, of_opt; rewrite Hf; reflexivity).
  rewrite (sa_bind_ok EF). rewrite Hc. cbn [guard]. rewrite (sa_bind_ok (m := ret tt) (s := s) eq_refl).
  rewrite (sa_bind_ok (m := get) (s := s) eq_refl).
  destruct (ipool_get None (w_cpool s)) as [[id p']|]; [|exact I].
  rewrite (sa_bind_ok (m := put _) (s := s) eq_refl).
  set (s1 := s <| w_cpool := p' |>).
  rewrite (sa_bind_ok (m := modify _) (s := s1) eq_refl).
  set (s2 := s1 <| w_filters ::= updf fi (fun f0 => f0 <| f_cache := Some id |>) |>).
  destruct (uncached_tables f (f_rels f) s2) as [tabs s3|e s3] eqn:EU; [|rewrite (sa_bind_err EU); exact I].
  rewrite (sa_bind_ok EU). pose proof (k_uncached_state _ _ _ _ _ EU) as ->.
  cbn [modify].
  exists (length (w_cheap s)), {| ce_id := id; ce_filter := fi; ce_rels := f_rels f; ce_tables := tabs |}, tabs.
  split; [reflexivity|]. split; [cbn; apply sa_nth_error_snoc_new|].
  repeat (split; [reflexivity|]). split; [|split; reflexivity].
  apply (k_uncached_frame f (f_rels f) s s2); [reflexivity|reflexivity|exact EU].
Qed.

(** ** The maintenance loop of [cache_add_table] *)

Definition k_entry_upd (tid : nat) (am : mask) (s : W) (L : list nat) (addr : nat) (e e' : centry) : Prop :=
  ce_id e' = ce_id e /\ ce_filter e' = ce_filter e /\ ce_rels e' = ce_rels e /\
  ce_tables e' = if (memb addr L &&
                     match nth_error (w_filters s) (ce_filter e) with Some f => filter_matches f am | None => false end)%bool
                 then ce_tables e ++ [tid] else ce_tables e.

Lemma k_cache_loop_exact : forall tid t am L s,
  t_rels t = [] -> NoDup L ->
  (forall addr, In addr L -> exists e, nth_error (w_cheap s) addr = Some e /\ ce_filter e < length (w_filters s)) ->
  exists l', forM_ L (sa_cache_body tid t am) s = Ok tt (s <| w_cheap := l' |>) /\
    length l' = length (w_cheap s) /\
    forall addr e, nth_error (w_cheap s) addr = Some e ->
      exists e', nth_error l' addr = Some e' /\ k_entry_upd tid am s L addr e e'.
Proof.
  intros tid t am L. induction L as [|a0 L IH]; intros s Ht ND H.
  - exists (w_cheap s). cbn [forM_]. unfold ret. rewrite sa_set_cheap_id. split; [reflexivity|]. split; [reflexivity|].
    intros addr e He. exists e. split; [exact He|]. unfold k_entry_upd. cbn. auto.
  - cbn [forM_]. destruct (H a0 (or_introl eq_refl)) as (e0 & He0 & Hf0).
    inversion ND as [|x y Hnin ND']; subst x y.
    destruct (nth_error (w_filters s) (ce_filter e0)) as [f0|] eqn:EF; [|apply nth_error_None in EF; lia].
    assert (Hnm : memb a0 L = false).
    { destruct (memb a0 L) eqn:E; [|reflexivity]. apply sa_memb_in in E. contradiction. }
    destruct (filter_matches f0 am) eqn:EM.
    + (* the entry is extended *)
      set (s1 := s <| w_cheap ::= updf a0 (fun e => e <| ce_tables ::= fun l => l ++ [tid] |>) |>).
      assert (E : sa_cache_body tid t am a0 s = Ok tt s1).
      { unfold sa_cache_body, bind, get. rewrite He0, EF, EM. unfold tbl_has_rels. rewrite Ht. reflexivity. }
      rewrite (sa_bind_ok E).
      assert (C1 : forall i, nth_error (w_cheap s1) i =
                     if Nat.eqb a0 i then option_map (fun e => e <| ce_tables ::= fun l => l ++ [tid] |>) (nth_error (w_cheap s) i)
                     else nth_error (w_cheap s) i).
      { intros i. unfold s1. cbn. apply nth_error_updf. }
      destruct (IH s1 Ht ND') as (l' & E' & LL & P).
      { intros a Ha. destruct (H a (or_intror Ha)) as (x & Hx & Fx). rewrite C1.
        destruct (Nat.eqb_spec a0 a).
        - rewrite Hx. cbn. eexists. split; [reflexivity|exact Fx].
        - exists x. auto. }
      exists l'. split; [rewrite E'; reflexivity|]. split.
      { rewrite LL. unfold s1. cbn. apply updf_length. }
      intros addr e He. specialize (C1 addr). rewrite He in C1.
      destruct (Nat.eqb_spec a0 addr) as [<-|Ne].
      * cbn in C1. destruct (P _ _ C1) as (e' & He' & U1 & U2 & U3 & U4). exists e'. split; [exact He'|].
        rewrite He0 in He. inversion He; subst e.
        unfold k_entry_upd. rewrite sa_memb_cons, Nat.eqb_refl. rewrite Hnm in U4. cbn in U1, U2, U3, U4 |- *.
        rewrite EF, EM. auto.
      * destruct (P _ _ C1) as (e' & He' & U1 & U2 & U3 & U4). exists e'. split; [exact He'|].
        unfold k_entry_upd. rewrite sa_memb_cons. destruct (Nat.eqb_spec a0 addr) as [|_]; [contradiction|].
        cbn [orb]. auto.
    + (* no match: the state is unchanged *)
      assert (E : sa_cache_body tid t am a0 s = Ok tt s).
      { unfold sa_cache_body, bind, get. rewrite He0, EF, EM. reflexivity. }
      rewrite (sa_bind_ok E).
      destruct (IH s Ht ND') as (l' & E' & LL & P).
      { intros a Ha. apply H. right. exact Ha. }
      exists l'. split; [exact E'|]. split; [exact LL|].
      intros addr e He. destruct (P _ _ He) as (e' & He' & U1 & U2 & U3 & U4). exists e'. split; [exact He'|].
      unfold k_entry_upd. rewrite sa_memb_cons. destruct (Nat.eqb_spec a0 addr) as [<-|Ne].
      * rewrite He0 in He. inversion He; subst e. rewrite EF, EM in U4 |- *. rewrite Bool.andb_false_r in U4 |- *. auto.
      * cbn [orb]. auto.
Qed.

Lemma k_cache_add_table_exact_gen : forall s tid t am,
  t_rels t = [] -> NoDup (w_centries s) ->
  (forall addr, In addr (w_centries s) -> exists e, nth_error (w_cheap s) addr = Some e /\ ce_filter e < length (w_filters s)) ->
  exists l', cache_add_table tid t am s = Ok tt (s <| w_cheap := l' |>) /\
    length l' = length (w_cheap s) /\
    forall addr e, nth_error (w_cheap s) addr = Some e ->
      exists e', nth_error l' addr = Some e' /\ k_entry_upd tid am s (w_centries s) addr e e'.
Proof.
  intros s tid t am Ht ND H. rewrite sa_cache_add_table_unfold. unfold bind at 1. unfold get at 1.
  apply k_cache_loop_exact; auto.
Qed.

(** The maintenance step on table creation: after a new table [tid] of an archetype with mask [am]
    has been appended, [cache_add_table] appends [tid] to exactly the entries whose filter matches
    [am] (relation-free: no target check), and leaves all other entries alone. *)
Theorem cache_add_table_exact_partial : forall s tid t am, St s -> nth_error (w_tables s) tid = Some t -> t_rels t = [] ->
  NoDup (w_centries s) ->
  exists s', cache_add_table tid t am s = Ok tt s' /\
    w_centries s' = w_centries s /\ length (w_cheap s') = length (w_cheap s) /\
    (forall addr e, nth_error (w_cheap s) addr = Some e ->
       exists e', nth_error (w_cheap s') addr = Some e' /\ ce_id e' = ce_id e /\ ce_filter e' = ce_filter e /\ ce_rels e' = ce_rels e /\
         ce_tables e' = if (memb addr (w_centries s) &&
                            match nth_error (w_filters s) (ce_filter e) with Some f => filter_matches f am | None => false end)%bool
                        then ce_tables e ++ [tid] else ce_tables e).
Proof.
  intros s tid t am [HW _] _ Ht ND.
  destruct (k_cache_add_table_exact_gen s tid t am Ht ND (wf_cache _ HW)) as (l' & E & LL & P).
  exists (s <| w_cheap := l' |>). split; [exact E|]. split; [reflexivity|]. split; [exact LL|].
  intros addr e He. destruct (P _ _ He) as (e' & He' & U). exists e'. split; [exact He'|exact U].
Qed.

(* ORIGINAL STATEMENT (FALSE, see [k_cache_add_table_exact_refuted] below; proved with the extra
   hypothesis [NoDup (w_centries s)] as [cache_add_table_exact_partial] above):

Theorem cache_add_table_exact : forall s tid t am, St s -> nth_error (w_tables s) tid = Some t -> t_rels t = [] ->
  exists s', cache_add_table tid t am s = Ok tt s' /\
    w_centries s' = w_centries s /\ length (w_cheap s') = length (w_cheap s) /\
    (forall addr e, nth_error (w_cheap s) addr = Some e ->
       exists e', nth_error (w_cheap s') addr = Some e' /\ ce_id e' = ce_id e /\ ce_filter e' = ce_filter e /\ ce_rels e' = ce_rels e /\
         ce_tables e' = if (memb addr (w_centries s) &&
                            match nth_error (w_filters s) (ce_filter e) with Some f => filter_matches f am | None => false end)%bool
                        then ce_tables e ++ [tid] else ce_tables e).
(refuted)

   Reason: [WF] ([wf_cache]) does not force the addresses in [w_centries] to be pairwise distinct.
   If an address occurs twice, the loop appends [tid] twice to that entry. Missing invariant
   clause: [NoDup (w_centries s)] (true in all reachable states: [filter_register] appends the
   fresh address [length (w_cheap s)], [filter_unregister] swap-removes one position). *)

(** *** The statement without [NoDup (w_centries s)] is false

    [WF] only says that the addresses in [w_centries] point to existing entries ([wf_cache]); it
    does not say that they are pairwise distinct. With [w_centries = [0; 0]] the loop visits the
    (matching) entry twice and appends the table twice. *)
Definition k_cex_cfg : script_cfg := {| sc_cap := 1; sc_caprel := 1; sc_bits := 0; sc_debug := false; sc_kinds := [] |}.
Definition k_cex_filter : fobj :=
  {| f_ids := []; f_mask := 0%N; f_without := 0%N; f_haswithout := false; f_cache := Some 0; f_rels := []; f_unsafe := false |}.
Definition k_cex_entry : centry := {| ce_id := 0; ce_filter := 0; ce_rels := []; ce_tables := [] |}.
Definition k_cex_state : W :=
  init_world k_cex_cfg <| w_centries := [0; 0] |> <| w_cheap := [k_cex_entry] |> <| w_filters := [k_cex_filter] |>.

Lemma k_cex_St : St k_cex_state.
Proof.
  assert (H : St (init_world k_cex_cfg)).
  { apply St_init; cbn; auto. }
  destruct H as [HW HN]. split.
  - destruct HW. constructor; auto.
    intros addr Hin. exists k_cex_entry. cbn in Hin. destruct Hin as [<-|[<-|[]]]; cbn; auto.
  - exact HN.
Qed.

Lemma k_cache_add_table_exact_refuted :
  ~ (forall s tid t am, St s -> nth_error (w_tables s) tid = Some t -> t_rels t = [] ->
      exists s', cache_add_table tid t am s = Ok tt s' /\
        w_centries s' = w_centries s /\ length (w_cheap s') = length (w_cheap s) /\
        (forall addr e, nth_error (w_cheap s) addr = Some e ->
           exists e', nth_error (w_cheap s') addr = Some e' /\ ce_id e' = ce_id e /\ ce_filter e' = ce_filter e /\ ce_rels e' = ce_rels e /\
             ce_tables e' = if (memb addr (w_centries s) &&
                                match nth_error (w_filters s) (ce_filter e) with Some f => filter_matches f am | None => false end)%bool
                            then ce_tables e ++ [tid] else ce_tables e)).
Proof.
  intros H.
  destruct (H k_cex_state 0 (new_table 0 {| a_mask := 0%N; a_comps := []; a_isrel := []; a_tables := [0]; a_free := [];
               a_reltabs := []; a_tgttabs := []; a_numrel := 0 |} [] 1 [] []) 0%N k_cex_St eq_refl eq_refl)
    as (s' & E & _ & _ & P).
  destruct (P 0 k_cex_entry eq_refl) as (e' & He' & _ & _ & _ & T).
  vm_compute in E. inversion E; subst s'. vm_compute in He'. inversion He'; subst e'.
  vm_compute in T. discriminate.
Qed.

(** ** The uncached walk in a relation-free world *)

(** For every matching archetype, in order, its (first) table; [None] when a matching archetype
    has no table (the walk then fails with [EIndex]). *)
Fixpoint k_sel (f : fobj) (l : list arch) (acc : list nat) : option (list nat) :=
  match l with
  | [] => Some acc
  | a :: rest =>
      if negb (filter_matches f (a_mask a)) then k_sel f rest acc
      else match a_tables a with
           | t0 :: _ => k_sel f rest (acc ++ [t0])
           | [] => None
           end
  end.

Lemma k_upure_norel : forall T f rels l acc, Forall (fun a => a_numrel a = 0) l ->
  k_upure T f rels l acc = match k_sel f l acc with Some r => inr r | None => inl EIndex end.
Proof.
  intros T f rels l. induction l as [|a rest IH]; intros acc HF; [reflexivity|].
  inversion HF as [|x y Ha HF']; subst x y. cbn [k_upure k_sel].
  destruct (negb (filter_matches f (a_mask a))); [apply IH; exact HF'|].
  unfold arch_has_rels. rewrite Ha. cbn [Nat.eqb negb].
  destruct (a_tables a); [reflexivity|apply IH; exact HF'].
Qed.

Lemma k_norel_archs : forall s, NoRel s -> Forall (fun a => a_numrel a = 0) (w_archs s).
Proof.
  intros s (_ & _ & N3 & _). apply Forall_forall. intros a Hin.
  apply In_nth_error in Hin. destruct Hin as (i & Hi). apply (N3 i a Hi).
Qed.

Lemma k_uncached_sel : forall f rels s, NoRel s ->
  uncached_tables f rels s = match k_sel f (w_archs s) [] with Some r => Ok r s | None => Err EIndex s end.
Proof.
  intros f rels s HN. rewrite k_uncached_pure, k_upure_norel by (apply k_norel_archs; exact HN).
  destruct (k_sel f (w_archs s) []); reflexivity.
Qed.

(** A matching archetype without a table makes the walk fail. *)
Lemma k_sel_none : forall f l aid a acc, nth_error l aid = Some a -> a_tables a = [] ->
  filter_matches f (a_mask a) = true -> k_sel f l acc = None.
Proof.
  intros f l. induction l as [|b rest IH]; intros aid a acc Ha Ht Hm; [destruct aid; discriminate|].
  destruct aid as [|aid]; cbn in Ha.
  - inversion Ha; subst b. cbn [k_sel]. rewrite Hm, Ht. reflexivity.
  - cbn [k_sel]. destruct (negb (filter_matches f (a_mask b))); [eapply IH; eauto|].
    destruct (a_tables b); [reflexivity|eapply IH; eauto].
Qed.

(** Giving a table to a non-matching archetype does not change the walk. *)
Lemma k_sel_updf_nomatch : forall f g l aid a acc, nth_error l aid = Some a ->
  filter_matches f (a_mask a) = false -> a_mask (g a) = a_mask a ->
  k_sel f (updf aid g l) acc = k_sel f l acc.
Proof.
  intros f g l aid a acc Ha Hm Hg. unfold updf. rewrite Ha. revert aid acc Ha.
  induction l as [|b rest IH]; intros aid acc Ha; [destruct aid; discriminate|].
  destruct aid as [|aid]; cbn in Ha.
  - inversion Ha; subst b. cbn [upd k_sel]. rewrite Hg, Hm. reflexivity.
  - cbn [upd k_sel]. destruct (negb (filter_matches f (a_mask b))); [apply IH; exact Ha|].
    destruct (a_tables b); [reflexivity|apply IH; exact Ha].
Qed.

(** ** [create_table] for the first table of a relation-free archetype, exactly *)
Lemma k_create_table_nil : forall s aid a,
  St s -> nth_error (w_archs s) aid = Some a -> a_tables a = [] ->
  let tid := length (w_tables s) in
  let t := new_table aid a (map (kind_of s) (a_comps a)) (cf_cap (w_cfg s)) (repeat zero_ent (length (a_comps a))) [] in
  let s2 := s <| w_tables ::= fun l => l ++ [t] |> <| w_archs ::= updf aid (fun a0 => arch_add_table a0 tid t) |> in
  create_table aid [] s = (cache_add_table tid t (a_mask a) ;;; ret tid) s2 /\
  w_archs s2 = updf aid (sa_arch_add tid) (w_archs s).
Proof.
  intros s aid a HS Ha Hta tid t s2. pose proof HS as [HW HN]. pose proof HN as (N1 & N2 & N3 & N4).
  destruct (N3 aid a Ha) as (Hf & Hn & Hg & Hr).
  split.
  - unfold create_table.
    rewrite (sa_bind_ok (sa_getA_eq _ _ _ Ha)). rewrite Hn. cbn [length Nat.ltb Nat.leb negb guard].
    rewrite (sa_bind_ok (m := ret tt) (s := s) eq_refl).
    cbn [rels_distinct guard]. rewrite (sa_bind_ok (m := ret tt) (s := s) eq_refl).
    cbn [place_targets of_opt]. rewrite (sa_bind_ok (m := ret _) (s := s) eq_refl).
    cbn [forM_]. rewrite (sa_bind_ok (m := ret tt) (s := s) eq_refl).
    unfold register_targets; cbn [forM_]. rewrite (sa_bind_ok (m := ret tt) (s := s) eq_refl).
    rewrite (sa_bind_ok (m := get) (s := s) eq_refl).
    rewrite Hf. cbn [rev].
    unfold arch_has_rels. rewrite Hn. cbn [Nat.eqb negb].
    fold tid. fold t.
    set (s1 := s <| w_tables ::= fun l => l ++ [t] |>).
    assert (E1 : (modify (fun s0 : wstate => s0 <| w_tables ::= fun l => l ++ [t] |>) ;;; ret tid) s = Ok tid s1) by reflexivity.
    rewrite (sa_bind_ok E1).
    assert (T1 : nth_error (w_tables s1) tid = Some t) by (unfold s1; cbn; apply sa_nth_error_snoc_new).
    rewrite (sa_bind_ok (sa_getT_eq _ _ _ T1)).
    assert (E2 : modA aid (fun a0 => arch_add_table a0 tid t) s1 = Ok tt s2) by reflexivity.
    rewrite (sa_bind_ok E2). reflexivity.
  - unfold s2. cbn. unfold updf. rewrite Ha. f_equal. unfold arch_add_table, arch_has_rels. rewrite Hn. reflexivity.
Qed.

(** Creating structure keeps the cache exact: the key inductive step of C05 for relation-free worlds.

    NOTE (see the report): the statement is true as written, but for a weaker reason than intended.
    When the archetype [aid] has no table yet, [uncached_tables] FAILS ([EIndex]) in [s] for every
    filter that matches [a_mask a]; hence [cache_exact s] already forces every registered filter not
    to match [a_mask a], [cache_add_table] changes nothing and the walk is unchanged. *)
Theorem get_or_create_table_cache_exact : forall s aid a,
  St s -> cache_exact s -> nth_error (w_archs s) aid = Some a ->
  (forall addr, In addr (w_centries s) -> NoDup (w_centries s)) ->
  match get_or_create_table aid [] s with
  | Ok _ s' => cache_exact s'
  | Err _ s' => True
  end.
Proof.
  intros s aid a HS HC Ha HND0.
  assert (ND : NoDup (w_centries s)).
  { destruct (w_centries s) as [|x l]; [constructor|]. apply (HND0 x). left. reflexivity. }
  pose proof (get_or_create_table_spec s aid a [] HS Ha) as SPEC.
  pose proof HS as [HW HN]. pose proof HN as (N1 & N2 & N3 & N4).
  destruct (N3 aid a Ha) as (Hf & Hn & Hg & Hr).
  unfold get_or_create_table in *. rewrite (sa_bind_ok (sa_getA_eq _ _ _ Ha)) in *.
  unfold arch_get_table in *. destruct (a_tables a) as [|t0 tl] eqn:Hta.
  - rewrite (sa_bind_ok (m := ret None) (s := s) eq_refl) in *.
    destruct (k_create_table_nil s aid a HS Ha Hta) as (EC & EA). cbv zeta in EC, EA.
    set (tid := length (w_tables s)) in *.
    set (t := new_table aid a (map (kind_of s) (a_comps a)) (cf_cap (w_cfg s)) (repeat zero_ent (length (a_comps a))) []) in *.
    set (s2 := s <| w_tables ::= fun l => l ++ [t] |> <| w_archs ::= updf aid (fun a0 => arch_add_table a0 tid t) |>) in *.
    rewrite EC in *.
    destruct (k_cache_add_table_exact_gen s2 tid t (a_mask a) eq_refl ND (wf_cache _ HW)) as (l' & E3 & LL & P).
    rewrite (sa_bind_ok E3) in *. unfold ret in *.
    set (s3 := s2 <| w_cheap := l' |>) in *.
    destruct SPEC as ([HW3 HN3] & _).
    assert (EA3 : w_archs s3 = updf aid (sa_arch_add tid) (w_archs s)) by exact EA.
    intros addr e' f Hin He' Hf'.
    change (w_centries s3) with (w_centries s) in Hin.
    change (w_cheap s3) with l' in He'.
    change (w_filters s3) with (w_filters s) in Hf'.
    destruct (wf_cache _ HW addr Hin) as (e & He & _).
    destruct (P addr e He) as (e'' & He'' & U1 & U2 & U3 & U4).
    rewrite He' in He''. inversion He''; subst e''. clear He''.
    change (w_filters s2) with (w_filters s) in U4. rewrite <- U2, Hf' in U4.
    rewrite U2 in Hf'.
    (* the walk succeeded in [s], so the filter does not match the table-less archetype *)
    assert (OKs : exists l0, k_sel f (w_archs s) [] = Some l0 /\
              (l0 = ce_tables e \/ (NoDup l0 /\ NoDup (ce_tables e) /\ forall x, In x l0 <-> In x (ce_tables e)))).
    { destruct (HC addr e f Hin He Hf') as [D|(l & D & R)]; rewrite (k_uncached_sel _ _ _ HN) in D;
        destruct (k_sel f (w_archs s) []) as [l0|]; try discriminate; inversion D; subst; eauto. }
    destruct OKs as (l0 & SEL & REL).
    assert (NM : filter_matches f (a_mask a) = false).
    { destruct (filter_matches f (a_mask a)) eqn:EM; [|reflexivity].
      rewrite (k_sel_none f (w_archs s) aid a [] Ha Hta EM) in SEL. discriminate. }
    rewrite NM, Bool.andb_false_r in U4.
    assert (SEL3 : k_sel f (w_archs s3) [] = Some l0).
    { rewrite EA3, (k_sel_updf_nomatch f (sa_arch_add tid) (w_archs s) aid a [] Ha NM eq_refl). exact SEL. }
    rewrite U3, U4, (k_uncached_sel _ _ _ HN3), SEL3.
    destruct REL as [->|R]; [left; reflexivity|right; exists l0; split; [reflexivity|exact R]].
  - unfold arch_has_rels. rewrite Hn. cbn [Nat.eqb negb]. rewrite (sa_bind_ok (m := ret (Some t0)) (s := s) eq_refl).
    unfold ret. exact HC.
Qed.

(** ** Unregistration *)

Definition k_pos_go (h : list centry) (cid : nat) : list nat -> nat -> option nat :=
  fix go (l : list nat) (i : nat) : option nat :=
    match l with
    | [] => None
    | addr :: t => match nth_error h addr with
                   | Some e => if Nat.eqb (ce_id e) cid then Some i else go t (S i)
                   | None => go t (S i)
                   end
    end.

Lemma k_pos_go_bound : forall h cid l i idx, k_pos_go h cid l i = Some idx -> i <= idx < i + length l.
Proof.
  intros h cid l. induction l as [|addr t IH]; intros i idx H; [discriminate|].
  cbn [k_pos_go] in H. cbn [length].
  destruct (nth_error h addr) as [e|].
  - destruct (Nat.eqb (ce_id e) cid).
    + inversion H; subst. lia.
    + apply IH in H. lia.
  - apply IH in H. lia.
Qed.

Lemma k_in_upd : forall A (l : list A) i x y, In y (upd i x l) -> y = x \/ In y l.
Proof.
  intros A l. induction l as [|h t IH]; intros i x y H; [destruct i; destruct H|].
  destruct i as [|i]; cbn in H.
  - destruct H as [<-|H]; [left; reflexivity|right; right; exact H].
  - destruct H as [<-|H]; [right; left; reflexivity|]. apply IH in H. destruct H; [left|right; right]; assumption.
Qed.

Lemma k_in_firstn : forall A n (l : list A) x, In x (firstn n l) -> In x l.
Proof.
  intros A n l x H. rewrite <- (firstn_skipn n l). apply in_or_app. left. exact H.
Qed.

(** Unregistering removes exactly that filter's entry (the other entries keep their tables), and
    the filter becomes unregistered; open queries that hold the removed entry's address still find
    it unchanged in the heap. *)
Theorem unregister_exact : forall s fi f cid, nth_error (w_filters s) fi = Some f -> f_cache f = Some cid ->
  match filter_unregister fi s with
  | Ok _ s' =>
      w_cheap s' = w_cheap s /\ (forall f', nth_error (w_filters s') fi = Some f' -> f_cache f' = None) /\
      (forall addr, In addr (w_centries s') -> In addr (w_centries s)) /\
      length (w_centries s') = length (w_centries s) - 1
  | Err _ s' => s' = s
  end.
Proof.
  intros s fi f cid Hf Hc. unfold filter_unregister.
  assert (EF : getF fi s = Ok f s) by (unfold getF, bind, get, of_opt; rewrite Hf; reflexivity).
  rewrite (sa_bind_ok EF). rewrite Hc. rewrite (sa_bind_ok (m := get) (s := s) eq_refl).
  fold (k_pos_go (w_cheap s) cid).
  destruct (k_pos_go (w_cheap s) cid (w_centries s) 0) as [idx|] eqn:EP; cbn [of_opt].
  2:{ reflexivity. }
  rewrite (sa_bind_ok (m := ret idx) (s := s) eq_refl).
  apply k_pos_go_bound in EP.
  rewrite (sa_bind_ok (m := modify _) (s := s) eq_refl). cbn [modify].
  cbn [w_cheap w_filters w_centries].
  set (last := length (w_centries s) - 1).
  set (l1 := if Nat.eqb idx last then w_centries s
             else match nth_error (w_centries s) last with Some x => upd idx x (w_centries s) | None => w_centries s end).
  cbn.
  split; [reflexivity|]. split; [|split].
  - intros f' H. rewrite nth_error_updf, Nat.eqb_refl, Hf in H. cbn in H. inversion H; subst f'. reflexivity.
  - intros addr H. apply k_in_firstn in H. unfold l1 in H.
    destruct (Nat.eqb idx last); [exact H|].
    destruct (nth_error (w_centries s) last) as [x|] eqn:EX; [|exact H].
    apply k_in_upd in H. destruct H as [->|H]; [|exact H]. eapply nth_error_In; eauto.
  - assert (LL : length l1 = length (w_centries s)).
    { unfold l1. destruct (Nat.eqb idx last); [reflexivity|].
      destruct (nth_error (w_centries s) last); [apply upd_length|reflexivity]. }
    rewrite firstn_length, LL. unfold last. lia.
Qed.

(** A cached query and an uncached query over an exact cache walk the same set of tables. *)
Theorem cached_walk_same_tables : forall s fi f cid addr e,
  St s -> cache_exact s -> nth_error (w_filters s) fi = Some f -> f_cache f = Some cid ->
  entry_addr s cid = Some addr -> nth_error (w_cheap s) addr = Some e -> ce_filter e = fi ->
  In addr (w_centries s) ->
  exists l, uncached_tables f (ce_rels e) s = Ok l s /\ (forall t, In t l <-> In t (ce_tables e)).
Proof.
  intros s fi f cid addr e _ HC Hf _ _ He Hfi Hin. subst fi.
  destruct (HC addr e f Hin He Hf) as [D|(l & D & _ & _ & R)].
  - exists (ce_tables e). split; [exact D|]. intros t. reflexivity.
  - exists l. split; [exact D|exact R].
Qed.

(** ** Supplement: the inductive step that [get_or_create_table_cache_exact] was meant to express

    [cache_exact] is stated with [uncached_tables], which fails on a matching archetype that has no
    table yet. [St] admits such archetypes ([wf_arch_norel_table] only says "at most one table"); they
    are the intermediate states inside createArchetype, between the archetype record
    ([create_archetype_bare]) and its table. (Before the repair of createArchetype the table was left to
    the following createTable, and a call rejected in between left such an archetype behind for good;
    since the repair no reachable state has one: [archs_tabled_norel] of WF.v, StorageA, StorageD.)
    So [cache_exact s] cannot hold in the pre-state of the interesting case (a registered filter
    matches the new table's archetype, which has no table yet), and the theorem above is vacuous there. The invariant below uses the tolerant walk [k_selt] (matching archetypes
    without a table contribute nothing) and IS preserved in the interesting case: the new table is
    appended to exactly the matching entries, while it appears in the walk at the position of its
    archetype (hence equality up to permutation). When every archetype has a table the two
    notions coincide ([k_cache_exact_tol_exact]). *)
Fixpoint k_selt (f : fobj) (l : list arch) : list nat :=
  match l with
  | [] => []
  | a :: rest =>
      if filter_matches f (a_mask a)
      then match a_tables a with t0 :: _ => t0 :: k_selt f rest | [] => k_selt f rest end
      else k_selt f rest
  end.

Definition k_cache_exact_tol (s : W) : Prop :=
  forall addr e f, In addr (w_centries s) -> nth_error (w_cheap s) addr = Some e ->
    nth_error (w_filters s) (ce_filter e) = Some f ->
    NoDup (k_selt f (w_archs s)) /\ NoDup (ce_tables e) /\
    forall t, In t (k_selt f (w_archs s)) <-> In t (ce_tables e).

Lemma k_sel_selt : forall f l acc, (forall a, In a l -> a_tables a <> []) ->
  k_sel f l acc = Some (acc ++ k_selt f l).
Proof.
  intros f l. induction l as [|a rest IH]; intros acc H; cbn [k_sel k_selt].
  - rewrite app_nil_r. reflexivity.
  - assert (H' : forall b, In b rest -> a_tables b <> []) by (intros b Hb; apply H; right; exact Hb).
    destruct (filter_matches f (a_mask a)); cbn [negb]; [|apply IH; exact H'].
    destruct (a_tables a) as [|t0 tl] eqn:E; [exfalso; apply (H a (or_introl eq_refl)); exact E|].
    rewrite IH by exact H'. rewrite <- app_assoc. reflexivity.
Qed.

Lemma k_cache_exact_tol_exact : forall s, NoRel s ->
  (forall aid a, nth_error (w_archs s) aid = Some a -> a_tables a <> []) ->
  k_cache_exact_tol s -> cache_exact s.
Proof.
  intros s HN HT HC addr e f Hin He Hf. right. exists (k_selt f (w_archs s)).
  rewrite (k_uncached_sel _ _ _ HN), k_sel_selt.
  - split; [reflexivity|]. apply (HC addr e f Hin He Hf).
  - intros a Ha. apply In_nth_error in Ha. destruct Ha as (i & Hi). eapply HT; eauto.
Qed.

Lemma k_selt_in : forall f l x, In x (k_selt f l) -> exists i a, nth_error l i = Some a /\ In x (a_tables a).
Proof.
  intros f l. induction l as [|a rest IH]; intros x H; [destruct H|].
  cbn [k_selt] in H.
  assert (R : In x (k_selt f rest) -> exists i b, nth_error (a :: rest) i = Some b /\ In x (a_tables b)).
  { intros H'. destruct (IH x H') as (i & b & Hi & Hb). exists (S i), b. auto. }
  destruct (filter_matches f (a_mask a)); [|auto].
  destruct (a_tables a) as [|t0 tl] eqn:E; [auto|].
  destruct H as [<-|H]; [|auto]. exists 0, a. split; [reflexivity|]. rewrite E. left. reflexivity.
Qed.

Lemma k_selt_updf_nomatch : forall f g l aid a, nth_error l aid = Some a ->
  filter_matches f (a_mask a) = false -> a_mask (g a) = a_mask a ->
  k_selt f (updf aid g l) = k_selt f l.
Proof.
  intros f g l aid a Ha Hm Hg. unfold updf. rewrite Ha. revert aid Ha.
  induction l as [|b rest IH]; intros aid Ha; [destruct aid; discriminate|].
  destruct aid as [|aid]; cbn in Ha.
  - inversion Ha; subst b. cbn [upd k_selt]. rewrite Hg, Hm. reflexivity.
  - cbn [upd k_selt]. rewrite (IH aid Ha). reflexivity.
Qed.

Lemma k_selt_updf_match : forall f tid l aid a, nth_error l aid = Some a ->
  filter_matches f (a_mask a) = true -> a_tables a = [] ->
  exists l1 l2, k_selt f l = l1 ++ l2 /\ k_selt f (updf aid (sa_arch_add tid) l) = l1 ++ tid :: l2.
Proof.
  intros f tid l aid a Ha Hm Ht. unfold updf. rewrite Ha. revert aid Ha.
  induction l as [|b rest IH]; intros aid Ha; [destruct aid; discriminate|].
  destruct aid as [|aid]; cbn in Ha.
  - inversion Ha; subst b. cbn [upd k_selt]. unfold sa_arch_add at 1 2. cbn. rewrite Hm, Ht. cbn.
    exists [], (k_selt f rest). split; reflexivity.
  - cbn [upd k_selt]. destruct (IH aid Ha) as (l1 & l2 & E1 & E2). rewrite E1, E2.
    destruct (filter_matches f (a_mask b)); [|exists l1, l2; split; reflexivity].
    destruct (a_tables b) as [|t0 tl]; [exists l1, l2; split; reflexivity|].
    exists (t0 :: l1), l2. split; reflexivity.
Qed.

Theorem k_get_or_create_table_cache_exact_tol : forall s aid a,
  St s -> k_cache_exact_tol s -> nth_error (w_archs s) aid = Some a -> NoDup (w_centries s) ->
  match get_or_create_table aid [] s with
  | Ok _ s' => k_cache_exact_tol s'
  | Err _ s' => True
  end.
Proof.
  intros s aid a HS HC Ha ND.
  pose proof HS as [HW HN]. pose proof HN as (N1 & N2 & N3 & N4).
  destruct (N3 aid a Ha) as (Hf & Hn & Hg & Hr).
  unfold get_or_create_table in *. rewrite (sa_bind_ok (sa_getA_eq _ _ _ Ha)) in *.
  unfold arch_get_table in *. destruct (a_tables a) as [|t0 tl] eqn:Hta.
  - rewrite (sa_bind_ok (m := ret None) (s := s) eq_refl) in *.
    destruct (k_create_table_nil s aid a HS Ha Hta) as (EC & EA). cbv zeta in EC, EA.
    set (tid := length (w_tables s)) in *.
    set (t := new_table aid a (map (kind_of s) (a_comps a)) (cf_cap (w_cfg s)) (repeat zero_ent (length (a_comps a))) []) in *.
    set (s2 := s <| w_tables ::= fun l => l ++ [t] |> <| w_archs ::= updf aid (fun a0 => arch_add_table a0 tid t) |>) in *.
    rewrite EC in *.
    destruct (k_cache_add_table_exact_gen s2 tid t (a_mask a) eq_refl ND (wf_cache _ HW)) as (l' & E3 & LL & P).
    rewrite (sa_bind_ok E3) in *. unfold ret in *.
    set (s3 := s2 <| w_cheap := l' |>) in *.
    assert (EA3 : w_archs s3 = updf aid (sa_arch_add tid) (w_archs s)) by exact EA.
    intros addr e' f Hin He' Hf'.
    change (w_centries s3) with (w_centries s) in Hin.
    change (w_cheap s3) with l' in He'.
    change (w_filters s3) with (w_filters s) in Hf'.
    destruct (wf_cache _ HW addr Hin) as (e & He & _).
    destruct (P addr e He) as (e'' & He'' & U1 & U2 & U3 & U4).
    rewrite He' in He''. inversion He''; subst e''. clear He''.
    change (w_filters s2) with (w_filters s) in U4. change (w_centries s2) with (w_centries s) in U4.
    rewrite <- U2, Hf' in U4. rewrite U2 in Hf'.
    assert (MB : memb addr (w_centries s) = true) by (apply sa_memb_in; exact Hin).
    rewrite MB in U4. cbn [andb] in U4.
    destruct (HC addr e f Hin He Hf') as (D1 & D2 & D3).
    rewrite EA3, U4.
    destruct (filter_matches f (a_mask a)) eqn:EM.
    + (* the new table is appended to the entry and appears in the walk *)
      destruct (k_selt_updf_match f tid (w_archs s) aid a Ha EM Hta) as (l1 & l2 & E1 & E2).
      rewrite E2. rewrite E1 in D1, D3.
      assert (FR : ~ In tid (l1 ++ l2)).
      { intros Hx. rewrite <- E1 in Hx. apply k_selt_in in Hx. destruct Hx as (i & b & Hi & Hb).
        destruct (wf_arch_tables _ HW i b tid Hi (or_introl Hb)) as (x & Hx & _).
        apply sa_nth_error_lt in Hx. unfold tid in Hx. lia. }
      pose proof (Add_app tid l1 l2) as AD1.
      pose proof (Add_app tid (ce_tables e) []) as AD2. rewrite app_nil_r in AD2.
      split; [apply (NoDup_Add AD1); split; assumption|].
      split; [apply (NoDup_Add AD2); split; [exact D2|rewrite <- D3; exact FR]|].
      intros x. rewrite (Add_in AD1), (Add_in AD2). cbn [In]. rewrite D3. reflexivity.
    + rewrite (k_selt_updf_nomatch f (sa_arch_add tid) (w_archs s) aid a Ha EM eq_refl). auto.
  - unfold arch_has_rels. rewrite Hn. cbn [Nat.eqb negb]. rewrite (sa_bind_ok (m := ret (Some t0)) (s := s) eq_refl).
    unfold ret. exact HC.
Qed.
