(** * Rel2HistAllO2: package U2: the five batch operations WITH registered observers in the merged class (stage 3).
    Helper prefix [r2v_].

    Rel2HistAllO proves the invariant [InvAllO] over the merged class with the restriction [r2u_batch_quiet]: a batch
    line on an unlocked world runs while no observer is registered. With the erasure simulation of ObsEraseBatch
    ([oeb_step_all]) the restriction is REMOVED for all five batch operations: observers of any callback kind may be
    registered, the whole-batch event passes run, callbacks may unregister observers - and may even FAIL: no "callbacks
    return" argument and no lock invariant is used. After a batch step on an unlocked world the storage is
    - the storage after the step of the erased world (the step returned, or failed where the erased step fails), or
    - the storage the erased operation ends in (a callback failed after the last storage change: create / add passes), or
    - a named cut state of the erased run ([oeb_cut]: a callback failed in a removal pass - before the first move, after
      the planning phase - or in the add pass of SetRelationsBatch - after the moves, BEFORE [register_targets] - or no
      lock bit was left when the operation wanted to lock).
    The core of the invariant is proved for every cut state ([r2v_cut_core], with the phase lemmas [r2x_collect],
    [r2s_plan_loop], [r2s_move_loop] of the batch packages; the cut states of NewEntities / NewBatch are final states of the
    same operation without callback); the frame clauses ([archs_tabled_norel], filters) hold for the real step syntactically
    ([r2u_fr_step]). In particular the [register_targets]-after-add-events order of [w_set_relations_batch] does NOT break
    the invariant: [St2] holds before the registration ([r2s_move_loop]; the targets of a SetRelations call are flagged when
    they become targets of the destination table, [register_targets] only repeats it).

    [step_inv_allO], [reachable_inv_allO]: no [_partial], no [r2u_batch_quiet]. (Reset in the same class: Rel2HistAllOR is
    still [_partial].) *)
From Ark Require Import Model.Base Model.Mask Model.Pool Model.Util Model.World Model.Run.
From Ark Require Import Proofs.TableProofs Proofs.MaskProofs Proofs.Hoare Proofs.WF Proofs.StorageA Proofs.StorageBDefs
  Proofs.StorageB_sb1 Proofs.StorageB_sb2 Proofs.StorageB_sb3 Proofs.LockWorld Proofs.StorageC Proofs.RelProofs
  Proofs.CacheProofs Proofs.QueryProofs Proofs.ResetShrinkProofs
  Proofs.Rel2Defs Proofs.Rel2Struct Proofs.Rel2Remove Proofs.Rel2SetRel Proofs.Rel2Ops Proofs.Rel2Maint Proofs.Rel2Hist
  Proofs.Rel2Cache Proofs.BatchOps Proofs.Rel2BatchExchange Proofs.Rel2BatchSetRel Proofs.Rel2BatchHist Proofs.Rel2HistQ Proofs.Rel2HistAll Proofs.ObsErase Proofs.Rel2HistO Proofs.Rel2HistAllO
  Proofs.ObsEraseBatch.
From Ark Require Properties.Common Proofs.Rel2Check Proofs.StorageD.
From RecordUpdate Require Import RecordSet.
Import RecordSetNotations.
From Coq Require Import Lia.
Close Scope Z_scope.

(** the invariant with fewer handles issued *)
Lemma r2v_Inv2O_sub : forall s' sr es n, oe_E s' = oe_E sr ->
  Inv2O (sr <| w_issued ::= fun l => l ++ es |> <| w_log := [] |>) n -> Inv2O s' n.
Proof.
  intros s' sr es n E (H1 & H2 & H3 & H4 & H5).
  destruct (r2o_fields_ext sr s' E) as (E1 & E2 & E3 & E4 & E5 & E6 & E7 & E8 & E9 & E10 & E11 & E12 & E13 & E14).
  set (t' := sr <| w_issued ::= fun l => l ++ es |> <| w_log := [] |>) in *.
  assert (HL : forall x, live s' x = live t' x) by (apply r2_live_ext; [exact E4|exact E7]).
  split; [apply (r2e_St2_ext t' s'); try assumption|].
  split; [apply (r2d_KeysLive_mono t' s' H2 E6); intros x Hx; rewrite HL; exact Hx|].
  split; [apply (r2e_issued_ok_ext t' s' n E3 HL); [|exact H3]|].
  { intros x Hx. left. rewrite E14 in Hx. change (In x (w_issued sr ++ es)). apply in_or_app. left. exact Hx. }
  split; [apply (r2q_tabled_ext t' s' E6 H4)|apply (r2q_filters_ok_ext t' s' E2 E13 H5)].
Qed.

(** ** The cut states satisfy the core of the invariant *)

Definition r2v_core (t x : W) (n : nat) : Prop := St2 x /\ r2d_KeysLive x /\ issued_ok x n /\ w_reg x = w_reg t.

Lemma r2v_core_keepS : forall t x n, r2s_keep t x -> issued_ok t n -> r2v_core t x n.
Proof.
  intros t x n (A & B & _ & _ & HL & _ & EP & (F1 & _ & _ & _ & F5 & _)) HI.
  split; [exact A|]. split; [exact B|]. split; [|exact F1].
  apply (r2e_issued_ok_ext t x n EP HL); [|exact HI]. intros y Hy. left. rewrite <- F5. exact Hy.
Qed.

Lemma r2v_core_keepA : forall t x n, St2 t -> St2 x -> r2d_KeysLive x -> r2a_keeps t x -> issued_ok t n -> r2v_core t x n.
Proof.
  intros t x n HS A B K HI. pose proof HS as HS'. apply St2_St2G in HS'. destruct HS' as (HW & HR & _ & _).
  destruct (r2a_keeps_obs r2_none t x HW HR K) as (C & _).
  pose proof K as (_ & EP & _ & _ & _ & (F1 & _ & _ & _ & F5 & _)).
  split; [exact A|]. split; [exact B|]. split; [|exact F1].
  apply (r2e_issued_ok_ext t x n EP (fun y => proj1 (C y))); [|exact HI]. intros y Hy. left. rewrite <- F5. exact Hy.
Qed.

Lemma r2v_resolved : forall t hrels rels, resolveR hrels t = Ok rels t -> r2e_resolved t hrels rels.
Proof.
  intros t hrels rels E. destruct (r2e_resolveR hrels t) as [(rels' & E' & HR)|(er & E')]; rewrite E' in E; [|discriminate E].
  injection E as <-. exact HR.
Qed.

Lemma r2v_core_mono : forall t x n m, n <= m -> r2v_core t x n -> r2v_core t x m.
Proof. intros t x n m H (A & B & C & D). split; [exact A|]. split; [exact B|]. split; [apply (r2q_issued_ok_mono x n m H C)|exact D]. Qed.

Lemma r2v_state_ret : forall (m : MW unit) t, state_of ((m ;;; ret ([] : list Z)) t) = state_of (m t).
Proof. intros m t. unfold bind. destruct (m t); reflexivity. Qed.

Lemma r2v_core_trans : forall t x n m, Inv2 t n -> n + m + 4 < Nat.pow 2 31 -> r2h_trans m t x -> r2v_core t x (n + S m).
Proof.
  intros t x n m HI Hn T. pose proof (r2h_trans_issued t x n m HI Hn T) as HIs. destruct T as (A & B & _ & D & _).
  split; [exact A|]. split; [exact B|]. split; [exact HIs|exact D].
Qed.

Lemma r2v_cut_core : forall o t v n, Inv2Q t n -> is_locked t = false -> n + r2h_created o + 4 < Nat.pow 2 31 ->
  registered t (r2h_op_ids o) -> oeb_cut o t v ->
  exists x, v = oe_E x /\ r2v_core t x (n + S (r2h_created o)).
Proof.
  intros o t v n (HS & HK & HN & HI & _) Hl Hn Hreg Hc.
  assert (HI2 : Inv2 t n) by (split; [exact HS|split; [exact HK|split; [split; [exact HN|exact Hl]|exact HI]]]).
  destruct o; cbn [oeb_cut r2h_created r2h_op_ids] in *; try contradiction.
  - (* NewEntities: no lock bit after the creation *)
    eexists. split; [exact Hc|].
    destruct (r2h_op_spec false t n (ONewEntities n0 true) HI2 Hn eq_refl Hreg) as ((T & _) & _).
    cbn [step_op negb r2h_created] in T. rewrite r2v_state_ret, (oeb_new_entities_quiet n0 t Hl HN) in T.
    apply (r2v_core_trans t _ n n0 HI2 Hn T).
  - (* RemoveEntities *)
    exists t. split; [exact Hc|]. apply (r2v_core_mono t t n); [lia|]. split; [exact HS|]. split; [exact HK|]. split; [exact HI|reflexivity].
  - (* NewBatch *)
    destruct Hc as (rels0 & E1 & Hc). eexists. split; [exact Hc|].
    destruct (r2h_op_spec false t n (ONewBatch n0 ids rels vals true) HI2 Hn eq_refl Hreg) as ((T & _) & _).
    cbn [step_op negb r2h_created] in T. rewrite (sa_bind_ok E1), r2v_state_ret, (oeb_new_batch_quiet n0 ids rels0 vals t Hl HN) in T.
    apply (r2v_core_trans t _ n n0 HI2 Hn T).
  - (* ExchangeBatch *)
    destruct Hc as (brels0 & rels0 & br & E1 & E2 & E3 & E4 & [->|(L & ->)]).
    { exists t. split; [reflexivity|]. apply (r2v_core_mono t t n); [lia|]. split; [exact HS|]. split; [exact HK|]. split; [exact HI|reflexivity]. }
    set (t1 := t <| w_lock := L |>).
    destruct (r2x_Q_lock t L (conj HS (conj HK HN))) as (HS1 & HK1 & HN1). fold t1 in HS1, HK1, HN1.
    assert (HI1 : issued_ok t1 n) by exact HI.
    assert (Hargs : r2x_args t1 add rels0).
    { split; [exact Hreg|]. exact (r2e_resolved_ok t n rels rels0 (proj1 HS) HI (r2v_resolved _ _ _ E2)). }
    assert (Core1 : r2v_core t t1 n) by (split; [exact HS1|split; [exact HK1|split; [exact HI1|reflexivity]]]).
    eexists. split; [reflexivity|]. apply (r2v_core_mono t _ n); [lia|]. unfold oeb_xpre.
    pose proof (r2s_gbt_facts t1 f br HS1) as G. destruct (get_batch_tables f br t1) as [tabs t1'|er t1'] eqn:EG.
    2:{ subst t1'. rewrite (sa_bind_err EG). exact Core1. }
    destruct G as (-> & _). rewrite (sa_bind_ok EG).
    pose proof (r2x_collect False add rem rels0 tabs t1 [] false (conj HS1 (conj HK1 HN1)) Hargs (fun F => match F with end)) as PC.
    destruct (bo_collect add rem rels0 tabs [] false t1) as [[bs' rr'] x|er x] eqn:EC.
    + rewrite (sa_bind_ok EC). cbn [state_of ret]. destruct PC as (bs & _ & (A & B & _) & K & _).
      apply (r2v_core_keepA t1 x n HS1 A B K HI1).
    + rewrite (sa_bind_err EC). cbn [state_of]. destruct PC as ((A & B & _) & K & _).
      apply (r2v_core_keepA t1 x n HS1 A B K HI1).
  - (* SetRelationsBatch *)
    destruct Hc as (brels0 & rels0 & br & E1 & E2 & E3 & E4 & [->|(L & Hv)]).
    { exists t. split; [reflexivity|]. apply (r2v_core_mono t t n); [lia|]. split; [exact HS|]. split; [exact HK|]. split; [exact HI|reflexivity]. }
    set (t1 := t <| w_lock := L |>) in *.
    destruct (r2x_Q_lock t L (conj HS (conj HK HN))) as (HS1 & HK1 & HN1). fold t1 in HS1, HK1, HN1.
    assert (HI1 : issued_ok t1 n) by exact HI.
    assert (Hhok : forall r, In r rels0 -> r2b_handle_ok t1 (snd r)).
    { intros r Hr. exact (proj1 (r2e_resolved_ok t n rels rels0 (proj1 HS) HI (r2v_resolved _ _ _ E2) r Hr)). }
    assert (Core1 : r2v_core t t1 n) by (split; [exact HS1|split; [exact HK1|split; [exact HI1|reflexivity]]]).
    pose proof (r2s_gbt_facts t1 f br HS1) as G.
    assert (Both : r2v_core t (state_of (oeb_spre1 f br rels0 t1)) n /\ r2v_core t (state_of (oeb_spre2 f br rels0 t1)) n).
    { unfold oeb_spre1, oeb_spre2. destruct (get_batch_tables f br t1) as [tabs t1'|er t1'] eqn:EG.
      2:{ subst t1'. rewrite !(sa_bind_err EG). split; exact Core1. }
      destruct G as (-> & Hnd & Hval). rewrite !(sa_bind_ok EG).
      pose proof (r2s_plan_loop False rels0 tabs t1 HS1 HK1 HN1 Hhok Hnd Hval (fun F => match F with end)) as PL.
      destruct (mapM tabs (fun tid => set_relations_plan tid rels0) t1) as [ps x1|er x1] eqn:EP.
      2:{ rewrite !(sa_bind_err EP). cbn [state_of]. destruct PL as ((K1 & _) & _). split; apply (r2v_core_keepS t1 x1 n K1 HI1). }
      rewrite !(sa_bind_ok EP). destruct PL as ((K1 & _) & PO & _).
      split; [cbn [state_of ret]; apply (r2v_core_keepS t1 x1 n K1 HI1)|].
      pose proof K1 as (HSx & HKx & HNx & _).
      destruct (r2s_move_loop rels0 (opt_list ps) x1 HSx HKx HNx PO) as (mv & x2 & EM & K2 & _).
      rewrite (sa_bind_ok EM). cbn [state_of ret]. apply (r2v_core_keepS t1 x2 n (r2s_keep_trans t1 x1 x2 K1 K2) HI1). }
    destruct Hv as [-> | ->]; eexists; (split; [reflexivity|]); (apply (r2v_core_mono t _ n); [lia|]); [exact (proj1 Both)|exact (proj2 Both)].
Qed.

(** a batch step under [InvAllO]: no side condition *)
Theorem step_inv_allO_batch : forall debug wd s n line o,
  InvAllO s n -> n + r2h_created o + 4 < Nat.pow 2 31 -> decode_op line = Some o -> r2h_batch_op o = true ->
  (forall c, In c (r2h_op_ids o) -> c < length (w_reg s)) ->
  let s' := fst (step debug wd s line) in
  InvAllO s' (n + S (r2h_created o)) /\ w_reg s' = w_reg s.
Proof.
  intros debug wd s n line o HI Hn Hd Hb Hreg. cbv zeta.
  destruct (is_locked s) eqn:Hl.
  - destruct (step_inv_allO_batch_partial debug wd s n line o HI Hn Hd Hb Hreg) as (S1 & S2 & _).
    { intros _ Hl'. congruence. }
    split; assumption.
  - unfold InvAllO in *.
    pose proof (proj1 (r2o_Inv2O_iff s n) HI) as HQ.
    destruct (step_inv_all_batch debug wd (oe_E s) n line o HQ Hn Hd Hb Hreg) as (T1 & T2 & _). cbv zeta in T1, T2.
    pose proof (r2o_O_of_Q _ _ T1) as T1'.
    destruct (oeb_step_all debug wd s line o Hd Hb Hl) as [E|[E|E]]; cbv zeta in E.
    + split; [apply (r2o_Inv2O_ext _ _ _ E T1')|].
      destruct (r2o_fields_ext _ _ E) as (_ & Er & _). rewrite Er. exact T2.
    + rewrite (r2h_step_state debug wd (oe_E s) line o Hd Hb) in T1', T2. cbv zeta in T1', T2.
      set (r := step_op debug o (oe_E s <| w_log := [] |>)) in *.
      destruct (issues_from_log o && negb (is_err r))%bool.
      * split; [apply (r2v_Inv2O_sub _ (state_of r) _ _ E T1')|].
        destruct (r2o_fields_ext _ _ E) as (_ & Er & _). rewrite Er. exact T2.
      * assert (E' : oe_E (fst (step debug wd s line)) = oe_E (state_of r <| w_log := [] |>)) by (rewrite E; reflexivity).
        split; [apply (r2o_Inv2O_ext _ _ _ E' T1')|].
        destruct (r2o_fields_ext _ _ E') as (_ & Er & _). rewrite Er. exact T2.
    + (* a callback failed before the storage part was finished (or no lock bit was left): a cut state of the erased run *)
      set (s' := fst (step debug wd s line)) in *.
      destruct (r2v_cut_core o (oe_E s <| w_log := [] |>) (oe_E s') n (r2q_Inv2Q_log _ _ [] HQ) eq_refl Hn Hreg E) as (x & Ex & (C1 & C2 & C3 & C4)).
      destruct (r2o_core_ext x s' _ Ex C1 C2 C3) as (A1 & A2 & A3 & A4 & _).
      assert (Er : w_reg s' = w_reg s) by (rewrite A4; exact C4).
      pose proof (r2u_fr_step debug wd s line o Hd Hb) as Hfr. fold s' in Hfr.
      pose proof HI as (HS & _ & _ & HT & HF).
      split; [|exact Er].
      split; [exact A1|]. split; [exact A2|]. split; [exact A3|].
      split; [apply (r2u_fr_H s s' Hfr HS A1 HT)|].
      destruct Hfr as (_ & (Ef & _)). apply (r2q_filters_ok_ext s s' Er Ef HF).
Qed.

Theorem step_inv_allO : forall debug wd s n line o,
  InvAllO s n -> n + r2h_created o + 4 < Nat.pow 2 31 -> decode_op line = Some o -> rel_allO_op o = true ->
  (forall c, In c (rel_all_ids o) -> c < length (w_reg s)) -> rel_q_flt_ok (w_reg s) o ->
  let s' := fst (step debug wd s line) in
  InvAllO s' (n + S (r2h_created o)) /\ w_reg s' = w_reg s.
Proof.
  intros debug wd s n line o HI Hn Hd Hop Hreg Hflt. cbv zeta.
  destruct (r2u_opO_cases o Hop) as [(Ho & Hb & _ & _)|(_ & Hb & _)].
  - destruct (step_inv_allO_partial debug wd s n line o HI Hn Hd Hop Hreg Hflt) as (S1 & S2 & _).
    { intros Hb'. congruence. }
    split; assumption.
  - apply (step_inv_allO_batch debug wd s n line o HI Hn Hd Hb).
    intros c Hin. apply Hreg. unfold rel_all_ids. apply in_or_app. right. exact Hin.
Qed.

(** ** Histories: a condition on each LINE only (no condition on the state a batch line runs in) *)

Definition rel_allO_line2 (reg : list ckind) (line : list Z) : Prop :=
  exists o, decode_op line = Some o /\ rel_allO_op o = true /\ (forall c, In c (rel_all_ids o) -> c < length reg) /\ rel_q_flt_ok reg o.

Theorem r2v_run_inv_O : forall debug reg lines s n,
  InvAllO s n -> w_reg s = reg -> Forall (rel_allO_line2 reg) lines -> n + r2h_total lines + 4 < Nat.pow 2 31 ->
  let s' := fold_left (fun s0 l => fst (step debug false s0 l)) lines s in
  InvAllO s' (n + r2h_total lines) /\ w_reg s' = reg.
Proof.
  intros debug reg lines. induction lines as [|l lines IH]; intros s n HI Hr HH Hb; cbv zeta.
  - cbn. rewrite Nat.add_0_r. split; assumption.
  - inversion HH as [|? ? (o & Hd & Hop & Hids & Hflt) HH']; subst.
    assert (Et : r2h_total (l :: lines) = r2h_cost l + r2h_total lines) by reflexivity.
    assert (Hcost : r2h_cost l = S (r2h_created o)) by (unfold r2h_cost; rewrite Hd; reflexivity).
    rewrite Et, Hcost in *. cbn [fold_left].
    destruct (step_inv_allO debug false s n l o HI) as (S1 & S2); auto; try lia.
    destruct (IH _ (n + S (r2h_created o)) S1) as (A & B); [congruence|exact HH'|lia|].
    replace (n + (S (r2h_created o) + r2h_total lines)) with (n + S (r2h_created o) + r2h_total lines) by lia.
    split; assumption.
Qed.

Theorem reachable_inv_allO : forall c lines,
  cfg_ok2 c -> Forall (rel_allO_line2 (sc_kinds c)) lines -> r2h_total lines + 4 < Nat.pow 2 31 ->
  InvAllO (Properties.Common.exec c lines) (r2h_total lines).
Proof.
  intros c lines Hc HH Hb.
  destruct (r2v_run_inv_O (sc_debug c) (sc_kinds c) lines (init_world c) 0 (r2o_init c Hc) eq_refl HH Hb) as (A & _).
  exact A.
Qed.

(** the histories of Rel2HistAllO are covered (the side condition is dropped) *)
Lemma rel_allO_hist_lines : forall debug reg lines s, rel_allO_hist debug reg s lines -> Forall (rel_allO_line2 reg) lines.
Proof.
  intros debug reg lines. induction lines as [|l lines IH]; intros s H; [constructor|].
  cbn [rel_allO_hist] in H. destruct H as ((o & Hd & Hop & Hids & Hflt & _) & HH). constructor; [|apply (IH _ HH)].
  exists o. repeat (split; [assumption|]). exact Hflt.
Qed.

(** C04 over the class *)
Theorem targets_always_zero_or_alive_allO : forall c lines e cmp x,
  cfg_ok2 c -> Forall (rel_allO_line2 (sc_kinds c)) lines -> r2h_total lines + 4 < Nat.pow 2 31 ->
  tgt (Properties.Common.exec c lines) e cmp = Some x ->
  x = zero_ent \/ live (Properties.Common.exec c lines) x = true.
Proof.
  intros c lines e cmp x Hc Hl Hb H. destruct (reachable_inv_allO c lines Hc Hl Hb) as (HS & _).
  apply (r2_St2_targets _ e cmp x HS H).
Qed.

(** C06: Reset succeeds in every unlocked reachable state *)
Theorem reachable_unlocked_reset_succeeds_allO : forall c lines,
  cfg_ok2 c -> Forall (rel_allO_line2 (sc_kinds c)) lines -> r2h_total lines + 4 < Nat.pow 2 31 ->
  is_locked (Properties.Common.exec c lines) = false ->
  exists s', step_op (sc_debug c) OReset (Properties.Common.exec c lines) = Ok [] s' /\ St2 s' /\ r2d_KeysLive s' /\
    is_locked s' = false /\ (forall e, live s' e = false) /\ w_reg s' = w_reg (Properties.Common.exec c lines).
Proof. intros c lines Hc Hl Hb Hlk. exact (r2o_reset_step (sc_debug c) _ _ (reachable_inv_allO c lines Hc Hl Hb) Hlk). Qed.

(* ================================================================================================ *)
(** * Non-vacuity *)

Definition rel_allO_line2_b (reg : list ckind) (line : list Z) : bool :=
  match decode_op line with
  | Some o => (rel_allO_op o && forallb (fun c => Nat.ltb c (length reg)) (rel_all_ids o) && rel_q_flt_okb reg o)%bool
  | None => false
  end.

Lemma rel_allO_line2_b_sound : forall reg lines, forallb (rel_allO_line2_b reg) lines = true -> Forall (rel_allO_line2 reg) lines.
Proof.
  intros reg lines H. apply Forall_forall. intros l Hl. rewrite forallb_forall in H. specialize (H l Hl).
  unfold rel_allO_line2_b in H. destruct (decode_op l) as [o|] eqn:E; [|discriminate].
  apply andb_true_iff in H. destruct H as (H12 & H3). apply andb_true_iff in H12. destruct H12 as (H1 & H2).
  exists o. split; [exact E|]. split; [exact H1|]. split; [|apply rel_q_flt_okb_sound; exact H3].
  intros c Hc. rewrite forallb_forall in H2. apply Nat.ltb_lt. apply H2. exact Hc.
Qed.

Local Open Scope Z_scope.

(** observer 0 = OnAddRelations for component 3, unregisters itself in its callback; observer 1 = OnCreateEntity, passive;
    observer 2 = OnRemoveEntity, unregisters observer 1 in its callback; observer 3 = OnRemoveRelations (passive);
    observer 4 = OnAddComponents (passive); observer 5 = OnRemoveComponents (passive) *)
Definition r2v_scriptO : list (list Z) :=
  [[0]; [0];
   [25; 254; 1;3; 0; 0; 0; 1];            (* observer 0 *)
   [25; 249; 0; 0; 0; 0; 0];              (* observer 1 *)
   [25; 250; 0; 0; 0; 0; 3];              (* observer 2: its callback unregisters observer 1 *)
   [25; 255; 0; 0; 0; 0; 0];              (* observer 3 *)
   [25; 251; 0; 0; 0; 0; 0];              (* observer 4 *)
   [25; 252; 0; 0; 0; 0; 0];              (* observer 5 *)
   [26; 0]; [26; 1]; [26; 2]; [26; 3]; [26; 4]; [26; 5];   (* all registered *)
   [3; 2; 0];                             (* NewEntities with callback, OnCreateEntity registered: a whole-batch create pass *)
   [30; 2; 2;0;3; 1; 3;0; 1; 0;7; 0];     (* NewBatch with relation: create pass + relation pass; observer 0 unregisters itself
                                             in the middle of the relation pass *)
   [15; 0; 1;0; 0; 0; 0];                 (* filter 0: component 0 *)
   [26; 0];                               (* observer 0 registered again *)
   [32; 0; 0; 1;3; 1; 3;1];               (* SetRelationsBatch through filter 0: removal pass, moves, add pass (observer 0
                                             unregisters itself), register_targets *)
   [31; 0; 0; 1;1; 0; 0; 0];              (* ExchangeBatch adding component 1: OnAddComponents pass after the moves *)
   [31; 0; 0; 0; 1;1; 0; 0];              (* ExchangeBatch removing component 1: OnRemoveComponents pass before the moves *)
   [12; 0; 0; 0];                         (* RemoveEntities through filter 0: OnRemoveEntity + OnRemoveRelations passes; the
                                             callback of observer 2 unregisters observer 1 *)
   [3; 1; 1];                             (* NewEntities without callback *)
   [38]].

Example r2v_scriptO_covered : forallb (rel_allO_line2_b (sc_kinds Rel2Check.r2_cfg)) r2v_scriptO = true.
Proof. vm_compute. reflexivity. Qed.

(** the script is NOT in the class of Rel2HistAllO (batch lines run while observers are registered) *)
Example r2v_scriptO_new : rel_allO_hist_b false (sc_kinds Rel2Check.r2_cfg) (init_world Rel2Check.r2_cfg) r2v_scriptO = false.
Proof. vm_compute. reflexivity. Qed.

Example r2v_scriptO_inv : InvAllO (Properties.Common.exec Rel2Check.r2_cfg r2v_scriptO) (r2h_total r2v_scriptO).
Proof.
  apply reachable_inv_allO; [exact r2q_cfg_ok|apply rel_allO_line2_b_sound; exact r2v_scriptO_covered|].
  apply r2_N_small. vm_compute. reflexivity.
Qed.

Local Close Scope Z_scope.

(** what the script does: no line fails; the number of callback / batch log entries per line (observer callbacks fire inside
    all six batch lines that run with observers) *)
Example r2v_scriptO_runs :
  Rel2Check.r2_flags Rel2Check.r2_cfg (init_world Rel2Check.r2_cfg) r2v_scriptO =
    [0;0; 0;0;0;0;0;0; 0;0;0;0;0;0; 0; 0; 0; 0; 0; 0; 0; 0; 0; 0]%Z /\
  r2o_logs false (init_world Rel2Check.r2_cfg) r2v_scriptO = [0;0; 0;0;0;0;0;0; 0;0;0;0;0;0; 4; 5; 0; 0; 5; 4; 4; 6; 0; 0].
Proof. vm_compute. split; reflexivity. Qed.

(** ** A callback that FAILS inside a whole-batch pass (the cut-state branch is taken)

    Not reachable (callbacks return in reachable states, Rel2HistOL), but covered: the theorems assume no lock invariant.
    The lock pool below has ONE bit left although the world is unlocked: SetRelationsBatch takes it, the OnAddRelations
    callback finds none and fails with EBits - in the add pass, AFTER the move and the batch callback, BEFORE [register_targets].
    The deferred unlock releases the bit; the relation target has changed; the invariant holds ([step_inv_allO_batch]). *)
Definition r2v_lock63 : lockst := {| lk_pool := {| ip := seq 0 63; inext := 0; iavail := 0 |}; lk_mask := 0%N |}.

Local Open Scope Z_scope.
Definition r2v_pre : list (list Z) :=
  [[0]; [0]; [25; 254; 1;3; 0; 0; 0; 0]; [26; 0];     (* an OnAddRelations observer, registered *)
   [2; 2;0;3; 1; 3;0];                                 (* handle 2 = (4,0): relation 3 -> handle 0 *)
   [15; 0; 1;0; 0; 0; 0]].                             (* filter 0 *)
Definition r2v_fail_line : list Z := [32; 0; 0; 1;3; 1; 3;1].   (* SetRelationsBatch through filter 0: relation 3 -> handle 1 *)
Local Close Scope Z_scope.

Definition r2v_s0 : W := Properties.Common.exec Rel2Check.r2_cfg r2v_pre <| w_lock := r2v_lock63 |>.

Example r2v_cb_fails_runs :
  let s' := fst (step false false r2v_s0 r2v_fail_line) in
  is_locked r2v_s0 = false /\
  match step_op false (OSetRelBatch 0 [] [3] [(3, 1%Z)]) (r2v_s0 <| w_log := [] |>) with
  | Err e s1 => Some (e, w_log s1)
  | Ok _ _ => None
  end = Some (EBits, [[101; 4; 0]]%Z) /\
  is_locked s' = false /\ tgt r2v_s0 (4, 0%N) 3 = Some (2, 0%N) /\ tgt s' (4, 0%N) 3 = Some (3, 0%N).
Proof. vm_compute. repeat split; reflexivity. Qed.

Example r2v_cb_fails_inv : InvAllO (fst (step false false r2v_s0 r2v_fail_line)) (r2h_total r2v_pre + 1).
Proof.
  assert (HI : InvAllO r2v_s0 (r2h_total r2v_pre)).
  { assert (HI0 : InvAllO (Properties.Common.exec Rel2Check.r2_cfg r2v_pre) (r2h_total r2v_pre)).
    { apply reachable_inv_allO; [exact r2q_cfg_ok|apply rel_allO_line2_b_sound; vm_compute; reflexivity|apply r2_N_small; vm_compute; reflexivity]. }
    unfold r2v_s0. revert HI0. generalize (Properties.Common.exec Rel2Check.r2_cfg r2v_pre). intros X HI0.
    apply (r2o_Inv2O_ext X); [reflexivity|exact HI0]. }
  assert (Hd : decode_op r2v_fail_line = Some (OSetRelBatch 0 [] [3] [(3, 1%Z)])) by (vm_compute; reflexivity).
  assert (Hn : r2h_total r2v_pre + r2h_created (OSetRelBatch 0 [] [3] [(3, 1%Z)]) + 4 < Nat.pow 2 31) by (apply r2_N_small; vm_compute; reflexivity).
  assert (Hreg : forall c, In c (r2h_op_ids (OSetRelBatch 0 [] [3] [(3, 1%Z)])) -> c < length (w_reg r2v_s0)) by (intros c []).
  exact (proj1 (step_inv_allO_batch false false r2v_s0 (r2h_total r2v_pre) r2v_fail_line _ HI Hn Hd eq_refl Hreg)).
Qed.

Definition r2v_all :=
  (r2v_cut_core, step_inv_allO_batch, step_inv_allO, r2v_run_inv_O, reachable_inv_allO, rel_allO_hist_lines,
   targets_always_zero_or_alive_allO, reachable_unlocked_reset_succeeds_allO, rel_allO_line2_b_sound,
   r2v_scriptO_inv, r2v_scriptO_new, r2v_scriptO_runs, r2v_cb_fails_runs, r2v_cb_fails_inv).
Print Assumptions r2v_all.
