(** * ShrinkClockRel: Shrink under every clock in RELATION worlds - exact result, progress, convergence.

    ResetShrinkProofs proves, for relation-free worlds ([St]) and EVERY clock, that the result of Shrink is
    exact, that every call makes progress and that every sequence of time-boxed calls converges; Rel2Maint
    proves, for relation worlds ([St2]) and every clock, that Shrink is invisible ([D_shrink_spec_clock]).
    This file lifts the other three statements to relation worlds. The measure is [workable]: the number of
    tables on which Shrink has something to do - a table that can shrink (relation-free tables against the
    initial capacity, relation tables against the initial relation capacity) or an EMPTY, not yet free
    relation table (which Shrink frees); this is exactly the test [r_work] of the model's final scan.
    Helper lemmas carry the prefix [r2t_]. Main results:
    - [r2t_any1_spec]: the work on one table: the flag returned is exactly "this table had work, or the flag
      before"; afterwards the table has no work left.
    - [r2t_go_spec_clock]: the loop under an arbitrary clock: the tables [idx..last] are processed (none of them
      has work left, the others are untouched), [last] is the final table or the FIRST table after which the clock
      had expired while some table processed so far had work.
    - [D_shrink_run_clock] / [D_shrink_run_clock_w]: one call under every clock: [St2] kept, [r2d_shr] (nothing
      observable changes), result exact ([b = true <-> 0 < workable s']), never more work than before, strictly
      less if there was any.
    - [D_shrink_converges_clocks] (+ [_done]): every loop of time-boxed calls, one arbitrary clock per call, never
      fails, keeps [St2]/[r2d_shr]/[r2d_KeysLive], and reaches [workable = 0] after at most [workable s] calls
      that reported remaining work; [r2t_workable_zero]: then no table can shrink and every empty relation table
      is free.
    - [r2t_workable_norel]: in relation-free worlds [workable = shrinkable]. *)
From Ark Require Import Model.Base Model.Mask Model.Pool Model.Util Model.World Model.Run.
From Ark Require Import Proofs.TableProofs Proofs.UtilProofs Proofs.WF Proofs.StorageA Proofs.ResetShrinkProofs
  Proofs.Rel2Defs Proofs.Rel2Struct Proofs.Rel2Maint.
From RecordUpdate Require Import RecordSet.
Import RecordSetNotations.
From Coq Require Import Lia.

(** ** The measure *)

Definition workable (s : W) : nat := length (filter (r_work s) (w_tables s)).

Lemma r2t_work_cfg : forall s s' t, w_cfg s' = w_cfg s -> r_work s' t = r_work s t.
Proof. intros s s' t E. unfold r_work. rewrite E. reflexivity. Qed.

Lemma r2t_step_free : forall c t, t_free (r_step c t) = t_free t.
Proof. intros c t. unfold r_step. destruct (tbl_can_shrink t c); reflexivity. Qed.

Lemma r2t_step_len : forall c t, t_len (r_step c t) = t_len t.
Proof. intros c t. unfold r_step. destruct (tbl_can_shrink t c); reflexivity. Qed.

Lemma r2t_step_rels : forall c t, t_rels (r_step c t) = t_rels t.
Proof. intros c t. unfold r_step. destruct (tbl_can_shrink t c); reflexivity. Qed.

Lemma r2t_has_rels_true : forall t, tbl_has_rels t = true -> t_rels t <> [].
Proof. intros t H. unfold tbl_has_rels in H. destruct (t_rels t); [discriminate H|discriminate]. Qed.

Lemma r2t_has_rels_false : forall t, tbl_has_rels t = false -> t_rels t = [].
Proof. intros t H. unfold tbl_has_rels in H. destruct (t_rels t); [reflexivity|discriminate H]. Qed.

(** ** One table *)

Lemma r2t_any1_spec : forall idx any t s, St2 s -> nth_error (w_tables s) idx = Some t ->
  exists b s', r_any1 idx any t s s = Ok b s' /\ St2 s' /\ r2d_shr s s' /\
    (forall j, j <> idx -> nth_error (w_tables s') j = nth_error (w_tables s) j) /\
    b = (r_work s t || any)%bool /\
    (exists t', nth_error (w_tables s') idx = Some t' /\ r_work s' t' = false /\
                (t_rels t' <> [] -> t_len t' = 0 -> t_free t' = true)).
Proof.
  intros idx any t s HS Ht. destruct (tbl_has_rels t) eqn:Hr.
  2:{ rewrite (r_any1_eq idx any t s Ht Hr).
      destruct (r2d_adjust_step s idx t (cf_cap (w_cfg s)) HS Ht) as (P1 & P2 & P3 & P4).
      eexists _, _. split; [reflexivity|]. split; [exact P1|]. split; [exact P2|]. split; [exact P3|].
      split; [unfold r_work; rewrite Hr; reflexivity|].
      exists (r_step (cf_cap (w_cfg s)) t). split; [exact P4|]. split.
      - unfold r_work. rewrite r_step_has_rels, Hr. cbn [negb].
        change (w_cfg (s <| w_tables := upd idx (r_step (cf_cap (w_cfg s)) t) (w_tables s) |>)) with (w_cfg s).
        apply r_step_noshrink.
      - intros Hne. exfalso. apply Hne. rewrite r2t_step_rels. apply r2t_has_rels_false. exact Hr. }
  unfold r_any1. rewrite Hr. cbn [negb].
  set (c := cf_caprel (w_cfg s)).
  rewrite (sa_bind_ok (r2d_a1_eq s idx t c any Ht)).
  destruct (r2d_adjust_step s idx t c HS Ht) as (P1 & P2 & P3 & P4).
  set (s1 := s <| w_tables := upd idx (r_step c t) (w_tables s) |>) in *. set (t1 := r_step c t) in *.
  assert (Hw : r_work s t = (tbl_can_shrink t c || (negb (t_free t1) && Nat.eqb (t_len t1) 0))%bool).
  { unfold r_work. rewrite Hr. cbn [negb]. unfold t1. rewrite r2t_step_free, r2t_step_len. reflexivity. }
  assert (Hns : tbl_can_shrink t1 c = false) by apply r_step_noshrink.
  assert (Hr1 : tbl_has_rels t1 = true) by (unfold t1; rewrite r_step_has_rels; exact Hr).
  rewrite (sa_bind_ok (sa_getT_eq _ _ _ P4)).
  destruct (negb (t_free t1) && Nat.eqb (t_len t1) 0)%bool eqn:Ew.
  - pose proof Ew as Ew'. apply andb_true_iff in Ew'. destruct Ew' as (Ef & El). apply negb_true_iff in Ef. apply Nat.eqb_eq in El.
    assert (Hrels : t_rels t1 <> []) by (apply r2t_has_rels_true; exact Hr1).
    destruct (r2d_free_step s1 idx t1 P1 P4 Ef El Hrels) as (s4 & E4 & Q1 & Q2 & Q3).
    exists true, s4. split; [rewrite (E4 _ (ret true)); reflexivity|]. split; [exact Q1|].
    pose proof (r2d_shr_trans _ _ _ P2 Q2) as Q12.
    split; [exact Q12|]. split; [|split].
    + intros j Hne. rewrite Q3, (r2_upd_other _ _ _ _ _ Hne). apply (P3 j Hne).
    + rewrite Hw, orb_true_r. reflexivity.
    + exists (t1 <| t_free := true |>). split; [rewrite Q3; apply (r2_upd_same _ _ _ _ _ P4)|]. split; [|intros _ _; reflexivity].
      assert (Ecfg : w_cfg s4 = w_cfg s) by apply Q12.
      unfold r_work. rewrite Ecfg. fold c.
      change (tbl_has_rels (t1 <| t_free := true |>)) with (tbl_has_rels t1). rewrite Hr1. cbn [negb].
      change (tbl_can_shrink (t1 <| t_free := true |>) c) with (tbl_can_shrink t1 c). rewrite Hns.
      reflexivity.
  - exists (tbl_can_shrink t c || any)%bool, s1. split; [reflexivity|]. split; [exact P1|]. split; [exact P2|]. split; [exact P3|].
    split; [rewrite Hw, orb_false_r; reflexivity|].
    exists t1. split; [exact P4|]. split.
    + unfold r_work. change (w_cfg s1) with (w_cfg s). fold c. rewrite Hr1. cbn [negb]. rewrite Hns, Ew. reflexivity.
    + intros _ Hl. rewrite Hl in Ew. cbn [Nat.eqb] in Ew. rewrite andb_true_r in Ew.
      apply negb_false_iff in Ew. exact Ew.
Qed.

(** ** The loop under an arbitrary clock *)

(** Some table among [lo..hi] of [s] has work. *)
Definition r2t_found (s : W) (lo hi : nat) : Prop :=
  exists k t, lo <= k <= hi /\ nth_error (w_tables s) k = Some t /\ r_work s t = true.

Lemma r2t_found_one : forall s idx t, nth_error (w_tables s) idx = Some t ->
  (r2t_found s idx idx <-> r_work s t = true).
Proof.
  intros s idx t Ht. split.
  - intros (k & tk & Hk & Ek & Ck). assert (k = idx) by lia. subst k. rewrite Ht in Ek. inversion Ek; subst tk. exact Ck.
  - intros C. exists idx, t. split; [lia|]. split; [exact Ht|exact C].
Qed.

Lemma r2t_found_split : forall s idx hi t, nth_error (w_tables s) idx = Some t -> idx <= hi ->
  (r2t_found s idx hi <-> r_work s t = true \/ r2t_found s (S idx) hi).
Proof.
  intros s idx hi t Ht Hle. split.
  - intros (k & tk & Hk & Ek & Ck). destruct (Nat.eq_dec k idx) as [->|Hne].
    + rewrite Ht in Ek. inversion Ek; subst tk. left. exact Ck.
    + right. exists k, tk. split; [lia|]. split; [exact Ek|exact Ck].
  - intros [C|(k & tk & Hk & Ek & Ck)].
    + exists idx, t. split; [lia|]. split; [exact Ht|exact C].
    + exists k, tk. split; [lia|]. split; [exact Ek|exact Ck].
Qed.

Lemma r2t_found_ext : forall s s1 lo hi, w_cfg s1 = w_cfg s ->
  (forall k, lo <= k -> nth_error (w_tables s1) k = nth_error (w_tables s) k) ->
  (r2t_found s1 lo hi <-> r2t_found s lo hi).
Proof.
  intros s s1 lo hi Ecfg Hext. split; intros (k & tk & Hk & Ek & Ck); exists k, tk; (split; [exact Hk|]); split.
  - rewrite <- Hext by lia. exact Ek.
  - rewrite <- (r2t_work_cfg s s1 tk Ecfg). exact Ck.
  - rewrite Hext by lia. exact Ek.
  - rewrite (r2t_work_cfg s s1 tk Ecfg). exact Ck.
Qed.

Lemma r2t_go_spec_clock : forall clock f idx any s, St2 s -> idx + S f = length (w_tables s) ->
  exists last any' s', r_go_clock clock (S f) idx any s = Ok (last, any') s' /\ St2 s' /\ r2d_shr s s' /\
    idx <= last < length (w_tables s) /\
    (forall j, j < idx \/ last < j -> nth_error (w_tables s') j = nth_error (w_tables s) j) /\
    (forall j t', idx <= j <= last -> nth_error (w_tables s') j = Some t' ->
       r_work s' t' = false /\ (t_rels t' <> [] -> t_len t' = 0 -> t_free t' = true)) /\
    (S last = length (w_tables s) \/ (any' = true /\ clock last = true)) /\
    (any' = true <-> any = true \/ r2t_found s idx last) /\
    (forall j, idx <= j < last -> clock j = true -> any = false /\ ~ r2t_found s idx j).
Proof.
  intros clock f. induction f as [|f IH]; intros idx any s HS Hlen.
  - destruct (nth_error (w_tables s) idx) as [t|] eqn:Ht; [|apply nth_error_None in Ht; lia].
    cbn [r_go_clock]. rewrite (sa_bind_ok (sa_getT_eq _ _ _ Ht)).
    unfold bind at 1, get at 1. cbv beta iota.
    destruct (r2t_any1_spec idx any t s HS Ht) as (b & s1 & E1 & P1 & P2 & P3 & Pb & (t' & P4 & P5 & P6)).
    rewrite (sa_bind_ok E1).
    exists idx, b, s1. split; [destruct (b && clock idx)%bool; reflexivity|]. split; [exact P1|]. split; [exact P2|].
    split; [lia|]. split; [|split; [|split; [left; lia|split]]].
    + intros j Hj. apply P3. lia.
    + intros j tj Hj Ej. assert (j = idx) by lia. subst j. rewrite P4 in Ej. injection Ej as <-. split; [exact P5|exact P6].
    + rewrite (r2t_found_one s idx t Ht), Pb, orb_true_iff. tauto.
    + intros j Hj. lia.
  - destruct (nth_error (w_tables s) idx) as [t|] eqn:Ht; [|apply nth_error_None in Ht; lia].
    change (r_go_clock clock (S (S f)) idx any) with
      (t <- getT idx ;; s <- get ;; any1 <- r_any1 idx any t s ;;
       if (any1 && clock idx)%bool then ret (idx, any1) else r_go_clock clock (S f) (S idx) any1).
    rewrite (sa_bind_ok (sa_getT_eq _ _ _ Ht)).
    unfold bind at 1, get at 1. cbv beta iota.
    destruct (r2t_any1_spec idx any t s HS Ht) as (b & s1 & E1 & P1 & P2 & P3 & Pb & (t' & P4 & P5 & P6)).
    rewrite (sa_bind_ok E1).
    assert (L1 : length (w_tables s1) = length (w_tables s)) by apply P2.
    assert (C1 : w_cfg s1 = w_cfg s) by apply P2.
    assert (Hb : b = true <-> any = true \/ r_work s t = true) by (rewrite Pb, orb_true_iff; tauto).
    destruct (b && clock idx)%bool eqn:Hstop.
    + exists idx, b, s1. split; [reflexivity|]. split; [exact P1|]. split; [exact P2|]. split; [lia|].
      split; [|split; [|split; [right; apply andb_true_iff in Hstop; exact Hstop|split]]].
      * intros j Hj. apply P3. lia.
      * intros j tj Hj Ej. assert (j = idx) by lia. subst j. rewrite P4 in Ej. injection Ej as <-. split; [exact P5|exact P6].
      * rewrite (r2t_found_one s idx t Ht). exact Hb.
      * intros j Hj. lia.
    + destruct (IH (S idx) b s1 P1) as (last & any' & s' & E & Q1 & Q2 & Q3 & Q4 & Q5 & Q6 & Q7 & Q8); [lia|].
      assert (C2 : w_cfg s' = w_cfg s1) by apply Q2.
      assert (Hext : forall k, S idx <= k -> nth_error (w_tables s1) k = nth_error (w_tables s) k).
      { intros k Hk. apply P3. lia. }
      exists last, any', s'. split; [exact E|]. split; [exact Q1|]. split; [apply (r2d_shr_trans _ _ _ P2 Q2)|].
      split; [lia|]. split; [|split; [|split; [|split]]].
      * intros j Hj. rewrite Q4 by lia. apply P3. lia.
      * intros j tj Hj Ej. destruct (Nat.eq_dec j idx) as [->|Hne].
        -- rewrite Q4, P4 in Ej by lia. injection Ej as <-.
           split; [rewrite (r2t_work_cfg s1 s' t' C2); exact P5|exact P6].
        -- apply (Q5 j tj); [lia|exact Ej].
      * destruct Q6 as [Hend|Hc]; [left; rewrite <- L1; exact Hend|right; exact Hc].
      * rewrite Q7, (r2t_found_ext s s1 (S idx) last C1 Hext), Hb, (r2t_found_split s idx last t Ht) by lia. tauto.
      * intros j Hj Hcj. destruct (Nat.eq_dec j idx) as [->|Hne].
        -- rewrite Hcj, andb_true_r in Hstop.
           assert (Hn : ~ (any = true \/ r_work s t = true)) by (rewrite <- Hb, Hstop; discriminate).
           split; [destruct any; [exfalso; apply Hn; left; reflexivity|reflexivity]|].
           rewrite (r2t_found_one s idx t Ht). intros C. apply Hn. right. exact C.
        -- destruct (Q8 j) as (Ha1 & Hnf); [lia|exact Hcj|].
           assert (Hn : ~ (any = true \/ r_work s t = true)) by (rewrite <- Hb, Ha1; discriminate).
           split; [destruct any; [exfalso; apply Hn; left; reflexivity|reflexivity]|].
           rewrite (r2t_found_split s idx j t Ht) by lia. intros [C|F]; [apply Hn; right; exact C|].
           apply Hnf. apply (r2t_found_ext s s1 (S idx) j C1 Hext). exact F.
Qed.

(** ** One call under every clock *)

Theorem D_shrink_run_clock : forall s clock, St2 s ->
  exists b s' last, w_shrink_clock clock s = Ok b s' /\ St2 s' /\ r2d_shr s s' /\
    last < length (w_tables s) /\
    (S last = length (w_tables s) \/ (clock last = true /\ r2t_found s 0 last)) /\
    (forall j, j < last -> clock j = true -> ~ r2t_found s 0 j) /\
    (forall j, last < j -> nth_error (w_tables s') j = nth_error (w_tables s) j) /\
    (forall j t', j <= last -> nth_error (w_tables s') j = Some t' ->
       r_work s' t' = false /\ (t_rels t' <> [] -> t_len t' = 0 -> t_free t' = true)) /\
    (b = true <-> 0 < workable s') /\
    workable s' <= workable s /\ (0 < workable s -> workable s' < workable s).
Proof.
  intros s clock HS. pose proof HS as (H & _).
  destruct (wf_arch0 _ H) as (_ & _ & _ & t0 & Et0 & _).
  assert (HL : exists f, length (w_tables s) = S f).
  { destruct (w_tables s) as [|x l]; [discriminate Et0|]. exists (length l). reflexivity. }
  destruct HL as (f & HL).
  destruct (r2t_go_spec_clock clock f 0 false s HS) as (last & any' & s' & E & Q1 & Q2 & Q3 & Q4 & Q5 & Q6 & Q7 & Q8); [rewrite HL; reflexivity|].
  rewrite <- HL in E.
  assert (Ecfg : w_cfg s' = w_cfg s) by apply Q2.
  assert (L : length (w_tables s') = length (w_tables s)) by apply Q2.
  assert (Hdone : forall j t', j <= last -> nth_error (w_tables s') j = Some t' ->
            r_work s' t' = false /\ (t_rels t' <> [] -> t_len t' = 0 -> t_free t' = true)).
  { intros j t' Hj Ej. apply (Q5 j t'); [lia|exact Ej]. }
  assert (Hrest : forall j, last < j -> nth_error (w_tables s') j = nth_error (w_tables s) j).
  { intros j Hj. apply Q4. right. exact Hj. }
  assert (Hfound : S last = length (w_tables s) \/ (clock last = true /\ r2t_found s 0 last)).
  { destruct Q6 as [Hend|(Ha & Hcl)]; [left; exact Hend|right]. split; [exact Hcl|].
    apply Q7 in Ha. destruct Ha as [Ha|Hf]; [discriminate Ha|exact Hf]. }
  eexists _, s', last. split; [rewrite r_shrink_eq_clock, E; reflexivity|]. cbn [fst].
  split; [exact Q1|]. split; [exact Q2|]. split; [lia|]. split; [exact Hfound|].
  split; [intros j Hj Hcj; destruct (Q8 j) as (_ & Hnf); [lia|exact Hcj|exact Hnf]|].
  split; [exact Hrest|]. split; [exact Hdone|].
  assert (Hkeep : forall j x', nth_error (w_tables s') j = Some x' -> r_work s x' = true ->
            exists x, nth_error (w_tables s) j = Some x /\ r_work s x = true).
  { intros j x' Ej Hx. destruct (Nat.le_gt_cases j last) as [Hle|Hgt].
    - exfalso. destruct (Hdone j x' Hle Ej) as (Hw & _). rewrite (r2t_work_cfg s s' x' Ecfg) in Hw. congruence.
    - rewrite (Hrest j Hgt) in Ej. exists x'. split; [exact Ej|exact Hx]. }
  assert (Hfilt : filter (r_work s') (w_tables s') = filter (r_work s) (w_tables s')).
  { apply filter_ext. intros x. apply r2t_work_cfg. exact Ecfg. }
  unfold workable. rewrite Hfilt.
  split; [|split].
  - rewrite r_filter_pos, existsb_exists. split.
    + intros (x & Hin & Hx). exists x. split.
      * apply r_in_skipn in Hin. destruct Hin as (j & _ & Ej). eapply nth_error_In; eauto.
      * rewrite <- (r2t_work_cfg s s' x Ecfg). exact Hx.
    + intros (x & Hin & Hx). exists x. split; [|rewrite (r2t_work_cfg s s' x Ecfg); exact Hx].
      apply In_nth_error in Hin. destruct Hin as (j & Ej). apply r_in_skipn. exists j. split; [|exact Ej].
      destruct (Nat.le_gt_cases j last) as [Hle|Hgt]; [|lia]. exfalso.
      destruct (Hdone j x Hle Ej) as (Hw & _). rewrite (r2t_work_cfg s s' x Ecfg) in Hw. congruence.
  - apply r_count_le; [exact L|exact Hkeep].
  - intros Hpos. apply r_count_lt; [exact L|exact Hkeep|].
    assert (Wt : exists j t, j <= last /\ nth_error (w_tables s) j = Some t /\ r_work s t = true).
    { destruct Hfound as [Hend|(_ & k & t & Hk & Et & Ct)].
      - apply r_filter_pos in Hpos. destruct Hpos as (t & Hin & Ct).
        apply In_nth_error in Hin. destruct Hin as (j & Ej). exists j, t.
        assert (j < length (w_tables s)) by (apply nth_error_Some; congruence).
        split; [lia|auto].
      - exists k, t. split; [lia|auto]. }
    destruct Wt as (j & t & Hj & Et & Ct).
    assert (Hlt : j < length (w_tables s')) by (rewrite L; apply nth_error_Some; congruence).
    destruct (nth_error (w_tables s') j) as [t'|] eqn:Et'; [|apply nth_error_None in Et'; lia].
    exists j, t, t'. split; [exact Et|]. split; [exact Ct|]. split; [exact Et'|].
    destruct (Hdone j t' Hj Et') as (Hw & _). rewrite (r2t_work_cfg s s' t' Ecfg) in Hw. exact Hw.
Qed.

Theorem D_shrink_run_clock_w : forall s clock, St2 s -> is_locked s = false ->
  exists b s' last, w_shrink_timed clock s = Ok b s' /\ St2 s' /\ r2d_shr s s' /\
    last < length (w_tables s) /\
    (S last = length (w_tables s) \/ (clock last = true /\ r2t_found s 0 last)) /\
    (forall j, j < last -> clock j = true -> ~ r2t_found s 0 j) /\
    (forall j, last < j -> nth_error (w_tables s') j = nth_error (w_tables s) j) /\
    (forall j t', j <= last -> nth_error (w_tables s') j = Some t' ->
       r_work s' t' = false /\ (t_rels t' <> [] -> t_len t' = 0 -> t_free t' = true)) /\
    (b = true <-> 0 < workable s') /\
    workable s' <= workable s /\ (0 < workable s -> workable s' < workable s).
Proof. intros s clock HS Hl. rewrite (shrink_unlocked_eq_clock s clock Hl). apply D_shrink_run_clock. exact HS. Qed.

(** The result is exact and every call makes progress, in relation worlds, under every clock. *)
Corollary D_shrink_result_exact_clock_w : forall s clock, St2 s -> is_locked s = false ->
  exists b s', w_shrink_timed clock s = Ok b s' /\ (b = true <-> 0 < workable s').
Proof.
  intros s clock HS Hl. destruct (D_shrink_run_clock_w s clock HS Hl) as (b & s' & last & E & _ & _ & _ & _ & _ & _ & _ & X & _).
  exists b, s'. split; [exact E|exact X].
Qed.

Corollary D_shrink_progress_clock_w : forall s clock, St2 s -> is_locked s = false ->
  exists b s', w_shrink_timed clock s = Ok b s' /\ workable s' <= workable s /\ (0 < workable s -> workable s' < workable s).
Proof.
  intros s clock HS Hl. destruct (D_shrink_run_clock_w s clock HS Hl) as (b & s' & last & E & _ & _ & _ & _ & _ & _ & _ & _ & P).
  exists b, s'. split; [exact E|exact P].
Qed.

(** Nothing workable = no table can shrink and every empty relation table is free. *)
Lemma r2t_workable_zero : forall s, workable s = 0 <->
  (forall j t, nth_error (w_tables s) j = Some t -> r_work s t = false).
Proof.
  intros s. unfold workable. split.
  - intros Hz j t Ej. destruct (r_work s t) eqn:Hw; [|reflexivity]. exfalso.
    assert (Hpos : 0 < length (filter (r_work s) (w_tables s))).
    { apply r_filter_pos. exists t. split; [eapply nth_error_In; exact Ej|exact Hw]. }
    lia.
  - intros Hall. destruct (length (filter (r_work s) (w_tables s))) as [|n] eqn:En; [reflexivity|exfalso].
    assert (Hpos : 0 < length (filter (r_work s) (w_tables s))) by lia.
    apply r_filter_pos in Hpos. destruct Hpos as (t & Hin & Hw). apply In_nth_error in Hin. destruct Hin as (j & Ej).
    rewrite (Hall j t Ej) in Hw. discriminate Hw.
Qed.

Lemma r2t_work_false : forall s t, r_work s t = false ->
  (t_rels t = [] -> tbl_can_shrink t (cf_cap (w_cfg s)) = false) /\
  (t_rels t <> [] -> tbl_can_shrink t (cf_caprel (w_cfg s)) = false /\ (t_len t = 0 -> t_free t = true)).
Proof.
  intros s t Hw. unfold r_work, tbl_has_rels in Hw. split.
  - intros Hr. rewrite Hr in Hw. exact Hw.
  - intros Hr. destruct (t_rels t) as [|x l]; [exfalso; apply Hr; reflexivity|]. cbn [negb] in Hw.
    apply orb_false_iff in Hw. destruct Hw as (Hc & Hf). split; [exact Hc|].
    intros Hl. rewrite Hl in Hf. cbn [Nat.eqb] in Hf. rewrite andb_true_r in Hf. apply negb_false_iff in Hf. exact Hf.
Qed.

(** In relation-free worlds the measure is the one of ResetShrinkProofs. *)
Lemma r2t_workable_norel : forall s, St s -> workable s = shrinkable s.
Proof.
  intros s (_ & NR). unfold workable, shrinkable.
  assert (Hnr : forall t, In t (w_tables s) -> tbl_has_rels t = false).
  { intros t Hin. apply In_nth_error in Hin. destruct Hin as (j & E). destruct NR as (_ & N2 & _).
    destruct (N2 _ _ E) as (Hr & _). unfold tbl_has_rels. rewrite Hr. reflexivity. }
  revert Hnr. generalize (w_tables s) as l. induction l as [|a l IH]; intros Hnr; [reflexivity|].
  cbn [filter]. unfold r_work at 1. rewrite (Hnr a) by (left; reflexivity). cbn [negb].
  destruct (tbl_can_shrink a (cf_cap (w_cfg s))); cbn [length]; rewrite IH by (intros; apply Hnr; right; assumption); reflexivity.
Qed.

(** ** Every sequence of time-boxed calls converges, whatever the clocks *)

Lemma r2t_KeysLive_shr : forall s s', r2d_shr s s' -> r2d_KeysLive s -> r2d_KeysLive s'.
Proof.
  intros s s' (A1 & _ & _ & _ & _ & _ & _ & _ & _ & _ & _ & A12) HK aid a' k l' Ha Hk.
  destruct (A12 aid a' k l' Ha Hk) as (a & l & Ha0 & Hk0).
  destruct (HK aid a k l Ha0 Hk0) as [H0|(g & Hg)]; [left; exact H0|right]. exists g. rewrite (proj1 (A1 (k, g))). exact Hg.
Qed.

Lemma r2t_shr_unlocked : forall s s', r2d_shr s s' -> is_locked s = false -> is_locked s' = false.
Proof.
  intros s s' (_ & _ & _ & _ & _ & _ & SS & _) Hl. unfold side_same in SS. unfold is_locked in *.
  replace (w_lock s') with (w_lock s); [exact Hl|]. symmetry. apply SS.
Qed.

Theorem D_shrink_converges_clocks : forall clocks s, St2 s -> is_locked s = false ->
  exists n s', shrink_calls clocks s = Ok n s' /\ n <= length clocks /\ n + workable s' <= workable s /\
    (n < length clocks -> workable s' = 0) /\
    St2 s' /\ is_locked s' = false /\ r2d_shr s s' /\ (r2d_KeysLive s -> r2d_KeysLive s').
Proof.
  induction clocks as [|clock rest IH]; intros s HS Hl.
  - exists 0, s. split; [reflexivity|]. cbn [length]. split; [lia|]. split; [lia|]. split; [lia|].
    split; [exact HS|]. split; [exact Hl|]. split; [apply r2d_shr_refl|]. intros HK. exact HK.
  - destruct (D_shrink_run_clock_w s clock HS Hl) as (b & s1 & last & E & I1 & I2 & _ & _ & _ & _ & _ & X & P1 & P2).
    pose proof (r2t_shr_unlocked s s1 I2 Hl) as Hl1.
    cbn [shrink_calls length]. rewrite (sa_bind_ok E). destruct b.
    + destruct (IH s1 I1 Hl1) as (n & s' & E' & N1 & N2 & N3 & J1 & J2 & J3 & J4).
      assert (Hpos1 : 0 < workable s1) by (apply X; reflexivity).
      assert (Hlt : workable s1 < workable s) by (apply P2; lia).
      exists (S n), s'. split; [rewrite (sa_bind_ok E'); reflexivity|].
      split; [lia|]. split; [lia|]. split; [intros Hn; apply N3; lia|].
      split; [exact J1|]. split; [exact J2|]. split; [exact (r2d_shr_trans _ _ _ I2 J3)|].
      intros HK. apply J4. exact (r2t_KeysLive_shr s s1 I2 HK).
    + assert (Hz : workable s1 = 0).
      { destruct (workable s1) as [|k] eqn:Ek; [reflexivity|]. exfalso.
        assert (Hb : false = true) by (apply X; lia). discriminate Hb. }
      exists 0, s1. split; [reflexivity|]. split; [lia|]. split; [lia|]. split; [intros _; exact Hz|].
      split; [exact I1|]. split; [exact Hl1|]. split; [exact I2|]. exact (r2t_KeysLive_shr s s1 I2).
Qed.

Corollary D_shrink_converges_clocks_done : forall clocks s, St2 s -> is_locked s = false ->
  workable s <= length clocks ->
  exists n s', shrink_calls clocks s = Ok n s' /\ n <= workable s /\ St2 s' /\ is_locked s' = false /\ r2d_shr s s' /\
    (forall j t, nth_error (w_tables s') j = Some t -> r_work s' t = false).
Proof.
  intros clocks s HS Hl Hlen.
  destruct (D_shrink_converges_clocks clocks s HS Hl) as (n & s' & E & N1 & N2 & N3 & J1 & J2 & J3 & _).
  exists n, s'. split; [exact E|]. split; [lia|]. split; [exact J1|]. split; [exact J2|]. split; [exact J3|].
  apply r2t_workable_zero. destruct (Nat.lt_ge_cases n (length clocks)) as [Hn|Hn]; [exact (N3 Hn)|lia].
Qed.

(** ** Non-vacuity: the relation world of Rel2Maint's example (table 2 is an empty, active relation table) *)

Example r2t_ex_hyps : St2 r2d_ex_world /\ is_locked r2d_ex_world = false /\ 0 < workable r2d_ex_world.
Proof.
  split; [exact r2d_ex_St2|]. split; [vm_compute; reflexivity|vm_compute; lia].
Qed.

Example r2t_ex_calls_by_theorem : forall clocks : list (nat -> bool), workable r2d_ex_world <= length clocks ->
  exists n s', shrink_calls clocks r2d_ex_world = Ok n s' /\ n <= workable r2d_ex_world /\ St2 s' /\
    (exists t', nth_error (w_tables s') 2 = Some t' /\ t_free t' = true) /\
    live s' (7, 0%N) = true /\ tgt s' (7, 0%N) 3 = Some zero_ent.
Proof.
  intros clocks Hlen. destruct r2t_ex_hyps as (HS & Hl & _).
  destruct r2d_ex_hyps as (_ & _ & _ & (t & Ht & Hf & Hlen0 & Hr) & L7 & T7).
  destruct (D_shrink_converges_clocks_done clocks r2d_ex_world HS Hl Hlen) as (n & s' & E & N & J1 & _ & J3 & Hall).
  exists n, s'. split; [exact E|]. split; [exact N|]. split; [exact J1|].
  pose proof J3 as (A1 & A2 & _ & _ & _ & _ & _ & _ & _ & _ & A11 & _).
  split.
  - destruct (A11 2 t Ht) as (t' & Ht' & (_ & _ & _ & M4 & M5 & _)). exists t'. split; [exact Ht'|].
    destruct (r2t_work_false s' t' (Hall 2 t' Ht')) as (_ & Hrel).
    destruct Hrel as (_ & Hfree); [rewrite M5, Hr; discriminate|]. apply Hfree. rewrite M4. exact Hlen0.
  - split; [rewrite (proj1 (A1 (7, 0%N))); exact L7|rewrite (A2 (7, 0%N) 3); exact T7].
Qed.

(** Computed: three tables have work (table 0 and the relation table 1 can shrink, the empty relation table 2
    is to be freed). A clock that expires right after table 0, then two zero budgets: the calls report
    remaining work twice, the third finds the last piece of work and reports none; table 2 ends free. *)
Definition r2t_ex_view (s : W) : list (nat * nat * bool * bool) :=
  map (fun t => (t_len t, t_cap t, t_free t, r_work s t)) (w_tables s).
Example r2t_ex_calls_computed :
  workable r2d_ex_world = 3 /\
  r2t_ex_view r2d_ex_world = [(2, 4, false, true); (1, 2, false, true); (0, 1, false, true); (2, 2, false, false)] /\
  match shrink_calls [fun j => Nat.eqb j 0; fun _ => true; fun _ => true; fun _ => false] r2d_ex_world with
  | Ok n s' => Some (n, workable s', r2t_ex_view s')
  | Err _ _ => None
  end = Some (2, 0, [(2, 2, false, false); (1, 1, false, false); (0, 1, true, false); (2, 2, false, false)]) /\
  match w_shrink_timed (fun j => Nat.eqb j 1) r2d_ex_world with
  | Ok b s' => Some (b, workable s', r2t_ex_view s')
  | Err _ _ => None
  end = Some (true, 1, [(2, 2, false, false); (1, 1, false, false); (0, 1, false, true); (2, 2, false, false)]).
Proof. vm_compute. repeat split. Qed.

Definition r2t_all := (r2t_any1_spec, r2t_go_spec_clock, D_shrink_run_clock, D_shrink_run_clock_w, D_shrink_result_exact_clock_w,
  D_shrink_progress_clock_w, r2t_workable_zero, r2t_work_false, r2t_workable_norel, D_shrink_converges_clocks,
  D_shrink_converges_clocks_done, r2t_ex_hyps, r2t_ex_calls_by_theorem, r2t_ex_calls_computed).
Print Assumptions r2t_all.
