(** * Rel2HistAll: package U of the relation tier: ONE class of histories.

    The relation-tier invariant over histories was proved for four classes separately (Rel2HistQ / QL: core
    operations + Shrink + reads + filters + registration + queries, locked states; Rel2HistO / OL: + observers;
    Rel2HistR: + Reset; Rel2BatchHist: core operations + the five BATCH operations, unlocked, no filters).
    This file merges them in stages. Helper prefix [r2u_].

    STAGE 1 (closed here): Rel2HistQ's class + the five batch operations (no observers, no Reset):

      [rel_all_op o := rel_q_op o || r2h_batch_op o]     (ONewEntities, ONewBatch, ORemoveEntities, OExchangeBatch,
                                                           OSetRelBatch with ARBITRARY arguments)
      [InvAll s n := Inv2Q s n]                           (St2, KeysLive, no observers, issued_ok, archs_tabled_norel,
                                                           r2q_filters_ok; the world may be LOCKED)

    - on a LOCKED world the batch operations are [structural], hence rejected with the state unchanged;
    - on an unlocked world [Inv2Q] gives [Inv2] and [step_inv2B_storage] applies; the two extra clauses of
      [Inv2Q] are kept because of a syntactic frame through the code of the five operations ([r2u_frp_step_op]:
      tables keep their archetype, every new relation-free archetype has a table, the filter and query objects are
      untouched), in BOTH outcomes;
    - the side condition [r2h_safe] of Rel2BatchHist is NOT needed for the invariant ([Inv2Q] does not say "unlocked"):
      [step_inv_all] holds for every batch line. What [r2h_safe] gives is that an unlocked world stays unlocked across
      a batch step ([step_inv_all_unlocked]); without it the two documented lock leaks of Rel2BatchHist leave the world
      locked although no query is open, so the bookkeeping clause [LQ] of Rel2HistQL is lost while [InvAll] still holds
      ([r2u_leak_inv]). [LQ] over the merged class with [r2h_safe] batch lines: Rel2HistAllL.v ([step_inv_all_LQ],
      [reachable_inv_all_LQ]).

    Main results: [r2u_frp_step_op], [step_inv_all_batch], [step_inv_all], [step_inv_all_unlocked], [reachable_inv_all],
    [rel_q_line_all] / [r2h_line_all] (the two merged classes are sub-classes), corollaries
    [targets_always_zero_or_alive_all], [reachable_locked_structural_unchanged_all], [reachable_unlocked_reset_succeeds_all],
    [remove_target_detaches_all], [reachable_filters_ok_all]; non-vacuity [r2u_script] (batch operations between filters,
    registrations and open queries; batch calls rejected in the locked window), [r2u_script_inv], [r2u_mid_inv],
    [r2u_leak_inv]. Stage 2 (+ Reset) is Rel2HistAllR.v; the partial stage 3 (+ observers) is Rel2HistAllO.v / Rel2HistAllOR.v. *)
From Ark Require Import Model.Base Model.Mask Model.Pool Model.Util Model.World Model.Run.
From Ark Require Import Proofs.TableProofs Proofs.MaskProofs Proofs.Hoare Proofs.WF Proofs.StorageA Proofs.StorageBDefs
  Proofs.StorageB_sb1 Proofs.StorageB_sb2 Proofs.StorageB_sb3 Proofs.LockWorld Proofs.StorageC Proofs.RelProofs
  Proofs.CacheProofs Proofs.QueryProofs Proofs.ResetShrinkProofs Proofs.BatchProofs Proofs.BatchOps
  Proofs.Rel2Defs Proofs.Rel2Struct Proofs.Rel2Remove Proofs.Rel2SetRel Proofs.Rel2Ops Proofs.Rel2Maint Proofs.Rel2Hist
  Proofs.Rel2Cache Proofs.Rel2Batch Proofs.Rel2BatchExchange Proofs.Rel2BatchNew Proofs.Rel2BatchSetRel
  Proofs.Rel2BatchHist Proofs.Rel2HistQ Proofs.Rel2HistQL.
From Ark Require Properties.Common Proofs.Rel2Check Proofs.StorageD.
From RecordUpdate Require Import RecordSet.
Import RecordSetNotations.
From Coq Require Import Lia.
Close Scope Z_scope.

(* ================================================================================================ *)
(** * Part 1: the frame of the batch operations

    [r2e_hk] (Rel2Hist, Part 9: tables keep their archetype, a new relation-free archetype has a table) together
    with [r2q_uq] (Rel2HistQ, Part 1: filter and query objects untouched). Both are syntactic frames: they hold
    in every state, in both outcomes, with or without observers. *)

Definition r2u_fr (s s' : W) : Prop := r2e_hk s s' /\ r2q_uq s s'.

Lemma r2u_fr_refl : forall s, r2u_fr s s.
Proof. intros s. split; [apply r2e_hk_refl|apply r2q_uq_refl]. Qed.
Lemma r2u_fr_trans : forall s1 s2 s3, r2u_fr s1 s2 -> r2u_fr s2 s3 -> r2u_fr s1 s3.
Proof.
  intros s1 s2 s3 (A1 & A2) (B1 & B2). split; [apply (r2e_hk_trans s1 s2 s3 A1 B1)|apply (r2q_uq_trans s1 s2 s3 A2 B2)].
Qed.

Definition r2u_frp {A} (m : MW A) : Prop := r2e_pres r2u_fr m.

Lemma r2u_frp_both : forall A (m : MW A), r2e_hkp m -> r2q_kf m -> r2u_frp m.
Proof. intros A m H1 H2 s. split; [apply H1|apply H2]. Qed.

Lemma r2u_frp_ro : forall A (m : MW A), readonly m -> r2u_frp m.
Proof. intros A m H. apply (r2e_pres_ro r2u_fr r2u_fr_refl). exact H. Qed.
Lemma r2u_frp_bind : forall A B (m : MW A) (k : A -> MW B), r2u_frp m -> (forall a, r2u_frp (k a)) -> r2u_frp (bind m k).
Proof. intros A B m k. apply (r2e_pres_bind r2u_fr r2u_fr_trans). Qed.
Lemma r2u_frp_forM : forall A (l : list A) (f : A -> MW unit), (forall a, r2u_frp (f a)) -> r2u_frp (forM_ l f).
Proof. intros A l f. apply (r2e_pres_forM r2u_fr r2u_fr_refl r2u_fr_trans). Qed.
Lemma r2u_frp_whenM : forall b m, r2u_frp m -> r2u_frp (whenM b m).
Proof. intros b m. apply (r2e_pres_whenM r2u_fr r2u_fr_refl). Qed.
Lemma r2u_frp_getbind : forall A (k : W -> MW A), (forall s, r2u_fr s (state_of (k s s))) -> r2u_frp (bind get k).
Proof. intros A k. apply (r2e_pres_getbind r2u_fr). Qed.

Lemma r2u_frp_mapM : forall A B (l : list A) (f : A -> MW B), (forall a, r2u_frp (f a)) -> r2u_frp (mapM l f).
Proof.
  intros A B l f H. induction l as [|x l IH]; cbn [mapM]; [apply r2u_frp_ro, readonly_ret|].
  apply r2u_frp_bind; [apply H|]. intros y. apply r2u_frp_bind; [exact IH|]. intros ys. apply r2u_frp_ro, readonly_ret.
Qed.

Lemma r2u_frp_sp : forall A (m : MW A), sa_sp m -> r2u_frp m.
Proof. intros A m H. apply r2u_frp_both; [apply r2e_hkp_sp|apply r2q_kf_sp]; exact H. Qed.

Lemma r2u_frp_modify_same : forall f : W -> W,
  (forall s, w_archs (f s) = w_archs s /\ w_tables (f s) = w_tables s /\ w_filters (f s) = w_filters s /\ w_queries (f s) = w_queries s) ->
  r2u_frp (modify f).
Proof.
  intros f H. apply r2u_frp_both.
  - apply r2e_hkp_modify_same. intros s. destruct (H s) as (A & B & _). split; assumption.
  - apply r2q_kf_modify_same. intros s. destruct (H s) as (_ & _ & C & D). split; assumption.
Qed.

Ltac r2u_same_mod := apply r2u_frp_modify_same; intros ?; repeat split; reflexivity.

Lemma r2u_frp_modT : forall i f, (forall t, t_arch (f t) = t_arch t) -> r2u_frp (modT i f).
Proof. intros i f H. apply r2u_frp_both; [apply r2e_hkp_modT; exact H|apply r2q_kf_modT]. Qed.

(** a failing computation under a deferred unlock: the handler only touches the lock *)
Lemma r2u_frp_deferred : forall A b (m : MW A), r2u_frp m -> r2u_frp (with_deferred_unlock b m).
Proof.
  intros A b m H s. unfold with_deferred_unlock, on_err. specialize (H s). destruct (m s) as [a s1|er s1]; cbn [state_of] in *; [exact H|].
  apply (r2u_fr_trans s s1 _ H). unfold release_bit. destruct (lock_unlock (w_lock s1) b); [|apply r2u_fr_refl].
  split; [apply r2e_hk_same; reflexivity|split; reflexivity].
Qed.

Lemma r2u_frp_fire_rows : forall (f : ent -> bool -> MW bool) es eo, (forall e b, r2u_frp (f e b)) -> r2u_frp (fire_rows f es eo).
Proof.
  intros f es. induction es as [|e rest IH]; intros eo H; cbn [fire_rows]; [apply r2u_frp_ro, readonly_ret|].
  apply r2u_frp_bind; [apply H|]. intros found. destruct found; [apply IH; exact H|apply r2u_frp_ro, readonly_ret].
Qed.

Lemma r2u_ro_get_batch_tables : forall fi rels, readonly (get_batch_tables fi rels).
Proof. intros fi rels s. apply r2B_gbt_state. Qed.

Ltac r2u_step :=
  match goal with
  | |- r2u_frp (ret _) => apply r2u_frp_ro, readonly_ret
  | |- r2u_frp (fail _) => apply r2u_frp_ro, readonly_fail
  | |- r2u_frp get => apply r2u_frp_ro, readonly_get
  | |- r2u_frp (guard _ _) => apply r2u_frp_ro, readonly_guard
  | |- r2u_frp (of_opt _ _) => apply r2u_frp_ro, readonly_of_opt
  | |- r2u_frp (getT _) => apply r2u_frp_ro, readonly_getT
  | |- r2u_frp (getA _) => apply r2u_frp_ro, r2e_ro_getA
  | |- r2u_frp check_locked => apply r2u_frp_ro, sc_ro_check_locked
  | |- r2u_frp (arch_mask_of_table _) => apply r2u_frp_ro, sc_ro_arch_mask
  | |- r2u_frp (rows_of _ _ _) => apply r2u_frp_ro, r2h_ro_rows_of
  | |- r2u_frp (get_batch_tables _ _) => apply r2u_frp_ro, r2u_ro_get_batch_tables
  | |- r2u_frp (to_relations _ _) => apply r2u_frp_ro, readonly_to_relations
  | |- r2u_frp (resolveR _) => apply r2u_frp_ro, readonly_resolveR
  | |- r2u_frp (batch_rels _ _) => apply r2u_frp_ro, readonly_batch_rels
  | |- r2u_frp (exchange_targets _ _) => apply r2u_frp_ro, r2e_ro_exchange_targets
  | |- r2u_frp lockM => apply r2u_frp_sp, sa_sp_lockM
  | |- r2u_frp (unlockM _) => apply r2u_frp_sp, sa_sp_unlockM
  | |- r2u_frp (log _) => apply r2u_frp_sp, sa_sp_log
  | |- r2u_frp (fire _ _ _ _ _) => apply r2u_frp_sp, sa_sp_fire
  | |- r2u_frp (with_deferred_unlock _ _) => apply r2u_frp_deferred
  | |- r2u_frp (whenM _ _) => apply r2u_frp_whenM
  | |- r2u_frp (forM_ _ _) => apply r2u_frp_forM; intros ?
  | |- r2u_frp (mapM _ _) => apply r2u_frp_mapM; intros ?
  | |- r2u_frp (fire_rows _ _ _) => apply r2u_frp_fire_rows; intros ? ?
  | |- r2u_frp (bind _ _) => apply r2u_frp_bind; [|intros ?]
  | |- r2u_frp (let '(_, _) := ?x in _) => destruct x
  | |- r2u_frp (match ?x with _ => _ end) => destruct x
  | |- r2u_frp (if ?x then _ else _) => destruct x
  end.
Ltac r2u_tac := repeat r2u_step.

Lemma r2u_frp_pool_getM : r2u_frp pool_getM.
Proof. apply r2u_frp_both; [apply r2e_hkp_pool_getM|apply r2q_kf_pool_getM]. Qed.
Lemma r2u_frp_pool_recycleM : forall e, r2u_frp (pool_recycleM e).
Proof. intros e. apply r2u_frp_both; [apply r2e_hkp_pool_recycleM|apply r2q_kf_pool_recycleM]. Qed.
Lemma r2u_frp_set_index : forall id v, r2u_frp (set_index id v).
Proof. intros. apply r2u_frp_both; [apply r2e_hkp_set_index|apply r2q_kf_set_index]. Qed.
Lemma r2u_frp_register_targets : forall rels, r2u_frp (register_targets rels).
Proof. intros. apply r2u_frp_both; [apply r2e_hkp_register_targets|apply r2q_kf_register_targets]. Qed.
Lemma r2u_frp_find_add : forall old add rels m0, r2u_frp (find_or_create_table_add old add rels m0).
Proof. intros. apply r2u_frp_both; [apply r2e_hkp_find_add|apply r2q_kf_find_add]. Qed.
Lemma r2u_frp_find_exchange : forall old add rem rels m0, r2u_frp (find_or_create_table old add rem rels m0).
Proof. intros. apply r2u_frp_both; [apply r2e_hkp_find_exchange|apply r2q_kf_find_exchange]. Qed.
Lemma r2u_frp_goc : forall aid rels, r2u_frp (get_or_create_table aid rels).
Proof. intros. apply r2u_frp_both; [apply r2e_hkp_goc|apply r2q_kf_goc]. Qed.
Lemma r2u_frp_move_entities : forall src dst n, r2u_frp (move_entities src dst n).
Proof. intros. apply r2u_frp_both; [apply r2e_hkp_move_entities|apply r2q_kf_move_entities]. Qed.
Lemma r2u_frp_cleanup : forall e, r2u_frp (cleanup_archetypes e).
Proof. intros. apply r2u_frp_both; [apply r2e_hkp_cleanup|apply r2q_kf_cleanup]. Qed.

Lemma r2u_frp_batch_callback : forall tid vals row, r2u_frp (batch_callback tid vals row).
Proof. intros. unfold batch_callback. r2u_tac. apply r2u_frp_modT. intros; reflexivity. Qed.

Lemma r2u_frp_create_entities : forall tid count, r2u_frp (create_entities tid count).
Proof.
  intros. unfold create_entities. r2u_tac.
  - apply r2u_frp_modT. intros t. apply r2e_arch_alloc.
  - apply r2u_frp_pool_getM.
  - apply r2u_frp_modT. intros; reflexivity.
  - apply r2u_frp_set_index.
  - r2u_same_mod.
Qed.

Lemma r2u_frp_new_entities : forall count ids rels, r2u_frp (new_entities count ids rels).
Proof.
  intros. unfold new_entities. r2u_tac.
  - apply r2u_frp_find_add.
  - apply r2u_frp_create_entities.
  - apply r2u_frp_register_targets.
Qed.

Lemma r2u_frp_w_new_entities : forall count fn, r2u_frp (w_new_entities count fn).
Proof.
  intros. unfold w_new_entities, fire_create_entity. r2u_tac.
  all: first [apply r2u_frp_new_entities|apply r2u_frp_batch_callback].
Qed.

Lemma r2u_frp_w_new_batch : forall count ids rels vals fn, r2u_frp (w_new_batch count ids rels vals fn).
Proof.
  intros. unfold w_new_batch, fire_create_entity, fire_create_entity_rel. r2u_tac.
  all: first [apply r2u_frp_new_entities|apply r2u_frp_batch_callback].
Qed.

Lemma r2u_frp_rm_rows : forall es acc, r2u_frp (bo_rm_rows es acc).
Proof.
  intros es. induction es as [|e more IH]; intros acc; cbn [bo_rm_rows]; [apply r2u_frp_ro, readonly_ret|].
  apply r2u_frp_getbind. intros s.
  assert (X : r2u_frp (modify (fun s0 : W => s0 <| w_index ::= updf (fst e) (fun ix => (None, snd ix)) |>) ;;;
                       pool_recycleM e ;;;
                       bo_rm_rows more (if nth (fst e) (w_istarget s) false then acc ++ [e] else acc))).
  { apply r2u_frp_bind; [r2u_same_mod|]. intros _. apply r2u_frp_bind; [apply r2u_frp_pool_recycleM|]. intros _. apply IH. }
  apply X.
Qed.

Lemma r2u_frp_rm_tabs : forall tabs acc, r2u_frp (bo_rm_tabs tabs acc).
Proof.
  intros tabs. induction tabs as [|tid rest IH]; intros acc; cbn [bo_rm_tabs]; [apply r2u_frp_ro, readonly_ret|].
  apply r2u_frp_bind; [apply r2u_frp_ro, readonly_getT|]. intros t.
  apply r2u_frp_bind; [apply r2u_frp_rm_rows|]. intros acc'.
  apply r2u_frp_bind; [apply r2u_frp_modT; intros; reflexivity|]. intros _. apply IH.
Qed.

Lemma r2u_frp_w_remove_entities : forall fi rels fn, r2u_frp (w_remove_entities fi rels fn).
Proof.
  intros. rewrite bo_remove_entities_eq.
  apply r2u_frp_bind; [apply r2u_frp_ro, sc_ro_check_locked|]. intros _.
  apply r2u_frp_getbind. intros s0. cbv zeta.
  set (sl := (has_obs s0 EvRemoveEntity || has_obs s0 EvRemoveRelations || fn)%bool).
  assert (X : r2u_frp (l <- (if sl then lockM else ret 0) ;;
     tables <- get_batch_tables fi rels ;;
     whenM fn (bo_rm_cb tables) ;;;
     whenM (has_obs s0 EvRemoveEntity) (bo_rm_ev_e tables) ;;;
     whenM (has_obs s0 EvRemoveRelations) (bo_rm_ev_r tables) ;;;
     cleanup <- bo_rm_tabs tables [] ;; bo_rm_cleanup cleanup ;;; whenM sl (unlockM l))).
  { unfold bo_rm_cb, bo_rm_ev_e, bo_rm_ev_r, bo_rm_cleanup, fire_remove_entity, fire_remove_entity_rel. r2u_tac.
    all: first [apply r2u_frp_batch_callback|apply r2u_frp_rm_tabs|apply r2u_frp_cleanup|r2u_same_mod]. }
  apply X.
Qed.

Lemma r2u_frp_exchange_table : forall otid ntid rels, r2u_frp (exchange_table otid ntid rels).
Proof.
  intros. unfold exchange_table. r2u_tac.
  all: first [apply r2u_frp_register_targets|r2u_same_mod|idtac].
  all: apply r2u_frp_modT; intros ?; try reflexivity.
  unfold tbl_add_all_entities. cbn. apply r2e_arch_alloc.
Qed.

Lemma r2u_frp_collect : forall add rem rels tabs acc rr, r2u_frp (bo_collect add rem rels tabs acc rr).
Proof.
  intros add rem rels tabs. induction tabs as [|tid rest IH]; intros acc rr; cbn [bo_collect]; [apply r2u_frp_ro, readonly_ret|].
  apply r2u_frp_bind; [apply r2u_frp_ro, readonly_getT|]. intros t.
  destruct (Nat.eqb (t_len t) 0); [apply IH|].
  apply r2u_frp_bind; [apply r2u_frp_ro, sc_ro_arch_mask|]. intros om.
  apply r2u_frp_bind; [apply r2u_frp_find_exchange|]. intros [[[ntid x1] x2] removed]. apply IH.
Qed.

Lemma r2u_frp_w_exchange_batch : forall fi brels add rem rels vals, r2u_frp (w_exchange_batch fi brels add rem rels vals).
Proof.
  intros. rewrite r2x_exchange_batch_eq.
  unfold r2x_xbody, bo_pre_events, bo_post_events, r2x_mbody, fire_remove, fire_add. r2u_tac.
  all: first [apply r2u_frp_collect|apply r2u_frp_exchange_table|apply r2u_frp_batch_callback].
Qed.

Lemma r2u_frp_w_set_relations_batch : forall fi brels rels, r2u_frp (w_set_relations_batch fi brels rels).
Proof.
  intros. unfold w_set_relations_batch, set_relations_plan, set_relations_fire_removes, set_relations_move,
    set_relations_fire_adds, fire_set. r2u_tac.
  all: first [apply r2u_frp_goc|apply r2u_frp_move_entities|apply r2u_frp_batch_callback|apply r2u_frp_register_targets].
Qed.

(** One batch operation keeps the frame, whatever its arguments and its outcome. *)
Theorem r2u_frp_step_op : forall debug o, r2h_batch_op o = true -> r2u_frp (step_op debug o).
Proof.
  intros debug o Hb. destruct o; try discriminate Hb; cbn [step_op]; r2u_tac.
  all: first [apply r2u_frp_w_new_entities|apply r2u_frp_w_new_batch|apply r2u_frp_w_remove_entities
             |apply r2u_frp_w_exchange_batch|apply r2u_frp_w_set_relations_batch].
Qed.

(* ================================================================================================ *)
(** * Part 2: one step of a batch operation under [Inv2Q] (locked or unlocked world) *)

Definition InvAll (s : W) (n : nat) : Prop := Inv2Q s n.

Definition rel_all_op (o : op) : bool := (rel_q_op o || r2h_batch_op o)%bool.

(** component ids the operation adds *)
Definition rel_all_ids (o : op) : list nat := rel_op_ids o ++ r2h_op_ids o.

Lemma r2u_fr_H : forall s s', r2u_fr s s' -> St2 s -> St2 s' -> archs_tabled_norel s -> archs_tabled_norel s'.
Proof.
  intros s s' (Hk & _) HS HS' HT. apply (r2e_tabled_iff s' HS'). apply (r2e_hk_H s s' Hk). apply (r2e_tabled_iff s HS). exact HT.
Qed.

Lemma r2u_fr_same : forall s s', w_archs s' = w_archs s -> w_tables s' = w_tables s -> w_filters s' = w_filters s ->
  w_queries s' = w_queries s -> r2u_fr s s'.
Proof. intros s s' A B C D. split; [apply r2e_hk_same; assumption|split; assumption]. Qed.

(** the frame across a complete batch step (log cleared, handles issued from the log) *)
Lemma r2u_fr_step : forall debug wd s line o, decode_op line = Some o -> r2h_batch_op o = true ->
  r2u_fr s (fst (step debug wd s line)).
Proof.
  intros debug wd s line o Hd Hb. rewrite (r2h_step_state debug wd s line o Hd Hb). cbv zeta.
  set (s0 := s <| w_log := [] |>).
  apply (r2u_fr_trans s s0); [apply r2u_fr_same; reflexivity|].
  pose proof (r2u_frp_step_op debug o Hb s0) as H1.
  apply (r2u_fr_trans s0 _ _ H1).
  destruct (issues_from_log o && negb (is_err (step_op debug o s0)))%bool; apply r2u_fr_same; reflexivity.
Qed.

(** On a LOCKED world a batch step changes nothing (but clears the callback log, which is empty in every state
    of a history). *)
Lemma r2u_batch_locked : forall debug wd s line o, decode_op line = Some o -> r2h_batch_op o = true ->
  is_locked s = true -> fst (step debug wd s line) = s <| w_log := [] |>.
Proof.
  intros debug wd s line o Hd Hb Hl. rewrite (r2h_step_state debug wd s line o Hd Hb). cbv zeta.
  set (s0 := s <| w_log := [] |>).
  assert (Hs : structural o = true) by (destruct o; try discriminate Hb; reflexivity).
  destruct (structural_blocked debug o s0 Hs Hl) as (er & E). rewrite E. cbn [is_err negb state_of].
  rewrite Bool.andb_false_r. reflexivity.
Qed.

Theorem step_inv_all_batch : forall debug wd s n line o,
  InvAll s n -> n + r2h_created o + 4 < Nat.pow 2 31 -> decode_op line = Some o -> r2h_batch_op o = true ->
  (forall c, In c (r2h_op_ids o) -> c < length (w_reg s)) ->
  let s' := fst (step debug wd s line) in
  InvAll s' (n + S (r2h_created o)) /\ w_reg s' = w_reg s /\
  (exists es, w_issued s' = w_issued s ++ es /\ forall e, In e es -> live s' e = true /\ live s e = false) /\
  (is_locked s = true -> s' = s <| w_log := [] |>) /\
  (is_locked s = false ->
     is_locked s' = false \/ (is_err (step_op debug o (s <| w_log := [] |>)) = true /\ r2h_leak (s <| w_log := [] |>) o)).
Proof.
  intros debug wd s n line o HI Hn Hd Hb Hreg. cbv zeta. unfold InvAll in *.
  destruct (is_locked s) eqn:Hl.
  - pose proof (r2u_batch_locked debug wd s line o Hd Hb Hl) as E. rewrite E.
    split; [apply (r2q_Inv2Q_mono _ n); [lia|apply r2q_Inv2Q_log; exact HI]|].
    split; [reflexivity|]. split; [exists []; split; [cbn; rewrite app_nil_r; reflexivity|intros e []]|].
    split; [reflexivity|discriminate].
  - pose proof (r2q_Inv2T_of_Q s n HI Hl) as (HI2 & HT). pose proof HI as (HS & _ & _ & _ & _ & H6).
    destruct (step_inv2B_storage debug wd s n line o HI2 Hn Hd Hb Hreg) as ((A1 & A2 & A3 & A4) & B & C & D).
    pose proof (r2u_fr_step debug wd s line o Hd Hb) as Hfr.
    split.
    { split; [exact A1|]. split; [exact A2|]. split; [exact A3|]. split; [exact A4|].
      split; [apply (r2u_fr_H s _ Hfr HS A1 HT)|].
      destruct Hfr as (_ & (Ef & _)). apply (r2q_filters_ok_ext s _ B Ef H6). }
    split; [exact B|]. split; [exact C|]. split; [discriminate|]. intros _. exact D.
Qed.

(** ** One step of the merged class *)

Lemma r2u_op_cases : forall o, rel_all_op o = true ->
  (rel_q_op o = true /\ r2h_batch_op o = false /\ r2h_created o = 0 /\ r2h_op_ids o = []) \/
  (rel_q_op o = false /\ r2h_batch_op o = true /\ rel_op_ids o = []).
Proof.
  intros o H. unfold rel_all_op in H. destruct (r2h_batch_op o) eqn:Hb.
  - right. destruct o; try discriminate Hb; repeat split; reflexivity.
  - left. rewrite Bool.orb_false_r in H. destruct o; try discriminate Hb; repeat split; try reflexivity; exact H.
Qed.

(** The side conditions on a line are those of [step_inv2Q] (added component ids registered; [rel_q_flt_ok] for an
    UnsafeFilter with fixed relations). NO condition on the batch lines beyond registered ids: the lock leaks of
    Rel2BatchHist leave the world locked, which [InvAll] permits. *)
Theorem step_inv_all : forall debug wd s n line o,
  InvAll s n -> n + r2h_created o + 4 < Nat.pow 2 31 -> decode_op line = Some o -> rel_all_op o = true ->
  (forall c, In c (rel_all_ids o) -> c < length (w_reg s)) -> rel_q_flt_ok (w_reg s) o ->
  let s' := fst (step debug wd s line) in
  InvAll s' (n + S (r2h_created o)) /\ w_reg s' = w_reg s /\
  (exists es, w_issued s' = w_issued s ++ es /\ forall e, In e es -> live s' e = true /\ live s e = false).
Proof.
  intros debug wd s n line o HI Hn Hd Hop Hreg Hflt. cbv zeta.
  destruct (r2u_op_cases o Hop) as [(Hq & _ & Hc & _)|(_ & Hb & _)].
  - rewrite Hc in *. rewrite Nat.add_0_r in Hn. rewrite Nat.add_1_r.
    destruct (step_inv2Q debug wd s n line o HI Hn Hd Hq) as (S1 & S2 & S3).
    { intros c Hin. apply Hreg. unfold rel_all_ids. apply in_or_app. left. exact Hin. }
    { exact Hflt. }
    split; [exact S1|]. split; [exact S2|].
    destruct S3 as [E|(e & E & L1 & L0)].
    + exists []. split; [rewrite app_nil_r; exact E|intros e []].
    + exists [e]. split; [exact E|]. intros x [<-|[]]. split; assumption.
  - destruct (step_inv_all_batch debug wd s n line o HI Hn Hd Hb) as (S1 & S2 & S3 & _).
    { intros c Hin. apply Hreg. unfold rel_all_ids. apply in_or_app. right. exact Hin. }
    split; [exact S1|]. split; [exact S2|exact S3].
Qed.

(** With the side condition [r2h_safe] of Rel2BatchHist (no callback for RemoveEntities; no callback, no entity, or
    values within [ids] for NewBatch) a batch step leaves an unlocked world unlocked. *)
Theorem step_inv_all_unlocked : forall debug wd s n line o,
  InvAll s n -> n + r2h_created o + 4 < Nat.pow 2 31 -> decode_op line = Some o -> r2h_batch_op o = true ->
  (forall c, In c (r2h_op_ids o) -> c < length (w_reg s)) -> r2h_safe o ->
  is_locked (fst (step debug wd s line)) = is_locked s.
Proof.
  intros debug wd s n line o HI Hn Hd Hb Hreg Hsafe.
  destruct (step_inv_all_batch debug wd s n line o HI Hn Hd Hb Hreg) as (_ & _ & _ & L1 & L0).
  destruct (is_locked s) eqn:Hl.
  - rewrite (L1 eq_refl). exact Hl.
  - destruct (L0 eq_refl) as [E|(_ & Hleak)]; [exact E|]. exfalso. apply (r2h_safe_noleak _ o Hsafe Hleak).
Qed.

(** ** The initial world and all reachable states *)

Definition rel_all_line (reg : list ckind) (line : list Z) : Prop :=
  exists o, decode_op line = Some o /\ rel_all_op o = true /\ (forall c, In c (rel_all_ids o) -> c < length reg) /\
            rel_q_flt_ok reg o.

Lemma r2u_run_inv : forall c, cfg_ok2 c -> forall lines,
  Forall (rel_all_line (sc_kinds c)) lines -> r2h_total lines + 4 < Nat.pow 2 31 ->
  InvAll (Properties.Common.exec c lines) (r2h_total lines) /\ w_reg (Properties.Common.exec c lines) = sc_kinds c.
Proof.
  intros c Hc lines. induction lines as [|l lines IH] using rev_ind; intros HF Hb.
  - split; [apply r2q_init; exact Hc|reflexivity].
  - apply Forall_app in HF. destruct HF as (HF & Hl). inversion Hl as [|? ? (o & Hd & Hco & Hids & Hflt) _]; subst.
    assert (Et : r2h_total (lines ++ [l]) = r2h_total lines + r2h_cost l)
      by (rewrite r2h_total_app; unfold r2h_total at 2; cbn [map list_sum fold_right]; lia).
    rewrite Et in *.
    assert (Hcost : r2h_cost l = S (r2h_created o)) by (unfold r2h_cost; rewrite Hd; reflexivity).
    destruct IH as (IH1 & IH2); [exact HF|lia|].
    unfold Properties.Common.exec in *. rewrite fold_left_app. cbn [fold_left].
    destruct (step_inv_all (sc_debug c) false _ (r2h_total lines) l o IH1) as (S1 & S2 & _); auto; try lia.
    { rewrite IH2. exact Hids. }
    { rewrite IH2. exact Hflt. }
    split; [rewrite Hcost; exact S1|congruence].
Qed.

(** Every state of every history made of operations of the merged class satisfies the invariant. *)
Theorem reachable_inv_all : forall c lines,
  cfg_ok2 c -> Forall (rel_all_line (sc_kinds c)) lines -> r2h_total lines + 4 < Nat.pow 2 31 ->
  InvAll (Properties.Common.exec c lines) (r2h_total lines).
Proof. intros c lines Hc Hl Hb. apply (r2u_run_inv c Hc lines Hl Hb). Qed.

(** The classes of Rel2HistQ and Rel2BatchHist are sub-classes. *)
Lemma rel_q_line_all : forall reg line, rel_q_line reg line -> rel_all_line reg line.
Proof.
  intros reg line (o & Hd & Hop & Hids & Hflt). exists o. split; [exact Hd|]. split; [unfold rel_all_op; rewrite Hop; reflexivity|].
  split; [|exact Hflt]. intros c Hin. unfold rel_all_ids in Hin. apply in_app_or in Hin. destruct Hin as [Hin|Hin]; [apply Hids; exact Hin|].
  assert (E : r2h_op_ids o = []).
  { destruct (r2u_op_cases o) as [(_ & _ & _ & E)|(Hq & _)]; [unfold rel_all_op; rewrite Hop; reflexivity|exact E|congruence]. }
  rewrite E in Hin. destruct Hin.
Qed.

Lemma r2h_line_all : forall reg line, r2h_line (length reg) line -> rel_all_line reg line.
Proof.
  intros reg line [(o & Hd & Hco & Hids)|(o & Hd & Hb & Hids & _)].
  - apply rel_q_line_all. exists o. split; [exact Hd|]. split; [unfold rel_q_op; rewrite Hco; reflexivity|]. split; [exact Hids|].
    destruct o; try discriminate Hco; exact I.
  - exists o. split; [exact Hd|]. split; [unfold rel_all_op; rewrite Hb; apply Bool.orb_true_r|].
    split; [|destruct o; try discriminate Hb; exact I].
    intros c Hin. unfold rel_all_ids in Hin. apply in_app_or in Hin. destruct Hin as [Hin|Hin]; [|apply Hids; exact Hin].
    assert (E : rel_op_ids o = []) by (destruct o; try discriminate Hb; reflexivity). rewrite E in Hin. destruct Hin.
Qed.

(* ================================================================================================ *)
(** * Part 3: corollaries over the merged class *)

(** C04: "an entity's relation target is always the zero entity or an alive entity", in every state reachable by a
    history of the merged class. *)
Theorem targets_always_zero_or_alive_all : forall c lines e cmp x,
  cfg_ok2 c -> Forall (rel_all_line (sc_kinds c)) lines -> r2h_total lines + 4 < Nat.pow 2 31 ->
  tgt (Properties.Common.exec c lines) e cmp = Some x ->
  x = zero_ent \/ live (Properties.Common.exec c lines) x = true.
Proof.
  intros c lines e cmp x Hc Hl Hb H. destruct (reachable_inv_all c lines Hc Hl Hb) as (HS & _).
  apply (r2_St2_targets _ e cmp x HS H).
Qed.

Lemma r2u_exec_log : forall c lines, Forall (rel_all_line (sc_kinds c)) lines -> w_log (Properties.Common.exec c lines) = [].
Proof.
  intros c lines. induction lines as [|l lines IH] using rev_ind; intros HF; [reflexivity|].
  apply Forall_app in HF. destruct HF as (_ & Hl). inversion Hl as [|? ? (o & Hd & _) _]; subst.
  unfold Properties.Common.exec. rewrite fold_left_app. cbn [fold_left]. apply (r2q_step_log _ _ _ _ o Hd).
Qed.

(** C07: in every reachable LOCKED state every structural operation (the five batch operations, Shrink and Reset
    included, whatever its arguments) fails and leaves the state exactly unchanged. *)
Theorem reachable_locked_structural_unchanged_all : forall c lines wd line o,
  Forall (rel_all_line (sc_kinds c)) lines ->
  is_locked (Properties.Common.exec c lines) = true -> decode_op line = Some o -> structural o = true ->
  (exists er, step_op (sc_debug c) o (Properties.Common.exec c lines) = Err er (Properties.Common.exec c lines)) /\
  fst (step (sc_debug c) wd (Properties.Common.exec c lines) line) = Properties.Common.exec c lines.
Proof.
  intros c lines wd line o Hl Hlk Hd Hs.
  apply (locked_structural_step_unchanged (sc_debug c) wd _ line o Hd Hs Hlk (r2u_exec_log c lines Hl)).
Qed.

(** In every UNLOCKED reachable state Reset succeeds. *)
Theorem reachable_unlocked_reset_succeeds_all : forall c lines,
  cfg_ok2 c -> Forall (rel_all_line (sc_kinds c)) lines -> r2h_total lines + 4 < Nat.pow 2 31 ->
  is_locked (Properties.Common.exec c lines) = false ->
  exists s', step_op (sc_debug c) OReset (Properties.Common.exec c lines) = Ok [] s' /\ St2 s' /\ r2d_KeysLive s' /\
    is_locked s' = false /\ (forall e, live s' e = false) /\ w_reg s' = w_reg (Properties.Common.exec c lines).
Proof. intros c lines Hc Hl Hb Hlk. exact (r2q_reset_step (sc_debug c) _ _ (reachable_inv_all c lines Hc Hl Hb) Hlk). Qed.

(** C04: removing a stored target in an unlocked reachable state detaches it. *)
Theorem remove_target_detaches_all : forall c lines h x,
  cfg_ok2 c -> Forall (rel_all_line (sc_kinds c)) lines -> r2h_total lines + 4 < Nat.pow 2 31 ->
  let s := Properties.Common.exec c lines in
  is_locked s = false -> handle s h = Some x -> live s x = true ->
  exists s', step_op (sc_debug c) (ORemoveEntity h) s = Ok [] s' /\ St2 s' /\ live s' x = false /\
    forall e, e <> x -> live s' e = live s e /\ (forall cmp, val s' e cmp = val s e cmp) /\
      (forall cmp, tgt s' e cmp = r2c_detached x (tgt s e cmp)).
Proof.
  intros c lines h x Hc Hl Hb s Hlk Hh Hlx.
  destruct (r2q_Inv2T_of_Q s _ (reachable_inv_all c lines Hc Hl Hb) Hlk) as (HI2 & _).
  destruct (remove_target_detaches_step (sc_debug c) s (r2h_total lines) h x HI2 Hh Hlx) as (s' & E & P1 & _ & P3 & _ & P5).
  exists s'. repeat (split; [assumption|]). exact P5.
Qed.

(** The hypotheses of the cached = uncached theorems of Rel2Cache hold for every filter object of a reachable state. *)
Theorem reachable_filters_ok_all : forall c lines fi f,
  cfg_ok2 c -> Forall (rel_all_line (sc_kinds c)) lines -> r2h_total lines + 4 < Nat.pow 2 31 ->
  nth_error (w_filters (Properties.Common.exec c lines)) fi = Some f ->
  r2k_rels_ok (Properties.Common.exec c lines) (f_mask f) (f_rels f) /\ r2k_tabled (Properties.Common.exec c lines) f.
Proof.
  intros c lines fi f Hc Hl Hb Hf. destruct (reachable_inv_all c lines Hc Hl Hb) as (_ & _ & _ & _ & HT & HF).
  split; [apply (HF fi f Hf)|]. intros aid a Ha _ Hn. apply (HT aid a Ha Hn).
Qed.

(* ================================================================================================ *)
(** * Part 4: non-vacuity *)

Definition rel_all_line_b (reg : list ckind) (line : list Z) : bool :=
  match decode_op line with
  | Some o => (rel_all_op o && forallb (fun c => Nat.ltb c (length reg)) (rel_all_ids o) && rel_q_flt_okb reg o)%bool
  | None => false
  end.

Lemma rel_all_line_b_sound : forall reg lines, forallb (rel_all_line_b reg) lines = true -> Forall (rel_all_line reg) lines.
Proof.
  intros reg lines H. apply Forall_forall. intros l Hl. rewrite forallb_forall in H. specialize (H l Hl).
  unfold rel_all_line_b in H. destruct (decode_op l) as [o|] eqn:E; [|discriminate].
  apply andb_true_iff in H. destruct H as (H12 & H3). apply andb_true_iff in H12. destruct H12 as (H1 & H2).
  exists o. split; [exact E|]. split; [exact H1|]. split; [|apply rel_q_flt_okb_sound; exact H3].
  intros c Hc. rewrite forallb_forall in H2. apply Nat.ltb_lt. apply H2. exact Hc.
Qed.

Local Open Scope Z_scope.

(** components of [r2_cfg]: 0,1,2 plain; 3,4 relation components *)
Definition r2u_script : list (list Z) :=
  [[0]; [0];                              (* handles 0 and 1: two parents *)
   [3; 2; 1];                             (* NewEntities 2, no callback *)
   [30; 2; 2;0;3; 1; 3;0; 1; 0;7];        (* NewBatch 2, components {0,3}, relation 3 -> handle 0, WITH callback: handles 2, 3 *)
   [15; 0; 2;0;3; 0; 0; 1; 3;0];          (* filter 0: components 0 and 3, fixed relation 3 -> handle 0 *)
   [16; 0];                               (* register it: a cache entry *)
   [15; 0; 1;0; 0; 0; 0];                 (* filter 1: component 0 *)
   [19; 0; 0];                            (* open a query on filter 0: the world is LOCKED from here ... *)
   [3; 2; 1];                             (* NewEntities: rejected *)
   [30; 2; 2;0;3; 1; 3;0; 1; 0;7];        (* NewBatch: rejected *)
   [12; 1; 0; 1];                         (* RemoveEntities: rejected *)
   [31; 1; 0; 1;1; 0; 0; 0];              (* ExchangeBatch: rejected *)
   [32; 1; 0; 1;3; 1; 3;1];               (* SetRelationsBatch: rejected *)
   [21; 0];                               (* Close: ... to here *)
   [31; 1; 0; 1;1; 0; 0; 0];              (* ExchangeBatch through filter 1: the batch children get component 1 *)
   [32; 0; 0; 1;3; 1; 3;1];               (* SetRelationsBatch through the CACHED filter 0: relation 3 -> handle 1 *)
   [18; 0; 0];                            (* a complete iteration of filter 0 (now empty: the targets changed) *)
   [12; 1; 0; 1];                         (* RemoveEntities through filter 1, no callback: the children are removed *)
   [11; 0];                               (* the first parent dies *)
   [12; 1; 0];                            (* RemoveEntities WITH callback (not [r2h_safe]; nothing is selected) *)
   [3; 1];                                (* NewEntities 1 with callback: handle 4 (a recycled slot) *)
   [14; 0]; [38]].

Example r2u_script_covered : forallb (rel_all_line_b (sc_kinds Rel2Check.r2_cfg)) r2u_script = true.
Proof. vm_compute. reflexivity. Qed.

(** the script is in NEITHER of the two classes that are merged *)
Example r2u_script_new : forallb (rel_q_line_b (sc_kinds Rel2Check.r2_cfg)) r2u_script = false /\
                         forallb (r2h_line_b 8) r2u_script = false.
Proof. vm_compute. split; reflexivity. Qed.

(** 0 = the step returned normally, 1 = it panicked *)
Example r2u_script_runs :
  Rel2Check.r2_flags Rel2Check.r2_cfg (init_world Rel2Check.r2_cfg) r2u_script =
  [0;0; 0; 0; 0; 0; 0; 0; 1; 1; 1; 1; 1; 0; 0; 0; 0; 0; 0; 0; 0; 0;0].
Proof. vm_compute. reflexivity. Qed.

(** the lock after 0, 1, ... steps: locked after steps 8 to 13 *)
Example r2u_script_locked :
  map (fun k => is_locked (Properties.Common.exec Rel2Check.r2_cfg (firstn k r2u_script))) (seq 0 24) =
  repeat false 8 ++ repeat true 6 ++ repeat false 10.
Proof. vm_compute. reflexivity. Qed.

Lemma r2u_script_lines : Forall (rel_all_line (sc_kinds Rel2Check.r2_cfg)) r2u_script.
Proof. apply rel_all_line_b_sound. exact r2u_script_covered. Qed.

Lemma r2u_firstn_lines : forall k, Forall (rel_all_line (sc_kinds Rel2Check.r2_cfg)) (firstn k r2u_script).
Proof.
  intros k. apply Forall_forall. intros l Hl. pose proof r2u_script_lines as H. rewrite Forall_forall in H.
  apply H. rewrite <- (firstn_skipn k r2u_script). apply in_or_app. left. exact Hl.
Qed.

Example r2u_script_inv : InvAll (Properties.Common.exec Rel2Check.r2_cfg r2u_script) (r2h_total r2u_script).
Proof.
  apply reachable_inv_all; [exact r2q_cfg_ok|exact r2u_script_lines|].
  apply r2_N_small. vm_compute. reflexivity.
Qed.

(** The state after 10 steps: batch-created children with a live relation target, a registered filter with its cache
    entry, an open query, the world LOCKED (two batch calls already rejected); the invariant holds and every
    structural call (batch operations included) leaves the state exactly as it is. *)
Definition r2u_mid : W := Properties.Common.exec Rel2Check.r2_cfg (firstn 10 r2u_script).

Example r2u_mid_inv : InvAll r2u_mid (r2h_total (firstn 10 r2u_script)).
Proof.
  apply (reachable_inv_all Rel2Check.r2_cfg (firstn 10 r2u_script) r2q_cfg_ok (r2u_firstn_lines 10)).
  apply r2_N_small. vm_compute. reflexivity.
Qed.

Example r2u_mid_shape :
  is_locked r2u_mid = true /\ length (w_centries r2u_mid) = 1%nat /\
  w_issued r2u_mid = [(2%nat, 0%N); (3%nat, 0%N); (6%nat, 0%N); (7%nat, 0%N)] /\
  tgt r2u_mid (6%nat, 0%N) 3 = Some (2%nat, 0%N) /\ live r2u_mid (2%nat, 0%N) = true.
Proof. vm_compute. repeat split; reflexivity. Qed.

Example r2u_mid_blocked : forall wd line o, decode_op line = Some o -> structural o = true ->
  (exists er, step_op false o r2u_mid = Err er r2u_mid) /\ fst (step false wd r2u_mid line) = r2u_mid.
Proof.
  intros wd line o Hd Hs.
  apply (reachable_locked_structural_unchanged_all Rel2Check.r2_cfg (firstn 10 r2u_script) wd line o (r2u_firstn_lines 10)); auto.
Qed.

(** what the batch operations did after the window: the children got component 1 (ExchangeBatch) and the second
    parent as target (SetRelationsBatch through the cached filter) *)
Example r2u_script_effect :
  val (Properties.Common.exec Rel2Check.r2_cfg (firstn 15 r2u_script)) (6%nat, 0%N) 1 = Some 0 /\
  tgt (Properties.Common.exec Rel2Check.r2_cfg (firstn 16 r2u_script)) (6%nat, 0%N) 3 = Some (3%nat, 0%N) /\
  live (Properties.Common.exec Rel2Check.r2_cfg (firstn 18 r2u_script)) (6%nat, 0%N) = false /\
  w_issued (Properties.Common.exec Rel2Check.r2_cfg r2u_script) = [(2%nat, 0%N); (3%nat, 0%N); (6%nat, 0%N); (7%nat, 0%N); (2%nat, 1%N)].
Proof. vm_compute. repeat split; reflexivity. Qed.

Example r2u_end_reset : exists s', step_op false OReset (Properties.Common.exec Rel2Check.r2_cfg r2u_script) = Ok [] s' /\ St2 s'.
Proof.
  destruct (reachable_unlocked_reset_succeeds_all Rel2Check.r2_cfg r2u_script r2q_cfg_ok r2u_script_lines) as (s' & E & HS & _).
  - apply r2_N_small. vm_compute. reflexivity.
  - vm_compute. reflexivity.
  - exists s'. split; assumption.
Qed.

(** ** A lock leak inside the class: [InvAll] survives, the world stays locked with no open query

    NewBatch WITH a callback and a value for a component outside [ids] ([r2h_leak_newbatch]; not [r2h_safe]): the
    callback of the first new entity panics and the lock bit stays taken. The line is in the class; the invariant
    holds afterwards ([step_inv_all] has no [r2h_safe] hypothesis) but the world is locked although no query is open, so
    the bookkeeping clause [LQ] of Rel2HistQL is lost: [r2h_safe] is exactly what [step_inv_all_unlocked] needs. *)
Definition r2u_leak_script : list (list Z) := [[0]; [30; 1; 1;0; 0; 1; 1;5]; [0]].

Example r2u_leak_inv :
  forallb (rel_all_line_b (sc_kinds Rel2Check.r2_cfg)) r2u_leak_script = true /\
  InvAll (Properties.Common.exec Rel2Check.r2_cfg r2u_leak_script) (r2h_total r2u_leak_script) /\
  is_locked (Properties.Common.exec Rel2Check.r2_cfg r2u_leak_script) = true /\
  w_queries (Properties.Common.exec Rel2Check.r2_cfg r2u_leak_script) = [] /\
  ~ LQ (Properties.Common.exec Rel2Check.r2_cfg r2u_leak_script).
Proof.
  assert (Hc : forallb (rel_all_line_b (sc_kinds Rel2Check.r2_cfg)) r2u_leak_script = true) by (vm_compute; reflexivity).
  assert (Hl : is_locked (Properties.Common.exec Rel2Check.r2_cfg r2u_leak_script) = true) by (vm_compute; reflexivity).
  assert (Hq : w_queries (Properties.Common.exec Rel2Check.r2_cfg r2u_leak_script) = []) by (vm_compute; reflexivity).
  split; [exact Hc|]. split.
  { apply reachable_inv_all; [exact r2q_cfg_ok|apply rel_all_line_b_sound; exact Hc|]. apply r2_N_small. vm_compute. reflexivity. }
  split; [exact Hl|]. split; [exact Hq|].
  intros HLQ. apply (r2l_LQ_locked_iff _ HLQ) in Hl. destruct Hl as (qi & q & Hn & _). rewrite Hq in Hn. destruct qi; discriminate.
Qed.

Local Close Scope Z_scope.

(** ** Assumption audit (stage 1) *)
Definition r2u_all_1 :=
  (r2u_frp_step_op, step_inv_all_batch, step_inv_all, step_inv_all_unlocked, reachable_inv_all, rel_q_line_all, r2h_line_all,
   targets_always_zero_or_alive_all, reachable_locked_structural_unchanged_all, reachable_unlocked_reset_succeeds_all,
   remove_target_detaches_all, reachable_filters_ok_all,
   r2u_script_inv, r2u_script_new, r2u_mid_inv, r2u_mid_shape, r2u_mid_blocked, r2u_script_effect, r2u_end_reset, r2u_leak_inv).
Print Assumptions r2u_all_1.
