(** * Rel2HistO: work package O of the relation tier: the relation invariant over histories WITH OBSERVERS.
    Helper prefix [r2o_].

    Rel2Hist ([Inv2]) and Rel2HistQ ([Inv2Q]) prove the relation-tier invariant over histories of worlds without
    observers: both invariants contain [r2e_noobs], and their classes exclude the observer operations. Here the
    class is

      [rel_o_op o := rel_q_op o || (OObsNew | OObsRegister | OObsUnregister | OEmit)]

    with ARBITRARY arguments and ANY callback kind [o_cb] (passive, self-unregistering, unregistering another
    observer), and the invariant is [Inv2Q] WITHOUT the clause [r2e_noobs]:

      [Inv2O s n := St2 s /\ r2d_KeysLive s /\ issued_ok s n /\ archs_tabled_norel s /\ r2q_filters_ok s].

    NO invariant of the observer manager and NO invariant of the lock is needed: none of the clauses reads the
    observer side state, the lock or the query objects, and the proof never needs a callback to succeed.

    Method (ObsErase.v): ERASURE. [oe_E s] is [s] without observers, with an empty log and a fresh lock; [Inv2O s n]
    is [Inv2Q (oe_E s) n] ([r2o_Inv2O_iff]). Every operation of the class is related to its run on the erased world:
    - a structural operation of [rel_core_op] on an unlocked world ([oe_step_op]): same result on the erased world,
      or the real run failed where the erased one fails, or it failed INSIDE A CALLBACK. A callback can fail
      ([lockM] with all 64 lock bits taken, [remove_observer] on an inconsistent observer object, ...); the storage
      at that point is: the final storage of the erased run (callbacks after the storage part: creation, Add,
      the OnAddRelations half of SetRelations), the initial storage (RemoveEntity: callbacks run first), or the
      storage after the table lookup / creation (Remove, Exchange, SetRelations: the removal events are fired
      BETWEEN finding the destination table and moving the entity; the lock bit taken around them is then never
      released). In each case the invariant holds ([r2o_cut_trans]): nothing is refuted.
    - Write, filter creation, Register, Unregister commute with the erasure ([oe_hom_step_op]);
    - the observer operations (New, Register, Unregister, Emit) change nothing but the side state ([oe_sp_obs_op]),
      the query operations nothing but query objects and lock ([r2q_fr_step_op]), the reads nothing; a structural
      operation on a locked world is rejected ([structural_blocked]).

    Main results: [step_inv2O] (one step of a decoded line, BOTH outcomes), [r2o_init], [reachable_inv2O];
    corollaries [targets_always_zero_or_alive_O], [remove_target_detaches_O] (with observers the removal may be
    stopped by a callback, then nothing changed), [reachable_locked_structural_unchanged_O],
    [reachable_unlocked_reset_succeeds_O]; non-vacuity [r2o_script] (Part 6). *)
From Ark Require Import Model.Base Model.Mask Model.Pool Model.Util Model.World Model.Run.
From Ark Require Import Proofs.TableProofs Proofs.MaskProofs Proofs.Hoare Proofs.WF Proofs.StorageA Proofs.StorageBDefs
  Proofs.StorageB_sb1 Proofs.StorageB_sb2 Proofs.StorageB_sb3 Proofs.LockWorld Proofs.StorageC Proofs.RelProofs
  Proofs.CacheProofs Proofs.QueryProofs Proofs.ResetShrinkProofs
  Proofs.Rel2Defs Proofs.Rel2Struct Proofs.Rel2Remove Proofs.Rel2SetRel Proofs.Rel2Ops Proofs.Rel2Maint Proofs.Rel2Hist
  Proofs.Rel2Cache Proofs.Rel2HistQ Proofs.ObsErase.
From Ark Require Properties.Common Proofs.Rel2Check Proofs.StorageD.
From RecordUpdate Require Import RecordSet.
Import RecordSetNotations.
From Coq Require Import Lia.
Close Scope Z_scope.

(* ================================================================================================ *)
(** * Part 1: the invariant, and its reading through the erasure *)

Definition Inv2O (s : W) (n : nat) : Prop :=
  St2 s /\ r2d_KeysLive s /\ issued_ok s n /\ archs_tabled_norel s /\ r2q_filters_ok s.

(** the invariant only reads the storage *)
Lemma r2o_fields_ext : forall s s', oe_E s' = oe_E s ->
  w_cfg s' = w_cfg s /\ w_reg s' = w_reg s /\ w_pool s' = w_pool s /\ w_index s' = w_index s /\
  w_istarget s' = w_istarget s /\ w_archs s' = w_archs s /\ w_tables s' = w_tables s /\ w_relarchs s' = w_relarchs s /\
  w_compindex s' = w_compindex s /\ w_archcount s' = w_archcount s /\ w_cheap s' = w_cheap s /\
  w_centries s' = w_centries s /\ w_filters s' = w_filters s /\ w_issued s' = w_issued s.
Proof.
  intros s s' E.
  assert (P : forall A (f : W -> A), (forall x, f (oe_E x) = f x) -> f s' = f s).
  { intros A f Hf. rewrite <- (Hf s'), <- (Hf s), E. reflexivity. }
  repeat split; apply P; reflexivity.
Qed.

Lemma r2o_core_ext : forall s s' n, oe_E s' = oe_E s -> St2 s -> r2d_KeysLive s -> issued_ok s n ->
  St2 s' /\ r2d_KeysLive s' /\ issued_ok s' n /\ w_reg s' = w_reg s /\ w_issued s' = w_issued s /\ (forall x, live s' x = live s x).
Proof.
  intros s s' n E H1 H2 H3.
  destruct (r2o_fields_ext s s' E) as (E1 & E2 & E3 & E4 & E5 & E6 & E7 & E8 & E9 & E10 & E11 & E12 & E13 & E14).
  assert (HL : forall x, live s' x = live s x) by (apply r2_live_ext; assumption).
  split; [apply (r2e_St2_ext s s'); assumption|].
  split; [apply (r2d_KeysLive_mono s s' H2 E6); intros x Hx; rewrite HL; exact Hx|].
  split; [apply (r2e_issued_ok_ext s s' n E3 HL); [intros x Hx; left; rewrite <- E14; exact Hx|exact H3]|].
  split; [exact E2|]. split; [exact E14|exact HL].
Qed.

Lemma r2o_Inv2O_ext : forall s s' n, oe_E s' = oe_E s -> Inv2O s n -> Inv2O s' n.
Proof.
  intros s s' n E (H1 & H2 & H3 & H4 & H5).
  destruct (r2o_fields_ext s s' E) as (E1 & E2 & E3 & E4 & E5 & E6 & E7 & E8 & E9 & E10 & E11 & E12 & E13 & E14).
  destruct (r2o_core_ext s s' n E H1 H2 H3) as (A & B & C & _).
  split; [exact A|]. split; [exact B|]. split; [exact C|].
  split; [apply (r2q_tabled_ext s s' E6 H4)|apply (r2q_filters_ok_ext s s' E2 E13 H5)].
Qed.

Lemma r2o_Inv2O_E : forall s n, Inv2O s n -> Inv2O (oe_E s) n.
Proof. intros s n H. apply (r2o_Inv2O_ext s (oe_E s) n); [apply oe_E_idem|exact H]. Qed.

Lemma r2o_Inv2O_unE : forall s n, Inv2O (oe_E s) n -> Inv2O s n.
Proof. intros s n H. apply (r2o_Inv2O_ext (oe_E s) s n); [symmetry; apply oe_E_idem|exact H]. Qed.

Lemma r2o_Q_of_O : forall s n, Inv2O s n -> r2e_noobs s -> Inv2Q s n.
Proof. intros s n (H1 & H2 & H3 & H4 & H5) Hn. repeat (split; [assumption|]). assumption. Qed.

Lemma r2o_O_of_Q : forall s n, Inv2Q s n -> Inv2O s n.
Proof. intros s n (H1 & H2 & _ & H3 & H4 & H5). repeat (split; [assumption|]). assumption. Qed.

(** [Inv2O] is [Inv2Q] of the erased world. *)
Theorem r2o_Inv2O_iff : forall s n, Inv2O s n <-> Inv2Q (oe_E s) n.
Proof.
  intros s n. split.
  - intros H. apply r2o_Q_of_O; [apply r2o_Inv2O_E; exact H|]. intros ev. apply oe_E_noobs.
  - intros H. apply r2o_Inv2O_unE. apply r2o_O_of_Q. exact H.
Qed.

Lemma r2o_Inv2_E : forall s n, Inv2O s n -> Inv2 (oe_E s) n.
Proof.
  intros s n H. apply r2o_Inv2O_iff in H. apply (r2q_Inv2T_of_Q _ _ H (oe_E_unlocked s)).
Qed.

Lemma r2o_Inv2O_mono : forall s n m, n <= m -> Inv2O s n -> Inv2O s m.
Proof.
  intros s n m Hnm (H1 & H2 & H3 & H4 & H5). split; [exact H1|]. split; [exact H2|].
  split; [apply (r2q_issued_ok_mono s n m Hnm H3)|]. split; assumption.
Qed.

Lemma r2o_Inv2O_log : forall s n l, Inv2O s n -> Inv2O (s <| w_log := l |>) n.
Proof. intros s n l H. apply (r2o_Inv2O_ext s _ n); [reflexivity|exact H]. Qed.

(* ================================================================================================ *)
(** * Part 2: the states at which a removal callback may stop Remove / Exchange / SetRelations

    The removal events are fired after the destination table was found (or created) and before the
    entity is moved. The storage at that point is the final state of the truncated computations
    [oe_pre_remove] / [oe_pre_exchange] / [oe_pre_setrel] on the erased world; it satisfies everything one
    step of the class may do to an [Inv2] state ([r2e_trans]). *)

Lemma r2o_fkp_pre_remove : forall e rem, r2e_fkp (oe_pre_remove e rem).
Proof. intros. unfold oe_pre_remove. r2e_fk_tac. all: first [apply r2e_fkp_find_remove|apply r2e_fkp_arch_mask]. Qed.
Lemma r2o_fkp_pre_exchange : forall e add rem rels, r2e_fkp (oe_pre_exchange e add rem rels).
Proof. intros. unfold oe_pre_exchange. r2e_fk_tac. all: first [apply r2e_fkp_find_exchange|apply r2e_fkp_arch_mask]. Qed.
Lemma r2o_fkp_pre_setrel : forall e rels, r2e_fkp (oe_pre_setrel e rels).
Proof.
  intros. unfold oe_pre_setrel. r2e_fk_tac.
  all: first [apply r2e_fkp_ro, r2e_ro_exchange_targets|apply r2e_fkp_goc].
Qed.

Lemma r2o_same_pre_remove : forall u e rem, St2 u -> room u -> r2e_same u (state_of (oe_pre_remove e rem u)).
Proof.
  intros u e rem HS Hroom. pose proof HS as (HW & _). unfold oe_pre_remove.
  apply (r2e_prefix (r2e_same u) _ (negb (is_nil rem))
           (fun otid row om => r <- find_or_create_table_remove otid rem om ;; ret tt) u e HW (r2e_same_refl u HS)).
  intros otid row ot oa HG Hlk Hlive Hloc Hot Hoa.
  destruct (r2a_after_finder u u e otid row ot oa HS HS (r2a_keeps_refl u) Hroom Hlive Hloc Hot Hoa) as (Hfo & _).
  pose proof (r2a_find_remove u otid ot oa rem HS Hot Hfo Hoa) as Hf.
  destruct (find_or_create_table_remove otid rem (a_mask oa) u) as [[[[ntid naid] m] rr] s1|er s1] eqn:Ef.
  - rewrite (sa_bind_ok Ef). cbn [ret state_of]. destruct Hf as ((HS1 & K & _) & _). apply (r2e_same_keeps u s1 HS HS1 K).
  - rewrite (sa_bind_err Ef). cbn [state_of]. destruct Hf as (-> & _). apply (r2e_same_refl u HS).
Qed.

Lemma r2o_same_pre_exchange : forall u e add rem (rels : list rel), St2 u -> room u -> registered u add ->
  (forall r, In r rels -> r2b_handle_ok u (snd r)) ->
  r2e_same u (state_of (oe_pre_exchange e add rem rels u)).
Proof.
  intros u e add rem rels HS Hroom Hreg Hrels. pose proof HS as (HW & _). unfold oe_pre_exchange.
  apply (r2e_prefix (r2e_same u) _ (negb (is_nil add && is_nil rem))
           (fun otid row om => r <- find_or_create_table otid add rem rels om ;; ret tt) u e HW (r2e_same_refl u HS)).
  intros otid row ot oa HG Hlk Hlive Hloc Hot Hoa.
  destruct (r2a_after_finder u u e otid row ot oa HS HS (r2a_keeps_refl u) Hroom Hlive Hloc Hot Hoa) as (Hfo & _).
  pose proof (r2e_find_exchange u otid ot oa add rem rels HS Hot Hfo Hoa Hreg Hrels) as Hf.
  destruct (find_or_create_table otid add rem rels (a_mask oa) u) as [[[[ntid naid] m] rr] s1|er s1] eqn:Ef.
  - rewrite (sa_bind_ok Ef). cbn [ret state_of]. destruct Hf as ((HS1 & K & _) & _). apply (r2e_same_keeps u s1 HS HS1 K).
  - rewrite (sa_bind_err Ef). cbn [state_of]. destruct Hf as (F1 & F2). apply (r2e_same_keeps u s1 HS F1 F2).
Qed.

Lemma r2o_same_pre_setrel : forall u e (rels : list rel), St2 u -> (forall r, In r rels -> r2b_handle_ok u (snd r)) ->
  r2e_same u (state_of (oe_pre_setrel e rels u)).
Proof.
  intros s e rels HS Hhok. pose proof HS as (HW & (HR & HT) & HC). unfold oe_pre_setrel.
  assert (R : r2e_same s s) by (apply (r2e_same_refl s HS)).
  destruct (is_locked s) eqn:Hlk.
  { rewrite (sa_bind_err (sb2_check_locked_err s Hlk)). exact R. }
  rewrite (sa_bind_ok (sb2_check_locked_ok s Hlk)). rewrite sb2_bind_get.
  destruct (alive s e) eqn:Ha; [|rewrite sb2_bind_guard_false; exact R]. rewrite sb2_bind_guard_true.
  destruct (negb (is_nil rels)) eqn:HG; [|rewrite sb2_bind_guard_false; exact R]. rewrite sb2_bind_guard_true.
  destruct (nth_error (w_index s) (fst e)) as [[[otid|] row]|] eqn:Hi.
  2:{ rewrite (sa_bind_err (sb2_get_index_err s e ltac:(intros t r Hc; rewrite Hi in Hc; discriminate))). exact R. }
  2:{ rewrite (sa_bind_err (sb2_get_index_err s e ltac:(intros t r Hc; rewrite Hi in Hc; discriminate))). exact R. }
  rewrite (sa_bind_ok (sb2_get_index_ok s e otid row Hi)). cbv beta iota.
  destruct (sb3_alive_index_live _ _ _ _ HW Ha Hi) as (ot & Hot & Hrow & Hent).
  rewrite (sa_bind_ok (sa_getT_eq _ _ _ Hot)).
  destruct (wf_layout _ HW otid ot Hot) as (a & Hat & Lids & Lk & Ltg).
  pose proof (r2_comps_nodup s _ a HW Hat) as NDc. assert (ND : NoDup (t_ids ot)) by (rewrite Lids; exact NDc).
  assert (Lkl : length (t_kinds ot) = length (t_ids ot)) by (rewrite Lk; apply map_length).
  assert (Hfo : t_free ot = false).
  { destruct (t_free ot) eqn:Ef; [|reflexivity]. pose proof (r2c_free_len0 _ s otid ot HR Hot Ef). lia. }
  assert (Hkind : forall c i, tbl_colidx ot c = Some i -> nth i (t_kinds ot) (Build_ckind false false true) = kind_of s c).
  { intros c i Ei. pose proof (rl_index_of_some _ _ _ Ei) as Hci. apply nth_error_nth. rewrite Lk, nth_error_map, Hci. reflexivity. }
  pose proof (exchange_targets_spec s ot rels Ltg Lkl ND) as XS.
  pose proof (fun r1 s1 => exchange_targets_ok_valid s ot rels r1 s1 ND Ltg) as XV.
  destruct (exchange_targets ot rels s) as [[[newrels cm]|] s0|er s0] eqn:EX.
  - destruct XS as (-> & _). destruct (XV _ _ eq_refl) as (Hnd & Hcolrel). rewrite (sa_bind_ok EX). cbv beta iota.
    assert (Hrelc : forall r, In r rels -> is_rel_comp s (fst r) = true).
    { intros r Hr. destruct (Hcolrel r Hr) as (i & Ei & Ek). rewrite (Hkind _ _ Ei) in Ek. rewrite r2_is_rel_comp_kind. exact Ek. }
    destruct (r2b_newrels s otid ot a rels newrels cm HS Hot Hfo Hat Hnd Hrelc EX) as (HVimp & Hchar & Hdiff).
    destruct (existsb (r2b_deadb s) rels) eqn:Edead.
    + apply existsb_exists in Edead. destruct Edead as ([c x] & Hr & Hd). unfold r2b_deadb in Hd. cbn [snd] in Hd.
      apply andb_true_iff in Hd. destruct Hd as (Hd1 & Hd2). apply negb_true_iff in Hd1, Hd2. apply Nat.eqb_neq in Hd1.
      destruct (Hcolrel (c, x) Hr) as (i & Ei & Ek). cbn [fst] in Ei, Ek.
      pose proof (rl_index_of_some _ _ _ Ei) as Hci. rewrite Lids in Hci.
      assert (Hrc : r2_relcol a i).
      { destruct (r2_kinds_isrel s _ a HW Hat) as (HK & _). unfold r2_relcol. rewrite (HK i (kind_of s c)); [|rewrite nth_error_map, Hci; reflexivity].
        rewrite <- (Hkind c i Ei), Ek. reflexivity. }
      assert (Hinn : In (c, x) newrels).
      { apply Hchar. exists i. split; [exact Hci|]. split; [exact Hrc|]. rewrite (r2b_assigned_in rels c x Hnd Hr). reflexivity. }
      destruct (r2b_goc_dead s (t_arch ot) a newrels c x i HS Hat Hinn Hci Hrc Hd1 Hd2) as (er & Eg).
      rewrite (sa_bind_err Eg). exact R.
    + assert (Htok : forall r, In r rels -> snd r = zero_ent \/ live s (snd r) = true).
      { intros r Hr. destruct (Hhok r Hr) as [Hz|[Hl|(H1 & H2)]]; [left; exact Hz|right; exact Hl|]. exfalso.
        assert (Hc : existsb (r2b_deadb s) rels = true).
        { apply existsb_exists. exists r. split; [exact Hr|]. unfold r2b_deadb. rewrite H2. apply Nat.eqb_neq in H1. rewrite H1. reflexivity. }
        congruence. }
      destruct (HVimp Htok) as (_ & _ & _ & V4).
      pose proof (r2e_goc_any s (t_arch ot) a newrels HS Hat) as Hg.
      destruct (get_or_create_table (t_arch ot) newrels s) as [ntid s1|er s1] eqn:Eg.
      * rewrite (sa_bind_ok Eg). cbn [ret state_of]. destruct Hg as (HS1 & K & _).
        { intros r Hr. destruct (V4 r Hr) as [Hz|Hl]; [left; exact Hz|right; left; exact Hl]. }
        apply (r2e_same_keeps s s1 HS HS1 K).
      * rewrite (sa_bind_err Eg). cbn [state_of]. rewrite Hg; [exact R|].
        intros r Hr. destruct (V4 r Hr) as [Hz|Hl]; [left; exact Hz|right; left; exact Hl].
  - destruct XS as (-> & _). rewrite (sa_bind_ok EX). exact R.
  - destruct XS as (-> & _). rewrite (sa_bind_err EX). exact R.
Qed.

Lemma r2o_resolved : forall s hrels rels, oe_resolved s hrels rels -> r2e_resolved (oe_E s) hrels rels.
Proof.
  intros s hrels rels (s' & E). destruct (r2e_resolveR hrels s) as [(rels0 & E0 & HR)|(er & E0)]; rewrite E0 in E; [|discriminate E].
  injection E as <- _. exact HR.
Qed.

(** every cut state is one step of the class away from the erased initial state *)
Lemma r2o_cut_remove : forall u n e ids, Inv2 u n -> n + 4 < Nat.pow 2 31 -> r2e_trans u (state_of (oe_pre_remove e ids u)).
Proof.
  intros u n e ids HI Hn. pose proof HI as (HS & _). pose proof (r2e_room u n HI Hn) as Hroom.
  destruct (r2o_same_pre_remove u e ids HS Hroom) as (HS1 & HL).
  apply (r2e_trans_fk u _ n HI HS1 (r2o_fkp_pre_remove e ids u)). intros x Hx. rewrite HL. exact Hx.
Qed.

Lemma r2o_cut_exchange : forall u n e add rem hrels rels, Inv2 u n -> n + 4 < Nat.pow 2 31 -> registered u add ->
  r2e_resolved u hrels rels -> r2e_trans u (state_of (oe_pre_exchange e add rem rels u)).
Proof.
  intros u n e add rem hrels rels HI Hn Hreg HR. pose proof HI as (HS & _ & _ & Hiss). pose proof HS as (HW & _).
  pose proof (r2e_room u n HI Hn) as Hroom.
  destruct (r2o_same_pre_exchange u e add rem rels HS Hroom Hreg
              (fun r Hr => proj1 (r2e_resolved_ok u n hrels rels HW Hiss HR r Hr))) as (HS1 & HL).
  apply (r2e_trans_fk u _ n HI HS1 (r2o_fkp_pre_exchange e add rem rels u)). intros x Hx. rewrite HL. exact Hx.
Qed.

Lemma r2o_cut_setrel : forall u n e hrels rels, Inv2 u n -> r2e_resolved u hrels rels ->
  r2e_trans u (state_of (oe_pre_setrel e rels u)).
Proof.
  intros u n e hrels rels HI HR. pose proof HI as (HS & _ & _ & Hiss). pose proof HS as (HW & _).
  destruct (r2o_same_pre_setrel u e rels HS (fun r Hr => proj1 (r2e_resolved_ok u n hrels rels HW Hiss HR r Hr))) as (HS1 & HL).
  apply (r2e_trans_fk u _ n HI HS1 (r2o_fkp_pre_setrel e rels u)). intros x Hx. rewrite HL. exact Hx.
Qed.

Theorem r2o_cut_trans : forall o s n v, Inv2 (oe_E s) n -> n + 4 < Nat.pow 2 31 -> registered (oe_E s) (rel_op_ids o) ->
  oe_cut o s v -> r2e_trans (oe_E s) v.
Proof.
  intros o s n v HI Hn Hreg Hv.
  destruct o; cbn [oe_cut] in Hv; try (destruct Hv; fail).
  - destruct Hv as (e & Hh & ->). apply (r2o_cut_remove _ n); assumption.
  - destruct Hv as (e & rl & Hh & HR & ->). apply r2o_resolved in HR. apply (r2o_cut_exchange _ n _ _ _ _ _ HI Hn Hreg HR).
  - destruct Hv as (e & rl & Hh & HR & ->). apply r2o_resolved in HR. apply (r2o_cut_setrel _ n _ _ _ HI HR).
  - subst v. apply (r2e_trans_refl _ n HI).
Qed.

(* ================================================================================================ *)
(** * Part 3: a structural operation on an unlocked world with observers *)

Lemma r2o_struct_core : forall o, oe_struct_op o = true -> rel_core_op o = true.
Proof. intros o H. destruct o; try discriminate H; reflexivity. Qed.
Lemma r2o_struct_structural : forall o, oe_struct_op o = true -> structural o = true.
Proof. intros o H. destruct o; try discriminate H; reflexivity. Qed.

(** What one structural step may do, read through the erasure: the description [r2e_post] of Rel2Hist holds
    between the erased initial state and the ERASED result of the REAL run - whether the real run returns,
    fails where the erased run fails, or is stopped by a callback. *)
Theorem r2o_post : forall debug s n o, Inv2O s n -> n + 4 < Nat.pow 2 31 -> oe_struct_op o = true ->
  is_locked s = false -> registered s (rel_op_ids o) ->
  r2e_post (returns_entity o) (oe_E s) (oe_rmap (step_op debug o s)).
Proof.
  intros debug s n o HIO Hn Hs Hl Hreg. pose proof (r2o_Inv2_E s n HIO) as HI.
  pose proof (r2e_op_spec debug (oe_E s) n o HI Hn (r2o_struct_core o Hs) Hreg) as HP.
  pose proof (oe_step_op debug o s Hs Hl) as J. unfold oe_J, oe_res in J.
  destruct (step_op debug o s) as [a s1|er s1]; cbn [oe_rmap].
  - rewrite <- J. exact HP.
  - apply r2e_post_err. destruct J as [J|J].
    + rewrite J. exact (proj1 HP).
    + apply (r2o_cut_trans o s n _ HI Hn Hreg J).
Qed.

(* ================================================================================================ *)
(** * Part 4: one step of the operation language, all histories *)

Lemma r2o_issue_E : forall o (r : res W (list Z)), oe_E (sc_issue o r) = sc_issue o (oe_rmap r).
Proof.
  intros o r. unfold sc_issue. destruct r as [[|i [|g rest]] s1|er s1]; cbn [oe_rmap state_of]; try reflexivity.
  destruct (returns_entity o); reflexivity.
Qed.

(** the end of the proof of [step_inv2], for any description [r2e_post] *)
Lemma r2o_finish_post : forall o u n re, Inv2 u n -> n + 4 < Nat.pow 2 31 -> r2e_post (returns_entity o) u re ->
  Inv2 (sc_issue o re <| w_log := [] |>) (S n) /\ w_reg (sc_issue o re <| w_log := [] |>) = w_reg u /\
  (w_issued (sc_issue o re <| w_log := [] |>) = w_issued u \/
   exists e, w_issued (sc_issue o re <| w_log := [] |>) = w_issued u ++ [e] /\
             live (sc_issue o re <| w_log := [] |>) e = true /\ live u e = false).
Proof.
  intros o u n re HI Hn HP. pose proof HP as (T & _).
  pose proof (r2e_trans_issued u _ n (proj1 (proj1 HI)) (proj2 (proj2 (proj2 HI))) Hn T) as HIs.
  destruct T as (T1 & T2 & T3 & T4 & T5 & T6).
  destruct (r2e_issue_cases o u _ HP) as [E|(e & s1 & Er & E & Hl0 & Hl & Ha)]; rewrite E.
  - split; [apply r2e_finish_plain; assumption|]. split; [exact T4|]. left. exact T5.
  - rewrite Er in *. cbn [state_of] in *. split; [apply r2e_finish_issue; assumption|]. split; [exact T4|].
    right. exists e. split; [cbn; rewrite T5; reflexivity|]. split; [exact Hl|exact Hl0].
Qed.

(** [archs_tabled_norel] across a step of the core class: the frame of Rel2Hist (Part 9), which holds for every
    state and both outcomes, callbacks included *)
Lemma r2o_step_tabled : forall debug wd s line o, St2 s -> St2 (fst (step debug wd s line)) ->
  decode_op line = Some o -> rel_core_op o = true -> archs_tabled_norel s -> archs_tabled_norel (fst (step debug wd s line)).
Proof.
  intros debug wd s line o HS HS' Hd Hc HT.
  apply (r2e_tabled_iff _ HS'). apply (r2e_tabled_iff s HS) in HT.
  refine (r2e_hk_H s _ _ HT).
  rewrite (r2e_step_state debug wd s line o Hd Hc).
  set (s0 := s <| w_log := [] |>).
  assert (H0 : r2e_hk s s0) by (apply r2e_hk_same; reflexivity).
  apply (r2e_hk_trans s s0 _ H0).
  pose proof (r2e_hkp_step_op debug o Hc s0) as H1.
  apply (r2e_hk_ext s0 _ _ H1); [|].
  - unfold sc_issue. destruct (step_op debug o s0) as [[|i [|g rest]] s1|er s1]; try reflexivity. destruct (returns_entity o); reflexivity.
  - unfold sc_issue. destruct (step_op debug o s0) as [[|i [|g rest]] s1|er s1]; try reflexivity. destruct (returns_entity o); reflexivity.
Qed.

Definition r2o_step_goal (s s' : W) (n : nat) : Prop :=
  Inv2O s' (S n) /\ w_reg s' = w_reg s /\
  (w_issued s' = w_issued s \/ exists e, w_issued s' = w_issued s ++ [e] /\ live s' e = true /\ live s e = false).

(** a structural operation of the core class, on an unlocked world *)
Lemma r2o_step_struct_unlocked : forall debug wd s n line o,
  Inv2O s n -> n + 4 < Nat.pow 2 31 -> decode_op line = Some o -> oe_struct_op o = true -> is_locked s = false ->
  (forall c, In c (rel_op_ids o) -> c < length (w_reg s)) ->
  r2o_step_goal s (fst (step debug wd s line)) n.
Proof.
  intros debug wd s n line o HIO Hn Hd Hs Hl Hreg. pose proof (r2o_struct_core o Hs) as Hc.
  pose proof HIO as (HS & _ & _ & HT & HF).
  set (s' := fst (step debug wd s line)).
  assert (Es' : s' = sc_issue o (step_op debug o (s <| w_log := [] |>)) <| w_log := [] |>)
    by (apply (r2e_step_state debug wd s line o Hd Hc)).
  set (s0 := s <| w_log := [] |>) in *.
  pose proof (r2o_Inv2O_log s n [] HIO) as HI0. fold s0 in HI0.
  pose proof (r2o_post debug s0 n o HI0 Hn Hs Hl Hreg) as HP.
  destruct (r2o_finish_post o (oe_E s0) n _ (r2o_Inv2_E s0 n HI0) Hn HP) as ((X1 & X2 & _ & X4) & XR & XI).
  set (x := sc_issue o (oe_rmap (step_op debug o s0)) <| w_log := [] |>) in *.
  assert (Ex : oe_E s' = oe_E x).
  { rewrite Es'. unfold x. rewrite <- r2o_issue_E. reflexivity. }
  destruct (r2o_core_ext x s' (S n) Ex X1 X2 X4) as (A & B & C & D1 & D2 & D3).
  assert (HT' : archs_tabled_norel s') by (apply (r2o_step_tabled debug wd s line o HS A Hd Hc HT)).
  destruct (r2q_uq_step debug wd s line o Hd Hc) as (U1 & _). fold s' in U1.
  assert (Hreg' : w_reg s' = w_reg s) by (rewrite D1, XR; reflexivity).
  split; [|split; [exact Hreg'|]].
  - split; [exact A|]. split; [exact B|]. split; [exact C|]. split; [exact HT'|].
    apply (r2q_filters_ok_ext s s' Hreg' U1 HF).
  - destruct XI as [XI|(e & XI & L1 & L2)].
    + left. rewrite D2, XI. reflexivity.
    + right. exists e. split; [rewrite D2, XI; reflexivity|]. split; [rewrite D3; exact L1|exact L2].
Qed.

(** ** The other operations of the class *)

Definition r2o_kept (s s' : W) (n : nat) : Prop := Inv2O s' n /\ w_reg s' = w_reg s /\ w_issued s' = w_issued s.

Lemma r2o_kept_ext : forall s s' n, oe_E s' = oe_E s -> Inv2O s n -> r2o_kept s s' n.
Proof.
  intros s s' n E H. split; [apply (r2o_Inv2O_ext s s' n E H)|].
  destruct (r2o_fields_ext s s' E) as (_ & E2 & _ & _ & _ & _ & _ & _ & _ & _ & _ & _ & _ & E14). split; assumption.
Qed.

Lemma r2o_kept_refl : forall s n, Inv2O s n -> r2o_kept s s n.
Proof. intros s n H. split; [exact H|split; reflexivity]. Qed.

(** an operation confined to the side state (the observer operations) *)
Lemma r2o_kept_sp : forall s s' n, Inv2O s n -> storage_same s s' -> r2o_kept s s' n.
Proof. intros s s' n H Hs. apply r2o_kept_ext; [apply oe_E_of_storage_same; exact Hs|exact H]. Qed.

(** an operation confined to query objects and lock (the query operations) *)
Lemma r2o_kept_frame : forall s s' n, Inv2O s n -> query_frame s s' -> r2o_kept s s' n.
Proof.
  intros s s' n (H1 & H2 & H3 & H4 & H5) HF. pose proof (r2k_St2_frame s s' H1 HF) as HS.
  destruct HF as (E1 & E2 & E3 & E4 & E5 & E6 & E7 & E8 & E9 & E10 & E11 & E12 & E13 & E14 & E15 & E16 & E17 & E18 & E19 & E20 & E21).
  assert (HL : forall x, live s' x = live s x) by (apply r2_live_ext; assumption).
  split; [|split; assumption].
  split; [exact HS|]. split; [apply (r2d_KeysLive_mono s s' H2 E6); intros x Hx; rewrite HL; exact Hx|].
  split; [apply (r2e_issued_ok_ext s s' n E3 HL); [intros x Hx; left; rewrite <- E17; exact Hx|exact H3]|].
  split; [apply (r2q_tabled_ext s s' E6 H4)|apply (r2q_filters_ok_ext s s' E2 E15 H5)].
Qed.

(** an operation that commutes with the erasure (Write, filter creation, Register, Unregister): [Rel2HistQ] on the erased world *)
Lemma r2o_kept_hom : forall debug s n o, Inv2O s n -> oe_hom_op o = true -> rel_q_flt_ok (w_reg s) o ->
  r2o_kept s (state_of (step_op debug o s)) n.
Proof.
  intros debug s n o HIO Ho Hflt. pose proof (proj1 (r2o_Inv2O_iff s n) HIO) as HQ.
  assert (K : r2q_kept (oe_E s) (state_of (step_op debug o (oe_E s))) n).
  { destruct o; try discriminate Ho.
    - apply (r2q_op_OWrite debug (oe_E s) n _ _ _ HQ).
    - refine (r2q_new_op_spec debug (oe_E s) n _ HQ _ Hflt); reflexivity.
    - refine (r2q_new_op_spec debug (oe_E s) n _ HQ _ Hflt); reflexivity.
    - refine (r2q_new_op_spec debug (oe_E s) n _ HQ _ Hflt); reflexivity. }
  rewrite (oe_hom_step_op debug o Ho s) in K.
  assert (Es : state_of (oe_rmap (step_op debug o s)) = oe_E (state_of (step_op debug o s))) by (destruct (step_op debug o s); reflexivity).
  rewrite Es in K. destruct K as (K1 & K2 & K3 & _).
  split; [apply r2o_Inv2O_iff; exact K1|]. split; [exact K2|exact K3].
Qed.

Lemma r2o_kept_finish : forall s s1 n, r2o_kept (s <| w_log := [] |>) s1 n -> r2o_step_goal s (s1 <| w_log := [] |>) n.
Proof.
  intros s s1 n (K1 & K2 & K3). split; [|split; [exact K2|left; exact K3]].
  apply (r2o_Inv2O_mono _ n (S n)); [lia|]. apply r2o_Inv2O_log. exact K1.
Qed.

(** The class: [rel_q_op] of Rel2HistQ plus the four observer operations. *)
Definition rel_o_op (o : op) : bool := (rel_q_op o || oe_obs_op o)%bool.

Definition r2o_readonly_op (o : op) : bool :=
  match o with OAlive _ | OHas _ _ | OGetRel _ _ | OIDs _ | OGet _ _ | OStats => true | _ => false end.

Lemma r2o_class_cases : forall o, rel_o_op o = true ->
  oe_struct_op o = true \/
  ((oe_hom_op o = true \/ r2q_query_op o = true \/ oe_obs_op o = true \/ r2o_readonly_op o = true) /\
   issues_from_log o = false /\ returns_entity o = false).
Proof. intros o H. destruct o; try discriminate H; auto 10. Qed.

Lemma r2o_readonly_state : forall debug o s, r2o_readonly_op o = true -> state_of (step_op debug o s) = s.
Proof.
  intros debug o s H. destruct o; try discriminate H.
  - apply reads_do_not_change_state; reflexivity.
  - apply reads_do_not_change_state; reflexivity.
  - apply r2q_ro_OGetRel.
  - apply reads_do_not_change_state; reflexivity.
  - apply r2q_ro_OGet.
  - apply reads_do_not_change_state; reflexivity.
Qed.

(** One step of a decoded line of the class keeps the invariant, in BOTH outcomes and whatever the callbacks do;
    the side conditions are those of [step_inv2Q]. *)
Theorem step_inv2O : forall debug wd s n line o,
  Inv2O s n -> n + 4 < Nat.pow 2 31 -> decode_op line = Some o -> rel_o_op o = true ->
  (forall c, In c (rel_op_ids o) -> c < length (w_reg s)) -> rel_q_flt_ok (w_reg s) o ->
  let s' := fst (step debug wd s line) in
  Inv2O s' (S n) /\ w_reg s' = w_reg s /\
  (w_issued s' = w_issued s \/ exists e, w_issued s' = w_issued s ++ [e] /\ live s' e = true /\ live s e = false).
Proof.
  intros debug wd s n line o HI Hn Hd Hop Hreg Hflt. cbv zeta. change (r2o_step_goal s (fst (step debug wd s line)) n).
  pose proof (r2o_Inv2O_log s n [] HI) as HI0.
  destruct (r2o_class_cases o Hop) as [Hs|(Hk & Hil & Hre)].
  - destruct (is_locked s) eqn:Hl.
    + rewrite (r2e_step_state debug wd s line o Hd (r2o_struct_core o Hs)).
      match goal with |- context [step_op debug o ?x] =>
        destruct (structural_blocked debug o x (r2o_struct_structural o Hs) Hl) as (er & E); rewrite E end.
      rewrite r2q_issue_err. apply r2o_kept_finish. apply r2o_kept_refl. exact HI0.
    + apply (r2o_step_struct_unlocked debug wd s n line o HI Hn Hd Hs Hl Hreg).
  - rewrite (StorageD.sd_step_state_plain debug wd s line o Hd Hil Hre). apply r2o_kept_finish.
    destruct Hk as [Hk|[Hk|[Hk|Hk]]].
    + apply (r2o_kept_hom debug _ n o HI0 Hk Hflt).
    + apply (r2o_kept_frame _ _ n HI0). apply (r2q_fr_step_op debug o Hk).
    + apply (r2o_kept_sp _ _ n HI0). apply (oe_sp_obs_op debug o Hk).
    + rewrite (r2o_readonly_state debug o _ Hk). apply r2o_kept_refl. exact HI0.
Qed.

(** ** Observers are transparent for the storage: a structural step that returns on the world with observers
    returns the same result on the erased world, and the resulting storages (issued handles included) agree. *)
Theorem r2o_step_erasure : forall debug wd s line o, decode_op line = Some o -> oe_struct_op o = true -> is_locked s = false ->
  is_err (step_op debug o (s <| w_log := [] |>)) = false ->
  oe_E (fst (step debug wd s line)) = fst (step debug wd (oe_E s) line) /\
  exists a s1, step_op debug o (s <| w_log := [] |>) = Ok a s1 /\ step_op debug o (oe_E s) = Ok a (oe_E s1).
Proof.
  intros debug wd s line o Hd Hs Hl Hok. pose proof (r2o_struct_core o Hs) as Hc.
  assert (Es : fst (step debug wd s line) = sc_issue o (step_op debug o (s <| w_log := [] |>)) <| w_log := [] |>)
    by (apply (r2e_step_state debug wd s line o Hd Hc)).
  assert (Eu : fst (step debug wd (oe_E s) line) = sc_issue o (step_op debug o (oe_E s)) <| w_log := [] |>)
    by (apply (r2e_step_state debug wd (oe_E s) line o Hd Hc)).
  rewrite Es, Eu. clear Es Eu. set (s0 := s <| w_log := [] |>) in *.
  pose proof (oe_step_op debug o s0 Hs Hl) as J. unfold oe_J, oe_res in J.
  change (oe_E s0) with (oe_E s) in J.
  destruct (step_op debug o s0) as [a s1|er s1]; [|discriminate Hok].
  rewrite J. split; [|exists a, s1; split; reflexivity].
  change (oe_E (sc_issue o (Ok a s1) <| w_log := [] |>)) with (oe_E (sc_issue o (Ok a s1))).
  rewrite r2o_issue_E. cbn [oe_rmap]. unfold sc_issue. destruct a as [|i [|g rest]]; cbn [state_of]; try reflexivity.
  destruct (returns_entity o); reflexivity.
Qed.

(* ================================================================================================ *)
(** * Part 5: the initial world, all reachable states, corollaries *)

Theorem r2o_init : forall c, cfg_ok2 c -> Inv2O (init_world c) 0.
Proof. intros c Hc. apply r2o_O_of_Q. apply r2q_init. exact Hc. Qed.

Definition rel_o_line (reg : list ckind) (line : list Z) : Prop :=
  exists o, decode_op line = Some o /\ rel_o_op o = true /\ (forall c, In c (rel_op_ids o) -> c < length reg) /\
            rel_q_flt_ok reg o.

Lemma r2o_run_inv : forall c, cfg_ok2 c -> forall lines,
  Forall (rel_o_line (sc_kinds c)) lines -> length lines + 4 < Nat.pow 2 31 ->
  Inv2O (Properties.Common.exec c lines) (length lines) /\ w_reg (Properties.Common.exec c lines) = sc_kinds c.
Proof.
  intros c Hc lines. induction lines as [|l lines IH] using rev_ind; intros HF Hb.
  - split; [apply r2o_init; exact Hc|reflexivity].
  - apply Forall_app in HF. destruct HF as (HF & Hl). inversion Hl as [|? ? (o & Hd & Hco & Hids & Hflt) _]; subst.
    rewrite app_length in *. cbn [length] in *. rewrite Nat.add_1_r in *.
    destruct IH as (IH1 & IH2); [exact HF|lia|].
    unfold Properties.Common.exec in *. rewrite fold_left_app. cbn [fold_left].
    destruct (step_inv2O (sc_debug c) false _ (length lines) l o IH1) as (S1 & S2 & _); auto; try lia.
    { rewrite IH2. exact Hids. }
    { rewrite IH2. exact Hflt. }
    split; [exact S1|congruence].
Qed.

(** Every state of every history of the class - with observers of any kind, registered, unregistered (also from
    inside their own callback), events emitted, queries open - satisfies the relation-tier invariant. *)
Theorem reachable_inv2O : forall c lines,
  cfg_ok2 c -> Forall (rel_o_line (sc_kinds c)) lines -> length lines + 4 < Nat.pow 2 31 ->
  Inv2O (Properties.Common.exec c lines) (length lines).
Proof. intros c lines Hc Hl Hb. apply (r2o_run_inv c Hc lines Hl Hb). Qed.

(** a history of the class [rel_q_line] is one of the class [rel_o_line] *)
Lemma rel_q_line_o : forall reg line, rel_q_line reg line -> rel_o_line reg line.
Proof.
  intros reg line (o & Hd & Hq & Hi & Hf). exists o. split; [exact Hd|]. split; [unfold rel_o_op; rewrite Hq; reflexivity|]. split; assumption.
Qed.

(** C04: "an entity's relation target is always the zero entity or an alive entity", in every state of a history with observers. *)
Theorem targets_always_zero_or_alive_O : forall c lines e cmp x,
  cfg_ok2 c -> Forall (rel_o_line (sc_kinds c)) lines -> length lines + 4 < Nat.pow 2 31 ->
  tgt (Properties.Common.exec c lines) e cmp = Some x ->
  x = zero_ent \/ live (Properties.Common.exec c lines) x = true.
Proof.
  intros c lines e cmp x Hc Hl Hb H. destruct (reachable_inv2O c lines Hc Hl Hb) as (HS & _).
  apply (r2_St2_targets _ e cmp x HS H).
Qed.

Lemma r2o_exec_log : forall c lines, Forall (rel_o_line (sc_kinds c)) lines -> w_log (Properties.Common.exec c lines) = [].
Proof.
  intros c lines. induction lines as [|l lines IH] using rev_ind; intros HF; [reflexivity|].
  apply Forall_app in HF. destruct HF as (_ & Hl). inversion Hl as [|? ? (o & Hd & _) _]; subst.
  unfold Properties.Common.exec. rewrite fold_left_app. cbn [fold_left]. apply (r2q_step_log _ _ _ _ o Hd).
Qed.

(** C07: in every reachable LOCKED state every structural operation fails and leaves the state exactly unchanged. *)
Theorem reachable_locked_structural_unchanged_O : forall c lines wd line o,
  Forall (rel_o_line (sc_kinds c)) lines ->
  is_locked (Properties.Common.exec c lines) = true -> decode_op line = Some o -> structural o = true ->
  (exists er, step_op (sc_debug c) o (Properties.Common.exec c lines) = Err er (Properties.Common.exec c lines)) /\
  fst (step (sc_debug c) wd (Properties.Common.exec c lines) line) = Properties.Common.exec c lines.
Proof.
  intros c lines wd line o Hl Hlk Hd Hs.
  apply (locked_structural_step_unchanged (sc_debug c) wd _ line o Hd Hs Hlk (r2o_exec_log c lines Hl)).
Qed.

Lemma r2o_St2_unE : forall s, St2 (oe_E s) -> St2 s.
Proof. intros s H. apply (r2e_St2_ext (oe_E s) s); try reflexivity. exact H. Qed.

(** ** Reset: in every UNLOCKED state satisfying the invariant Reset succeeds (observers or not). *)

Definition r2o_lk (s s' : W) : Prop := w_lock s' = w_lock s.
Definition r2o_lkp {A} (m : MW A) : Prop := r2e_pres r2o_lk m.
Lemma r2o_lk_refl : forall s, r2o_lk s s.
Proof. intros s. reflexivity. Qed.
Lemma r2o_lk_trans : forall s1 s2 s3, r2o_lk s1 s2 -> r2o_lk s2 s3 -> r2o_lk s1 s3.
Proof. intros s1 s2 s3 H1 H2. unfold r2o_lk in *. congruence. Qed.
Lemma r2o_lkp_bind : forall A B (m : MW A) (k : A -> MW B), r2o_lkp m -> (forall a, r2o_lkp (k a)) -> r2o_lkp (bind m k).
Proof. intros A B m k. apply (r2e_pres_bind r2o_lk r2o_lk_trans). Qed.
Lemma r2o_lkp_forM : forall A (l : list A) (f : A -> MW unit), (forall a, r2o_lkp (f a)) -> r2o_lkp (forM_ l f).
Proof. intros A l f. apply (r2e_pres_forM r2o_lk r2o_lk_refl r2o_lk_trans). Qed.
Lemma r2o_lkp_ro : forall A (m : MW A), readonly m -> r2o_lkp m.
Proof. intros A m H. apply (r2e_pres_ro r2o_lk r2o_lk_refl). exact H. Qed.
Lemma r2o_lkp_getbind : forall A (k : W -> MW A), (forall s, r2o_lk s (state_of (k s s))) -> r2o_lkp (bind get k).
Proof. intros A k. apply (r2e_pres_getbind r2o_lk). Qed.
Lemma r2o_lkp_modify : forall f : W -> W, (forall s, w_lock (f s) = w_lock s) -> r2o_lkp (modify f).
Proof. intros f H s. apply H. Qed.

Ltac r2o_lk_step :=
  match goal with
  | |- r2o_lkp (ret _) => apply r2o_lkp_ro, readonly_ret
  | |- r2o_lkp (fail _) => apply r2o_lkp_ro, readonly_fail
  | |- r2o_lkp get => apply r2o_lkp_ro, readonly_get
  | |- r2o_lkp (getA _) => apply r2o_lkp_ro, r2e_ro_getA
  | |- r2o_lkp (modT _ _) => apply r2o_lkp_modify; intros ?; reflexivity
  | |- r2o_lkp (modA _ _) => apply r2o_lkp_modify; intros ?; reflexivity
  | |- r2o_lkp (modO _ _) => apply r2o_lkp_modify; intros ?; reflexivity
  | |- r2o_lkp (mod_agg _ _) => apply r2o_lkp_modify; intros ?; reflexivity
  | |- r2o_lkp (modify _) => apply r2o_lkp_modify; intros ?; reflexivity
  | |- r2o_lkp (forM_ _ _) => apply r2o_lkp_forM; intros ?
  | |- r2o_lkp (bind _ _) => apply r2o_lkp_bind; [|intros ?]
  | |- r2o_lkp (match ?x with _ => _ end) => destruct x
  | |- r2o_lkp (if ?x then _ else _) => destruct x
  end.

Lemma r2o_lkp_reset_observers : r2o_lkp reset_observers.
Proof.
  unfold reset_observers. apply r2o_lkp_getbind. intros s. destruct (Nat.eqb (w_ototal s) 0); [reflexivity|].
  match goal with |- r2o_lk s (state_of (?m s)) => assert (X : r2o_lkp m); [|apply X] end.
  repeat r2o_lk_step.
Qed.
Lemma r2o_lkp_arch_reset : forall aid, r2o_lkp (arch_reset aid).
Proof. intros. unfold arch_reset. repeat r2o_lk_step. Qed.

Lemma r2o_reset_unlocks : forall s s', w_reset s = Ok tt s' -> is_locked s' = false.
Proof.
  intros s s' E. unfold w_reset in E.
  unfold bind at 1 in E. destruct (check_locked s) as [[] s0|? ?]; [|discriminate E].
  unfold bind at 1 in E. cbn [modify] in E.
  unfold bind at 1 in E. destruct (cache_reset _) as [[] s1|? ?]; [|discriminate E].
  unfold bind at 1 in E. cbn [modify] in E.
  match type of E with (?m ?t) = _ => assert (X : r2o_lkp m) end.
  { apply r2o_lkp_bind; [apply r2o_lkp_reset_observers|]. intros _. apply r2o_lkp_getbind. intros s2.
    match goal with |- r2o_lk s2 (state_of (?m s2)) => assert (Y : r2o_lkp m); [|apply Y] end.
    apply r2o_lkp_bind; [apply r2o_lkp_forM; intros aid; apply r2o_lkp_arch_reset|]. intros _. r2o_lk_step. }
  match type of E with (?m ?t) = _ => specialize (X t) end. rewrite E in X. cbn [state_of] in X.
  unfold is_locked. rewrite X. reflexivity.
Qed.

Theorem r2o_reset_step : forall debug s n, Inv2O s n -> is_locked s = false ->
  exists s', step_op debug OReset s = Ok [] s' /\ St2 s' /\ r2d_KeysLive s' /\ is_locked s' = false /\
    (forall e, live s' e = false) /\ w_reg s' = w_reg s.
Proof.
  intros debug s n HI Hl. pose proof (proj1 (r2o_Inv2O_iff s n) HI) as HQ.
  destruct (r2q_reset_step debug (oe_E s) n HQ (oe_E_unlocked s)) as (u' & E & R1 & R2 & _ & R4 & R5).
  pose proof (oe_opS_OReset debug s Hl) as J. unfold oe_JS, oe_resS in J.
  destruct (step_op debug OReset s) as [a s'|er s'] eqn:Es.
  - rewrite E in J. injection J as <- ->. exists s'. split; [reflexivity|].
    split; [apply r2o_St2_unE; exact R1|]. split; [apply (r2d_KeysLive_mono (oe_E s') s' R2 eq_refl); intros x Hx; exact Hx|].
    split; [|split; [intros e; apply (R4 e)|exact R5]].
    cbn [step_op] in Es. unfold bind in Es. destruct (w_reset s) as [[] s1|? ?] eqn:Ew; [|discriminate Es].
    injection Es as <-. apply (r2o_reset_unlocks s s1 Ew).
  - rewrite E in J. destruct J as [J|[]]. discriminate J.
Qed.

Theorem reachable_unlocked_reset_succeeds_O : forall c lines,
  cfg_ok2 c -> Forall (rel_o_line (sc_kinds c)) lines -> length lines + 4 < Nat.pow 2 31 ->
  is_locked (Properties.Common.exec c lines) = false ->
  exists s', step_op (sc_debug c) OReset (Properties.Common.exec c lines) = Ok [] s' /\ St2 s' /\ r2d_KeysLive s' /\
    is_locked s' = false /\ (forall e, live s' e = false) /\ w_reg s' = w_reg (Properties.Common.exec c lines).
Proof. intros c lines Hc Hl Hb Hlk. exact (r2o_reset_step (sc_debug c) _ _ (reachable_inv2O c lines Hc Hl Hb) Hlk). Qed.

(** ** C04: removing a stored target in an unlocked reachable state detaches it - unless an OnRemoveEntity /
    OnRemoveRelations callback fails: these run first, so the storage is untouched then. *)
Theorem remove_target_detaches_step_O : forall debug s n h x,
  Inv2O s n -> is_locked s = false -> handle s h = Some x -> live s x = true ->
  match step_op debug (ORemoveEntity h) s with
  | Ok res s' => res = [] /\ St2 s' /\ r2d_KeysLive s' /\ live s' x = false /\ alive s' x = false /\
      forall e, e <> x -> live s' e = live s e /\ (forall cmp, val s' e cmp = val s e cmp) /\
        (forall cmp, tgt s' e cmp = r2c_detached x (tgt s e cmp))
  | Err _ s' => oe_E s' = oe_E s
  end.
Proof.
  intros debug s n h x HI Hl Hh Hlx.
  destruct (remove_target_detaches_step debug (oe_E s) n h x (r2o_Inv2_E s n HI) Hh Hlx) as (u' & E & P1 & P2 & P3 & P4 & P5).
  pose proof (oe_opS_ORemoveEntity debug h s Hl) as J. unfold oe_JS, oe_resS in J.
  destruct (step_op debug (ORemoveEntity h) s) as [a s'|er s'].
  - rewrite E in J. injection J as <- ->. split; [reflexivity|]. split; [apply r2o_St2_unE; exact P1|].
    split; [apply (r2d_KeysLive_mono (oe_E s') s' P2 eq_refl); intros y Hy; exact Hy|].
    split; [exact P3|]. split; [exact P4|]. intros e He. apply (P5 e He).
  - rewrite E in J. destruct J as [J|J]; [discriminate J|exact J].
Qed.

Theorem remove_target_detaches_O : forall c lines h x,
  cfg_ok2 c -> Forall (rel_o_line (sc_kinds c)) lines -> length lines + 4 < Nat.pow 2 31 ->
  let s := Properties.Common.exec c lines in
  is_locked s = false -> handle s h = Some x -> live s x = true ->
  match step_op (sc_debug c) (ORemoveEntity h) s with
  | Ok res s' => res = [] /\ St2 s' /\ r2d_KeysLive s' /\ live s' x = false /\ alive s' x = false /\
      forall e, e <> x -> live s' e = live s e /\ (forall cmp, val s' e cmp = val s e cmp) /\
        (forall cmp, tgt s' e cmp = r2c_detached x (tgt s e cmp))
  | Err _ s' => oe_E s' = oe_E s
  end.
Proof.
  intros c lines h x Hc Hl Hb s Hlk Hh Hlx.
  apply (remove_target_detaches_step_O (sc_debug c) s (length lines) h x (reachable_inv2O c lines Hc Hl Hb) Hlk Hh Hlx).
Qed.

(** ... while on a locked reachable state Reset and RemoveEntity are rejected (they are structural). *)
Theorem reachable_locked_reset_rejected_O : forall c lines,
  Forall (rel_o_line (sc_kinds c)) lines -> is_locked (Properties.Common.exec c lines) = true ->
  exists er, step_op (sc_debug c) OReset (Properties.Common.exec c lines) = Err er (Properties.Common.exec c lines).
Proof. intros c lines _ Hlk. apply (structural_blocked (sc_debug c) OReset _ eq_refl Hlk). Qed.

Theorem remove_target_locked_rejected_O : forall c lines h,
  Forall (rel_o_line (sc_kinds c)) lines -> is_locked (Properties.Common.exec c lines) = true ->
  exists er, step_op (sc_debug c) (ORemoveEntity h) (Properties.Common.exec c lines) = Err er (Properties.Common.exec c lines).
Proof. intros c lines h _ Hlk. apply (structural_blocked (sc_debug c) (ORemoveEntity h) _ eq_refl Hlk). Qed.

(** The cached and the uncached selection agree in every reachable state ([reachable_filters_ok] over the larger class). *)
Theorem reachable_filters_ok_O : forall c lines fi f,
  cfg_ok2 c -> Forall (rel_o_line (sc_kinds c)) lines -> length lines + 4 < Nat.pow 2 31 ->
  nth_error (w_filters (Properties.Common.exec c lines)) fi = Some f ->
  r2k_rels_ok (Properties.Common.exec c lines) (f_mask f) (f_rels f) /\ r2k_tabled (Properties.Common.exec c lines) f.
Proof.
  intros c lines fi f Hc Hl Hb Hf. destruct (reachable_inv2O c lines Hc Hl Hb) as (_ & _ & _ & HT & HF).
  split; [apply (HF fi f Hf)|]. intros aid a Ha _ Hn. apply (HT aid a Ha Hn).
Qed.

(* ================================================================================================ *)
(** * Part 6: non-vacuity *)

Definition rel_o_line_b (reg : list ckind) (line : list Z) : bool :=
  match decode_op line with
  | Some o => (rel_o_op o && forallb (fun c => Nat.ltb c (length reg)) (rel_op_ids o) && rel_q_flt_okb reg o)%bool
  | None => false
  end.

Lemma rel_o_line_b_sound : forall reg lines, forallb (rel_o_line_b reg) lines = true -> Forall (rel_o_line reg) lines.
Proof.
  intros reg lines H. apply Forall_forall. intros l Hl. rewrite forallb_forall in H. specialize (H l Hl).
  unfold rel_o_line_b in H. destruct (decode_op l) as [o|] eqn:E; [|discriminate].
  apply andb_true_iff in H. destruct H as (H12 & H3). apply andb_true_iff in H12. destruct H12 as (H1 & H2).
  exists o. split; [exact E|]. split; [exact H1|]. split; [|apply rel_q_flt_okb_sound; exact H3].
  intros c Hc. rewrite forallb_forall in H2. apply Nat.ltb_lt. apply H2. exact Hc.
Qed.

(** the number of callback log entries written by each step of a script *)
Fixpoint r2o_logs (d : bool) (s : W) (lines : list (list Z)) : list nat :=
  match lines with
  | [] => []
  | l :: rest =>
      (match decode_op l with
       | Some o => length (w_log (state_of (step_op d o (s <| w_log := [] |>))))
       | None => 0
       end) :: r2o_logs d (fst (step d false s l)) rest
  end.

Local Open Scope Z_scope.

(** components of [r2_cfg]: 0,1,2 plain; 3,4 relation components; 5 pointer-bearing; 6 zero-size; 7 zero-size relation.
    Observers: 0 = OnAddRelations for component 3, UNREGISTERS ITSELF in its callback ([o_cb = 1]);
    1 = OnCreateEntity, passive; 2 = custom event 7, passive; 3 = OnRemoveRelations, its callback unregisters
    observer 1 ([o_cb = 2 + 1]). *)
Definition r2o_script : list (list Z) :=
  [[0]; [0];
   [25; 254; 1;3; 0; 0; 0; 1];      (* observer 0 *)
   [25; 249; 0; 0; 0; 0; 0];        (* observer 1 *)
   [25; 7; 0; 0; 0; 0; 0];          (* observer 2 *)
   [25; 255; 0; 0; 0; 0; 3];        (* observer 3 *)
   [26; 0]; [26; 1]; [26; 2]; [26; 3];
   [26; 0];                         (* register twice: rejected *)
   [26; 9];                         (* unknown observer: rejected *)
   [2; 2;0;3; 1; 3;0];              (* handle 2: components 0 and 3, relation 3 -> handle 0: OnCreateEntity (1) and
                                       OnAddRelations (0, which unregisters itself) fire *)
   [15; 0; 1;0; 0; 0; 0];           (* filter 0 *)
   [16; 0];
   [19; 0; 0];                      (* query 0: the world is LOCKED from here ... *)
   [28; 7; -1; 0];                  (* Emit on the zero entity while the query is open: observer 2 fires *)
   [28; 7; 2; 1;0];                 (* Emit on handle 2 for component 0 *)
   [28; 7; 2; 1;1];                 (* ... for a component the entity lacks: rejected *)
   [28; 300; 2; 0];                 (* not a custom event: rejected *)
   [0];                             (* NewEntity: rejected *)
   [10; 2; 1; 3;1];                 (* SetRelations: rejected *)
   [20; 0]; [24; 0];
   [21; 0];                         (* ... to here *)
   [26; 0];                         (* observer 0 again *)
   [10; 2; 1; 3;1];                 (* SetRelations 3 -> handle 1: OnRemoveRelations (3, which unregisters observer 1)
                                       BEFORE the move, OnAddRelations (0, unregisters itself) after it *)
   [10; 2; 1; 3;0];                 (* again: only observer 3 is left *)
   [26; 0];
   [8; 2; 1;1; 1;3; 0];             (* Exchange: add 1, remove 3: OnRemoveRelations between lookup and move *)
   [27; 2]; [27; 2];                (* unregister observer 2; twice: rejected *)
   [27; 1];                         (* observer 1 was unregistered by a callback: rejected *)
   [0];
   [11; 0];                         (* the former target dies *)
   [6; 2; 1;3; 1; 3;1];             (* AddRel 3 -> handle 1: OnAddRelations (0) *)
   [7; 2; 1;3];                     (* Remove 3: OnRemoveRelations between lookup and move *)
   [4; 2];
   [11; 2];
   [14; 0]; [38]].

Example r2o_script_covered : forallb (rel_o_line_b (sc_kinds Rel2Check.r2_cfg)) r2o_script = true.
Proof. vm_compute. reflexivity. Qed.

(** the script is NOT in the class of Rel2HistQ *)
Example r2o_script_not_q : forallb (rel_q_line_b (sc_kinds Rel2Check.r2_cfg)) r2o_script = false.
Proof. vm_compute. reflexivity. Qed.

(** 0 = the step returned normally, 1 = it panicked *)
Example r2o_script_runs :
  Rel2Check.r2_flags Rel2Check.r2_cfg (init_world Rel2Check.r2_cfg) r2o_script =
  [0;0; 0;0;0;0; 0;0;0;0; 1; 1; 0; 0; 0; 0; 0; 0; 1; 1; 1; 1; 0;0; 0; 0; 0; 0; 0; 0; 0;1; 1; 0; 0; 0; 0; 0; 0; 0;0].
Proof. vm_compute. reflexivity. Qed.

(** callbacks executed per step *)
Example r2o_script_callbacks :
  r2o_logs false (init_world Rel2Check.r2_cfg) r2o_script =
  [0;0; 0;0;0;0; 0;0;0;0; 0; 0; 2; 0; 0; 0; 1; 1; 0; 0; 0; 0; 0;0; 0; 0; 2; 1; 0; 1; 0;0; 0; 0; 0; 1; 1; 0; 0; 0;0]%nat.
Proof. vm_compute. reflexivity. Qed.

(** the world is locked after steps 16 to 24 (the two Emits run in that window) *)
Example r2o_script_locked :
  map (fun k => is_locked (Properties.Common.exec Rel2Check.r2_cfg (firstn k r2o_script))) (seq 0 42) =
  repeat false 16 ++ repeat true 9 ++ repeat false 17.
Proof. vm_compute. reflexivity. Qed.

(** observer 0 unregisters itself in the step that fires it (13, 27); observer 1 is unregistered by observer 3's callback (27) *)
Example r2o_script_observers :
  map (fun k => let s := Properties.Common.exec Rel2Check.r2_cfg (firstn k r2o_script) in
                (has_obs s 254, has_obs s 249)) [12; 13; 26; 27]%nat =
  [(true, true); (false, true); (true, true); (false, false)].
Proof. vm_compute. reflexivity. Qed.

Lemma r2o_script_lines : Forall (rel_o_line (sc_kinds Rel2Check.r2_cfg)) r2o_script.
Proof. apply rel_o_line_b_sound. exact r2o_script_covered. Qed.

Lemma r2o_firstn_lines : forall k, Forall (rel_o_line (sc_kinds Rel2Check.r2_cfg)) (firstn k r2o_script).
Proof.
  intros k. apply Forall_forall. intros l Hl. pose proof r2o_script_lines as H. rewrite Forall_forall in H.
  apply H. rewrite <- (firstn_skipn k r2o_script). apply in_or_app. left. exact Hl.
Qed.

Example r2o_script_inv : Inv2O (Properties.Common.exec Rel2Check.r2_cfg r2o_script) (length r2o_script).
Proof.
  apply reachable_inv2O; [exact r2q_cfg_ok|exact r2o_script_lines|].
  apply r2_N_small. vm_compute. reflexivity.
Qed.

(** The state after 17 steps: observers registered (and not covered by [Inv2Q]), a relation with a live target, a
    registered filter, an open query, the world locked, an Emit just dispatched; the invariant holds and a
    structural call leaves the state exactly as it is. *)
Definition r2o_mid : W := Properties.Common.exec Rel2Check.r2_cfg (firstn 17 r2o_script).

Example r2o_mid_inv : Inv2O r2o_mid 17.
Proof.
  apply (reachable_inv2O Rel2Check.r2_cfg (firstn 17 r2o_script) r2q_cfg_ok (r2o_firstn_lines 17)).
  apply r2_N_small. vm_compute. reflexivity.
Qed.

Example r2o_mid_shape :
  is_locked r2o_mid = true /\ w_ototal r2o_mid = 3%nat /\ has_obs r2o_mid 7 = true /\ has_obs r2o_mid 255 = true /\
  ~ r2e_noobs r2o_mid /\
  tgt r2o_mid (4%nat, 0%N) 3 = Some (2%nat, 0%N) /\ live r2o_mid (2%nat, 0%N) = true.
Proof.
  split; [vm_compute; reflexivity|]. split; [vm_compute; reflexivity|]. split; [vm_compute; reflexivity|].
  split; [vm_compute; reflexivity|]. split; [|split; vm_compute; reflexivity].
  intros H. specialize (H 7%nat). vm_compute in H. discriminate H.
Qed.

Example r2o_mid_blocked : forall wd line o, decode_op line = Some o -> structural o = true ->
  (exists er, step_op false o r2o_mid = Err er r2o_mid) /\ fst (step false wd r2o_mid line) = r2o_mid.
Proof.
  intros wd line o Hd Hs.
  apply (reachable_locked_structural_unchanged_O Rel2Check.r2_cfg (firstn 17 r2o_script) wd line o (r2o_firstn_lines 17)); auto.
Qed.

Example r2o_end_reset : exists s', step_op false OReset (Properties.Common.exec Rel2Check.r2_cfg r2o_script) = Ok [] s' /\ St2 s'.
Proof.
  destruct (reachable_unlocked_reset_succeeds_O Rel2Check.r2_cfg r2o_script r2q_cfg_ok r2o_script_lines) as (s' & E & HS & _).
  - apply r2_N_small. vm_compute. reflexivity.
  - vm_compute. reflexivity.
  - exists s'. split; assumption.
Qed.

(** The state after 13 steps (unlocked; observers 1, 2, 3 registered, observer 0 has just unregistered itself): removing
    handle 2 - the entity with the relation - runs observer 3 (OnRemoveRelations, which unregisters observer 1) FIRST and
    then removes the entity: the [Ok] branch of [remove_target_detaches_O]. *)
Definition r2o_s13 : W := Properties.Common.exec Rel2Check.r2_cfg (firstn 13 r2o_script).

Lemma r2o_remove_ok : forall debug s n h x, Inv2O s n -> is_locked s = false -> handle s h = Some x -> live s x = true ->
  is_err (step_op debug (ORemoveEntity h) s) = false ->
  exists s', step_op debug (ORemoveEntity h) s = Ok [] s' /\ St2 s' /\ live s' x = false.
Proof.
  intros debug s n h x HI Hl Hh Hlx Hok. pose proof (remove_target_detaches_step_O debug s n h x HI Hl Hh Hlx) as H.
  destruct (step_op debug (ORemoveEntity h) s) as [res s'|er s']; [|discriminate Hok].
  destruct H as (-> & HS & _ & HL & _). exists s'. split; [reflexivity|]. split; assumption.
Qed.

Example r2o_remove_example :
  (exists s', step_op false (ORemoveEntity 2) r2o_s13 = Ok [] s' /\ St2 s' /\ live s' (4%nat, 0%N) = false) /\
  length (w_log (state_of (step_op false (ORemoveEntity 2) r2o_s13))) = 1%nat /\
  has_obs r2o_s13 249 = true /\ has_obs (state_of (step_op false (ORemoveEntity 2) r2o_s13)) 249 = false.
Proof.
  split; [|split; [vm_compute; reflexivity|split; vm_compute; reflexivity]].
  apply (r2o_remove_ok false r2o_s13 13 2 (4%nat, 0%N)).
  - apply (reachable_inv2O Rel2Check.r2_cfg (firstn 13 r2o_script) r2q_cfg_ok (r2o_firstn_lines 13)).
    apply r2_N_small. vm_compute. reflexivity.
  - vm_compute. reflexivity.
  - vm_compute. reflexivity.
  - vm_compute. reflexivity.
  - vm_compute. reflexivity.
Qed.

(** Step 13 of the script (NewEntityRel, two callbacks, one of them unregistering itself) against the same step on the
    erased world: an instance of [r2o_step_erasure]. *)
Definition r2o_s12 : W := Properties.Common.exec Rel2Check.r2_cfg (firstn 12 r2o_script).

Example r2o_erasure_example :
  oe_E (fst (step false false r2o_s12 [2; 2;0;3; 1; 3;0])) = fst (step false false (oe_E r2o_s12) [2; 2;0;3; 1; 3;0]) /\
  ~ r2e_noobs r2o_s12.
Proof.
  split.
  - apply (r2o_step_erasure false false r2o_s12 [2; 2;0;3; 1; 3;0] (OUNewRel [0%nat; 3%nat] [(3%nat, 0)])).
    + reflexivity.
    + reflexivity.
    + vm_compute. reflexivity.
    + vm_compute. reflexivity.
  - intros H. specialize (H 254%nat). vm_compute in H. discriminate H.
Qed.

(** ** A callback that FAILS: all 64 lock bits are held by open queries, an event is emitted, [run_callback] cannot
    take its lock bit (EBits). The step fails, the invariant holds (by the theorem; nothing is assumed about the
    lock). After one query is closed the same Emit dispatches, and the self-unregistering observer leaves. *)
Definition r2o_bits_script : list (list Z) :=
  [[2; 2;0;3; 1; 3;-1]; [25; 7; 0; 0; 0; 0; 1]; [26; 0]; [15; 1; 0; 0; 0; 0]] ++ repeat [19; 0; 0] 64 ++
  [[19; 0; 0]; [28; 7; 0; 0]; [21; 5]; [28; 7; 0; 0]; [28; 7; 0; 0]].

Example r2o_bits_covered : forallb (rel_o_line_b (sc_kinds Rel2Check.r2_cfg)) r2o_bits_script = true.
Proof. vm_compute. reflexivity. Qed.

Example r2o_bits_runs :
  Rel2Check.r2_flags Rel2Check.r2_cfg (init_world Rel2Check.r2_cfg) r2o_bits_script = repeat 0 68 ++ [1; 1; 0; 0; 0] /\
  r2o_logs false (init_world Rel2Check.r2_cfg) r2o_bits_script = (repeat 0 71 ++ [1; 0])%nat.
Proof. split; vm_compute; reflexivity. Qed.

Example r2o_bits_inv : forall k, Inv2O (Properties.Common.exec Rel2Check.r2_cfg (firstn k r2o_bits_script)) (length (firstn k r2o_bits_script)).
Proof.
  intros k. apply reachable_inv2O; [exact r2q_cfg_ok| |].
  - apply Forall_forall. intros l Hl. pose proof (rel_o_line_b_sound _ _ r2o_bits_covered) as H. rewrite Forall_forall in H.
    apply H. rewrite <- (firstn_skipn k r2o_bits_script). apply in_or_app. left. exact Hl.
  - rewrite firstn_length.
    assert (Hlen : length r2o_bits_script = 73%nat) by (vm_compute; reflexivity). rewrite Hlen.
    assert (P : (100 < Nat.pow 2 31)%nat) by (apply r2_N_small; vm_compute; reflexivity). lia.
Qed.

Local Close Scope Z_scope.

(** ** Assumption audit *)
Definition r2o_all :=
  (r2o_Inv2O_iff, r2o_cut_trans, r2o_post, step_inv2O, r2o_init, reachable_inv2O, targets_always_zero_or_alive_O,
   reachable_locked_structural_unchanged_O, r2o_reset_step, reachable_unlocked_reset_succeeds_O,
   remove_target_detaches_step_O, remove_target_detaches_O, reachable_filters_ok_O, r2o_step_erasure,
   reachable_locked_reset_rejected_O, remove_target_locked_rejected_O,
   r2o_script_covered, r2o_script_runs, r2o_script_callbacks, r2o_script_locked, r2o_script_observers, r2o_script_inv,
   r2o_mid_inv, r2o_mid_shape, r2o_mid_blocked, r2o_end_reset, r2o_remove_example, r2o_erasure_example, r2o_bits_covered, r2o_bits_runs, r2o_bits_inv).
Print Assumptions r2o_all.
