(* Trusted glue: parses lines of decimal integers into Coq [Z] values, runs the extracted
   [run_script] and prints its result lines. Scripts are separated by a line "#". *)
open Arkmodel

let rec pos_of_int (n : int) : positive =
  if n = 1 then XH
  else if n land 1 = 0 then XO (pos_of_int (n lsr 1))
  else XI (pos_of_int (n lsr 1))

let z_of_int (n : int) : z =
  if n = 0 then Z0 else if n > 0 then Zpos (pos_of_int n) else Zneg (pos_of_int (- n))

let rec int_of_pos (p : positive) : int =
  match p with
  | XH -> 1
  | XO q -> 2 * int_of_pos q
  | XI q -> 2 * int_of_pos q + 1

let int_of_z (x : z) : int =
  match x with
  | Z0 -> 0
  | Zpos p -> int_of_pos p
  | Zneg p -> - (int_of_pos p)

let parse_line (l : string) : z list =
  String.split_on_char ' ' l
  |> List.filter (fun s -> s <> "")
  |> List.map (fun s -> z_of_int (int_of_string s))

let print_line (l : z list) : unit =
  print_string (String.concat " " (List.map (fun x -> string_of_int (int_of_z x)) l));
  print_newline ()

let flush_script (acc : z list list) : unit =
  let lines = List.rev acc in
  if lines <> [] then begin
    List.iter print_line (run_script lines);
    print_string "#\n"
  end

let () =
  let acc = ref [] in
  (try
     while true do
       let l = input_line stdin in
       if String.length l > 0 && l.[0] = '#' then begin
         flush_script !acc; acc := []
       end else
         acc := parse_line l :: !acc
     done
   with End_of_file -> flush_script !acc)
