(* Trusted glue: parses lines of decimal integers into Coq [Z] values, runs the extracted
   [run_script] and prints its result lines. Scripts are separated by a line "#". *)
open Arkmodel

let rec pos_of_int (n : int) : positive =
  if n = 1 then XH
  else if n land 1 = 0 then XO (pos_of_int (n lsr 1))
  else XI (pos_of_int (n lsr 1))

let z_of_int (n : int) : z =
  if n = 0 then Z0 else if n > 0 then Zpos (pos_of_int n) else Zneg (pos_of_int (- n))

let rec int_of_pos (p : positive) : int =
  match p with
  | XH -> 1
  | XO q -> 2 * int_of_pos q
  | XI q -> 2 * int_of_pos q + 1

let int_of_z (x : z) : int =
  match x with
  | Z0 -> 0
  | Zpos p -> int_of_pos p
  | Zneg p -> - (int_of_pos p)

let parse_line (l : string) : z list =
  String.split_on_char ' ' l
  |> List.filter (fun s -> s <> "")
  |> List.map (fun s -> z_of_int (int_of_string s))

let print_line (l : z list) : unit =
  print_string (String.concat " " (List.map (fun x -> string_of_int (int_of_z x)) l));
  print_newline ()

let rec n_of_z (x : z) : n = match x with Z0 -> N0 | Zpos p -> Npos p | Zneg _ -> N0
let z_of_n (x : n) : z = match x with N0 -> Z0 | Npos p -> Zpos p

(* A block whose first line is "-100" holds codec cases instead of a script:
   1 id gen -> marshal_bin bytes;  2 b.. -> unmarshal_bin (1 id gen | 0);
   3 id gen -> marshal_json bytes; 4 b.. -> unmarshal_json (1 id gen | 0);  5 n -> capPow2;
   6 n ls src.. tgt.. -> dumpload_case (pool scripts: dump of the source loaded into the target) *)
let codec_case (l : z list) : z list =
  match l with
  | c :: rest ->
    (match int_of_z c, rest with
     | 1, [i; g] -> List.map z_of_n (marshal_bin (n_of_z i) (n_of_z g))
     | 2, bs -> (match unmarshal_bin (List.map n_of_z bs) with
                 | Some (i, g) -> [z_of_int 1; z_of_n i; z_of_n g] | None -> [Z0])
     | 3, [i; g] -> List.map z_of_n (marshal_json (n_of_z i) (n_of_z g))
     | 4, bs -> (match unmarshal_json (List.map n_of_z bs) with
                 | Some (i, g) -> [z_of_int 1; z_of_n i; z_of_n g] | None -> [Z0])
     | 5, [x] -> [z_of_n (capPow2N (n_of_z x))]
     | 6, args -> dumpload_case args
     | _, _ -> [z_of_int (-1)])
  | [] -> [z_of_int (-1)]

let flush_script (acc : z list list) : unit =
  let lines = List.rev acc in
  match lines with
  | [] -> ()
  | [h] :: cases when int_of_z h = -100 ->
    List.iter (fun c -> print_line (codec_case c)) cases;
    print_string "#\n"
  | [h] :: script when int_of_z h = -102 ->
    (* a script whose final entity state is dumped and loaded into a new world: one line, the
       internal dump of the loaded world *)
    print_line (dumpload_world script);
    print_string "#\n"
  | _ ->
    (* ARKMODEL_MODE=inv: evaluate the relation-tier invariant after every step instead of printing the trace *)
    let inv = (try Sys.getenv "ARKMODEL_MODE" = "inv" with Not_found -> false) in
    List.iter print_line (if inv then inv_script lines else run_script lines);
    print_string "#\n"

let () =
  let acc = ref [] in
  (try
     while true do
       let l = input_line stdin in
       if String.length l > 0 && l.[0] = '#' then begin
         flush_script !acc; acc := []
       end else
         acc := parse_line l :: !acc
     done
   with End_of_file -> flush_script !acc)
