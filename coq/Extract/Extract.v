(** Extraction of the executable model to OCaml. Only [ExtrOcamlBasic] is used: [bool],
    [option], [list], [prod], [unit], [sumbool] map to OCaml's; [nat], [positive], [N], [Z]
    stay the extracted inductive types. No [Extract Constant], no further [Extract Inductive]. *)
From Ark Require Import Model.Base Model.Run Model.Codec Model.DumpLoad Model.DumpLoadW Model.Util Proofs.InvRun.
Require Extraction.
Require Import ExtrOcamlBasic.
Extraction Language OCaml.
Extraction "arkmodel.ml" run_script inv_script marshal_bin unmarshal_bin marshal_json unmarshal_json capPow2N dumpload_case dumpload_world.
