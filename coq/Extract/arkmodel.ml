
(** val negb : bool -> bool **)

let negb = function
| true -> false
| false -> true

type nat =
| O
| S of nat

type ('a, 'b) sum =
| Inl of 'a
| Inr of 'b

(** val fst : ('a1 * 'a2) -> 'a1 **)

let fst = function
| (x, _) -> x

(** val snd : ('a1 * 'a2) -> 'a2 **)

let snd = function
| (_, y) -> y

(** val length : 'a1 list -> nat **)

let rec length = function
| [] -> O
| _ :: l' -> S (length l')

(** val app : 'a1 list -> 'a1 list -> 'a1 list **)

let rec app l m0 =
  match l with
  | [] -> m0
  | a :: l1 -> a :: (app l1 m0)

type comparison =
| Eq
| Lt
| Gt

(** val compOpp : comparison -> comparison **)

let compOpp = function
| Eq -> Eq
| Lt -> Gt
| Gt -> Lt

module Coq__1 = struct
 (** val add : nat -> nat -> nat **)
 let rec add n0 m0 =
   match n0 with
   | O -> m0
   | S p0 -> S (add p0 m0)
end
include Coq__1

(** val mul : nat -> nat -> nat **)

let rec mul n0 m0 =
  match n0 with
  | O -> O
  | S p0 -> add m0 (mul p0 m0)

(** val sub : nat -> nat -> nat **)

let rec sub n0 m0 =
  match n0 with
  | O -> n0
  | S k -> (match m0 with
            | O -> n0
            | S l -> sub k l)

(** val eqb : bool -> bool -> bool **)

let eqb b1 b2 =
  if b1 then b2 else if b2 then false else true

module Nat =
 struct
  (** val eqb : nat -> nat -> bool **)

  let rec eqb n0 m0 =
    match n0 with
    | O -> (match m0 with
            | O -> true
            | S _ -> false)
    | S n' -> (match m0 with
               | O -> false
               | S m' -> eqb n' m')

  (** val leb : nat -> nat -> bool **)

  let rec leb n0 m0 =
    match n0 with
    | O -> true
    | S n' -> (match m0 with
               | O -> false
               | S m' -> leb n' m')

  (** val ltb : nat -> nat -> bool **)

  let ltb n0 m0 =
    leb (S n0) m0

  (** val max : nat -> nat -> nat **)

  let rec max n0 m0 =
    match n0 with
    | O -> m0
    | S n' -> (match m0 with
               | O -> n0
               | S m' -> S (max n' m'))
 end

(** val hd : 'a1 -> 'a1 list -> 'a1 **)

let hd default = function
| [] -> default
| x :: _ -> x

(** val nth : nat -> 'a1 list -> 'a1 -> 'a1 **)

let rec nth n0 l default =
  match n0 with
  | O -> (match l with
          | [] -> default
          | x :: _ -> x)
  | S m0 -> (match l with
             | [] -> default
             | _ :: t -> nth m0 t default)

(** val nth_error : 'a1 list -> nat -> 'a1 option **)

let rec nth_error l = function
| O -> (match l with
        | [] -> None
        | x :: _ -> Some x)
| S n1 -> (match l with
           | [] -> None
           | _ :: l0 -> nth_error l0 n1)

(** val rev : 'a1 list -> 'a1 list **)

let rec rev = function
| [] -> []
| x :: l' -> app (rev l') (x :: [])

(** val map : ('a1 -> 'a2) -> 'a1 list -> 'a2 list **)

let rec map f = function
| [] -> []
| a :: t -> (f a) :: (map f t)

(** val flat_map : ('a1 -> 'a2 list) -> 'a1 list -> 'a2 list **)

let rec flat_map f = function
| [] -> []
| x :: t -> app (f x) (flat_map f t)

(** val fold_left : ('a1 -> 'a2 -> 'a1) -> 'a2 list -> 'a1 -> 'a1 **)

let rec fold_left f l a0 =
  match l with
  | [] -> a0
  | b :: t -> fold_left f t (f a0 b)

(** val fold_right : ('a2 -> 'a1 -> 'a1) -> 'a1 -> 'a2 list -> 'a1 **)

let rec fold_right f a0 = function
| [] -> a0
| b :: t -> f b (fold_right f a0 t)

(** val existsb : ('a1 -> bool) -> 'a1 list -> bool **)

let rec existsb f = function
| [] -> false
| a :: l0 -> (||) (f a) (existsb f l0)

(** val forallb : ('a1 -> bool) -> 'a1 list -> bool **)

let rec forallb f = function
| [] -> true
| a :: l0 -> (&&) (f a) (forallb f l0)

(** val filter : ('a1 -> bool) -> 'a1 list -> 'a1 list **)

let rec filter f = function
| [] -> []
| x :: l0 -> if f x then x :: (filter f l0) else filter f l0

(** val find : ('a1 -> bool) -> 'a1 list -> 'a1 option **)

let rec find f = function
| [] -> None
| x :: tl -> if f x then Some x else find f tl

(** val combine : 'a1 list -> 'a2 list -> ('a1 * 'a2) list **)

let rec combine l l' =
  match l with
  | [] -> []
  | x :: tl ->
    (match l' with
     | [] -> []
     | y :: tl' -> (x, y) :: (combine tl tl'))

(** val firstn : nat -> 'a1 list -> 'a1 list **)

let rec firstn n0 l =
  match n0 with
  | O -> []
  | S n1 -> (match l with
             | [] -> []
             | a :: l0 -> a :: (firstn n1 l0))

(** val skipn : nat -> 'a1 list -> 'a1 list **)

let rec skipn n0 l =
  match n0 with
  | O -> l
  | S n1 -> (match l with
             | [] -> []
             | _ :: l0 -> skipn n1 l0)

(** val seq : nat -> nat -> nat list **)

let rec seq start = function
| O -> []
| S len0 -> start :: (seq (S start) len0)

(** val repeat : 'a1 -> nat -> 'a1 list **)

let rec repeat x = function
| O -> []
| S k -> x :: (repeat x k)

type positive =
| XI of positive
| XO of positive
| XH

type n =
| N0
| Npos of positive

type z =
| Z0
| Zpos of positive
| Zneg of positive

module Pos =
 struct
  type mask =
  | IsNul
  | IsPos of positive
  | IsNeg
 end

module Coq_Pos =
 struct
  (** val succ : positive -> positive **)

  let rec succ = function
  | XI p0 -> XO (succ p0)
  | XO p0 -> XI p0
  | XH -> XO XH

  (** val add : positive -> positive -> positive **)

  let rec add x y =
    match x with
    | XI p0 ->
      (match y with
       | XI q -> XO (add_carry p0 q)
       | XO q -> XI (add p0 q)
       | XH -> XO (succ p0))
    | XO p0 ->
      (match y with
       | XI q -> XI (add p0 q)
       | XO q -> XO (add p0 q)
       | XH -> XI p0)
    | XH -> (match y with
             | XI q -> XO (succ q)
             | XO q -> XI q
             | XH -> XO XH)

  (** val add_carry : positive -> positive -> positive **)

  and add_carry x y =
    match x with
    | XI p0 ->
      (match y with
       | XI q -> XI (add_carry p0 q)
       | XO q -> XO (add_carry p0 q)
       | XH -> XI (succ p0))
    | XO p0 ->
      (match y with
       | XI q -> XO (add_carry p0 q)
       | XO q -> XI (add p0 q)
       | XH -> XO (succ p0))
    | XH ->
      (match y with
       | XI q -> XI (succ q)
       | XO q -> XO (succ q)
       | XH -> XI XH)

  (** val pred_double : positive -> positive **)

  let rec pred_double = function
  | XI p0 -> XI (XO p0)
  | XO p0 -> XI (pred_double p0)
  | XH -> XH

  (** val pred_N : positive -> n **)

  let pred_N = function
  | XI p0 -> Npos (XO p0)
  | XO p0 -> Npos (pred_double p0)
  | XH -> N0

  type mask = Pos.mask =
  | IsNul
  | IsPos of positive
  | IsNeg

  (** val succ_double_mask : mask -> mask **)

  let succ_double_mask = function
  | IsNul -> IsPos XH
  | IsPos p0 -> IsPos (XI p0)
  | IsNeg -> IsNeg

  (** val double_mask : mask -> mask **)

  let double_mask = function
  | IsPos p0 -> IsPos (XO p0)
  | x0 -> x0

  (** val double_pred_mask : positive -> mask **)

  let double_pred_mask = function
  | XI p0 -> IsPos (XO (XO p0))
  | XO p0 -> IsPos (XO (pred_double p0))
  | XH -> IsNul

  (** val sub_mask : positive -> positive -> mask **)

  let rec sub_mask x y =
    match x with
    | XI p0 ->
      (match y with
       | XI q -> double_mask (sub_mask p0 q)
       | XO q -> succ_double_mask (sub_mask p0 q)
       | XH -> IsPos (XO p0))
    | XO p0 ->
      (match y with
       | XI q -> succ_double_mask (sub_mask_carry p0 q)
       | XO q -> double_mask (sub_mask p0 q)
       | XH -> IsPos (pred_double p0))
    | XH -> (match y with
             | XH -> IsNul
             | _ -> IsNeg)

  (** val sub_mask_carry : positive -> positive -> mask **)

  and sub_mask_carry x y =
    match x with
    | XI p0 ->
      (match y with
       | XI q -> succ_double_mask (sub_mask_carry p0 q)
       | XO q -> double_mask (sub_mask p0 q)
       | XH -> IsPos (pred_double p0))
    | XO p0 ->
      (match y with
       | XI q -> double_mask (sub_mask_carry p0 q)
       | XO q -> succ_double_mask (sub_mask_carry p0 q)
       | XH -> double_pred_mask p0)
    | XH -> IsNeg

  (** val mul : positive -> positive -> positive **)

  let rec mul x y =
    match x with
    | XI p0 -> add y (XO (mul p0 y))
    | XO p0 -> XO (mul p0 y)
    | XH -> y

  (** val iter : ('a1 -> 'a1) -> 'a1 -> positive -> 'a1 **)

  let rec iter f x = function
  | XI n' -> f (iter f (iter f x n') n')
  | XO n' -> iter f (iter f x n') n'
  | XH -> f x

  (** val compare_cont : comparison -> positive -> positive -> comparison **)

  let rec compare_cont r x y =
    match x with
    | XI p0 ->
      (match y with
       | XI q -> compare_cont r p0 q
       | XO q -> compare_cont Gt p0 q
       | XH -> Gt)
    | XO p0 ->
      (match y with
       | XI q -> compare_cont Lt p0 q
       | XO q -> compare_cont r p0 q
       | XH -> Gt)
    | XH -> (match y with
             | XH -> r
             | _ -> Lt)

  (** val compare : positive -> positive -> comparison **)

  let compare =
    compare_cont Eq

  (** val eqb : positive -> positive -> bool **)

  let rec eqb p0 q =
    match p0 with
    | XI p1 -> (match q with
                | XI q0 -> eqb p1 q0
                | _ -> false)
    | XO p1 -> (match q with
                | XO q0 -> eqb p1 q0
                | _ -> false)
    | XH -> (match q with
             | XH -> true
             | _ -> false)

  (** val coq_Nsucc_double : n -> n **)

  let coq_Nsucc_double = function
  | N0 -> Npos XH
  | Npos p0 -> Npos (XI p0)

  (** val coq_Ndouble : n -> n **)

  let coq_Ndouble = function
  | N0 -> N0
  | Npos p0 -> Npos (XO p0)

  (** val coq_lor : positive -> positive -> positive **)

  let rec coq_lor p0 q =
    match p0 with
    | XI p1 ->
      (match q with
       | XI q0 -> XI (coq_lor p1 q0)
       | XO q0 -> XI (coq_lor p1 q0)
       | XH -> p0)
    | XO p1 ->
      (match q with
       | XI q0 -> XI (coq_lor p1 q0)
       | XO q0 -> XO (coq_lor p1 q0)
       | XH -> XI p1)
    | XH -> (match q with
             | XO q0 -> XI q0
             | _ -> q)

  (** val coq_land : positive -> positive -> n **)

  let rec coq_land p0 q =
    match p0 with
    | XI p1 ->
      (match q with
       | XI q0 -> coq_Nsucc_double (coq_land p1 q0)
       | XO q0 -> coq_Ndouble (coq_land p1 q0)
       | XH -> Npos XH)
    | XO p1 ->
      (match q with
       | XI q0 -> coq_Ndouble (coq_land p1 q0)
       | XO q0 -> coq_Ndouble (coq_land p1 q0)
       | XH -> N0)
    | XH -> (match q with
             | XO _ -> N0
             | _ -> Npos XH)

  (** val ldiff : positive -> positive -> n **)

  let rec ldiff p0 q =
    match p0 with
    | XI p1 ->
      (match q with
       | XI q0 -> coq_Ndouble (ldiff p1 q0)
       | XO q0 -> coq_Nsucc_double (ldiff p1 q0)
       | XH -> Npos (XO p1))
    | XO p1 ->
      (match q with
       | XI q0 -> coq_Ndouble (ldiff p1 q0)
       | XO q0 -> coq_Ndouble (ldiff p1 q0)
       | XH -> Npos p0)
    | XH -> (match q with
             | XO _ -> Npos XH
             | _ -> N0)

  (** val coq_lxor : positive -> positive -> n **)

  let rec coq_lxor p0 q =
    match p0 with
    | XI p1 ->
      (match q with
       | XI q0 -> coq_Ndouble (coq_lxor p1 q0)
       | XO q0 -> coq_Nsucc_double (coq_lxor p1 q0)
       | XH -> Npos (XO p1))
    | XO p1 ->
      (match q with
       | XI q0 -> coq_Nsucc_double (coq_lxor p1 q0)
       | XO q0 -> coq_Ndouble (coq_lxor p1 q0)
       | XH -> Npos (XI p1))
    | XH ->
      (match q with
       | XI q0 -> Npos (XO q0)
       | XO q0 -> Npos (XI q0)
       | XH -> N0)

  (** val shiftl : positive -> n -> positive **)

  let shiftl p0 = function
  | N0 -> p0
  | Npos n1 -> iter (fun x -> XO x) p0 n1

  (** val testbit : positive -> n -> bool **)

  let rec testbit p0 n0 =
    match p0 with
    | XI p1 -> (match n0 with
                | N0 -> true
                | Npos n1 -> testbit p1 (pred_N n1))
    | XO p1 -> (match n0 with
                | N0 -> false
                | Npos n1 -> testbit p1 (pred_N n1))
    | XH -> (match n0 with
             | N0 -> true
             | Npos _ -> false)

  (** val iter_op : ('a1 -> 'a1 -> 'a1) -> positive -> 'a1 -> 'a1 **)

  let rec iter_op op0 p0 a =
    match p0 with
    | XI p1 -> op0 a (iter_op op0 p1 (op0 a a))
    | XO p1 -> iter_op op0 p1 (op0 a a)
    | XH -> a

  (** val to_nat : positive -> nat **)

  let to_nat x =
    iter_op Coq__1.add x (S O)

  (** val of_succ_nat : nat -> positive **)

  let rec of_succ_nat = function
  | O -> XH
  | S x -> succ (of_succ_nat x)
 end

module N =
 struct
  (** val succ_double : n -> n **)

  let succ_double = function
  | N0 -> Npos XH
  | Npos p0 -> Npos (XI p0)

  (** val double : n -> n **)

  let double = function
  | N0 -> N0
  | Npos p0 -> Npos (XO p0)

  (** val pred : n -> n **)

  let pred = function
  | N0 -> N0
  | Npos p0 -> Coq_Pos.pred_N p0

  (** val add : n -> n -> n **)

  let add n0 m0 =
    match n0 with
    | N0 -> m0
    | Npos p0 -> (match m0 with
                  | N0 -> n0
                  | Npos q -> Npos (Coq_Pos.add p0 q))

  (** val sub : n -> n -> n **)

  let sub n0 m0 =
    match n0 with
    | N0 -> N0
    | Npos n' ->
      (match m0 with
       | N0 -> n0
       | Npos m' ->
         (match Coq_Pos.sub_mask n' m' with
          | Coq_Pos.IsPos p0 -> Npos p0
          | _ -> N0))

  (** val mul : n -> n -> n **)

  let mul n0 m0 =
    match n0 with
    | N0 -> N0
    | Npos p0 -> (match m0 with
                  | N0 -> N0
                  | Npos q -> Npos (Coq_Pos.mul p0 q))

  (** val compare : n -> n -> comparison **)

  let compare n0 m0 =
    match n0 with
    | N0 -> (match m0 with
             | N0 -> Eq
             | Npos _ -> Lt)
    | Npos n' -> (match m0 with
                  | N0 -> Gt
                  | Npos m' -> Coq_Pos.compare n' m')

  (** val eqb : n -> n -> bool **)

  let eqb n0 m0 =
    match n0 with
    | N0 -> (match m0 with
             | N0 -> true
             | Npos _ -> false)
    | Npos p0 -> (match m0 with
                  | N0 -> false
                  | Npos q -> Coq_Pos.eqb p0 q)

  (** val leb : n -> n -> bool **)

  let leb x y =
    match compare x y with
    | Gt -> false
    | _ -> true

  (** val ltb : n -> n -> bool **)

  let ltb x y =
    match compare x y with
    | Lt -> true
    | _ -> false

  (** val div2 : n -> n **)

  let div2 = function
  | N0 -> N0
  | Npos p0 -> (match p0 with
                | XI p1 -> Npos p1
                | XO p1 -> Npos p1
                | XH -> N0)

  (** val pos_div_eucl : positive -> n -> n * n **)

  let rec pos_div_eucl a b =
    match a with
    | XI a' ->
      let (q, r) = pos_div_eucl a' b in
      let r' = succ_double r in
      if leb b r' then ((succ_double q), (sub r' b)) else ((double q), r')
    | XO a' ->
      let (q, r) = pos_div_eucl a' b in
      let r' = double r in
      if leb b r' then ((succ_double q), (sub r' b)) else ((double q), r')
    | XH ->
      (match b with
       | N0 -> (N0, (Npos XH))
       | Npos p0 ->
         (match p0 with
          | XH -> ((Npos XH), N0)
          | _ -> (N0, (Npos XH))))

  (** val div_eucl : n -> n -> n * n **)

  let div_eucl a b =
    match a with
    | N0 -> (N0, N0)
    | Npos na -> (match b with
                  | N0 -> (N0, a)
                  | Npos _ -> pos_div_eucl na b)

  (** val div : n -> n -> n **)

  let div a b =
    fst (div_eucl a b)

  (** val modulo : n -> n -> n **)

  let modulo a b =
    snd (div_eucl a b)

  (** val coq_lor : n -> n -> n **)

  let coq_lor n0 m0 =
    match n0 with
    | N0 -> m0
    | Npos p0 ->
      (match m0 with
       | N0 -> n0
       | Npos q -> Npos (Coq_Pos.coq_lor p0 q))

  (** val coq_land : n -> n -> n **)

  let coq_land n0 m0 =
    match n0 with
    | N0 -> N0
    | Npos p0 -> (match m0 with
                  | N0 -> N0
                  | Npos q -> Coq_Pos.coq_land p0 q)

  (** val ldiff : n -> n -> n **)

  let ldiff n0 m0 =
    match n0 with
    | N0 -> N0
    | Npos p0 -> (match m0 with
                  | N0 -> n0
                  | Npos q -> Coq_Pos.ldiff p0 q)

  (** val coq_lxor : n -> n -> n **)

  let coq_lxor n0 m0 =
    match n0 with
    | N0 -> m0
    | Npos p0 -> (match m0 with
                  | N0 -> n0
                  | Npos q -> Coq_Pos.coq_lxor p0 q)

  (** val shiftl : n -> n -> n **)

  let shiftl a n0 =
    match a with
    | N0 -> N0
    | Npos a0 -> Npos (Coq_Pos.shiftl a0 n0)

  (** val shiftr : n -> n -> n **)

  let shiftr a = function
  | N0 -> a
  | Npos p0 -> Coq_Pos.iter div2 a p0

  (** val testbit : n -> n -> bool **)

  let testbit a n0 =
    match a with
    | N0 -> false
    | Npos p0 -> Coq_Pos.testbit p0 n0

  (** val of_nat : nat -> n **)

  let of_nat = function
  | O -> N0
  | S n' -> Npos (Coq_Pos.of_succ_nat n')

  (** val setbit : n -> n -> n **)

  let setbit a n0 =
    coq_lor a (shiftl (Npos XH) n0)

  (** val clearbit : n -> n -> n **)

  let clearbit a n0 =
    ldiff a (shiftl (Npos XH) n0)

  (** val ones : n -> n **)

  let ones n0 =
    pred (shiftl (Npos XH) n0)
 end

module Z =
 struct
  (** val compare : z -> z -> comparison **)

  let compare x y =
    match x with
    | Z0 -> (match y with
             | Z0 -> Eq
             | Zpos _ -> Lt
             | Zneg _ -> Gt)
    | Zpos x' -> (match y with
                  | Zpos y' -> Coq_Pos.compare x' y'
                  | _ -> Gt)
    | Zneg x' ->
      (match y with
       | Zneg y' -> compOpp (Coq_Pos.compare x' y')
       | _ -> Lt)

  (** val ltb : z -> z -> bool **)

  let ltb x y =
    match compare x y with
    | Lt -> true
    | _ -> false

  (** val eqb : z -> z -> bool **)

  let eqb x y =
    match x with
    | Z0 -> (match y with
             | Z0 -> true
             | _ -> false)
    | Zpos p0 -> (match y with
                  | Zpos q -> Coq_Pos.eqb p0 q
                  | _ -> false)
    | Zneg p0 -> (match y with
                  | Zneg q -> Coq_Pos.eqb p0 q
                  | _ -> false)

  (** val to_nat : z -> nat **)

  let to_nat = function
  | Zpos p0 -> Coq_Pos.to_nat p0
  | _ -> O

  (** val to_N : z -> n **)

  let to_N = function
  | Zpos p0 -> Npos p0
  | _ -> N0

  (** val of_nat : nat -> z **)

  let of_nat = function
  | O -> Z0
  | S n1 -> Zpos (Coq_Pos.of_succ_nat n1)

  (** val of_N : n -> z **)

  let of_N = function
  | N0 -> Z0
  | Npos p0 -> Zpos p0

  (** val odd : z -> bool **)

  let odd = function
  | Z0 -> false
  | Zpos p0 -> (match p0 with
                | XO _ -> false
                | _ -> true)
  | Zneg p0 -> (match p0 with
                | XO _ -> false
                | _ -> true)
 end

(** val upd : nat -> 'a1 -> 'a1 list -> 'a1 list **)

let rec upd i x = function
| [] -> []
| h :: t -> (match i with
             | O -> x :: t
             | S i' -> h :: (upd i' x t))

(** val updf : nat -> ('a1 -> 'a1) -> 'a1 list -> 'a1 list **)

let updf i f l =
  match nth_error l i with
  | Some x -> upd i (f x) l
  | None -> l

(** val index_of : nat -> nat list -> nat option **)

let rec index_of x = function
| [] -> None
| h :: t ->
  if Nat.eqb h x
  then Some O
  else (match index_of x t with
        | Some i -> Some (S i)
        | None -> None)

(** val memb : nat -> nat list -> bool **)

let memb x l =
  match index_of x l with
  | Some _ -> true
  | None -> false

(** val resize : nat -> nat -> 'a1 -> 'a1 list -> 'a1 list **)

let resize c n0 d l =
  app (firstn n0 l) (repeat d (sub c n0))

(** val copy_into : 'a1 list -> nat -> 'a1 list -> 'a1 list **)

let rec copy_into dst off = function
| [] -> dst
| x :: xs -> copy_into (upd off x dst) (S off) xs

(** val afind : nat -> (nat * 'a1) list -> 'a1 option **)

let rec afind k = function
| [] -> None
| p0 :: t -> let (k', v) = p0 in if Nat.eqb k' k then Some v else afind k t

(** val aset : nat -> 'a1 -> (nat * 'a1) list -> (nat * 'a1) list **)

let rec aset k v = function
| [] -> (k, v) :: []
| p0 :: t ->
  let (k', v') = p0 in
  if Nat.eqb k' k then (k, v) :: t else (k', v') :: (aset k v t)

(** val adel : nat -> (nat * 'a1) list -> (nat * 'a1) list **)

let rec adel k = function
| [] -> []
| p0 :: t ->
  let (k', v') = p0 in
  if Nat.eqb k' k then adel k t else (k', v') :: (adel k t)

(** val amap_vals : ('a1 -> 'a1) -> (nat * 'a1) list -> (nat * 'a1) list **)

let amap_vals f m0 =
  map (fun kv -> ((fst kv), (f (snd kv)))) m0

(** val ains : (nat * 'a1) -> (nat * 'a1) list -> (nat * 'a1) list **)

let rec ains kv = function
| [] -> kv :: []
| h :: t ->
  if Nat.leb (fst kv) (fst h) then kv :: (h :: t) else h :: (ains kv t)

(** val asort : (nat * 'a1) list -> (nat * 'a1) list **)

let asort m0 =
  fold_right ains [] m0

type ent = nat * n

(** val zero_ent : ent **)

let zero_ent =
  (O, N0)

(** val max_u32 : n **)

let max_u32 =
  Npos (XI (XI (XI (XI (XI (XI (XI (XI (XI (XI (XI (XI (XI (XI (XI (XI (XI
    (XI (XI (XI (XI (XI (XI (XI (XI (XI (XI (XI (XI (XI (XI
    XH)))))))))))))))))))))))))))))))

(** val ent_eqb : ent -> ent -> bool **)

let ent_eqb a b =
  (&&) (Nat.eqb (fst a) (fst b)) (N.eqb (snd a) (snd b))

type err =
| ELocked
| EDead
| EHasComp
| EMissingComp
| ENoComps
| ERelUnspec
| EDeadTarget
| ENotRelation
| ERelNotInMask
| EIndex
| ENil
| EBits
| EUnbalanced
| ETooMany
| ERegLocked
| EResource
| EReserved
| ERegistered
| EMisuse

type ('s, 'a) res =
| Ok of 'a * 's
| Err of err * 's

type ('s, 'a) m = 's -> ('s, 'a) res

(** val ret : 'a2 -> ('a1, 'a2) m **)

let ret a s =
  Ok (a, s)

(** val fail : err -> ('a1, 'a2) m **)

let fail e s =
  Err (e, s)

(** val bind : ('a1, 'a2) m -> ('a2 -> ('a1, 'a3) m) -> ('a1, 'a3) m **)

let bind m0 k s =
  match m0 s with
  | Ok (a, s') -> k a s'
  | Err (e, s') -> Err (e, s')

(** val get : ('a1, 'a1) m **)

let get s =
  Ok (s, s)

(** val put : 'a1 -> ('a1, unit) m **)

let put s _ =
  Ok ((), s)

(** val modify : ('a1 -> 'a1) -> ('a1, unit) m **)

let modify f s =
  Ok ((), (f s))

(** val guard : bool -> err -> ('a1, unit) m **)

let guard b e =
  if b then ret () else fail e

(** val of_opt : 'a2 option -> err -> ('a1, 'a2) m **)

let of_opt o e =
  match o with
  | Some a -> ret a
  | None -> fail e

(** val forM_ : 'a2 list -> ('a2 -> ('a1, unit) m) -> ('a1, unit) m **)

let rec forM_ l f =
  match l with
  | [] -> ret ()
  | x :: t -> bind (f x) (fun _ -> forM_ t f)

(** val mapM : 'a2 list -> ('a2 -> ('a1, 'a3) m) -> ('a1, 'a3 list) m **)

let rec mapM l f =
  match l with
  | [] -> ret []
  | x :: t -> bind (f x) (fun y -> bind (mapM t f) (fun ys -> ret (y :: ys)))

(** val state_of : ('a1, 'a2) res -> 'a1 **)

let state_of = function
| Ok (_, s) -> s
| Err (_, s) -> s

(** val is_err : ('a1, 'a2) res -> bool **)

let is_err = function
| Ok (_, _) -> false
| Err (_, _) -> true

type mask0 = n

(** val mk_get : mask0 -> nat -> bool **)

let mk_get m0 i =
  N.testbit m0 (N.of_nat i)

(** val mk_set : mask0 -> nat -> mask0 **)

let mk_set m0 i =
  N.setbit m0 (N.of_nat i)

(** val mk_clear : mask0 -> nat -> mask0 **)

let mk_clear m0 i =
  N.clearbit m0 (N.of_nat i)

(** val mk_or : mask0 -> mask0 -> mask0 **)

let mk_or =
  N.coq_lor

(** val mk_contains : mask0 -> mask0 -> bool **)

let mk_contains a b =
  N.eqb (N.coq_land a b) b

(** val mk_contains_any : mask0 -> mask0 -> bool **)

let mk_contains_any a b =
  negb (N.eqb (N.coq_land a b) N0)

(** val mk_not : nat -> mask0 -> mask0 **)

let mk_not bits m0 =
  N.coq_lxor m0 (N.ones (N.of_nat bits))

(** val mk_is_zero : mask0 -> bool **)

let mk_is_zero m0 =
  N.eqb m0 N0

(** val mk_of_list : nat list -> mask0 **)

let mk_of_list l =
  fold_left mk_set l N0

(** val mk_to_list_from : mask0 -> nat -> nat -> nat list **)

let rec mk_to_list_from m0 i = function
| O -> []
| S n' ->
  if mk_get m0 i
  then i :: (mk_to_list_from m0 (S i) n')
  else mk_to_list_from m0 (S i) n'

(** val mk_to_list : mask0 -> nat -> nat list **)

let mk_to_list m0 n0 =
  mk_to_list_from m0 O n0

type pool = { pe : ent list; pnext : nat; pavail : nat }

(** val reserved : nat **)

let reserved =
  S (S O)

(** val pool_new : pool **)

let pool_new =
  { pe = ((O, max_u32) :: (((S O), max_u32) :: [])); pnext = O; pavail = O }

(** val pool_get : pool -> ent * pool **)

let pool_get p0 =
  if Nat.eqb p0.pavail O
  then let e = ((length p0.pe), N0) in
       (e, { pe = (app p0.pe (e :: [])); pnext = p0.pnext; pavail =
       p0.pavail })
  else let curr = p0.pnext in
       (match nth_error p0.pe curr with
        | Some e ->
          let (nid, g) = e in
          ((curr, g), { pe = (upd curr (curr, g) p0.pe); pnext = nid;
          pavail = (sub p0.pavail (S O)) })
        | None -> ((curr, N0), p0))

(** val pool_recycle : pool -> ent -> pool option **)

let pool_recycle p0 e =
  if Nat.ltb (fst e) reserved
  then None
  else (match nth_error p0.pe (fst e) with
        | Some e0 ->
          let (_, g) = e0 in
          Some { pe =
          (upd (fst e) (p0.pnext,
            (N.modulo (N.add g (Npos XH)) (Npos (XO (XO (XO (XO (XO (XO (XO
              (XO (XO (XO (XO (XO (XO (XO (XO (XO (XO (XO (XO (XO (XO (XO (XO
              (XO (XO (XO (XO (XO (XO (XO (XO (XO
              XH))))))))))))))))))))))))))))))))))) p0.pe); pnext = (fst e);
          pavail = (S p0.pavail) }
        | None -> None)

(** val pool_alive : pool -> ent -> bool **)

let pool_alive p0 e =
  match nth_error p0.pe (fst e) with
  | Some e0 -> let (_, g) = e0 in N.eqb g (snd e)
  | None -> false

(** val pool_reset : pool -> pool **)

let pool_reset p0 =
  { pe = (firstn reserved p0.pe); pnext = O; pavail = O }

(** val pool_len : pool -> nat **)

let pool_len p0 =
  sub (sub (length p0.pe) reserved) p0.pavail

(** val pool_cap : pool -> nat **)

let pool_cap p0 =
  sub (length p0.pe) reserved

type ipool = { ip : nat list; inext : nat; iavail : nat }

(** val ipool_new : ipool **)

let ipool_new =
  { ip = []; inext = O; iavail = O }

(** val ipool_get : nat option -> ipool -> (nat * ipool) option **)

let ipool_get limit p0 =
  if Nat.eqb p0.iavail O
  then let b = length p0.ip in
       (match limit with
        | Some n0 ->
          if Nat.leb n0 b
          then None
          else Some (b, { ip = (app p0.ip (b :: [])); inext = p0.inext;
                 iavail = p0.iavail })
        | None ->
          Some (b, { ip = (app p0.ip (b :: [])); inext = p0.inext; iavail =
            p0.iavail }))
  else let curr = p0.inext in
       (match nth_error p0.ip curr with
        | Some nx ->
          Some (curr, { ip = (upd curr curr p0.ip); inext = nx; iavail =
            (sub p0.iavail (S O)) })
        | None -> None)

(** val ipool_recycle : ipool -> nat -> ipool **)

let ipool_recycle p0 b =
  { ip = (upd b p0.inext p0.ip); inext = b; iavail = (S p0.iavail) }

type lockst = { lk_pool : ipool; lk_mask : mask0 }

(** val lock_new : lockst **)

let lock_new =
  { lk_pool = ipool_new; lk_mask = N0 }

(** val lock_lock : lockst -> (nat * lockst) option **)

let lock_lock l =
  match ipool_get (Some (S (S (S (S (S (S (S (S (S (S (S (S (S (S (S (S (S (S
          (S (S (S (S (S (S (S (S (S (S (S (S (S (S (S (S (S (S (S (S (S (S
          (S (S (S (S (S (S (S (S (S (S (S (S (S (S (S (S (S (S (S (S (S (S
          (S (S
          O)))))))))))))))))))))))))))))))))))))))))))))))))))))))))))))))))
          l.lk_pool with
  | Some p0 ->
    let (b, p') = p0 in
    Some (b, { lk_pool = p'; lk_mask = (mk_set l.lk_mask b) })
  | None -> None

(** val lock_unlock : lockst -> nat -> lockst option **)

let lock_unlock l b =
  if mk_get l.lk_mask b
  then Some { lk_pool = (ipool_recycle l.lk_pool b); lk_mask =
         (mk_clear l.lk_mask b) }
  else None

(** val lock_is_locked : lockst -> bool **)

let lock_is_locked l =
  negb (mk_is_zero l.lk_mask)

(** val u32 : n -> n **)

let u32 x =
  N.modulo x (Npos (XO (XO (XO (XO (XO (XO (XO (XO (XO (XO (XO (XO (XO (XO
    (XO (XO (XO (XO (XO (XO (XO (XO (XO (XO (XO (XO (XO (XO (XO (XO (XO (XO
    XH)))))))))))))))))))))))))))))))))

(** val capPow2N : n -> n **)

let capPow2N required =
  if N.eqb required N0
  then Npos XH
  else let r = u32 (N.sub required (Npos XH)) in
       let r0 = N.coq_lor r (N.shiftr r (Npos XH)) in
       let r1 = N.coq_lor r0 (N.shiftr r0 (Npos (XO XH))) in
       let r2 = N.coq_lor r1 (N.shiftr r1 (Npos (XO (XO XH)))) in
       let r3 = N.coq_lor r2 (N.shiftr r2 (Npos (XO (XO (XO XH))))) in
       let r4 = N.coq_lor r3 (N.shiftr r3 (Npos (XO (XO (XO (XO XH)))))) in
       u32 (N.add r4 (Npos XH))

(** val pow2_ge : nat -> nat -> nat -> nat **)

let rec pow2_ge fuel p0 n0 =
  match fuel with
  | O -> p0
  | S f -> if Nat.leb n0 p0 then p0 else pow2_ge f (mul (S (S O)) p0) n0

(** val cap_pow2 : nat -> nat **)

let cap_pow2 n0 =
  pow2_ge (S (S (S (S (S (S (S (S (S (S (S (S (S (S (S (S (S (S (S (S (S (S
    (S (S (S (S (S (S (S (S (S (S O)))))))))))))))))))))))))))))))) (S O) n0

type ('r, 't) setter = ('t -> 't) -> 'r -> 'r

(** val set :
    ('a1 -> 'a2) -> ('a1, 'a2) setter -> ('a2 -> 'a2) -> 'a1 -> 'a1 **)

let set _ setter0 =
  setter0

type ckind = { ck_rel : bool; ck_zs : bool; ck_triv : bool }

type config = { cf_cap : nat; cf_caprel : nat; cf_bits : nat }

type rel = nat * ent

type table = { t_arch : nat; t_ids : nat list; t_kinds : ckind list;
               t_len : nat; t_cap : nat; t_free : bool; t_ents : ent list;
               t_cols : z list list; t_targets : ent list; t_rels : rel list }

type arch = { a_mask : mask0; a_comps : nat list; a_isrel : bool list;
              a_tables : nat list; a_free : nat list;
              a_reltabs : (nat * nat list) list list;
              a_tgttabs : (nat * nat list) list; a_numrel : nat }

type centry = { ce_id : nat; ce_filter : nat; ce_rels : rel list;
                ce_tables : nat list }

type fobj = { f_ids : nat list; f_mask : mask0; f_without : mask0;
              f_haswithout : bool; f_cache : nat option; f_rels : rel list;
              f_unsafe : bool }

type qobj = { q_filter : nat; q_rels : rel list; q_cache : nat option;
              q_lock : nat; q_arch : nat; q_tab : nat; q_index : nat;
              q_max : nat option; q_tables : nat list; q_table : nat option;
              q_rare : nat option }

type oobj = { o_event : nat; o_for : nat list; o_withl : nat list;
              o_withoutl : nat list; o_excl : bool; o_comps : mask0;
              o_with : mask0; o_without : mask0; o_hascomps : bool;
              o_haswith : bool; o_haswithout : bool; o_id : nat option;
              o_cb : nat }

type agg = { g_has : bool; g_allcomps : mask0; g_allwith : mask0;
             g_anynocomps : bool; g_anynowith : bool }

(** val agg0 : agg **)

let agg0 =
  { g_has = false; g_allcomps = N0; g_allwith = N0; g_anynocomps = false;
    g_anynowith = false }

type wstate = { w_cfg : config; w_reg : ckind list; w_pool : pool;
                w_index : (nat option * nat) list; w_istarget : bool list;
                w_archs : arch list; w_tables : table list;
                w_relarchs : nat list; w_compindex : nat list list;
                w_archcount : nat list; w_version : n; w_cheap : centry list;
                w_centries : nat list; w_cpool : ipool; w_lock : lockst;
                w_obs : oobj list; w_olists : (nat * nat list) list;
                w_oagg : (nat * agg) list; w_opool : ipool; w_ototal : 
                nat; w_omax : nat; w_filters : fobj list;
                w_queries : qobj list; w_res : bool list;
                w_issued : ent list; w_log : z list list }

type w = wstate

type 'a mW = (w, 'a) m

(** val tbl_adjust : table -> nat -> table **)

let tbl_adjust t c =
  set (fun t0 -> t0.t_cols) (fun f ->
    let l = fun r -> f r.t_cols in
    (fun x -> { t_arch = x.t_arch; t_ids = x.t_ids; t_kinds = x.t_kinds;
    t_len = x.t_len; t_cap = x.t_cap; t_free = x.t_free; t_ents = x.t_ents;
    t_cols = (l x); t_targets = x.t_targets; t_rels = x.t_rels })) (fun _ ->
    map (resize c t.t_len Z0) t.t_cols)
    (set (fun t0 -> t0.t_ents) (fun f ->
      let l = fun r -> f r.t_ents in
      (fun x -> { t_arch = x.t_arch; t_ids = x.t_ids; t_kinds = x.t_kinds;
      t_len = x.t_len; t_cap = x.t_cap; t_free = x.t_free; t_ents = (l x);
      t_cols = x.t_cols; t_targets = x.t_targets; t_rels = x.t_rels }))
      (fun _ -> resize c t.t_len zero_ent t.t_ents)
      (set (fun t0 -> t0.t_cap) (fun f ->
        let n0 = fun r -> f r.t_cap in
        (fun x -> { t_arch = x.t_arch; t_ids = x.t_ids; t_kinds = x.t_kinds;
        t_len = x.t_len; t_cap = (n0 x); t_free = x.t_free; t_ents =
        x.t_ents; t_cols = x.t_cols; t_targets = x.t_targets; t_rels =
        x.t_rels })) (fun _ -> c) t))

(** val tbl_extend : table -> nat -> table **)

let tbl_extend t by_ =
  let required = add t.t_len by_ in
  if Nat.leb required t.t_cap then t else tbl_adjust t (cap_pow2 required)

(** val tbl_alloc : table -> nat -> table **)

let tbl_alloc t n0 =
  let t' = tbl_extend t n0 in
  set (fun t0 -> t0.t_len) (fun f ->
    let n1 = fun r -> f r.t_len in
    (fun x -> { t_arch = x.t_arch; t_ids = x.t_ids; t_kinds = x.t_kinds;
    t_len = (n1 x); t_cap = x.t_cap; t_free = x.t_free; t_ents = x.t_ents;
    t_cols = x.t_cols; t_targets = x.t_targets; t_rels = x.t_rels }))
    (fun _ -> add t'.t_len n0) t'

(** val tbl_add : table -> ent -> nat * table **)

let tbl_add t e =
  let idx = t.t_len in
  let t' = tbl_alloc t (S O) in
  (idx,
  (set (fun t0 -> t0.t_ents) (fun f ->
    let l = fun r -> f r.t_ents in
    (fun x -> { t_arch = x.t_arch; t_ids = x.t_ids; t_kinds = x.t_kinds;
    t_len = x.t_len; t_cap = x.t_cap; t_free = x.t_free; t_ents = (l x);
    t_cols = x.t_cols; t_targets = x.t_targets; t_rels = x.t_rels }))
    (fun _ -> upd idx e t'.t_ents) t'))

(** val col_set : ckind -> z list -> nat -> z list -> nat -> z list **)

let col_set k dst i src j =
  if k.ck_zs
  then dst
  else (match nth_error src j with
        | Some v -> upd i v dst
        | None -> dst)

(** val col_zero : ckind -> z list -> nat -> z list **)

let col_zero k col i =
  if k.ck_zs then col else upd i Z0 col

(** val map2 : ('a1 -> 'a2 -> 'a3) -> 'a1 list -> 'a2 list -> 'a3 list **)

let rec map2 f la lb =
  match la with
  | [] -> []
  | a :: ta -> (match lb with
                | [] -> []
                | b :: tb -> (f a b) :: (map2 f ta tb))

(** val tbl_remove : table -> nat -> bool * table **)

let tbl_remove t index =
  let last = sub t.t_len (S O) in
  let swapped = negb (Nat.eqb index last) in
  let ents' =
    if swapped
    then (match nth_error t.t_ents last with
          | Some e -> upd index e t.t_ents
          | None -> t.t_ents)
    else t.t_ents
  in
  let cols' =
    map2 (fun k col ->
      let col1 =
        if swapped
        then (match nth_error col last with
              | Some v -> upd index v col
              | None -> col)
        else col
      in
      col_zero k col1 last) t.t_kinds t.t_cols
  in
  (swapped,
  (set (fun t0 -> t0.t_len) (fun f ->
    let n0 = fun r -> f r.t_len in
    (fun x -> { t_arch = x.t_arch; t_ids = x.t_ids; t_kinds = x.t_kinds;
    t_len = (n0 x); t_cap = x.t_cap; t_free = x.t_free; t_ents = x.t_ents;
    t_cols = x.t_cols; t_targets = x.t_targets; t_rels = x.t_rels }))
    (fun _ -> last)
    (set (fun t0 -> t0.t_cols) (fun f ->
      let l = fun r -> f r.t_cols in
      (fun x -> { t_arch = x.t_arch; t_ids = x.t_ids; t_kinds = x.t_kinds;
      t_len = x.t_len; t_cap = x.t_cap; t_free = x.t_free; t_ents = x.t_ents;
      t_cols = (l x); t_targets = x.t_targets; t_rels = x.t_rels }))
      (fun _ -> cols')
      (set (fun t0 -> t0.t_ents) (fun f ->
        let l = fun r -> f r.t_ents in
        (fun x -> { t_arch = x.t_arch; t_ids = x.t_ids; t_kinds = x.t_kinds;
        t_len = x.t_len; t_cap = x.t_cap; t_free = x.t_free; t_ents = 
        (l x); t_cols = x.t_cols; t_targets = x.t_targets; t_rels =
        x.t_rels })) (fun _ -> ents') t))))

(** val zero_range : z list -> nat -> nat -> z list **)

let rec zero_range col start = function
| O -> col
| S n' -> zero_range (upd start Z0 col) (S start) n'

(** val col_reset : ckind -> z list -> nat -> z list **)

let col_reset k col len =
  if Nat.eqb len O
  then col
  else if (&&)
            (Nat.leb len (S (S (S (S (S (S (S (S (S (S (S (S (S (S (S (S (S
              (S (S (S (S (S (S (S (S (S (S (S (S (S (S (S (S (S (S (S (S (S
              (S (S (S (S (S (S (S (S (S (S (S (S (S (S (S (S (S (S (S (S (S
              (S (S (S (S (S
              O)))))))))))))))))))))))))))))))))))))))))))))))))))))))))))))))))
            k.ck_triv
       then if k.ck_zs then col else zero_range col O len
       else repeat Z0 (length col)

(** val tbl_reset : table -> table **)

let tbl_reset t =
  set (fun t0 -> t0.t_len) (fun f ->
    let n0 = fun r -> f r.t_len in
    (fun x -> { t_arch = x.t_arch; t_ids = x.t_ids; t_kinds = x.t_kinds;
    t_len = (n0 x); t_cap = x.t_cap; t_free = x.t_free; t_ents = x.t_ents;
    t_cols = x.t_cols; t_targets = x.t_targets; t_rels = x.t_rels }))
    (fun _ -> O)
    (set (fun t0 -> t0.t_cols) (fun f ->
      let l = fun r -> f r.t_cols in
      (fun x -> { t_arch = x.t_arch; t_ids = x.t_ids; t_kinds = x.t_kinds;
      t_len = x.t_len; t_cap = x.t_cap; t_free = x.t_free; t_ents = x.t_ents;
      t_cols = (l x); t_targets = x.t_targets; t_rels = x.t_rels }))
      (fun _ ->
      map2 (fun k col -> col_reset k col t.t_len) t.t_kinds t.t_cols) t)

(** val tbl_add_all : table -> table -> nat -> table **)

let tbl_add_all dst src count =
  let d = tbl_alloc dst count in
  let start = sub d.t_len count in
  set (fun t -> t.t_cols) (fun f ->
    let l = fun r -> f r.t_cols in
    (fun x -> { t_arch = x.t_arch; t_ids = x.t_ids; t_kinds = x.t_kinds;
    t_len = x.t_len; t_cap = x.t_cap; t_free = x.t_free; t_ents = x.t_ents;
    t_cols = (l x); t_targets = x.t_targets; t_rels = x.t_rels })) (fun _ ->
    map2 (fun dc sc -> copy_into dc start (firstn count sc)) d.t_cols
      src.t_cols)
    (set (fun t -> t.t_ents) (fun f ->
      let l = fun r -> f r.t_ents in
      (fun x -> { t_arch = x.t_arch; t_ids = x.t_ids; t_kinds = x.t_kinds;
      t_len = x.t_len; t_cap = x.t_cap; t_free = x.t_free; t_ents = (l x);
      t_cols = x.t_cols; t_targets = x.t_targets; t_rels = x.t_rels }))
      (fun _ -> copy_into d.t_ents start (firstn count src.t_ents)) d)

(** val tbl_add_all_entities : table -> table -> nat -> table **)

let tbl_add_all_entities dst src count =
  let d = tbl_alloc dst count in
  let start = sub d.t_len count in
  set (fun t -> t.t_ents) (fun f ->
    let l = fun r -> f r.t_ents in
    (fun x -> { t_arch = x.t_arch; t_ids = x.t_ids; t_kinds = x.t_kinds;
    t_len = x.t_len; t_cap = x.t_cap; t_free = x.t_free; t_ents = (l x);
    t_cols = x.t_cols; t_targets = x.t_targets; t_rels = x.t_rels }))
    (fun _ -> copy_into d.t_ents start (firstn count src.t_ents)) d

(** val tbl_colidx : table -> nat -> nat option **)

let tbl_colidx t c =
  index_of c t.t_ids

(** val tbl_target : table -> nat -> ent option **)

let tbl_target t c =
  match tbl_colidx t c with
  | Some i -> nth_error t.t_targets i
  | None -> None

(** val tbl_has_rels : table -> bool **)

let tbl_has_rels t =
  match t.t_rels with
  | [] -> false
  | _ :: _ -> true

(** val rels_match : table -> rel list -> bool option **)

let rec rels_match t = function
| [] -> Some true
| r :: rest ->
  let (c, tg) = r in
  (match tbl_target t c with
   | Some x -> if ent_eqb tg x then rels_match t rest else Some false
   | None -> Some false)

(** val tbl_matches : table -> rel list -> bool option **)

let tbl_matches t rels = match rels with
| [] -> Some true
| _ :: _ -> if tbl_has_rels t then rels_match t rels else Some true

type mres =
| MTrue
| MFalse
| MPanic of err

(** val rels_match_exact : table -> rel list -> mres **)

let rec rels_match_exact t = function
| [] -> MTrue
| r :: rest ->
  let (c, tg) = r in
  (match tbl_colidx t c with
   | Some i ->
     (match nth_error t.t_kinds i with
      | Some k ->
        (match nth_error t.t_targets i with
         | Some x ->
           if negb k.ck_rel
           then MPanic ENotRelation
           else if ent_eqb tg x then rels_match_exact t rest else MFalse
         | None -> MPanic EIndex)
      | None -> MPanic EIndex)
   | None -> rels_match_exact t rest)

(** val tbl_matches_exact : table -> rel list -> mres **)

let tbl_matches_exact t rels =
  if Nat.ltb (length rels) (length t.t_rels)
  then MPanic ERelUnspec
  else rels_match_exact t rels

(** val tids_remove : nat -> nat list -> nat list **)

let tids_remove id l =
  match index_of id l with
  | Some i ->
    let last = sub (length l) (S O) in
    let l' =
      if Nat.eqb i last
      then l
      else (match nth_error l last with
            | Some x -> upd i x l
            | None -> l)
    in
    firstn last l'
  | None -> l

(** val getT : nat -> table mW **)

let getT i =
  bind get (fun s -> of_opt (nth_error s.w_tables i) EIndex)

(** val modT : nat -> (table -> table) -> unit mW **)

let modT i f =
  modify (fun s ->
    set (fun w0 -> w0.w_tables) (fun f0 ->
      let l = fun r -> f0 r.w_tables in
      (fun x -> { w_cfg = x.w_cfg; w_reg = x.w_reg; w_pool = x.w_pool;
      w_index = x.w_index; w_istarget = x.w_istarget; w_archs = x.w_archs;
      w_tables = (l x); w_relarchs = x.w_relarchs; w_compindex =
      x.w_compindex; w_archcount = x.w_archcount; w_version = x.w_version;
      w_cheap = x.w_cheap; w_centries = x.w_centries; w_cpool = x.w_cpool;
      w_lock = x.w_lock; w_obs = x.w_obs; w_olists = x.w_olists; w_oagg =
      x.w_oagg; w_opool = x.w_opool; w_ototal = x.w_ototal; w_omax =
      x.w_omax; w_filters = x.w_filters; w_queries = x.w_queries; w_res =
      x.w_res; w_issued = x.w_issued; w_log = x.w_log })) (updf i f) s)

(** val setT : nat -> table -> unit mW **)

let setT i t =
  modT i (fun _ -> t)

(** val getA : nat -> arch mW **)

let getA i =
  bind get (fun s -> of_opt (nth_error s.w_archs i) EIndex)

(** val modA : nat -> (arch -> arch) -> unit mW **)

let modA i f =
  modify (fun s ->
    set (fun w0 -> w0.w_archs) (fun f0 ->
      let l = fun r -> f0 r.w_archs in
      (fun x -> { w_cfg = x.w_cfg; w_reg = x.w_reg; w_pool = x.w_pool;
      w_index = x.w_index; w_istarget = x.w_istarget; w_archs = (l x);
      w_tables = x.w_tables; w_relarchs = x.w_relarchs; w_compindex =
      x.w_compindex; w_archcount = x.w_archcount; w_version = x.w_version;
      w_cheap = x.w_cheap; w_centries = x.w_centries; w_cpool = x.w_cpool;
      w_lock = x.w_lock; w_obs = x.w_obs; w_olists = x.w_olists; w_oagg =
      x.w_oagg; w_opool = x.w_opool; w_ototal = x.w_ototal; w_omax =
      x.w_omax; w_filters = x.w_filters; w_queries = x.w_queries; w_res =
      x.w_res; w_issued = x.w_issued; w_log = x.w_log })) (updf i f) s)

(** val whenM : bool -> unit mW -> unit mW **)

let whenM b m0 =
  if b then m0 else ret ()

(** val on_err : 'a1 mW -> (w -> w) -> 'a1 mW **)

let on_err m0 h s =
  match m0 s with
  | Ok (a, s') -> Ok (a, s')
  | Err (e, s') -> Err (e, (h s'))

(** val is_locked : w -> bool **)

let is_locked s =
  lock_is_locked s.w_lock

(** val check_locked : unit mW **)

let check_locked =
  bind get (fun s -> guard (negb (is_locked s)) ELocked)

(** val lockM : nat mW **)

let lockM =
  bind get (fun s ->
    match lock_lock s.w_lock with
    | Some p0 ->
      let (b, l') = p0 in
      bind
        (put
          (set (fun w0 -> w0.w_lock) (fun f ->
            let l = fun r -> f r.w_lock in
            (fun x -> { w_cfg = x.w_cfg; w_reg = x.w_reg; w_pool = x.w_pool;
            w_index = x.w_index; w_istarget = x.w_istarget; w_archs =
            x.w_archs; w_tables = x.w_tables; w_relarchs = x.w_relarchs;
            w_compindex = x.w_compindex; w_archcount = x.w_archcount;
            w_version = x.w_version; w_cheap = x.w_cheap; w_centries =
            x.w_centries; w_cpool = x.w_cpool; w_lock = (l x); w_obs =
            x.w_obs; w_olists = x.w_olists; w_oagg = x.w_oagg; w_opool =
            x.w_opool; w_ototal = x.w_ototal; w_omax = x.w_omax; w_filters =
            x.w_filters; w_queries = x.w_queries; w_res = x.w_res; w_issued =
            x.w_issued; w_log = x.w_log })) (fun _ -> l') s)) (fun _ -> 
        ret b)
    | None -> fail EBits)

(** val unlockM : nat -> unit mW **)

let unlockM b =
  bind get (fun s ->
    match lock_unlock s.w_lock b with
    | Some l' ->
      put
        (set (fun w0 -> w0.w_lock) (fun f ->
          let l = fun r -> f r.w_lock in
          (fun x -> { w_cfg = x.w_cfg; w_reg = x.w_reg; w_pool = x.w_pool;
          w_index = x.w_index; w_istarget = x.w_istarget; w_archs =
          x.w_archs; w_tables = x.w_tables; w_relarchs = x.w_relarchs;
          w_compindex = x.w_compindex; w_archcount = x.w_archcount;
          w_version = x.w_version; w_cheap = x.w_cheap; w_centries =
          x.w_centries; w_cpool = x.w_cpool; w_lock = (l x); w_obs = x.w_obs;
          w_olists = x.w_olists; w_oagg = x.w_oagg; w_opool = x.w_opool;
          w_ototal = x.w_ototal; w_omax = x.w_omax; w_filters = x.w_filters;
          w_queries = x.w_queries; w_res = x.w_res; w_issued = x.w_issued;
          w_log = x.w_log })) (fun _ -> l') s)
    | None -> fail EUnbalanced)

(** val release_bit : nat -> w -> w **)

let release_bit b s =
  match lock_unlock s.w_lock b with
  | Some l' ->
    set (fun w0 -> w0.w_lock) (fun f ->
      let l = fun r -> f r.w_lock in
      (fun x -> { w_cfg = x.w_cfg; w_reg = x.w_reg; w_pool = x.w_pool;
      w_index = x.w_index; w_istarget = x.w_istarget; w_archs = x.w_archs;
      w_tables = x.w_tables; w_relarchs = x.w_relarchs; w_compindex =
      x.w_compindex; w_archcount = x.w_archcount; w_version = x.w_version;
      w_cheap = x.w_cheap; w_centries = x.w_centries; w_cpool = x.w_cpool;
      w_lock = (l x); w_obs = x.w_obs; w_olists = x.w_olists; w_oagg =
      x.w_oagg; w_opool = x.w_opool; w_ototal = x.w_ototal; w_omax =
      x.w_omax; w_filters = x.w_filters; w_queries = x.w_queries; w_res =
      x.w_res; w_issued = x.w_issued; w_log = x.w_log })) (fun _ -> l') s
  | None -> s

(** val with_deferred_unlock : nat -> 'a1 mW -> 'a1 mW **)

let with_deferred_unlock b m0 =
  on_err m0 (release_bit b)

(** val alive : w -> ent -> bool **)

let alive s e =
  pool_alive s.w_pool e

(** val is_rel_comp : w -> nat -> bool **)

let is_rel_comp s c =
  match nth_error s.w_reg c with
  | Some k -> k.ck_rel
  | None -> false

(** val arch_has_rels : arch -> bool **)

let arch_has_rels a =
  negb (Nat.eqb a.a_numrel O)

(** val find_exact : w -> nat list -> rel list -> (w, nat option) res **)

let rec find_exact s tabs rels =
  match tabs with
  | [] -> Ok (None, s)
  | t :: rest ->
    (match nth_error s.w_tables t with
     | Some tb ->
       (match tbl_matches_exact tb rels with
        | MTrue -> Ok ((Some t), s)
        | MFalse -> find_exact s rest rels
        | MPanic e -> Err (e, s))
     | None -> Err (EIndex, s))

(** val rels_distinct : rel list -> bool **)

let rec rels_distinct = function
| [] -> true
| r :: rest -> (&&) (negb (memb (fst r) (map fst rest))) (rels_distinct rest)

(** val arch_get_table : arch -> rel list -> nat option mW **)

let arch_get_table a rels =
  match a.a_tables with
  | [] -> ret None
  | t0 :: _ ->
    if negb (arch_has_rels a)
    then ret (Some t0)
    else bind (guard (negb (Nat.ltb (length rels) a.a_numrel)) ERelUnspec)
           (fun _ ->
           bind (guard (rels_distinct rels) ERelUnspec) (fun _ ->
             match rels with
             | [] -> fail EIndex
             | r :: _ ->
               let (c, tg) = r in
               bind (of_opt (index_of c a.a_comps) EIndex) (fun idx ->
                 bind (of_opt (nth_error a.a_reltabs idx) EIndex) (fun m0 ->
                   match afind (fst tg) m0 with
                   | Some tabs -> (fun s -> find_exact s tabs rels)
                   | None -> ret None))))

(** val arch_get_tables : arch -> rel list -> nat list option **)

let arch_get_tables a = function
| [] -> Some a.a_tables
| r :: _ ->
  let (c, tg) = r in
  if negb (arch_has_rels a)
  then Some a.a_tables
  else (match index_of c a.a_comps with
        | Some idx ->
          (match nth_error a.a_reltabs idx with
           | Some m0 ->
             (match afind (fst tg) m0 with
              | Some tabs -> Some tabs
              | None -> Some [])
           | None -> None)
        | None -> Some [])

(** val aappend :
    nat -> nat -> (nat * nat list) list -> (nat * nat list) list **)

let aappend k t m0 =
  match afind k m0 with
  | Some l -> aset k (app l (t :: [])) m0
  | None -> app m0 ((k, (t :: [])) :: [])

(** val aappend_new :
    nat -> nat -> (nat * nat list) list -> (nat * nat list) list **)

let aappend_new k t m0 =
  match afind k m0 with
  | Some l -> if memb t l then m0 else aset k (app l (t :: [])) m0
  | None -> app m0 ((k, (t :: [])) :: [])

(** val add_table_cols :
    nat -> nat -> ckind list -> ent list -> arch -> arch **)

let rec add_table_cols tid i kinds targets a =
  match kinds with
  | [] -> a
  | k :: ks ->
    (match targets with
     | [] -> a
     | tg :: tgs ->
       let a' =
         if k.ck_rel
         then set (fun a0 -> a0.a_tgttabs) (fun f ->
                let l = fun r -> f r.a_tgttabs in
                (fun x -> { a_mask = x.a_mask; a_comps = x.a_comps; a_isrel =
                x.a_isrel; a_tables = x.a_tables; a_free = x.a_free;
                a_reltabs = x.a_reltabs; a_tgttabs = (l x); a_numrel =
                x.a_numrel })) (aappend_new (fst tg) tid)
                (set (fun a0 -> a0.a_reltabs) (fun f ->
                  let l = fun r -> f r.a_reltabs in
                  (fun x -> { a_mask = x.a_mask; a_comps = x.a_comps;
                  a_isrel = x.a_isrel; a_tables = x.a_tables; a_free =
                  x.a_free; a_reltabs = (l x); a_tgttabs = x.a_tgttabs;
                  a_numrel = x.a_numrel })) (updf i (aappend (fst tg) tid)) a)
         else a
       in
       add_table_cols tid (S i) ks tgs a')

(** val arch_add_table : arch -> nat -> table -> arch **)

let arch_add_table a tid t =
  let a1 =
    set (fun a0 -> a0.a_tables) (fun f ->
      let l = fun r -> f r.a_tables in
      (fun x -> { a_mask = x.a_mask; a_comps = x.a_comps; a_isrel =
      x.a_isrel; a_tables = (l x); a_free = x.a_free; a_reltabs =
      x.a_reltabs; a_tgttabs = x.a_tgttabs; a_numrel = x.a_numrel }))
      (fun l -> app l (tid :: [])) a
  in
  if negb (arch_has_rels a)
  then a1
  else add_table_cols tid O t.t_kinds t.t_targets a1

(** val arch_free_table : arch -> nat -> arch **)

let arch_free_table a tid =
  let a1 =
    set (fun a0 -> a0.a_free) (fun f ->
      let l = fun r -> f r.a_free in
      (fun x -> { a_mask = x.a_mask; a_comps = x.a_comps; a_isrel =
      x.a_isrel; a_tables = x.a_tables; a_free = (l x); a_reltabs =
      x.a_reltabs; a_tgttabs = x.a_tgttabs; a_numrel = x.a_numrel }))
      (fun l -> app l (tid :: []))
      (set (fun a0 -> a0.a_tables) (fun f ->
        let l = fun r -> f r.a_tables in
        (fun x -> { a_mask = x.a_mask; a_comps = x.a_comps; a_isrel =
        x.a_isrel; a_tables = (l x); a_free = x.a_free; a_reltabs =
        x.a_reltabs; a_tgttabs = x.a_tgttabs; a_numrel = x.a_numrel }))
        (tids_remove tid) a)
  in
  if Nat.leb a.a_numrel (S O)
  then a1
  else set (fun a0 -> a0.a_tgttabs) (fun f ->
         let l = fun r -> f r.a_tgttabs in
         (fun x -> { a_mask = x.a_mask; a_comps = x.a_comps; a_isrel =
         x.a_isrel; a_tables = x.a_tables; a_free = x.a_free; a_reltabs =
         x.a_reltabs; a_tgttabs = (l x); a_numrel = x.a_numrel }))
         (amap_vals (tids_remove tid))
         (set (fun a0 -> a0.a_reltabs) (fun f ->
           let l = fun r -> f r.a_reltabs in
           (fun x -> { a_mask = x.a_mask; a_comps = x.a_comps; a_isrel =
           x.a_isrel; a_tables = x.a_tables; a_free = x.a_free; a_reltabs =
           (l x); a_tgttabs = x.a_tgttabs; a_numrel = x.a_numrel }))
           (map (amap_vals (tids_remove tid))) a1)

(** val remove_from_targets_cols :
    nat -> nat -> ckind list -> ent list -> arch -> arch **)

let rec remove_from_targets_cols tid i kinds targets a =
  match kinds with
  | [] -> a
  | k :: ks ->
    (match targets with
     | [] -> a
     | tg :: tgs ->
       let a' =
         if k.ck_rel
         then set (fun a0 -> a0.a_tgttabs) (fun f ->
                let l = fun r -> f r.a_tgttabs in
                (fun x -> { a_mask = x.a_mask; a_comps = x.a_comps; a_isrel =
                x.a_isrel; a_tables = x.a_tables; a_free = x.a_free;
                a_reltabs = x.a_reltabs; a_tgttabs = (l x); a_numrel =
                x.a_numrel })) (fun m0 ->
                match afind (fst tg) m0 with
                | Some l -> aset (fst tg) (tids_remove tid l) m0
                | None -> m0)
                (set (fun a0 -> a0.a_reltabs) (fun f ->
                  let l = fun r -> f r.a_reltabs in
                  (fun x -> { a_mask = x.a_mask; a_comps = x.a_comps;
                  a_isrel = x.a_isrel; a_tables = x.a_tables; a_free =
                  x.a_free; a_reltabs = (l x); a_tgttabs = x.a_tgttabs;
                  a_numrel = x.a_numrel }))
                  (updf i (fun m0 ->
                    match afind (fst tg) m0 with
                    | Some l -> aset (fst tg) (tids_remove tid l) m0
                    | None -> m0)) a)
         else a
       in
       remove_from_targets_cols tid (S i) ks tgs a')

(** val arch_remove_target : arch -> nat -> arch **)

let arch_remove_target a id =
  set (fun a0 -> a0.a_tgttabs) (fun f ->
    let l = fun r -> f r.a_tgttabs in
    (fun x -> { a_mask = x.a_mask; a_comps = x.a_comps; a_isrel = x.a_isrel;
    a_tables = x.a_tables; a_free = x.a_free; a_reltabs = x.a_reltabs;
    a_tgttabs = (l x); a_numrel = x.a_numrel })) (adel id)
    (set (fun a0 -> a0.a_reltabs) (fun f ->
      let l = fun r -> f r.a_reltabs in
      (fun x -> { a_mask = x.a_mask; a_comps = x.a_comps; a_isrel =
      x.a_isrel; a_tables = x.a_tables; a_free = x.a_free; a_reltabs = 
      (l x); a_tgttabs = x.a_tgttabs; a_numrel = x.a_numrel }))
      (map2 (fun r m0 -> if r then adel id m0 else m0) a.a_isrel) a)

(** val filter_matches : fobj -> mask0 -> bool **)

let filter_matches f m0 =
  (&&) (mk_contains m0 f.f_mask)
    ((||) (negb f.f_haswithout) (negb (mk_contains_any m0 f.f_without)))

(** val cache_add_table : nat -> table -> mask0 -> unit mW **)

let cache_add_table tid t am =
  bind get (fun s ->
    forM_ s.w_centries (fun addr ->
      bind get (fun s0 ->
        match nth_error s0.w_cheap addr with
        | Some e ->
          (match nth_error s0.w_filters e.ce_filter with
           | Some f ->
             if negb (filter_matches f am)
             then ret ()
             else bind
                    (if tbl_has_rels t
                     then of_opt (tbl_matches t e.ce_rels) ENil
                     else ret true) (fun mt ->
                    whenM mt
                      (modify (fun s1 ->
                        set (fun w0 -> w0.w_cheap) (fun f0 ->
                          let l = fun r -> f0 r.w_cheap in
                          (fun x -> { w_cfg = x.w_cfg; w_reg = x.w_reg;
                          w_pool = x.w_pool; w_index = x.w_index;
                          w_istarget = x.w_istarget; w_archs = x.w_archs;
                          w_tables = x.w_tables; w_relarchs = x.w_relarchs;
                          w_compindex = x.w_compindex; w_archcount =
                          x.w_archcount; w_version = x.w_version; w_cheap =
                          (l x); w_centries = x.w_centries; w_cpool =
                          x.w_cpool; w_lock = x.w_lock; w_obs = x.w_obs;
                          w_olists = x.w_olists; w_oagg = x.w_oagg; w_opool =
                          x.w_opool; w_ototal = x.w_ototal; w_omax =
                          x.w_omax; w_filters = x.w_filters; w_queries =
                          x.w_queries; w_res = x.w_res; w_issued =
                          x.w_issued; w_log = x.w_log }))
                          (updf addr (fun e0 ->
                            set (fun c -> c.ce_tables) (fun f0 ->
                              let l = fun r -> f0 r.ce_tables in
                              (fun x -> { ce_id = x.ce_id; ce_filter =
                              x.ce_filter; ce_rels = x.ce_rels; ce_tables =
                              (l x) })) (fun l -> app l (tid :: [])) e0)) s1)))
           | None -> fail EIndex)
        | None -> fail EIndex)))

(** val cache_remove_table : nat -> unit mW **)

let cache_remove_table tid =
  bind get (fun s ->
    forM_ s.w_centries (fun addr ->
      modify (fun s0 ->
        set (fun w0 -> w0.w_cheap) (fun f ->
          let l = fun r -> f r.w_cheap in
          (fun x -> { w_cfg = x.w_cfg; w_reg = x.w_reg; w_pool = x.w_pool;
          w_index = x.w_index; w_istarget = x.w_istarget; w_archs =
          x.w_archs; w_tables = x.w_tables; w_relarchs = x.w_relarchs;
          w_compindex = x.w_compindex; w_archcount = x.w_archcount;
          w_version = x.w_version; w_cheap = (l x); w_centries =
          x.w_centries; w_cpool = x.w_cpool; w_lock = x.w_lock; w_obs =
          x.w_obs; w_olists = x.w_olists; w_oagg = x.w_oagg; w_opool =
          x.w_opool; w_ototal = x.w_ototal; w_omax = x.w_omax; w_filters =
          x.w_filters; w_queries = x.w_queries; w_res = x.w_res; w_issued =
          x.w_issued; w_log = x.w_log }))
          (updf addr (fun e ->
            set (fun c -> c.ce_tables) (fun f ->
              let l = fun r -> f r.ce_tables in
              (fun x -> { ce_id = x.ce_id; ce_filter = x.ce_filter; ce_rels =
              x.ce_rels; ce_tables = (l x) })) (tids_remove tid) e)) s0)))

(** val find_arch : w -> mask0 -> nat option **)

let find_arch s m0 =
  let rec go l i =
    match l with
    | [] -> None
    | a :: t -> if N.eqb a.a_mask m0 then Some i else go t (S i)
  in go s.w_archs O

(** val kind_of : w -> nat -> ckind **)

let kind_of s c =
  match nth_error s.w_reg c with
  | Some k -> k
  | None -> { ck_rel = false; ck_zs = false; ck_triv = true }

(** val create_archetype_bare : mask0 -> nat mW **)

let create_archetype_bare m0 =
  bind get (fun s ->
    let comps = mk_to_list m0 (length s.w_reg) in
    let index = length s.w_archs in
    let isrel = map (fun c -> (kind_of s c).ck_rel) comps in
    let numrel = length (filter (fun b -> b) isrel) in
    let a = { a_mask = m0; a_comps = comps; a_isrel = isrel; a_tables = [];
      a_free = []; a_reltabs = (map (fun _ -> []) comps); a_tgttabs = [];
      a_numrel = numrel }
    in
    bind
      (put
        (set (fun w0 -> w0.w_relarchs) (fun f ->
          let l = fun r -> f r.w_relarchs in
          (fun x -> { w_cfg = x.w_cfg; w_reg = x.w_reg; w_pool = x.w_pool;
          w_index = x.w_index; w_istarget = x.w_istarget; w_archs =
          x.w_archs; w_tables = x.w_tables; w_relarchs = (l x); w_compindex =
          x.w_compindex; w_archcount = x.w_archcount; w_version =
          x.w_version; w_cheap = x.w_cheap; w_centries = x.w_centries;
          w_cpool = x.w_cpool; w_lock = x.w_lock; w_obs = x.w_obs; w_olists =
          x.w_olists; w_oagg = x.w_oagg; w_opool = x.w_opool; w_ototal =
          x.w_ototal; w_omax = x.w_omax; w_filters = x.w_filters; w_queries =
          x.w_queries; w_res = x.w_res; w_issued = x.w_issued; w_log =
          x.w_log })) (fun l ->
          if Nat.eqb numrel O then l else app l (index :: []))
          (set (fun w0 -> w0.w_version) (fun f ->
            let n0 = fun r -> f r.w_version in
            (fun x -> { w_cfg = x.w_cfg; w_reg = x.w_reg; w_pool = x.w_pool;
            w_index = x.w_index; w_istarget = x.w_istarget; w_archs =
            x.w_archs; w_tables = x.w_tables; w_relarchs = x.w_relarchs;
            w_compindex = x.w_compindex; w_archcount = x.w_archcount;
            w_version = (n0 x); w_cheap = x.w_cheap; w_centries =
            x.w_centries; w_cpool = x.w_cpool; w_lock = x.w_lock; w_obs =
            x.w_obs; w_olists = x.w_olists; w_oagg = x.w_oagg; w_opool =
            x.w_opool; w_ototal = x.w_ototal; w_omax = x.w_omax; w_filters =
            x.w_filters; w_queries = x.w_queries; w_res = x.w_res; w_issued =
            x.w_issued; w_log = x.w_log })) (fun v ->
            N.modulo (N.add v (N.of_nat (length comps))) (Npos (XO (XO (XO
              (XO (XO (XO (XO (XO (XO (XO (XO (XO (XO (XO (XO (XO (XO (XO (XO
              (XO (XO (XO (XO (XO (XO (XO (XO (XO (XO (XO (XO (XO
              XH))))))))))))))))))))))))))))))))))
            (set (fun w0 -> w0.w_archcount) (fun f ->
              let l = fun r -> f r.w_archcount in
              (fun x -> { w_cfg = x.w_cfg; w_reg = x.w_reg; w_pool =
              x.w_pool; w_index = x.w_index; w_istarget = x.w_istarget;
              w_archs = x.w_archs; w_tables = x.w_tables; w_relarchs =
              x.w_relarchs; w_compindex = x.w_compindex; w_archcount = 
              (l x); w_version = x.w_version; w_cheap = x.w_cheap;
              w_centries = x.w_centries; w_cpool = x.w_cpool; w_lock =
              x.w_lock; w_obs = x.w_obs; w_olists = x.w_olists; w_oagg =
              x.w_oagg; w_opool = x.w_opool; w_ototal = x.w_ototal; w_omax =
              x.w_omax; w_filters = x.w_filters; w_queries = x.w_queries;
              w_res = x.w_res; w_issued = x.w_issued; w_log = x.w_log }))
              (fun ac ->
              fold_left (fun ac0 c -> updf c (fun x -> S x) ac0) comps ac)
              (set (fun w0 -> w0.w_compindex) (fun f ->
                let l = fun r -> f r.w_compindex in
                (fun x -> { w_cfg = x.w_cfg; w_reg = x.w_reg; w_pool =
                x.w_pool; w_index = x.w_index; w_istarget = x.w_istarget;
                w_archs = x.w_archs; w_tables = x.w_tables; w_relarchs =
                x.w_relarchs; w_compindex = (l x); w_archcount =
                x.w_archcount; w_version = x.w_version; w_cheap = x.w_cheap;
                w_centries = x.w_centries; w_cpool = x.w_cpool; w_lock =
                x.w_lock; w_obs = x.w_obs; w_olists = x.w_olists; w_oagg =
                x.w_oagg; w_opool = x.w_opool; w_ototal = x.w_ototal;
                w_omax = x.w_omax; w_filters = x.w_filters; w_queries =
                x.w_queries; w_res = x.w_res; w_issued = x.w_issued; w_log =
                x.w_log })) (fun ci ->
                fold_left (fun ci0 c ->
                  updf c (fun l -> app l (index :: [])) ci0) comps ci)
                (set (fun w0 -> w0.w_archs) (fun f ->
                  let l = fun r -> f r.w_archs in
                  (fun x -> { w_cfg = x.w_cfg; w_reg = x.w_reg; w_pool =
                  x.w_pool; w_index = x.w_index; w_istarget = x.w_istarget;
                  w_archs = (l x); w_tables = x.w_tables; w_relarchs =
                  x.w_relarchs; w_compindex = x.w_compindex; w_archcount =
                  x.w_archcount; w_version = x.w_version; w_cheap =
                  x.w_cheap; w_centries = x.w_centries; w_cpool = x.w_cpool;
                  w_lock = x.w_lock; w_obs = x.w_obs; w_olists = x.w_olists;
                  w_oagg = x.w_oagg; w_opool = x.w_opool; w_ototal =
                  x.w_ototal; w_omax = x.w_omax; w_filters = x.w_filters;
                  w_queries = x.w_queries; w_res = x.w_res; w_issued =
                  x.w_issued; w_log = x.w_log })) (fun l -> app l (a :: []))
                  s)))))) (fun _ -> ret index))

(** val new_table :
    nat -> arch -> ckind list -> nat -> ent list -> rel list -> table **)

let new_table aid a kinds cap targets rels =
  { t_arch = aid; t_ids = a.a_comps; t_kinds = kinds; t_len = O; t_cap = cap;
    t_free = false; t_ents = (repeat zero_ent cap); t_cols =
    (map (fun _ -> repeat Z0 cap) a.a_comps); t_targets = targets; t_rels =
    rels }

(** val place_targets : arch -> rel list -> ent list -> ent list option **)

let rec place_targets a rels targets =
  match rels with
  | [] -> Some targets
  | r :: rest ->
    let (c, tg) = r in
    (match index_of c a.a_comps with
     | Some idx -> place_targets a rest (upd idx tg targets)
     | None -> None)

(** val register_targets : rel list -> unit mW **)

let register_targets rels =
  forM_ rels (fun r ->
    bind get (fun s ->
      bind (guard (Nat.ltb (fst (snd r)) (length s.w_istarget)) EIndex)
        (fun _ ->
        modify (fun s0 ->
          set (fun w0 -> w0.w_istarget) (fun f ->
            let l = fun r0 -> f r0.w_istarget in
            (fun x -> { w_cfg = x.w_cfg; w_reg = x.w_reg; w_pool = x.w_pool;
            w_index = x.w_index; w_istarget = (l x); w_archs = x.w_archs;
            w_tables = x.w_tables; w_relarchs = x.w_relarchs; w_compindex =
            x.w_compindex; w_archcount = x.w_archcount; w_version =
            x.w_version; w_cheap = x.w_cheap; w_centries = x.w_centries;
            w_cpool = x.w_cpool; w_lock = x.w_lock; w_obs = x.w_obs;
            w_olists = x.w_olists; w_oagg = x.w_oagg; w_opool = x.w_opool;
            w_ototal = x.w_ototal; w_omax = x.w_omax; w_filters =
            x.w_filters; w_queries = x.w_queries; w_res = x.w_res; w_issued =
            x.w_issued; w_log = x.w_log })) (upd (fst (snd r)) true) s0))))

(** val check_rel : rel -> unit mW **)

let check_rel r =
  bind get (fun s ->
    bind (guard (is_rel_comp s (fst r)) ENotRelation) (fun _ ->
      guard ((||) (Nat.eqb (fst (snd r)) O) (alive s (snd r))) EDeadTarget))

(** val create_table : nat -> rel list -> nat mW **)

let create_table aid rels =
  bind (getA aid) (fun a ->
    bind (guard (negb (Nat.ltb (length rels) a.a_numrel)) ERelUnspec)
      (fun _ ->
      bind (guard (rels_distinct rels) ERelUnspec) (fun _ ->
        bind
          (of_opt (place_targets a rels (repeat zero_ent (length a.a_comps)))
            EIndex) (fun targets ->
          bind (forM_ rels check_rel) (fun _ ->
            bind (register_targets rels) (fun _ ->
              bind get (fun s ->
                bind
                  (match rev a.a_free with
                   | [] ->
                     let tid = length s.w_tables in
                     let cap =
                       if arch_has_rels a
                       then s.w_cfg.cf_caprel
                       else s.w_cfg.cf_cap
                     in
                     let kinds = map (kind_of s) a.a_comps in
                     bind
                       (modify (fun s0 ->
                         set (fun w0 -> w0.w_tables) (fun f ->
                           let l = fun r -> f r.w_tables in
                           (fun x -> { w_cfg = x.w_cfg; w_reg = x.w_reg;
                           w_pool = x.w_pool; w_index = x.w_index;
                           w_istarget = x.w_istarget; w_archs = x.w_archs;
                           w_tables = (l x); w_relarchs = x.w_relarchs;
                           w_compindex = x.w_compindex; w_archcount =
                           x.w_archcount; w_version = x.w_version; w_cheap =
                           x.w_cheap; w_centries = x.w_centries; w_cpool =
                           x.w_cpool; w_lock = x.w_lock; w_obs = x.w_obs;
                           w_olists = x.w_olists; w_oagg = x.w_oagg;
                           w_opool = x.w_opool; w_ototal = x.w_ototal;
                           w_omax = x.w_omax; w_filters = x.w_filters;
                           w_queries = x.w_queries; w_res = x.w_res;
                           w_issued = x.w_issued; w_log = x.w_log }))
                           (fun l ->
                           app l
                             ((new_table aid a kinds cap targets rels) :: []))
                           s0)) (fun _ -> ret tid)
                   | f :: _ ->
                     bind
                       (modA aid (fun a0 ->
                         set (fun a1 -> a1.a_free) (fun f0 ->
                           let l = fun r -> f0 r.a_free in
                           (fun x -> { a_mask = x.a_mask; a_comps =
                           x.a_comps; a_isrel = x.a_isrel; a_tables =
                           x.a_tables; a_free = (l x); a_reltabs =
                           x.a_reltabs; a_tgttabs = x.a_tgttabs; a_numrel =
                           x.a_numrel })) (fun l ->
                           firstn (sub (length l) (S O)) l) a0)) (fun _ ->
                       bind
                         (modT f (fun t ->
                           set (fun t0 -> t0.t_free) (fun f0 ->
                             let b = fun r -> f0 r.t_free in
                             (fun x -> { t_arch = x.t_arch; t_ids = x.t_ids;
                             t_kinds = x.t_kinds; t_len = x.t_len; t_cap =
                             x.t_cap; t_free = (b x); t_ents = x.t_ents;
                             t_cols = x.t_cols; t_targets = x.t_targets;
                             t_rels = x.t_rels })) (fun _ -> false)
                             (set (fun t0 -> t0.t_targets) (fun f0 ->
                               let l = fun r -> f0 r.t_targets in
                               (fun x -> { t_arch = x.t_arch; t_ids =
                               x.t_ids; t_kinds = x.t_kinds; t_len = x.t_len;
                               t_cap = x.t_cap; t_free = x.t_free; t_ents =
                               x.t_ents; t_cols = x.t_cols; t_targets =
                               (l x); t_rels = x.t_rels })) (fun _ ->
                               targets)
                               (set (fun t0 -> t0.t_rels) (fun f0 ->
                                 let l = fun r -> f0 r.t_rels in
                                 (fun x -> { t_arch = x.t_arch; t_ids =
                                 x.t_ids; t_kinds = x.t_kinds; t_len =
                                 x.t_len; t_cap = x.t_cap; t_free = x.t_free;
                                 t_ents = x.t_ents; t_cols = x.t_cols;
                                 t_targets = x.t_targets; t_rels = (l x) }))
                                 (fun _ -> rels) t)))) (fun _ -> ret f)))
                  (fun tid ->
                  bind (getT tid) (fun t ->
                    bind (modA aid (fun a0 -> arch_add_table a0 tid t))
                      (fun _ ->
                      bind (cache_add_table tid t a.a_mask) (fun _ -> ret tid)))))))))))

(** val create_archetype : mask0 -> nat mW **)

let create_archetype m0 =
  bind (create_archetype_bare m0) (fun aid ->
    bind (getA aid) (fun a ->
      bind
        (if Nat.eqb a.a_numrel O
         then bind (create_table aid []) (fun _ -> ret ())
         else ret ()) (fun _ -> ret aid)))

(** val find_or_create_arch : mask0 -> nat mW **)

let find_or_create_arch m0 =
  bind get (fun s ->
    match find_arch s m0 with
    | Some i -> ret i
    | None -> create_archetype m0)

(** val get_or_create_table : nat -> rel list -> nat mW **)

let get_or_create_table aid rels =
  bind (getA aid) (fun a ->
    bind (arch_get_table a rels) (fun ot ->
      match ot with
      | Some t -> ret t
      | None -> create_table aid rels))

(** val gf_remove : nat list -> mask0 -> mask0 mW **)

let rec gf_remove ids m0 =
  match ids with
  | [] -> ret m0
  | c :: t ->
    if mk_get m0 c then gf_remove t (mk_clear m0 c) else fail EMissingComp

(** val gf_add : mask0 option -> nat list -> mask0 -> mask0 mW **)

let rec gf_add start ids m0 =
  match ids with
  | [] -> ret m0
  | c :: t ->
    if mk_get m0 c
    then fail EHasComp
    else if match start with
            | Some st -> mk_get st c
            | None -> false
         then fail EMisuse
         else gf_add start t (mk_set m0 c)

(** val surviving_rels : arch -> rel list -> rel list * bool **)

let surviving_rels a old =
  ((filter (fun r -> mk_get a.a_mask (fst r)) old),
    (existsb (fun r -> negb (mk_get a.a_mask (fst r))) old))

(** val find_or_create_table_add :
    nat -> nat list -> rel list -> mask0 -> ((nat * nat) * mask0) mW **)

let find_or_create_table_add old add0 rels m0 =
  bind (gf_add None add0 m0) (fun m1 ->
    bind (find_or_create_arch m1) (fun aid ->
      bind (getT old) (fun ot ->
        let all =
          match rels with
          | [] -> ot.t_rels
          | _ :: _ -> app ot.t_rels rels
        in
        bind (get_or_create_table aid all) (fun tid -> ret ((tid, aid), m1)))))

(** val find_or_create_table_remove :
    nat -> nat list -> mask0 -> (((nat * nat) * mask0) * bool) mW **)

let find_or_create_table_remove old rem m0 =
  bind (gf_remove rem m0) (fun m1 ->
    bind (find_or_create_arch m1) (fun aid ->
      bind (getA aid) (fun a ->
        bind (getT old) (fun ot ->
          let (all, removed) = surviving_rels a ot.t_rels in
          bind (get_or_create_table aid all) (fun tid ->
            ret (((tid, aid), m1), removed))))))

(** val find_or_create_table :
    nat -> nat list -> nat list -> rel list -> mask0 ->
    (((nat * nat) * mask0) * bool) mW **)

let find_or_create_table old add0 rem rels m0 =
  bind (gf_remove rem m0) (fun m1 ->
    bind (gf_add (Some m0) add0 m1) (fun m2 ->
      bind (find_or_create_arch m2) (fun aid ->
        bind (getA aid) (fun a ->
          bind (getT old) (fun ot ->
            match rem with
            | [] ->
              let all =
                match rels with
                | [] -> ot.t_rels
                | _ :: _ -> app ot.t_rels rels
              in
              let removed = false in
              bind (get_or_create_table aid all) (fun tid ->
                ret (((tid, aid), m2), removed))
            | _ :: _ ->
              let (sv, rm) = surviving_rels a ot.t_rels in
              let all = app sv rels in
              bind (get_or_create_table aid all) (fun tid ->
                ret (((tid, aid), m2), rm)))))))

(** val set_index : nat -> (nat option * nat) -> unit mW **)

let set_index id v =
  modify (fun s ->
    if Nat.eqb id (length s.w_index)
    then set (fun w0 -> w0.w_istarget) (fun f ->
           let l = fun r -> f r.w_istarget in
           (fun x -> { w_cfg = x.w_cfg; w_reg = x.w_reg; w_pool = x.w_pool;
           w_index = x.w_index; w_istarget = (l x); w_archs = x.w_archs;
           w_tables = x.w_tables; w_relarchs = x.w_relarchs; w_compindex =
           x.w_compindex; w_archcount = x.w_archcount; w_version =
           x.w_version; w_cheap = x.w_cheap; w_centries = x.w_centries;
           w_cpool = x.w_cpool; w_lock = x.w_lock; w_obs = x.w_obs;
           w_olists = x.w_olists; w_oagg = x.w_oagg; w_opool = x.w_opool;
           w_ototal = x.w_ototal; w_omax = x.w_omax; w_filters = x.w_filters;
           w_queries = x.w_queries; w_res = x.w_res; w_issued = x.w_issued;
           w_log = x.w_log })) (fun l -> app l (false :: []))
           (set (fun w0 -> w0.w_index) (fun f ->
             let l = fun r -> f r.w_index in
             (fun x -> { w_cfg = x.w_cfg; w_reg = x.w_reg; w_pool = x.w_pool;
             w_index = (l x); w_istarget = x.w_istarget; w_archs = x.w_archs;
             w_tables = x.w_tables; w_relarchs = x.w_relarchs; w_compindex =
             x.w_compindex; w_archcount = x.w_archcount; w_version =
             x.w_version; w_cheap = x.w_cheap; w_centries = x.w_centries;
             w_cpool = x.w_cpool; w_lock = x.w_lock; w_obs = x.w_obs;
             w_olists = x.w_olists; w_oagg = x.w_oagg; w_opool = x.w_opool;
             w_ototal = x.w_ototal; w_omax = x.w_omax; w_filters =
             x.w_filters; w_queries = x.w_queries; w_res = x.w_res;
             w_issued = x.w_issued; w_log = x.w_log })) (fun l ->
             app l (v :: [])) s)
    else set (fun w0 -> w0.w_index) (fun f ->
           let l = fun r -> f r.w_index in
           (fun x -> { w_cfg = x.w_cfg; w_reg = x.w_reg; w_pool = x.w_pool;
           w_index = (l x); w_istarget = x.w_istarget; w_archs = x.w_archs;
           w_tables = x.w_tables; w_relarchs = x.w_relarchs; w_compindex =
           x.w_compindex; w_archcount = x.w_archcount; w_version =
           x.w_version; w_cheap = x.w_cheap; w_centries = x.w_centries;
           w_cpool = x.w_cpool; w_lock = x.w_lock; w_obs = x.w_obs;
           w_olists = x.w_olists; w_oagg = x.w_oagg; w_opool = x.w_opool;
           w_ototal = x.w_ototal; w_omax = x.w_omax; w_filters = x.w_filters;
           w_queries = x.w_queries; w_res = x.w_res; w_issued = x.w_issued;
           w_log = x.w_log })) (upd id v) s)

(** val get_index : ent -> (nat * nat) mW **)

let get_index e =
  bind get (fun s ->
    match nth_error s.w_index (fst e) with
    | Some p0 ->
      let (o, r) = p0 in
      (match o with
       | Some t -> ret (t, r)
       | None -> fail EIndex)
    | None -> fail EIndex)

(** val pool_getM : ent mW **)

let pool_getM =
  bind get (fun s ->
    let (e, p') = pool_get s.w_pool in
    bind
      (put
        (set (fun w0 -> w0.w_pool) (fun f ->
          let p0 = fun r -> f r.w_pool in
          (fun x -> { w_cfg = x.w_cfg; w_reg = x.w_reg; w_pool = (p0 x);
          w_index = x.w_index; w_istarget = x.w_istarget; w_archs =
          x.w_archs; w_tables = x.w_tables; w_relarchs = x.w_relarchs;
          w_compindex = x.w_compindex; w_archcount = x.w_archcount;
          w_version = x.w_version; w_cheap = x.w_cheap; w_centries =
          x.w_centries; w_cpool = x.w_cpool; w_lock = x.w_lock; w_obs =
          x.w_obs; w_olists = x.w_olists; w_oagg = x.w_oagg; w_opool =
          x.w_opool; w_ototal = x.w_ototal; w_omax = x.w_omax; w_filters =
          x.w_filters; w_queries = x.w_queries; w_res = x.w_res; w_issued =
          x.w_issued; w_log = x.w_log })) (fun _ -> p') s)) (fun _ -> 
      ret e))

(** val pool_recycleM : ent -> unit mW **)

let pool_recycleM e =
  bind get (fun s ->
    match pool_recycle s.w_pool e with
    | Some p' ->
      put
        (set (fun w0 -> w0.w_pool) (fun f ->
          let p0 = fun r -> f r.w_pool in
          (fun x -> { w_cfg = x.w_cfg; w_reg = x.w_reg; w_pool = (p0 x);
          w_index = x.w_index; w_istarget = x.w_istarget; w_archs =
          x.w_archs; w_tables = x.w_tables; w_relarchs = x.w_relarchs;
          w_compindex = x.w_compindex; w_archcount = x.w_archcount;
          w_version = x.w_version; w_cheap = x.w_cheap; w_centries =
          x.w_centries; w_cpool = x.w_cpool; w_lock = x.w_lock; w_obs =
          x.w_obs; w_olists = x.w_olists; w_oagg = x.w_oagg; w_opool =
          x.w_opool; w_ototal = x.w_ototal; w_omax = x.w_omax; w_filters =
          x.w_filters; w_queries = x.w_queries; w_res = x.w_res; w_issued =
          x.w_issued; w_log = x.w_log })) (fun _ -> p') s)
    | None -> fail EReserved)

(** val tbl_addM : nat -> ent -> nat mW **)

let tbl_addM tid e =
  bind (getT tid) (fun t ->
    let (idx, t') = tbl_add t e in bind (setT tid t') (fun _ -> ret idx))

(** val remove_row : nat -> nat -> unit mW **)

let remove_row tid row =
  bind (getT tid) (fun t ->
    let (swapped, t') = tbl_remove t row in
    bind (setT tid t') (fun _ ->
      whenM swapped
        (match nth_error t'.t_ents row with
         | Some se ->
           modify (fun s ->
             set (fun w0 -> w0.w_index) (fun f ->
               let l = fun r -> f r.w_index in
               (fun x -> { w_cfg = x.w_cfg; w_reg = x.w_reg; w_pool =
               x.w_pool; w_index = (l x); w_istarget = x.w_istarget;
               w_archs = x.w_archs; w_tables = x.w_tables; w_relarchs =
               x.w_relarchs; w_compindex = x.w_compindex; w_archcount =
               x.w_archcount; w_version = x.w_version; w_cheap = x.w_cheap;
               w_centries = x.w_centries; w_cpool = x.w_cpool; w_lock =
               x.w_lock; w_obs = x.w_obs; w_olists = x.w_olists; w_oagg =
               x.w_oagg; w_opool = x.w_opool; w_ototal = x.w_ototal; w_omax =
               x.w_omax; w_filters = x.w_filters; w_queries = x.w_queries;
               w_res = x.w_res; w_issued = x.w_issued; w_log = x.w_log }))
               (updf (fst se) (fun ix -> ((fst ix), row))) s)
         | None -> fail EIndex)))

(** val copy_row : nat -> nat -> mask0 -> nat -> nat -> unit mW **)

let copy_row old new0 m0 row nidx =
  bind (getT old) (fun ot ->
    forM_ ot.t_ids (fun c ->
      if mk_get m0 c
      then bind (getT old) (fun ot0 ->
             bind (getT new0) (fun nt ->
               match tbl_colidx ot0 c with
               | Some oi ->
                 (match tbl_colidx nt c with
                  | Some ni ->
                    (match nth_error ot0.t_cols oi with
                     | Some src ->
                       (match nth_error nt.t_kinds ni with
                        | Some k ->
                          modT new0 (fun t ->
                            set (fun t0 -> t0.t_cols) (fun f ->
                              let l = fun r -> f r.t_cols in
                              (fun x -> { t_arch = x.t_arch; t_ids = x.t_ids;
                              t_kinds = x.t_kinds; t_len = x.t_len; t_cap =
                              x.t_cap; t_free = x.t_free; t_ents = x.t_ents;
                              t_cols = (l x); t_targets = x.t_targets;
                              t_rels = x.t_rels }))
                              (updf ni (fun dst ->
                                col_set k dst nidx src row)) t)
                        | None -> fail EIndex)
                     | None -> fail EIndex)
                  | None -> fail ENil)
               | None -> fail ENil))
      else ret ()))

(** val move_entities : nat -> nat -> nat -> unit mW **)

let move_entities src dst count =
  bind (getT src) (fun st ->
    bind (getT dst) (fun dt ->
      let old_len = dt.t_len in
      let dt' = tbl_add_all dt st count in
      bind (setT dst dt') (fun _ ->
        bind
          (forM_ (seq old_len (sub dt'.t_len old_len)) (fun i ->
            match nth_error dt'.t_ents i with
            | Some e ->
              modify (fun s ->
                set (fun w0 -> w0.w_index) (fun f ->
                  let l = fun r -> f r.w_index in
                  (fun x -> { w_cfg = x.w_cfg; w_reg = x.w_reg; w_pool =
                  x.w_pool; w_index = (l x); w_istarget = x.w_istarget;
                  w_archs = x.w_archs; w_tables = x.w_tables; w_relarchs =
                  x.w_relarchs; w_compindex = x.w_compindex; w_archcount =
                  x.w_archcount; w_version = x.w_version; w_cheap =
                  x.w_cheap; w_centries = x.w_centries; w_cpool = x.w_cpool;
                  w_lock = x.w_lock; w_obs = x.w_obs; w_olists = x.w_olists;
                  w_oagg = x.w_oagg; w_opool = x.w_opool; w_ototal =
                  x.w_ototal; w_omax = x.w_omax; w_filters = x.w_filters;
                  w_queries = x.w_queries; w_res = x.w_res; w_issued =
                  x.w_issued; w_log = x.w_log }))
                  (upd (fst e) ((Some dst), i)) s)
            | None -> fail EIndex)) (fun _ -> modT src tbl_reset))))

(** val exchange_targets_unchecked : table -> rel list -> rel list mW **)

let exchange_targets_unchecked t rels =
  bind
    (let rec go rels0 tg =
       match rels0 with
       | [] -> ret tg
       | r :: rest ->
         let (c, x) = r in
         (match tbl_colidx t c with
          | Some i -> go rest (upd i x tg)
          | None -> fail ENil)
     in go rels t.t_targets) (fun targets ->
    ret
      (map (fun p0 -> ((fst (fst p0)), (snd p0)))
        (filter (fun p0 -> (snd (fst p0)).ck_rel)
          (combine (combine t.t_ids t.t_kinds) targets))))

(** val exchange_targets :
    table -> rel list -> (rel list * mask0) option mW **)

let exchange_targets t rels =
  bind (guard (rels_distinct rels) ERelUnspec) (fun _ ->
    bind
      (let rec go rels0 tg cm changed =
         match rels0 with
         | [] -> ret ((tg, cm), changed)
         | r :: rest ->
           let (c, x) = r in
           (match tbl_colidx t c with
            | Some i ->
              if negb
                   (nth i t.t_kinds { ck_rel = false; ck_zs = false;
                     ck_triv = true }).ck_rel
              then fail ENotRelation
              else (match nth_error tg i with
                    | Some cur ->
                      if ent_eqb x cur
                      then go rest tg cm changed
                      else go rest (upd i x tg) (mk_set cm c) true
                    | None -> fail EIndex)
            | None -> fail EMissingComp)
       in go rels t.t_targets N0 false) (fun r ->
      let (p0, changed) = r in
      let (targets, cm) = p0 in
      if negb changed
      then ret None
      else ret (Some
             ((map (fun p1 -> ((fst (fst p1)), (snd p1)))
                (filter (fun p1 -> (snd (fst p1)).ck_rel)
                  (combine (combine t.t_ids t.t_kinds) targets))), cm))))

(** val evCreateEntity : nat **)

let evCreateEntity =
  S (S (S (S (S (S (S (S (S (S (S (S (S (S (S (S (S (S (S (S (S (S (S (S (S
    (S (S (S (S (S (S (S (S (S (S (S (S (S (S (S (S (S (S (S (S (S (S (S (S
    (S (S (S (S (S (S (S (S (S (S (S (S (S (S (S (S (S (S (S (S (S (S (S (S
    (S (S (S (S (S (S (S (S (S (S (S (S (S (S (S (S (S (S (S (S (S (S (S (S
    (S (S (S (S (S (S (S (S (S (S (S (S (S (S (S (S (S (S (S (S (S (S (S (S
    (S (S (S (S (S (S (S (S (S (S (S (S (S (S (S (S (S (S (S (S (S (S (S (S
    (S (S (S (S (S (S (S (S (S (S (S (S (S (S (S (S (S (S (S (S (S (S (S (S
    (S (S (S (S (S (S (S (S (S (S (S (S (S (S (S (S (S (S (S (S (S (S (S (S
    (S (S (S (S (S (S (S (S (S (S (S (S (S (S (S (S (S (S (S (S (S (S (S (S
    (S (S (S (S (S (S (S (S (S (S (S (S (S (S (S (S (S (S (S (S (S (S (S (S
    (S (S (S (S (S (S (S (S
    O))))))))))))))))))))))))))))))))))))))))))))))))))))))))))))))))))))))))))))))))))))))))))))))))))))))))))))))))))))))))))))))))))))))))))))))))))))))))))))))))))))))))))))))))))))))))))))))))))))))))))))))))))))))))))))))))))))))))))))))))))))))))

(** val evRemoveEntity : nat **)

let evRemoveEntity =
  S (S (S (S (S (S (S (S (S (S (S (S (S (S (S (S (S (S (S (S (S (S (S (S (S
    (S (S (S (S (S (S (S (S (S (S (S (S (S (S (S (S (S (S (S (S (S (S (S (S
    (S (S (S (S (S (S (S (S (S (S (S (S (S (S (S (S (S (S (S (S (S (S (S (S
    (S (S (S (S (S (S (S (S (S (S (S (S (S (S (S (S (S (S (S (S (S (S (S (S
    (S (S (S (S (S (S (S (S (S (S (S (S (S (S (S (S (S (S (S (S (S (S (S (S
    (S (S (S (S (S (S (S (S (S (S (S (S (S (S (S (S (S (S (S (S (S (S (S (S
    (S (S (S (S (S (S (S (S (S (S (S (S (S (S (S (S (S (S (S (S (S (S (S (S
    (S (S (S (S (S (S (S (S (S (S (S (S (S (S (S (S (S (S (S (S (S (S (S (S
    (S (S (S (S (S (S (S (S (S (S (S (S (S (S (S (S (S (S (S (S (S (S (S (S
    (S (S (S (S (S (S (S (S (S (S (S (S (S (S (S (S (S (S (S (S (S (S (S (S
    (S (S (S (S (S (S (S (S (S
    O)))))))))))))))))))))))))))))))))))))))))))))))))))))))))))))))))))))))))))))))))))))))))))))))))))))))))))))))))))))))))))))))))))))))))))))))))))))))))))))))))))))))))))))))))))))))))))))))))))))))))))))))))))))))))))))))))))))))))))))))))))))))))

(** val evAddComponents : nat **)

let evAddComponents =
  S (S (S (S (S (S (S (S (S (S (S (S (S (S (S (S (S (S (S (S (S (S (S (S (S
    (S (S (S (S (S (S (S (S (S (S (S (S (S (S (S (S (S (S (S (S (S (S (S (S
    (S (S (S (S (S (S (S (S (S (S (S (S (S (S (S (S (S (S (S (S (S (S (S (S
    (S (S (S (S (S (S (S (S (S (S (S (S (S (S (S (S (S (S (S (S (S (S (S (S
    (S (S (S (S (S (S (S (S (S (S (S (S (S (S (S (S (S (S (S (S (S (S (S (S
    (S (S (S (S (S (S (S (S (S (S (S (S (S (S (S (S (S (S (S (S (S (S (S (S
    (S (S (S (S (S (S (S (S (S (S (S (S (S (S (S (S (S (S (S (S (S (S (S (S
    (S (S (S (S (S (S (S (S (S (S (S (S (S (S (S (S (S (S (S (S (S (S (S (S
    (S (S (S (S (S (S (S (S (S (S (S (S (S (S (S (S (S (S (S (S (S (S (S (S
    (S (S (S (S (S (S (S (S (S (S (S (S (S (S (S (S (S (S (S (S (S (S (S (S
    (S (S (S (S (S (S (S (S (S (S
    O))))))))))))))))))))))))))))))))))))))))))))))))))))))))))))))))))))))))))))))))))))))))))))))))))))))))))))))))))))))))))))))))))))))))))))))))))))))))))))))))))))))))))))))))))))))))))))))))))))))))))))))))))))))))))))))))))))))))))))))))))))))))))

(** val evRemoveComponents : nat **)

let evRemoveComponents =
  S (S (S (S (S (S (S (S (S (S (S (S (S (S (S (S (S (S (S (S (S (S (S (S (S
    (S (S (S (S (S (S (S (S (S (S (S (S (S (S (S (S (S (S (S (S (S (S (S (S
    (S (S (S (S (S (S (S (S (S (S (S (S (S (S (S (S (S (S (S (S (S (S (S (S
    (S (S (S (S (S (S (S (S (S (S (S (S (S (S (S (S (S (S (S (S (S (S (S (S
    (S (S (S (S (S (S (S (S (S (S (S (S (S (S (S (S (S (S (S (S (S (S (S (S
    (S (S (S (S (S (S (S (S (S (S (S (S (S (S (S (S (S (S (S (S (S (S (S (S
    (S (S (S (S (S (S (S (S (S (S (S (S (S (S (S (S (S (S (S (S (S (S (S (S
    (S (S (S (S (S (S (S (S (S (S (S (S (S (S (S (S (S (S (S (S (S (S (S (S
    (S (S (S (S (S (S (S (S (S (S (S (S (S (S (S (S (S (S (S (S (S (S (S (S
    (S (S (S (S (S (S (S (S (S (S (S (S (S (S (S (S (S (S (S (S (S (S (S (S
    (S (S (S (S (S (S (S (S (S (S (S
    O)))))))))))))))))))))))))))))))))))))))))))))))))))))))))))))))))))))))))))))))))))))))))))))))))))))))))))))))))))))))))))))))))))))))))))))))))))))))))))))))))))))))))))))))))))))))))))))))))))))))))))))))))))))))))))))))))))))))))))))))))))))))))))

(** val evSetComponents : nat **)

let evSetComponents =
  S (S (S (S (S (S (S (S (S (S (S (S (S (S (S (S (S (S (S (S (S (S (S (S (S
    (S (S (S (S (S (S (S (S (S (S (S (S (S (S (S (S (S (S (S (S (S (S (S (S
    (S (S (S (S (S (S (S (S (S (S (S (S (S (S (S (S (S (S (S (S (S (S (S (S
    (S (S (S (S (S (S (S (S (S (S (S (S (S (S (S (S (S (S (S (S (S (S (S (S
    (S (S (S (S (S (S (S (S (S (S (S (S (S (S (S (S (S (S (S (S (S (S (S (S
    (S (S (S (S (S (S (S (S (S (S (S (S (S (S (S (S (S (S (S (S (S (S (S (S
    (S (S (S (S (S (S (S (S (S (S (S (S (S (S (S (S (S (S (S (S (S (S (S (S
    (S (S (S (S (S (S (S (S (S (S (S (S (S (S (S (S (S (S (S (S (S (S (S (S
    (S (S (S (S (S (S (S (S (S (S (S (S (S (S (S (S (S (S (S (S (S (S (S (S
    (S (S (S (S (S (S (S (S (S (S (S (S (S (S (S (S (S (S (S (S (S (S (S (S
    (S (S (S (S (S (S (S (S (S (S (S (S
    O))))))))))))))))))))))))))))))))))))))))))))))))))))))))))))))))))))))))))))))))))))))))))))))))))))))))))))))))))))))))))))))))))))))))))))))))))))))))))))))))))))))))))))))))))))))))))))))))))))))))))))))))))))))))))))))))))))))))))))))))))))))))))))

(** val evAddRelations : nat **)

let evAddRelations =
  S (S (S (S (S (S (S (S (S (S (S (S (S (S (S (S (S (S (S (S (S (S (S (S (S
    (S (S (S (S (S (S (S (S (S (S (S (S (S (S (S (S (S (S (S (S (S (S (S (S
    (S (S (S (S (S (S (S (S (S (S (S (S (S (S (S (S (S (S (S (S (S (S (S (S
    (S (S (S (S (S (S (S (S (S (S (S (S (S (S (S (S (S (S (S (S (S (S (S (S
    (S (S (S (S (S (S (S (S (S (S (S (S (S (S (S (S (S (S (S (S (S (S (S (S
    (S (S (S (S (S (S (S (S (S (S (S (S (S (S (S (S (S (S (S (S (S (S (S (S
    (S (S (S (S (S (S (S (S (S (S (S (S (S (S (S (S (S (S (S (S (S (S (S (S
    (S (S (S (S (S (S (S (S (S (S (S (S (S (S (S (S (S (S (S (S (S (S (S (S
    (S (S (S (S (S (S (S (S (S (S (S (S (S (S (S (S (S (S (S (S (S (S (S (S
    (S (S (S (S (S (S (S (S (S (S (S (S (S (S (S (S (S (S (S (S (S (S (S (S
    (S (S (S (S (S (S (S (S (S (S (S (S (S
    O)))))))))))))))))))))))))))))))))))))))))))))))))))))))))))))))))))))))))))))))))))))))))))))))))))))))))))))))))))))))))))))))))))))))))))))))))))))))))))))))))))))))))))))))))))))))))))))))))))))))))))))))))))))))))))))))))))))))))))))))))))))))))))))

(** val evRemoveRelations : nat **)

let evRemoveRelations =
  S (S (S (S (S (S (S (S (S (S (S (S (S (S (S (S (S (S (S (S (S (S (S (S (S
    (S (S (S (S (S (S (S (S (S (S (S (S (S (S (S (S (S (S (S (S (S (S (S (S
    (S (S (S (S (S (S (S (S (S (S (S (S (S (S (S (S (S (S (S (S (S (S (S (S
    (S (S (S (S (S (S (S (S (S (S (S (S (S (S (S (S (S (S (S (S (S (S (S (S
    (S (S (S (S (S (S (S (S (S (S (S (S (S (S (S (S (S (S (S (S (S (S (S (S
    (S (S (S (S (S (S (S (S (S (S (S (S (S (S (S (S (S (S (S (S (S (S (S (S
    (S (S (S (S (S (S (S (S (S (S (S (S (S (S (S (S (S (S (S (S (S (S (S (S
    (S (S (S (S (S (S (S (S (S (S (S (S (S (S (S (S (S (S (S (S (S (S (S (S
    (S (S (S (S (S (S (S (S (S (S (S (S (S (S (S (S (S (S (S (S (S (S (S (S
    (S (S (S (S (S (S (S (S (S (S (S (S (S (S (S (S (S (S (S (S (S (S (S (S
    (S (S (S (S (S (S (S (S (S (S (S (S (S (S
    O))))))))))))))))))))))))))))))))))))))))))))))))))))))))))))))))))))))))))))))))))))))))))))))))))))))))))))))))))))))))))))))))))))))))))))))))))))))))))))))))))))))))))))))))))))))))))))))))))))))))))))))))))))))))))))))))))))))))))))))))))))))))))))))

(** val is_entity_event : nat -> bool **)

let is_entity_event e =
  (||) (Nat.eqb e evCreateEntity) (Nat.eqb e evRemoveEntity)

(** val is_relation_event : nat -> bool **)

let is_relation_event e =
  (||) (Nat.eqb e evAddRelations) (Nat.eqb e evRemoveRelations)

(** val get_agg : w -> nat -> agg **)

let get_agg s evt =
  match afind evt s.w_oagg with
  | Some g -> g
  | None -> agg0

(** val olist : w -> nat -> nat list **)

let olist s evt =
  match afind evt s.w_olists with
  | Some l -> l
  | None -> []

(** val has_obs : w -> nat -> bool **)

let has_obs s evt =
  (get_agg s evt).g_has

(** val mod_agg : nat -> (agg -> agg) -> unit mW **)

let mod_agg evt f =
  modify (fun s ->
    set (fun w0 -> w0.w_oagg) (fun f0 ->
      let l = fun r -> f0 r.w_oagg in
      (fun x -> { w_cfg = x.w_cfg; w_reg = x.w_reg; w_pool = x.w_pool;
      w_index = x.w_index; w_istarget = x.w_istarget; w_archs = x.w_archs;
      w_tables = x.w_tables; w_relarchs = x.w_relarchs; w_compindex =
      x.w_compindex; w_archcount = x.w_archcount; w_version = x.w_version;
      w_cheap = x.w_cheap; w_centries = x.w_centries; w_cpool = x.w_cpool;
      w_lock = x.w_lock; w_obs = x.w_obs; w_olists = x.w_olists; w_oagg =
      (l x); w_opool = x.w_opool; w_ototal = x.w_ototal; w_omax = x.w_omax;
      w_filters = x.w_filters; w_queries = x.w_queries; w_res = x.w_res;
      w_issued = x.w_issued; w_log = x.w_log }))
      (aset evt (f (get_agg s evt))) s)

(** val getO : nat -> oobj mW **)

let getO oi =
  bind get (fun s -> of_opt (nth_error s.w_obs oi) EIndex)

(** val modO : nat -> (oobj -> oobj) -> unit mW **)

let modO oi f =
  modify (fun s ->
    set (fun w0 -> w0.w_obs) (fun f0 ->
      let l = fun r -> f0 r.w_obs in
      (fun x -> { w_cfg = x.w_cfg; w_reg = x.w_reg; w_pool = x.w_pool;
      w_index = x.w_index; w_istarget = x.w_istarget; w_archs = x.w_archs;
      w_tables = x.w_tables; w_relarchs = x.w_relarchs; w_compindex =
      x.w_compindex; w_archcount = x.w_archcount; w_version = x.w_version;
      w_cheap = x.w_cheap; w_centries = x.w_centries; w_cpool = x.w_cpool;
      w_lock = x.w_lock; w_obs = (l x); w_olists = x.w_olists; w_oagg =
      x.w_oagg; w_opool = x.w_opool; w_ototal = x.w_ototal; w_omax =
      x.w_omax; w_filters = x.w_filters; w_queries = x.w_queries; w_res =
      x.w_res; w_issued = x.w_issued; w_log = x.w_log })) (updf oi f) s)

(** val add_observer : nat -> unit mW **)

let add_observer oi =
  bind (getO oi) (fun o ->
    bind
      (guard (match o.o_id with
              | Some _ -> false
              | None -> true) ERegistered) (fun _ ->
      bind get (fun s ->
        match ipool_get None s.w_opool with
        | Some p0 ->
          let (id, p') = p0 in
          bind
            (put
              (set (fun w0 -> w0.w_opool) (fun f ->
                let i = fun r -> f r.w_opool in
                (fun x -> { w_cfg = x.w_cfg; w_reg = x.w_reg; w_pool =
                x.w_pool; w_index = x.w_index; w_istarget = x.w_istarget;
                w_archs = x.w_archs; w_tables = x.w_tables; w_relarchs =
                x.w_relarchs; w_compindex = x.w_compindex; w_archcount =
                x.w_archcount; w_version = x.w_version; w_cheap = x.w_cheap;
                w_centries = x.w_centries; w_cpool = x.w_cpool; w_lock =
                x.w_lock; w_obs = x.w_obs; w_olists = x.w_olists; w_oagg =
                x.w_oagg; w_opool = (i x); w_ototal = x.w_ototal; w_omax =
                x.w_omax; w_filters = x.w_filters; w_queries = x.w_queries;
                w_res = x.w_res; w_issued = x.w_issued; w_log = x.w_log }))
                (fun _ -> p') s)) (fun _ ->
            bind
              (modO oi (fun o0 ->
                set (fun o1 -> o1.o_haswithout) (fun f ->
                  let b = fun r -> f r.o_haswithout in
                  (fun x -> { o_event = x.o_event; o_for = x.o_for; o_withl =
                  x.o_withl; o_withoutl = x.o_withoutl; o_excl = x.o_excl;
                  o_comps = x.o_comps; o_with = x.o_with; o_without =
                  x.o_without; o_hascomps = x.o_hascomps; o_haswith =
                  x.o_haswith; o_haswithout = (b x); o_id = x.o_id; o_cb =
                  x.o_cb })) (fun _ -> false)
                  (set (fun o1 -> o1.o_haswith) (fun f ->
                    let b = fun r -> f r.o_haswith in
                    (fun x -> { o_event = x.o_event; o_for = x.o_for;
                    o_withl = x.o_withl; o_withoutl = x.o_withoutl; o_excl =
                    x.o_excl; o_comps = x.o_comps; o_with = x.o_with;
                    o_without = x.o_without; o_hascomps = x.o_hascomps;
                    o_haswith = (b x); o_haswithout = x.o_haswithout; o_id =
                    x.o_id; o_cb = x.o_cb })) (fun _ -> false)
                    (set (fun o1 -> o1.o_hascomps) (fun f ->
                      let b = fun r -> f r.o_hascomps in
                      (fun x -> { o_event = x.o_event; o_for = x.o_for;
                      o_withl = x.o_withl; o_withoutl = x.o_withoutl;
                      o_excl = x.o_excl; o_comps = x.o_comps; o_with =
                      x.o_with; o_without = x.o_without; o_hascomps = 
                      (b x); o_haswith = x.o_haswith; o_haswithout =
                      x.o_haswithout; o_id = x.o_id; o_cb = x.o_cb }))
                      (fun _ -> false)
                      (set (fun o1 -> o1.o_id) (fun f ->
                        let o1 = fun r -> f r.o_id in
                        (fun x -> { o_event = x.o_event; o_for = x.o_for;
                        o_withl = x.o_withl; o_withoutl = x.o_withoutl;
                        o_excl = x.o_excl; o_comps = x.o_comps; o_with =
                        x.o_with; o_without = x.o_without; o_hascomps =
                        x.o_hascomps; o_haswith = x.o_haswith; o_haswithout =
                        x.o_haswithout; o_id = (o1 x); o_cb = x.o_cb }))
                        (fun _ -> Some id) o0))))) (fun _ ->
              bind
                (if is_relation_event o.o_event
                 then forM_ o.o_for (fun c ->
                        bind get (fun s0 ->
                          bind (guard (is_rel_comp s0 c) ENotRelation)
                            (fun _ ->
                            modO oi (fun o0 ->
                              set (fun o1 -> o1.o_hascomps) (fun f ->
                                let b = fun r -> f r.o_hascomps in
                                (fun x -> { o_event = x.o_event; o_for =
                                x.o_for; o_withl = x.o_withl; o_withoutl =
                                x.o_withoutl; o_excl = x.o_excl; o_comps =
                                x.o_comps; o_with = x.o_with; o_without =
                                x.o_without; o_hascomps = (b x); o_haswith =
                                x.o_haswith; o_haswithout = x.o_haswithout;
                                o_id = x.o_id; o_cb = x.o_cb })) (fun _ ->
                                true)
                                (set (fun o1 -> o1.o_comps) (fun f ->
                                  let m0 = fun r -> f r.o_comps in
                                  (fun x -> { o_event = x.o_event; o_for =
                                  x.o_for; o_withl = x.o_withl; o_withoutl =
                                  x.o_withoutl; o_excl = x.o_excl; o_comps =
                                  (m0 x); o_with = x.o_with; o_without =
                                  x.o_without; o_hascomps = x.o_hascomps;
                                  o_haswith = x.o_haswith; o_haswithout =
                                  x.o_haswithout; o_id = x.o_id; o_cb =
                                  x.o_cb })) (fun m0 -> mk_set m0 c) o0)))))
                 else if is_entity_event o.o_event
                      then forM_ o.o_for (fun c ->
                             modO oi (fun o0 ->
                               set (fun o1 -> o1.o_haswith) (fun f ->
                                 let b = fun r -> f r.o_haswith in
                                 (fun x -> { o_event = x.o_event; o_for =
                                 x.o_for; o_withl = x.o_withl; o_withoutl =
                                 x.o_withoutl; o_excl = x.o_excl; o_comps =
                                 x.o_comps; o_with = x.o_with; o_without =
                                 x.o_without; o_hascomps = x.o_hascomps;
                                 o_haswith = (b x); o_haswithout =
                                 x.o_haswithout; o_id = x.o_id; o_cb =
                                 x.o_cb })) (fun _ -> true)
                                 (set (fun o1 -> o1.o_with) (fun f ->
                                   let m0 = fun r -> f r.o_with in
                                   (fun x -> { o_event = x.o_event; o_for =
                                   x.o_for; o_withl = x.o_withl; o_withoutl =
                                   x.o_withoutl; o_excl = x.o_excl; o_comps =
                                   x.o_comps; o_with = (m0 x); o_without =
                                   x.o_without; o_hascomps = x.o_hascomps;
                                   o_haswith = x.o_haswith; o_haswithout =
                                   x.o_haswithout; o_id = x.o_id; o_cb =
                                   x.o_cb })) (fun m0 -> mk_set m0 c) o0)))
                      else forM_ o.o_for (fun c ->
                             modO oi (fun o0 ->
                               set (fun o1 -> o1.o_hascomps) (fun f ->
                                 let b = fun r -> f r.o_hascomps in
                                 (fun x -> { o_event = x.o_event; o_for =
                                 x.o_for; o_withl = x.o_withl; o_withoutl =
                                 x.o_withoutl; o_excl = x.o_excl; o_comps =
                                 x.o_comps; o_with = x.o_with; o_without =
                                 x.o_without; o_hascomps = (b x); o_haswith =
                                 x.o_haswith; o_haswithout = x.o_haswithout;
                                 o_id = x.o_id; o_cb = x.o_cb })) (fun _ ->
                                 true)
                                 (set (fun o1 -> o1.o_comps) (fun f ->
                                   let m0 = fun r -> f r.o_comps in
                                   (fun x -> { o_event = x.o_event; o_for =
                                   x.o_for; o_withl = x.o_withl; o_withoutl =
                                   x.o_withoutl; o_excl = x.o_excl; o_comps =
                                   (m0 x); o_with = x.o_with; o_without =
                                   x.o_without; o_hascomps = x.o_hascomps;
                                   o_haswith = x.o_haswith; o_haswithout =
                                   x.o_haswithout; o_id = x.o_id; o_cb =
                                   x.o_cb })) (fun m0 -> mk_set m0 c) o0))))
                (fun _ ->
                bind
                  (forM_ o.o_withl (fun c ->
                    modO oi (fun o0 ->
                      set (fun o1 -> o1.o_haswith) (fun f ->
                        let b = fun r -> f r.o_haswith in
                        (fun x -> { o_event = x.o_event; o_for = x.o_for;
                        o_withl = x.o_withl; o_withoutl = x.o_withoutl;
                        o_excl = x.o_excl; o_comps = x.o_comps; o_with =
                        x.o_with; o_without = x.o_without; o_hascomps =
                        x.o_hascomps; o_haswith = (b x); o_haswithout =
                        x.o_haswithout; o_id = x.o_id; o_cb = x.o_cb }))
                        (fun _ -> true)
                        (set (fun o1 -> o1.o_with) (fun f ->
                          let m0 = fun r -> f r.o_with in
                          (fun x -> { o_event = x.o_event; o_for = x.o_for;
                          o_withl = x.o_withl; o_withoutl = x.o_withoutl;
                          o_excl = x.o_excl; o_comps = x.o_comps; o_with =
                          (m0 x); o_without = x.o_without; o_hascomps =
                          x.o_hascomps; o_haswith = x.o_haswith;
                          o_haswithout = x.o_haswithout; o_id = x.o_id;
                          o_cb = x.o_cb })) (fun m0 -> mk_set m0 c) o0))))
                  (fun _ ->
                  bind get (fun s0 ->
                    bind
                      (if o.o_excl
                       then modO oi (fun o0 ->
                              set (fun o1 -> o1.o_haswithout) (fun f ->
                                let b = fun r -> f r.o_haswithout in
                                (fun x -> { o_event = x.o_event; o_for =
                                x.o_for; o_withl = x.o_withl; o_withoutl =
                                x.o_withoutl; o_excl = x.o_excl; o_comps =
                                x.o_comps; o_with = x.o_with; o_without =
                                x.o_without; o_hascomps = x.o_hascomps;
                                o_haswith = x.o_haswith; o_haswithout =
                                (b x); o_id = x.o_id; o_cb = x.o_cb }))
                                (fun _ -> true)
                                (set (fun o1 -> o1.o_without) (fun f ->
                                  let m0 = fun r -> f r.o_without in
                                  (fun x -> { o_event = x.o_event; o_for =
                                  x.o_for; o_withl = x.o_withl; o_withoutl =
                                  x.o_withoutl; o_excl = x.o_excl; o_comps =
                                  x.o_comps; o_with = x.o_with; o_without =
                                  (m0 x); o_hascomps = x.o_hascomps;
                                  o_haswith = x.o_haswith; o_haswithout =
                                  x.o_haswithout; o_id = x.o_id; o_cb =
                                  x.o_cb })) (fun _ ->
                                  mk_not s0.w_cfg.cf_bits o0.o_with) o0))
                       else forM_ o.o_withoutl (fun c ->
                              modO oi (fun o0 ->
                                set (fun o1 -> o1.o_haswithout) (fun f ->
                                  let b = fun r -> f r.o_haswithout in
                                  (fun x -> { o_event = x.o_event; o_for =
                                  x.o_for; o_withl = x.o_withl; o_withoutl =
                                  x.o_withoutl; o_excl = x.o_excl; o_comps =
                                  x.o_comps; o_with = x.o_with; o_without =
                                  x.o_without; o_hascomps = x.o_hascomps;
                                  o_haswith = x.o_haswith; o_haswithout =
                                  (b x); o_id = x.o_id; o_cb = x.o_cb }))
                                  (fun _ -> true)
                                  (set (fun o1 -> o1.o_without) (fun f ->
                                    let m0 = fun r -> f r.o_without in
                                    (fun x -> { o_event = x.o_event; o_for =
                                    x.o_for; o_withl = x.o_withl;
                                    o_withoutl = x.o_withoutl; o_excl =
                                    x.o_excl; o_comps = x.o_comps; o_with =
                                    x.o_with; o_without = (m0 x);
                                    o_hascomps = x.o_hascomps; o_haswith =
                                    x.o_haswith; o_haswithout =
                                    x.o_haswithout; o_id = x.o_id; o_cb =
                                    x.o_cb })) (fun m0 -> mk_set m0 c) o0))))
                      (fun _ ->
                      bind (getO oi) (fun o0 ->
                        let evt = o0.o_event in
                        bind
                          (modify (fun s1 ->
                            set (fun w0 -> w0.w_ototal) (fun f ->
                              let n0 = fun r -> f r.w_ototal in
                              (fun x -> { w_cfg = x.w_cfg; w_reg = x.w_reg;
                              w_pool = x.w_pool; w_index = x.w_index;
                              w_istarget = x.w_istarget; w_archs = x.w_archs;
                              w_tables = x.w_tables; w_relarchs =
                              x.w_relarchs; w_compindex = x.w_compindex;
                              w_archcount = x.w_archcount; w_version =
                              x.w_version; w_cheap = x.w_cheap; w_centries =
                              x.w_centries; w_cpool = x.w_cpool; w_lock =
                              x.w_lock; w_obs = x.w_obs; w_olists =
                              x.w_olists; w_oagg = x.w_oagg; w_opool =
                              x.w_opool; w_ototal = (n0 x); w_omax =
                              x.w_omax; w_filters = x.w_filters; w_queries =
                              x.w_queries; w_res = x.w_res; w_issued =
                              x.w_issued; w_log = x.w_log })) (fun x -> S x)
                              (set (fun w0 -> w0.w_omax) (fun f ->
                                let n0 = fun r -> f r.w_omax in
                                (fun x -> { w_cfg = x.w_cfg; w_reg = x.w_reg;
                                w_pool = x.w_pool; w_index = x.w_index;
                                w_istarget = x.w_istarget; w_archs =
                                x.w_archs; w_tables = x.w_tables;
                                w_relarchs = x.w_relarchs; w_compindex =
                                x.w_compindex; w_archcount = x.w_archcount;
                                w_version = x.w_version; w_cheap = x.w_cheap;
                                w_centries = x.w_centries; w_cpool =
                                x.w_cpool; w_lock = x.w_lock; w_obs =
                                x.w_obs; w_olists = x.w_olists; w_oagg =
                                x.w_oagg; w_opool = x.w_opool; w_ototal =
                                x.w_ototal; w_omax = (n0 x); w_filters =
                                x.w_filters; w_queries = x.w_queries; w_res =
                                x.w_res; w_issued = x.w_issued; w_log =
                                x.w_log })) (fun m0 -> Nat.max m0 evt)
                                (set (fun w0 -> w0.w_olists) (fun f ->
                                  let l = fun r -> f r.w_olists in
                                  (fun x -> { w_cfg = x.w_cfg; w_reg =
                                  x.w_reg; w_pool = x.w_pool; w_index =
                                  x.w_index; w_istarget = x.w_istarget;
                                  w_archs = x.w_archs; w_tables = x.w_tables;
                                  w_relarchs = x.w_relarchs; w_compindex =
                                  x.w_compindex; w_archcount = x.w_archcount;
                                  w_version = x.w_version; w_cheap =
                                  x.w_cheap; w_centries = x.w_centries;
                                  w_cpool = x.w_cpool; w_lock = x.w_lock;
                                  w_obs = x.w_obs; w_olists = (l x); w_oagg =
                                  x.w_oagg; w_opool = x.w_opool; w_ototal =
                                  x.w_ototal; w_omax = x.w_omax; w_filters =
                                  x.w_filters; w_queries = x.w_queries;
                                  w_res = x.w_res; w_issued = x.w_issued;
                                  w_log = x.w_log }))
                                  (aset evt (app (olist s1 evt) (oi :: [])))
                                  s1)))) (fun _ ->
                          bind
                            (mod_agg evt (fun g ->
                              set (fun a -> a.g_has) (fun f ->
                                let b = fun r -> f r.g_has in
                                (fun x -> { g_has = (b x); g_allcomps =
                                x.g_allcomps; g_allwith = x.g_allwith;
                                g_anynocomps = x.g_anynocomps; g_anynowith =
                                x.g_anynowith })) (fun _ -> true) g))
                            (fun _ ->
                            bind
                              (if o0.o_haswith
                               then mod_agg evt (fun g ->
                                      set (fun a -> a.g_allwith) (fun f ->
                                        let m0 = fun r -> f r.g_allwith in
                                        (fun x -> { g_has = x.g_has;
                                        g_allcomps = x.g_allcomps;
                                        g_allwith = (m0 x); g_anynocomps =
                                        x.g_anynocomps; g_anynowith =
                                        x.g_anynowith })) (fun m0 ->
                                        mk_or m0 o0.o_with) g)
                               else mod_agg evt (fun g ->
                                      set (fun a -> a.g_anynowith) (fun f ->
                                        let b = fun r -> f r.g_anynowith in
                                        (fun x -> { g_has = x.g_has;
                                        g_allcomps = x.g_allcomps;
                                        g_allwith = x.g_allwith;
                                        g_anynocomps = x.g_anynocomps;
                                        g_anynowith = (b x) })) (fun _ ->
                                        true) g)) (fun _ ->
                              if is_entity_event evt
                              then ret ()
                              else if o0.o_hascomps
                                   then mod_agg evt (fun g ->
                                          set (fun a -> a.g_allcomps)
                                            (fun f ->
                                            let m0 = fun r -> f r.g_allcomps
                                            in
                                            (fun x -> { g_has = x.g_has;
                                            g_allcomps = (m0 x); g_allwith =
                                            x.g_allwith; g_anynocomps =
                                            x.g_anynocomps; g_anynowith =
                                            x.g_anynowith })) (fun m0 ->
                                            mk_or m0 o0.o_comps) g)
                                   else mod_agg evt (fun g ->
                                          set (fun a -> a.g_anynocomps)
                                            (fun f ->
                                            let b = fun r -> f r.g_anynocomps
                                            in
                                            (fun x -> { g_has = x.g_has;
                                            g_allcomps = x.g_allcomps;
                                            g_allwith = x.g_allwith;
                                            g_anynocomps = (b x);
                                            g_anynowith = x.g_anynowith }))
                                            (fun _ -> true) g)))))))))))
        | None -> fail EIndex)))

(** val recompute_with : oobj list -> mask0 -> mask0 * bool **)

let rec recompute_with objs acc =
  match objs with
  | [] -> (acc, false)
  | o :: t ->
    if negb o.o_haswith
    then (acc, true)
    else recompute_with t (mk_or acc o.o_with)

(** val recompute_comps : oobj list -> mask0 -> mask0 * bool **)

let rec recompute_comps objs acc =
  match objs with
  | [] -> (acc, false)
  | o :: t ->
    if negb o.o_hascomps
    then (acc, true)
    else recompute_comps t (mk_or acc o.o_comps)

(** val objs_of : w -> nat list -> oobj list **)

let objs_of s l =
  flat_map (fun oi ->
    match nth_error s.w_obs oi with
    | Some o -> o :: []
    | None -> []) l

(** val remove_observer : nat -> unit mW **)

let remove_observer oi =
  bind (getO oi) (fun o ->
    bind
      (guard (match o.o_id with
              | Some _ -> true
              | None -> false) ERegistered) (fun _ ->
      bind get (fun s ->
        let evt = o.o_event in
        let l = olist s evt in
        bind (of_opt (index_of oi l) EMisuse) (fun idx ->
          bind
            (modO oi (fun o0 ->
              set (fun o1 -> o1.o_id) (fun f ->
                let o1 = fun r -> f r.o_id in
                (fun x -> { o_event = x.o_event; o_for = x.o_for; o_withl =
                x.o_withl; o_withoutl = x.o_withoutl; o_excl = x.o_excl;
                o_comps = x.o_comps; o_with = x.o_with; o_without =
                x.o_without; o_hascomps = x.o_hascomps; o_haswith =
                x.o_haswith; o_haswithout = x.o_haswithout; o_id = (o1 x);
                o_cb = x.o_cb })) (fun _ -> None) o0)) (fun _ ->
            let last = sub (length l) (S O) in
            let l1 =
              if Nat.eqb idx last
              then l
              else (match nth_error l last with
                    | Some x -> upd idx x l
                    | None -> l)
            in
            let l' = firstn last l1 in
            bind
              (modify (fun s0 ->
                set (fun w0 -> w0.w_ototal) (fun f ->
                  let n0 = fun r -> f r.w_ototal in
                  (fun x -> { w_cfg = x.w_cfg; w_reg = x.w_reg; w_pool =
                  x.w_pool; w_index = x.w_index; w_istarget = x.w_istarget;
                  w_archs = x.w_archs; w_tables = x.w_tables; w_relarchs =
                  x.w_relarchs; w_compindex = x.w_compindex; w_archcount =
                  x.w_archcount; w_version = x.w_version; w_cheap =
                  x.w_cheap; w_centries = x.w_centries; w_cpool = x.w_cpool;
                  w_lock = x.w_lock; w_obs = x.w_obs; w_olists = x.w_olists;
                  w_oagg = x.w_oagg; w_opool = x.w_opool; w_ototal = 
                  (n0 x); w_omax = x.w_omax; w_filters = x.w_filters;
                  w_queries = x.w_queries; w_res = x.w_res; w_issued =
                  x.w_issued; w_log = x.w_log })) (fun n0 -> sub n0 (S O))
                  (set (fun w0 -> w0.w_olists) (fun f ->
                    let l0 = fun r -> f r.w_olists in
                    (fun x -> { w_cfg = x.w_cfg; w_reg = x.w_reg; w_pool =
                    x.w_pool; w_index = x.w_index; w_istarget = x.w_istarget;
                    w_archs = x.w_archs; w_tables = x.w_tables; w_relarchs =
                    x.w_relarchs; w_compindex = x.w_compindex; w_archcount =
                    x.w_archcount; w_version = x.w_version; w_cheap =
                    x.w_cheap; w_centries = x.w_centries; w_cpool =
                    x.w_cpool; w_lock = x.w_lock; w_obs = x.w_obs; w_olists =
                    (l0 x); w_oagg = x.w_oagg; w_opool = x.w_opool;
                    w_ototal = x.w_ototal; w_omax = x.w_omax; w_filters =
                    x.w_filters; w_queries = x.w_queries; w_res = x.w_res;
                    w_issued = x.w_issued; w_log = x.w_log })) (aset evt l')
                    s0))) (fun _ ->
              bind
                (mod_agg evt (fun g ->
                  set (fun a -> a.g_has) (fun f ->
                    let b = fun r -> f r.g_has in
                    (fun x -> { g_has = (b x); g_allcomps = x.g_allcomps;
                    g_allwith = x.g_allwith; g_anynocomps = x.g_anynocomps;
                    g_anynowith = x.g_anynowith })) (fun _ -> Nat.ltb O last)
                    g)) (fun _ ->
                bind get (fun s0 ->
                  let objs = objs_of s0 l' in
                  let (aw, nw) = recompute_with objs N0 in
                  bind
                    (mod_agg evt (fun g ->
                      set (fun a -> a.g_anynowith) (fun f ->
                        let b = fun r -> f r.g_anynowith in
                        (fun x -> { g_has = x.g_has; g_allcomps =
                        x.g_allcomps; g_allwith = x.g_allwith; g_anynocomps =
                        x.g_anynocomps; g_anynowith = (b x) })) (fun _ -> nw)
                        (set (fun a -> a.g_allwith) (fun f ->
                          let m0 = fun r -> f r.g_allwith in
                          (fun x -> { g_has = x.g_has; g_allcomps =
                          x.g_allcomps; g_allwith = (m0 x); g_anynocomps =
                          x.g_anynocomps; g_anynowith = x.g_anynowith }))
                          (fun _ -> aw) g))) (fun _ ->
                    if is_entity_event evt
                    then ret ()
                    else let (ac, nc) = recompute_comps objs N0 in
                         mod_agg evt (fun g ->
                           set (fun a -> a.g_anynocomps) (fun f ->
                             let b = fun r -> f r.g_anynocomps in
                             (fun x -> { g_has = x.g_has; g_allcomps =
                             x.g_allcomps; g_allwith = x.g_allwith;
                             g_anynocomps = (b x); g_anynowith =
                             x.g_anynowith })) (fun _ -> nc)
                             (set (fun a -> a.g_allcomps) (fun f ->
                               let m0 = fun r -> f r.g_allcomps in
                               (fun x -> { g_has = x.g_has; g_allcomps =
                               (m0 x); g_allwith = x.g_allwith;
                               g_anynocomps = x.g_anynocomps; g_anynowith =
                               x.g_anynowith })) (fun _ -> ac) g)))))))))))

(** val reset_observers : unit mW **)

let reset_observers =
  bind get (fun s ->
    if Nat.eqb s.w_ototal O
    then put
           (set (fun w0 -> w0.w_omax) (fun f ->
             let n0 = fun r -> f r.w_omax in
             (fun x -> { w_cfg = x.w_cfg; w_reg = x.w_reg; w_pool = x.w_pool;
             w_index = x.w_index; w_istarget = x.w_istarget; w_archs =
             x.w_archs; w_tables = x.w_tables; w_relarchs = x.w_relarchs;
             w_compindex = x.w_compindex; w_archcount = x.w_archcount;
             w_version = x.w_version; w_cheap = x.w_cheap; w_centries =
             x.w_centries; w_cpool = x.w_cpool; w_lock = x.w_lock; w_obs =
             x.w_obs; w_olists = x.w_olists; w_oagg = x.w_oagg; w_opool =
             x.w_opool; w_ototal = x.w_ototal; w_omax = (n0 x); w_filters =
             x.w_filters; w_queries = x.w_queries; w_res = x.w_res;
             w_issued = x.w_issued; w_log = x.w_log })) (fun _ -> O) s)
    else bind
           (forM_ (seq O (S s.w_omax)) (fun evt ->
             bind get (fun s0 ->
               if negb (has_obs s0 evt)
               then ret ()
               else bind
                      (forM_ (olist s0 evt) (fun oi ->
                        modO oi (fun o ->
                          set (fun o0 -> o0.o_id) (fun f ->
                            let o0 = fun r -> f r.o_id in
                            (fun x -> { o_event = x.o_event; o_for = x.o_for;
                            o_withl = x.o_withl; o_withoutl = x.o_withoutl;
                            o_excl = x.o_excl; o_comps = x.o_comps; o_with =
                            x.o_with; o_without = x.o_without; o_hascomps =
                            x.o_hascomps; o_haswith = x.o_haswith;
                            o_haswithout = x.o_haswithout; o_id = (o0 x);
                            o_cb = x.o_cb })) (fun _ -> None) o))) (fun _ ->
                      bind
                        (modify (fun s1 ->
                          set (fun w0 -> w0.w_olists) (fun f ->
                            let l = fun r -> f r.w_olists in
                            (fun x -> { w_cfg = x.w_cfg; w_reg = x.w_reg;
                            w_pool = x.w_pool; w_index = x.w_index;
                            w_istarget = x.w_istarget; w_archs = x.w_archs;
                            w_tables = x.w_tables; w_relarchs = x.w_relarchs;
                            w_compindex = x.w_compindex; w_archcount =
                            x.w_archcount; w_version = x.w_version; w_cheap =
                            x.w_cheap; w_centries = x.w_centries; w_cpool =
                            x.w_cpool; w_lock = x.w_lock; w_obs = x.w_obs;
                            w_olists = (l x); w_oagg = x.w_oagg; w_opool =
                            x.w_opool; w_ototal = x.w_ototal; w_omax =
                            x.w_omax; w_filters = x.w_filters; w_queries =
                            x.w_queries; w_res = x.w_res; w_issued =
                            x.w_issued; w_log = x.w_log })) (aset evt []) s1))
                        (fun _ -> mod_agg evt (fun _ -> agg0)))))) (fun _ ->
           modify (fun s0 ->
             set (fun w0 -> w0.w_omax) (fun f ->
               let n0 = fun r -> f r.w_omax in
               (fun x -> { w_cfg = x.w_cfg; w_reg = x.w_reg; w_pool =
               x.w_pool; w_index = x.w_index; w_istarget = x.w_istarget;
               w_archs = x.w_archs; w_tables = x.w_tables; w_relarchs =
               x.w_relarchs; w_compindex = x.w_compindex; w_archcount =
               x.w_archcount; w_version = x.w_version; w_cheap = x.w_cheap;
               w_centries = x.w_centries; w_cpool = x.w_cpool; w_lock =
               x.w_lock; w_obs = x.w_obs; w_olists = x.w_olists; w_oagg =
               x.w_oagg; w_opool = x.w_opool; w_ototal = x.w_ototal; w_omax =
               (n0 x); w_filters = x.w_filters; w_queries = x.w_queries;
               w_res = x.w_res; w_issued = x.w_issued; w_log = x.w_log }))
               (fun _ -> O)
               (set (fun w0 -> w0.w_ototal) (fun f ->
                 let n0 = fun r -> f r.w_ototal in
                 (fun x -> { w_cfg = x.w_cfg; w_reg = x.w_reg; w_pool =
                 x.w_pool; w_index = x.w_index; w_istarget = x.w_istarget;
                 w_archs = x.w_archs; w_tables = x.w_tables; w_relarchs =
                 x.w_relarchs; w_compindex = x.w_compindex; w_archcount =
                 x.w_archcount; w_version = x.w_version; w_cheap = x.w_cheap;
                 w_centries = x.w_centries; w_cpool = x.w_cpool; w_lock =
                 x.w_lock; w_obs = x.w_obs; w_olists = x.w_olists; w_oagg =
                 x.w_oagg; w_opool = x.w_opool; w_ototal = (n0 x); w_omax =
                 x.w_omax; w_filters = x.w_filters; w_queries = x.w_queries;
                 w_res = x.w_res; w_issued = x.w_issued; w_log = x.w_log }))
                 (fun _ -> O)
                 (set (fun w0 -> w0.w_opool) (fun f ->
                   let i = fun r -> f r.w_opool in
                   (fun x -> { w_cfg = x.w_cfg; w_reg = x.w_reg; w_pool =
                   x.w_pool; w_index = x.w_index; w_istarget = x.w_istarget;
                   w_archs = x.w_archs; w_tables = x.w_tables; w_relarchs =
                   x.w_relarchs; w_compindex = x.w_compindex; w_archcount =
                   x.w_archcount; w_version = x.w_version; w_cheap =
                   x.w_cheap; w_centries = x.w_centries; w_cpool = x.w_cpool;
                   w_lock = x.w_lock; w_obs = x.w_obs; w_olists = x.w_olists;
                   w_oagg = x.w_oagg; w_opool = (i x); w_ototal = x.w_ototal;
                   w_omax = x.w_omax; w_filters = x.w_filters; w_queries =
                   x.w_queries; w_res = x.w_res; w_issued = x.w_issued;
                   w_log = x.w_log })) (fun _ -> ipool_new) s0)))))

(** val count_rows : ent -> table -> nat **)

let count_rows e t =
  length (filter (ent_eqb e) (firstn t.t_len t.t_ents))

(** val count_in_world : w -> ent -> nat **)

let count_in_world s e =
  fold_left (fun acc a ->
    fold_left (fun acc0 tid ->
      match nth_error s.w_tables tid with
      | Some t -> add acc0 (count_rows e t)
      | None -> acc0) a.a_tables acc) s.w_archs O

(** val zn : nat -> z **)

let zn =
  Z.of_nat

(** val zb : bool -> z **)

let zb = function
| true -> Zpos XH
| false -> Z0

(** val zent : ent -> z list **)

let zent e =
  (zn (fst e)) :: ((Z.of_N (snd e)) :: [])

(** val snapshot_row : table -> nat -> z list **)

let snapshot_row t row =
  flat_map (fun p0 ->
    let (c, p1) = p0 in
    let (col, tg) = p1 in app ((zn c) :: ((nth row col Z0) :: [])) (zent tg))
    (combine t.t_ids (combine t.t_cols t.t_targets))

(** val snapshot_entity : w -> ent -> z list option **)

let snapshot_entity s e =
  match nth_error s.w_index (fst e) with
  | Some p0 ->
    let (o, row) = p0 in
    (match o with
     | Some tid ->
       (match nth_error s.w_tables tid with
        | Some t -> Some ((zn (length t.t_ids)) :: (snapshot_row t row))
        | None -> None)
     | None -> None)
  | None -> None

(** val world_view : w -> z list **)

let world_view s =
  flat_map (fun a ->
    flat_map (fun tid ->
      match nth_error s.w_tables tid with
      | Some t ->
        flat_map (fun row ->
          app (zent (nth row t.t_ents zero_ent))
            ((zn (length t.t_ids)) :: (snapshot_row t row))) (seq O t.t_len)
      | None -> []) a.a_tables) s.w_archs

(** val log : z list -> unit mW **)

let log l =
  modify (fun s ->
    set (fun w0 -> w0.w_log) (fun f ->
      let l0 = fun r -> f r.w_log in
      (fun x -> { w_cfg = x.w_cfg; w_reg = x.w_reg; w_pool = x.w_pool;
      w_index = x.w_index; w_istarget = x.w_istarget; w_archs = x.w_archs;
      w_tables = x.w_tables; w_relarchs = x.w_relarchs; w_compindex =
      x.w_compindex; w_archcount = x.w_archcount; w_version = x.w_version;
      w_cheap = x.w_cheap; w_centries = x.w_centries; w_cpool = x.w_cpool;
      w_lock = x.w_lock; w_obs = x.w_obs; w_olists = x.w_olists; w_oagg =
      x.w_oagg; w_opool = x.w_opool; w_ototal = x.w_ototal; w_omax =
      x.w_omax; w_filters = x.w_filters; w_queries = x.w_queries; w_res =
      x.w_res; w_issued = x.w_issued; w_log = (l0 x) })) (fun lg ->
      app lg (l :: [])) s)

(** val run_callback : nat -> ent -> unit mW **)

let run_callback oi e =
  bind get (fun s ->
    let locked = is_locked s in
    let al = alive s e in
    bind lockM (fun b ->
      bind get (fun s1 ->
        let cnt = count_in_world s1 e in
        bind (unlockM b) (fun _ ->
          bind (if al then of_opt (snapshot_entity s e) EIndex else ret [])
            (fun snap ->
            bind
              (log
                (app ((Zpos (XO (XO (XI (XO (XO (XI
                  XH))))))) :: ((zn oi) :: []))
                  (app (zent e)
                    (app ((zb locked) :: ((zb al) :: ((zn cnt) :: [])))
                      (app snap (world_view s1)))))) (fun _ ->
              bind (getO oi) (fun o ->
                match o.o_cb with
                | O -> ret ()
                | S n0 ->
                  (match n0 with
                   | O ->
                     bind get (fun s0 ->
                       whenM (memb oi (olist s0 o.o_event))
                         (remove_observer oi))
                   | S k ->
                     bind get (fun s0 ->
                       match nth_error s0.w_obs k with
                       | Some ok ->
                         whenM (memb k (olist s0 ok.o_event))
                           (remove_observer k)
                       | None -> ret ())))))))))

(** val fire_loop :
    (nat -> ent -> unit mW) -> (oobj -> bool) -> ent -> nat list -> bool ->
    bool mW **)

let rec fire_loop cb pred0 e l found =
  match l with
  | [] -> ret found
  | oi :: rest ->
    bind (getO oi) (fun o ->
      if pred0 o
      then bind (cb oi e) (fun _ -> fire_loop cb pred0 e rest true)
      else fire_loop cb pred0 e rest found)

(** val fire_with :
    (nat -> ent -> unit mW) -> nat -> (agg -> bool) -> (oobj -> bool) -> ent
    -> bool -> bool mW **)

let fire_with cb evt early pred0 e early_out =
  bind get (fun s ->
    if (&&) early_out (early (get_agg s evt))
    then ret false
    else fire_loop cb pred0 e (olist s evt) false)

(** val fire :
    nat -> (agg -> bool) -> (oobj -> bool) -> ent -> bool -> bool mW **)

let fire =
  fire_with run_callback

(** val p_with : mask0 -> oobj -> bool **)

let p_with m0 o =
  (&&) (negb ((&&) o.o_haswith (negb (mk_contains m0 o.o_with))))
    (negb ((&&) o.o_haswithout (mk_contains_any m0 o.o_without)))

(** val early_with : mask0 -> agg -> bool **)

let early_with m0 g =
  (&&) (negb g.g_anynowith) (negb (mk_contains_any g.g_allwith m0))

(** val early_comps : mask0 -> agg -> bool **)

let early_comps m0 g =
  (&&) (negb g.g_anynocomps) (negb (mk_contains_any g.g_allcomps m0))

(** val fire_create_entity : ent -> mask0 -> bool -> bool mW **)

let fire_create_entity e m0 eo =
  fire evCreateEntity (early_with m0) (p_with m0) e eo

(** val fire_remove_entity : ent -> mask0 -> bool -> bool mW **)

let fire_remove_entity e m0 eo =
  fire evRemoveEntity (early_with m0) (p_with m0) e eo

(** val p_entity_rel : mask0 -> oobj -> bool **)

let p_entity_rel m0 o =
  (&&) (negb ((&&) o.o_hascomps (negb (mk_contains m0 o.o_comps))))
    (p_with m0 o)

(** val fire_create_entity_rel : ent -> mask0 -> bool -> bool mW **)

let fire_create_entity_rel e m0 eo =
  fire evAddRelations (fun g -> (||) (early_comps m0 g) (early_with m0 g))
    (p_entity_rel m0) e eo

(** val fire_remove_entity_rel : ent -> mask0 -> bool -> bool mW **)

let fire_remove_entity_rel e m0 eo =
  fire evRemoveRelations (fun g -> (||) (early_comps m0 g) (early_with m0 g))
    (p_entity_rel m0) e eo

(** val p_add : mask0 -> mask0 -> oobj -> bool **)

let p_add old new0 o =
  (&&)
    (negb
      ((&&) o.o_hascomps
        ((||) (negb (mk_contains new0 o.o_comps))
          (mk_contains_any old o.o_comps)))) (p_with old o)

(** val early_add : mask0 -> mask0 -> agg -> bool **)

let early_add old new0 g =
  (||)
    ((&&) (negb g.g_anynocomps)
      ((||) (negb (mk_contains_any g.g_allcomps new0))
        (mk_contains old g.g_allcomps))) (early_with old g)

(** val fire_add : nat -> ent -> mask0 -> mask0 -> bool -> bool mW **)

let fire_add evt e old new0 eo =
  fire evt (early_add old new0) (p_add old new0) e eo

(** val p_remove : mask0 -> mask0 -> oobj -> bool **)

let p_remove old new0 o =
  (&&)
    (negb
      ((&&) o.o_hascomps
        ((||) (negb (mk_contains old o.o_comps))
          (mk_contains_any new0 o.o_comps)))) (p_with old o)

(** val early_remove : mask0 -> mask0 -> agg -> bool **)

let early_remove old new0 g =
  (||)
    ((&&) (negb g.g_anynocomps)
      ((||) (negb (mk_contains_any g.g_allcomps old))
        (mk_contains new0 g.g_allcomps))) (early_with old g)

(** val fire_remove : nat -> ent -> mask0 -> mask0 -> bool -> bool mW **)

let fire_remove evt e old new0 eo =
  fire evt (early_remove old new0) (p_remove old new0) e eo

(** val p_set : mask0 -> mask0 -> oobj -> bool **)

let p_set cm em o =
  (&&) (negb ((&&) o.o_hascomps (negb (mk_contains cm o.o_comps))))
    (p_with em o)

(** val early_set : mask0 -> mask0 -> agg -> bool **)

let early_set cm em g =
  (||) (early_comps cm g) (early_with em g)

(** val fire_set : nat -> ent -> mask0 -> mask0 -> bool -> bool mW **)

let fire_set evt e cm em eo =
  fire evt (early_set cm em) (p_set cm em) e eo

(** val fire_create_entity_if_has : ent -> mask0 -> unit mW **)

let fire_create_entity_if_has e m0 =
  bind get (fun s ->
    if has_obs s evCreateEntity
    then bind (fire_create_entity e m0 true) (fun _ -> ret ())
    else ret ())

(** val fire_create_entity_rel_if_has : ent -> mask0 -> unit mW **)

let fire_create_entity_rel_if_has e m0 =
  bind get (fun s ->
    if has_obs s evAddRelations
    then bind (fire_create_entity_rel e m0 true) (fun _ -> ret ())
    else ret ())

(** val fire_add_if_has : nat -> ent -> mask0 -> mask0 -> unit mW **)

let fire_add_if_has evt e old new0 =
  bind get (fun s ->
    if has_obs s evt
    then bind (fire_add evt e old new0 true) (fun _ -> ret ())
    else ret ())

(** val fire_rows :
    (ent -> bool -> bool mW) -> ent list -> bool -> unit mW **)

let rec fire_rows f es eo =
  match es with
  | [] -> ret ()
  | e :: rest ->
    bind (f e eo) (fun found ->
      if found then fire_rows f rest false else ret ())

(** val is_nil : 'a1 list -> bool **)

let is_nil = function
| [] -> true
| _ :: _ -> false

(** val set_index_direct : ent -> nat -> nat -> unit mW **)

let set_index_direct e tid row =
  modify (fun s ->
    set (fun w0 -> w0.w_index) (fun f ->
      let l = fun r -> f r.w_index in
      (fun x -> { w_cfg = x.w_cfg; w_reg = x.w_reg; w_pool = x.w_pool;
      w_index = (l x); w_istarget = x.w_istarget; w_archs = x.w_archs;
      w_tables = x.w_tables; w_relarchs = x.w_relarchs; w_compindex =
      x.w_compindex; w_archcount = x.w_archcount; w_version = x.w_version;
      w_cheap = x.w_cheap; w_centries = x.w_centries; w_cpool = x.w_cpool;
      w_lock = x.w_lock; w_obs = x.w_obs; w_olists = x.w_olists; w_oagg =
      x.w_oagg; w_opool = x.w_opool; w_ototal = x.w_ototal; w_omax =
      x.w_omax; w_filters = x.w_filters; w_queries = x.w_queries; w_res =
      x.w_res; w_issued = x.w_issued; w_log = x.w_log }))
      (upd (fst e) ((Some tid), row)) s)

(** val new_entity : nat list -> rel list -> (ent * mask0) mW **)

let new_entity ids rels =
  bind check_locked (fun _ ->
    bind (find_or_create_table_add O ids rels N0) (fun r ->
      let (p0, _) = r in
      let (tid, aid) = p0 in
      bind pool_getM (fun e ->
        bind (tbl_addM tid e) (fun idx ->
          bind (set_index (fst e) ((Some tid), idx)) (fun _ ->
            bind (register_targets rels) (fun _ ->
              bind (getA aid) (fun a -> ret (e, a.a_mask))))))))

(** val create_entity : nat -> ent mW **)

let create_entity tid =
  bind pool_getM (fun e ->
    bind (tbl_addM tid e) (fun idx ->
      bind (set_index (fst e) ((Some tid), idx)) (fun _ ->
        bind
          (modify (fun s ->
            set (fun w0 -> w0.w_istarget) (fun f ->
              let l = fun r -> f r.w_istarget in
              (fun x -> { w_cfg = x.w_cfg; w_reg = x.w_reg; w_pool =
              x.w_pool; w_index = x.w_index; w_istarget = (l x); w_archs =
              x.w_archs; w_tables = x.w_tables; w_relarchs = x.w_relarchs;
              w_compindex = x.w_compindex; w_archcount = x.w_archcount;
              w_version = x.w_version; w_cheap = x.w_cheap; w_centries =
              x.w_centries; w_cpool = x.w_cpool; w_lock = x.w_lock; w_obs =
              x.w_obs; w_olists = x.w_olists; w_oagg = x.w_oagg; w_opool =
              x.w_opool; w_ototal = x.w_ototal; w_omax = x.w_omax;
              w_filters = x.w_filters; w_queries = x.w_queries; w_res =
              x.w_res; w_issued = x.w_issued; w_log = x.w_log }))
              (upd (fst e) false) s)) (fun _ -> ret e))))

(** val create_entities : nat -> nat -> unit mW **)

let create_entities tid count =
  bind (getT tid) (fun t ->
    let start = t.t_len in
    bind (modT tid (fun t0 -> tbl_alloc t0 count)) (fun _ ->
      forM_ (seq start count) (fun index ->
        bind pool_getM (fun e ->
          bind
            (modT tid (fun t0 ->
              set (fun t1 -> t1.t_ents) (fun f ->
                let l = fun r -> f r.t_ents in
                (fun x -> { t_arch = x.t_arch; t_ids = x.t_ids; t_kinds =
                x.t_kinds; t_len = x.t_len; t_cap = x.t_cap; t_free =
                x.t_free; t_ents = (l x); t_cols = x.t_cols; t_targets =
                x.t_targets; t_rels = x.t_rels })) (upd index e) t0))
            (fun _ ->
            bind (set_index (fst e) ((Some tid), index)) (fun _ ->
              modify (fun s ->
                set (fun w0 -> w0.w_istarget) (fun f ->
                  let l = fun r -> f r.w_istarget in
                  (fun x -> { w_cfg = x.w_cfg; w_reg = x.w_reg; w_pool =
                  x.w_pool; w_index = x.w_index; w_istarget = (l x);
                  w_archs = x.w_archs; w_tables = x.w_tables; w_relarchs =
                  x.w_relarchs; w_compindex = x.w_compindex; w_archcount =
                  x.w_archcount; w_version = x.w_version; w_cheap =
                  x.w_cheap; w_centries = x.w_centries; w_cpool = x.w_cpool;
                  w_lock = x.w_lock; w_obs = x.w_obs; w_olists = x.w_olists;
                  w_oagg = x.w_oagg; w_opool = x.w_opool; w_ototal =
                  x.w_ototal; w_omax = x.w_omax; w_filters = x.w_filters;
                  w_queries = x.w_queries; w_res = x.w_res; w_issued =
                  x.w_issued; w_log = x.w_log })) (upd (fst e) false) s)))))))

(** val new_entities : nat -> nat list -> rel list -> (nat * nat) mW **)

let new_entities count ids rels =
  bind (find_or_create_table_add O ids rels N0) (fun r ->
    let (p0, _) = r in
    let (tid, _) = p0 in
    bind (getT tid) (fun t ->
      let start = t.t_len in
      bind (create_entities tid count) (fun _ ->
        bind (register_targets rels) (fun _ -> ret (tid, start)))))

(** val rows_of : nat -> nat -> nat -> ent list mW **)

let rows_of tid start n0 =
  bind (getT tid) (fun t -> ret (firstn n0 (skipn start t.t_ents)))

(** val arch_mask_of_table : nat -> mask0 mW **)

let arch_mask_of_table tid =
  bind (getT tid) (fun t -> bind (getA t.t_arch) (fun a -> ret a.a_mask))

(** val w_add : ent -> nat list -> rel list -> (mask0 * mask0) mW **)

let w_add e add0 rels =
  bind check_locked (fun _ ->
    bind get (fun s ->
      bind (guard (alive s e) EDead) (fun _ ->
        bind (guard (negb (is_nil add0)) ENoComps) (fun _ ->
          bind (get_index e) (fun ix ->
            let (otid, row) = ix in
            bind (arch_mask_of_table otid) (fun om ->
              bind (find_or_create_table_add otid add0 rels om) (fun r ->
                let (p0, m0) = r in
                let (ntid, naid) = p0 in
                bind (tbl_addM ntid e) (fun nidx ->
                  bind (copy_row otid ntid m0 row nidx) (fun _ ->
                    bind (remove_row otid row) (fun _ ->
                      bind (set_index_direct e ntid nidx) (fun _ ->
                        bind (register_targets rels) (fun _ ->
                          bind (getA naid) (fun na -> ret (om, na.a_mask))))))))))))))

(** val fire_remove_events : ent -> mask0 -> mask0 -> bool -> unit mW **)

let fire_remove_events e old new0 rel_removed =
  bind get (fun s ->
    let has_comp = has_obs s evRemoveComponents in
    let has_rel = (&&) rel_removed (has_obs s evRemoveRelations) in
    whenM ((||) has_comp has_rel)
      (bind lockM (fun l ->
        bind
          (if has_comp
           then bind (fire_remove evRemoveComponents e old new0 true)
                  (fun _ -> ret ())
           else ret ()) (fun _ ->
          bind
            (if has_rel
             then bind (fire_remove evRemoveRelations e old new0 true)
                    (fun _ -> ret ())
             else ret ()) (fun _ -> unlockM l)))))

(** val w_remove : ent -> nat list -> unit mW **)

let w_remove e rem =
  bind check_locked (fun _ ->
    bind get (fun s ->
      bind (guard (alive s e) EDead) (fun _ ->
        bind (guard (negb (is_nil rem)) ENoComps) (fun _ ->
          bind (get_index e) (fun ix ->
            let (otid, row) = ix in
            bind (arch_mask_of_table otid) (fun om ->
              bind (find_or_create_table_remove otid rem om) (fun r ->
                let (p0, rel_removed) = r in
                let (p1, m0) = p0 in
                let (ntid, _) = p1 in
                bind (fire_remove_events e om m0 rel_removed) (fun _ ->
                  bind (tbl_addM ntid e) (fun nidx ->
                    bind (copy_row otid ntid m0 row nidx) (fun _ ->
                      bind (remove_row otid row) (fun _ ->
                        set_index_direct e ntid nidx)))))))))))

(** val w_exchange :
    ent -> nat list -> nat list -> rel list -> (mask0 * mask0) mW **)

let w_exchange e add0 rem rels =
  bind check_locked (fun _ ->
    bind get (fun s ->
      bind (guard (alive s e) EDead) (fun _ ->
        bind (guard (negb ((&&) (is_nil add0) (is_nil rem))) ENoComps)
          (fun _ ->
          bind (get_index e) (fun ix ->
            let (otid, row) = ix in
            bind (arch_mask_of_table otid) (fun om ->
              bind (find_or_create_table otid add0 rem rels om) (fun r ->
                let (p0, rel_removed) = r in
                let (p1, m0) = p0 in
                let (ntid, naid) = p1 in
                bind
                  (whenM (negb (is_nil rem))
                    (fire_remove_events e om m0 rel_removed)) (fun _ ->
                  bind (tbl_addM ntid e) (fun nidx ->
                    bind (copy_row otid ntid m0 row nidx) (fun _ ->
                      bind (remove_row otid row) (fun _ ->
                        bind (set_index_direct e ntid nidx) (fun _ ->
                          bind (register_targets rels) (fun _ ->
                            bind (getA naid) (fun na -> ret (om, na.a_mask)))))))))))))))

(** val copy_all : nat -> nat -> nat -> nat -> unit mW **)

let copy_all src dst row nidx =
  bind (getT src) (fun st ->
    forM_ (seq O (length st.t_cols)) (fun i ->
      bind (getT src) (fun st0 ->
        bind (getT dst) (fun dt ->
          match nth_error st0.t_cols i with
          | Some sc ->
            (match nth_error dt.t_kinds i with
             | Some k ->
               modT dst (fun t ->
                 set (fun t0 -> t0.t_cols) (fun f ->
                   let l = fun r -> f r.t_cols in
                   (fun x -> { t_arch = x.t_arch; t_ids = x.t_ids; t_kinds =
                   x.t_kinds; t_len = x.t_len; t_cap = x.t_cap; t_free =
                   x.t_free; t_ents = x.t_ents; t_cols = (l x); t_targets =
                   x.t_targets; t_rels = x.t_rels }))
                   (updf i (fun dc -> col_set k dc nidx sc row)) t)
             | None -> fail EIndex)
          | None -> fail EIndex))))

(** val w_set_relations : ent -> rel list -> unit mW **)

let w_set_relations e rels =
  bind check_locked (fun _ ->
    bind get (fun s ->
      bind (guard (alive s e) EDead) (fun _ ->
        bind (guard (negb (is_nil rels)) ENoComps) (fun _ ->
          bind (get_index e) (fun ix ->
            let (otid, row) = ix in
            bind (getT otid) (fun ot ->
              bind (exchange_targets ot rels) (fun r ->
                match r with
                | Some p0 ->
                  let (newrels, cm) = p0 in
                  bind (get_or_create_table ot.t_arch newrels) (fun ntid ->
                    bind (arch_mask_of_table ntid) (fun nm ->
                      bind get (fun s0 ->
                        bind
                          (whenM (has_obs s0 evRemoveRelations)
                            (bind lockM (fun l ->
                              bind (fire_set evRemoveRelations e cm nm true)
                                (fun _ -> unlockM l)))) (fun _ ->
                          bind (tbl_addM ntid e) (fun nidx ->
                            bind (copy_all otid ntid row nidx) (fun _ ->
                              bind (remove_row otid row) (fun _ ->
                                bind (set_index_direct e ntid nidx) (fun _ ->
                                  bind (register_targets rels) (fun _ ->
                                    bind get (fun s1 ->
                                      whenM (has_obs s1 evAddRelations)
                                        (bind
                                          (fire_set evAddRelations e cm nm
                                            true) (fun _ -> ret ()))))))))))))
                | None -> ret ())))))))

(** val free_table : nat -> nat -> unit mW **)

let free_table aid tid =
  bind (modA aid (fun a -> arch_free_table a tid)) (fun _ ->
    modT tid (fun t ->
      set (fun t0 -> t0.t_free) (fun f ->
        let b = fun r -> f r.t_free in
        (fun x -> { t_arch = x.t_arch; t_ids = x.t_ids; t_kinds = x.t_kinds;
        t_len = x.t_len; t_cap = x.t_cap; t_free = (b x); t_ents = x.t_ents;
        t_cols = x.t_cols; t_targets = x.t_targets; t_rels = x.t_rels }))
        (fun _ -> true) t))

(** val cleanup_archetypes : ent -> unit mW **)

let cleanup_archetypes target =
  bind get (fun s ->
    forM_ s.w_relarchs (fun aid ->
      bind (getA aid) (fun a ->
        match afind (fst target) a.a_tgttabs with
        | Some tabs ->
          bind
            (forM_ (rev (seq O (length tabs))) (fun i ->
              bind (getA aid) (fun a0 ->
                bind (of_opt (afind (fst target) a0.a_tgttabs) EIndex)
                  (fun tabs' ->
                  bind (of_opt (nth_error tabs' i) EIndex) (fun tid ->
                    bind (getT tid) (fun t ->
                      bind get (fun s0 ->
                        let newrels =
                          map (fun r -> ((fst r), zero_ent))
                            (filter (fun r ->
                              (||) (Nat.eqb (fst (snd r)) (fst target))
                                (negb (alive s0 (snd r)))) t.t_rels)
                        in
                        bind
                          (whenM (Nat.ltb O t.t_len)
                            (bind (exchange_targets_unchecked t newrels)
                              (fun all ->
                              bind (get_or_create_table aid all) (fun ntid ->
                                move_entities tid ntid t.t_len)))) (fun _ ->
                          bind (free_table aid tid) (fun _ ->
                            cache_remove_table tid))))))))) (fun _ ->
            modA aid (fun a0 -> arch_remove_target a0 (fst target)))
        | None -> ret ())))

(** val storage_remove_entity : ent -> unit mW **)

let storage_remove_entity e =
  bind get (fun s ->
    bind (guard (alive s e) EDead) (fun _ ->
      bind (get_index e) (fun ix ->
        let (tid, row) = ix in
        bind (getT tid) (fun t ->
          bind (arch_mask_of_table tid) (fun m0 ->
            let has_e = has_obs s evRemoveEntity in
            let has_r = (&&) (tbl_has_rels t) (has_obs s evRemoveRelations) in
            bind
              (whenM ((||) has_e has_r)
                (bind lockM (fun l ->
                  bind
                    (if has_e
                     then bind (fire_remove_entity e m0 true) (fun _ ->
                            ret ())
                     else ret ()) (fun _ ->
                    bind
                      (if has_r
                       then bind (fire_remove_entity_rel e m0 true) (fun _ ->
                              ret ())
                       else ret ()) (fun _ -> unlockM l))))) (fun _ ->
              bind (getT tid) (fun t0 ->
                let (swapped, t') = tbl_remove t0 row in
                bind (setT tid t') (fun _ ->
                  bind (pool_recycleM e) (fun _ ->
                    bind
                      (whenM swapped
                        (match nth_error t'.t_ents row with
                         | Some se ->
                           modify (fun s0 ->
                             set (fun w0 -> w0.w_index) (fun f ->
                               let l = fun r -> f r.w_index in
                               (fun x -> { w_cfg = x.w_cfg; w_reg = x.w_reg;
                               w_pool = x.w_pool; w_index = (l x);
                               w_istarget = x.w_istarget; w_archs =
                               x.w_archs; w_tables = x.w_tables; w_relarchs =
                               x.w_relarchs; w_compindex = x.w_compindex;
                               w_archcount = x.w_archcount; w_version =
                               x.w_version; w_cheap = x.w_cheap; w_centries =
                               x.w_centries; w_cpool = x.w_cpool; w_lock =
                               x.w_lock; w_obs = x.w_obs; w_olists =
                               x.w_olists; w_oagg = x.w_oagg; w_opool =
                               x.w_opool; w_ototal = x.w_ototal; w_omax =
                               x.w_omax; w_filters = x.w_filters; w_queries =
                               x.w_queries; w_res = x.w_res; w_issued =
                               x.w_issued; w_log = x.w_log }))
                               (updf (fst se) (fun ix0 -> ((fst ix0), row)))
                               s0)
                         | None -> fail EIndex)) (fun _ ->
                      bind
                        (modify (fun s0 ->
                          set (fun w0 -> w0.w_index) (fun f ->
                            let l = fun r -> f r.w_index in
                            (fun x -> { w_cfg = x.w_cfg; w_reg = x.w_reg;
                            w_pool = x.w_pool; w_index = (l x); w_istarget =
                            x.w_istarget; w_archs = x.w_archs; w_tables =
                            x.w_tables; w_relarchs = x.w_relarchs;
                            w_compindex = x.w_compindex; w_archcount =
                            x.w_archcount; w_version = x.w_version; w_cheap =
                            x.w_cheap; w_centries = x.w_centries; w_cpool =
                            x.w_cpool; w_lock = x.w_lock; w_obs = x.w_obs;
                            w_olists = x.w_olists; w_oagg = x.w_oagg;
                            w_opool = x.w_opool; w_ototal = x.w_ototal;
                            w_omax = x.w_omax; w_filters = x.w_filters;
                            w_queries = x.w_queries; w_res = x.w_res;
                            w_issued = x.w_issued; w_log = x.w_log }))
                            (updf (fst e) (fun ix0 -> (None, (snd ix0)))) s0))
                        (fun _ ->
                        bind get (fun s0 ->
                          whenM (nth (fst e) s0.w_istarget false)
                            (bind (cleanup_archetypes e) (fun _ ->
                              modify (fun s1 ->
                                set (fun w0 -> w0.w_istarget) (fun f ->
                                  let l = fun r -> f r.w_istarget in
                                  (fun x -> { w_cfg = x.w_cfg; w_reg =
                                  x.w_reg; w_pool = x.w_pool; w_index =
                                  x.w_index; w_istarget = (l x); w_archs =
                                  x.w_archs; w_tables = x.w_tables;
                                  w_relarchs = x.w_relarchs; w_compindex =
                                  x.w_compindex; w_archcount = x.w_archcount;
                                  w_version = x.w_version; w_cheap =
                                  x.w_cheap; w_centries = x.w_centries;
                                  w_cpool = x.w_cpool; w_lock = x.w_lock;
                                  w_obs = x.w_obs; w_olists = x.w_olists;
                                  w_oagg = x.w_oagg; w_opool = x.w_opool;
                                  w_ototal = x.w_ototal; w_omax = x.w_omax;
                                  w_filters = x.w_filters; w_queries =
                                  x.w_queries; w_res = x.w_res; w_issued =
                                  x.w_issued; w_log = x.w_log }))
                                  (upd (fst e) false) s1)))))))))))))))

(** val w_copy_entity : ent -> ent mW **)

let w_copy_entity e =
  bind check_locked (fun _ ->
    bind get (fun s ->
      bind (guard (alive s e) EDead) (fun _ ->
        bind pool_getM (fun ne ->
          bind (get_index e) (fun ix ->
            let (tid, row) = ix in
            bind (tbl_addM tid ne) (fun idx ->
              bind (set_index (fst ne) ((Some tid), idx)) (fun _ ->
                bind (copy_all tid tid row idx) (fun _ ->
                  bind (getT tid) (fun t ->
                    bind (getA t.t_arch) (fun a ->
                      bind (fire_create_entity_if_has ne a.a_mask) (fun _ ->
                        bind
                          (whenM (arch_has_rels a)
                            (fire_create_entity_rel_if_has ne a.a_mask))
                          (fun _ -> ret ne))))))))))))

(** val getF : nat -> fobj mW **)

let getF fi =
  bind get (fun s -> of_opt (nth_error s.w_filters fi) EIndex)

(** val to_relations : mask0 -> rel list -> unit mW **)

let to_relations m0 rels =
  forM_ rels (fun r ->
    bind get (fun s ->
      bind
        (guard ((||) (Nat.eqb (fst (snd r)) O) (alive s (snd r))) EDeadTarget)
        (fun _ ->
        bind (guard (is_rel_comp s (fst r)) ENotRelation) (fun _ ->
          guard (mk_get m0 (fst r)) ERelNotInMask))))

(** val tables_matching :
    w -> nat list -> rel list -> bool -> (w, nat list) res **)

let tables_matching s tabs rels need_nonempty =
  let rec go l acc =
    match l with
    | [] -> Ok ((rev acc), s)
    | tid :: rest ->
      (match nth_error s.w_tables tid with
       | Some t ->
         if (&&) need_nonempty (Nat.eqb t.t_len O)
         then go rest acc
         else (match tbl_matches t rels with
               | Some b -> if b then go rest (tid :: acc) else go rest acc
               | None -> Err (ENil, s))
       | None -> Err (EIndex, s))
  in go tabs []

(** val uncached_tables : fobj -> rel list -> nat list mW **)

let uncached_tables f rels =
  bind get (fun s ->
    let rec go l acc =
      match l with
      | [] -> ret acc
      | a :: rest ->
        if negb (filter_matches f a.a_mask)
        then go rest acc
        else if negb (arch_has_rels a)
             then (match a.a_tables with
                   | [] -> fail EIndex
                   | t0 :: _ -> go rest (app acc (t0 :: [])))
             else bind (of_opt (arch_get_tables a rels) EIndex) (fun cand ->
                    bind (fun s0 -> tables_matching s0 cand rels false)
                      (fun ts -> go rest (app acc ts)))
    in go s.w_archs [])

(** val get_batch_tables : nat -> rel list -> nat list mW **)

let get_batch_tables fi rels =
  bind (getF fi) (fun f ->
    match f.f_cache with
    | Some cid ->
      bind get (fun s ->
        match find (fun addr ->
                match nth_error s.w_cheap addr with
                | Some e -> Nat.eqb e.ce_id cid
                | None -> false) s.w_centries with
        | Some addr ->
          bind (of_opt (nth_error s.w_cheap addr) EIndex) (fun e s0 ->
            tables_matching s0 e.ce_tables rels true)
        | None -> fail EIndex)
    | None -> uncached_tables f rels)

(** val filter_register : nat -> unit mW **)

let filter_register fi =
  bind (getF fi) (fun f ->
    bind
      (guard (match f.f_cache with
              | Some _ -> false
              | None -> true) ERegistered) (fun _ ->
      bind get (fun s ->
        match ipool_get None s.w_cpool with
        | Some p0 ->
          let (id, p') = p0 in
          bind
            (put
              (set (fun w0 -> w0.w_cpool) (fun f0 ->
                let i = fun r -> f0 r.w_cpool in
                (fun x -> { w_cfg = x.w_cfg; w_reg = x.w_reg; w_pool =
                x.w_pool; w_index = x.w_index; w_istarget = x.w_istarget;
                w_archs = x.w_archs; w_tables = x.w_tables; w_relarchs =
                x.w_relarchs; w_compindex = x.w_compindex; w_archcount =
                x.w_archcount; w_version = x.w_version; w_cheap = x.w_cheap;
                w_centries = x.w_centries; w_cpool = (i x); w_lock =
                x.w_lock; w_obs = x.w_obs; w_olists = x.w_olists; w_oagg =
                x.w_oagg; w_opool = x.w_opool; w_ototal = x.w_ototal;
                w_omax = x.w_omax; w_filters = x.w_filters; w_queries =
                x.w_queries; w_res = x.w_res; w_issued = x.w_issued; w_log =
                x.w_log })) (fun _ -> p') s)) (fun _ ->
            bind
              (modify (fun s0 ->
                set (fun w0 -> w0.w_filters) (fun f0 ->
                  let l = fun r -> f0 r.w_filters in
                  (fun x -> { w_cfg = x.w_cfg; w_reg = x.w_reg; w_pool =
                  x.w_pool; w_index = x.w_index; w_istarget = x.w_istarget;
                  w_archs = x.w_archs; w_tables = x.w_tables; w_relarchs =
                  x.w_relarchs; w_compindex = x.w_compindex; w_archcount =
                  x.w_archcount; w_version = x.w_version; w_cheap =
                  x.w_cheap; w_centries = x.w_centries; w_cpool = x.w_cpool;
                  w_lock = x.w_lock; w_obs = x.w_obs; w_olists = x.w_olists;
                  w_oagg = x.w_oagg; w_opool = x.w_opool; w_ototal =
                  x.w_ototal; w_omax = x.w_omax; w_filters = (l x);
                  w_queries = x.w_queries; w_res = x.w_res; w_issued =
                  x.w_issued; w_log = x.w_log }))
                  (updf fi (fun f0 ->
                    set (fun f1 -> f1.f_cache) (fun f1 ->
                      let o = fun r -> f1 r.f_cache in
                      (fun x -> { f_ids = x.f_ids; f_mask = x.f_mask;
                      f_without = x.f_without; f_haswithout = x.f_haswithout;
                      f_cache = (o x); f_rels = x.f_rels; f_unsafe =
                      x.f_unsafe })) (fun _ -> Some id) f0)) s0)) (fun _ ->
              bind (uncached_tables f f.f_rels) (fun tabs ->
                modify (fun s0 ->
                  set (fun w0 -> w0.w_cheap) (fun f0 ->
                    let l = fun r -> f0 r.w_cheap in
                    (fun x -> { w_cfg = x.w_cfg; w_reg = x.w_reg; w_pool =
                    x.w_pool; w_index = x.w_index; w_istarget = x.w_istarget;
                    w_archs = x.w_archs; w_tables = x.w_tables; w_relarchs =
                    x.w_relarchs; w_compindex = x.w_compindex; w_archcount =
                    x.w_archcount; w_version = x.w_version; w_cheap = 
                    (l x); w_centries = x.w_centries; w_cpool = x.w_cpool;
                    w_lock = x.w_lock; w_obs = x.w_obs; w_olists =
                    x.w_olists; w_oagg = x.w_oagg; w_opool = x.w_opool;
                    w_ototal = x.w_ototal; w_omax = x.w_omax; w_filters =
                    x.w_filters; w_queries = x.w_queries; w_res = x.w_res;
                    w_issued = x.w_issued; w_log = x.w_log })) (fun h ->
                    app h ({ ce_id = id; ce_filter = fi; ce_rels = f.f_rels;
                      ce_tables = tabs } :: []))
                    (set (fun w0 -> w0.w_centries) (fun f0 ->
                      let l = fun r -> f0 r.w_centries in
                      (fun x -> { w_cfg = x.w_cfg; w_reg = x.w_reg; w_pool =
                      x.w_pool; w_index = x.w_index; w_istarget =
                      x.w_istarget; w_archs = x.w_archs; w_tables =
                      x.w_tables; w_relarchs = x.w_relarchs; w_compindex =
                      x.w_compindex; w_archcount = x.w_archcount; w_version =
                      x.w_version; w_cheap = x.w_cheap; w_centries = 
                      (l x); w_cpool = x.w_cpool; w_lock = x.w_lock; w_obs =
                      x.w_obs; w_olists = x.w_olists; w_oagg = x.w_oagg;
                      w_opool = x.w_opool; w_ototal = x.w_ototal; w_omax =
                      x.w_omax; w_filters = x.w_filters; w_queries =
                      x.w_queries; w_res = x.w_res; w_issued = x.w_issued;
                      w_log = x.w_log })) (fun l ->
                      app l ((length s0.w_cheap) :: [])) s0)))))
        | None -> fail EIndex)))

(** val filter_unregister : nat -> unit mW **)

let filter_unregister fi =
  bind (getF fi) (fun f ->
    match f.f_cache with
    | Some cid ->
      bind get (fun s ->
        let addrs = s.w_centries in
        let pos =
          let rec go l i =
            match l with
            | [] -> None
            | addr :: t ->
              (match nth_error s.w_cheap addr with
               | Some e -> if Nat.eqb e.ce_id cid then Some i else go t (S i)
               | None -> go t (S i))
          in go addrs O
        in
        bind (of_opt pos EMisuse) (fun idx ->
          bind
            (modify (fun s0 ->
              set (fun w0 -> w0.w_filters) (fun f0 ->
                let l = fun r -> f0 r.w_filters in
                (fun x -> { w_cfg = x.w_cfg; w_reg = x.w_reg; w_pool =
                x.w_pool; w_index = x.w_index; w_istarget = x.w_istarget;
                w_archs = x.w_archs; w_tables = x.w_tables; w_relarchs =
                x.w_relarchs; w_compindex = x.w_compindex; w_archcount =
                x.w_archcount; w_version = x.w_version; w_cheap = x.w_cheap;
                w_centries = x.w_centries; w_cpool = x.w_cpool; w_lock =
                x.w_lock; w_obs = x.w_obs; w_olists = x.w_olists; w_oagg =
                x.w_oagg; w_opool = x.w_opool; w_ototal = x.w_ototal;
                w_omax = x.w_omax; w_filters = (l x); w_queries =
                x.w_queries; w_res = x.w_res; w_issued = x.w_issued; w_log =
                x.w_log }))
                (updf fi (fun f0 ->
                  set (fun f1 -> f1.f_cache) (fun f1 ->
                    let o = fun r -> f1 r.f_cache in
                    (fun x -> { f_ids = x.f_ids; f_mask = x.f_mask;
                    f_without = x.f_without; f_haswithout = x.f_haswithout;
                    f_cache = (o x); f_rels = x.f_rels; f_unsafe =
                    x.f_unsafe })) (fun _ -> None) f0)) s0)) (fun _ ->
            let last = sub (length addrs) (S O) in
            let l1 =
              if Nat.eqb idx last
              then addrs
              else (match nth_error addrs last with
                    | Some x -> upd idx x addrs
                    | None -> addrs)
            in
            modify (fun s0 ->
              set (fun w0 -> w0.w_centries) (fun f0 ->
                let l = fun r -> f0 r.w_centries in
                (fun x -> { w_cfg = x.w_cfg; w_reg = x.w_reg; w_pool =
                x.w_pool; w_index = x.w_index; w_istarget = x.w_istarget;
                w_archs = x.w_archs; w_tables = x.w_tables; w_relarchs =
                x.w_relarchs; w_compindex = x.w_compindex; w_archcount =
                x.w_archcount; w_version = x.w_version; w_cheap = x.w_cheap;
                w_centries = (l x); w_cpool = x.w_cpool; w_lock = x.w_lock;
                w_obs = x.w_obs; w_olists = x.w_olists; w_oagg = x.w_oagg;
                w_opool = x.w_opool; w_ototal = x.w_ototal; w_omax =
                x.w_omax; w_filters = x.w_filters; w_queries = x.w_queries;
                w_res = x.w_res; w_issued = x.w_issued; w_log = x.w_log }))
                (fun _ -> firstn last l1) s0))))
    | None -> fail ERegistered)

(** val cache_reset : unit mW **)

let cache_reset =
  bind get (fun s ->
    if is_nil s.w_centries
    then ret ()
    else bind
           (forM_ s.w_centries (fun addr ->
             bind get (fun s0 ->
               match nth_error s0.w_cheap addr with
               | Some e ->
                 modify (fun s1 ->
                   set (fun w0 -> w0.w_filters) (fun f ->
                     let l = fun r -> f r.w_filters in
                     (fun x -> { w_cfg = x.w_cfg; w_reg = x.w_reg; w_pool =
                     x.w_pool; w_index = x.w_index; w_istarget =
                     x.w_istarget; w_archs = x.w_archs; w_tables =
                     x.w_tables; w_relarchs = x.w_relarchs; w_compindex =
                     x.w_compindex; w_archcount = x.w_archcount; w_version =
                     x.w_version; w_cheap = x.w_cheap; w_centries =
                     x.w_centries; w_cpool = x.w_cpool; w_lock = x.w_lock;
                     w_obs = x.w_obs; w_olists = x.w_olists; w_oagg =
                     x.w_oagg; w_opool = x.w_opool; w_ototal = x.w_ototal;
                     w_omax = x.w_omax; w_filters = (l x); w_queries =
                     x.w_queries; w_res = x.w_res; w_issued = x.w_issued;
                     w_log = x.w_log }))
                     (updf e.ce_filter (fun f ->
                       set (fun f0 -> f0.f_cache) (fun f0 ->
                         let o = fun r -> f0 r.f_cache in
                         (fun x -> { f_ids = x.f_ids; f_mask = x.f_mask;
                         f_without = x.f_without; f_haswithout =
                         x.f_haswithout; f_cache = (o x); f_rels = x.f_rels;
                         f_unsafe = x.f_unsafe })) (fun _ -> None) f)) s1)
               | None -> fail EIndex))) (fun _ ->
           modify (fun s0 ->
             set (fun w0 -> w0.w_cpool) (fun f ->
               let i = fun r -> f r.w_cpool in
               (fun x -> { w_cfg = x.w_cfg; w_reg = x.w_reg; w_pool =
               x.w_pool; w_index = x.w_index; w_istarget = x.w_istarget;
               w_archs = x.w_archs; w_tables = x.w_tables; w_relarchs =
               x.w_relarchs; w_compindex = x.w_compindex; w_archcount =
               x.w_archcount; w_version = x.w_version; w_cheap = x.w_cheap;
               w_centries = x.w_centries; w_cpool = (i x); w_lock = x.w_lock;
               w_obs = x.w_obs; w_olists = x.w_olists; w_oagg = x.w_oagg;
               w_opool = x.w_opool; w_ototal = x.w_ototal; w_omax = x.w_omax;
               w_filters = x.w_filters; w_queries = x.w_queries; w_res =
               x.w_res; w_issued = x.w_issued; w_log = x.w_log })) (fun _ ->
               ipool_new)
               (set (fun w0 -> w0.w_centries) (fun f ->
                 let l = fun r -> f r.w_centries in
                 (fun x -> { w_cfg = x.w_cfg; w_reg = x.w_reg; w_pool =
                 x.w_pool; w_index = x.w_index; w_istarget = x.w_istarget;
                 w_archs = x.w_archs; w_tables = x.w_tables; w_relarchs =
                 x.w_relarchs; w_compindex = x.w_compindex; w_archcount =
                 x.w_archcount; w_version = x.w_version; w_cheap = x.w_cheap;
                 w_centries = (l x); w_cpool = x.w_cpool; w_lock = x.w_lock;
                 w_obs = x.w_obs; w_olists = x.w_olists; w_oagg = x.w_oagg;
                 w_opool = x.w_opool; w_ototal = x.w_ototal; w_omax =
                 x.w_omax; w_filters = x.w_filters; w_queries = x.w_queries;
                 w_res = x.w_res; w_issued = x.w_issued; w_log = x.w_log }))
                 (fun _ -> []) s0))))

(** val batch_callback : nat -> (nat * z) list -> nat -> unit mW **)

let batch_callback tid vals row =
  bind (getT tid) (fun t ->
    bind (of_opt (nth_error t.t_ents row) EIndex) (fun e ->
      bind
        (log (app ((Zpos (XI (XO (XI (XO (XO (XI XH))))))) :: []) (zent e)))
        (fun _ ->
        forM_ vals (fun cv ->
          bind (getT tid) (fun t0 ->
            match tbl_colidx t0 (fst cv) with
            | Some ci ->
              bind (of_opt (nth_error t0.t_kinds ci) EIndex) (fun k ->
                whenM (negb k.ck_zs)
                  (modT tid (fun t1 ->
                    set (fun t2 -> t2.t_cols) (fun f ->
                      let l = fun r -> f r.t_cols in
                      (fun x -> { t_arch = x.t_arch; t_ids = x.t_ids;
                      t_kinds = x.t_kinds; t_len = x.t_len; t_cap = x.t_cap;
                      t_free = x.t_free; t_ents = x.t_ents; t_cols = 
                      (l x); t_targets = x.t_targets; t_rels = x.t_rels }))
                      (updf ci (upd row (snd cv))) t1)))
            | None -> fail ENil)))))

(** val w_new_entities : nat -> bool -> unit mW **)

let w_new_entities count fn =
  bind check_locked (fun _ ->
    bind (new_entities count [] []) (fun r ->
      let (tid, start) = r in
      bind get (fun s0 ->
        let has_obs0 = has_obs s0 evCreateEntity in
        let should_lock = (||) has_obs0 fn in
        bind (if should_lock then lockM else ret O) (fun l ->
          bind
            (whenM fn
              (forM_ (seq start count) (fun i -> batch_callback tid [] i)))
            (fun _ ->
            bind
              (whenM has_obs0
                (bind (arch_mask_of_table tid) (fun m0 ->
                  bind (rows_of tid start count) (fun es ->
                    fire_rows (fun e eo -> fire_create_entity e m0 eo) es true))))
              (fun _ -> whenM should_lock (unlockM l)))))))

(** val w_new_batch :
    nat -> nat list -> rel list -> (nat * z) list -> bool -> unit mW **)

let w_new_batch count ids rels vals fn =
  bind check_locked (fun _ ->
    bind (to_relations (mk_of_list ids) rels) (fun _ ->
      bind (new_entities count ids rels) (fun r ->
        let (tid, start) = r in
        bind get (fun s0 ->
          let has_create = has_obs s0 evCreateEntity in
          let has_rel = (&&) (negb (is_nil rels)) (has_obs s0 evAddRelations)
          in
          let should_lock = (||) ((||) has_create has_rel) fn in
          bind (if should_lock then lockM else ret O) (fun l ->
            bind
              (whenM fn
                (forM_ (seq start count) (fun i -> batch_callback tid vals i)))
              (fun _ ->
              bind (rows_of tid start count) (fun es ->
                bind
                  (whenM has_create
                    (fire_rows (fun e eo ->
                      fire_create_entity e (mk_of_list ids) eo) es true))
                  (fun _ ->
                  bind
                    (whenM has_rel
                      (fire_rows (fun e eo ->
                        fire_create_entity_rel e (mk_of_list ids) eo) es true))
                    (fun _ -> whenM should_lock (unlockM l))))))))))

(** val w_remove_entities : nat -> rel list -> bool -> unit mW **)

let w_remove_entities fi rels fn =
  bind check_locked (fun _ ->
    bind get (fun s0 ->
      let has_e = has_obs s0 evRemoveEntity in
      let has_r = has_obs s0 evRemoveRelations in
      let should_lock = (||) ((||) has_e has_r) fn in
      bind (if should_lock then lockM else ret O) (fun l ->
        bind (get_batch_tables fi rels) (fun tables ->
          bind
            (whenM fn
              (forM_ tables (fun tid ->
                bind (getT tid) (fun t ->
                  forM_ (seq O t.t_len) (fun i -> batch_callback tid [] i)))))
            (fun _ ->
            bind
              (whenM has_e
                (forM_ tables (fun tid ->
                  bind (arch_mask_of_table tid) (fun m0 ->
                    bind (getT tid) (fun t ->
                      fire_rows (fun e eo -> fire_remove_entity e m0 eo)
                        (firstn t.t_len t.t_ents) true))))) (fun _ ->
              bind
                (whenM has_r
                  (forM_ tables (fun tid ->
                    bind (getT tid) (fun t ->
                      whenM (tbl_has_rels t)
                        (bind (arch_mask_of_table tid) (fun m0 ->
                          fire_rows (fun e eo ->
                            fire_remove_entity_rel e m0 eo)
                            (firstn t.t_len t.t_ents) true)))))) (fun _ ->
                bind
                  (let rec go tabs acc =
                     match tabs with
                     | [] -> ret acc
                     | tid :: rest ->
                       bind (getT tid) (fun t ->
                         bind
                           (let rec rows es acc0 =
                              match es with
                              | [] -> ret acc0
                              | e :: more ->
                                bind get (fun s ->
                                  let acc1 =
                                    if nth (fst e) s.w_istarget false
                                    then app acc0 (e :: [])
                                    else acc0
                                  in
                                  bind
                                    (modify (fun s1 ->
                                      set (fun w0 -> w0.w_index) (fun f ->
                                        let l0 = fun r -> f r.w_index in
                                        (fun x -> { w_cfg = x.w_cfg; w_reg =
                                        x.w_reg; w_pool = x.w_pool; w_index =
                                        (l0 x); w_istarget = x.w_istarget;
                                        w_archs = x.w_archs; w_tables =
                                        x.w_tables; w_relarchs =
                                        x.w_relarchs; w_compindex =
                                        x.w_compindex; w_archcount =
                                        x.w_archcount; w_version =
                                        x.w_version; w_cheap = x.w_cheap;
                                        w_centries = x.w_centries; w_cpool =
                                        x.w_cpool; w_lock = x.w_lock; w_obs =
                                        x.w_obs; w_olists = x.w_olists;
                                        w_oagg = x.w_oagg; w_opool =
                                        x.w_opool; w_ototal = x.w_ototal;
                                        w_omax = x.w_omax; w_filters =
                                        x.w_filters; w_queries = x.w_queries;
                                        w_res = x.w_res; w_issued =
                                        x.w_issued; w_log = x.w_log }))
                                        (updf (fst e) (fun ix -> (None,
                                          (snd ix)))) s1)) (fun _ ->
                                    bind (pool_recycleM e) (fun _ ->
                                      rows more acc1)))
                            in rows (firstn t.t_len t.t_ents) acc)
                           (fun acc' ->
                           bind (modT tid tbl_reset) (fun _ -> go rest acc')))
                   in go tables []) (fun cleanup ->
                  bind
                    (forM_ cleanup (fun e ->
                      bind (cleanup_archetypes e) (fun _ ->
                        modify (fun s ->
                          set (fun w0 -> w0.w_istarget) (fun f ->
                            let l0 = fun r -> f r.w_istarget in
                            (fun x -> { w_cfg = x.w_cfg; w_reg = x.w_reg;
                            w_pool = x.w_pool; w_index = x.w_index;
                            w_istarget = (l0 x); w_archs = x.w_archs;
                            w_tables = x.w_tables; w_relarchs = x.w_relarchs;
                            w_compindex = x.w_compindex; w_archcount =
                            x.w_archcount; w_version = x.w_version; w_cheap =
                            x.w_cheap; w_centries = x.w_centries; w_cpool =
                            x.w_cpool; w_lock = x.w_lock; w_obs = x.w_obs;
                            w_olists = x.w_olists; w_oagg = x.w_oagg;
                            w_opool = x.w_opool; w_ototal = x.w_ototal;
                            w_omax = x.w_omax; w_filters = x.w_filters;
                            w_queries = x.w_queries; w_res = x.w_res;
                            w_issued = x.w_issued; w_log = x.w_log }))
                            (upd (fst e) false) s)))) (fun _ ->
                    whenM should_lock (unlockM l))))))))))

(** val exchange_table : nat -> nat -> rel list -> (nat * nat) mW **)

let exchange_table otid ntid rels =
  bind (getT otid) (fun ot ->
    bind (getT ntid) (fun nt ->
      bind (arch_mask_of_table ntid) (fun nm ->
        let start = nt.t_len in
        let count = ot.t_len in
        bind
          (forM_ (seq O count) (fun i ->
            match nth_error ot.t_ents i with
            | Some e ->
              modify (fun s ->
                set (fun w0 -> w0.w_index) (fun f ->
                  let l = fun r -> f r.w_index in
                  (fun x -> { w_cfg = x.w_cfg; w_reg = x.w_reg; w_pool =
                  x.w_pool; w_index = (l x); w_istarget = x.w_istarget;
                  w_archs = x.w_archs; w_tables = x.w_tables; w_relarchs =
                  x.w_relarchs; w_compindex = x.w_compindex; w_archcount =
                  x.w_archcount; w_version = x.w_version; w_cheap =
                  x.w_cheap; w_centries = x.w_centries; w_cpool = x.w_cpool;
                  w_lock = x.w_lock; w_obs = x.w_obs; w_olists = x.w_olists;
                  w_oagg = x.w_oagg; w_opool = x.w_opool; w_ototal =
                  x.w_ototal; w_omax = x.w_omax; w_filters = x.w_filters;
                  w_queries = x.w_queries; w_res = x.w_res; w_issued =
                  x.w_issued; w_log = x.w_log }))
                  (upd (fst e) ((Some ntid), (add start i))) s)
            | None -> fail EIndex)) (fun _ ->
          bind (modT ntid (fun nt0 -> tbl_add_all_entities nt0 ot count))
            (fun _ ->
            bind
              (forM_ ot.t_ids (fun c ->
                if mk_get nm c
                then bind (getT otid) (fun ot0 ->
                       bind (getT ntid) (fun nt0 ->
                         match tbl_colidx ot0 c with
                         | Some oi ->
                           (match tbl_colidx nt0 c with
                            | Some ni ->
                              (match nth_error ot0.t_cols oi with
                               | Some sc ->
                                 modT ntid (fun t ->
                                   set (fun t0 -> t0.t_cols) (fun f ->
                                     let l = fun r -> f r.t_cols in
                                     (fun x -> { t_arch = x.t_arch; t_ids =
                                     x.t_ids; t_kinds = x.t_kinds; t_len =
                                     x.t_len; t_cap = x.t_cap; t_free =
                                     x.t_free; t_ents = x.t_ents; t_cols =
                                     (l x); t_targets = x.t_targets; t_rels =
                                     x.t_rels }))
                                     (updf ni (fun dc ->
                                       copy_into dc (sub t.t_len count)
                                         (firstn count sc))) t)
                               | None -> fail EIndex)
                            | None -> fail ENil)
                         | None -> fail ENil))
                else ret ())) (fun _ ->
              bind (modT otid tbl_reset) (fun _ ->
                bind (register_targets rels) (fun _ -> ret (start, count)))))))))

(** val w_exchange_batch :
    nat -> rel list -> nat list -> nat list -> rel list -> (nat * z) list ->
    unit mW **)

let w_exchange_batch fi brels add0 rem rels vals =
  bind check_locked (fun _ ->
    bind (guard (negb ((&&) (is_nil add0) (is_nil rem))) ENoComps) (fun _ ->
      bind lockM (fun l ->
        bind
          (with_deferred_unlock l
            (bind (get_batch_tables fi brels) (fun tables ->
              bind
                (let rec go tabs acc rr =
                   match tabs with
                   | [] -> ret (acc, rr)
                   | tid :: rest ->
                     bind (getT tid) (fun t ->
                       if Nat.eqb t.t_len O
                       then go rest acc rr
                       else bind (arch_mask_of_table tid) (fun om ->
                              bind
                                (find_or_create_table tid add0 rem rels om)
                                (fun r ->
                                let (p0, removed) = r in
                                let (p1, _) = p0 in
                                let (ntid, _) = p1 in
                                go rest
                                  (app acc (((tid, ntid), t.t_len) :: []))
                                  ((||) rr removed))))
                 in go tables [] false) (fun bt ->
                let (batches, rel_removed) = bt in
                bind
                  (whenM (negb (is_nil rem))
                    (bind get (fun s ->
                      bind
                        (whenM (has_obs s evRemoveComponents)
                          (forM_ batches (fun b ->
                            let (p0, len) = b in
                            let (otid, ntid) = p0 in
                            bind (arch_mask_of_table otid) (fun om ->
                              bind (arch_mask_of_table ntid) (fun nm ->
                                bind (rows_of otid O len) (fun es ->
                                  fire_rows (fun e eo ->
                                    fire_remove evRemoveComponents e om nm eo)
                                    es true)))))) (fun _ ->
                        bind get (fun s0 ->
                          whenM
                            ((&&) rel_removed (has_obs s0 evRemoveRelations))
                            (forM_ batches (fun b ->
                              let (p0, len) = b in
                              let (otid, ntid) = p0 in
                              bind (arch_mask_of_table otid) (fun om ->
                                bind (arch_mask_of_table ntid) (fun nm ->
                                  bind (rows_of otid O len) (fun es ->
                                    fire_rows (fun e eo ->
                                      fire_remove evRemoveRelations e om nm eo)
                                      es true)))))))))) (fun _ ->
                  bind
                    (mapM batches (fun b ->
                      let (p0, _) = b in
                      let (otid, ntid) = p0 in
                      bind (exchange_table otid ntid rels) (fun sl ->
                        let (start, len) = sl in
                        bind
                          (forM_ (seq start len) (fun i ->
                            batch_callback ntid vals i)) (fun _ ->
                          ret (((otid, ntid), start), len))))) (fun moved ->
                    whenM (negb (is_nil add0))
                      (bind get (fun s ->
                        bind
                          (whenM (has_obs s evAddComponents)
                            (forM_ moved (fun b ->
                              let (p0, len) = b in
                              let (p1, start) = p0 in
                              let (otid, ntid) = p1 in
                              bind (arch_mask_of_table otid) (fun om ->
                                bind (arch_mask_of_table ntid) (fun nm ->
                                  bind (rows_of ntid start len) (fun es ->
                                    fire_rows (fun e eo ->
                                      fire_add evAddComponents e om nm eo) es
                                      true)))))) (fun _ ->
                          bind get (fun s0 ->
                            whenM
                              ((&&) (negb (is_nil rels))
                                (has_obs s0 evAddRelations))
                              (forM_ moved (fun b ->
                                let (p0, len) = b in
                                let (p1, start) = p0 in
                                let (otid, ntid) = p1 in
                                bind (arch_mask_of_table otid) (fun om ->
                                  bind (arch_mask_of_table ntid) (fun nm ->
                                    bind (rows_of ntid start len) (fun es ->
                                      fire_rows (fun e eo ->
                                        fire_add evAddRelations e om nm eo)
                                        es true))))))))))))))) (fun _ ->
          unlockM l))))

(** val set_relations_plan :
    nat -> rel list -> (((nat * nat) * nat) * mask0) option mW **)

let set_relations_plan otid rels =
  bind (getT otid) (fun ot ->
    if Nat.eqb ot.t_len O
    then ret None
    else bind (exchange_targets ot rels) (fun r ->
           match r with
           | Some p0 ->
             let (newrels, cm) = p0 in
             bind (get_or_create_table ot.t_arch newrels) (fun ntid ->
               ret (Some (((otid, ntid), ot.t_len), cm)))
           | None -> ret None))

(** val opt_list : 'a1 option list -> 'a1 list **)

let opt_list l =
  flat_map (fun o -> match o with
                     | Some a -> a :: []
                     | None -> []) l

(** val set_relations_fire_removes :
    (((nat * nat) * nat) * mask0) list -> unit mW **)

let set_relations_fire_removes plans =
  forM_ plans (fun p0 ->
    let (p1, cm) = p0 in
    let (p2, len) = p1 in
    let (otid, ntid) = p2 in
    bind (getT otid) (fun ot ->
      bind (arch_mask_of_table ntid) (fun nm ->
        fire_rows (fun e eo -> fire_set evRemoveRelations e cm nm eo)
          (firstn len ot.t_ents) true)))

(** val set_relations_move :
    (((nat * nat) * nat) * mask0) -> (((nat * nat) * nat) * mask0) mW **)

let set_relations_move = function
| (p1, cm) ->
  let (p2, len) = p1 in
  let (otid, ntid) = p2 in
  bind (getT ntid) (fun nt ->
    let start = nt.t_len in
    bind (move_entities otid ntid len) (fun _ ->
      bind (forM_ (seq start len) (fun i -> batch_callback ntid [] i))
        (fun _ -> ret (((ntid, start), len), cm))))

(** val set_relations_fire_adds :
    (((nat * nat) * nat) * mask0) list -> unit mW **)

let set_relations_fire_adds moved =
  forM_ moved (fun m0 ->
    let (p0, cm) = m0 in
    let (p1, len) = p0 in
    let (ntid, start) = p1 in
    bind (arch_mask_of_table ntid) (fun nm ->
      bind (rows_of ntid start len) (fun es ->
        fire_rows (fun e eo -> fire_set evAddRelations e cm nm eo) es true)))

(** val w_set_relations_batch : nat -> rel list -> rel list -> unit mW **)

let w_set_relations_batch fi brels rels =
  bind check_locked (fun _ ->
    bind (guard (negb (is_nil rels)) ENoComps) (fun _ ->
      bind lockM (fun l ->
        bind
          (with_deferred_unlock l
            (bind get (fun s0 ->
              let has_rem = has_obs s0 evRemoveRelations in
              let has_add = has_obs s0 evAddRelations in
              bind (get_batch_tables fi brels) (fun tables ->
                bind (mapM tables (fun tid -> set_relations_plan tid rels))
                  (fun plans ->
                  let plans0 = opt_list plans in
                  bind (whenM has_rem (set_relations_fire_removes plans0))
                    (fun _ ->
                    bind (mapM plans0 set_relations_move) (fun moved ->
                      bind (whenM has_add (set_relations_fire_adds moved))
                        (fun _ -> register_targets rels)))))))) (fun _ ->
          unlockM l))))

(** val arch_reset : nat -> unit mW **)

let arch_reset aid =
  bind (getA aid) (fun a ->
    if negb (arch_has_rels a)
    then (match a.a_tables with
          | [] -> fail EIndex
          | t0 :: _ -> modT t0 tbl_reset)
    else bind (forM_ (rev a.a_tables) (fun tid -> modT tid tbl_reset))
           (fun _ ->
           bind
             (forM_ a.a_tables (fun tid ->
               modT tid (fun t ->
                 set (fun t0 -> t0.t_free) (fun f ->
                   let b = fun r -> f r.t_free in
                   (fun x -> { t_arch = x.t_arch; t_ids = x.t_ids; t_kinds =
                   x.t_kinds; t_len = x.t_len; t_cap = x.t_cap; t_free =
                   (b x); t_ents = x.t_ents; t_cols = x.t_cols; t_targets =
                   x.t_targets; t_rels = x.t_rels })) (fun _ -> true) t)))
             (fun _ ->
             modA aid (fun a0 ->
               set (fun a1 -> a1.a_tgttabs) (fun f ->
                 let l = fun r -> f r.a_tgttabs in
                 (fun x -> { a_mask = x.a_mask; a_comps = x.a_comps;
                 a_isrel = x.a_isrel; a_tables = x.a_tables; a_free =
                 x.a_free; a_reltabs = x.a_reltabs; a_tgttabs = (l x);
                 a_numrel = x.a_numrel })) (fun _ -> [])
                 (set (fun a1 -> a1.a_reltabs) (fun f ->
                   let l = fun r -> f r.a_reltabs in
                   (fun x -> { a_mask = x.a_mask; a_comps = x.a_comps;
                   a_isrel = x.a_isrel; a_tables = x.a_tables; a_free =
                   x.a_free; a_reltabs = (l x); a_tgttabs = x.a_tgttabs;
                   a_numrel = x.a_numrel })) (map (fun _ -> []))
                   (set (fun a1 -> a1.a_tables) (fun f ->
                     let l = fun r -> f r.a_tables in
                     (fun x -> { a_mask = x.a_mask; a_comps = x.a_comps;
                     a_isrel = x.a_isrel; a_tables = (l x); a_free =
                     x.a_free; a_reltabs = x.a_reltabs; a_tgttabs =
                     x.a_tgttabs; a_numrel = x.a_numrel })) (fun _ -> [])
                     (set (fun a1 -> a1.a_free) (fun f ->
                       let l = fun r -> f r.a_free in
                       (fun x -> { a_mask = x.a_mask; a_comps = x.a_comps;
                       a_isrel = x.a_isrel; a_tables = x.a_tables; a_free =
                       (l x); a_reltabs = x.a_reltabs; a_tgttabs =
                       x.a_tgttabs; a_numrel = x.a_numrel })) (fun l ->
                       app l a0.a_tables) a0)))))))

(** val w_reset : unit mW **)

let w_reset =
  bind check_locked (fun _ ->
    bind
      (modify (fun s ->
        set (fun w0 -> w0.w_istarget) (fun f ->
          let l = fun r -> f r.w_istarget in
          (fun x -> { w_cfg = x.w_cfg; w_reg = x.w_reg; w_pool = x.w_pool;
          w_index = x.w_index; w_istarget = (l x); w_archs = x.w_archs;
          w_tables = x.w_tables; w_relarchs = x.w_relarchs; w_compindex =
          x.w_compindex; w_archcount = x.w_archcount; w_version =
          x.w_version; w_cheap = x.w_cheap; w_centries = x.w_centries;
          w_cpool = x.w_cpool; w_lock = x.w_lock; w_obs = x.w_obs; w_olists =
          x.w_olists; w_oagg = x.w_oagg; w_opool = x.w_opool; w_ototal =
          x.w_ototal; w_omax = x.w_omax; w_filters = x.w_filters; w_queries =
          x.w_queries; w_res = x.w_res; w_issued = x.w_issued; w_log =
          x.w_log })) (firstn (S (S O)))
          (set (fun w0 -> w0.w_pool) (fun f ->
            let p0 = fun r -> f r.w_pool in
            (fun x -> { w_cfg = x.w_cfg; w_reg = x.w_reg; w_pool = (p0 x);
            w_index = x.w_index; w_istarget = x.w_istarget; w_archs =
            x.w_archs; w_tables = x.w_tables; w_relarchs = x.w_relarchs;
            w_compindex = x.w_compindex; w_archcount = x.w_archcount;
            w_version = x.w_version; w_cheap = x.w_cheap; w_centries =
            x.w_centries; w_cpool = x.w_cpool; w_lock = x.w_lock; w_obs =
            x.w_obs; w_olists = x.w_olists; w_oagg = x.w_oagg; w_opool =
            x.w_opool; w_ototal = x.w_ototal; w_omax = x.w_omax; w_filters =
            x.w_filters; w_queries = x.w_queries; w_res = x.w_res; w_issued =
            x.w_issued; w_log = x.w_log })) pool_reset
            (set (fun w0 -> w0.w_index) (fun f ->
              let l = fun r -> f r.w_index in
              (fun x -> { w_cfg = x.w_cfg; w_reg = x.w_reg; w_pool =
              x.w_pool; w_index = (l x); w_istarget = x.w_istarget; w_archs =
              x.w_archs; w_tables = x.w_tables; w_relarchs = x.w_relarchs;
              w_compindex = x.w_compindex; w_archcount = x.w_archcount;
              w_version = x.w_version; w_cheap = x.w_cheap; w_centries =
              x.w_centries; w_cpool = x.w_cpool; w_lock = x.w_lock; w_obs =
              x.w_obs; w_olists = x.w_olists; w_oagg = x.w_oagg; w_opool =
              x.w_opool; w_ototal = x.w_ototal; w_omax = x.w_omax;
              w_filters = x.w_filters; w_queries = x.w_queries; w_res =
              x.w_res; w_issued = x.w_issued; w_log = x.w_log }))
              (firstn (S (S O))) s)))) (fun _ ->
      bind cache_reset (fun _ ->
        bind
          (modify (fun s ->
            set (fun w0 -> w0.w_lock) (fun f ->
              let l = fun r -> f r.w_lock in
              (fun x -> { w_cfg = x.w_cfg; w_reg = x.w_reg; w_pool =
              x.w_pool; w_index = x.w_index; w_istarget = x.w_istarget;
              w_archs = x.w_archs; w_tables = x.w_tables; w_relarchs =
              x.w_relarchs; w_compindex = x.w_compindex; w_archcount =
              x.w_archcount; w_version = x.w_version; w_cheap = x.w_cheap;
              w_centries = x.w_centries; w_cpool = x.w_cpool; w_lock = 
              (l x); w_obs = x.w_obs; w_olists = x.w_olists; w_oagg =
              x.w_oagg; w_opool = x.w_opool; w_ototal = x.w_ototal; w_omax =
              x.w_omax; w_filters = x.w_filters; w_queries = x.w_queries;
              w_res = x.w_res; w_issued = x.w_issued; w_log = x.w_log }))
              (fun _ -> lock_new) s)) (fun _ ->
          bind reset_observers (fun _ ->
            bind get (fun s ->
              bind (forM_ (seq O (length s.w_archs)) arch_reset) (fun _ ->
                modify (fun s0 ->
                  set (fun w0 -> w0.w_res) (fun f ->
                    let l = fun r -> f r.w_res in
                    (fun x -> { w_cfg = x.w_cfg; w_reg = x.w_reg; w_pool =
                    x.w_pool; w_index = x.w_index; w_istarget = x.w_istarget;
                    w_archs = x.w_archs; w_tables = x.w_tables; w_relarchs =
                    x.w_relarchs; w_compindex = x.w_compindex; w_archcount =
                    x.w_archcount; w_version = x.w_version; w_cheap =
                    x.w_cheap; w_centries = x.w_centries; w_cpool =
                    x.w_cpool; w_lock = x.w_lock; w_obs = x.w_obs; w_olists =
                    x.w_olists; w_oagg = x.w_oagg; w_opool = x.w_opool;
                    w_ototal = x.w_ototal; w_omax = x.w_omax; w_filters =
                    x.w_filters; w_queries = x.w_queries; w_res = (l x);
                    w_issued = x.w_issued; w_log = x.w_log }))
                    (map (fun _ -> false)) s0))))))))

(** val tbl_shrink_target : table -> nat -> nat **)

let tbl_shrink_target t min_cap =
  Nat.max (cap_pow2 t.t_len) min_cap

(** val tbl_can_shrink : table -> nat -> bool **)

let tbl_can_shrink t min_cap =
  Nat.ltb (tbl_shrink_target t min_cap) t.t_cap

(** val w_shrink_clock : (nat -> bool) -> bool mW **)

let w_shrink_clock clock =
  bind get (fun s ->
    let n0 = length s.w_tables in
    bind
      (let rec go fuel idx any =
         match fuel with
         | O -> ret (idx, any)
         | S f ->
           bind (getT idx) (fun t ->
             bind get (fun s0 ->
               bind
                 (if negb (tbl_has_rels t)
                  then if tbl_can_shrink t s0.w_cfg.cf_cap
                       then bind
                              (modT idx (fun t0 ->
                                tbl_adjust t0
                                  (tbl_shrink_target t0 s0.w_cfg.cf_cap)))
                              (fun _ -> ret true)
                       else ret any
                  else bind
                         (if tbl_can_shrink t s0.w_cfg.cf_caprel
                          then bind
                                 (modT idx (fun t0 ->
                                   tbl_adjust t0
                                     (tbl_shrink_target t0 s0.w_cfg.cf_caprel)))
                                 (fun _ -> ret true)
                          else ret any) (fun a1 ->
                         bind (getT idx) (fun t0 ->
                           if (&&) (negb t0.t_free) (Nat.eqb t0.t_len O)
                           then bind (free_table t0.t_arch idx) (fun _ ->
                                  bind
                                    (modA t0.t_arch (fun a ->
                                      remove_from_targets_cols idx O
                                        t0.t_kinds t0.t_targets a)) (fun _ ->
                                    bind (cache_remove_table idx) (fun _ ->
                                      ret true)))
                           else ret a1))) (fun any1 ->
                 if (&&) any1 (clock idx)
                 then ret (idx, any1)
                 else (match f with
                       | O -> ret (idx, any1)
                       | S _ -> go f (S idx) any1))))
       in go n0 O false) (fun r ->
      let (last, _) = r in
      bind get (fun s0 ->
        ret
          (existsb (fun t ->
            if negb (tbl_has_rels t)
            then tbl_can_shrink t s0.w_cfg.cf_cap
            else (||) (tbl_can_shrink t s0.w_cfg.cf_caprel)
                   ((&&) (negb t.t_free) (Nat.eqb t.t_len O)))
            (skipn (S last) s0.w_tables)))))

(** val w_shrink_core : bool -> bool mW **)

let w_shrink_core stop0 =
  w_shrink_clock (fun _ -> stop0)

(** val w_shrink : bool -> bool mW **)

let w_shrink stop0 =
  bind check_locked (fun _ -> w_shrink_core stop0)

(** val getQ : nat -> qobj mW **)

let getQ qi =
  bind get (fun s -> of_opt (nth_error s.w_queries qi) EIndex)

(** val modQ : nat -> (qobj -> qobj) -> unit mW **)

let modQ qi f =
  modify (fun s ->
    set (fun w0 -> w0.w_queries) (fun f0 ->
      let l = fun r -> f0 r.w_queries in
      (fun x -> { w_cfg = x.w_cfg; w_reg = x.w_reg; w_pool = x.w_pool;
      w_index = x.w_index; w_istarget = x.w_istarget; w_archs = x.w_archs;
      w_tables = x.w_tables; w_relarchs = x.w_relarchs; w_compindex =
      x.w_compindex; w_archcount = x.w_archcount; w_version = x.w_version;
      w_cheap = x.w_cheap; w_centries = x.w_centries; w_cpool = x.w_cpool;
      w_lock = x.w_lock; w_obs = x.w_obs; w_olists = x.w_olists; w_oagg =
      x.w_oagg; w_opool = x.w_opool; w_ototal = x.w_ototal; w_omax =
      x.w_omax; w_filters = x.w_filters; w_queries = (l x); w_res = x.w_res;
      w_issued = x.w_issued; w_log = x.w_log })) (updf qi f) s)

(** val rare_component : w -> nat list -> nat **)

let rare_component s ids =
  fst
    (fold_left (fun best c ->
      let cnt = nth c s.w_archcount O in
      (match snd best with
       | Some b -> if Nat.ltb cnt b then (c, (Some cnt)) else best
       | None -> (c, (Some cnt)))) ids (O, None))

(** val entry_addr : w -> nat -> nat option **)

let entry_addr s cid =
  find (fun addr ->
    match nth_error s.w_cheap addr with
    | Some e -> Nat.eqb e.ce_id cid
    | None -> false) s.w_centries

(** val query_open : nat -> rel list -> nat mW **)

let query_open fi rels =
  bind (getF fi) (fun f ->
    bind (whenM (negb f.f_unsafe) (to_relations f.f_mask rels)) (fun _ ->
      bind get (fun s ->
        bind
          (match f.f_cache with
           | Some cid ->
             bind (of_opt (entry_addr s cid) EIndex) (fun a -> ret (Some a))
           | None -> ret None) (fun cache ->
          let qrels =
            match f.f_cache with
            | Some _ -> rels
            | None -> app f.f_rels rels
          in
          let rare =
            if (||) f.f_unsafe (is_nil f.f_ids)
            then None
            else (match f.f_cache with
                  | Some _ -> Some O
                  | None -> Some (rare_component s f.f_ids))
          in
          bind lockM (fun b ->
            bind get (fun s0 ->
              let q = { q_filter = fi; q_rels = qrels; q_cache = cache;
                q_lock = b; q_arch = (S O); q_tab = (S O); q_index = O;
                q_max = None; q_tables = []; q_table = None; q_rare = rare }
              in
              bind
                (put
                  (set (fun w0 -> w0.w_queries) (fun f0 ->
                    let l = fun r -> f0 r.w_queries in
                    (fun x -> { w_cfg = x.w_cfg; w_reg = x.w_reg; w_pool =
                    x.w_pool; w_index = x.w_index; w_istarget = x.w_istarget;
                    w_archs = x.w_archs; w_tables = x.w_tables; w_relarchs =
                    x.w_relarchs; w_compindex = x.w_compindex; w_archcount =
                    x.w_archcount; w_version = x.w_version; w_cheap =
                    x.w_cheap; w_centries = x.w_centries; w_cpool =
                    x.w_cpool; w_lock = x.w_lock; w_obs = x.w_obs; w_olists =
                    x.w_olists; w_oagg = x.w_oagg; w_opool = x.w_opool;
                    w_ototal = x.w_ototal; w_omax = x.w_omax; w_filters =
                    x.w_filters; w_queries = (l x); w_res = x.w_res;
                    w_issued = x.w_issued; w_log = x.w_log })) (fun l ->
                    app l (q :: [])) s0)) (fun _ -> ret (length s0.w_queries))))))))

(** val query_close : nat -> unit mW **)

let query_close qi =
  bind (getQ qi) (fun q ->
    if Nat.ltb q.q_tab (S O)
    then ret ()
    else bind
           (modQ qi (fun q0 ->
             set (fun q1 -> q1.q_cache) (fun f ->
               let o = fun r -> f r.q_cache in
               (fun x -> { q_filter = x.q_filter; q_rels = x.q_rels;
               q_cache = (o x); q_lock = x.q_lock; q_arch = x.q_arch; q_tab =
               x.q_tab; q_index = x.q_index; q_max = x.q_max; q_tables =
               x.q_tables; q_table = x.q_table; q_rare = x.q_rare }))
               (fun _ -> None)
               (set (fun q1 -> q1.q_table) (fun f ->
                 let o = fun r -> f r.q_table in
                 (fun x -> { q_filter = x.q_filter; q_rels = x.q_rels;
                 q_cache = x.q_cache; q_lock = x.q_lock; q_arch = x.q_arch;
                 q_tab = x.q_tab; q_index = x.q_index; q_max = x.q_max;
                 q_tables = x.q_tables; q_table = (o x); q_rare = x.q_rare }))
                 (fun _ -> None)
                 (set (fun q1 -> q1.q_tables) (fun f ->
                   let l = fun r -> f r.q_tables in
                   (fun x -> { q_filter = x.q_filter; q_rels = x.q_rels;
                   q_cache = x.q_cache; q_lock = x.q_lock; q_arch = x.q_arch;
                   q_tab = x.q_tab; q_index = x.q_index; q_max = x.q_max;
                   q_tables = (l x); q_table = x.q_table; q_rare = x.q_rare }))
                   (fun _ -> [])
                   (set (fun q1 -> q1.q_max) (fun f ->
                     let o = fun r -> f r.q_max in
                     (fun x -> { q_filter = x.q_filter; q_rels = x.q_rels;
                     q_cache = x.q_cache; q_lock = x.q_lock; q_arch =
                     x.q_arch; q_tab = x.q_tab; q_index = x.q_index; q_max =
                     (o x); q_tables = x.q_tables; q_table = x.q_table;
                     q_rare = x.q_rare })) (fun _ -> None)
                     (set (fun q1 -> q1.q_index) (fun f ->
                       let n0 = fun r -> f r.q_index in
                       (fun x -> { q_filter = x.q_filter; q_rels = x.q_rels;
                       q_cache = x.q_cache; q_lock = x.q_lock; q_arch =
                       x.q_arch; q_tab = x.q_tab; q_index = (n0 x); q_max =
                       x.q_max; q_tables = x.q_tables; q_table = x.q_table;
                       q_rare = x.q_rare })) (fun _ -> O)
                       (set (fun q1 -> q1.q_tab) (fun f ->
                         let n0 = fun r -> f r.q_tab in
                         (fun x -> { q_filter = x.q_filter; q_rels =
                         x.q_rels; q_cache = x.q_cache; q_lock = x.q_lock;
                         q_arch = x.q_arch; q_tab = (n0 x); q_index =
                         x.q_index; q_max = x.q_max; q_tables = x.q_tables;
                         q_table = x.q_table; q_rare = x.q_rare })) (fun _ ->
                         O)
                         (set (fun q1 -> q1.q_arch) (fun f ->
                           let n0 = fun r -> f r.q_arch in
                           (fun x -> { q_filter = x.q_filter; q_rels =
                           x.q_rels; q_cache = x.q_cache; q_lock = x.q_lock;
                           q_arch = (n0 x); q_tab = x.q_tab; q_index =
                           x.q_index; q_max = x.q_max; q_tables = x.q_tables;
                           q_table = x.q_table; q_rare = x.q_rare }))
                           (fun _ -> O) q0)))))))) (fun _ -> unlockM q.q_lock))

(** val query_set_table : nat -> nat -> nat -> unit mW **)

let query_set_table qi pos tid =
  bind (getT tid) (fun t ->
    modQ qi (fun q ->
      set (fun q0 -> q0.q_max) (fun f ->
        let o = fun r -> f r.q_max in
        (fun x -> { q_filter = x.q_filter; q_rels = x.q_rels; q_cache =
        x.q_cache; q_lock = x.q_lock; q_arch = x.q_arch; q_tab = x.q_tab;
        q_index = x.q_index; q_max = (o x); q_tables = x.q_tables; q_table =
        x.q_table; q_rare = x.q_rare })) (fun _ ->
        if Nat.eqb t.t_len O then None else Some (sub t.t_len (S O)))
        (set (fun q0 -> q0.q_index) (fun f ->
          let n0 = fun r -> f r.q_index in
          (fun x -> { q_filter = x.q_filter; q_rels = x.q_rels; q_cache =
          x.q_cache; q_lock = x.q_lock; q_arch = x.q_arch; q_tab = x.q_tab;
          q_index = (n0 x); q_max = x.q_max; q_tables = x.q_tables; q_table =
          x.q_table; q_rare = x.q_rare })) (fun _ -> O)
          (set (fun q0 -> q0.q_table) (fun f ->
            let o = fun r -> f r.q_table in
            (fun x -> { q_filter = x.q_filter; q_rels = x.q_rels; q_cache =
            x.q_cache; q_lock = x.q_lock; q_arch = x.q_arch; q_tab = x.q_tab;
            q_index = x.q_index; q_max = x.q_max; q_tables = x.q_tables;
            q_table = (o x); q_rare = x.q_rare })) (fun _ -> Some tid)
            (set (fun q0 -> q0.q_tab) (fun f ->
              let n0 = fun r -> f r.q_tab in
              (fun x -> { q_filter = x.q_filter; q_rels = x.q_rels; q_cache =
              x.q_cache; q_lock = x.q_lock; q_arch = x.q_arch; q_tab =
              (n0 x); q_index = x.q_index; q_max = x.q_max; q_tables =
              x.q_tables; q_table = x.q_table; q_rare = x.q_rare }))
              (fun _ -> add pos (S (S O))) q)))))

(** val nt_fail_pos : w -> rel list -> nat list -> nat -> nat -> nat **)

let rec nt_fail_pos s rels tables fuel pos =
  match fuel with
  | O -> pos
  | S f ->
    (match nth_error tables pos with
     | Some tid ->
       (match nth_error s.w_tables tid with
        | Some t ->
          if Nat.eqb t.t_len O
          then nt_fail_pos s rels tables f (S pos)
          else (match tbl_matches t rels with
                | Some b ->
                  if b then pos else nt_fail_pos s rels tables f (S pos)
                | None -> pos)
        | None -> pos)
     | None -> pos)

(** val query_next_table : nat -> nat list -> bool -> bool mW **)

let query_next_table qi tables cached =
  bind (getQ qi) (fun q ->
    bind
      (on_err
        (let rec go fuel pos =
           match fuel with
           | O -> ret None
           | S f ->
             (match nth_error tables pos with
              | Some tid ->
                bind (getT tid) (fun t ->
                  if Nat.eqb t.t_len O
                  then go f (S pos)
                  else bind (of_opt (tbl_matches t q.q_rels) ENil) (fun mt ->
                         if mt then ret (Some (pos, tid)) else go f (S pos)))
              | None -> ret None)
         in go (S (length tables)) (sub q.q_tab (S O))) (fun s ->
        set (fun w0 -> w0.w_queries) (fun f ->
          let l = fun r -> f r.w_queries in
          (fun x -> { w_cfg = x.w_cfg; w_reg = x.w_reg; w_pool = x.w_pool;
          w_index = x.w_index; w_istarget = x.w_istarget; w_archs =
          x.w_archs; w_tables = x.w_tables; w_relarchs = x.w_relarchs;
          w_compindex = x.w_compindex; w_archcount = x.w_archcount;
          w_version = x.w_version; w_cheap = x.w_cheap; w_centries =
          x.w_centries; w_cpool = x.w_cpool; w_lock = x.w_lock; w_obs =
          x.w_obs; w_olists = x.w_olists; w_oagg = x.w_oagg; w_opool =
          x.w_opool; w_ototal = x.w_ototal; w_omax = x.w_omax; w_filters =
          x.w_filters; w_queries = (l x); w_res = x.w_res; w_issued =
          x.w_issued; w_log = x.w_log }))
          (updf qi (fun q0 ->
            set (fun q1 -> q1.q_tab) (fun f ->
              let n0 = fun r -> f r.q_tab in
              (fun x -> { q_filter = x.q_filter; q_rels = x.q_rels; q_cache =
              x.q_cache; q_lock = x.q_lock; q_arch = x.q_arch; q_tab =
              (n0 x); q_index = x.q_index; q_max = x.q_max; q_tables =
              x.q_tables; q_table = x.q_table; q_rare = x.q_rare }))
              (fun _ ->
              add
                (nt_fail_pos s q.q_rels tables (S (length tables))
                  (sub q.q_tab (S O))) (S (S O))) q0)) s)) (fun r ->
      match r with
      | Some p0 ->
        let (pos, tid) = p0 in
        bind (query_set_table qi pos tid) (fun _ -> ret true)
      | None ->
        bind
          (modQ qi (fun q0 ->
            set (fun q1 -> q1.q_tab) (fun f ->
              let n0 = fun r0 -> f r0.q_tab in
              (fun x -> { q_filter = x.q_filter; q_rels = x.q_rels; q_cache =
              x.q_cache; q_lock = x.q_lock; q_arch = x.q_arch; q_tab =
              (n0 x); q_index = x.q_index; q_max = x.q_max; q_tables =
              x.q_tables; q_table = x.q_table; q_rare = x.q_rare }))
              (fun _ -> Nat.max q0.q_tab (add (length tables) (S O))) q0))
          (fun _ -> bind (whenM cached (query_close qi)) (fun _ -> ret false))))

(** val query_archetypes : w -> qobj -> nat list **)

let query_archetypes s q =
  match q.q_rare with
  | Some c -> nth c s.w_compindex []
  | None -> seq O (length s.w_archs)

(** val query_next_archetype : nat -> bool mW **)

let query_next_archetype qi =
  bind
    (modQ qi (fun q ->
      set (fun q0 -> q0.q_tables) (fun f ->
        let l = fun r -> f r.q_tables in
        (fun x -> { q_filter = x.q_filter; q_rels = x.q_rels; q_cache =
        x.q_cache; q_lock = x.q_lock; q_arch = x.q_arch; q_tab = x.q_tab;
        q_index = x.q_index; q_max = x.q_max; q_tables = (l x); q_table =
        x.q_table; q_rare = x.q_rare })) (fun _ -> []) q)) (fun _ ->
    bind (getQ qi) (fun q ->
      bind (guard (Nat.leb (S O) q.q_arch) EIndex) (fun _ ->
        bind get (fun s ->
          let archs = query_archetypes s q in
          bind (getF q.q_filter) (fun f ->
            bind
              (let rec go fuel pos =
                 match fuel with
                 | O -> ret false
                 | S fu ->
                   (match nth_error archs pos with
                    | Some aid ->
                      bind
                        (modQ qi (fun q0 ->
                          set (fun q1 -> q1.q_arch) (fun f0 ->
                            let n0 = fun r -> f0 r.q_arch in
                            (fun x -> { q_filter = x.q_filter; q_rels =
                            x.q_rels; q_cache = x.q_cache; q_lock = x.q_lock;
                            q_arch = (n0 x); q_tab = x.q_tab; q_index =
                            x.q_index; q_max = x.q_max; q_tables =
                            x.q_tables; q_table = x.q_table; q_rare =
                            x.q_rare })) (fun _ -> add pos (S (S O))) q0))
                        (fun _ ->
                        bind (getA aid) (fun a ->
                          if negb (filter_matches f a.a_mask)
                          then go fu (S pos)
                          else if negb (arch_has_rels a)
                               then (match a.a_tables with
                                     | [] -> fail EIndex
                                     | t0 :: _ ->
                                       bind (getT t0) (fun t ->
                                         if Nat.ltb O t.t_len
                                         then bind (query_set_table qi O t0)
                                                (fun _ -> ret true)
                                         else go fu (S pos)))
                               else bind (getQ qi) (fun q0 ->
                                      bind
                                        (of_opt (arch_get_tables a q0.q_rels)
                                          EIndex) (fun tabs ->
                                        bind
                                          (modQ qi (fun q1 ->
                                            set (fun q2 -> q2.q_table)
                                              (fun f0 ->
                                              let o = fun r -> f0 r.q_table in
                                              (fun x -> { q_filter =
                                              x.q_filter; q_rels = x.q_rels;
                                              q_cache = x.q_cache; q_lock =
                                              x.q_lock; q_arch = x.q_arch;
                                              q_tab = x.q_tab; q_index =
                                              x.q_index; q_max = x.q_max;
                                              q_tables = x.q_tables;
                                              q_table = (o x); q_rare =
                                              x.q_rare })) (fun _ -> None)
                                              (set (fun q2 -> q2.q_tab)
                                                (fun f0 ->
                                                let n0 = fun r -> f0 r.q_tab
                                                in
                                                (fun x -> { q_filter =
                                                x.q_filter; q_rels =
                                                x.q_rels; q_cache =
                                                x.q_cache; q_lock = x.q_lock;
                                                q_arch = x.q_arch; q_tab =
                                                (n0 x); q_index = x.q_index;
                                                q_max = x.q_max; q_tables =
                                                x.q_tables; q_table =
                                                x.q_table; q_rare =
                                                x.q_rare })) (fun _ -> S O)
                                                (set (fun q2 -> q2.q_tables)
                                                  (fun f0 ->
                                                  let l = fun r ->
                                                    f0 r.q_tables
                                                  in
                                                  (fun x -> { q_filter =
                                                  x.q_filter; q_rels =
                                                  x.q_rels; q_cache =
                                                  x.q_cache; q_lock =
                                                  x.q_lock; q_arch =
                                                  x.q_arch; q_tab = x.q_tab;
                                                  q_index = x.q_index;
                                                  q_max = x.q_max; q_tables =
                                                  (l x); q_table = x.q_table;
                                                  q_rare = x.q_rare }))
                                                  (fun _ -> tabs) q1))))
                                          (fun _ ->
                                          bind
                                            (query_next_table qi tabs false)
                                            (fun found ->
                                            if found
                                            then ret true
                                            else go fu (S pos)))))))
                    | None -> ret false)
               in go (S (length archs)) (sub q.q_arch (S O))) (fun r ->
              if r
              then ret true
              else bind (query_close qi) (fun _ -> ret false)))))))

(** val query_next_table_or_archetype : nat -> bool mW **)

let query_next_table_or_archetype qi =
  bind (getQ qi) (fun q ->
    bind (guard (Nat.leb (S O) q.q_tab) EMisuse) (fun _ ->
      match q.q_cache with
      | Some addr ->
        bind get (fun s ->
          bind (of_opt (nth_error s.w_cheap addr) EIndex) (fun e ->
            query_next_table qi e.ce_tables true))
      | None ->
        if Nat.leb (S (S O)) q.q_arch
        then bind (query_next_table qi q.q_tables false) (fun found ->
               if found then ret true else query_next_archetype qi)
        else query_next_archetype qi))

(** val query_next : bool -> nat -> bool mW **)

let query_next debug qi =
  bind (getQ qi) (fun q ->
    bind (whenM debug (guard (Nat.leb (S O) q.q_tab) EMisuse)) (fun _ ->
      match q.q_max with
      | Some mx ->
        if Nat.ltb q.q_index mx
        then bind
               (modQ qi (fun q0 ->
                 set (fun q1 -> q1.q_index) (fun f ->
                   let n0 = fun r -> f r.q_index in
                   (fun x -> { q_filter = x.q_filter; q_rels = x.q_rels;
                   q_cache = x.q_cache; q_lock = x.q_lock; q_arch = x.q_arch;
                   q_tab = x.q_tab; q_index = (n0 x); q_max = x.q_max;
                   q_tables = x.q_tables; q_table = x.q_table; q_rare =
                   x.q_rare })) (fun x -> S x) q0)) (fun _ -> ret true)
        else query_next_table_or_archetype qi
      | None -> query_next_table_or_archetype qi))

(** val query_entity : bool -> nat -> ent mW **)

let query_entity debug qi =
  bind (getQ qi) (fun q ->
    bind (whenM debug (guard (Nat.leb (S (S O)) q.q_tab) EMisuse)) (fun _ ->
      bind (of_opt q.q_table ENil) (fun tid ->
        bind (getT tid) (fun t ->
          of_opt (nth_error t.t_ents q.q_index) EIndex))))

(** val count_tables :
    w -> nat list -> rel list -> bool -> (w, (nat * nat) list) res **)

let count_tables s tabs rels skip_empty =
  match tables_matching s tabs rels skip_empty with
  | Ok (l, s') ->
    Ok
      ((map (fun tid -> (tid,
         (match nth_error s.w_tables tid with
          | Some t -> t.t_len
          | None -> O))) l), s')
  | Err (e, s') -> Err (e, s')

(** val query_walk : nat -> (nat * nat) list mW **)

let query_walk qi =
  bind (getQ qi) (fun q ->
    bind get (fun s ->
      match q.q_cache with
      | Some addr ->
        bind (of_opt (nth_error s.w_cheap addr) EIndex) (fun e s0 ->
          count_tables s0 e.ce_tables q.q_rels true)
      | None ->
        bind (getF q.q_filter) (fun f ->
          let rec go l acc =
            match l with
            | [] -> ret acc
            | aid :: rest ->
              bind (getA aid) (fun a ->
                if negb (filter_matches f a.a_mask)
                then go rest acc
                else if negb (arch_has_rels a)
                     then (match a.a_tables with
                           | [] -> fail EIndex
                           | t0 :: _ ->
                             bind (getT t0) (fun t ->
                               go rest (app acc ((t0, t.t_len) :: []))))
                     else bind (of_opt (arch_get_tables a q.q_rels) EIndex)
                            (fun cand ->
                            bind (fun s0 ->
                              count_tables s0 cand q.q_rels false) (fun ts ->
                              go rest (app acc ts))))
          in go (query_archetypes s q) [])))

(** val query_count : nat -> nat mW **)

let query_count qi =
  bind (query_walk qi) (fun w0 ->
    ret (fold_left (fun acc p0 -> add acc (snd p0)) w0 O))

(** val entity_at_tables :
    nat -> rel list -> bool -> nat list -> nat -> (ent, nat) sum mW **)

let rec entity_at_tables index rels skip_empty tabs count =
  match tabs with
  | [] -> ret (Inr count)
  | tid :: rest ->
    bind (getT tid) (fun t ->
      if (&&) skip_empty (Nat.eqb t.t_len O)
      then entity_at_tables index rels skip_empty rest count
      else bind (of_opt (tbl_matches t rels) ENil) (fun mt ->
             if negb mt
             then entity_at_tables index rels skip_empty rest count
             else if Nat.ltb index (add count t.t_len)
                  then bind
                         (of_opt (nth_error t.t_ents (sub index count))
                           EIndex) (fun e -> ret (Inl e))
                  else entity_at_tables index rels skip_empty rest
                         (add count t.t_len)))

(** val query_entity_at : nat -> nat -> ent mW **)

let query_entity_at qi index =
  bind (getQ qi) (fun q ->
    bind get (fun s ->
      match q.q_cache with
      | Some addr ->
        bind (of_opt (nth_error s.w_cheap addr) EIndex) (fun e ->
          bind (entity_at_tables index q.q_rels true e.ce_tables O) (fun r ->
            match r with
            | Inl x -> ret x
            | Inr _ -> fail EIndex))
      | None ->
        bind (getF q.q_filter) (fun f ->
          let rec go l count =
            match l with
            | [] -> fail EIndex
            | aid :: rest ->
              bind (getA aid) (fun a ->
                if negb (filter_matches f a.a_mask)
                then go rest count
                else if negb (arch_has_rels a)
                     then (match a.a_tables with
                           | [] -> fail EIndex
                           | t0 :: _ ->
                             bind (getT t0) (fun t ->
                               if Nat.ltb index (add count t.t_len)
                               then of_opt
                                      (nth_error t.t_ents (sub index count))
                                      EIndex
                               else go rest (add count t.t_len)))
                     else bind (of_opt (arch_get_tables a q.q_rels) EIndex)
                            (fun cand ->
                            bind
                              (entity_at_tables index q.q_rels false cand
                                count) (fun r ->
                              match r with
                              | Inl x -> ret x
                              | Inr c -> go rest c)))
          in go (query_archetypes s q) O)))

type hrel = nat * z

type op =
| ONewEntity
| OUNew of nat list
| OUNewRel of nat list * hrel list
| ONewEntities of nat * bool
| OCopy of z
| OUAdd of z * nat list
| OUAddRel of z * nat list * hrel list
| OURemove of z * nat list
| OUExchange of z * nat list * nat list * hrel list
| OWrite of z * nat * z
| OUSetRel of z * hrel list
| ORemoveEntity of z
| ORemoveEntities of nat * hrel list * bool
| OReset
| OShrink of bool
| OFilterNew of bool * nat list * nat list * bool * hrel list
| OFilterRegister of nat
| OFilterUnregister of nat
| OQueryAll of nat * hrel list
| OQueryOpen of nat * hrel list
| OQueryNext of nat
| OQueryClose of nat
| OQueryCount of nat
| OQueryEntityAt of nat * nat
| OQueryEntity of nat
| OObsNew of nat * nat list * nat list * nat list * bool * nat
| OObsRegister of nat
| OObsUnregister of nat
| OEmit of nat * z * nat list
| OMapSet of z * nat * z
| ONewBatch of nat * nat list * hrel list * (nat * z) list * bool
| OExchangeBatch of nat * hrel list * nat list * nat list * hrel list
   * (nat * z) list
| OSetRelBatch of nat * hrel list * nat list * hrel list
| OAlive of z
| OHas of z * nat
| OGetRel of z * nat
| OIDs of z
| OGet of z * nat
| OStats

type 'a p = z list -> ('a * z list) option

(** val pZ : z p **)

let pZ = function
| [] -> None
| x :: t -> Some (x, t)

(** val pnat : nat p **)

let pnat = function
| [] -> None
| x :: t -> if Z.ltb x Z0 then None else Some ((Z.to_nat x), t)

(** val pbool : bool p **)

let pbool = function
| [] -> None
| x :: t -> Some ((negb (Z.eqb x Z0)), t)

(** val pbind : 'a1 p -> ('a1 -> 'a2 p) -> 'a2 p **)

let pbind p0 k l =
  match p0 l with
  | Some p1 -> let (a, t) = p1 in k a t
  | None -> None

(** val pret : 'a1 -> 'a1 p **)

let pret a l =
  Some (a, l)

(** val prep : 'a1 p -> nat -> 'a1 list p **)

let rec prep p0 = function
| O -> pret []
| S n' -> pbind p0 (fun x -> pbind (prep p0 n') (fun xs -> pret (x :: xs)))

(** val plist : 'a1 p -> 'a1 list p **)

let plist p0 =
  pbind pnat (fun n0 -> prep p0 n0)

(** val ppair : 'a1 p -> 'a2 p -> ('a1 * 'a2) p **)

let ppair pa pb =
  pbind pa (fun a -> pbind pb (fun b -> pret (a, b)))

(** val pnats : nat list p **)

let pnats =
  plist pnat

(** val prels : hrel list p **)

let prels =
  plist (ppair pnat pZ)

(** val pvals : (nat * z) list p **)

let pvals =
  plist (ppair pnat pZ)

(** val pflag : bool p **)

let pflag = function
| [] -> Some (false, [])
| x :: t -> Some ((Z.odd x), t)

(** val decode_op : z list -> op option **)

let decode_op = function
| [] -> None
| code :: args ->
  let r =
    match code with
    | Z0 -> pret ONewEntity args
    | Zpos p0 ->
      (match p0 with
       | XI p1 ->
         (match p1 with
          | XI p2 ->
            (match p2 with
             | XI p3 ->
               (match p3 with
                | XI p4 ->
                  (match p4 with
                   | XH ->
                     pbind pnat (fun f ->
                       pbind prels (fun br ->
                         pbind pnats (fun add0 ->
                           pbind pnats (fun rem ->
                             pbind prels (fun rels ->
                               pbind pvals (fun vals ->
                                 pret (OExchangeBatch (f, br, add0, rem,
                                   rels, vals)))))))) args
                   | _ -> None)
                | XO p4 ->
                  (match p4 with
                   | XH ->
                     pbind pnat (fun q ->
                       pbind pnat (fun i -> pret (OQueryEntityAt (q, i))))
                       args
                   | _ -> None)
                | XH ->
                  pbind pbool (fun u ->
                    pbind pnats (fun ids ->
                      pbind pnats (fun wo ->
                        pbind pbool (fun ex ->
                          pbind prels (fun rels ->
                            pret (OFilterNew (u, ids, wo, ex, rels))))))) args)
             | XO p3 ->
               (match p3 with
                | XI p4 ->
                  (match p4 with
                   | XH -> pbind pnat (fun o -> pret (OObsUnregister o)) args
                   | _ -> None)
                | XO p4 ->
                  (match p4 with
                   | XI _ -> None
                   | XO p5 ->
                     (match p5 with
                      | XH ->
                        pbind pZ (fun h ->
                          pbind pnat (fun c -> pret (OGetRel (h, c)))) args
                      | _ -> None)
                   | XH ->
                     pbind pnat (fun f ->
                       pbind prels (fun rels -> pret (OQueryOpen (f, rels))))
                       args)
                | XH -> pbind pZ (fun h -> pret (ORemoveEntity h)) args)
             | XH ->
               pbind pZ (fun h ->
                 pbind pnats (fun ids -> pret (OURemove (h, ids)))) args)
          | XO p2 ->
            (match p2 with
             | XI p3 ->
               (match p3 with
                | XI p4 ->
                  (match p4 with
                   | XH ->
                     pbind pZ (fun h ->
                       pbind pnat (fun c ->
                         pbind pZ (fun v -> pret (OMapSet (h, c, v))))) args
                   | _ -> None)
                | XO p4 ->
                  (match p4 with
                   | XI _ -> None
                   | XO p5 ->
                     (match p5 with
                      | XH ->
                        pbind pZ (fun h ->
                          pbind pnat (fun c -> pret (OGet (h, c)))) args
                      | _ -> None)
                   | XH -> pbind pnat (fun q -> pret (OQueryClose q)) args)
                | XH -> pret OReset args)
             | XO p3 ->
               (match p3 with
                | XI p4 ->
                  (match p4 with
                   | XH ->
                     pbind pnat (fun e ->
                       pbind pnats (fun f ->
                         pbind pnats (fun w0 ->
                           pbind pnats (fun wo ->
                             pbind pbool (fun ex ->
                               pbind pnat (fun cb ->
                                 pret (OObsNew (e, f, w0, wo, ex, cb))))))))
                       args
                   | _ -> None)
                | XO p4 ->
                  (match p4 with
                   | XI _ -> None
                   | XO p5 ->
                     (match p5 with
                      | XH -> pbind pZ (fun h -> pret (OAlive h)) args
                      | _ -> None)
                   | XH ->
                     pbind pnat (fun f -> pret (OFilterUnregister f)) args)
                | XH ->
                  pbind pZ (fun h ->
                    pbind pnat (fun c ->
                      pbind pZ (fun v -> pret (OWrite (h, c, v))))) args)
             | XH ->
               pbind pZ (fun h ->
                 pbind pnats (fun ids -> pret (OUAdd (h, ids)))) args)
          | XH ->
            pbind pnat (fun n0 ->
              pbind pflag (fun nf -> pret (ONewEntities (n0, nf)))) args)
       | XO p1 ->
         (match p1 with
          | XI p2 ->
            (match p2 with
             | XI p3 ->
               (match p3 with
                | XI p4 ->
                  (match p4 with
                   | XH ->
                     pbind pnat (fun n0 ->
                       pbind pnats (fun ids ->
                         pbind prels (fun rels ->
                           pbind pvals (fun vals ->
                             pbind pflag (fun nf ->
                               pret (ONewBatch (n0, ids, rels, vals, nf)))))))
                       args
                   | _ -> None)
                | XO p4 ->
                  (match p4 with
                   | XI _ -> None
                   | XO p5 ->
                     (match p5 with
                      | XH -> pret OStats args
                      | _ -> None)
                   | XH -> pbind pnat (fun q -> pret (OQueryCount q)) args)
                | XH -> pbind pbool (fun b -> pret (OShrink b)) args)
             | XO p3 ->
               (match p3 with
                | XI p4 ->
                  (match p4 with
                   | XH -> pbind pnat (fun o -> pret (OObsRegister o)) args
                   | _ -> None)
                | XO p4 ->
                  (match p4 with
                   | XI _ -> None
                   | XO p5 ->
                     (match p5 with
                      | XH ->
                        pbind pZ (fun h ->
                          pbind pnat (fun c -> pret (OHas (h, c)))) args
                      | _ -> None)
                   | XH ->
                     pbind pnat (fun f ->
                       pbind prels (fun rels -> pret (OQueryAll (f, rels))))
                       args)
                | XH ->
                  pbind pZ (fun h ->
                    pbind prels (fun rels -> pret (OUSetRel (h, rels)))) args)
             | XH ->
               pbind pZ (fun h ->
                 pbind pnats (fun ids ->
                   pbind prels (fun rels -> pret (OUAddRel (h, ids, rels)))))
                 args)
          | XO p2 ->
            (match p2 with
             | XI p3 ->
               (match p3 with
                | XI p4 ->
                  (match p4 with
                   | XH ->
                     pbind pnat (fun e ->
                       pbind pZ (fun h ->
                         pbind pnats (fun cs -> pret (OEmit (e, h, cs)))))
                       args
                   | _ -> None)
                | XO p4 ->
                  (match p4 with
                   | XI _ -> None
                   | XO p5 ->
                     (match p5 with
                      | XH -> pbind pZ (fun h -> pret (OIDs h)) args
                      | _ -> None)
                   | XH -> pbind pnat (fun q -> pret (OQueryNext q)) args)
                | XH ->
                  pbind pnat (fun f ->
                    pbind prels (fun rels ->
                      pbind pflag (fun nf ->
                        pret (ORemoveEntities (f, rels, nf))))) args)
             | XO p3 ->
               (match p3 with
                | XI p4 ->
                  (match p4 with
                   | XH -> pbind pnat (fun q -> pret (OQueryEntity q)) args
                   | _ -> None)
                | XO p4 ->
                  (match p4 with
                   | XI _ -> None
                   | XO p5 ->
                     (match p5 with
                      | XH ->
                        pbind pnat (fun f ->
                          pbind prels (fun br ->
                            pbind pnats (fun mids ->
                              pbind prels (fun rels ->
                                pret (OSetRelBatch (f, br, mids, rels))))))
                          args
                      | _ -> None)
                   | XH -> pbind pnat (fun f -> pret (OFilterRegister f)) args)
                | XH ->
                  pbind pZ (fun h ->
                    pbind pnats (fun add0 ->
                      pbind pnats (fun rem ->
                        pbind prels (fun rels ->
                          pret (OUExchange (h, add0, rem, rels)))))) args)
             | XH -> pbind pZ (fun h -> pret (OCopy h)) args)
          | XH ->
            pbind pnats (fun ids ->
              pbind prels (fun rels -> pret (OUNewRel (ids, rels)))) args)
       | XH -> pbind pnats (fun ids -> pret (OUNew ids)) args)
    | Zneg _ -> None
  in
  (match r with
   | Some p0 ->
     let (o, l0) = p0 in (match l0 with
                          | [] -> Some o
                          | _ :: _ -> None)
   | None -> None)

type script_cfg = { sc_cap : nat; sc_caprel : nat; sc_bits : nat;
                    sc_debug : bool; sc_kinds : ckind list }

(** val kind_of_code : z -> ckind **)

let kind_of_code z0 =
  if (||) (Z.eqb z0 (Zpos (XO (XO XH)))) (Z.eqb z0 (Zpos (XI (XO XH))))
  then { ck_rel = false; ck_zs = false; ck_triv = false }
  else if Z.eqb z0 (Zpos (XO (XI XH)))
       then { ck_rel = false; ck_zs = true; ck_triv = true }
       else if (||) (Z.eqb z0 (Zpos (XI (XI XH))))
                 (Z.eqb z0 (Zpos (XO (XO (XO XH)))))
            then { ck_rel = true; ck_zs = false; ck_triv = true }
            else if Z.eqb z0 (Zpos (XI (XO (XO XH))))
                 then { ck_rel = true; ck_zs = true; ck_triv = true }
                 else { ck_rel = false; ck_zs = false; ck_triv = true }

(** val decode_cfg : z list -> script_cfg option **)

let decode_cfg l =
  match pbind pnat (fun c ->
          pbind pnat (fun cr ->
            pbind pnat (fun b ->
              pbind pbool (fun d ->
                pbind (plist pZ) (fun ks ->
                  pret { sc_cap = c; sc_caprel = cr; sc_bits = b; sc_debug =
                    d; sc_kinds = (map kind_of_code ks) }))))) l with
  | Some p0 ->
    let (c, l0) = p0 in (match l0 with
                         | [] -> Some c
                         | _ :: _ -> None)
  | None -> None

(** val init_world : script_cfg -> w **)

let init_world c =
  let a0 = { a_mask = N0; a_comps = []; a_isrel = []; a_tables = (O :: []);
    a_free = []; a_reltabs = []; a_tgttabs = []; a_numrel = O }
  in
  let n0 = length c.sc_kinds in
  { w_cfg = { cf_cap = c.sc_cap; cf_caprel = c.sc_caprel; cf_bits =
  c.sc_bits }; w_reg = c.sc_kinds; w_pool = pool_new; w_index = ((None,
  O) :: ((None, O) :: [])); w_istarget = (false :: (false :: [])); w_archs =
  (a0 :: []); w_tables = ((new_table O a0 [] c.sc_cap [] []) :: []);
  w_relarchs = []; w_compindex = (repeat [] n0); w_archcount = (repeat O n0);
  w_version = (Npos XH); w_cheap = []; w_centries = []; w_cpool = ipool_new;
  w_lock = lock_new; w_obs = []; w_olists = []; w_oagg = []; w_opool =
  ipool_new; w_ototal = O; w_omax = O; w_filters = []; w_queries = [];
  w_res = []; w_issued = []; w_log = [] }

(** val handle : w -> z -> ent option **)

let handle s h =
  if Z.ltb h Z0 then Some zero_ent else nth_error s.w_issued (Z.to_nat h)

(** val resolveH : z -> ent mW **)

let resolveH h =
  bind get (fun s -> of_opt (handle s h) EMisuse)

(** val resolveR : hrel list -> rel list mW **)

let resolveR rels =
  mapM rels (fun r -> bind (resolveH (snd r)) (fun e -> ret ((fst r), e)))

(** val no_relidx : rel list -> bool **)

let no_relidx rels =
  forallb (fun r ->
    Nat.ltb (fst r) (S (S (S (S (S (S (S (S (S (S (S (S (S (S (S (S (S (S (S
      (S (S (S (S (S (S (S (S (S (S (S (S (S (S (S (S (S (S (S (S (S (S (S (S
      (S (S (S (S (S (S (S (S (S (S (S (S (S (S (S (S (S (S (S (S (S (S (S (S
      (S (S (S (S (S (S (S (S (S (S (S (S (S (S (S (S (S (S (S (S (S (S (S (S
      (S (S (S (S (S (S (S (S (S (S (S (S (S (S (S (S (S (S (S (S (S (S (S (S
      (S (S (S (S (S (S (S (S (S (S (S (S (S (S (S (S (S (S (S (S (S (S (S (S
      (S (S (S (S (S (S (S (S (S (S (S (S (S (S (S (S (S (S (S (S (S (S (S (S
      (S (S (S (S (S (S (S (S (S (S (S (S (S (S (S (S (S (S (S (S (S (S (S (S
      (S (S (S (S (S (S (S (S (S (S (S (S (S (S (S (S (S (S (S (S (S (S (S (S
      (S (S (S (S (S (S (S (S (S (S (S (S (S (S (S (S (S (S (S (S (S (S (S (S
      (S (S (S (S (S (S (S (S (S (S (S (S (S (S (S (S (S (S (S (S (S (S (S (S
      (S (S (S (S (S (S (S (S (S (S (S (S (S (S (S (S (S (S (S (S (S (S (S (S
      (S (S (S (S (S (S (S (S (S (S (S (S (S (S (S (S (S (S (S (S (S (S (S (S
      (S (S (S (S (S (S (S (S (S (S (S (S (S (S (S (S (S (S (S (S (S (S (S (S
      (S (S (S (S (S (S (S (S (S (S (S (S (S (S (S (S (S (S (S (S (S (S (S (S
      (S (S (S (S (S (S (S (S (S (S (S (S (S (S (S (S (S (S (S (S (S (S (S (S
      (S (S (S (S (S (S (S (S (S (S (S (S (S (S (S (S (S (S (S (S (S (S (S (S
      (S (S (S (S (S (S (S (S (S (S (S (S (S (S (S (S (S (S (S (S (S (S (S (S
      (S (S (S (S (S (S (S (S (S (S (S (S (S (S (S (S (S (S (S (S (S (S (S (S
      (S (S (S (S (S (S (S (S (S (S (S (S (S (S (S (S (S (S (S (S (S (S (S (S
      (S (S (S (S (S (S (S (S (S (S (S (S (S (S (S (S (S (S (S (S (S (S (S (S
      (S (S (S (S (S (S (S (S (S (S (S (S (S (S (S (S (S (S (S (S (S (S (S (S
      (S (S (S (S (S (S (S (S (S (S (S (S (S (S (S (S (S (S (S (S (S (S (S (S
      (S (S (S (S (S (S (S (S (S (S (S (S (S (S (S (S (S (S (S (S (S (S (S (S
      (S (S (S (S (S (S (S (S (S (S (S (S (S (S (S (S (S (S (S (S (S (S (S (S
      (S (S (S (S (S (S (S (S (S (S (S (S (S (S (S (S (S (S (S (S (S (S (S (S
      (S (S (S (S (S (S (S (S (S (S (S (S (S (S (S (S (S (S (S (S (S (S (S (S
      (S (S (S (S (S (S (S (S (S (S (S (S (S (S (S (S (S (S (S (S (S (S (S (S
      (S (S (S (S (S (S (S (S (S (S (S (S (S (S (S (S (S (S (S (S (S (S (S (S
      (S (S (S (S (S (S (S (S (S (S (S (S (S (S (S (S (S (S (S (S (S (S (S (S
      (S (S (S (S (S (S (S (S (S (S (S (S (S (S (S (S (S (S (S (S (S (S (S (S
      (S (S (S (S (S (S (S (S (S (S (S (S (S (S (S (S (S (S (S (S (S (S (S (S
      (S (S (S (S (S (S (S (S (S (S (S (S (S (S (S (S (S (S (S (S (S (S (S (S
      (S (S (S (S (S (S (S (S (S (S (S (S (S (S (S (S (S (S (S (S (S (S (S (S
      (S (S (S (S (S (S (S (S (S (S (S (S (S (S (S (S (S (S (S (S (S (S (S (S
      (S (S (S (S (S (S (S (S (S (S (S (S (S (S (S (S (S (S (S (S (S (S (S (S
      (S (S (S (S (S (S (S (S (S (S (S (S (S (S (S (S (S (S (S (S (S (S (S (S
      (S (S (S (S (S (S (S (S (S (S (S (S (S (S (S (S (S (S (S (S (S (S (S (S
      (S (S (S (S (S (S (S (S (S (S (S (S (S (S (S (S (S (S (S (S (S (S (S (S
      (S (S (S (S (S (S (S (S (S (S (S (S (S (S (S (S (S (S (S (S (S (S (S (S
      (S (S (S (S (S (S (S (S (S (S (S (S (S (S (S (S (S (S (S (S (S (S (S (S
      (S (S (S (S (S (S (S (S (S (S (S (S (S (S (S (S (S (S (S (S (S
      O)))))))))))))))))))))))))))))))))))))))))))))))))))))))))))))))))))))))))))))))))))))))))))))))))))))))))))))))))))))))))))))))))))))))))))))))))))))))))))))))))))))))))))))))))))))))))))))))))))))))))))))))))))))))))))))))))))))))))))))))))))))))))))))))))))))))))))))))))))))))))))))))))))))))))))))))))))))))))))))))))))))))))))))))))))))))))))))))))))))))))))))))))))))))))))))))))))))))))))))))))))))))))))))))))))))))))))))))))))))))))))))))))))))))))))))))))))))))))))))))))))))))))))))))))))))))))))))))))))))))))))))))))))))))))))))))))))))))))))))))))))))))))))))))))))))))))))))))))))))))))))))))))))))))))))))))))))))))))))))))))))))))))))))))))))))))))))))))))))))))))))))))))))))))))))))))))))))))))))))))))))))))))))))))))))))))))))))))))))))))))))))))))))))))))))))))))))))))))))))))))))))))))))))))))))))))))))))))))))))))))))))))))))))))))))))))))))))))))))))))))))))))))))))))))))))))))))))))))))))))))))))))))))))))))))))))))))))))))))))))))))))))))))))))))))))))))))))))))))))))))
    rels

(** val resolve_relidx : nat -> rel list -> rel list mW **)

let resolve_relidx fi rels =
  if no_relidx rels
  then ret rels
  else bind (getF fi) (fun f ->
         if f.f_unsafe
         then fail EMisuse
         else mapM rels (fun r ->
                if Nat.ltb (fst r) (S (S (S (S (S (S (S (S (S (S (S (S (S (S
                     (S (S (S (S (S (S (S (S (S (S (S (S (S (S (S (S (S (S (S
                     (S (S (S (S (S (S (S (S (S (S (S (S (S (S (S (S (S (S (S
                     (S (S (S (S (S (S (S (S (S (S (S (S (S (S (S (S (S (S (S
                     (S (S (S (S (S (S (S (S (S (S (S (S (S (S (S (S (S (S (S
                     (S (S (S (S (S (S (S (S (S (S (S (S (S (S (S (S (S (S (S
                     (S (S (S (S (S (S (S (S (S (S (S (S (S (S (S (S (S (S (S
                     (S (S (S (S (S (S (S (S (S (S (S (S (S (S (S (S (S (S (S
                     (S (S (S (S (S (S (S (S (S (S (S (S (S (S (S (S (S (S (S
                     (S (S (S (S (S (S (S (S (S (S (S (S (S (S (S (S (S (S (S
                     (S (S (S (S (S (S (S (S (S (S (S (S (S (S (S (S (S (S (S
                     (S (S (S (S (S (S (S (S (S (S (S (S (S (S (S (S (S (S (S
                     (S (S (S (S (S (S (S (S (S (S (S (S (S (S (S (S (S (S (S
                     (S (S (S (S (S (S (S (S (S (S (S (S (S (S (S (S (S (S (S
                     (S (S (S (S (S (S (S (S (S (S (S (S (S (S (S (S (S (S (S
                     (S (S (S (S (S (S (S (S (S (S (S (S (S (S (S (S (S (S (S
                     (S (S (S (S (S (S (S (S (S (S (S (S (S (S (S (S (S (S (S
                     (S (S (S (S (S (S (S (S (S (S (S (S (S (S (S (S (S (S (S
                     (S (S (S (S (S (S (S (S (S (S (S (S (S (S (S (S (S (S (S
                     (S (S (S (S (S (S (S (S (S (S (S (S (S (S (S (S (S (S (S
                     (S (S (S (S (S (S (S (S (S (S (S (S (S (S (S (S (S (S (S
                     (S (S (S (S (S (S (S (S (S (S (S (S (S (S (S (S (S (S (S
                     (S (S (S (S (S (S (S (S (S (S (S (S (S (S (S (S (S (S (S
                     (S (S (S (S (S (S (S (S (S (S (S (S (S (S (S (S (S (S (S
                     (S (S (S (S (S (S (S (S (S (S (S (S (S (S (S (S (S (S (S
                     (S (S (S (S (S (S (S (S (S (S (S (S (S (S (S (S (S (S (S
                     (S (S (S (S (S (S (S (S (S (S (S (S (S (S (S (S (S (S (S
                     (S (S (S (S (S (S (S (S (S (S (S (S (S (S (S (S (S (S (S
                     (S (S (S (S (S (S (S (S (S (S (S (S (S (S (S (S (S (S (S
                     (S (S (S (S (S (S (S (S (S (S (S (S (S (S (S (S (S (S (S
                     (S (S (S (S (S (S (S (S (S (S (S (S (S (S (S (S (S (S (S
                     (S (S (S (S (S (S (S (S (S (S (S (S (S (S (S (S (S (S (S
                     (S (S (S (S (S (S (S (S (S (S (S (S (S (S (S (S (S (S (S
                     (S (S (S (S (S (S (S (S (S (S (S (S (S (S (S (S (S (S (S
                     (S (S (S (S (S (S (S (S (S (S (S (S (S (S (S (S (S (S (S
                     (S (S (S (S (S (S (S (S (S (S (S (S (S (S (S (S (S (S (S
                     (S (S (S (S (S (S (S (S (S (S (S (S (S (S (S (S (S (S (S
                     (S (S (S (S (S (S (S (S (S (S (S (S (S (S (S (S (S (S (S
                     (S (S (S (S (S (S (S (S (S (S (S (S (S (S (S (S (S (S (S
                     (S (S (S (S (S (S (S (S (S (S (S (S (S (S (S (S (S (S (S
                     (S (S (S (S (S (S (S (S (S (S (S (S (S (S (S (S (S (S (S
                     (S (S (S (S (S (S (S (S (S (S (S (S (S (S (S (S (S (S (S
                     (S (S (S (S (S (S (S (S (S (S (S (S (S (S (S (S (S (S (S
                     (S (S (S (S (S (S (S (S (S (S (S (S (S (S (S (S (S (S (S
                     (S (S (S (S (S (S (S (S (S (S (S (S (S (S (S (S (S (S (S
                     (S (S (S (S (S (S (S (S (S (S (S (S (S (S (S (S (S (S (S
                     (S (S (S (S (S (S (S (S (S (S (S (S (S (S (S (S (S (S (S
                     (S (S (S (S (S (S (S (S (S (S (S (S (S (S (S (S (S (S (S
                     (S (S (S (S (S (S (S (S (S (S (S (S (S (S (S (S (S (S (S
                     (S (S (S (S (S (S (S (S (S (S (S (S (S (S (S (S (S (S (S
                     (S (S (S (S (S (S (S (S (S (S (S (S (S (S (S (S (S (S (S
                     (S (S (S (S (S (S (S (S (S (S (S (S (S (S (S (S (S (S (S
                     (S (S (S (S (S (S (S (S (S (S (S (S (S (S (S (S (S
                     O))))))))))))))))))))))))))))))))))))))))))))))))))))))))))))))))))))))))))))))))))))))))))))))))))))))))))))))))))))))))))))))))))))))))))))))))))))))))))))))))))))))))))))))))))))))))))))))))))))))))))))))))))))))))))))))))))))))))))))))))))))))))))))))))))))))))))))))))))))))))))))))))))))))))))))))))))))))))))))))))))))))))))))))))))))))))))))))))))))))))))))))))))))))))))))))))))))))))))))))))))))))))))))))))))))))))))))))))))))))))))))))))))))))))))))))))))))))))))))))))))))))))))))))))))))))))))))))))))))))))))))))))))))))))))))))))))))))))))))))))))))))))))))))))))))))))))))))))))))))))))))))))))))))))))))))))))))))))))))))))))))))))))))))))))))))))))))))))))))))))))))))))))))))))))))))))))))))))))))))))))))))))))))))))))))))))))))))))))))))))))))))))))))))))))))))))))))))))))))))))))))))))))))))))))))))))))))))))))))))))))))))))))))))))))))))))))))))))))))))))))))))))))))))))))))))))))))))))))))))))))))))))))))))))))))))))))))))))))))))))))))))))))))))))))))))))))))))))))))))))
                then ret r
                else bind
                       (of_opt
                         (nth_error f.f_ids
                           (sub (fst r) (S (S (S (S (S (S (S (S (S (S (S (S
                             (S (S (S (S (S (S (S (S (S (S (S (S (S (S (S (S
                             (S (S (S (S (S (S (S (S (S (S (S (S (S (S (S (S
                             (S (S (S (S (S (S (S (S (S (S (S (S (S (S (S (S
                             (S (S (S (S (S (S (S (S (S (S (S (S (S (S (S (S
                             (S (S (S (S (S (S (S (S (S (S (S (S (S (S (S (S
                             (S (S (S (S (S (S (S (S (S (S (S (S (S (S (S (S
                             (S (S (S (S (S (S (S (S (S (S (S (S (S (S (S (S
                             (S (S (S (S (S (S (S (S (S (S (S (S (S (S (S (S
                             (S (S (S (S (S (S (S (S (S (S (S (S (S (S (S (S
                             (S (S (S (S (S (S (S (S (S (S (S (S (S (S (S (S
                             (S (S (S (S (S (S (S (S (S (S (S (S (S (S (S (S
                             (S (S (S (S (S (S (S (S (S (S (S (S (S (S (S (S
                             (S (S (S (S (S (S (S (S (S (S (S (S (S (S (S (S
                             (S (S (S (S (S (S (S (S (S (S (S (S (S (S (S (S
                             (S (S (S (S (S (S (S (S (S (S (S (S (S (S (S (S
                             (S (S (S (S (S (S (S (S (S (S (S (S (S (S (S (S
                             (S (S (S (S (S (S (S (S (S (S (S (S (S (S (S (S
                             (S (S (S (S (S (S (S (S (S (S (S (S (S (S (S (S
                             (S (S (S (S (S (S (S (S (S (S (S (S (S (S (S (S
                             (S (S (S (S (S (S (S (S (S (S (S (S (S (S (S (S
                             (S (S (S (S (S (S (S (S (S (S (S (S (S (S (S (S
                             (S (S (S (S (S (S (S (S (S (S (S (S (S (S (S (S
                             (S (S (S (S (S (S (S (S (S (S (S (S (S (S (S (S
                             (S (S (S (S (S (S (S (S (S (S (S (S (S (S (S (S
                             (S (S (S (S (S (S (S (S (S (S (S (S (S (S (S (S
                             (S (S (S (S (S (S (S (S (S (S (S (S (S (S (S (S
                             (S (S (S (S (S (S (S (S (S (S (S (S (S (S (S (S
                             (S (S (S (S (S (S (S (S (S (S (S (S (S (S (S (S
                             (S (S (S (S (S (S (S (S (S (S (S (S (S (S (S (S
                             (S (S (S (S (S (S (S (S (S (S (S (S (S (S (S (S
                             (S (S (S (S (S (S (S (S (S (S (S (S (S (S (S (S
                             (S (S (S (S (S (S (S (S (S (S (S (S (S (S (S (S
                             (S (S (S (S (S (S (S (S (S (S (S (S (S (S (S (S
                             (S (S (S (S (S (S (S (S (S (S (S (S (S (S (S (S
                             (S (S (S (S (S (S (S (S (S (S (S (S (S (S (S (S
                             (S (S (S (S (S (S (S (S (S (S (S (S (S (S (S (S
                             (S (S (S (S (S (S (S (S (S (S (S (S (S (S (S (S
                             (S (S (S (S (S (S (S (S (S (S (S (S (S (S (S (S
                             (S (S (S (S (S (S (S (S (S (S (S (S (S (S (S (S
                             (S (S (S (S (S (S (S (S (S (S (S (S (S (S (S (S
                             (S (S (S (S (S (S (S (S (S (S (S (S (S (S (S (S
                             (S (S (S (S (S (S (S (S (S (S (S (S (S (S (S (S
                             (S (S (S (S (S (S (S (S (S (S (S (S (S (S (S (S
                             (S (S (S (S (S (S (S (S (S (S (S (S (S (S (S (S
                             (S (S (S (S (S (S (S (S (S (S (S (S (S (S (S (S
                             (S (S (S (S (S (S (S (S (S (S (S (S (S (S (S (S
                             (S (S (S (S (S (S (S (S (S (S (S (S (S (S (S (S
                             (S (S (S (S (S (S (S (S (S (S (S (S (S (S (S (S
                             (S (S (S (S (S (S (S (S (S (S (S (S (S (S (S (S
                             (S (S (S (S (S (S (S (S (S (S (S (S (S (S (S (S
                             (S (S (S (S (S (S (S (S (S (S (S (S (S (S (S (S
                             (S (S (S (S (S (S (S (S (S (S (S (S (S (S (S (S
                             (S (S (S (S (S (S (S (S (S (S (S (S (S (S (S (S
                             (S (S (S (S (S (S (S (S (S (S (S (S (S (S (S (S
                             (S (S (S (S (S (S (S (S (S (S (S (S (S (S (S (S
                             (S (S (S (S (S (S (S (S (S (S (S (S (S (S (S (S
                             (S (S (S (S (S (S (S (S (S (S (S (S (S (S (S (S
                             (S (S (S (S (S (S (S (S (S (S (S (S (S (S (S (S
                             (S (S (S (S (S (S (S (S (S (S (S (S (S (S (S (S
                             (S (S (S (S (S (S (S (S (S (S (S (S (S (S (S (S
                             (S (S (S (S (S (S (S (S (S (S (S (S (S (S (S (S
                             (S (S (S (S (S (S (S (S (S (S (S (S
                             O))))))))))))))))))))))))))))))))))))))))))))))))))))))))))))))))))))))))))))))))))))))))))))))))))))))))))))))))))))))))))))))))))))))))))))))))))))))))))))))))))))))))))))))))))))))))))))))))))))))))))))))))))))))))))))))))))))))))))))))))))))))))))))))))))))))))))))))))))))))))))))))))))))))))))))))))))))))))))))))))))))))))))))))))))))))))))))))))))))))))))))))))))))))))))))))))))))))))))))))))))))))))))))))))))))))))))))))))))))))))))))))))))))))))))))))))))))))))))))))))))))))))))))))))))))))))))))))))))))))))))))))))))))))))))))))))))))))))))))))))))))))))))))))))))))))))))))))))))))))))))))))))))))))))))))))))))))))))))))))))))))))))))))))))))))))))))))))))))))))))))))))))))))))))))))))))))))))))))))))))))))))))))))))))))))))))))))))))))))))))))))))))))))))))))))))))))))))))))))))))))))))))))))))))))))))))))))))))))))))))))))))))))))))))))))))))))))))))))))))))))))))))))))))))))))))))))))))))))))))))))))))))))))))))))))))))))))))))))))))))))))))))))))))))))))))))))))))))))))))))))
                         EIndex) (fun c -> ret (c, (snd r)))))

(** val check_unsafe_rels : nat -> rel list -> unit mW **)

let check_unsafe_rels fi rels =
  if is_nil rels
  then ret ()
  else bind (getF fi) (fun f ->
         whenM f.f_unsafe
           (forM_ rels (fun r ->
             bind get (fun s ->
               bind (guard (is_rel_comp s (fst r)) ENotRelation) (fun _ ->
                 guard (mk_get f.f_mask (fst r)) ERelNotInMask)))))

(** val logged_entities : z list list -> ent list **)

let logged_entities lg =
  flat_map (fun l ->
    match l with
    | [] -> []
    | y :: l0 ->
      (match y with
       | Zpos p0 ->
         (match p0 with
          | XI p1 ->
            (match p1 with
             | XO p2 ->
               (match p2 with
                | XI p3 ->
                  (match p3 with
                   | XO p4 ->
                     (match p4 with
                      | XO p5 ->
                        (match p5 with
                         | XI p6 ->
                           (match p6 with
                            | XH ->
                              (match l0 with
                               | [] -> []
                               | i :: l1 ->
                                 (match l1 with
                                  | [] -> []
                                  | g :: l2 ->
                                    (match l2 with
                                     | [] -> ((Z.to_nat i), (Z.to_N g)) :: []
                                     | _ :: _ -> [])))
                            | _ -> [])
                         | _ -> [])
                      | _ -> [])
                   | _ -> [])
                | _ -> [])
             | _ -> [])
          | _ -> [])
       | _ -> [])) lg

(** val cell_of : bool -> ent -> nat -> ((nat * nat) * nat) mW **)

let cell_of debug e c =
  bind get (fun s ->
    bind (guard (alive s e) EDead) (fun _ ->
      bind (get_index e) (fun ix ->
        let (tid, row) = ix in
        bind (getT tid) (fun t ->
          match tbl_colidx t c with
          | Some ci -> ret ((tid, ci), row)
          | None -> fail (if debug then EMissingComp else ENil)))))

(** val write_cell : nat -> nat -> nat -> z -> unit mW **)

let write_cell tid ci row v =
  bind (getT tid) (fun t ->
    bind (of_opt (nth_error t.t_kinds ci) EIndex) (fun k ->
      whenM (negb k.ck_zs)
        (modT tid (fun t0 ->
          set (fun t1 -> t1.t_cols) (fun f ->
            let l = fun r -> f r.t_cols in
            (fun x -> { t_arch = x.t_arch; t_ids = x.t_ids; t_kinds =
            x.t_kinds; t_len = x.t_len; t_cap = x.t_cap; t_free = x.t_free;
            t_ents = x.t_ents; t_cols = (l x); t_targets = x.t_targets;
            t_rels = x.t_rels })) (updf ci (upd row v)) t0))))

(** val batch_rels : nat -> rel list -> rel list mW **)

let batch_rels fi brels =
  bind (getF fi) (fun f ->
    bind (to_relations f.f_mask brels) (fun _ ->
      ret (match f.f_cache with
           | Some _ -> brels
           | None -> app f.f_rels brels)))

(** val stats_vec : w -> z list **)

let stats_vec s =
  app
    ((zn (pool_len s.w_pool)) :: ((zn (pool_cap s.w_pool)) :: ((zn
                                                                 s.w_pool.pavail) :: (
    (zb (is_locked s)) :: ((zn (length s.w_centries)) :: ((zn s.w_ototal) :: (
    (zn (length s.w_archs)) :: [])))))))
    (flat_map (fun a ->
      let tabs =
        flat_map (fun tid ->
          match nth_error s.w_tables tid with
          | Some t -> t :: []
          | None -> []) a.a_tables
      in
      let frees =
        flat_map (fun tid ->
          match nth_error s.w_tables tid with
          | Some t -> t :: []
          | None -> []) a.a_free
      in
      app
        ((zn (length a.a_comps)) :: ((zn a.a_numrel) :: ((zn
                                                           (length a.a_free)) :: (
        (zn (fold_left (fun acc t -> add acc t.t_len) tabs O)) :: ((zn
                                                                    (fold_left
                                                                    (fun acc t ->
                                                                    add acc
                                                                    t.t_cap)
                                                                    (app tabs
                                                                    frees) O)) :: (
        (zn (length tabs)) :: []))))))
        (flat_map (fun t -> (zn t.t_len) :: ((zn t.t_cap) :: [])) tabs))
      s.w_archs)

(** val step_op : bool -> op -> z list mW **)

let step_op debug = function
| ONewEntity ->
  bind check_locked (fun _ ->
    bind (create_entity O) (fun e ->
      bind (arch_mask_of_table O) (fun m0 ->
        bind (fire_create_entity_if_has e m0) (fun _ -> ret (zent e)))))
| OUNew ids ->
  bind (new_entity ids []) (fun r ->
    let (e, m0) = r in
    bind (fire_create_entity_if_has e m0) (fun _ -> ret (zent e)))
| OUNewRel (ids, hrels) ->
  bind (resolveR hrels) (fun rels ->
    bind (new_entity ids rels) (fun r ->
      let (e, m0) = r in
      bind (fire_create_entity_if_has e m0) (fun _ ->
        bind
          (whenM (negb (is_nil rels)) (fire_create_entity_rel_if_has e m0))
          (fun _ -> ret (zent e)))))
| ONewEntities (n0, nofn) ->
  bind (w_new_entities n0 (negb nofn)) (fun _ -> ret [])
| OCopy h ->
  bind (resolveH h) (fun e ->
    bind (w_copy_entity e) (fun ne -> ret (zent ne)))
| OUAdd (h, ids) ->
  bind (resolveH h) (fun e ->
    bind get (fun s ->
      bind (guard (alive s e) EDead) (fun _ ->
        bind (w_add e ids []) (fun r ->
          bind (fire_add_if_has evAddComponents e (fst r) (snd r)) (fun _ ->
            ret [])))))
| OUAddRel (h, ids, hrels) ->
  bind (resolveH h) (fun e ->
    bind get (fun s ->
      bind (guard (alive s e) EDead) (fun _ ->
        bind (resolveR hrels) (fun rels ->
          bind (w_add e ids rels) (fun r ->
            bind (fire_add_if_has evAddComponents e (fst r) (snd r))
              (fun _ ->
              bind
                (whenM (negb (is_nil rels))
                  (fire_add_if_has evAddRelations e (fst r) (snd r)))
                (fun _ -> ret [])))))))
| OURemove (h, ids) ->
  bind (resolveH h) (fun e ->
    bind get (fun s ->
      bind (guard (alive s e) EDead) (fun _ ->
        bind (w_remove e ids) (fun _ -> ret []))))
| OUExchange (h, add0, rem, hrels) ->
  bind (resolveH h) (fun e ->
    bind get (fun s ->
      bind (guard (alive s e) EDead) (fun _ ->
        bind (resolveR hrels) (fun rels ->
          bind (w_exchange e add0 rem rels) (fun r ->
            bind
              (whenM (negb (is_nil add0))
                (bind (fire_add_if_has evAddComponents e (fst r) (snd r))
                  (fun _ ->
                  whenM (negb (is_nil rels))
                    (fire_add_if_has evAddRelations e (fst r) (snd r)))))
              (fun _ -> ret []))))))
| OWrite (h, c, v) ->
  bind (resolveH h) (fun e ->
    bind (cell_of debug e c) (fun a ->
      let (p0, row) = a in
      let (tid, ci) = p0 in bind (write_cell tid ci row v) (fun _ -> ret [])))
| OUSetRel (h, hrels) ->
  bind (resolveH h) (fun e ->
    bind (resolveR hrels) (fun rels ->
      bind (w_set_relations e rels) (fun _ -> ret [])))
| ORemoveEntity h ->
  bind (resolveH h) (fun e ->
    bind check_locked (fun _ ->
      bind (storage_remove_entity e) (fun _ -> ret [])))
| ORemoveEntities (f, hbrels, nofn) ->
  bind (resolveR hbrels) (fun brels ->
    bind (batch_rels f brels) (fun br ->
      bind (w_remove_entities f br (negb nofn)) (fun _ -> ret [])))
| OReset -> bind w_reset (fun _ -> ret [])
| OShrink stop0 -> bind (w_shrink stop0) (fun b -> ret ((zb b) :: []))
| OFilterNew (unsafe, ids, without, excl, hrels) ->
  bind (resolveR hrels) (fun rels ->
    let m0 = mk_of_list ids in
    bind get (fun s ->
      bind (whenM (negb unsafe) (to_relations m0 rels)) (fun _ ->
        let f = { f_ids = ids; f_mask = m0; f_without =
          (if excl then mk_not s.w_cfg.cf_bits m0 else mk_of_list without);
          f_haswithout = ((||) excl (negb (is_nil without))); f_cache = None;
          f_rels = rels; f_unsafe = unsafe }
        in
        bind
          (modify (fun s0 ->
            set (fun w0 -> w0.w_filters) (fun f0 ->
              let l = fun r -> f0 r.w_filters in
              (fun x -> { w_cfg = x.w_cfg; w_reg = x.w_reg; w_pool =
              x.w_pool; w_index = x.w_index; w_istarget = x.w_istarget;
              w_archs = x.w_archs; w_tables = x.w_tables; w_relarchs =
              x.w_relarchs; w_compindex = x.w_compindex; w_archcount =
              x.w_archcount; w_version = x.w_version; w_cheap = x.w_cheap;
              w_centries = x.w_centries; w_cpool = x.w_cpool; w_lock =
              x.w_lock; w_obs = x.w_obs; w_olists = x.w_olists; w_oagg =
              x.w_oagg; w_opool = x.w_opool; w_ototal = x.w_ototal; w_omax =
              x.w_omax; w_filters = (l x); w_queries = x.w_queries; w_res =
              x.w_res; w_issued = x.w_issued; w_log = x.w_log })) (fun l ->
              app l (f :: [])) s0)) (fun _ ->
          ret ((zn (length s.w_filters)) :: [])))))
| OFilterRegister f -> bind (filter_register f) (fun _ -> ret [])
| OFilterUnregister f -> bind (filter_unregister f) (fun _ -> ret [])
| OQueryAll (f, hrels) ->
  bind (resolveR hrels) (fun rels ->
    bind (resolve_relidx f rels) (fun rels0 ->
      bind (check_unsafe_rels f rels0) (fun _ ->
        bind (query_open f rels0) (fun qi ->
          bind (query_count qi) (fun cnt ->
            bind
              (let rec go fuel acc =
                 match fuel with
                 | O -> ret acc
                 | S fu ->
                   bind (query_next debug qi) (fun more ->
                     if more
                     then bind (query_entity debug qi) (fun e ->
                            go fu (app acc (e :: [])))
                     else ret acc)
               in go (S cnt) []) (fun es ->
              bind (query_close qi) (fun _ ->
                ret ((zn cnt) :: ((zn (length es)) :: (flat_map zent es))))))))))
| OQueryOpen (f, hrels) ->
  bind (resolveR hrels) (fun rels ->
    bind (resolve_relidx f rels) (fun rels0 ->
      bind (check_unsafe_rels f rels0) (fun _ ->
        bind (query_open f rels0) (fun qi -> ret ((zn qi) :: [])))))
| OQueryNext q -> bind (query_next debug q) (fun b -> ret ((zb b) :: []))
| OQueryClose q -> bind (query_close q) (fun _ -> ret [])
| OQueryCount q -> bind (query_count q) (fun n0 -> ret ((zn n0) :: []))
| OQueryEntityAt (q, i) -> bind (query_entity_at q i) (fun e -> ret (zent e))
| OQueryEntity q -> bind (query_entity debug q) (fun e -> ret (zent e))
| OObsNew (evt, for_, with_, without, excl, cb) ->
  bind get (fun s ->
    let o0 = { o_event = evt; o_for = for_; o_withl = with_; o_withoutl =
      without; o_excl = excl; o_comps = N0; o_with = N0; o_without = N0;
      o_hascomps = false; o_haswith = false; o_haswithout = false; o_id =
      None; o_cb = cb }
    in
    bind
      (modify (fun s0 ->
        set (fun w0 -> w0.w_obs) (fun f ->
          let l = fun r -> f r.w_obs in
          (fun x -> { w_cfg = x.w_cfg; w_reg = x.w_reg; w_pool = x.w_pool;
          w_index = x.w_index; w_istarget = x.w_istarget; w_archs =
          x.w_archs; w_tables = x.w_tables; w_relarchs = x.w_relarchs;
          w_compindex = x.w_compindex; w_archcount = x.w_archcount;
          w_version = x.w_version; w_cheap = x.w_cheap; w_centries =
          x.w_centries; w_cpool = x.w_cpool; w_lock = x.w_lock; w_obs =
          (l x); w_olists = x.w_olists; w_oagg = x.w_oagg; w_opool =
          x.w_opool; w_ototal = x.w_ototal; w_omax = x.w_omax; w_filters =
          x.w_filters; w_queries = x.w_queries; w_res = x.w_res; w_issued =
          x.w_issued; w_log = x.w_log })) (fun l -> app l (o0 :: [])) s0))
      (fun _ -> ret ((zn (length s.w_obs)) :: [])))
| OObsRegister o0 -> bind (add_observer o0) (fun _ -> ret [])
| OObsUnregister o0 -> bind (remove_observer o0) (fun _ -> ret [])
| OEmit (evt, h, comps) ->
  bind (resolveH h) (fun e ->
    bind
      (guard
        (Nat.leb evt (S (S (S (S (S (S (S (S (S (S (S (S (S (S (S (S (S (S (S
          (S (S (S (S (S (S (S (S (S (S (S (S (S (S (S (S (S (S (S (S (S (S
          (S (S (S (S (S (S (S (S (S (S (S (S (S (S (S (S (S (S (S (S (S (S
          (S (S (S (S (S (S (S (S (S (S (S (S (S (S (S (S (S (S (S (S (S (S
          (S (S (S (S (S (S (S (S (S (S (S (S (S (S (S (S (S (S (S (S (S (S
          (S (S (S (S (S (S (S (S (S (S (S (S (S (S (S (S (S (S (S (S (S (S
          (S (S (S (S (S (S (S (S (S (S (S (S (S (S (S (S (S (S (S (S (S (S
          (S (S (S (S (S (S (S (S (S (S (S (S (S (S (S (S (S (S (S (S (S (S
          (S (S (S (S (S (S (S (S (S (S (S (S (S (S (S (S (S (S (S (S (S (S
          (S (S (S (S (S (S (S (S (S (S (S (S (S (S (S (S (S (S (S (S (S (S
          (S (S (S (S (S (S (S (S (S (S (S (S (S (S (S (S (S (S (S (S (S (S
          (S (S (S (S (S (S (S (S (S
          O)))))))))))))))))))))))))))))))))))))))))))))))))))))))))))))))))))))))))))))))))))))))))))))))))))))))))))))))))))))))))))))))))))))))))))))))))))))))))))))))))))))))))))))))))))))))))))))))))))))))))))))))))))))))))))))))))))))))))))))))))))))))))
        EMisuse) (fun _ ->
      bind get (fun s ->
        if negb (has_obs s evt)
        then ret []
        else let em = mk_of_list comps in
             bind
               (if Nat.eqb (fst e) O
                then bind (guard (mk_is_zero em) EMisuse) (fun _ ->
                       arch_mask_of_table O)
                else bind (guard (alive s e) EDead) (fun _ ->
                       bind (get_index e) (fun ix ->
                         arch_mask_of_table (fst ix)))) (fun m0 ->
               bind (guard (mk_contains m0 em) EMissingComp) (fun _ ->
                 bind (fire_set evt e em m0 true) (fun _ -> ret []))))))
| OMapSet (h, c, v) ->
  bind (resolveH h) (fun e ->
    bind (cell_of debug e c) (fun a ->
      let (p0, row) = a in
      let (tid, ci) = p0 in
      bind (write_cell tid ci row v) (fun _ ->
        bind get (fun s ->
          bind
            (whenM (has_obs s evSetComponents)
              (bind (arch_mask_of_table tid) (fun m0 ->
                bind
                  (fire_set evSetComponents e (mk_of_list (c :: [])) m0 true)
                  (fun _ -> ret ())))) (fun _ -> ret [])))))
| ONewBatch (n0, ids, hrels, vals, nofn) ->
  bind (resolveR hrels) (fun rels ->
    bind (w_new_batch n0 ids rels vals (negb nofn)) (fun _ -> ret []))
| OExchangeBatch (f, hbrels, add0, rem, hrels, vals) ->
  bind (resolveR hbrels) (fun brels ->
    bind (resolveR hrels) (fun rels ->
      bind (batch_rels f brels) (fun br ->
        bind (to_relations (mk_of_list add0) rels) (fun _ ->
          bind (w_exchange_batch f br add0 rem rels vals) (fun _ -> ret [])))))
| OSetRelBatch (f, hbrels, mids, hrels) ->
  bind (resolveR hbrels) (fun brels ->
    bind (resolveR hrels) (fun rels ->
      bind (batch_rels f brels) (fun br ->
        bind (to_relations (mk_of_list mids) rels) (fun _ ->
          bind (w_set_relations_batch f br rels) (fun _ -> ret [])))))
| OAlive h ->
  bind (resolveH h) (fun e ->
    bind get (fun s -> ret ((zb (alive s e)) :: [])))
| OHas (h, c) ->
  bind (resolveH h) (fun e ->
    bind get (fun s ->
      bind (guard (alive s e) EDead) (fun _ ->
        bind (get_index e) (fun ix ->
          bind (getT (fst ix)) (fun t ->
            ret
              ((zb (match tbl_colidx t c with
                    | Some _ -> true
                    | None -> false)) :: []))))))
| OGetRel (h, c) ->
  bind (resolveH h) (fun e ->
    bind (cell_of debug e c) (fun a ->
      let (p0, _) = a in
      let (tid, ci) = p0 in
      bind (getT tid) (fun t ->
        bind (of_opt (nth_error t.t_targets ci) EIndex) (fun tg ->
          ret (zent tg)))))
| OIDs h ->
  bind (resolveH h) (fun e ->
    bind get (fun s ->
      bind (guard (alive s e) EDead) (fun _ ->
        bind (get_index e) (fun ix ->
          bind (getT (fst ix)) (fun t -> ret (map zn t.t_ids))))))
| OGet (h, c) ->
  bind (resolveH h) (fun e ->
    bind (cell_of debug e c) (fun a ->
      let (p0, row) = a in
      let (tid, ci) = p0 in
      bind (getT tid) (fun t ->
        bind (of_opt (nth_error t.t_cols ci) EIndex) (fun col ->
          ret ((nth row col Z0) :: [])))))
| OStats -> bind get (fun s -> ret (stats_vec s))

(** val issues_from_log : op -> bool **)

let issues_from_log = function
| ONewEntities (_, _) -> true
| ONewBatch (_, _, _, _, _) -> true
| _ -> false

(** val returns_entity : op -> bool **)

let returns_entity = function
| ONewEntity -> true
| OUNew _ -> true
| OUNewRel (_, _) -> true
| OCopy _ -> true
| _ -> false

(** val obs_api : w -> z list **)

let obs_api s =
  (zn (length s.w_issued)) :: (app
                                (flat_map (fun e ->
                                  if alive s e
                                  then (match snapshot_entity s e with
                                        | Some l -> (Zpos XH) :: l
                                        | None -> (Zpos (XO XH)) :: [])
                                  else Z0 :: []) s.w_issued)
                                ((zn (pool_len s.w_pool)) :: ((zb
                                                                (is_locked s)) :: [])))

(** val zlist : nat list -> z list **)

let zlist l =
  (zn (length l)) :: (map zn l)

(** val zipool : ipool -> z list **)

let zipool p0 =
  app (zlist p0.ip) ((zn p0.inext) :: ((zn p0.iavail) :: []))

(** val zamap : (nat * nat list) list -> z list **)

let zamap m0 =
  let m' = asort m0 in
  (zn (length m')) :: (flat_map (fun kv -> (zn (fst kv)) :: (zlist (snd kv)))
                        m')

(** val zmask : mask0 -> z list **)

let zmask m0 =
  zlist
    (mk_to_list m0 (S (S (S (S (S (S (S (S (S (S (S (S (S (S (S (S (S (S (S
      (S (S (S (S (S (S (S (S (S (S (S (S (S (S (S (S (S (S (S (S (S (S (S (S
      (S (S (S (S (S (S (S (S (S (S (S (S (S (S (S (S (S (S (S (S (S (S (S (S
      (S (S (S (S (S (S (S (S (S (S (S (S (S (S (S (S (S (S (S (S (S (S (S (S
      (S (S (S (S (S (S (S (S (S (S (S (S (S (S (S (S (S (S (S (S (S (S (S (S
      (S (S (S (S (S (S (S (S (S (S (S (S (S (S (S (S (S (S (S (S (S (S (S (S
      (S (S (S (S (S (S (S (S (S (S (S (S (S (S (S (S (S (S (S (S (S (S (S (S
      (S (S (S (S (S (S (S (S (S (S (S (S (S (S (S (S (S (S (S (S (S (S (S (S
      (S (S (S (S (S (S (S (S (S (S (S (S (S (S (S (S (S (S (S (S (S (S (S (S
      (S (S (S (S (S (S (S (S (S (S (S (S (S (S (S (S (S (S (S (S (S (S (S (S
      (S (S (S (S (S (S (S (S (S (S (S (S (S (S (S (S (S (S (S (S (S
      O)))))))))))))))))))))))))))))))))))))))))))))))))))))))))))))))))))))))))))))))))))))))))))))))))))))))))))))))))))))))))))))))))))))))))))))))))))))))))))))))))))))))))))))))))))))))))))))))))))))))))))))))))))))))))))))))))))))))))))))))))))))))))))))))))

(** val dump_table : table -> z list **)

let dump_table t =
  app
    ((zn t.t_arch) :: ((zn t.t_len) :: ((zn t.t_cap) :: ((zb t.t_free) :: []))))
    (app
      ((zn (length t.t_rels)) :: (flat_map (fun r ->
                                   (zn (fst r)) :: (zent (snd r))) t.t_rels))
      (app ((zn (length t.t_targets)) :: (flat_map zent t.t_targets))
        (app (flat_map zent (firstn t.t_len t.t_ents))
          (flat_map (fun col -> col) t.t_cols))))

(** val dump_arch : arch -> z list **)

let dump_arch a =
  app (zlist a.a_comps)
    (app (zlist a.a_tables)
      (app (zlist a.a_free)
        (app ((zn a.a_numrel) :: [])
          (app (flat_map zamap a.a_reltabs) (zamap a.a_tgttabs)))))

(** val dump : w -> z list **)

let dump s =
  app
    ((zn (length s.w_pool.pe)) :: ((zn s.w_pool.pnext) :: ((zn
                                                             s.w_pool.pavail) :: [])))
    (app (flat_map zent s.w_pool.pe)
      (app
        ((zn (length s.w_index)) :: (flat_map (fun ix ->
                                      (match fst ix with
                                       | Some t -> zn t
                                       | None -> Zneg XH) :: ((zn (snd ix)) :: []))
                                      s.w_index))
        (app ((zn (length s.w_istarget)) :: (map zb s.w_istarget))
          (app ((zn (length s.w_tables)) :: (flat_map dump_table s.w_tables))
            (app ((zn (length s.w_archs)) :: (flat_map dump_arch s.w_archs))
              (app (zlist s.w_relarchs)
                (app (flat_map zlist s.w_compindex)
                  (app (map zn s.w_archcount)
                    (app ((Z.of_N s.w_version) :: [])
                      (app
                        ((zn (length s.w_centries)) :: (flat_map (fun addr ->
                                                         match nth_error
                                                                 s.w_cheap
                                                                 addr with
                                                         | Some e ->
                                                           (zn e.ce_id) :: 
                                                             (zlist
                                                               e.ce_tables)
                                                         | None ->
                                                           (Zneg XH) :: [])
                                                         s.w_centries))
                        (app (zipool s.w_cpool)
                          (app (zmask s.w_lock.lk_mask)
                            (app (zipool s.w_lock.lk_pool)
                              (app ((zn s.w_ototal) :: ((zn s.w_omax) :: []))
                                (app
                                  (let evs =
                                     filter (fun ev ->
                                       (||) (negb (is_nil (olist s ev)))
                                         (has_obs s ev))
                                       (seq O (S (S (S (S (S (S (S (S (S (S
                                         (S (S (S (S (S (S (S (S (S (S (S (S
                                         (S (S (S (S (S (S (S (S (S (S (S (S
                                         (S (S (S (S (S (S (S (S (S (S (S (S
                                         (S (S (S (S (S (S (S (S (S (S (S (S
                                         (S (S (S (S (S (S (S (S (S (S (S (S
                                         (S (S (S (S (S (S (S (S (S (S (S (S
                                         (S (S (S (S (S (S (S (S (S (S (S (S
                                         (S (S (S (S (S (S (S (S (S (S (S (S
                                         (S (S (S (S (S (S (S (S (S (S (S (S
                                         (S (S (S (S (S (S (S (S (S (S (S (S
                                         (S (S (S (S (S (S (S (S (S (S (S (S
                                         (S (S (S (S (S (S (S (S (S (S (S (S
                                         (S (S (S (S (S (S (S (S (S (S (S (S
                                         (S (S (S (S (S (S (S (S (S (S (S (S
                                         (S (S (S (S (S (S (S (S (S (S (S (S
                                         (S (S (S (S (S (S (S (S (S (S (S (S
                                         (S (S (S (S (S (S (S (S (S (S (S (S
                                         (S (S (S (S (S (S (S (S (S (S (S (S
                                         (S (S (S (S (S (S (S (S (S (S (S (S
                                         (S (S (S (S (S (S (S (S (S (S (S (S
                                         (S (S (S (S (S (S
                                         O)))))))))))))))))))))))))))))))))))))))))))))))))))))))))))))))))))))))))))))))))))))))))))))))))))))))))))))))))))))))))))))))))))))))))))))))))))))))))))))))))))))))))))))))))))))))))))))))))))))))))))))))))))))))))))))))))))))))))))))))))))))))))))))))))
                                   in
                                   (zn (length evs)) :: (flat_map (fun ev ->
                                                          let g = get_agg s ev
                                                          in
                                                          (zn ev) :: 
                                                          (app
                                                            (zlist
                                                              (flat_map
                                                                (fun oi ->
                                                                match 
                                                                nth_error
                                                                  s.w_obs oi with
                                                                | Some o ->
                                                                  (match o.o_id with
                                                                   | Some i ->
                                                                    i :: []
                                                                   | None ->
                                                                    [])
                                                                | None -> [])
                                                                (olist s ev)))
                                                            (app
                                                              ((zb g.g_has) :: [])
                                                              (app
                                                                (zmask
                                                                  g.g_allcomps)
                                                                (app
                                                                  (zmask
                                                                    g.g_allwith)
                                                                  ((zb
                                                                    g.g_anynocomps) :: (
                                                                  (zb
                                                                    g.g_anynowith) :: [])))))))
                                                          evs))
                                  (zipool s.w_opool))))))))))))))))

(** val flatten_log : z list list -> z list **)

let flatten_log lg =
  (zn (length lg)) :: (flat_map (fun l -> (zn (length l)) :: l) lg)

(** val step : bool -> bool -> w -> z list -> w * z list **)

let step debug with_dump s line =
  match decode_op line with
  | Some o ->
    let r =
      step_op debug o
        (set (fun w0 -> w0.w_log) (fun f ->
          let l = fun r -> f r.w_log in
          (fun x -> { w_cfg = x.w_cfg; w_reg = x.w_reg; w_pool = x.w_pool;
          w_index = x.w_index; w_istarget = x.w_istarget; w_archs =
          x.w_archs; w_tables = x.w_tables; w_relarchs = x.w_relarchs;
          w_compindex = x.w_compindex; w_archcount = x.w_archcount;
          w_version = x.w_version; w_cheap = x.w_cheap; w_centries =
          x.w_centries; w_cpool = x.w_cpool; w_lock = x.w_lock; w_obs =
          x.w_obs; w_olists = x.w_olists; w_oagg = x.w_oagg; w_opool =
          x.w_opool; w_ototal = x.w_ototal; w_omax = x.w_omax; w_filters =
          x.w_filters; w_queries = x.w_queries; w_res = x.w_res; w_issued =
          x.w_issued; w_log = (l x) })) (fun _ -> []) s)
    in
    let s1 = state_of r in
    let lg = s1.w_log in
    let s2 =
      if (&&) (issues_from_log o) (negb (is_err r))
      then set (fun w0 -> w0.w_issued) (fun f ->
             let l = fun r0 -> f r0.w_issued in
             (fun x -> { w_cfg = x.w_cfg; w_reg = x.w_reg; w_pool = x.w_pool;
             w_index = x.w_index; w_istarget = x.w_istarget; w_archs =
             x.w_archs; w_tables = x.w_tables; w_relarchs = x.w_relarchs;
             w_compindex = x.w_compindex; w_archcount = x.w_archcount;
             w_version = x.w_version; w_cheap = x.w_cheap; w_centries =
             x.w_centries; w_cpool = x.w_cpool; w_lock = x.w_lock; w_obs =
             x.w_obs; w_olists = x.w_olists; w_oagg = x.w_oagg; w_opool =
             x.w_opool; w_ototal = x.w_ototal; w_omax = x.w_omax; w_filters =
             x.w_filters; w_queries = x.w_queries; w_res = x.w_res;
             w_issued = (l x); w_log = x.w_log })) (fun l ->
             app l (logged_entities lg)) s1
      else s1
    in
    let s3 =
      match r with
      | Ok (a, _) ->
        (match a with
         | [] -> s2
         | i :: l ->
           (match l with
            | [] -> s2
            | g :: _ ->
              if returns_entity o
              then set (fun w0 -> w0.w_issued) (fun f ->
                     let l0 = fun r0 -> f r0.w_issued in
                     (fun x -> { w_cfg = x.w_cfg; w_reg = x.w_reg; w_pool =
                     x.w_pool; w_index = x.w_index; w_istarget =
                     x.w_istarget; w_archs = x.w_archs; w_tables =
                     x.w_tables; w_relarchs = x.w_relarchs; w_compindex =
                     x.w_compindex; w_archcount = x.w_archcount; w_version =
                     x.w_version; w_cheap = x.w_cheap; w_centries =
                     x.w_centries; w_cpool = x.w_cpool; w_lock = x.w_lock;
                     w_obs = x.w_obs; w_olists = x.w_olists; w_oagg =
                     x.w_oagg; w_opool = x.w_opool; w_ototal = x.w_ototal;
                     w_omax = x.w_omax; w_filters = x.w_filters; w_queries =
                     x.w_queries; w_res = x.w_res; w_issued = (l0 x); w_log =
                     x.w_log })) (fun l0 ->
                     app l0 (((Z.to_nat i), (Z.to_N g)) :: [])) s2
              else s2))
      | Err (_, _) -> s2
    in
    let s4 =
      set (fun w0 -> w0.w_log) (fun f ->
        let l = fun r0 -> f r0.w_log in
        (fun x -> { w_cfg = x.w_cfg; w_reg = x.w_reg; w_pool = x.w_pool;
        w_index = x.w_index; w_istarget = x.w_istarget; w_archs = x.w_archs;
        w_tables = x.w_tables; w_relarchs = x.w_relarchs; w_compindex =
        x.w_compindex; w_archcount = x.w_archcount; w_version = x.w_version;
        w_cheap = x.w_cheap; w_centries = x.w_centries; w_cpool = x.w_cpool;
        w_lock = x.w_lock; w_obs = x.w_obs; w_olists = x.w_olists; w_oagg =
        x.w_oagg; w_opool = x.w_opool; w_ototal = x.w_ototal; w_omax =
        x.w_omax; w_filters = x.w_filters; w_queries = x.w_queries; w_res =
        x.w_res; w_issued = x.w_issued; w_log = (l x) })) (fun _ -> []) s3
    in
    let head =
      match r with
      | Ok (res0, _) -> Z0 :: ((zn (length res0)) :: res0)
      | Err (_, _) -> (Zpos XH) :: (Z0 :: [])
    in
    (s4,
    (app head
      (app (flatten_log lg)
        (app (obs_api s4) (if with_dump then dump s4 else [])))))
  | None -> (s, ((Zneg XH) :: []))

(** val run_lines : bool -> bool -> w -> z list list -> z list list **)

let rec run_lines debug with_dump s = function
| [] -> []
| l :: rest ->
  let (s', out) = step debug with_dump s l in
  out :: (run_lines debug with_dump s' rest)

(** val run_script : z list list -> z list list **)

let run_script = function
| [] -> ((Zneg (XO XH)) :: []) :: []
| cfg :: l ->
  (match l with
   | [] -> ((Zneg (XO XH)) :: []) :: []
   | l0 :: ops ->
     (match l0 with
      | [] -> ((Zneg (XO XH)) :: []) :: []
      | wd :: l1 ->
        (match l1 with
         | [] ->
           (match decode_cfg cfg with
            | Some c ->
              run_lines c.sc_debug (negb (Z.eqb wd Z0)) (init_world c) ops
            | None -> ((Zneg (XO XH)) :: []) :: [])
         | _ :: _ -> ((Zneg (XO XH)) :: []) :: [])))

(** val byte_of : n -> n -> n **)

let byte_of x k =
  N.coq_land (N.shiftr x (N.mul (Npos (XO (XO (XO XH)))) k)) (Npos (XI (XI
    (XI (XI (XI (XI (XI XH))))))))

(** val put_u32 : n -> n list **)

let put_u32 x =
  (byte_of x (Npos (XI XH))) :: ((byte_of x (Npos (XO XH))) :: ((byte_of x
                                                                  (Npos XH)) :: (
    (byte_of x N0) :: [])))

(** val get_u32 : n -> n -> n -> n -> n **)

let get_u32 b3 b2 b1 b0 =
  N.coq_lor (N.shiftl b3 (Npos (XO (XO (XO (XI XH))))))
    (N.coq_lor (N.shiftl b2 (Npos (XO (XO (XO (XO XH))))))
      (N.coq_lor (N.shiftl b1 (Npos (XO (XO (XO XH))))) b0))

(** val marshal_bin : n -> n -> n list **)

let marshal_bin id gen =
  app (put_u32 id) (put_u32 gen)

(** val unmarshal_bin : n list -> (n * n) option **)

let unmarshal_bin = function
| [] -> None
| a3 :: l ->
  (match l with
   | [] -> None
   | a2 :: l0 ->
     (match l0 with
      | [] -> None
      | a1 :: l1 ->
        (match l1 with
         | [] -> None
         | a0 :: l2 ->
           (match l2 with
            | [] -> None
            | g3 :: l3 ->
              (match l3 with
               | [] -> None
               | g2 :: l4 ->
                 (match l4 with
                  | [] -> None
                  | g1 :: l5 ->
                    (match l5 with
                     | [] -> None
                     | g0 :: l6 ->
                       (match l6 with
                        | [] ->
                          Some ((get_u32 a3 a2 a1 a0), (get_u32 g3 g2 g1 g0))
                        | _ :: _ -> None))))))))

(** val dec_digits : nat -> n -> n list -> n list **)

let rec dec_digits fuel x acc =
  match fuel with
  | O -> acc
  | S f ->
    let d =
      N.add (Npos (XO (XO (XO (XO (XI XH))))))
        (N.modulo x (Npos (XO (XI (XO XH)))))
    in
    if N.ltb x (Npos (XO (XI (XO XH))))
    then d :: acc
    else dec_digits f (N.div x (Npos (XO (XI (XO XH))))) (d :: acc)

(** val dec : n -> n list **)

let dec x =
  dec_digits (S (S (S (S (S (S (S (S (S (S (S (S O)))))))))))) x []

(** val marshal_json : n -> n -> n list **)

let marshal_json id gen =
  app ((Npos (XI (XI (XO (XI (XI (XO XH))))))) :: [])
    (app (dec id)
      (app ((Npos (XO (XO (XI (XI (XO XH)))))) :: [])
        (app (dec gen) ((Npos (XI (XO (XI (XI (XI (XO XH))))))) :: []))))

(** val parse_num : n list -> n option -> n option * n list **)

let rec parse_num l acc =
  match l with
  | [] -> (acc, [])
  | c :: t ->
    if (&&) (N.leb (Npos (XO (XO (XO (XO (XI XH)))))) c)
         (N.leb c (Npos (XI (XO (XO (XI (XI XH)))))))
    then parse_num t (Some
           (match acc with
            | Some a ->
              N.add (N.mul a (Npos (XO (XI (XO XH)))))
                (N.sub c (Npos (XO (XO (XO (XO (XI XH)))))))
            | None -> N.sub c (Npos (XO (XO (XO (XO (XI XH))))))))
    else (acc, l)

(** val unmarshal_json : n list -> (n * n) option **)

let unmarshal_json = function
| [] -> None
| n0 :: t ->
  (match n0 with
   | N0 -> None
   | Npos p0 ->
     (match p0 with
      | XI p1 ->
        (match p1 with
         | XI p2 ->
           (match p2 with
            | XO p3 ->
              (match p3 with
               | XI p4 ->
                 (match p4 with
                  | XI p5 ->
                    (match p5 with
                     | XO p6 ->
                       (match p6 with
                        | XH ->
                          let (o, l0) = parse_num t None in
                          (match o with
                           | Some id ->
                             (match l0 with
                              | [] -> None
                              | n1 :: t2 ->
                                (match n1 with
                                 | N0 -> None
                                 | Npos p7 ->
                                   (match p7 with
                                    | XO p8 ->
                                      (match p8 with
                                       | XO p9 ->
                                         (match p9 with
                                          | XI p10 ->
                                            (match p10 with
                                             | XI p11 ->
                                               (match p11 with
                                                | XO p12 ->
                                                  (match p12 with
                                                   | XH ->
                                                     let (o0, l1) =
                                                       parse_num t2 None
                                                     in
                                                     (match o0 with
                                                      | Some gen ->
                                                        (match l1 with
                                                         | [] -> None
                                                         | n2 :: l2 ->
                                                           (match n2 with
                                                            | N0 -> None
                                                            | Npos p13 ->
                                                              (match p13 with
                                                               | XI p14 ->
                                                                 (match p14 with
                                                                  | XO p15 ->
                                                                    (match p15 with
                                                                    | XI p16 ->
                                                                    (match p16 with
                                                                    | XI p17 ->
                                                                    (match p17 with
                                                                    | XI p18 ->
                                                                    (match p18 with
                                                                    | XO p19 ->
                                                                    (match p19 with
                                                                    | XH ->
                                                                    (match l2 with
                                                                    | [] ->
                                                                    if 
                                                                    (&&)
                                                                    (N.ltb id
                                                                    (Npos (XO
                                                                    (XO (XO
                                                                    (XO (XO
                                                                    (XO (XO
                                                                    (XO (XO
                                                                    (XO (XO
                                                                    (XO (XO
                                                                    (XO (XO
                                                                    (XO (XO
                                                                    (XO (XO
                                                                    (XO (XO
                                                                    (XO (XO
                                                                    (XO (XO
                                                                    (XO (XO
                                                                    (XO (XO
                                                                    (XO (XO
                                                                    (XO
                                                                    XH))))))))))))))))))))))))))))))))))
                                                                    (N.ltb
                                                                    gen (Npos
                                                                    (XO (XO
                                                                    (XO (XO
                                                                    (XO (XO
                                                                    (XO (XO
                                                                    (XO (XO
                                                                    (XO (XO
                                                                    (XO (XO
                                                                    (XO (XO
                                                                    (XO (XO
                                                                    (XO (XO
                                                                    (XO (XO
                                                                    (XO (XO
                                                                    (XO (XO
                                                                    (XO (XO
                                                                    (XO (XO
                                                                    (XO (XO
                                                                    XH))))))))))))))))))))))))))))))))))
                                                                    then 
                                                                    Some (id,
                                                                    gen)
                                                                    else None
                                                                    | _ :: _ ->
                                                                    None)
                                                                    | _ ->
                                                                    None)
                                                                    | _ ->
                                                                    None)
                                                                    | _ ->
                                                                    None)
                                                                    | _ ->
                                                                    None)
                                                                    | _ ->
                                                                    None)
                                                                  | _ -> None)
                                                               | _ -> None)))
                                                      | None -> None)
                                                   | _ -> None)
                                                | _ -> None)
                                             | _ -> None)
                                          | _ -> None)
                                       | _ -> None)
                                    | _ -> None)))
                           | None -> None)
                        | _ -> None)
                     | _ -> None)
                  | _ -> None)
               | _ -> None)
            | _ -> None)
         | _ -> None)
      | _ -> None))

type edump = { d_ents : ent list; d_next : nat; d_avail : nat }

(** val pool_dump : pool -> edump **)

let pool_dump p0 =
  { d_ents = p0.pe; d_next = p0.pnext; d_avail = p0.pavail }

(** val pool_load : pool -> edump -> pool option **)

let pool_load t d =
  if (||) (Nat.ltb reserved (length t.pe)) (Nat.ltb O t.pavail)
  then None
  else if Nat.ltb O (length d.d_ents)
       then Some { pe = d.d_ents; pnext = d.d_next; pavail = d.d_avail }
       else Some t

(** val pstep : (pool * ent list) -> (z * z) -> pool * ent list **)

let pstep st o =
  let (p0, iss) = st in
  (match fst o with
   | Z0 -> let (e, p') = pool_get p0 in (p', (app iss (e :: [])))
   | Zpos p1 ->
     (match p1 with
      | XH ->
        (match nth_error iss (Z.to_nat (snd o)) with
         | Some e ->
           if pool_alive p0 e
           then (match pool_recycle p0 e with
                 | Some p' -> (p', iss)
                 | None -> (p0, iss))
           else (p0, iss)
         | None -> (p0, iss))
      | _ -> ((pool_reset p0), []))
   | Zneg _ -> ((pool_reset p0), []))

(** val prun : (z * z) list -> pool * ent list **)

let prun ops =
  fold_left pstep ops (pool_new, [])

(** val zpairs : z list -> (z * z) list **)

let rec zpairs = function
| [] -> []
| a :: l0 -> (match l0 with
              | [] -> []
              | b :: r -> (a, b) :: (zpairs r))

(** val pgets : nat -> pool -> ent list **)

let rec pgets n0 p0 =
  match n0 with
  | O -> []
  | S n' -> let (e, p') = pool_get p0 in e :: (pgets n' p')

(** val b2z : bool -> z **)

let b2z = function
| true -> Zpos XH
| false -> Z0

(** val ent2z : ent -> z list **)

let ent2z e =
  (Z.of_nat (fst e)) :: ((Z.of_N (snd e)) :: [])

(** val dumpload_case : z list -> z list **)

let dumpload_case = function
| [] -> (Zneg XH) :: []
| n0 :: l0 ->
  (match l0 with
   | [] -> (Zneg XH) :: []
   | ls :: rest ->
     let k = mul (S (S O)) (Z.to_nat ls) in
     let (src, iss) = prun (zpairs (firstn k rest)) in
     let (tgt, _) = prun (zpairs (skipn k rest)) in
     let d = pool_dump src in
     let rej = match pool_load tgt d with
               | Some _ -> Z0
               | None -> Zpos XH in
     (match pool_load (pool_reset tgt) d with
      | Some q ->
        rej :: ((Zpos
          XH) :: (app (map (fun e -> b2z (pool_alive q e)) iss)
                   (flat_map ent2z (pgets (Z.to_nat n0) q))))
      | None -> rej :: (Z0 :: [])))

(** val table_ids : w -> nat -> nat list **)

let table_ids s tid =
  match nth_error s.w_tables tid with
  | Some t -> map fst (firstn t.t_len t.t_ents)
  | None -> []

(** val alive_ids : w -> nat list **)

let alive_ids s =
  flat_map (fun a -> flat_map (table_ids s) a.a_tables) s.w_archs

(** val w_dump_entities : w -> edump * nat list **)

let w_dump_entities s =
  ((pool_dump s.w_pool), (alive_ids s))

(** val load_rows :
    ent list -> nat list -> table -> (nat option * nat) list -> (table * (nat
    option * nat) list) option **)

let rec load_rows pes alive0 t idx =
  match alive0 with
  | [] -> Some (t, idx)
  | i :: rest ->
    (match nth_error pes i with
     | Some e ->
       if Nat.ltb (fst e) (length idx)
       then let (row, t') = tbl_add t e in
            load_rows pes rest t' (upd (fst e) ((Some O), row) idx)
       else None
     | None -> None)

(** val w_load_entities : (edump * nat list) -> w -> w option **)

let w_load_entities d s =
  let (pd, alive0) = d in
  if is_locked s
  then None
  else (match pool_load s.w_pool pd with
        | Some p0 ->
          let cap = length pd.d_ents in
          (match nth_error s.w_tables O with
           | Some t0 ->
             (match load_rows p0.pe alive0 (tbl_extend t0 (length alive0))
                      (repeat ((Some O), O) cap) with
              | Some p1 ->
                let (t1, idx) = p1 in
                Some
                (set (fun w0 -> w0.w_tables) (fun f ->
                  let l = fun r -> f r.w_tables in
                  (fun x -> { w_cfg = x.w_cfg; w_reg = x.w_reg; w_pool =
                  x.w_pool; w_index = x.w_index; w_istarget = x.w_istarget;
                  w_archs = x.w_archs; w_tables = (l x); w_relarchs =
                  x.w_relarchs; w_compindex = x.w_compindex; w_archcount =
                  x.w_archcount; w_version = x.w_version; w_cheap =
                  x.w_cheap; w_centries = x.w_centries; w_cpool = x.w_cpool;
                  w_lock = x.w_lock; w_obs = x.w_obs; w_olists = x.w_olists;
                  w_oagg = x.w_oagg; w_opool = x.w_opool; w_ototal =
                  x.w_ototal; w_omax = x.w_omax; w_filters = x.w_filters;
                  w_queries = x.w_queries; w_res = x.w_res; w_issued =
                  x.w_issued; w_log = x.w_log })) (upd O t1)
                  (set (fun w0 -> w0.w_istarget) (fun f ->
                    let l = fun r -> f r.w_istarget in
                    (fun x -> { w_cfg = x.w_cfg; w_reg = x.w_reg; w_pool =
                    x.w_pool; w_index = x.w_index; w_istarget = (l x);
                    w_archs = x.w_archs; w_tables = x.w_tables; w_relarchs =
                    x.w_relarchs; w_compindex = x.w_compindex; w_archcount =
                    x.w_archcount; w_version = x.w_version; w_cheap =
                    x.w_cheap; w_centries = x.w_centries; w_cpool =
                    x.w_cpool; w_lock = x.w_lock; w_obs = x.w_obs; w_olists =
                    x.w_olists; w_oagg = x.w_oagg; w_opool = x.w_opool;
                    w_ototal = x.w_ototal; w_omax = x.w_omax; w_filters =
                    x.w_filters; w_queries = x.w_queries; w_res = x.w_res;
                    w_issued = x.w_issued; w_log = x.w_log })) (fun _ ->
                    repeat false cap)
                    (set (fun w0 -> w0.w_index) (fun f ->
                      let l = fun r -> f r.w_index in
                      (fun x -> { w_cfg = x.w_cfg; w_reg = x.w_reg; w_pool =
                      x.w_pool; w_index = (l x); w_istarget = x.w_istarget;
                      w_archs = x.w_archs; w_tables = x.w_tables;
                      w_relarchs = x.w_relarchs; w_compindex = x.w_compindex;
                      w_archcount = x.w_archcount; w_version = x.w_version;
                      w_cheap = x.w_cheap; w_centries = x.w_centries;
                      w_cpool = x.w_cpool; w_lock = x.w_lock; w_obs =
                      x.w_obs; w_olists = x.w_olists; w_oagg = x.w_oagg;
                      w_opool = x.w_opool; w_ototal = x.w_ototal; w_omax =
                      x.w_omax; w_filters = x.w_filters; w_queries =
                      x.w_queries; w_res = x.w_res; w_issued = x.w_issued;
                      w_log = x.w_log })) (fun _ -> idx)
                      (set (fun w0 -> w0.w_pool) (fun f ->
                        let p2 = fun r -> f r.w_pool in
                        (fun x -> { w_cfg = x.w_cfg; w_reg = x.w_reg;
                        w_pool = (p2 x); w_index = x.w_index; w_istarget =
                        x.w_istarget; w_archs = x.w_archs; w_tables =
                        x.w_tables; w_relarchs = x.w_relarchs; w_compindex =
                        x.w_compindex; w_archcount = x.w_archcount;
                        w_version = x.w_version; w_cheap = x.w_cheap;
                        w_centries = x.w_centries; w_cpool = x.w_cpool;
                        w_lock = x.w_lock; w_obs = x.w_obs; w_olists =
                        x.w_olists; w_oagg = x.w_oagg; w_opool = x.w_opool;
                        w_ototal = x.w_ototal; w_omax = x.w_omax; w_filters =
                        x.w_filters; w_queries = x.w_queries; w_res =
                        x.w_res; w_issued = x.w_issued; w_log = x.w_log }))
                        (fun _ -> p0) s))))
              | None -> None)
           | None -> None)
        | None -> None)

(** val nodupb : nat list -> bool **)

let rec nodupb = function
| [] -> true
| x :: r -> (&&) (negb (existsb (Nat.eqb x) r)) (nodupb r)

(** val alive_okb : w -> bool **)

let alive_okb s =
  (&&)
    (forallb (fun i ->
      match nth_error s.w_pool.pe i with
      | Some e -> Nat.eqb (fst e) i
      | None -> false) (alive_ids s)) (nodupb (alive_ids s))

(** val final_state : bool -> w -> z list list -> w **)

let rec final_state debug s = function
| [] -> s
| l :: rest -> final_state debug (fst (step debug false s l)) rest

(** val dumpload_world : z list list -> z list **)

let dumpload_world = function
| [] -> (Zneg (XO XH)) :: []
| cfg :: l ->
  (match l with
   | [] -> (Zneg (XO XH)) :: []
   | l0 :: ops ->
     (match l0 with
      | [] -> (Zneg (XO XH)) :: []
      | k :: l1 ->
        (match l1 with
         | [] ->
           (match decode_cfg cfg with
            | Some c ->
              let kk = Z.to_nat k in
              let tgt = final_state c.sc_debug (init_world c) (firstn kk ops)
              in
              let s = final_state c.sc_debug (init_world c) (skipn kk ops) in
              (match w_load_entities (w_dump_entities s) tgt with
               | Some s' -> (if alive_okb s then Zpos XH else Z0) :: (dump s')
               | None -> (Zneg (XI XH)) :: [])
            | None -> (Zneg (XO XH)) :: [])
         | _ :: _ -> (Zneg (XO XH)) :: [])))

(** val row_ent : table -> nat -> ent **)

let row_ent t r =
  nth r t.t_ents zero_ent

(** val loc : w -> ent -> (nat * nat) option **)

let loc s e =
  match nth_error s.w_index (fst e) with
  | Some p0 ->
    let (o, r) = p0 in (match o with
                        | Some tid -> Some (tid, r)
                        | None -> None)
  | None -> None

(** val live : w -> ent -> bool **)

let live s e =
  match loc s e with
  | Some p0 ->
    let (tid, r) = p0 in
    (match nth_error s.w_tables tid with
     | Some t -> (&&) (Nat.ltb r t.t_len) (ent_eqb (row_ent t r) e)
     | None -> false)
  | None -> false

(** val r2_nodupb : nat list -> bool **)

let rec r2_nodupb = function
| [] -> true
| x :: t -> (&&) (negb (memb x t)) (r2_nodupb t)

(** val r2_alli : (nat -> 'a1 -> bool) -> nat -> 'a1 list -> bool **)

let rec r2_alli f i0 = function
| [] -> true
| x :: t -> (&&) (f i0 x) (r2_alli f (S i0) t)

(** val r2_exi : (nat -> 'a1 -> bool) -> nat -> 'a1 list -> bool **)

let rec r2_exi f i0 = function
| [] -> false
| x :: t -> (||) (f i0 x) (r2_exi f (S i0) t)

(** val r2_ents_eqb : ent list -> ent list -> bool **)

let rec r2_ents_eqb l1 l2 =
  match l1 with
  | [] -> (match l2 with
           | [] -> true
           | _ :: _ -> false)
  | a :: t1 ->
    (match l2 with
     | [] -> false
     | b :: t2 -> (&&) (ent_eqb a b) (r2_ents_eqb t1 t2))

(** val r2_is_some_true : bool option -> bool **)

let r2_is_some_true = function
| Some b -> b
| None -> false

(** val r2_c_nodup : w -> bool **)

let r2_c_nodup s =
  forallb (fun a -> (&&) (r2_nodupb a.a_tables) (r2_nodupb a.a_free))
    s.w_archs

(** val r2_c_active : w -> bool **)

let r2_c_active s =
  forallb (fun a ->
    forallb (fun tid ->
      match nth_error s.w_tables tid with
      | Some t -> negb t.t_free
      | None -> true) a.a_tables) s.w_archs

(** val r2_c_freed : w -> bool **)

let r2_c_freed s =
  forallb (fun a ->
    forallb (fun tid ->
      match nth_error s.w_tables tid with
      | Some t -> (&&) t.t_free (Nat.eqb t.t_len O)
      | None -> true) a.a_free) s.w_archs

(** val r2_c_listed : w -> bool **)

let r2_c_listed s =
  r2_alli (fun tid t ->
    match nth_error s.w_archs t.t_arch with
    | Some a -> if t.t_free then memb tid a.a_free else memb tid a.a_tables
    | None -> false) O s.w_tables

(** val r2_c_norel : w -> bool **)

let r2_c_norel s =
  forallb (fun a ->
    if Nat.eqb a.a_numrel O
    then (&&) ((&&) (is_nil a.a_free) (is_nil a.a_tgttabs))
           (forallb is_nil a.a_reltabs)
    else true) s.w_archs

(** val r2_shape_b : arch -> table -> bool **)

let r2_shape_b a t =
  (&&)
    ((&&)
      ((&&)
        ((&&) (r2_nodupb (map fst t.t_rels))
          (forallb (fun r ->
            match index_of (fst r) a.a_comps with
            | Some i ->
              (&&) (r2_is_some_true (nth_error a.a_isrel i))
                (match nth_error t.t_targets i with
                 | Some y -> ent_eqb y (snd r)
                 | None -> false)
            | None -> false) t.t_rels))
        (r2_alli (fun i c ->
          match nth_error a.a_isrel i with
          | Some b ->
            if b
            then (match nth_error t.t_targets i with
                  | Some x ->
                    existsb (fun r ->
                      (&&) (Nat.eqb (fst r) c) (ent_eqb (snd r) x)) t.t_rels
                  | None -> true)
            else true
          | None -> true) O a.a_comps))
      (r2_alli (fun i b ->
        if b
        then true
        else (match nth_error t.t_targets i with
              | Some x -> ent_eqb x zero_ent
              | None -> false)) O a.a_isrel))
    (Nat.eqb (length t.t_rels) a.a_numrel)

(** val r2_c_shape : w -> bool **)

let r2_c_shape s =
  forallb (fun t ->
    match nth_error s.w_archs t.t_arch with
    | Some a -> r2_shape_b a t
    | None -> true) s.w_tables

(** val r2_c_unique : w -> bool **)

let r2_c_unique s =
  r2_alli (fun tid1 t1 ->
    r2_alli (fun tid2 t2 ->
      if (&&)
           ((&&) ((&&) (negb t1.t_free) (negb t2.t_free))
             (Nat.eqb t1.t_arch t2.t_arch))
           (r2_ents_eqb t1.t_targets t2.t_targets)
      then Nat.eqb tid1 tid2
      else true) O s.w_tables) O s.w_tables

(** val r2_c_reltabs : w -> bool **)

let r2_c_reltabs s =
  forallb (fun a ->
    r2_alli (fun i m0 ->
      forallb (fun kl ->
        (&&)
          ((&&) (r2_nodupb (snd kl))
            (r2_is_some_true (nth_error a.a_isrel i)))
          (forallb (fun tid ->
            match nth_error s.w_tables tid with
            | Some t ->
              (&&) (negb t.t_free)
                (match nth_error t.t_targets i with
                 | Some x -> Nat.eqb (fst x) (fst kl)
                 | None -> false)
            | None -> false) (snd kl))) m0) O a.a_reltabs) s.w_archs

(** val r2_c_reltabs_complete : w -> bool **)

let r2_c_reltabs_complete s =
  r2_alli (fun tid t ->
    if t.t_free
    then true
    else (match nth_error s.w_archs t.t_arch with
          | Some a ->
            r2_alli (fun i b ->
              if b
              then (match nth_error t.t_targets i with
                    | Some x ->
                      (match nth_error a.a_reltabs i with
                       | Some m0 ->
                         (match afind (fst x) m0 with
                          | Some l -> memb tid l
                          | None -> false)
                       | None -> false)
                    | None -> true)
              else true) O a.a_isrel
          | None -> true)) O s.w_tables

(** val r2_has_target_b : arch -> table -> nat -> bool **)

let r2_has_target_b a t k =
  r2_exi (fun i b ->
    (&&) b
      (match nth_error t.t_targets i with
       | Some x -> Nat.eqb (fst x) k
       | None -> false)) O a.a_isrel

(** val r2_c_tgttabs : w -> bool **)

let r2_c_tgttabs s =
  forallb (fun a ->
    forallb (fun kl ->
      (&&) (r2_nodupb (snd kl))
        (forallb (fun tid ->
          match nth_error s.w_tables tid with
          | Some t -> (&&) (negb t.t_free) (r2_has_target_b a t (fst kl))
          | None -> false) (snd kl))) a.a_tgttabs) s.w_archs

(** val r2_c_tgttabs_complete : w -> bool **)

let r2_c_tgttabs_complete s =
  r2_alli (fun tid t ->
    if t.t_free
    then true
    else (match nth_error s.w_archs t.t_arch with
          | Some a ->
            r2_alli (fun i b ->
              if b
              then (match nth_error t.t_targets i with
                    | Some x ->
                      (match afind (fst x) a.a_tgttabs with
                       | Some l -> memb tid l
                       | None -> false)
                    | None -> true)
              else true) O a.a_isrel
          | None -> true)) O s.w_tables

(** val r2_c_keys : w -> bool **)

let r2_c_keys s =
  forallb (fun a ->
    forallb (fun m0 ->
      forallb (fun kl ->
        match afind (fst kl) a.a_tgttabs with
        | Some _ -> true
        | None -> false) m0) a.a_reltabs) s.w_archs

(** val r2_c_relarchs : w -> bool **)

let r2_c_relarchs s =
  (&&)
    ((&&) (r2_nodupb s.w_relarchs)
      (forallb (fun aid ->
        match nth_error s.w_archs aid with
        | Some a -> Nat.ltb O a.a_numrel
        | None -> false) s.w_relarchs))
    (r2_alli (fun aid a ->
      if Nat.ltb O a.a_numrel then memb aid s.w_relarchs else true) O
      s.w_archs)

(** val r2_c_istarget : w -> bool **)

let r2_c_istarget s =
  forallb (fun a ->
    forallb (fun kl ->
      (||) (Nat.eqb (fst kl) O) (nth (fst kl) s.w_istarget false)) a.a_tgttabs)
    s.w_archs

(** val r2_c_targets_ok : w -> bool **)

let r2_c_targets_ok s =
  forallb (fun t ->
    if t.t_free
    then true
    else forallb (fun r -> (||) (ent_eqb (snd r) zero_ent) (live s (snd r)))
           t.t_rels) s.w_tables

(** val rel_inv_checks : w -> bool list **)

let rel_inv_checks s =
  (r2_c_nodup s) :: ((r2_c_active s) :: ((r2_c_freed s) :: ((r2_c_listed s) :: (
    (r2_c_norel s) :: ((r2_c_shape s) :: ((r2_c_unique s) :: ((r2_c_reltabs s) :: (
    (r2_c_reltabs_complete s) :: ((r2_c_tgttabs s) :: ((r2_c_tgttabs_complete
                                                         s) :: ((r2_c_keys s) :: (
    (r2_c_relarchs s) :: ((r2_c_istarget s) :: ((r2_c_targets_ok s) :: []))))))))))))))

(** val r2_cache_member_b : w -> fobj -> rel list -> table -> bool **)

let r2_cache_member_b s f rels t =
  (&&) (negb t.t_free)
    (match nth_error s.w_archs t.t_arch with
     | Some a ->
       (&&) (filter_matches f a.a_mask)
         ((||) (is_nil t.t_rels) (r2_is_some_true (tbl_matches t rels)))
     | None -> false)

(** val r2_c_entry : w -> centry -> fobj -> bool **)

let r2_c_entry s e f =
  (&&)
    ((&&)
      ((&&) (r2_nodupb e.ce_tables)
        (forallb (fun r -> mk_get f.f_mask (fst r)) e.ce_rels))
      (forallb (fun tid ->
        match nth_error s.w_tables tid with
        | Some t -> r2_cache_member_b s f e.ce_rels t
        | None -> false) e.ce_tables))
    (r2_alli (fun tid t ->
      if r2_cache_member_b s f e.ce_rels t then memb tid e.ce_tables else true)
      O s.w_tables)

(** val cache_inv_b : w -> bool **)

let cache_inv_b s =
  (&&) (r2_nodupb s.w_centries)
    (forallb (fun addr ->
      match nth_error s.w_cheap addr with
      | Some e ->
        (match nth_error s.w_filters e.ce_filter with
         | Some f -> r2_c_entry s e f
         | None -> true)
      | None -> true) s.w_centries)

(** val r2_ckind_eqb : ckind -> ckind -> bool **)

let r2_ckind_eqb a b =
  (&&) ((&&) (eqb a.ck_rel b.ck_rel) (eqb a.ck_zs b.ck_zs))
    (eqb a.ck_triv b.ck_triv)

(** val r2_list_eqb : ('a1 -> 'a1 -> bool) -> 'a1 list -> 'a1 list -> bool **)

let rec r2_list_eqb eqb0 l1 l2 =
  match l1 with
  | [] -> (match l2 with
           | [] -> true
           | _ :: _ -> false)
  | a :: t1 ->
    (match l2 with
     | [] -> false
     | b :: t2 -> (&&) (eqb0 a b) (r2_list_eqb eqb0 t1 t2))

(** val r2_tbl_ok_b : table -> bool **)

let r2_tbl_ok_b t =
  (&&)
    ((&&)
      ((&&)
        ((&&)
          ((&&) (Nat.leb t.t_len t.t_cap) (Nat.eqb (length t.t_ents) t.t_cap))
          (Nat.eqb (length t.t_cols) (length t.t_ids)))
        (Nat.eqb (length t.t_kinds) (length t.t_ids)))
      (forallb (fun c ->
        (&&) (Nat.eqb (length c) t.t_cap)
          (forallb (fun v -> Z.eqb v Z0) (skipn t.t_len c))) t.t_cols))
    (r2_alli (fun i k ->
      if k.ck_zs
      then (match nth_error t.t_cols i with
            | Some c -> forallb (fun v -> Z.eqb v Z0) c
            | None -> true)
      else true) O t.t_kinds)

(** val r2_w_tables : w -> bool **)

let r2_w_tables s =
  forallb r2_tbl_ok_b s.w_tables

(** val r2_w_layout : w -> bool **)

let r2_w_layout s =
  forallb (fun t ->
    match nth_error s.w_archs t.t_arch with
    | Some a ->
      (&&)
        ((&&) (r2_list_eqb Nat.eqb t.t_ids a.a_comps)
          (r2_list_eqb r2_ckind_eqb t.t_kinds (map (kind_of s) t.t_ids)))
        (Nat.eqb (length t.t_targets) (length t.t_ids))
    | None -> false) s.w_tables

(** val r2_w_arch_comps : w -> bool **)

let r2_w_arch_comps s =
  forallb (fun a ->
    (&&)
      ((&&)
        ((&&)
          ((&&)
            (r2_list_eqb Nat.eqb a.a_comps
              (mk_to_list a.a_mask (length s.w_reg)))
            (N.ltb a.a_mask (N.shiftl (Npos XH) (N.of_nat (length s.w_reg)))))
          (r2_list_eqb eqb a.a_isrel
            (map (fun c -> (kind_of s c).ck_rel) a.a_comps)))
        (Nat.eqb a.a_numrel (length (filter (fun b -> b) a.a_isrel))))
      (Nat.eqb (length a.a_reltabs) (length a.a_comps))) s.w_archs

(** val r2_w_arch_unique : w -> bool **)

let r2_w_arch_unique s =
  r2_alli (fun i a ->
    r2_alli (fun j b ->
      if N.eqb a.a_mask b.a_mask then Nat.eqb i j else true) O s.w_archs) O
    s.w_archs

(** val r2_tab_of_arch : w -> nat -> nat -> bool **)

let r2_tab_of_arch s aid tid =
  match nth_error s.w_tables tid with
  | Some t -> Nat.eqb t.t_arch aid
  | None -> false

(** val r2_w_arch_tables : w -> bool **)

let r2_w_arch_tables s =
  r2_alli (fun aid a ->
    (&&)
      ((&&)
        ((&&) (forallb (r2_tab_of_arch s aid) a.a_tables)
          (forallb (r2_tab_of_arch s aid) a.a_free))
        (forallb (fun m0 ->
          forallb (fun kl -> forallb (r2_tab_of_arch s aid) (snd kl)) m0)
          a.a_reltabs))
      (forallb (fun kl -> forallb (r2_tab_of_arch s aid) (snd kl))
        a.a_tgttabs)) O s.w_archs

(** val r2_w_norel_table : w -> bool **)

let r2_w_norel_table s =
  forallb (fun a ->
    if Nat.eqb a.a_numrel O then Nat.leb (length a.a_tables) (S O) else true)
    s.w_archs

(** val r2_w_arch0 : w -> bool **)

let r2_w_arch0 s =
  match nth_error s.w_archs O with
  | Some a0 ->
    (match nth_error s.w_tables O with
     | Some t0 -> (&&) (N.eqb a0.a_mask N0) (Nat.eqb t0.t_arch O)
     | None -> false)
  | None -> false

(** val r2_w_index_lists : w -> bool **)

let r2_w_index_lists s =
  (&&)
    ((&&)
      ((&&)
        ((&&) (Nat.eqb (length s.w_compindex) (length s.w_reg))
          (Nat.eqb (length s.w_archcount) (length s.w_reg)))
        (Nat.leb (length s.w_reg) s.w_cfg.cf_bits))
      (Nat.leb (S O) s.w_cfg.cf_cap)) (Nat.leb (S O) s.w_cfg.cf_caprel)

(** val r2_w_index_len : w -> bool **)

let r2_w_index_len s =
  (&&) (Nat.eqb (length s.w_index) (length s.w_pool.pe))
    (Nat.eqb (length s.w_istarget) (length s.w_index))

(** val r2_loc_eqb : (nat * nat) option -> nat -> nat -> bool **)

let r2_loc_eqb o tid r =
  match o with
  | Some p0 -> let (a, b) = p0 in (&&) (Nat.eqb a tid) (Nat.eqb b r)
  | None -> false

(** val r2_w_rows : w -> bool **)

let r2_w_rows s =
  r2_alli (fun tid t ->
    forallb (fun r ->
      (&&) (r2_loc_eqb (loc s (row_ent t r)) tid r)
        (match nth_error s.w_pool.pe (fst (row_ent t r)) with
         | Some e -> ent_eqb e (row_ent t r)
         | None -> false)) (seq O t.t_len)) O s.w_tables

(** val r2_w_index : w -> bool **)

let r2_w_index s =
  r2_alli (fun id ix ->
    let (o, r) = ix in
    (match o with
     | Some tid ->
       (match nth_error s.w_tables tid with
        | Some t -> (&&) (Nat.ltb r t.t_len) (Nat.eqb (fst (row_ent t r)) id)
        | None -> false)
     | None -> true)) O s.w_index

(** val r2_free_list : ent list -> nat -> nat -> nat list **)

let rec r2_free_list l nx = function
| O -> []
| S n' -> nx :: (r2_free_list l (fst (nth nx l zero_ent)) n')

(** val r2_w_pool : w -> bool **)

let r2_w_pool s =
  let p0 = s.w_pool in
  let fl = r2_free_list p0.pe p0.pnext p0.pavail in
  (&&)
    ((&&)
      ((&&) ((&&) (Nat.leb (S (S O)) (length p0.pe)) (r2_nodupb fl))
        (forallb (fun i ->
          (&&) (Nat.leb (S (S O)) i) (Nat.ltb i (length p0.pe))) fl))
      (forallb (fun i ->
        match nth_error s.w_index i with
        | Some p1 ->
          let (o, _) = p1 in (match o with
                              | Some _ -> false
                              | None -> true)
        | None -> false) fl))
    (forallb (fun i ->
      if (&&) (Nat.leb (S (S O)) i) (negb (memb i fl))
      then (match nth_error s.w_index i with
            | Some p1 ->
              let (o, _) = p1 in (match o with
                                  | Some _ -> true
                                  | None -> false)
            | None -> false)
      else true) (seq O (length p0.pe)))

(** val r2_w_reserved : w -> bool **)

let r2_w_reserved s =
  (&&)
    ((&&)
      ((&&)
        (match nth_error s.w_index O with
         | Some p0 ->
           let (o, _) = p0 in (match o with
                               | Some _ -> false
                               | None -> true)
         | None -> false)
        (match nth_error s.w_index (S O) with
         | Some p0 ->
           let (o, _) = p0 in (match o with
                               | Some _ -> false
                               | None -> true)
         | None -> false))
      (match nth_error s.w_pool.pe O with
       | Some e -> ent_eqb e (O, max_u32)
       | None -> false))
    (match nth_error s.w_pool.pe (S O) with
     | Some e -> ent_eqb e ((S O), max_u32)
     | None -> false)

(** val r2_w_small : w -> bool **)

let r2_w_small s =
  N.ltb (N.of_nat (length s.w_pool.pe)) (Npos (XO (XO (XO (XO (XO (XO (XO (XO
    (XO (XO (XO (XO (XO (XO (XO (XO (XO (XO (XO (XO (XO (XO (XO (XO (XO (XO
    (XO (XO (XO (XO (XO XH))))))))))))))))))))))))))))))))

(** val r2_w_cache : w -> bool **)

let r2_w_cache s =
  forallb (fun addr ->
    match nth_error s.w_cheap addr with
    | Some e -> Nat.ltb e.ce_filter (length s.w_filters)
    | None -> false) s.w_centries

(** val wf_checks : w -> bool list **)

let wf_checks s =
  (r2_w_tables s) :: ((r2_w_layout s) :: ((r2_w_arch_comps s) :: ((r2_w_arch_unique
                                                                    s) :: (
    (r2_w_arch_tables s) :: ((r2_w_norel_table s) :: ((r2_w_arch0 s) :: (
    (r2_w_index_lists s) :: ((r2_w_index_len s) :: ((r2_w_rows s) :: (
    (r2_w_index s) :: ((r2_w_pool s) :: ((r2_w_reserved s) :: ((r2_w_small s) :: (
    (r2_w_cache s) :: []))))))))))))))

(** val inv_failing : nat -> bool list -> z list **)

let rec inv_failing i = function
| [] -> []
| b :: t ->
  if b then inv_failing (S i) t else (Z.of_nat i) :: (inv_failing (S i) t)

(** val inv_lines : bool -> w -> z list list -> z list list **)

let rec inv_lines debug s = function
| [] -> []
| l :: rest ->
  let (s', out) = step debug false s l in
  ((hd (Zpos (XI (XO (XO XH)))) out) :: (inv_failing O
                                          (app (wf_checks s')
                                            (app (rel_inv_checks s')
                                              ((cache_inv_b s') :: []))))) :: 
  (inv_lines debug s' rest)

(** val inv_script : z list list -> z list list **)

let inv_script = function
| [] -> ((Zneg (XO XH)) :: []) :: []
| cfg :: l ->
  (match l with
   | [] -> ((Zneg (XO XH)) :: []) :: []
   | l0 :: ops ->
     (match l0 with
      | [] -> ((Zneg (XO XH)) :: []) :: []
      | _ :: l1 ->
        (match l1 with
         | [] ->
           (match decode_cfg cfg with
            | Some c -> inv_lines c.sc_debug (init_world c) ops
            | None -> ((Zneg (XO XH)) :: []) :: [])
         | _ :: _ -> ((Zneg (XO XH)) :: []) :: [])))
