
val negb : bool -> bool

type nat =
| O
| S of nat

type ('a, 'b) sum =
| Inl of 'a
| Inr of 'b

val fst : ('a1 * 'a2) -> 'a1

val snd : ('a1 * 'a2) -> 'a2

val length : 'a1 list -> nat

val app : 'a1 list -> 'a1 list -> 'a1 list

type comparison =
| Eq
| Lt
| Gt

val compOpp : comparison -> comparison

val add : nat -> nat -> nat

val mul : nat -> nat -> nat

val sub : nat -> nat -> nat

val eqb : bool -> bool -> bool

module Nat :
 sig
  val eqb : nat -> nat -> bool

  val leb : nat -> nat -> bool

  val ltb : nat -> nat -> bool

  val max : nat -> nat -> nat
 end

val hd : 'a1 -> 'a1 list -> 'a1

val nth : nat -> 'a1 list -> 'a1 -> 'a1

val nth_error : 'a1 list -> nat -> 'a1 option

val rev : 'a1 list -> 'a1 list

val map : ('a1 -> 'a2) -> 'a1 list -> 'a2 list

val flat_map : ('a1 -> 'a2 list) -> 'a1 list -> 'a2 list

val fold_left : ('a1 -> 'a2 -> 'a1) -> 'a2 list -> 'a1 -> 'a1

val fold_right : ('a2 -> 'a1 -> 'a1) -> 'a1 -> 'a2 list -> 'a1

val existsb : ('a1 -> bool) -> 'a1 list -> bool

val forallb : ('a1 -> bool) -> 'a1 list -> bool

val filter : ('a1 -> bool) -> 'a1 list -> 'a1 list

val find : ('a1 -> bool) -> 'a1 list -> 'a1 option

val combine : 'a1 list -> 'a2 list -> ('a1 * 'a2) list

val firstn : nat -> 'a1 list -> 'a1 list

val skipn : nat -> 'a1 list -> 'a1 list

val seq : nat -> nat -> nat list

val repeat : 'a1 -> nat -> 'a1 list

type positive =
| XI of positive
| XO of positive
| XH

type n =
| N0
| Npos of positive

type z =
| Z0
| Zpos of positive
| Zneg of positive

module Pos :
 sig
  type mask =
  | IsNul
  | IsPos of positive
  | IsNeg
 end

module Coq_Pos :
 sig
  val succ : positive -> positive

  val add : positive -> positive -> positive

  val add_carry : positive -> positive -> positive

  val pred_double : positive -> positive

  val pred_N : positive -> n

  type mask = Pos.mask =
  | IsNul
  | IsPos of positive
  | IsNeg

  val succ_double_mask : mask -> mask

  val double_mask : mask -> mask

  val double_pred_mask : positive -> mask

  val sub_mask : positive -> positive -> mask

  val sub_mask_carry : positive -> positive -> mask

  val mul : positive -> positive -> positive

  val iter : ('a1 -> 'a1) -> 'a1 -> positive -> 'a1

  val compare_cont : comparison -> positive -> positive -> comparison

  val compare : positive -> positive -> comparison

  val eqb : positive -> positive -> bool

  val coq_Nsucc_double : n -> n

  val coq_Ndouble : n -> n

  val coq_lor : positive -> positive -> positive

  val coq_land : positive -> positive -> n

  val ldiff : positive -> positive -> n

  val coq_lxor : positive -> positive -> n

  val shiftl : positive -> n -> positive

  val testbit : positive -> n -> bool

  val iter_op : ('a1 -> 'a1 -> 'a1) -> positive -> 'a1 -> 'a1

  val to_nat : positive -> nat

  val of_succ_nat : nat -> positive
 end

module N :
 sig
  val succ_double : n -> n

  val double : n -> n

  val pred : n -> n

  val add : n -> n -> n

  val sub : n -> n -> n

  val mul : n -> n -> n

  val compare : n -> n -> comparison

  val eqb : n -> n -> bool

  val leb : n -> n -> bool

  val ltb : n -> n -> bool

  val div2 : n -> n

  val pos_div_eucl : positive -> n -> n * n

  val div_eucl : n -> n -> n * n

  val div : n -> n -> n

  val modulo : n -> n -> n

  val coq_lor : n -> n -> n

  val coq_land : n -> n -> n

  val ldiff : n -> n -> n

  val coq_lxor : n -> n -> n

  val shiftl : n -> n -> n

  val shiftr : n -> n -> n

  val testbit : n -> n -> bool

  val of_nat : nat -> n

  val setbit : n -> n -> n

  val clearbit : n -> n -> n

  val ones : n -> n
 end

module Z :
 sig
  val compare : z -> z -> comparison

  val ltb : z -> z -> bool

  val eqb : z -> z -> bool

  val to_nat : z -> nat

  val to_N : z -> n

  val of_nat : nat -> z

  val of_N : n -> z

  val odd : z -> bool
 end

val upd : nat -> 'a1 -> 'a1 list -> 'a1 list

val updf : nat -> ('a1 -> 'a1) -> 'a1 list -> 'a1 list

val index_of : nat -> nat list -> nat option

val memb : nat -> nat list -> bool

val resize : nat -> nat -> 'a1 -> 'a1 list -> 'a1 list

val copy_into : 'a1 list -> nat -> 'a1 list -> 'a1 list

val afind : nat -> (nat * 'a1) list -> 'a1 option

val aset : nat -> 'a1 -> (nat * 'a1) list -> (nat * 'a1) list

val adel : nat -> (nat * 'a1) list -> (nat * 'a1) list

val amap_vals : ('a1 -> 'a1) -> (nat * 'a1) list -> (nat * 'a1) list

val ains : (nat * 'a1) -> (nat * 'a1) list -> (nat * 'a1) list

val asort : (nat * 'a1) list -> (nat * 'a1) list

type ent = nat * n

val zero_ent : ent

val max_u32 : n

val ent_eqb : ent -> ent -> bool

type err =
| ELocked
| EDead
| EHasComp
| EMissingComp
| ENoComps
| ERelUnspec
| EDeadTarget
| ENotRelation
| ERelNotInMask
| EIndex
| ENil
| EBits
| EUnbalanced
| ETooMany
| ERegLocked
| EResource
| EReserved
| ERegistered
| EMisuse

type ('s, 'a) res =
| Ok of 'a * 's
| Err of err * 's

type ('s, 'a) m = 's -> ('s, 'a) res

val ret : 'a2 -> ('a1, 'a2) m

val fail : err -> ('a1, 'a2) m

val bind : ('a1, 'a2) m -> ('a2 -> ('a1, 'a3) m) -> ('a1, 'a3) m

val get : ('a1, 'a1) m

val put : 'a1 -> ('a1, unit) m

val modify : ('a1 -> 'a1) -> ('a1, unit) m

val guard : bool -> err -> ('a1, unit) m

val of_opt : 'a2 option -> err -> ('a1, 'a2) m

val forM_ : 'a2 list -> ('a2 -> ('a1, unit) m) -> ('a1, unit) m

val mapM : 'a2 list -> ('a2 -> ('a1, 'a3) m) -> ('a1, 'a3 list) m

val state_of : ('a1, 'a2) res -> 'a1

val is_err : ('a1, 'a2) res -> bool

type mask0 = n

val mk_get : mask0 -> nat -> bool

val mk_set : mask0 -> nat -> mask0

val mk_clear : mask0 -> nat -> mask0

val mk_or : mask0 -> mask0 -> mask0

val mk_contains : mask0 -> mask0 -> bool

val mk_contains_any : mask0 -> mask0 -> bool

val mk_not : nat -> mask0 -> mask0

val mk_is_zero : mask0 -> bool

val mk_of_list : nat list -> mask0

val mk_to_list_from : mask0 -> nat -> nat -> nat list

val mk_to_list : mask0 -> nat -> nat list

type pool = { pe : ent list; pnext : nat; pavail : nat }

val reserved : nat

val pool_new : pool

val pool_get : pool -> ent * pool

val pool_recycle : pool -> ent -> pool option

val pool_alive : pool -> ent -> bool

val pool_reset : pool -> pool

val pool_len : pool -> nat

val pool_cap : pool -> nat

type ipool = { ip : nat list; inext : nat; iavail : nat }

val ipool_new : ipool

val ipool_get : nat option -> ipool -> (nat * ipool) option

val ipool_recycle : ipool -> nat -> ipool

type lockst = { lk_pool : ipool; lk_mask : mask0 }

val lock_new : lockst

val lock_lock : lockst -> (nat * lockst) option

val lock_unlock : lockst -> nat -> lockst option

val lock_is_locked : lockst -> bool

val u32 : n -> n

val capPow2N : n -> n

val pow2_ge : nat -> nat -> nat -> nat

val cap_pow2 : nat -> nat

type ('r, 't) setter = ('t -> 't) -> 'r -> 'r

val set : ('a1 -> 'a2) -> ('a1, 'a2) setter -> ('a2 -> 'a2) -> 'a1 -> 'a1

type ckind = { ck_rel : bool; ck_zs : bool; ck_triv : bool }

type config = { cf_cap : nat; cf_caprel : nat; cf_bits : nat }

type rel = nat * ent

type table = { t_arch : nat; t_ids : nat list; t_kinds : ckind list;
               t_len : nat; t_cap : nat; t_free : bool; t_ents : ent list;
               t_cols : z list list; t_targets : ent list; t_rels : rel list }

type arch = { a_mask : mask0; a_comps : nat list; a_isrel : bool list;
              a_tables : nat list; a_free : nat list;
              a_reltabs : (nat * nat list) list list;
              a_tgttabs : (nat * nat list) list; a_numrel : nat }

type centry = { ce_id : nat; ce_filter : nat; ce_rels : rel list;
                ce_tables : nat list }

type fobj = { f_ids : nat list; f_mask : mask0; f_without : mask0;
              f_haswithout : bool; f_cache : nat option; f_rels : rel list;
              f_unsafe : bool }

type qobj = { q_filter : nat; q_rels : rel list; q_cache : nat option;
              q_lock : nat; q_arch : nat; q_tab : nat; q_index : nat;
              q_max : nat option; q_tables : nat list; q_table : nat option;
              q_rare : nat option }

type oobj = { o_event : nat; o_for : nat list; o_withl : nat list;
              o_withoutl : nat list; o_excl : bool; o_comps : mask0;
              o_with : mask0; o_without : mask0; o_hascomps : bool;
              o_haswith : bool; o_haswithout : bool; o_id : nat option;
              o_cb : nat }

type agg = { g_has : bool; g_allcomps : mask0; g_allwith : mask0;
             g_anynocomps : bool; g_anynowith : bool }

val agg0 : agg

type wstate = { w_cfg : config; w_reg : ckind list; w_pool : pool;
                w_index : (nat option * nat) list; w_istarget : bool list;
                w_archs : arch list; w_tables : table list;
                w_relarchs : nat list; w_compindex : nat list list;
                w_archcount : nat list; w_version : n; w_cheap : centry list;
                w_centries : nat list; w_cpool : ipool; w_lock : lockst;
                w_obs : oobj list; w_olists : (nat * nat list) list;
                w_oagg : (nat * agg) list; w_opool : ipool; w_ototal : 
                nat; w_omax : nat; w_filters : fobj list;
                w_queries : qobj list; w_res : bool list;
                w_issued : ent list; w_log : z list list }

type w = wstate

type 'a mW = (w, 'a) m

val tbl_adjust : table -> nat -> table

val tbl_extend : table -> nat -> table

val tbl_alloc : table -> nat -> table

val tbl_add : table -> ent -> nat * table

val col_set : ckind -> z list -> nat -> z list -> nat -> z list

val col_zero : ckind -> z list -> nat -> z list

val map2 : ('a1 -> 'a2 -> 'a3) -> 'a1 list -> 'a2 list -> 'a3 list

val tbl_remove : table -> nat -> bool * table

val zero_range : z list -> nat -> nat -> z list

val col_reset : ckind -> z list -> nat -> z list

val tbl_reset : table -> table

val tbl_add_all : table -> table -> nat -> table

val tbl_add_all_entities : table -> table -> nat -> table

val tbl_colidx : table -> nat -> nat option

val tbl_target : table -> nat -> ent option

val tbl_has_rels : table -> bool

val rels_match : table -> rel list -> bool option

val tbl_matches : table -> rel list -> bool option

type mres =
| MTrue
| MFalse
| MPanic of err

val rels_match_exact : table -> rel list -> mres

val tbl_matches_exact : table -> rel list -> mres

val tids_remove : nat -> nat list -> nat list

val getT : nat -> table mW

val modT : nat -> (table -> table) -> unit mW

val setT : nat -> table -> unit mW

val getA : nat -> arch mW

val modA : nat -> (arch -> arch) -> unit mW

val whenM : bool -> unit mW -> unit mW

val on_err : 'a1 mW -> (w -> w) -> 'a1 mW

val is_locked : w -> bool

val check_locked : unit mW

val lockM : nat mW

val unlockM : nat -> unit mW

val release_bit : nat -> w -> w

val with_deferred_unlock : nat -> 'a1 mW -> 'a1 mW

val alive : w -> ent -> bool

val is_rel_comp : w -> nat -> bool

val arch_has_rels : arch -> bool

val find_exact : w -> nat list -> rel list -> (w, nat option) res

val rels_distinct : rel list -> bool

val arch_get_table : arch -> rel list -> nat option mW

val arch_get_tables : arch -> rel list -> nat list option

val aappend : nat -> nat -> (nat * nat list) list -> (nat * nat list) list

val aappend_new : nat -> nat -> (nat * nat list) list -> (nat * nat list) list

val add_table_cols : nat -> nat -> ckind list -> ent list -> arch -> arch

val arch_add_table : arch -> nat -> table -> arch

val arch_free_table : arch -> nat -> arch

val remove_from_targets_cols :
  nat -> nat -> ckind list -> ent list -> arch -> arch

val arch_remove_target : arch -> nat -> arch

val filter_matches : fobj -> mask0 -> bool

val cache_add_table : nat -> table -> mask0 -> unit mW

val cache_remove_table : nat -> unit mW

val find_arch : w -> mask0 -> nat option

val kind_of : w -> nat -> ckind

val create_archetype_bare : mask0 -> nat mW

val new_table :
  nat -> arch -> ckind list -> nat -> ent list -> rel list -> table

val place_targets : arch -> rel list -> ent list -> ent list option

val register_targets : rel list -> unit mW

val check_rel : rel -> unit mW

val create_table : nat -> rel list -> nat mW

val create_archetype : mask0 -> nat mW

val find_or_create_arch : mask0 -> nat mW

val get_or_create_table : nat -> rel list -> nat mW

val gf_remove : nat list -> mask0 -> mask0 mW

val gf_add : mask0 option -> nat list -> mask0 -> mask0 mW

val surviving_rels : arch -> rel list -> rel list * bool

val find_or_create_table_add :
  nat -> nat list -> rel list -> mask0 -> ((nat * nat) * mask0) mW

val find_or_create_table_remove :
  nat -> nat list -> mask0 -> (((nat * nat) * mask0) * bool) mW

val find_or_create_table :
  nat -> nat list -> nat list -> rel list -> mask0 ->
  (((nat * nat) * mask0) * bool) mW

val set_index : nat -> (nat option * nat) -> unit mW

val get_index : ent -> (nat * nat) mW

val pool_getM : ent mW

val pool_recycleM : ent -> unit mW

val tbl_addM : nat -> ent -> nat mW

val remove_row : nat -> nat -> unit mW

val copy_row : nat -> nat -> mask0 -> nat -> nat -> unit mW

val move_entities : nat -> nat -> nat -> unit mW

val exchange_targets_unchecked : table -> rel list -> rel list mW

val exchange_targets : table -> rel list -> (rel list * mask0) option mW

val evCreateEntity : nat

val evRemoveEntity : nat

val evAddComponents : nat

val evRemoveComponents : nat

val evSetComponents : nat

val evAddRelations : nat

val evRemoveRelations : nat

val is_entity_event : nat -> bool

val is_relation_event : nat -> bool

val get_agg : w -> nat -> agg

val olist : w -> nat -> nat list

val has_obs : w -> nat -> bool

val mod_agg : nat -> (agg -> agg) -> unit mW

val getO : nat -> oobj mW

val modO : nat -> (oobj -> oobj) -> unit mW

val add_observer : nat -> unit mW

val recompute_with : oobj list -> mask0 -> mask0 * bool

val recompute_comps : oobj list -> mask0 -> mask0 * bool

val objs_of : w -> nat list -> oobj list

val remove_observer : nat -> unit mW

val reset_observers : unit mW

val count_rows : ent -> table -> nat

val count_in_world : w -> ent -> nat

val zn : nat -> z

val zb : bool -> z

val zent : ent -> z list

val snapshot_row : table -> nat -> z list

val snapshot_entity : w -> ent -> z list option

val world_view : w -> z list

val log : z list -> unit mW

val run_callback : nat -> ent -> unit mW

val fire_loop :
  (nat -> ent -> unit mW) -> (oobj -> bool) -> ent -> nat list -> bool ->
  bool mW

val fire_with :
  (nat -> ent -> unit mW) -> nat -> (agg -> bool) -> (oobj -> bool) -> ent ->
  bool -> bool mW

val fire : nat -> (agg -> bool) -> (oobj -> bool) -> ent -> bool -> bool mW

val p_with : mask0 -> oobj -> bool

val early_with : mask0 -> agg -> bool

val early_comps : mask0 -> agg -> bool

val fire_create_entity : ent -> mask0 -> bool -> bool mW

val fire_remove_entity : ent -> mask0 -> bool -> bool mW

val p_entity_rel : mask0 -> oobj -> bool

val fire_create_entity_rel : ent -> mask0 -> bool -> bool mW

val fire_remove_entity_rel : ent -> mask0 -> bool -> bool mW

val p_add : mask0 -> mask0 -> oobj -> bool

val early_add : mask0 -> mask0 -> agg -> bool

val fire_add : nat -> ent -> mask0 -> mask0 -> bool -> bool mW

val p_remove : mask0 -> mask0 -> oobj -> bool

val early_remove : mask0 -> mask0 -> agg -> bool

val fire_remove : nat -> ent -> mask0 -> mask0 -> bool -> bool mW

val p_set : mask0 -> mask0 -> oobj -> bool

val early_set : mask0 -> mask0 -> agg -> bool

val fire_set : nat -> ent -> mask0 -> mask0 -> bool -> bool mW

val fire_create_entity_if_has : ent -> mask0 -> unit mW

val fire_create_entity_rel_if_has : ent -> mask0 -> unit mW

val fire_add_if_has : nat -> ent -> mask0 -> mask0 -> unit mW

val fire_rows : (ent -> bool -> bool mW) -> ent list -> bool -> unit mW

val is_nil : 'a1 list -> bool

val set_index_direct : ent -> nat -> nat -> unit mW

val new_entity : nat list -> rel list -> (ent * mask0) mW

val create_entity : nat -> ent mW

val create_entities : nat -> nat -> unit mW

val new_entities : nat -> nat list -> rel list -> (nat * nat) mW

val rows_of : nat -> nat -> nat -> ent list mW

val arch_mask_of_table : nat -> mask0 mW

val w_add : ent -> nat list -> rel list -> (mask0 * mask0) mW

val fire_remove_events : ent -> mask0 -> mask0 -> bool -> unit mW

val w_remove : ent -> nat list -> unit mW

val w_exchange : ent -> nat list -> nat list -> rel list -> (mask0 * mask0) mW

val copy_all : nat -> nat -> nat -> nat -> unit mW

val w_set_relations : ent -> rel list -> unit mW

val free_table : nat -> nat -> unit mW

val cleanup_archetypes : ent -> unit mW

val storage_remove_entity : ent -> unit mW

val w_copy_entity : ent -> ent mW

val getF : nat -> fobj mW

val to_relations : mask0 -> rel list -> unit mW

val tables_matching : w -> nat list -> rel list -> bool -> (w, nat list) res

val uncached_tables : fobj -> rel list -> nat list mW

val get_batch_tables : nat -> rel list -> nat list mW

val filter_register : nat -> unit mW

val filter_unregister : nat -> unit mW

val cache_reset : unit mW

val batch_callback : nat -> (nat * z) list -> nat -> unit mW

val w_new_entities : nat -> bool -> unit mW

val w_new_batch :
  nat -> nat list -> rel list -> (nat * z) list -> bool -> unit mW

val w_remove_entities : nat -> rel list -> bool -> unit mW

val exchange_table : nat -> nat -> rel list -> (nat * nat) mW

val w_exchange_batch :
  nat -> rel list -> nat list -> nat list -> rel list -> (nat * z) list ->
  unit mW

val set_relations_plan :
  nat -> rel list -> (((nat * nat) * nat) * mask0) option mW

val opt_list : 'a1 option list -> 'a1 list

val set_relations_fire_removes : (((nat * nat) * nat) * mask0) list -> unit mW

val set_relations_move :
  (((nat * nat) * nat) * mask0) -> (((nat * nat) * nat) * mask0) mW

val set_relations_fire_adds : (((nat * nat) * nat) * mask0) list -> unit mW

val w_set_relations_batch : nat -> rel list -> rel list -> unit mW

val arch_reset : nat -> unit mW

val w_reset : unit mW

val tbl_shrink_target : table -> nat -> nat

val tbl_can_shrink : table -> nat -> bool

val w_shrink_clock : (nat -> bool) -> bool mW

val w_shrink_core : bool -> bool mW

val w_shrink : bool -> bool mW

val getQ : nat -> qobj mW

val modQ : nat -> (qobj -> qobj) -> unit mW

val rare_component : w -> nat list -> nat

val entry_addr : w -> nat -> nat option

val query_open : nat -> rel list -> nat mW

val query_close : nat -> unit mW

val query_set_table : nat -> nat -> nat -> unit mW

val nt_fail_pos : w -> rel list -> nat list -> nat -> nat -> nat

val query_next_table : nat -> nat list -> bool -> bool mW

val query_archetypes : w -> qobj -> nat list

val query_next_archetype : nat -> bool mW

val query_next_table_or_archetype : nat -> bool mW

val query_next : bool -> nat -> bool mW

val query_entity : bool -> nat -> ent mW

val count_tables :
  w -> nat list -> rel list -> bool -> (w, (nat * nat) list) res

val query_walk : nat -> (nat * nat) list mW

val query_count : nat -> nat mW

val entity_at_tables :
  nat -> rel list -> bool -> nat list -> nat -> (ent, nat) sum mW

val query_entity_at : nat -> nat -> ent mW

type hrel = nat * z

type op =
| ONewEntity
| OUNew of nat list
| OUNewRel of nat list * hrel list
| ONewEntities of nat * bool
| OCopy of z
| OUAdd of z * nat list
| OUAddRel of z * nat list * hrel list
| OURemove of z * nat list
| OUExchange of z * nat list * nat list * hrel list
| OWrite of z * nat * z
| OUSetRel of z * hrel list
| ORemoveEntity of z
| ORemoveEntities of nat * hrel list * bool
| OReset
| OShrink of bool
| OFilterNew of bool * nat list * nat list * bool * hrel list
| OFilterRegister of nat
| OFilterUnregister of nat
| OQueryAll of nat * hrel list
| OQueryOpen of nat * hrel list
| OQueryNext of nat
| OQueryClose of nat
| OQueryCount of nat
| OQueryEntityAt of nat * nat
| OQueryEntity of nat
| OObsNew of nat * nat list * nat list * nat list * bool * nat
| OObsRegister of nat
| OObsUnregister of nat
| OEmit of nat * z * nat list
| OMapSet of z * nat * z
| ONewBatch of nat * nat list * hrel list * (nat * z) list * bool
| OExchangeBatch of nat * hrel list * nat list * nat list * hrel list
   * (nat * z) list
| OSetRelBatch of nat * hrel list * nat list * hrel list
| OAlive of z
| OHas of z * nat
| OGetRel of z * nat
| OIDs of z
| OGet of z * nat
| OStats

type 'a p = z list -> ('a * z list) option

val pZ : z p

val pnat : nat p

val pbool : bool p

val pbind : 'a1 p -> ('a1 -> 'a2 p) -> 'a2 p

val pret : 'a1 -> 'a1 p

val prep : 'a1 p -> nat -> 'a1 list p

val plist : 'a1 p -> 'a1 list p

val ppair : 'a1 p -> 'a2 p -> ('a1 * 'a2) p

val pnats : nat list p

val prels : hrel list p

val pvals : (nat * z) list p

val pflag : bool p

val decode_op : z list -> op option

type script_cfg = { sc_cap : nat; sc_caprel : nat; sc_bits : nat;
                    sc_debug : bool; sc_kinds : ckind list }

val kind_of_code : z -> ckind

val decode_cfg : z list -> script_cfg option

val init_world : script_cfg -> w

val handle : w -> z -> ent option

val resolveH : z -> ent mW

val resolveR : hrel list -> rel list mW

val no_relidx : rel list -> bool

val resolve_relidx : nat -> rel list -> rel list mW

val check_unsafe_rels : nat -> rel list -> unit mW

val logged_entities : z list list -> ent list

val cell_of : bool -> ent -> nat -> ((nat * nat) * nat) mW

val write_cell : nat -> nat -> nat -> z -> unit mW

val batch_rels : nat -> rel list -> rel list mW

val stats_vec : w -> z list

val step_op : bool -> op -> z list mW

val issues_from_log : op -> bool

val returns_entity : op -> bool

val obs_api : w -> z list

val zlist : nat list -> z list

val zipool : ipool -> z list

val zamap : (nat * nat list) list -> z list

val zmask : mask0 -> z list

val dump_table : table -> z list

val dump_arch : arch -> z list

val dump : w -> z list

val flatten_log : z list list -> z list

val step : bool -> bool -> w -> z list -> w * z list

val run_lines : bool -> bool -> w -> z list list -> z list list

val run_script : z list list -> z list list

val byte_of : n -> n -> n

val put_u32 : n -> n list

val get_u32 : n -> n -> n -> n -> n

val marshal_bin : n -> n -> n list

val unmarshal_bin : n list -> (n * n) option

val dec_digits : nat -> n -> n list -> n list

val dec : n -> n list

val marshal_json : n -> n -> n list

val parse_num : n list -> n option -> n option * n list

val unmarshal_json : n list -> (n * n) option

type edump = { d_ents : ent list; d_next : nat; d_avail : nat }

val pool_dump : pool -> edump

val pool_load : pool -> edump -> pool option

val pstep : (pool * ent list) -> (z * z) -> pool * ent list

val prun : (z * z) list -> pool * ent list

val zpairs : z list -> (z * z) list

val pgets : nat -> pool -> ent list

val b2z : bool -> z

val ent2z : ent -> z list

val dumpload_case : z list -> z list

val table_ids : w -> nat -> nat list

val alive_ids : w -> nat list

val w_dump_entities : w -> edump * nat list

val load_rows :
  ent list -> nat list -> table -> (nat option * nat) list -> (table * (nat
  option * nat) list) option

val w_load_entities : (edump * nat list) -> w -> w option

val nodupb : nat list -> bool

val alive_okb : w -> bool

val final_state : bool -> w -> z list list -> w

val dumpload_world : z list list -> z list

val row_ent : table -> nat -> ent

val loc : w -> ent -> (nat * nat) option

val live : w -> ent -> bool

val r2_nodupb : nat list -> bool

val r2_alli : (nat -> 'a1 -> bool) -> nat -> 'a1 list -> bool

val r2_exi : (nat -> 'a1 -> bool) -> nat -> 'a1 list -> bool

val r2_ents_eqb : ent list -> ent list -> bool

val r2_is_some_true : bool option -> bool

val r2_c_nodup : w -> bool

val r2_c_active : w -> bool

val r2_c_freed : w -> bool

val r2_c_listed : w -> bool

val r2_c_norel : w -> bool

val r2_shape_b : arch -> table -> bool

val r2_c_shape : w -> bool

val r2_c_unique : w -> bool

val r2_c_reltabs : w -> bool

val r2_c_reltabs_complete : w -> bool

val r2_has_target_b : arch -> table -> nat -> bool

val r2_c_tgttabs : w -> bool

val r2_c_tgttabs_complete : w -> bool

val r2_c_keys : w -> bool

val r2_c_relarchs : w -> bool

val r2_c_istarget : w -> bool

val r2_c_targets_ok : w -> bool

val rel_inv_checks : w -> bool list

val r2_cache_member_b : w -> fobj -> rel list -> table -> bool

val r2_c_entry : w -> centry -> fobj -> bool

val cache_inv_b : w -> bool

val r2_ckind_eqb : ckind -> ckind -> bool

val r2_list_eqb : ('a1 -> 'a1 -> bool) -> 'a1 list -> 'a1 list -> bool

val r2_tbl_ok_b : table -> bool

val r2_w_tables : w -> bool

val r2_w_layout : w -> bool

val r2_w_arch_comps : w -> bool

val r2_w_arch_unique : w -> bool

val r2_tab_of_arch : w -> nat -> nat -> bool

val r2_w_arch_tables : w -> bool

val r2_w_norel_table : w -> bool

val r2_w_arch0 : w -> bool

val r2_w_index_lists : w -> bool

val r2_w_index_len : w -> bool

val r2_loc_eqb : (nat * nat) option -> nat -> nat -> bool

val r2_w_rows : w -> bool

val r2_w_index : w -> bool

val r2_free_list : ent list -> nat -> nat -> nat list

val r2_w_pool : w -> bool

val r2_w_reserved : w -> bool

val r2_w_small : w -> bool

val r2_w_cache : w -> bool

val wf_checks : w -> bool list

val inv_failing : nat -> bool list -> z list

val inv_lines : bool -> w -> z list list -> z list list

val inv_script : z list list -> z list list
