(** Compiled on every C14 check against the freshly extracted WiringData.v (logical path ArkGen):
    the wiring of /repo's current *_gen.go files is consistent. *)
From Coq Require Import List Bool Arith.
From Ark Require Import Model.Wiring.
From ArkGen Require Import WiringData.

Theorem extracted_wiring_consistent : forallb unit_ok extracted_units = true.
Proof. vm_compute. reflexivity. Qed.

Theorem extracted_wiring_nonempty : Nat.leb 100 (length extracted_units) = true.
Proof. vm_compute. reflexivity. Qed.

Print Assumptions extracted_wiring_consistent.
