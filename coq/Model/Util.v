(** * Util: capPow2 (util.go) on uint32, and the nat version used by the table model. *)
From Ark Require Import Model.Base.

Definition u32 (x : N) : N := N.modulo x 4294967296.

(** The bit-twiddling of util.go, with every intermediate truncated to 32 bits. *)
Definition capPow2N (required : N) : N :=
  if N.eqb required 0 then 1%N else
  let r := u32 (required - 1) in
  let r := N.lor r (N.shiftr r 1) in
  let r := N.lor r (N.shiftr r 2) in
  let r := N.lor r (N.shiftr r 4) in
  let r := N.lor r (N.shiftr r 8) in
  let r := N.lor r (N.shiftr r 16) in
  u32 (r + 1).

(** The table model works on [nat]: the least power of two that is >= n (1 for 0). *)
Fixpoint pow2_ge (fuel : nat) (p n : nat) : nat :=
  match fuel with
  | O => p
  | S f => if Nat.leb n p then p else pow2_ge f (2 * p) n
  end.
Definition cap_pow2 (n : nat) : nat := pow2_ge 32 1 n.
