(** * DumpLoad: pool level of Unsafe.DumpEntities / Unsafe.LoadEntities (unsafe.go) and the
    pool scripts of the dump/load correspondence (codec block, case 6).

    The [Alive] list of the dump and the rebuilding of the entity index and of the
    component-less table belong to the world level; they are covered by the Go-side twin-world
    oracle (harness/codec), not by this model. *)
From Ark Require Import Model.Base Model.Mask Model.Pool.

Record edump := { d_ents : list ent; d_next : nat; d_avail : nat }.

(** DumpEntities: a copy of the pool array, the head of the free list, the number available. *)
Definition pool_dump (p : pool) : edump :=
  {| d_ents := pe p; d_next := pnext p; d_avail := pavail p |}.

(** LoadEntities, pool part. [None] = Go panics ("can set entity data only on a fresh or reset
    world": more than the two reserved slots, or something on the free list). An empty dump
    (capacity 0, the zero value of EntityDump) leaves the pool alone. *)
Definition pool_load (t : pool) (d : edump) : option pool :=
  if orb (Nat.ltb reserved (length (pe t))) (Nat.ltb 0 (pavail t)) then None
  else if Nat.ltb 0 (length (d_ents d))
       then Some {| pe := d_ents d; pnext := d_next d; pavail := d_avail d |}
       else Some t.

(** ** Pool scripts (for the correspondence): 0 _ = create; 1 k = remove the k-th handle issued
    since the last reset if it is alive (otherwise nothing); 2 _ = reset (forgets the handles). *)
Definition pstep (st : pool * list ent) (o : Z * Z) : pool * list ent :=
  let '(p, iss) := st in
  match fst o with
  | 0%Z => let '(e, p') := pool_get p in (p', iss ++ [e])
  | 1%Z => match nth_error iss (Z.to_nat (snd o)) with
           | Some e => if pool_alive p e
                       then match pool_recycle p e with Some p' => (p', iss) | None => (p, iss) end
                       else (p, iss)
           | None => (p, iss)
           end
  | _ => (pool_reset p, [])
  end.

Definition prun (ops : list (Z * Z)) : pool * list ent := fold_left pstep ops (pool_new, []).

Fixpoint zpairs (l : list Z) : list (Z * Z) :=
  match l with a :: b :: r => (a, b) :: zpairs r | _ => [] end.

Fixpoint pgets (n : nat) (p : pool) : list ent :=
  match n with O => [] | S n' => let '(e, p') := pool_get p in e :: pgets n' p' end.

Definition b2z (b : bool) : Z := if b then 1%Z else 0%Z.
Definition ent2z (e : ent) : list Z := [Z.of_nat (fst e); Z.of_N (snd e)].

(** One case: [n; ls; 2*ls numbers (source script); target script].  Output:
    - is the dump rejected by the target world as the script leaves it (1/0);
    - is it accepted after a Reset of the target world (1/0); then, for the loaded world,
    - Alive of every handle the source issued since its last reset; the next [n] creations. *)
Definition dumpload_case (l : list Z) : list Z :=
  match l with
  | n :: ls :: rest =>
      let k := (2 * Z.to_nat ls)%nat in
      let '(src, iss) := prun (zpairs (firstn k rest)) in
      let '(tgt, _) := prun (zpairs (skipn k rest)) in
      let d := pool_dump src in
      let rej := match pool_load tgt d with None => 1%Z | Some _ => 0%Z end in
      match pool_load (pool_reset tgt) d with
      | None => [rej; 0%Z]
      | Some q => rej :: 1%Z :: map (fun e => b2z (pool_alive q e)) iss
                    ++ flat_map ent2z (pgets (Z.to_nat n) q)
      end
  | _ => [(-1)%Z]
  end.
