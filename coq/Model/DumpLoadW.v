(** * DumpLoadW: world level of Unsafe.DumpEntities / Unsafe.LoadEntities (unsafe.go).

    [w_dump_entities] is the whole EntityDump (pool copy + IDs of the alive entities in the
    iteration order of a Filter0 query: archetypes in creation order, the active tables of each
    in list order, rows in order); [w_load_entities] is LoadEntities: lock check, the pool guard
    and installation of Model/DumpLoad.v, fresh entity index and target flags of the dump's
    capacity (Go zero values: table 0, row 0), and the alive entities appended to the
    component-less table 0 (Extend once, then Add each), indexed as they go.
    Tied to the code by the world dump/load cases of the codec correspondence (full internal dump
    of the loaded world). *)
From Ark Require Import Model.Base Model.Mask Model.Pool Model.Util Model.World Model.Run Model.DumpLoad.
From RecordUpdate Require Import RecordSet.
Import RecordSetNotations.

Definition table_ids (s : W) (tid : nat) : list nat :=
  match nth_error (w_tables s) tid with
  | Some t => map fst (firstn (t_len t) (t_ents t))
  | None => []
  end.

Definition alive_ids (s : W) : list nat :=
  flat_map (fun a : arch => flat_map (table_ids s) (a_tables a)) (w_archs s).

Definition w_dump_entities (s : W) : edump * list nat := (pool_dump (w_pool s), alive_ids s).

(** The Add loop of LoadEntities; [None] = Go indexes out of range (an Alive entry beyond the
    dumped pool: impossible for a dump produced by DumpEntities, see DumpLoadWProofs). *)
Fixpoint load_rows (pes : list ent) (alive : list nat) (t : table) (idx : list (option nat * nat))
  : option (table * list (option nat * nat)) :=
  match alive with
  | [] => Some (t, idx)
  | i :: rest =>
      match nth_error pes i with
      | Some e =>
          if Nat.ltb (fst e) (length idx) then
            let '(row, t') := tbl_add t e in
            load_rows pes rest t' (upd (fst e) (Some 0, row) idx)
          else None
      | None => None
      end
  end.

Definition w_load_entities (d : edump * list nat) (s : W) : option W :=
  let '(pd, alive) := d in
  if is_locked s then None
  else match pool_load (w_pool s) pd with
       | None => None
       | Some p =>
           let cap := length (d_ents pd) in
           match nth_error (w_tables s) 0 with
           | None => None
           | Some t0 =>
               match load_rows (pe p) alive (tbl_extend t0 (length alive)) (repeat (Some 0, 0) cap) with
               | None => None
               | Some (t1, idx) =>
                   Some (s <| w_pool := p |> <| w_index := idx |>
                           <| w_istarget := repeat false cap |>
                           <| w_tables ::= upd 0 t1 |>)
               end
           end
       end.

(** Executable form of the two hypotheses the world-level theorems take from the storage
    invariant (every listed ID names a pool slot holding that ID; no ID listed twice); proved
    sound in DumpLoadWProofs and evaluated on the source state of every correspondence case. *)
Fixpoint nodupb (l : list nat) : bool :=
  match l with [] => true | x :: r => (negb (existsb (Nat.eqb x) r) && nodupb r)%bool end.

Definition alive_okb (s : W) : bool :=
  (forallb (fun i => match nth_error (pe (w_pool s)) i with
                     | Some e => Nat.eqb (fst e) i
                     | None => false end) (alive_ids s)
   && nodupb (alive_ids s))%bool.

(** ** The correspondence case: a script (as for [run_script]); the dump of its final state is
    loaded into a new world of the same configuration, or into a world with a history of its
    own that ends with Reset; output = [alive_okb] of the source state (1/0) followed by the internal dump of that world. *)
Fixpoint final_state (debug : bool) (s : W) (lines : list (list Z)) : W :=
  match lines with
  | [] => s
  | l :: rest => final_state debug (fst (step debug false s l)) rest
  end.

Definition dumpload_world (lines : list (list Z)) : list Z :=
  match lines with
  | cfg :: [k] :: ops =>
      match decode_cfg cfg with
      | Some c =>
          (* the first [k] operation lines are the receiving world's own history (ending with its
             Reset); [k = 0]: a new world. The remaining lines are the source world's history. *)
          let kk := Z.to_nat k in
          let tgt := final_state (sc_debug c) (init_world c) (firstn kk ops) in
          let s := final_state (sc_debug c) (init_world c) (skipn kk ops) in
          match w_load_entities (w_dump_entities s) tgt with
          | Some s' => (if alive_okb s then 1%Z else 0%Z) :: dump s'
          | None => [(-3)%Z]
          end
      | None => [(-2)%Z]
      end
  | _ => [(-2)%Z]
  end.
