(** * Registry: type registries (registry.go), World.componentID (world_internal.go) and the
    resource store (resources.go). A Go type is identified by a number (reflect.Type identity). *)
From Ark Require Import Model.Base.

Definition registry := list nat.     (* Types[id] = type key; Components map = index_of *)

(** registry.ComponentID: existing ID, or the next sequential one; [None] = panic (limit reached). *)
Definition reg_component_id (bits : nat) (r : registry) (tp : nat) : option (nat * bool * registry) :=
  match index_of tp r with
  | Some id => Some (id, false, r)
  | None => if Nat.leb bits (length r) then None else Some (length r, true, r ++ [tp])
  end.

Definition reg_unregister_last (r : registry) : registry := removelast r.

(** World.componentID: a newly registered type is rolled back (and the call panics) if the world is locked. *)
Definition world_component_id (bits : nat) (locked : bool) (r : registry) (tp : nat) : option nat * registry :=
  match reg_component_id bits r tp with
  | None => (None, r)
  | Some (id, false, r') => (Some id, r')
  | Some (id, true, r') => if locked then (None, reg_unregister_last r') else (Some id, r')
  end.

(** Resources: one slot per resource ID. [None] result = panic. *)
Definition resources := list (option Z).
Definition res_new (bits : nat) : resources := repeat None bits.
Definition res_has (rs : resources) (id : nat) : bool := match nth_error rs id with Some (Some _) => true | _ => false end.
Definition res_get (rs : resources) (id : nat) : option Z := match nth_error rs id with Some v => v | None => None end.
Definition res_add (rs : resources) (id : nat) (v : Z) : option resources :=
  if res_has rs id then None else Some (upd id (Some v) rs).
Definition res_remove (rs : resources) (id : nat) : option resources :=
  if res_has rs id then Some (upd id None rs) else None.
Definition res_reset (rs : resources) : resources := map (fun _ => None) rs.
