(** * Base: list helpers and the state-and-error monad of the model.

    Plain Coq stdlib only, so that everything here extracts with [ExtrOcamlBasic]
    and evaluates with [vm_compute]. Indices, lengths and IDs are [nat]; generations
    and mask words are [N]; component payloads are [Z]. *)
From Coq Require Export List NArith ZArith Bool Arith Lia.
Export ListNotations.

Set Implicit Arguments.

(** ** Lists as Go slices *)

Fixpoint upd {A} (i : nat) (x : A) (l : list A) : list A :=
  match l with
  | [] => []
  | h :: t => match i with O => x :: t | S i' => h :: upd i' x t end
  end.

Definition updf {A} (i : nat) (f : A -> A) (l : list A) : list A :=
  match nth_error l i with
  | Some x => upd i (f x) l
  | None => l
  end.

Fixpoint index_of (x : nat) (l : list nat) : option nat :=
  match l with
  | [] => None
  | h :: t => if Nat.eqb h x then Some O
              else match index_of x t with Some i => Some (S i) | None => None end
  end.

Definition memb (x : nat) (l : list nat) : bool :=
  match index_of x l with Some _ => true | None => false end.

(** [resize c n d l]: a fresh array of capacity [c] whose first [n] cells are copied
    from [l] and whose remaining cells are the zero value [d]
    (Go: [reflect.New(ArrayOf(cap))] followed by a copy of [len] rows). *)
Definition resize {A} (c n : nat) (d : A) (l : list A) : list A :=
  firstn n l ++ repeat d (c - n).

(** [copy_into dst off src]: dst[off .. off+len src) := src  (cells outside dst are dropped). *)
Fixpoint copy_into {A} (dst : list A) (off : nat) (src : list A) : list A :=
  match src with
  | [] => dst
  | x :: xs => copy_into (upd off x dst) (S off) xs
  end.

(** Association lists standing in for Go maps with [nat] keys. *)
Fixpoint afind {V} (k : nat) (m : list (nat * V)) : option V :=
  match m with
  | [] => None
  | (k', v) :: t => if Nat.eqb k' k then Some v else afind k t
  end.

Fixpoint aset {V} (k : nat) (v : V) (m : list (nat * V)) : list (nat * V) :=
  match m with
  | [] => [(k, v)]
  | (k', v') :: t => if Nat.eqb k' k then (k, v) :: t else (k', v') :: aset k v t
  end.

Fixpoint adel {V} (k : nat) (m : list (nat * V)) : list (nat * V) :=
  match m with
  | [] => []
  | (k', v') :: t => if Nat.eqb k' k then adel k t else (k', v') :: adel k t
  end.

Definition amap_vals {V} (f : V -> V) (m : list (nat * V)) : list (nat * V) :=
  map (fun kv => (fst kv, f (snd kv))) m.

(** Insertion sort of an association list by key (only used by the dump printers,
    where the Go side sorts map keys as well). *)
Fixpoint ains {V} (kv : nat * V) (m : list (nat * V)) : list (nat * V) :=
  match m with
  | [] => [kv]
  | h :: t => if Nat.leb (fst kv) (fst h) then kv :: h :: t else h :: ains kv t
  end.
Definition asort {V} (m : list (nat * V)) : list (nat * V) := fold_right ains [] m.

(** ** Entities *)

Definition ent := (nat * N)%type.       (* id, generation *)
Definition zero_ent : ent := (O, 0%N).
Definition max_u32 : N := 4294967295%N.
Definition ent_eqb (a b : ent) : bool := Nat.eqb (fst a) (fst b) && N.eqb (snd a) (snd b).

(** ** Errors (Go panics) and the state monad that keeps the state at the point of failure *)

Inductive err :=
| ELocked | EDead | EHasComp | EMissingComp | ENoComps | ERelUnspec | EDeadTarget
| ENotRelation | ERelNotInMask | EIndex | ENil | EBits | EUnbalanced | ETooMany
| ERegLocked | EResource | EReserved | ERegistered | EMisuse.

Inductive res (S A : Type) :=
| Ok (a : A) (s : S)
| Err (e : err) (s : S).
Arguments Ok {S A} a s.
Arguments Err {S A} e s.

Definition M (S A : Type) := S -> res S A.
Definition ret {S A} (a : A) : M S A := fun s => Ok a s.
Definition fail {S A} (e : err) : M S A := fun s => Err e s.
Definition bind {S A B} (m : M S A) (k : A -> M S B) : M S B :=
  fun s => match m s with Ok a s' => k a s' | Err e s' => Err e s' end.
Definition get {S} : M S S := fun s => Ok s s.
Definition put {S} (s : S) : M S unit := fun _ => Ok tt s.
Definition modify {S} (f : S -> S) : M S unit := fun s => Ok tt (f s).
Definition gets {S A} (f : S -> A) : M S A := fun s => Ok (f s) s.
Definition guard {S} (b : bool) (e : err) : M S unit := if b then ret tt else fail e.
Definition of_opt {S A} (o : option A) (e : err) : M S A :=
  match o with Some a => ret a | None => fail e end.

Declare Scope monad_scope.
Notation "x <- m ;; k" := (bind m (fun x => k))
  (at level 61, m at next level, right associativity) : monad_scope.
Notation "m ;;; k" := (bind m (fun _ => k))
  (at level 61, right associativity) : monad_scope.
Open Scope monad_scope.

Fixpoint forM_ {S A} (l : list A) (f : A -> M S unit) : M S unit :=
  match l with
  | [] => ret tt
  | x :: t => f x ;;; forM_ t f
  end.

Fixpoint mapM {S A B} (l : list A) (f : A -> M S B) : M S (list B) :=
  match l with
  | [] => ret []
  | x :: t => y <- f x ;; ys <- mapM t f ;; ret (y :: ys)
  end.

Definition state_of {S A} (r : res S A) : S :=
  match r with Ok _ s => s | Err _ s => s end.
Definition is_err {S A} (r : res S A) : bool :=
  match r with Ok _ _ => false | Err _ _ => true end.
