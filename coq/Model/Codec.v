(** * Codec: binary and JSON encodings of entity handles (entity.go). *)
From Ark Require Import Model.Base.

Definition byte_of (x : N) (k : N) : N := N.land (N.shiftr x (8 * k)) 255.

(** [binary.BigEndian.PutUint32] *)
Definition put_u32 (x : N) : list N := [byte_of x 3; byte_of x 2; byte_of x 1; byte_of x 0].
Definition get_u32 (b3 b2 b1 b0 : N) : N :=
  N.lor (N.shiftl b3 24) (N.lor (N.shiftl b2 16) (N.lor (N.shiftl b1 8) b0)).

(** Handles at codec level: both fields are uint32. *)
Definition marshal_bin (id gen : N) : list N := put_u32 id ++ put_u32 gen.
Definition append_bin (buf : list N) (id gen : N) : list N := buf ++ put_u32 id ++ put_u32 gen.

Definition unmarshal_bin (data : list N) : option (N * N) :=
  match data with
  | [a3; a2; a1; a0; g3; g2; g1; g0] => Some (get_u32 a3 a2 a1 a0, get_u32 g3 g2 g1 g0)
  | _ => None
  end.

(** JSON: a two-element array of decimal numbers, [[id,gen]] (encoding/json is modelled
    as this printer/parser over ASCII codes). *)
Fixpoint dec_digits (fuel : nat) (x : N) (acc : list N) : list N :=
  match fuel with
  | O => acc
  | S f => let d := (48 + x mod 10)%N in
           if N.ltb x 10 then d :: acc else dec_digits f (x / 10)%N (d :: acc)
  end.
Definition dec (x : N) : list N := dec_digits 12 x [].

Definition marshal_json (id gen : N) : list N := [91%N] ++ dec id ++ [44%N] ++ dec gen ++ [93%N].

Fixpoint parse_num (l : list N) (acc : option N) : option N * list N :=
  match l with
  | c :: t => if (N.leb 48 c && N.leb c 57)%bool
              then parse_num t (Some (match acc with Some a => a * 10 + (c - 48) | None => c - 48 end)%N)
              else (acc, l)
  | [] => (acc, [])
  end.

Definition unmarshal_json (l : list N) : option (N * N) :=
  match l with
  | 91%N :: t =>
      match parse_num t None with
      | (Some id, 44%N :: t2) =>
          match parse_num t2 None with
          | (Some gen, [93%N]) =>
              if (N.ltb id 4294967296 && N.ltb gen 4294967296)%bool then Some (id, gen) else None
          | _ => None
          end
      | _ => None
      end
  | _ => None
  end.
