(** * Pool: the implicit-free-list pools of pool.go (entityPool, bitPool, intPool) and lock.go. *)
From Ark Require Import Model.Base Model.Mask.

(** ** entityPool *)

Record pool := { pe : list ent; pnext : nat; pavail : nat }.

Definition reserved : nat := 2.

Definition pool_new : pool :=
  {| pe := [(0, max_u32); (1, max_u32)]; pnext := 0; pavail := 0 |}.

(** Get: a fresh entity if nothing is available, otherwise pop the free list whose
    links are stored in the [id] field of dead slots. *)
Definition pool_get (p : pool) : ent * pool :=
  if Nat.eqb (pavail p) 0 then
    let e := (length (pe p), 0%N) in
    (e, {| pe := pe p ++ [e]; pnext := pnext p; pavail := pavail p |})
  else
    let curr := pnext p in
    match nth_error (pe p) curr with
    | Some (nid, g) =>
        ((curr, g), {| pe := upd curr (curr, g) (pe p); pnext := nid; pavail := pavail p - 1 |})
    | None => ((curr, 0%N), p)   (* Go: index out of range; unreachable for well-formed pools *)
    end.

(** Recycle: bump the generation (uint32 wrap-around), push on the free list.
    Returns [None] for the reserved entities (Go panics). *)
Definition pool_recycle (p : pool) (e : ent) : option pool :=
  if Nat.ltb (fst e) reserved then None
  else match nth_error (pe p) (fst e) with
       | Some (_, g) =>
           Some {| pe := upd (fst e) (pnext p, ((g + 1) mod 4294967296)%N) (pe p);
                   pnext := fst e; pavail := S (pavail p) |}
       | None => None
       end.

(** Alive: generation compare. (Go reads the backing array through a raw pointer; slots
    released by Reset are invalidated with the reserved generation, slots never used are
    outside the model: handles are only ever obtained from the pool.) *)
Definition pool_alive (p : pool) (e : ent) : bool :=
  match nth_error (pe p) (fst e) with
  | Some (_, g) => N.eqb g (snd e)
  | None => false
  end.

Definition pool_reset (p : pool) : pool :=
  {| pe := firstn reserved (pe p); pnext := 0; pavail := 0 |}.

Definition pool_len (p : pool) : nat := length (pe p) - reserved - pavail p.
Definition pool_cap (p : pool) : nat := length (pe p) - reserved.

(** ** intPool / bitPool: same scheme over plain integers *)

Record ipool := { ip : list nat; inext : nat; iavail : nat }.
Definition ipool_new : ipool := {| ip := []; inext := 0; iavail := 0 |}.

(** [limit = None]: intPool (unbounded). [limit = Some 64]: bitPool; getNew panics when exhausted. *)
Definition ipool_get (limit : option nat) (p : ipool) : option (nat * ipool) :=
  if Nat.eqb (iavail p) 0 then
    let b := length (ip p) in
    match limit with
    | Some n => if Nat.leb n b then None
                else Some (b, {| ip := ip p ++ [b]; inext := inext p; iavail := iavail p |})
    | None => Some (b, {| ip := ip p ++ [b]; inext := inext p; iavail := iavail p |})
    end
  else
    let curr := inext p in
    match nth_error (ip p) curr with
    | Some nx => Some (curr, {| ip := upd curr curr (ip p); inext := nx; iavail := iavail p - 1 |})
    | None => None
    end.

Definition ipool_recycle (p : ipool) (b : nat) : ipool :=
  {| ip := upd b (inext p) (ip p); inext := b; iavail := S (iavail p) |}.

(** ** lock.go *)

Record lockst := { lk_pool : ipool; lk_mask : mask }.
Definition lock_new : lockst := {| lk_pool := ipool_new; lk_mask := 0%N |}.

Definition lock_lock (l : lockst) : option (nat * lockst) :=
  match ipool_get (Some 64) (lk_pool l) with
  | Some (b, p') => Some (b, {| lk_pool := p'; lk_mask := mk_set (lk_mask l) b |})
  | None => None
  end.

Definition lock_unlock (l : lockst) (b : nat) : option lockst :=
  if mk_get (lk_mask l) b
  then Some {| lk_pool := ipool_recycle (lk_pool l) b; lk_mask := mk_clear (lk_mask l) b |}
  else None.

Definition lock_is_locked (l : lockst) : bool := negb (mk_is_zero (lk_mask l)).
