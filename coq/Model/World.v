(** * World: executable, implementation-level model of ark's storage (package ecs).

    Mirrors, function by function and with the same order of effects:
    table.go / column.go (rows, columns up to capacity, swap-remove, zeroing, growth),
    archetype.go (active / free tables, lookups by relation target),
    storage.go (entity index, table lookup and creation, target cleanup, Shrink, Reset),
    world.go / world_internal.go (create, copy, add, remove, exchange, relations, batches),
    cache.go (registered filters), lock.go, events.go (observer manager and dispatch),
    filter.go / query*.go (filters, cursors, Count, EntityAt).

    Abstractions (see DESIGN.md, trusted base): a component value is one [Z] cell; a
    pointer is (table, column, row); Go maps are association lists; the archetype graph is
    abstracted to "find the archetype with the resulting mask" (its error checks are kept);
    [componentStorage.columns] (a derived shortcut) is not stored; panics are [Err]. *)
From Ark Require Import Model.Base Model.Mask Model.Pool Model.Util.
From RecordUpdate Require Import RecordSet.
Import RecordSetNotations.

Set Implicit Arguments.

(** ** Data *)

Record ckind := { ck_rel : bool; ck_zs : bool; ck_triv : bool }.
Record config := { cf_cap : nat; cf_caprel : nat; cf_bits : nat }.

Definition rel := (nat * ent)%type.   (* relation component, target *)

Record table := {
  t_arch : nat;
  t_ids : list nat;             (* component IDs, archetype order *)
  t_kinds : list ckind;         (* per column *)
  t_len : nat;
  t_cap : nat;
  t_free : bool;
  t_ents : list ent;            (* entity column, length = cap; rows >= len are stale *)
  t_cols : list (list Z);       (* per column, length = cap *)
  t_targets : list ent;         (* per column; zero for non-relation columns *)
  t_rels : list rel;            (* relationIDs *)
}.
#[export] Instance eta_table : Settable _ :=
  settable! Build_table <t_arch; t_ids; t_kinds; t_len; t_cap; t_free; t_ents; t_cols; t_targets; t_rels>.

Record arch := {
  a_mask : mask;
  a_comps : list nat;
  a_isrel : list bool;
  a_tables : list nat;                        (* active tables *)
  a_free : list nat;                          (* free tables (stack) *)
  a_reltabs : list (list (nat * list nat));   (* per column: target id -> tables *)
  a_tgttabs : list (nat * list nat);          (* target id -> tables *)
  a_numrel : nat;
}.
#[export] Instance eta_arch : Settable _ :=
  settable! Build_arch <a_mask; a_comps; a_isrel; a_tables; a_free; a_reltabs; a_tgttabs; a_numrel>.

(** A cache entry; entries live in a heap ([w_cheap]) because open queries keep a pointer. *)
Record centry := {
  ce_id : nat;
  ce_filter : nat;          (* index of the filter object *)
  ce_rels : list rel;
  ce_tables : list nat;
}.
#[export] Instance eta_centry : Settable _ := settable! Build_centry <ce_id; ce_filter; ce_rels; ce_tables>.

(** User-side filter object (Filter0 built with With/Without/Exclusive/Relations, or UnsafeFilter). *)
Record fobj := {
  f_ids : list nat;
  f_mask : mask;
  f_without : mask;
  f_haswithout : bool;
  f_cache : option nat;     (* cache ID *)
  f_rels : list rel;        (* relations fixed in the filter *)
  f_unsafe : bool;          (* UnsafeFilter: iterates all archetypes, no cache, no rare component *)
}.
#[export] Instance eta_fobj : Settable _ :=
  settable! Build_fobj <f_ids; f_mask; f_without; f_haswithout; f_cache; f_rels; f_unsafe>.

(** Open query object: cursor of query_gen.go. [q_arch]/[q_tab] are the int32 cursor fields
    shifted by 2 (0 = -2 closed, 1 = -1 fresh). *)
Record qobj := {
  q_filter : nat;
  q_rels : list rel;
  q_cache : option nat;     (* heap address of the cache entry *)
  q_lock : nat;
  q_arch : nat;
  q_tab : nat;
  q_index : nat;
  q_max : option nat;       (* maxIndex; None = -1 *)
  q_tables : list nat;
  q_table : option nat;     (* current table *)
  q_rare : option nat;      (* rare component; None = iterate all archetypes *)
}.
#[export] Instance eta_qobj : Settable _ :=
  settable! Build_qobj <q_filter; q_rels; q_cache; q_lock; q_arch; q_tab; q_index; q_max; q_tables; q_table; q_rare>.

(** User-side observer object. [o_cb]: what its callback does besides observing
    (0 nothing, 1 unregister itself, 2+k unregister observer k). *)
Record oobj := {
  o_event : nat;
  o_for : list nat; o_withl : list nat; o_withoutl : list nat; o_excl : bool;
  o_comps : mask; o_with : mask; o_without : mask;
  o_hascomps : bool; o_haswith : bool; o_haswithout : bool;
  o_id : option nat;
  o_cb : nat;
}.
#[export] Instance eta_oobj : Settable _ :=
  settable! Build_oobj <o_event; o_for; o_withl; o_withoutl; o_excl; o_comps; o_with; o_without;
                        o_hascomps; o_haswith; o_haswithout; o_id; o_cb>.

(** Per-event aggregates of the observer manager. *)
Record agg := { g_has : bool; g_allcomps : mask; g_allwith : mask; g_anynocomps : bool; g_anynowith : bool }.
#[export] Instance eta_agg : Settable _ :=
  settable! Build_agg <g_has; g_allcomps; g_allwith; g_anynocomps; g_anynowith>.
Definition agg0 : agg := {| g_has := false; g_allcomps := 0%N; g_allwith := 0%N; g_anynocomps := false; g_anynowith := false |}.

Record wstate := {
  w_cfg : config;
  w_reg : list ckind;                      (* registered component kinds, by ID *)
  w_pool : pool;
  w_index : list (option nat * nat);       (* storage.entities: table (None = maxTableID), row *)
  w_istarget : list bool;
  w_archs : list arch;
  w_tables : list table;
  w_relarchs : list nat;
  w_compindex : list (list nat);
  w_archcount : list nat;
  w_version : N;
  w_cheap : list centry;                   (* all cache entry objects ever created *)
  w_centries : list nat;                   (* cache.filters: heap addresses *)
  w_cpool : ipool;
  w_lock : lockst;
  w_obs : list oobj;                       (* observer objects *)
  w_olists : list (nat * list nat);        (* observers per event type *)
  w_oagg : list (nat * agg);
  w_opool : ipool;
  w_ototal : nat;
  w_omax : nat;
  w_filters : list fobj;
  w_queries : list qobj;
  w_res : list bool;                       (* resources present, by resource ID *)
  w_issued : list ent;                     (* every handle returned so far (script handles) *)
  w_log : list (list Z);                   (* callback log of the running operation *)
}.
#[export] Instance eta_wstate : Settable _ :=
  settable! Build_wstate <w_cfg; w_reg; w_pool; w_index; w_istarget; w_archs; w_tables; w_relarchs;
    w_compindex; w_archcount; w_version; w_cheap; w_centries; w_cpool; w_lock; w_obs; w_olists; w_oagg;
    w_opool; w_ototal; w_omax; w_filters; w_queries; w_res; w_issued; w_log>.

Definition W := wstate.
Definition MW := M W.

(** ** table.go / column.go *)

Definition tbl_adjust (t : table) (c : nat) : table :=
  t <| t_cap := c |>
    <| t_ents := resize c (t_len t) zero_ent (t_ents t) |>
    <| t_cols := map (resize c (t_len t) 0%Z) (t_cols t) |>.

Definition tbl_extend (t : table) (by_ : nat) : table :=
  let required := t_len t + by_ in
  if Nat.leb required (t_cap t) then t else tbl_adjust t (cap_pow2 required).

Definition tbl_alloc (t : table) (n : nat) : table :=
  let t' := tbl_extend t n in t' <| t_len := t_len t' + n |>.

Definition tbl_add (t : table) (e : ent) : nat * table :=
  let idx := t_len t in
  let t' := tbl_alloc t 1 in
  (idx, t' <| t_ents := upd idx e (t_ents t') |>).

Definition col_set (k : ckind) (dst : list Z) (i : nat) (src : list Z) (j : nat) : list Z :=
  if ck_zs k then dst
  else match nth_error src j with Some v => upd i v dst | None => dst end.

Definition col_zero (k : ckind) (col : list Z) (i : nat) : list Z :=
  if ck_zs k then col else upd i 0%Z col.

Fixpoint map2 {A B C} (f : A -> B -> C) (la : list A) (lb : list B) : list C :=
  match la, lb with
  | a :: ta, b :: tb => f a b :: map2 f ta tb
  | _, _ => []
  end.

(** Remove: swap-remove the row, zero the vacated last row; returns whether a swap happened. *)
Definition tbl_remove (t : table) (index : nat) : bool * table :=
  let last := t_len t - 1 in
  let swapped := negb (Nat.eqb index last) in
  let ents' := if swapped then
                 match nth_error (t_ents t) last with Some e => upd index e (t_ents t) | None => t_ents t end
               else t_ents t in
  let cols' := map2 (fun k col =>
                 let col1 := if swapped then
                               match nth_error col last with Some v => upd index v col | None => col end
                             else col in
                 col_zero k col1 last) (t_kinds t) (t_cols t) in
  (swapped, t <| t_ents := ents' |> <| t_cols := cols' |> <| t_len := last |>).

Fixpoint zero_range (col : list Z) (start n : nat) : list Z :=
  match n with O => col | S n' => zero_range (upd start 0%Z col) (S start) n' end.

Definition col_reset (k : ckind) (col : list Z) (len : nat) : list Z :=
  if Nat.eqb len 0 then col
  else if (Nat.leb len 64 && ck_triv k)%bool then (if ck_zs k then col else zero_range col 0 len)
  else repeat 0%Z (length col).

Definition tbl_reset (t : table) : table :=
  t <| t_cols := map2 (fun k col => col_reset k col (t_len t)) (t_kinds t) (t_cols t) |> <| t_len := 0 |>.

(** AddAll: append the first [count] rows of [src] (entities and all columns). *)
Definition tbl_add_all (dst src : table) (count : nat) : table :=
  let d := tbl_alloc dst count in
  let start := t_len d - count in
  d <| t_ents := copy_into (t_ents d) start (firstn count (t_ents src)) |>
    <| t_cols := map2 (fun dc sc => copy_into dc start (firstn count sc)) (t_cols d) (t_cols src) |>.

Definition tbl_add_all_entities (dst src : table) (count : nat) : table :=
  let d := tbl_alloc dst count in
  let start := t_len d - count in
  d <| t_ents := copy_into (t_ents d) start (firstn count (t_ents src)) |>.

Definition tbl_colidx (t : table) (c : nat) : option nat := index_of c (t_ids t).

Definition tbl_target (t : table) (c : nat) : option ent :=
  match tbl_colidx t c with Some i => nth_error (t_targets t) i | None => None end.

Definition tbl_has_rels (t : table) : bool := match t_rels t with [] => false | _ => true end.

(** Matches (as repaired): a relation on a component the table lacks is "no match" (it used to be a
    nil dereference, modelled as [None]; the result type is kept, [None] no longer occurs). *)
Fixpoint rels_match (t : table) (rels : list rel) : option bool :=
  match rels with
  | [] => Some true
  | (c, tg) :: rest =>
      match tbl_target t c with
      | None => Some false
      | Some x => if ent_eqb tg x then rels_match t rest else Some false
      end
  end.
Definition tbl_matches (t : table) (rels : list rel) : option bool :=
  match rels with
  | [] => Some true
  | _ => if tbl_has_rels t then rels_match t rels else Some true
  end.

Inductive mres := MTrue | MFalse | MPanic (e : err).

Fixpoint rels_match_exact (t : table) (rels : list rel) : mres :=
  match rels with
  | [] => MTrue
  | (c, tg) :: rest =>
      match tbl_colidx t c with
      | None => rels_match_exact t rest
      | Some i =>
          match nth_error (t_kinds t) i, nth_error (t_targets t) i with
          | Some k, Some x =>
              if negb (ck_rel k) then MPanic ENotRelation
              else if ent_eqb tg x then rels_match_exact t rest else MFalse
          | _, _ => MPanic EIndex
          end
      end
  end.
Definition tbl_matches_exact (t : table) (rels : list rel) : mres :=
  if Nat.ltb (length rels) (length (t_rels t)) then MPanic ERelUnspec else rels_match_exact t rels.

(** ** archetype.go: tableIDs *)

Definition tids_remove (id : nat) (l : list nat) : list nat :=
  match index_of id l with
  | None => l
  | Some i =>
      let last := length l - 1 in
      let l' := if Nat.eqb i last then l
                else match nth_error l last with Some x => upd i x l | None => l end in
      firstn last l'
  end.

(** ** Accessors in the monad *)

Definition getT (i : nat) : MW table := s <- get ;; of_opt (nth_error (w_tables s) i) EIndex.
Definition modT (i : nat) (f : table -> table) : MW unit := modify (fun s => s <| w_tables ::= updf i f |>).
Definition setT (i : nat) (t : table) : MW unit := modT i (fun _ => t).
Definition getA (i : nat) : MW arch := s <- get ;; of_opt (nth_error (w_archs s) i) EIndex.
Definition modA (i : nat) (f : arch -> arch) : MW unit := modify (fun s => s <| w_archs ::= updf i f |>).

Definition whenM (b : bool) (m : MW unit) : MW unit := if b then m else ret tt.

(** Run [m]; if it fails, apply [h] to the state at the failure. *)
Definition on_err {A} (m : MW A) (h : W -> W) : MW A :=
  fun s => match m s with Ok a s' => Ok a s' | Err e s' => Err e (h s') end.

Definition is_locked (s : W) : bool := lock_is_locked (w_lock s).
Definition check_locked : MW unit := s <- get ;; guard (negb (is_locked s)) ELocked.
Definition lockM : MW nat :=
  s <- get ;;
  match lock_lock (w_lock s) with
  | Some (b, l') => put (s <| w_lock := l' |>) ;;; ret b
  | None => fail EBits
  end.
Definition unlockM (b : nat) : MW unit :=
  s <- get ;;
  match lock_unlock (w_lock s) b with
  | Some l' => put (s <| w_lock := l' |>)
  | None => fail EUnbalanced
  end.

(** [defer w.unlock(lock)]: if the body panics, the lock bit is released while unwinding. *)
Definition release_bit (b : nat) (s : W) : W :=
  match lock_unlock (w_lock s) b with Some l' => s <| w_lock := l' |> | None => s end.
Definition with_deferred_unlock {A} (b : nat) (m : MW A) : MW A := on_err m (release_bit b).

Definition alive (s : W) (e : ent) : bool := pool_alive (w_pool s) e.
Definition is_rel_comp (s : W) (c : nat) : bool :=
  match nth_error (w_reg s) c with Some k => ck_rel k | None => false end.

(** ** Archetype operations *)

Definition arch_has_rels (a : arch) : bool := negb (Nat.eqb (a_numrel a) 0).

(** GetTable: the table matching the relations exactly (all must be given). *)
Fixpoint find_exact (s : W) (tabs : list nat) (rels : list rel) : res W (option nat) :=
  match tabs with
  | [] => Ok None s
  | t :: rest =>
      match nth_error (w_tables s) t with
      | None => Err EIndex s
      | Some tb =>
          match tbl_matches_exact tb rels with
          | MTrue => Ok (Some t) s
          | MFalse => find_exact s rest rels
          | MPanic e => Err e s
          end
      end
  end.

(** checkRelationsDistinct: no relation component is named twice (a duplicate would let the count
    check below accept a list that omits another relation). *)
Fixpoint rels_distinct (rels : list rel) : bool :=
  match rels with
  | [] => true
  | r :: rest => negb (memb (fst r) (map fst rest)) && rels_distinct rest
  end.

Definition arch_get_table (a : arch) (rels : list rel) : MW (option nat) :=
  match a_tables a with
  | [] => ret None
  | t0 :: _ =>
      if negb (arch_has_rels a) then ret (Some t0)
      else
        guard (negb (Nat.ltb (length rels) (a_numrel a))) ERelUnspec ;;;
        guard (rels_distinct rels) ERelUnspec ;;;
        match rels with
        | [] => fail EIndex
        | (c, tg) :: _ =>
            idx <- of_opt (index_of c (a_comps a)) EIndex ;;
            m <- of_opt (nth_error (a_reltabs a) idx) EIndex ;;
            match afind (fst tg) m with
            | None => ret None
            | Some tabs => fun s => find_exact s tabs rels
            end
        end
  end.

(** GetTables: candidates for a (partial) relation list: all tables, or those of the first relation's target. *)
Definition arch_get_tables (a : arch) (rels : list rel) : option (list nat) :=
  match rels with
  | [] => Some (a_tables a)
  | (c, tg) :: _ =>
      if negb (arch_has_rels a) then Some (a_tables a)
      else match index_of c (a_comps a) with
           | None => Some []                         (* as repaired: the archetype lacks the component, no table matches *)
           | Some idx =>
               match nth_error (a_reltabs a) idx with
               | None => None
               | Some m => match afind (fst tg) m with Some tabs => Some tabs | None => Some [] end
               end
           end
  end.

Definition aappend (k : nat) (t : nat) (m : list (nat * list nat)) : list (nat * list nat) :=
  match afind k m with
  | Some l => aset k (l ++ [t]) m
  | None => m ++ [(k, [t])]
  end.
Definition aappend_new (k : nat) (t : nat) (m : list (nat * list nat)) : list (nat * list nat) :=
  match afind k m with
  | Some l => if memb t l then m else aset k (l ++ [t]) m
  | None => m ++ [(k, [t])]
  end.

(** AddTable *)
Fixpoint add_table_cols (tid : nat) (i : nat) (kinds : list ckind) (targets : list ent) (a : arch) : arch :=
  match kinds, targets with
  | k :: ks, tg :: tgs =>
      let a' := if ck_rel k
                then a <| a_reltabs ::= updf i (aappend (fst tg) tid) |>
                       <| a_tgttabs ::= aappend_new (fst tg) tid |>
                else a in
      add_table_cols tid (S i) ks tgs a'
  | _, _ => a
  end.
Definition arch_add_table (a : arch) (tid : nat) (t : table) : arch :=
  let a1 := a <| a_tables ::= fun l => l ++ [tid] |> in
  if negb (arch_has_rels a) then a1
  else add_table_cols tid 0 (t_kinds t) (t_targets t) a1.

(** FreeTable (archetype part; the table's isFree flag is set by the caller). *)
Definition arch_free_table (a : arch) (tid : nat) : arch :=
  let a1 := a <| a_tables ::= tids_remove tid |> <| a_free ::= fun l => l ++ [tid] |> in
  if Nat.leb (a_numrel a) 1 then a1
  else a1 <| a_reltabs ::= map (amap_vals (tids_remove tid)) |>
          <| a_tgttabs ::= amap_vals (tids_remove tid) |>.

(** removeFromTargets (used by Shrink): drop the table from the lookups of its own targets. *)
Fixpoint remove_from_targets_cols (tid : nat) (i : nat) (kinds : list ckind) (targets : list ent) (a : arch) : arch :=
  match kinds, targets with
  | k :: ks, tg :: tgs =>
      let a' := if ck_rel k
                then a <| a_reltabs ::= updf i (fun m => match afind (fst tg) m with
                                                           | Some l => aset (fst tg) (tids_remove tid l) m
                                                           | None => m end) |>
                       <| a_tgttabs ::= fun m => match afind (fst tg) m with
                                                  | Some l => aset (fst tg) (tids_remove tid l) m
                                                  | None => m end |>
                else a in
      remove_from_targets_cols tid (S i) ks tgs a'
  | _, _ => a
  end.

Definition arch_remove_target (a : arch) (id : nat) : arch :=
  a <| a_reltabs ::= map2 (fun (r : bool) m => if r then adel id m else m) (a_isrel a) |>
    <| a_tgttabs ::= adel id |>.

(** ** cache.go *)

Definition filter_matches (f : fobj) (m : mask) : bool :=
  (mk_contains m (f_mask f) && (negb (f_haswithout f) || negb (mk_contains_any m (f_without f))))%bool.

Definition cache_add_table (tid : nat) (t : table) (am : mask) : MW unit :=
  s <- get ;;
  forM_ (w_centries s) (fun addr =>
    s <- get ;;
    match nth_error (w_cheap s) addr with
    | None => fail EIndex
    | Some e =>
        match nth_error (w_filters s) (ce_filter e) with
        | None => fail EIndex
        | Some f =>
            if negb (filter_matches f am) then ret tt
            else
              mt <- (if tbl_has_rels t then of_opt (tbl_matches t (ce_rels e)) ENil else ret true) ;;
              whenM mt (modify (fun s => s <| w_cheap ::= updf addr (fun e => e <| ce_tables ::= fun l => l ++ [tid] |>) |>))
        end
    end).

Definition cache_remove_table (tid : nat) : MW unit :=
  s <- get ;;
  forM_ (w_centries s) (fun addr =>
    modify (fun s => s <| w_cheap ::= updf addr (fun e => e <| ce_tables ::= tids_remove tid |>) |>)).

(** ** storage.go: archetype and table creation *)

Definition find_arch (s : W) (m : mask) : option nat :=
  (fix go (l : list arch) (i : nat) : option nat :=
     match l with
     | [] => None
     | a :: t => if N.eqb (a_mask a) m then Some i else go t (S i)
     end) (w_archs s) 0.

Definition kind_of (s : W) (c : nat) : ckind :=
  match nth_error (w_reg s) c with Some k => k | None => {| ck_rel := false; ck_zs := false; ck_triv := true |} end.

(** The archetype record itself (storage.createArchetype up to the table). *)
Definition create_archetype_bare (m : mask) : MW nat :=
  s <- get ;;
  let comps := mk_to_list m (length (w_reg s)) in
  let index := length (w_archs s) in
  let isrel := map (fun c => ck_rel (kind_of s c)) comps in
  let numrel := length (filter (fun b : bool => b) isrel) in
  let a := {| a_mask := m; a_comps := comps; a_isrel := isrel; a_tables := []; a_free := [];
              a_reltabs := map (fun _ => []) comps; a_tgttabs := []; a_numrel := numrel |} in
  put (s <| w_archs ::= fun l => l ++ [a] |>
         <| w_compindex ::= fun ci => fold_left (fun ci c => updf c (fun l => l ++ [index]) ci) comps ci |>
         <| w_archcount ::= fun ac => fold_left (fun ac c => updf c S ac) comps ac |>
         <| w_version ::= fun v => N.modulo (v + N.of_nat (length comps)) 4294967296 |>
         <| w_relarchs ::= fun l => if Nat.eqb numrel 0 then l else l ++ [index] |>) ;;;
  ret index.

Definition new_table (aid : nat) (a : arch) (kinds : list ckind) (cap : nat) (targets : list ent) (rels : list rel) : table :=
  {| t_arch := aid; t_ids := a_comps a; t_kinds := kinds; t_len := 0; t_cap := cap; t_free := false;
     t_ents := repeat zero_ent cap; t_cols := map (fun _ => repeat 0%Z cap) (a_comps a);
     t_targets := targets; t_rels := rels |}.

(** createTable: may recycle a free table; checks relation components and targets. *)
Fixpoint place_targets (a : arch) (rels : list rel) (targets : list ent) : option (list ent) :=
  match rels with
  | [] => Some targets
  | (c, tg) :: rest =>
      match index_of c (a_comps a) with
      | None => None
      | Some idx => place_targets a rest (upd idx tg targets)
      end
  end.

Definition register_targets (rels : list rel) : MW unit :=
  forM_ rels (fun r => s <- get ;;
    guard (Nat.ltb (fst (snd r)) (length (w_istarget s))) EIndex ;;;
    modify (fun s => s <| w_istarget ::= upd (fst (snd r)) true |>)).

Definition check_rel (r : rel) : MW unit :=
  s <- get ;;
  guard (is_rel_comp s (fst r)) ENotRelation ;;;
  guard (Nat.eqb (fst (snd r)) 0 || alive s (snd r))%bool EDeadTarget.

Definition create_table (aid : nat) (rels : list rel) : MW nat :=
  a <- getA aid ;;
  guard (negb (Nat.ltb (length rels) (a_numrel a))) ERelUnspec ;;;
  guard (rels_distinct rels) ERelUnspec ;;;
  targets <- of_opt (place_targets a rels (repeat zero_ent (length (a_comps a)))) EIndex ;;
  forM_ rels check_rel ;;;
  register_targets rels ;;;      (* targets are registered together with their table *)
  s <- get ;;
  tid <- (match rev (a_free a) with
          | f :: _ =>
              modA aid (fun a => a <| a_free ::= fun l => firstn (length l - 1) l |>) ;;;
              modT f (fun t => t <| t_rels := rels |> <| t_targets := targets |> <| t_free := false |>) ;;;
              ret f
          | [] =>
              let tid := length (w_tables s) in
              let cap := if arch_has_rels a then cf_caprel (w_cfg s) else cf_cap (w_cfg s) in
              let kinds := map (kind_of s) (a_comps a) in
              modify (fun s => s <| w_tables ::= fun l => l ++ [new_table aid a kinds cap targets rels] |>) ;;;
              ret tid
          end) ;;
  t <- getT tid ;;
  modA aid (fun a => arch_add_table a tid t) ;;;
  cache_add_table tid t (a_mask a) ;;;
  ret tid.

(** createArchetype (as repaired): an archetype without relation components gets its single table
    together with the archetype, so that no archetype without table is left behind when the calling
    operation is rejected afterwards. *)
Definition create_archetype (m : mask) : MW nat :=
  aid <- create_archetype_bare m ;;
  a <- getA aid ;;
  (if Nat.eqb (a_numrel a) 0 then (_ <- create_table aid [] ;; ret tt) else ret tt) ;;;
  ret aid.

Definition find_or_create_arch (m : mask) : MW nat :=
  s <- get ;;
  match find_arch s m with
  | Some i => ret i
  | None => create_archetype m
  end.

Definition get_or_create_table (aid : nat) (rels : list rel) : MW nat :=
  a <- getA aid ;;
  ot <- arch_get_table a rels ;;
  match ot with
  | Some t => ret t
  | None => create_table aid rels
  end.

(** graph.go: the checks performed while walking from the start mask. *)
Fixpoint gf_remove (ids : list nat) (m : mask) : MW mask :=
  match ids with
  | [] => ret m
  | c :: t => if mk_get m c then gf_remove t (mk_clear m c) else fail EMissingComp
  end.
Fixpoint gf_add (start : option mask) (ids : list nat) (m : mask) : MW mask :=
  match ids with
  | [] => ret m
  | c :: t =>
      if mk_get m c then fail EHasComp
      else if (match start with Some st => mk_get st c | None => false end) then fail EMisuse
      else gf_add start t (mk_set m c)
  end.

Definition surviving_rels (a : arch) (old : list rel) : list rel * bool :=
  (filter (fun r : rel => mk_get (a_mask a) (fst r)) old,
   existsb (fun r : rel => negb (mk_get (a_mask a) (fst r))) old).

(** findOrCreateTableAdd: returns (table, archetype). *)
Definition find_or_create_table_add (old : nat) (add : list nat) (rels : list rel) (m0 : mask) : MW (nat * nat * mask) :=
  m <- gf_add None add m0 ;;
  aid <- find_or_create_arch m ;;
  ot <- getT old ;;
  let all := match rels with [] => t_rels ot | _ => t_rels ot ++ rels end in
  tid <- get_or_create_table aid all ;;
  ret (tid, aid, m).

Definition find_or_create_table_remove (old : nat) (rem : list nat) (m0 : mask) : MW (nat * nat * mask * bool) :=
  m <- gf_remove rem m0 ;;
  aid <- find_or_create_arch m ;;
  a <- getA aid ;;
  ot <- getT old ;;
  let '(all, removed) := surviving_rels a (t_rels ot) in
  tid <- get_or_create_table aid all ;;
  ret (tid, aid, m, removed).

Definition find_or_create_table (old : nat) (add rem : list nat) (rels : list rel) (m0 : mask) : MW (nat * nat * mask * bool) :=
  m1 <- gf_remove rem m0 ;;
  m <- gf_add (Some m0) add m1 ;;
  aid <- find_or_create_arch m ;;
  a <- getA aid ;;
  ot <- getT old ;;
  let '(all, removed) :=
    match rem with
    | [] => (match rels with [] => t_rels ot | _ => t_rels ot ++ rels end, false)
    | _ => let '(sv, rm) := surviving_rels a (t_rels ot) in (sv ++ rels, rm)
    end in
  tid <- get_or_create_table aid all ;;
  ret (tid, aid, m, removed).

(** ** Entity index helpers *)

Definition set_index (id : nat) (v : option nat * nat) : MW unit :=
  modify (fun s =>
    if Nat.eqb id (length (w_index s))
    then s <| w_index ::= fun l => l ++ [v] |> <| w_istarget ::= fun l => l ++ [false] |>
    else s <| w_index ::= upd id v |>).

Definition get_index (e : ent) : MW (nat * nat) :=
  s <- get ;;
  match nth_error (w_index s) (fst e) with
  | Some (Some t, r) => ret (t, r)
  | Some (None, _) => fail EIndex     (* maxTableID: tables[maxTableID] is out of range *)
  | None => fail EIndex
  end.

Definition pool_getM : MW ent :=
  s <- get ;;
  let '(e, p') := pool_get (w_pool s) in
  put (s <| w_pool := p' |>) ;;; ret e.

Definition pool_recycleM (e : ent) : MW unit :=
  s <- get ;;
  match pool_recycle (w_pool s) e with
  | Some p' => put (s <| w_pool := p' |>)
  | None => fail EReserved
  end.

Definition tbl_addM (tid : nat) (e : ent) : MW nat :=
  t <- getT tid ;;
  let '(idx, t') := tbl_add t e in
  setT tid t' ;;; ret idx.

(** Swap-remove row [row] of table [tid] and fix the index of the entity that was moved into it. *)
Definition remove_row (tid row : nat) : MW unit :=
  t <- getT tid ;;
  let '(swapped, t') := tbl_remove t row in
  setT tid t' ;;;
  whenM swapped (
    match nth_error (t_ents t') row with
    | Some se => modify (fun s => s <| w_index ::= updf (fst se) (fun ix => (fst ix, row)) |>)
    | None => fail EIndex
    end).

(** Copy the surviving components of row [row] of [old] into row [nidx] of [new]
    (loop over the old archetype's components, guarded by the new mask). *)
Definition copy_row (old new : nat) (m : mask) (row nidx : nat) : MW unit :=
  ot <- getT old ;;
  forM_ (t_ids ot) (fun c =>
    if mk_get m c then
      ot <- getT old ;; nt <- getT new ;;
      match tbl_colidx ot c, tbl_colidx nt c with
      | Some oi, Some ni =>
          match nth_error (t_cols ot) oi, nth_error (t_kinds nt) ni with
          | Some src, Some k => modT new (fun t => t <| t_cols ::= updf ni (fun dst => col_set k dst nidx src row) |>)
          | _, _ => fail EIndex
          end
      | _, _ => fail ENil
      end
    else ret tt).

(** moveEntities: append all rows of [src] to [dst], rewrite the index, reset [src]. *)
Definition move_entities (src dst count : nat) : MW unit :=
  st <- getT src ;; dt <- getT dst ;;
  let old_len := t_len dt in
  let dt' := tbl_add_all dt st count in
  setT dst dt' ;;;
  forM_ (seq old_len (t_len dt' - old_len)) (fun i =>
    match nth_error (t_ents dt') i with
    | Some e => modify (fun s => s <| w_index ::= upd (fst e) (Some dst, i) |>)
    | None => fail EIndex
    end) ;;;
  modT src tbl_reset.

(** getExchangeTargetsUnchecked *)
Definition exchange_targets_unchecked (t : table) (rels : list rel) : MW (list rel) :=
  targets <- (fix go (rels : list rel) (tg : list ent) : MW (list ent) :=
                match rels with
                | [] => ret tg
                | (c, x) :: rest =>
                    match tbl_colidx t c with
                    | Some i => go rest (upd i x tg)
                    | None => fail ENil
                    end
                end) rels (t_targets t) ;;
  ret (map (fun p => (fst (fst p), snd p))
           (filter (fun p => ck_rel (snd (fst p))) (combine (combine (t_ids t) (t_kinds t)) targets))).

(** getExchangeTargets: checked variant; also returns the mask of changed relation components. *)
Definition exchange_targets (t : table) (rels : list rel) : MW (option (list rel * mask)) :=
  guard (rels_distinct rels) ERelUnspec ;;;      (* checkRelationsDistinct *)
  r <- (fix go (rels : list rel) (tg : list ent) (cm : mask) (changed : bool) : MW (list ent * mask * bool) :=
          match rels with
          | [] => ret (tg, cm, changed)
          | (c, x) :: rest =>
              match tbl_colidx t c with
              | None => fail EMissingComp
              | Some i =>
                  if negb (ck_rel (nth i (t_kinds t) (Build_ckind false false true))) then fail ENotRelation
                  else
                  match nth_error tg i with
                  | None => fail EIndex
                  | Some cur => if ent_eqb x cur then go rest tg cm changed
                                else go rest (upd i x tg) (mk_set cm c) true
                  end
              end
          end) rels (t_targets t) 0%N false ;;
  let '(targets, cm, changed) := r in
  if negb changed then ret None
  else ret (Some (map (fun p => (fst (fst p), snd p))
                      (filter (fun p => ck_rel (snd (fst p))) (combine (combine (t_ids t) (t_kinds t)) targets)), cm)).

(** ** events.go: observer manager *)

Definition EvCreateEntity := 249.
Definition EvRemoveEntity := 250.
Definition EvAddComponents := 251.
Definition EvRemoveComponents := 252.
Definition EvSetComponents := 253.
Definition EvAddRelations := 254.
Definition EvRemoveRelations := 255.

Definition is_entity_event (e : nat) : bool := (Nat.eqb e EvCreateEntity || Nat.eqb e EvRemoveEntity)%bool.
Definition is_relation_event (e : nat) : bool := (Nat.eqb e EvAddRelations || Nat.eqb e EvRemoveRelations)%bool.

Definition get_agg (s : W) (evt : nat) : agg := match afind evt (w_oagg s) with Some g => g | None => agg0 end.
Definition olist (s : W) (evt : nat) : list nat := match afind evt (w_olists s) with Some l => l | None => [] end.
Definition has_obs (s : W) (evt : nat) : bool := g_has (get_agg s evt).
Definition mod_agg (evt : nat) (f : agg -> agg) : MW unit :=
  modify (fun s => s <| w_oagg ::= aset evt (f (get_agg s evt)) |>).
Definition getO (oi : nat) : MW oobj := s <- get ;; of_opt (nth_error (w_obs s) oi) EIndex.
Definition modO (oi : nat) (f : oobj -> oobj) : MW unit := modify (fun s => s <| w_obs ::= updf oi f |>).

Definition add_observer (oi : nat) : MW unit :=
  o <- getO oi ;;
  guard (match o_id o with None => true | Some _ => false end) ERegistered ;;;
  s <- get ;;
  match ipool_get None (w_opool s) with
  | None => fail EIndex
  | Some (id, p') =>
      put (s <| w_opool := p' |>) ;;;
      modO oi (fun o => o <| o_id := Some id |> <| o_hascomps := false |> <| o_haswith := false |> <| o_haswithout := false |>) ;;;
      (if is_relation_event (o_event o) then
         forM_ (o_for o) (fun c =>
           s <- get ;; guard (is_rel_comp s c) ENotRelation ;;;
           modO oi (fun o => o <| o_comps ::= fun m => mk_set m c |> <| o_hascomps := true |>))
       else if is_entity_event (o_event o) then
         forM_ (o_for o) (fun c => modO oi (fun o => o <| o_with ::= fun m => mk_set m c |> <| o_haswith := true |>))
       else
         forM_ (o_for o) (fun c => modO oi (fun o => o <| o_comps ::= fun m => mk_set m c |> <| o_hascomps := true |>))) ;;;
      forM_ (o_withl o) (fun c => modO oi (fun o => o <| o_with ::= fun m => mk_set m c |> <| o_haswith := true |>)) ;;;
      s <- get ;;
      (if o_excl o then
         modO oi (fun o => o <| o_without := mk_not (cf_bits (w_cfg s)) (o_with o) |> <| o_haswithout := true |>)
       else
         forM_ (o_withoutl o) (fun c => modO oi (fun o => o <| o_without ::= fun m => mk_set m c |> <| o_haswithout := true |>))) ;;;
      o <- getO oi ;;
      let evt := o_event o in
      modify (fun s => s <| w_olists ::= aset evt (olist s evt ++ [oi]) |>
                         <| w_omax ::= fun m => Nat.max m evt |>
                         <| w_ototal ::= S |>) ;;;
      mod_agg evt (fun g => g <| g_has := true |>) ;;;
      (if o_haswith o then mod_agg evt (fun g => g <| g_allwith ::= fun m => mk_or m (o_with o) |>)
       else mod_agg evt (fun g => g <| g_anynowith := true |>)) ;;;
      if is_entity_event evt then ret tt
      else if o_hascomps o then mod_agg evt (fun g => g <| g_allcomps ::= fun m => mk_or m (o_comps o) |>)
      else mod_agg evt (fun g => g <| g_anynocomps := true |>)
  end.

(** The aggregate recomputation of RemoveObserver, including its early [break]. *)
Fixpoint recompute_with (objs : list oobj) (acc : mask) : mask * bool :=
  match objs with
  | [] => (acc, false)
  | o :: t => if negb (o_haswith o) then (acc, true) else recompute_with t (mk_or acc (o_with o))
  end.
Fixpoint recompute_comps (objs : list oobj) (acc : mask) : mask * bool :=
  match objs with
  | [] => (acc, false)
  | o :: t => if negb (o_hascomps o) then (acc, true) else recompute_comps t (mk_or acc (o_comps o))
  end.

Definition objs_of (s : W) (l : list nat) : list oobj :=
  flat_map (fun oi => match nth_error (w_obs s) oi with Some o => [o] | None => [] end) l.

Definition remove_observer (oi : nat) : MW unit :=
  o <- getO oi ;;
  guard (match o_id o with None => false | Some _ => true end) ERegistered ;;;
  s <- get ;;
  let evt := o_event o in
  let l := olist s evt in
  idx <- of_opt (index_of oi l) EMisuse ;;
  modO oi (fun o => o <| o_id := None |>) ;;;
  let last := length l - 1 in
  let l1 := if Nat.eqb idx last then l else match nth_error l last with Some x => upd idx x l | None => l end in
  let l' := firstn last l1 in
  modify (fun s => s <| w_olists ::= aset evt l' |> <| w_ototal ::= fun n => n - 1 |>) ;;;
  mod_agg evt (fun g => g <| g_has := Nat.ltb 0 last |>) ;;;
  s <- get ;;
  let objs := objs_of s l' in
  let '(aw, nw) := recompute_with objs 0%N in
  mod_agg evt (fun g => g <| g_allwith := aw |> <| g_anynowith := nw |>) ;;;
  if is_entity_event evt then ret tt
  else
    let '(ac, nc) := recompute_comps objs 0%N in
    mod_agg evt (fun g => g <| g_allcomps := ac |> <| g_anynocomps := nc |>).

Definition reset_observers : MW unit :=
  s <- get ;;
  if Nat.eqb (w_ototal s) 0 then put (s <| w_omax := 0 |>)
  else
    forM_ (seq 0 (S (w_omax s))) (fun evt =>
      s <- get ;;
      if negb (has_obs s evt) then ret tt
      else
        forM_ (olist s evt) (fun oi => modO oi (fun o => o <| o_id := None |>)) ;;;
        modify (fun s => s <| w_olists ::= aset evt [] |>) ;;;
        mod_agg evt (fun _ => agg0)) ;;;
    modify (fun s => s <| w_opool := ipool_new |> <| w_ototal := 0 |> <| w_omax := 0 |>).

(** *** What a callback observes (the harness installs exactly this callback on every observer):
    IsLocked, Alive(e), how often [e] shows up in a full Filter0 query (which locks and unlocks),
    and e's components / values / relation targets. Then the observer's action. *)

Definition count_rows (e : ent) (t : table) : nat :=
  length (filter (ent_eqb e) (firstn (t_len t) (t_ents t))).

Definition count_in_world (s : W) (e : ent) : nat :=
  fold_left (fun acc a =>
    fold_left (fun acc tid => match nth_error (w_tables s) tid with
                               | Some t => acc + count_rows e t | None => acc end) (a_tables a) acc)
    (w_archs s) 0.

Definition Zn (n : nat) : Z := Z.of_nat n.
Definition Zb (b : bool) : Z := if b then 1%Z else 0%Z.
Definition Zent (e : ent) : list Z := [Zn (fst e); Z.of_N (snd e)].

(** [c; value; target id; target gen] per component, ascending component order of the table. *)
Definition snapshot_row (t : table) (row : nat) : list Z :=
  flat_map (fun p : nat * (list Z * ent) =>
              let '(c, (col, tg)) := p in
              [Zn c; nth row col 0%Z] ++ Zent tg)
           (combine (t_ids t) (combine (t_cols t) (t_targets t))).

Definition snapshot_entity (s : W) (e : ent) : option (list Z) :=
  match nth_error (w_index s) (fst e) with
  | Some (Some tid, row) =>
      match nth_error (w_tables s) tid with
      | Some t => Some (Zn (length (t_ids t)) :: snapshot_row t row)
      | None => None
      end
  | _ => None
  end.

(** The whole world as a callback sees it through a full Filter0 query: every listed row in iteration order
    (archetypes, their active tables, rows), as entity followed by its snapshot. With it the log shows whether
    OTHER entities - in particular other members of a running batch - are already changed when a callback runs. *)
Definition world_view (s : W) : list Z :=
  flat_map (fun a =>
    flat_map (fun tid =>
      match nth_error (w_tables s) tid with
      | Some t => flat_map (fun row => Zent (nth row (t_ents t) zero_ent) ++ (Zn (length (t_ids t)) :: snapshot_row t row))
                           (seq 0 (t_len t))
      | None => []
      end) (a_tables a)) (w_archs s).

Definition log (l : list Z) : MW unit := modify (fun s => s <| w_log ::= fun lg => lg ++ [l] |>).

Definition run_callback (oi : nat) (e : ent) : MW unit :=
  s <- get ;;
  let locked := is_locked s in
  let al := alive s e in
  b <- lockM ;;
  s1 <- get ;;
  let cnt := count_in_world s1 e in
  unlockM b ;;;
  snap <- (if al then of_opt (snapshot_entity s e) EIndex else ret []) ;;
  log ([100%Z; Zn oi] ++ Zent e ++ [Zb locked; Zb al; Zn cnt] ++ snap ++ world_view s1) ;;;
  o <- getO oi ;;
  match o_cb o with
  | 0 => ret tt
  | 1 => s <- get ;; whenM (memb oi (olist s (o_event o))) (remove_observer oi)
  | S (S k) =>
      s <- get ;;
      match nth_error (w_obs s) k with
      | Some ok => whenM (memb k (olist s (o_event ok))) (remove_observer k)
      | None => ret tt
      end
  end.

(** Generic dispatch: aggregate early-out, then the per-observer predicate over a snapshot
    of the event's observer list (RemoveObserver builds a new list, so the running loop
    keeps iterating the old one). Returns whether any observer fired. *)
Fixpoint fire_loop (cb : nat -> ent -> MW unit) (pred : oobj -> bool) (e : ent) (l : list nat) (found : bool) : MW bool :=
  match l with
  | [] => ret found
  | oi :: rest =>
      o <- getO oi ;;
      if pred o then cb oi e ;;; fire_loop cb pred e rest true else fire_loop cb pred e rest found
  end.

Definition fire_with (cb : nat -> ent -> MW unit) (evt : nat) (early : agg -> bool) (pred : oobj -> bool)
           (e : ent) (early_out : bool) : MW bool :=
  s <- get ;;
  if (early_out && early (get_agg s evt))%bool then ret false
  else fire_loop cb pred e (olist s evt) false.

Definition fire := fire_with run_callback.

Definition p_with (m : mask) (o : oobj) : bool :=
  (negb (o_haswith o && negb (mk_contains m (o_with o))) &&
   negb (o_haswithout o && mk_contains_any m (o_without o)))%bool.

Definition early_with (m : mask) (g : agg) : bool :=
  (negb (g_anynowith g) && negb (mk_contains_any (g_allwith g) m))%bool.
Definition early_comps (m : mask) (g : agg) : bool :=
  (negb (g_anynocomps g) && negb (mk_contains_any (g_allcomps g) m))%bool.

Definition fire_create_entity (e : ent) (m : mask) (eo : bool) : MW bool :=
  fire EvCreateEntity (early_with m) (p_with m) e eo.
Definition fire_remove_entity (e : ent) (m : mask) (eo : bool) : MW bool :=
  fire EvRemoveEntity (early_with m) (p_with m) e eo.
Definition p_entity_rel (m : mask) (o : oobj) : bool :=
  (negb (o_hascomps o && negb (mk_contains m (o_comps o))) && p_with m o)%bool.
Definition fire_create_entity_rel (e : ent) (m : mask) (eo : bool) : MW bool :=
  fire EvAddRelations (fun g => (early_comps m g || early_with m g)%bool) (p_entity_rel m) e eo.
Definition fire_remove_entity_rel (e : ent) (m : mask) (eo : bool) : MW bool :=
  fire EvRemoveRelations (fun g => (early_comps m g || early_with m g)%bool) (p_entity_rel m) e eo.

Definition p_add (old new : mask) (o : oobj) : bool :=
  (negb (o_hascomps o && (negb (mk_contains new (o_comps o)) || mk_contains_any old (o_comps o))) &&
   p_with old o)%bool.
Definition early_add (old new : mask) (g : agg) : bool :=
  ((negb (g_anynocomps g) && (negb (mk_contains_any (g_allcomps g) new) || mk_contains old (g_allcomps g))) ||
   early_with old g)%bool.
Definition fire_add (evt : nat) (e : ent) (old new : mask) (eo : bool) : MW bool :=
  fire evt (early_add old new) (p_add old new) e eo.

Definition p_remove (old new : mask) (o : oobj) : bool :=
  (negb (o_hascomps o && (negb (mk_contains old (o_comps o)) || mk_contains_any new (o_comps o))) &&
   p_with old o)%bool.
Definition early_remove (old new : mask) (g : agg) : bool :=
  ((negb (g_anynocomps g) && (negb (mk_contains_any (g_allcomps g) old) || mk_contains new (g_allcomps g))) ||
   early_with old g)%bool.
Definition fire_remove (evt : nat) (e : ent) (old new : mask) (eo : bool) : MW bool :=
  fire evt (early_remove old new) (p_remove old new) e eo.

(** FireSet / FireSetRelations / FireCustom share one shape: [cm] = changed (or event) components,
    [em] = the entity's mask. *)
Definition p_set (cm em : mask) (o : oobj) : bool :=
  (negb (o_hascomps o && negb (mk_contains cm (o_comps o))) && p_with em o)%bool.
Definition early_set (cm em : mask) (g : agg) : bool := (early_comps cm g || early_with em g)%bool.
Definition fire_set (evt : nat) (e : ent) (cm em : mask) (eo : bool) : MW bool :=
  fire evt (early_set cm em) (p_set cm em) e eo.

Definition fire_create_entity_if_has (e : ent) (m : mask) : MW unit :=
  s <- get ;; if has_obs s EvCreateEntity then (_ <- fire_create_entity e m true ;; ret tt) else ret tt.
Definition fire_create_entity_rel_if_has (e : ent) (m : mask) : MW unit :=
  s <- get ;; if has_obs s EvAddRelations then (_ <- fire_create_entity_rel e m true ;; ret tt) else ret tt.
Definition fire_add_if_has (evt : nat) (e : ent) (old new : mask) : MW unit :=
  s <- get ;; if has_obs s evt then (_ <- fire_add evt e old new true ;; ret tt) else ret tt.

(** The batch idiom: early-out on the first row only; stop if the first row fired nothing. *)
Fixpoint fire_rows (f : ent -> bool -> MW bool) (es : list ent) (eo : bool) : MW unit :=
  match es with
  | [] => ret tt
  | e :: rest => found <- f e eo ;; if found then fire_rows f rest false else ret tt
  end.

(** ** world_internal.go / world.go / unsafe.go: single-entity operations *)

Definition is_nil {A} (l : list A) : bool := match l with [] => true | _ => false end.

Definition set_index_direct (e : ent) (tid row : nat) : MW unit :=
  modify (fun s => s <| w_index ::= upd (fst e) (Some tid, row) |>).

Definition new_entity (ids : list nat) (rels : list rel) : MW (ent * mask) :=
  check_locked ;;;
  r <- find_or_create_table_add 0 ids rels 0%N ;;
  let '(tid, aid, _) := r in
  e <- pool_getM ;;
  idx <- tbl_addM tid e ;;
  set_index (fst e) (Some tid, idx) ;;;
  register_targets rels ;;;
  a <- getA aid ;;
  ret (e, a_mask a).

(** storage.createEntity *)
Definition create_entity (tid : nat) : MW ent :=
  e <- pool_getM ;;
  idx <- tbl_addM tid e ;;
  set_index (fst e) (Some tid, idx) ;;;
  modify (fun s => s <| w_istarget ::= upd (fst e) false |>) ;;;
  ret e.

(** storage.createEntities *)
Definition create_entities (tid count : nat) : MW unit :=
  t <- getT tid ;;
  let start := t_len t in
  modT tid (fun t => tbl_alloc t count) ;;;
  forM_ (seq start count) (fun index =>
    e <- pool_getM ;;
    modT tid (fun t => t <| t_ents ::= upd index e |>) ;;;
    set_index (fst e) (Some tid, index) ;;;
    modify (fun s => s <| w_istarget ::= upd (fst e) false |>)).

Definition new_entities (count : nat) (ids : list nat) (rels : list rel) : MW (nat * nat) :=
  r <- find_or_create_table_add 0 ids rels 0%N ;;
  let '(tid, _, _) := r in
  t <- getT tid ;;
  let start := t_len t in
  create_entities tid count ;;;
  register_targets rels ;;;
  ret (tid, start).

Definition rows_of (tid start n : nat) : MW (list ent) :=
  t <- getT tid ;; ret (firstn n (skipn start (t_ents t))).

Definition arch_mask_of_table (tid : nat) : MW mask :=
  t <- getT tid ;; a <- getA (t_arch t) ;; ret (a_mask a).

Definition w_add (e : ent) (add : list nat) (rels : list rel) : MW (mask * mask) :=
  check_locked ;;;
  s <- get ;; guard (alive s e) EDead ;;;
  guard (negb (is_nil add)) ENoComps ;;;
  ix <- get_index e ;;
  let '(otid, row) := ix in
  om <- arch_mask_of_table otid ;;
  r <- find_or_create_table_add otid add rels om ;;
  let '(ntid, naid, m) := r in
  nidx <- tbl_addM ntid e ;;
  copy_row otid ntid m row nidx ;;;
  remove_row otid row ;;;
  set_index_direct e ntid nidx ;;;
  register_targets rels ;;;
  na <- getA naid ;;
  ret (om, a_mask na).

Definition fire_remove_events (e : ent) (old new : mask) (rel_removed : bool) : MW unit :=
  s <- get ;;
  let has_comp := has_obs s EvRemoveComponents in
  let has_rel := (rel_removed && has_obs s EvRemoveRelations)%bool in
  whenM (has_comp || has_rel)%bool (
    l <- lockM ;;
    (if has_comp then (_ <- fire_remove EvRemoveComponents e old new true ;; ret tt) else ret tt) ;;;
    (if has_rel then (_ <- fire_remove EvRemoveRelations e old new true ;; ret tt) else ret tt) ;;;
    unlockM l).

Definition w_remove (e : ent) (rem : list nat) : MW unit :=
  check_locked ;;;
  s <- get ;; guard (alive s e) EDead ;;;
  guard (negb (is_nil rem)) ENoComps ;;;
  ix <- get_index e ;;
  let '(otid, row) := ix in
  om <- arch_mask_of_table otid ;;
  r <- find_or_create_table_remove otid rem om ;;
  let '(ntid, _, m, rel_removed) := r in
  fire_remove_events e om m rel_removed ;;;
  nidx <- tbl_addM ntid e ;;
  copy_row otid ntid m row nidx ;;;
  remove_row otid row ;;;
  set_index_direct e ntid nidx.

Definition w_exchange (e : ent) (add rem : list nat) (rels : list rel) : MW (mask * mask) :=
  check_locked ;;;
  s <- get ;; guard (alive s e) EDead ;;;
  guard (negb (is_nil add && is_nil rem)) ENoComps ;;;
  ix <- get_index e ;;
  let '(otid, row) := ix in
  om <- arch_mask_of_table otid ;;
  r <- find_or_create_table otid add rem rels om ;;
  let '(ntid, naid, m, rel_removed) := r in
  whenM (negb (is_nil rem)) (fire_remove_events e om m rel_removed) ;;;
  nidx <- tbl_addM ntid e ;;
  copy_row otid ntid m row nidx ;;;
  remove_row otid row ;;;
  set_index_direct e ntid nidx ;;;
  register_targets rels ;;;
  na <- getA naid ;;
  ret (om, a_mask na).

(** table.CopyAll between two tables of the same layout *)
Definition copy_all (src dst : nat) (row nidx : nat) : MW unit :=
  st <- getT src ;;
  forM_ (seq 0 (length (t_cols st))) (fun i =>
    st <- getT src ;; dt <- getT dst ;;
    match nth_error (t_cols st) i, nth_error (t_kinds dt) i with
    | Some sc, Some k => modT dst (fun t => t <| t_cols ::= updf i (fun dc => col_set k dc nidx sc row) |>)
    | _, _ => fail EIndex
    end).

Definition w_set_relations (e : ent) (rels : list rel) : MW unit :=
  check_locked ;;;
  s <- get ;; guard (alive s e) EDead ;;;
  guard (negb (is_nil rels)) ENoComps ;;;
  ix <- get_index e ;;
  let '(otid, row) := ix in
  ot <- getT otid ;;
  r <- exchange_targets ot rels ;;
  match r with
  | None => ret tt
  | Some (newrels, cm) =>
      ntid <- get_or_create_table (t_arch ot) newrels ;;
      nm <- arch_mask_of_table ntid ;;
      s <- get ;;
      whenM (has_obs s EvRemoveRelations) (
        l <- lockM ;; _ <- fire_set EvRemoveRelations e cm nm true ;; unlockM l) ;;;
      nidx <- tbl_addM ntid e ;;
      copy_all otid ntid row nidx ;;;
      remove_row otid row ;;;
      set_index_direct e ntid nidx ;;;
      register_targets rels ;;;
      s <- get ;;
      whenM (has_obs s EvAddRelations) (_ <- fire_set EvAddRelations e cm nm true ;; ret tt)
  end.

Definition free_table (aid tid : nat) : MW unit :=
  modA aid (fun a => arch_free_table a tid) ;;; modT tid (fun t => t <| t_free := true |>).

(** storage.cleanupArchetypes (as repaired: every dead target of the table is detached). *)
Definition cleanup_archetypes (target : ent) : MW unit :=
  s <- get ;;
  forM_ (w_relarchs s) (fun aid =>
    a <- getA aid ;;
    match afind (fst target) (a_tgttabs a) with
    | None => ret tt
    | Some tabs =>
        forM_ (rev (seq 0 (length tabs))) (fun i =>
          a <- getA aid ;;
          tabs' <- of_opt (afind (fst target) (a_tgttabs a)) EIndex ;;
          tid <- of_opt (nth_error tabs' i) EIndex ;;
          t <- getT tid ;;
          s <- get ;;
          let newrels := map (fun r : rel => (fst r, zero_ent))
                             (filter (fun r : rel => (Nat.eqb (fst (snd r)) (fst target) || negb (alive s (snd r)))%bool) (t_rels t)) in
          whenM (Nat.ltb 0 (t_len t)) (
            all <- exchange_targets_unchecked t newrels ;;
            ntid <- get_or_create_table aid all ;;
            move_entities tid ntid (t_len t)) ;;;
          free_table aid tid ;;;
          cache_remove_table tid) ;;;
        modA aid (fun a => arch_remove_target a (fst target))
    end).

Definition storage_remove_entity (e : ent) : MW unit :=
  s <- get ;; guard (alive s e) EDead ;;;
  ix <- get_index e ;;
  let '(tid, row) := ix in
  t <- getT tid ;;
  m <- arch_mask_of_table tid ;;
  let has_e := has_obs s EvRemoveEntity in
  let has_r := (tbl_has_rels t && has_obs s EvRemoveRelations)%bool in
  whenM (has_e || has_r)%bool (
    l <- lockM ;;
    (if has_e then (_ <- fire_remove_entity e m true ;; ret tt) else ret tt) ;;;
    (if has_r then (_ <- fire_remove_entity_rel e m true ;; ret tt) else ret tt) ;;;
    unlockM l) ;;;
  t <- getT tid ;;
  let '(swapped, t') := tbl_remove t row in
  setT tid t' ;;;
  pool_recycleM e ;;;
  whenM swapped (
    match nth_error (t_ents t') row with
    | Some se => modify (fun s => s <| w_index ::= updf (fst se) (fun ix => (fst ix, row)) |>)
    | None => fail EIndex
    end) ;;;
  modify (fun s => s <| w_index ::= updf (fst e) (fun ix => (None, snd ix)) |>) ;;;
  s <- get ;;
  whenM (nth (fst e) (w_istarget s) false) (
    cleanup_archetypes e ;;;
    modify (fun s => s <| w_istarget ::= upd (fst e) false |>)).

Definition w_copy_entity (e : ent) : MW ent :=
  check_locked ;;;
  s <- get ;; guard (alive s e) EDead ;;;
  ne <- pool_getM ;;
  ix <- get_index e ;;
  let '(tid, row) := ix in
  idx <- tbl_addM tid ne ;;
  set_index (fst ne) (Some tid, idx) ;;;
  copy_all tid tid row idx ;;;
  t <- getT tid ;; a <- getA (t_arch t) ;;
  fire_create_entity_if_has ne (a_mask a) ;;;
  whenM (arch_has_rels a) (fire_create_entity_rel_if_has ne (a_mask a)) ;;;
  ret ne.

(** ** Filters, cache registration and batch table selection *)

Definition getF (fi : nat) : MW fobj := s <- get ;; of_opt (nth_error (w_filters s) fi) EIndex.

(** relationSlice.ToRelations: checks of the typed path (target alive or zero, relation component,
    component named in the filter/map mask). *)
Definition to_relations (m : mask) (rels : list rel) : MW unit :=
  forM_ rels (fun r =>
    s <- get ;;
    guard (Nat.eqb (fst (snd r)) 0 || alive s (snd r))%bool EDeadTarget ;;;
    guard (is_rel_comp s (fst r)) ENotRelation ;;;
    guard (mk_get m (fst r)) ERelNotInMask).

Definition tables_matching (s : W) (tabs : list nat) (rels : list rel) (need_nonempty : bool) : res W (list nat) :=
  (fix go (l : list nat) (acc : list nat) : res W (list nat) :=
     match l with
     | [] => Ok (rev acc) s
     | tid :: rest =>
         match nth_error (w_tables s) tid with
         | None => Err EIndex s
         | Some t =>
             if (need_nonempty && Nat.eqb (t_len t) 0)%bool then go rest acc
             else match tbl_matches t rels with
                  | None => Err ENil s
                  | Some true => go rest (tid :: acc)
                  | Some false => go rest acc
                  end
         end
     end) tabs [].

(** The uncached walk shared by getCacheTables / getBatchTables: all archetypes in creation order. *)
Definition uncached_tables (f : fobj) (rels : list rel) : MW (list nat) :=
  s <- get ;;
  (fix go (l : list arch) (acc : list nat) : MW (list nat) :=
     match l with
     | [] => ret acc
     | a :: rest =>
         if negb (filter_matches f (a_mask a)) then go rest acc
         else if negb (arch_has_rels a) then
           match a_tables a with
           | t0 :: _ => go rest (acc ++ [t0])
           | [] => fail EIndex
           end
         else
           cand <- of_opt (arch_get_tables a rels) EIndex ;;
           ts <- (fun s => tables_matching s cand rels false) ;;
           go rest (acc ++ ts)
     end) (w_archs s) [].

Definition get_batch_tables (fi : nat) (rels : list rel) : MW (list nat) :=
  f <- getF fi ;;
  match f_cache f with
  | Some cid =>
      s <- get ;;
      (* getEntry: the entry whose id is [cid] *)
      match find (fun addr => match nth_error (w_cheap s) addr with Some e => Nat.eqb (ce_id e) cid | None => false end) (w_centries s) with
      | None => fail EIndex
      | Some addr =>
          e <- of_opt (nth_error (w_cheap s) addr) EIndex ;;
          (fun s => tables_matching s (ce_tables e) rels true)
      end
  | None => uncached_tables f rels
  end.

Definition filter_register (fi : nat) : MW unit :=
  f <- getF fi ;;
  guard (match f_cache f with None => true | Some _ => false end) ERegistered ;;;
  s <- get ;;
  match ipool_get None (w_cpool s) with
  | None => fail EIndex
  | Some (id, p') =>
      put (s <| w_cpool := p' |>) ;;;
      modify (fun s => s <| w_filters ::= updf fi (fun f => f <| f_cache := Some id |>) |>) ;;;
      tabs <- uncached_tables f (f_rels f) ;;
      modify (fun s => s <| w_centries ::= fun l => l ++ [length (w_cheap s)] |>
                         <| w_cheap ::= fun h => h ++ [{| ce_id := id; ce_filter := fi; ce_rels := f_rels f; ce_tables := tabs |}] |>)
  end.

Definition filter_unregister (fi : nat) : MW unit :=
  f <- getF fi ;;
  match f_cache f with
  | None => fail ERegistered
  | Some cid =>
      s <- get ;;
      let addrs := w_centries s in
      let pos := (fix go (l : list nat) (i : nat) : option nat :=
                    match l with
                    | [] => None
                    | addr :: t => match nth_error (w_cheap s) addr with
                                   | Some e => if Nat.eqb (ce_id e) cid then Some i else go t (S i)
                                   | None => go t (S i)
                                   end
                    end) addrs 0 in
      idx <- of_opt pos EMisuse ;;
      modify (fun s => s <| w_filters ::= updf fi (fun f => f <| f_cache := None |>) |>) ;;;
      let last := length addrs - 1 in
      let l1 := if Nat.eqb idx last then addrs else match nth_error addrs last with Some x => upd idx x addrs | None => addrs end in
      modify (fun s => s <| w_centries := firstn last l1 |>)
  end.

Definition cache_reset : MW unit :=
  s <- get ;;
  if is_nil (w_centries s) then ret tt
  else
    forM_ (w_centries s) (fun addr =>
      s <- get ;;
      match nth_error (w_cheap s) addr with
      | Some e => modify (fun s => s <| w_filters ::= updf (ce_filter e) (fun f => f <| f_cache := None |>) |>)
      | None => fail EIndex
      end) ;;;
    modify (fun s => s <| w_centries := [] |> <| w_cpool := ipool_new |>).

(** ** Batch operations *)

(** Callback of a batch operation: the harness logs the entity and, for add-like batches,
    stores [vals] through the component pointers it is given. *)
Definition batch_callback (tid : nat) (vals : list (nat * Z)) (row : nat) : MW unit :=
  t <- getT tid ;;
  e <- of_opt (nth_error (t_ents t) row) EIndex ;;
  log ([101%Z] ++ Zent e) ;;;
  forM_ vals (fun cv =>
    t <- getT tid ;;
    match tbl_colidx t (fst cv) with
    | None => fail ENil
    | Some ci =>
        k <- of_opt (nth_error (t_kinds t) ci) EIndex ;;
        whenM (negb (ck_zs k)) (modT tid (fun t => t <| t_cols ::= updf ci (upd row (snd cv)) |>))
    end).

(** [fn]: whether the caller passed a callback. Without one the world is only locked if observers
    have to be notified (NewEntities: shouldLock := hasObs || fn != nil). *)
Definition w_new_entities (count : nat) (fn : bool) : MW unit :=
  check_locked ;;;
  r <- new_entities count [] [] ;;
  let '(tid, start) := r in
  s0 <- get ;;
  let has_obs0 := has_obs s0 EvCreateEntity in
  let should_lock := (has_obs0 || fn)%bool in
  l <- (if should_lock then lockM else ret 0) ;;
  whenM fn (forM_ (seq start count) (fun i => batch_callback tid [] i)) ;;;
  whenM has_obs0 (
    m <- arch_mask_of_table tid ;;
    es <- rows_of tid start count ;;
    fire_rows (fun e eo => fire_create_entity e m eo) es true) ;;;
  whenM should_lock (unlockM l).

(** MapN.NewBatchFn: [mm] is the mapper's own mask (used for the events), [nrel] the number of
    relations passed by the caller. *)
Definition w_new_batch (count : nat) (ids : list nat) (rels : list rel) (vals : list (nat * Z)) (fn : bool) : MW unit :=
  check_locked ;;;
  to_relations (mk_of_list ids) rels ;;;
  r <- new_entities count ids rels ;;
  let '(tid, start) := r in
  s0 <- get ;;
  let has_create := has_obs s0 EvCreateEntity in
  let has_rel := (negb (is_nil rels) && has_obs s0 EvAddRelations)%bool in
  let should_lock := (has_create || has_rel || fn)%bool in
  l <- (if should_lock then lockM else ret 0) ;;
  whenM fn (forM_ (seq start count) (fun i => batch_callback tid vals i)) ;;;
  es <- rows_of tid start count ;;
  whenM has_create (fire_rows (fun e eo => fire_create_entity e (mk_of_list ids) eo) es true) ;;;
  whenM has_rel (fire_rows (fun e eo => fire_create_entity_rel e (mk_of_list ids) eo) es true) ;;;
  whenM should_lock (unlockM l).

Definition w_remove_entities (fi : nat) (rels : list rel) (fn : bool) : MW unit :=
  check_locked ;;;
  s0 <- get ;;
  let has_e := has_obs s0 EvRemoveEntity in
  let has_r := has_obs s0 EvRemoveRelations in
  let should_lock := (has_e || has_r || fn)%bool in
  l <- (if should_lock then lockM else ret 0) ;;
  tables <- get_batch_tables fi rels ;;
  whenM fn (forM_ tables (fun tid => t <- getT tid ;; forM_ (seq 0 (t_len t)) (fun i => batch_callback tid [] i))) ;;;
  whenM has_e (
    forM_ tables (fun tid =>
      m <- arch_mask_of_table tid ;; t <- getT tid ;;
      fire_rows (fun e eo => fire_remove_entity e m eo) (firstn (t_len t) (t_ents t)) true)) ;;;
  whenM has_r (
    forM_ tables (fun tid =>
      t <- getT tid ;;
      whenM (tbl_has_rels t) (
        m <- arch_mask_of_table tid ;;
        fire_rows (fun e eo => fire_remove_entity_rel e m eo) (firstn (t_len t) (t_ents t)) true))) ;;;
  cleanup <- (fix go (tabs : list nat) (acc : list ent) : MW (list ent) :=
                match tabs with
                | [] => ret acc
                | tid :: rest =>
                    t <- getT tid ;;
                    acc' <- (fix rows (es : list ent) (acc : list ent) : MW (list ent) :=
                               match es with
                               | [] => ret acc
                               | e :: more =>
                                   s <- get ;;
                                   let acc1 := if nth (fst e) (w_istarget s) false then acc ++ [e] else acc in
                                   modify (fun s => s <| w_index ::= updf (fst e) (fun ix => (None, snd ix)) |>) ;;;
                                   pool_recycleM e ;;;
                                   rows more acc1
                               end) (firstn (t_len t) (t_ents t)) acc ;;
                    modT tid tbl_reset ;;;
                    go rest acc'
                end) tables [] ;;
  forM_ cleanup (fun e =>
    cleanup_archetypes e ;;;
    modify (fun s => s <| w_istarget ::= upd (fst e) false |>)) ;;;
  whenM should_lock (unlockM l).

(** exchangeTable *)
Definition exchange_table (otid ntid : nat) (rels : list rel) : MW (nat * nat) :=
  ot <- getT otid ;; nt <- getT ntid ;;
  nm <- arch_mask_of_table ntid ;;
  let start := t_len nt in
  let count := t_len ot in
  forM_ (seq 0 count) (fun i =>
    match nth_error (t_ents ot) i with
    | Some e => modify (fun s => s <| w_index ::= upd (fst e) (Some ntid, start + i) |>)
    | None => fail EIndex
    end) ;;;
  modT ntid (fun nt => tbl_add_all_entities nt ot count) ;;;
  forM_ (t_ids ot) (fun c =>
    if mk_get nm c then
      ot <- getT otid ;; nt <- getT ntid ;;
      match tbl_colidx ot c, tbl_colidx nt c with
      | Some oi, Some ni =>
          match nth_error (t_cols ot) oi with
          | Some sc => modT ntid (fun t => t <| t_cols ::= updf ni (fun dc => copy_into dc (t_len t - count) (firstn count sc)) |>)
          | None => fail EIndex
          end
      | _, _ => fail ENil
      end
    else ret tt) ;;;
  modT otid tbl_reset ;;;
  register_targets rels ;;;
  ret (start, count).

Definition w_exchange_batch (fi : nat) (brels : list rel) (add rem : list nat) (rels : list rel)
           (vals : list (nat * Z)) : MW unit :=
  check_locked ;;;
  guard (negb (is_nil add && is_nil rem)) ENoComps ;;;
  l <- lockM ;;
  with_deferred_unlock l (
  tables <- get_batch_tables fi brels ;;
  bt <- (fix go (tabs : list nat) (acc : list (nat * nat * nat)) (rr : bool) : MW (list (nat * nat * nat) * bool) :=
           match tabs with
           | [] => ret (acc, rr)
           | tid :: rest =>
               t <- getT tid ;;
               if Nat.eqb (t_len t) 0 then go rest acc rr
               else
                 om <- arch_mask_of_table tid ;;
                 r <- find_or_create_table tid add rem rels om ;;
                 let '(ntid, _, _, removed) := r in
                 go rest (acc ++ [(tid, ntid, t_len t)]) (rr || removed)%bool
           end) tables [] false ;;
  let '(batches, rel_removed) := bt in
  whenM (negb (is_nil rem)) (
    s <- get ;;
    whenM (has_obs s EvRemoveComponents) (
      forM_ batches (fun b =>
        let '(otid, ntid, len) := b in
        om <- arch_mask_of_table otid ;; nm <- arch_mask_of_table ntid ;;
        es <- rows_of otid 0 len ;;
        fire_rows (fun e eo => fire_remove EvRemoveComponents e om nm eo) es true)) ;;;
    s <- get ;;
    whenM (rel_removed && has_obs s EvRemoveRelations)%bool (
      forM_ batches (fun b =>
        let '(otid, ntid, len) := b in
        om <- arch_mask_of_table otid ;; nm <- arch_mask_of_table ntid ;;
        es <- rows_of otid 0 len ;;
        fire_rows (fun e eo => fire_remove EvRemoveRelations e om nm eo) es true))) ;;;
  moved <- mapM batches (fun b =>
    let '(otid, ntid, _) := b in
    sl <- exchange_table otid ntid rels ;;
    let '(start, len) := sl in
    forM_ (seq start len) (fun i => batch_callback ntid vals i) ;;;
    ret (otid, ntid, start, len)) ;;
  whenM (negb (is_nil add)) (
    s <- get ;;
    whenM (has_obs s EvAddComponents) (
      forM_ moved (fun b =>
        let '(otid, ntid, start, len) := b in
        om <- arch_mask_of_table otid ;; nm <- arch_mask_of_table ntid ;;
        es <- rows_of ntid start len ;;
        fire_rows (fun e eo => fire_add EvAddComponents e om nm eo) es true)) ;;;
    s <- get ;;
    whenM (negb (is_nil rels) && has_obs s EvAddRelations)%bool (
      forM_ moved (fun b =>
        let '(otid, ntid, start, len) := b in
        om <- arch_mask_of_table otid ;; nm <- arch_mask_of_table ntid ;;
        es <- rows_of ntid start len ;;
        fire_rows (fun e eo => fire_add EvAddRelations e om nm eo) es true)))) ;;;
  unlockM l.

(** setRelationsTable (as repaired: OnAddRelations entities are read from the new table). *)
(** setRelationsBatch (since fix "relation batches fire all removal events before and all add events after the
    entire batch"): PLAN every non-empty table that changes (new target list, changed-relations mask, destination
    found or created) before anything moves; then all OnRemoveRelations events, then all moves with the batch
    callbacks, then all OnAddRelations events. A rejected table rejects the whole batch before any row moved. *)
Definition set_relations_plan (otid : nat) (rels : list rel) : MW (option (nat * nat * nat * mask)) :=
  ot <- getT otid ;;
  if Nat.eqb (t_len ot) 0 then ret None else
  r <- exchange_targets ot rels ;;
  match r with
  | None => ret None
  | Some (newrels, cm) =>
      ntid <- get_or_create_table (t_arch ot) newrels ;;
      ret (Some (otid, ntid, t_len ot, cm))
  end.

Definition opt_list {A} (l : list (option A)) : list A :=
  flat_map (fun o => match o with Some a => [a] | None => [] end) l.

Definition set_relations_fire_removes (plans : list (nat * nat * nat * mask)) : MW unit :=
  forM_ plans (fun p =>
    let '(otid, ntid, len, cm) := p in
    ot <- getT otid ;;
    nm <- arch_mask_of_table ntid ;;
    fire_rows (fun e eo => fire_set EvRemoveRelations e cm nm eo) (firstn len (t_ents ot)) true).

Definition set_relations_move (p : nat * nat * nat * mask) : MW (nat * nat * nat * mask) :=
  let '(otid, ntid, len, cm) := p in
  nt <- getT ntid ;;
  let start := t_len nt in
  move_entities otid ntid len ;;;
  forM_ (seq start len) (fun i => batch_callback ntid [] i) ;;;
  ret (ntid, start, len, cm).

Definition set_relations_fire_adds (moved : list (nat * nat * nat * mask)) : MW unit :=
  forM_ moved (fun m =>
    let '(ntid, start, len, cm) := m in
    nm <- arch_mask_of_table ntid ;;
    es <- rows_of ntid start len ;;
    fire_rows (fun e eo => fire_set EvAddRelations e cm nm eo) es true).

Definition w_set_relations_batch (fi : nat) (brels : list rel) (rels : list rel) : MW unit :=
  check_locked ;;;
  guard (negb (is_nil rels)) ENoComps ;;;
  l <- lockM ;;
  with_deferred_unlock l (
    s0 <- get ;;
    let has_rem := has_obs s0 EvRemoveRelations in
    let has_add := has_obs s0 EvAddRelations in
    tables <- get_batch_tables fi brels ;;
    plans <- mapM tables (fun tid => set_relations_plan tid rels) ;;
    let plans := opt_list plans in
    whenM has_rem (set_relations_fire_removes plans) ;;;
    moved <- mapM plans set_relations_move ;;
    whenM has_add (set_relations_fire_adds moved) ;;;
    register_targets rels) ;;;
  unlockM l.

(** ** Reset and Shrink *)

Definition arch_reset (aid : nat) : MW unit :=
  a <- getA aid ;;
  if negb (arch_has_rels a) then
    match a_tables a with
    | t0 :: _ => modT t0 tbl_reset
    | [] => fail EIndex
    end
  else
    forM_ (rev (a_tables a)) (fun tid => modT tid tbl_reset) ;;;
    forM_ (a_tables a) (fun tid => modT tid (fun t => t <| t_free := true |>)) ;;;
    modA aid (fun a => a <| a_free ::= fun l => l ++ a_tables a |> <| a_tables := [] |>
                          <| a_reltabs ::= map (fun _ => []) |> <| a_tgttabs := [] |>).

Definition w_reset : MW unit :=
  check_locked ;;;
  modify (fun s => s <| w_index ::= firstn 2 |> <| w_pool ::= pool_reset |> <| w_istarget ::= firstn 2 |>) ;;;
  cache_reset ;;;
  modify (fun s => s <| w_lock := lock_new |>) ;;;
  reset_observers ;;;
  s <- get ;;
  forM_ (seq 0 (length (w_archs s))) arch_reset ;;;
  modify (fun s => s <| w_res ::= map (fun _ => false) |>).

Definition tbl_shrink_target (t : table) (min_cap : nat) : nat := Nat.max (cap_pow2 (t_len t)) min_cap.
Definition tbl_can_shrink (t : table) (min_cap : nat) : bool := Nat.ltb (tbl_shrink_target t min_cap) (t_cap t).

(** storage.Shrink under an arbitrary clock. [clock idx] answers "has the time budget expired when table
    [idx] has just been processed" (Go: [stopAfter == 0 || time.Since(start) >= stopAfter], evaluated after
    each table once some table had work). Nothing is assumed about the clock (not even monotonicity). *)
Definition w_shrink_clock (clock : nat -> bool) : MW bool :=
  s <- get ;;
  let n := length (w_tables s) in
  r <- (fix go (fuel : nat) (idx : nat) (any : bool) : MW (nat * bool) :=
          match fuel with
          | O => ret (idx, any)
          | S f =>
              t <- getT idx ;;
              s <- get ;;
              any1 <- (if negb (tbl_has_rels t) then
                         if tbl_can_shrink t (cf_cap (w_cfg s))
                         then modT idx (fun t => tbl_adjust t (tbl_shrink_target t (cf_cap (w_cfg s)))) ;;; ret true
                         else ret any
                       else
                         a1 <- (if tbl_can_shrink t (cf_caprel (w_cfg s))
                                then modT idx (fun t => tbl_adjust t (tbl_shrink_target t (cf_caprel (w_cfg s)))) ;;; ret true
                                else ret any) ;;
                         t <- getT idx ;;
                         if (negb (t_free t) && Nat.eqb (t_len t) 0)%bool then
                           free_table (t_arch t) idx ;;;
                           modA (t_arch t) (fun a => remove_from_targets_cols idx 0 (t_kinds t) (t_targets t) a) ;;;
                           cache_remove_table idx ;;;
                           ret true
                         else ret a1) ;;
              if (any1 && clock idx)%bool then ret (idx, any1)
              else match f with O => ret (idx, any1) | _ => go f (S idx) any1 end
          end) n 0 false ;;
  let '(last, _) := r in
  s <- get ;;
  ret (existsb (fun t =>
         if negb (tbl_has_rels t) then tbl_can_shrink t (cf_cap (w_cfg s))
         else (tbl_can_shrink t (cf_caprel (w_cfg s)) || (negb (t_free t) && Nat.eqb (t_len t) 0))%bool)
       (skipn (S last) (w_tables s))).

(** The two extreme budgets as constant clocks: [stop0] = a zero time budget (stop after the first table
    that had work); otherwise the budget is taken to be unlimited (the default of one hour). *)
Definition w_shrink_core (stop0 : bool) : MW bool := w_shrink_clock (fun _ => stop0).

(** World.Shrink: like every structure-changing operation it is rejected on a locked world (repair
    [fix: Shrink panics on a locked world]; it used to run while queries were open, freeing tables out
    of the table list an open query was walking). *)
Definition w_shrink (stop0 : bool) : MW bool := check_locked ;;; w_shrink_core stop0.
(** World.Shrink with an arbitrary time budget, read off an arbitrary clock ([w_shrink stop0] is the
    instance at the constant clock [fun _ => stop0]). *)
Definition w_shrink_timed (clock : nat -> bool) : MW bool := check_locked ;;; w_shrink_clock clock.

(** ** Queries: filter_gen.go Query(), query_gen.go cursor, query_count.go *)

Definition getQ (qi : nat) : MW qobj := s <- get ;; of_opt (nth_error (w_queries s) qi) EIndex.
Definition modQ (qi : nat) (f : qobj -> qobj) : MW unit := modify (fun s => s <| w_queries ::= updf qi f |>).

(** registry.rareComponent: the first component of [ids] with the fewest archetypes. *)
Definition rare_component (s : W) (ids : list nat) : nat :=
  fst (fold_left (fun (best : nat * option nat) c =>
                    let cnt := nth c (w_archcount s) 0 in
                    match snd best with
                    | None => (c, Some cnt)
                    | Some b => if Nat.ltb cnt b then (c, Some cnt) else best
                    end) ids (0, None)).

Definition entry_addr (s : W) (cid : nat) : option nat :=
  find (fun addr => match nth_error (w_cheap s) addr with Some e => Nat.eqb (ce_id e) cid | None => false end) (w_centries s).

(** FilterN.Query(rel...) / UnsafeFilter.Query(rel...): returns the index of the new query object. *)
Definition query_open (fi : nat) (rels : list rel) : MW nat :=
  f <- getF fi ;;
  whenM (negb (f_unsafe f)) (to_relations (f_mask f) rels) ;;;
  s <- get ;;
  cache <- (match f_cache f with
            | Some cid => a <- of_opt (entry_addr s cid) EIndex ;; ret (Some a)
            | None => ret None
            end) ;;
  let qrels := match f_cache f with Some _ => rels | None => f_rels f ++ rels end in
  (* the hint is only computed for uncached queries; a cached query carries component 0
     (it matters only for Count/EntityAt after the query was closed, when the entry is dropped) *)
  let rare := if (f_unsafe f || is_nil (f_ids f))%bool then None
              else match f_cache f with Some _ => Some 0 | None => Some (rare_component s (f_ids f)) end in
  b <- lockM ;;
  s <- get ;;
  let q := {| q_filter := fi; q_rels := qrels; q_cache := cache; q_lock := b; q_arch := 1; q_tab := 1;
              q_index := 0; q_max := None; q_tables := []; q_table := None; q_rare := rare |} in
  put (s <| w_queries ::= fun l => l ++ [q] |>) ;;;
  ret (length (w_queries s)).

Definition query_close (qi : nat) : MW unit :=
  q <- getQ qi ;;
  if Nat.ltb (q_tab q) 1 then ret tt
  else
    modQ qi (fun q => q <| q_arch := 0 |> <| q_tab := 0 |> <| q_index := 0 |> <| q_max := None |>
                        <| q_tables := [] |> <| q_table := None |> <| q_cache := None |>) ;;;
    unlockM (q_lock q).

Definition query_set_table (qi : nat) (pos : nat) (tid : nat) : MW unit :=
  t <- getT tid ;;
  modQ qi (fun q => q <| q_tab := pos + 2 |> <| q_table := Some tid |> <| q_index := 0 |>
                      <| q_max := if Nat.eqb (t_len t) 0 then None else Some (t_len t - 1) |>).

(** Position at which the scan of [query_next_table] panics (a table index out of range, or
    table.Matches dereferencing the nil column of a relation component the table lacks): in Go
    [cursor.table++] precedes both, so the cursor is left at that position. *)
Fixpoint nt_fail_pos (s : W) (rels : list rel) (tables : list nat) (fuel pos : nat) : nat :=
  match fuel with
  | O => pos
  | S f =>
      match nth_error tables pos with
      | None => pos
      | Some tid =>
          match nth_error (w_tables s) tid with
          | None => pos
          | Some t =>
              if Nat.eqb (t_len t) 0 then nt_fail_pos s rels tables f (S pos)
              else match tbl_matches t rels with
                   | None => pos
                   | Some true => pos
                   | Some false => nt_fail_pos s rels tables f (S pos)
                   end
          end
      end
  end.

(** nextTable: advance over [tables] from the cursor; [cached] closes the query when exhausted. *)
Definition query_next_table (qi : nat) (tables : list nat) (cached : bool) : MW bool :=
  q <- getQ qi ;;
  (* cursor.table = q_tab - 2; the next candidate position is q_tab - 1 *)
  r <- on_err
       ((fix go (fuel : nat) (pos : nat) : MW (option (nat * nat)) :=
          match fuel with
          | O => ret None
          | S f =>
              match nth_error tables pos with
              | None => ret None
              | Some tid =>
                  t <- getT tid ;;
                  if Nat.eqb (t_len t) 0 then go f (S pos)
                  else
                    mt <- of_opt (tbl_matches t (q_rels q)) ENil ;;
                    if mt then ret (Some (pos, tid)) else go f (S pos)
              end
          end) (S (length tables)) (q_tab q - 1))
       (fun s => s <| w_queries ::= updf qi (fun q0 => q0 <| q_tab := nt_fail_pos s (q_rels q) tables (S (length tables)) (q_tab q - 1) + 2 |>) |>) ;;
  match r with
  | Some (pos, tid) => query_set_table qi pos tid ;;; ret true
  | None =>
      modQ qi (fun q => q <| q_tab := Nat.max (q_tab q) (length tables + 1) |>) ;;;
      whenM cached (query_close qi) ;;;
      ret false
  end.

Definition query_archetypes (s : W) (q : qobj) : list nat :=
  match q_rare q with
  | Some c => nth c (w_compindex s) []
  | None => seq 0 (length (w_archs s))
  end.

Definition query_next_archetype (qi : nat) : MW bool :=
  modQ qi (fun q => q <| q_tables := [] |>) ;;;
  q <- getQ qi ;;
  guard (Nat.leb 1 (q_arch q)) EIndex ;;;     (* closed query: archetypes[-1] *)
  s <- get ;;
  let archs := query_archetypes s q in
  f <- getF (q_filter q) ;;
  r <- (fix go (fuel : nat) (pos : nat) : MW bool :=
          match fuel with
          | O => ret false
          | S fu =>
              match nth_error archs pos with
              | None => ret false
              | Some aid =>
                  modQ qi (fun q => q <| q_arch := pos + 2 |>) ;;;
                  a <- getA aid ;;
                  if negb (filter_matches f (a_mask a)) then go fu (S pos)
                  else if negb (arch_has_rels a) then
                    match a_tables a with
                    | [] => fail EIndex
                    | t0 :: _ =>
                        t <- getT t0 ;;
                        if Nat.ltb 0 (t_len t) then query_set_table qi 0 t0 ;;; ret true
                        else go fu (S pos)
                    end
                  else
                    q <- getQ qi ;;
                    tabs <- of_opt (arch_get_tables a (q_rels q)) EIndex ;;
                    modQ qi (fun q => q <| q_tables := tabs |> <| q_tab := 1 |> <| q_table := None |>) ;;;
                    found <- query_next_table qi tabs false ;;
                    if found then ret true else go fu (S pos)
              end
          end) (S (length archs)) (q_arch q - 1) ;;
  if r then ret true else query_close qi ;;; ret false.

Definition query_next_table_or_archetype (qi : nat) : MW bool :=
  q <- getQ qi ;;
  guard (Nat.leb 1 (q_tab q)) EMisuse ;;;      (* closed or finished: rejected before the cursor moves *)
  match q_cache q with
  | Some addr =>
      s <- get ;;
      e <- of_opt (nth_error (w_cheap s) addr) EIndex ;;
      query_next_table qi (ce_tables e) true
  | None =>
      if Nat.leb 2 (q_arch q) then
        found <- query_next_table qi (q_tables q) false ;;
        if found then ret true else query_next_archetype qi
      else query_next_archetype qi
  end.

(** Next. [debug]: the ark_debug build checks the cursor first. *)
Definition query_next (debug : bool) (qi : nat) : MW bool :=
  q <- getQ qi ;;
  whenM debug (guard (Nat.leb 1 (q_tab q)) EMisuse) ;;;
  match q_max q with
  | Some mx => if Nat.ltb (q_index q) mx then modQ qi (fun q => q <| q_index ::= S |>) ;;; ret true
               else query_next_table_or_archetype qi
  | None => query_next_table_or_archetype qi
  end.

(** Entity(): current entity. nodebug: nil table dereference when there is no current table. *)
Definition query_entity (debug : bool) (qi : nat) : MW ent :=
  q <- getQ qi ;;
  whenM debug (guard (Nat.leb 2 (q_tab q)) EMisuse) ;;;
  tid <- of_opt (q_table q) ENil ;;
  t <- getT tid ;;
  of_opt (nth_error (t_ents t) (q_index q)) EIndex.

Definition count_tables (s : W) (tabs : list nat) (rels : list rel) (skip_empty : bool) : res W (list (nat * nat)) :=
  match tables_matching s tabs rels skip_empty with
  | Ok l s' => Ok (map (fun tid => (tid, match nth_error (w_tables s) tid with Some t => t_len t | None => 0 end)) l) s'
  | Err e s' => Err e s'
  end.

(** The list of (table, len) pairs that Count / EntityAt walk, in order. *)
Definition query_walk (qi : nat) : MW (list (nat * nat)) :=
  q <- getQ qi ;;
  s <- get ;;
  match q_cache q with
  | Some addr =>
      e <- of_opt (nth_error (w_cheap s) addr) EIndex ;;
      (fun s => count_tables s (ce_tables e) (q_rels q) true)
  | None =>
      f <- getF (q_filter q) ;;
      (fix go (l : list nat) (acc : list (nat * nat)) : MW (list (nat * nat)) :=
         match l with
         | [] => ret acc
         | aid :: rest =>
             a <- getA aid ;;
             if negb (filter_matches f (a_mask a)) then go rest acc
             else if negb (arch_has_rels a) then
               match a_tables a with
               | t0 :: _ => t <- getT t0 ;; go rest (acc ++ [(t0, t_len t)])
               | [] => fail EIndex
               end
             else
               cand <- of_opt (arch_get_tables a (q_rels q)) EIndex ;;
               ts <- (fun s => count_tables s cand (q_rels q) false) ;;
               go rest (acc ++ ts)
         end) (query_archetypes s q) []
  end.

Definition query_count (qi : nat) : MW nat :=
  w <- query_walk qi ;; ret (fold_left (fun acc p => acc + snd p) w 0).

(** EntityAt: entityAt / entityAtCache (query_count.go) walk LAZILY - they return as soon as the
    running count exceeds the index, so a table or an archetype that would panic later in the walk
    is never reached (Count, above, really does the complete walk). Same order, same matching and
    same panics as [query_walk], raised only if reached before the index is found.
    [entity_at_tables] scans the tables of one archetype (or of the cache entry): [inl e] = found,
    [inr count] = the running count after these tables. *)
Fixpoint entity_at_tables (index : nat) (rels : list rel) (skip_empty : bool) (tabs : list nat) (count : nat)
  : MW (ent + nat) :=
  match tabs with
  | [] => ret (inr count)
  | tid :: rest =>
      t <- getT tid ;;
      if (skip_empty && Nat.eqb (t_len t) 0)%bool then entity_at_tables index rels skip_empty rest count
      else
        mt <- of_opt (tbl_matches t rels) ENil ;;
        if negb mt then entity_at_tables index rels skip_empty rest count
        else if Nat.ltb index (count + t_len t) then
          e <- of_opt (nth_error (t_ents t) (index - count)) EIndex ;; ret (inl e)
        else entity_at_tables index rels skip_empty rest (count + t_len t)
  end.

Definition query_entity_at (qi : nat) (index : nat) : MW ent :=
  q <- getQ qi ;;
  s <- get ;;
  match q_cache q with
  | Some addr =>
      e <- of_opt (nth_error (w_cheap s) addr) EIndex ;;
      r <- entity_at_tables index (q_rels q) true (ce_tables e) 0 ;;
      match r with inl x => ret x | inr _ => fail EIndex end
  | None =>
      f <- getF (q_filter q) ;;
      (fix go (l : list nat) (count : nat) : MW ent :=
         match l with
         | [] => fail EIndex
         | aid :: rest =>
             a <- getA aid ;;
             if negb (filter_matches f (a_mask a)) then go rest count
             else if negb (arch_has_rels a) then
               match a_tables a with
               | t0 :: _ =>
                   t <- getT t0 ;;
                   if Nat.ltb index (count + t_len t) then of_opt (nth_error (t_ents t) (index - count)) EIndex
                   else go rest (count + t_len t)
               | [] => fail EIndex
               end
             else
               cand <- of_opt (arch_get_tables a (q_rels q)) EIndex ;;
               r <- entity_at_tables index (q_rels q) false cand count ;;
               match r with inl x => ret x | inr c => go rest c end
         end) (query_archetypes s q) 0
  end.
