(** * Run: the operation language, its decoder from integer lines, the step function and the
    observations compared with the implementation (API-level view and internal dump). *)
From Ark Require Import Model.Base Model.Mask Model.Pool Model.Util Model.World.
From RecordUpdate Require Import RecordSet.
Import RecordSetNotations.

Set Implicit Arguments.

Definition hrel := (nat * Z)%type.    (* relation component, handle reference *)

Inductive op :=
| ONewEntity
| OUNew (ids : list nat)
| OUNewRel (ids : list nat) (rels : list hrel)
| ONewEntities (n : nat) (nofn : bool)
| OCopy (h : Z)
| OUAdd (h : Z) (ids : list nat)
| OUAddRel (h : Z) (ids : list nat) (rels : list hrel)
| OURemove (h : Z) (ids : list nat)
| OUExchange (h : Z) (add rem : list nat) (rels : list hrel)
| OWrite (h : Z) (c : nat) (v : Z)
| OUSetRel (h : Z) (rels : list hrel)
| ORemoveEntity (h : Z)
| ORemoveEntities (f : nat) (brels : list hrel) (nofn : bool)
| OReset
| OShrink (stop0 : bool)
| OFilterNew (unsafe : bool) (ids without : list nat) (excl : bool) (rels : list hrel)
| OFilterRegister (f : nat)
| OFilterUnregister (f : nat)
| OQueryAll (f : nat) (rels : list hrel)
| OQueryOpen (f : nat) (rels : list hrel)
| OQueryNext (q : nat)
| OQueryClose (q : nat)
| OQueryCount (q : nat)
| OQueryEntityAt (q : nat) (i : nat)
| OQueryEntity (q : nat)
| OObsNew (evt : nat) (for_ with_ without : list nat) (excl : bool) (cb : nat)
| OObsRegister (o : nat)
| OObsUnregister (o : nat)
| OEmit (evt : nat) (h : Z) (comps : list nat)
| OMapSet (h : Z) (c : nat) (v : Z)
| ONewBatch (n : nat) (ids : list nat) (rels : list hrel) (vals : list (nat * Z)) (nofn : bool)
| OExchangeBatch (f : nat) (brels : list hrel) (add rem : list nat) (rels : list hrel) (vals : list (nat * Z))
| OSetRelBatch (f : nat) (brels : list hrel) (mids : list nat) (rels : list hrel)
| OAlive (h : Z)
| OHas (h : Z) (c : nat)
| OGetRel (h : Z) (c : nat)
| OIDs (h : Z)
| OGet (h : Z) (c : nat)
| OStats.

(** ** Decoder: one operation per line of integers, lists are length-prefixed. *)

Definition P (A : Type) := list Z -> option (A * list Z).
Definition pZ : P Z := fun l => match l with x :: t => Some (x, t) | [] => None end.
Definition pnat : P nat := fun l => match l with x :: t => if Z.ltb x 0 then None else Some (Z.to_nat x, t) | [] => None end.
Definition pbool : P bool := fun l => match l with x :: t => Some (negb (Z.eqb x 0), t) | [] => None end.
Definition pbind {A B} (p : P A) (k : A -> P B) : P B :=
  fun l => match p l with Some (a, t) => k a t | None => None end.
Definition pret {A} (a : A) : P A := fun l => Some (a, l).
Fixpoint prep {A} (p : P A) (n : nat) : P (list A) :=
  match n with
  | O => pret []
  | S n' => pbind p (fun x => pbind (prep p n') (fun xs => pret (x :: xs)))
  end.
Definition plist {A} (p : P A) : P (list A) := pbind pnat (fun n => prep p n).
Definition ppair {A B} (pa : P A) (pb : P B) : P (A * B) := pbind pa (fun a => pbind pb (fun b => pret (a, b))).
Definition pnats := plist pnat.
Definition prels : P (list hrel) := plist (ppair pnat pZ).
Definition pvals : P (list (nat * Z)) := plist (ppair pnat pZ).
(** optional trailing flag (absent = false) *)
Definition pflag : P bool := fun l => match l with [] => Some (false, []) | x :: t => Some (Z.odd x, t) end.

Notation "x <-- p ;; k" := (pbind p (fun x => k)) (at level 61, p at next level, right associativity).

Definition decode_op (l : list Z) : option op :=
  match l with
  | [] => None
  | code :: args =>
      let r : option (op * list Z) :=
        match code with
        | 0 => pret ONewEntity args
        | 1 => (ids <-- pnats ;; pret (OUNew ids)) args
        | 2 => (ids <-- pnats ;; rels <-- prels ;; pret (OUNewRel ids rels)) args
        | 3 => (n <-- pnat ;; nf <-- pflag ;; pret (ONewEntities n nf)) args
        | 4 => (h <-- pZ ;; pret (OCopy h)) args
        | 5 => (h <-- pZ ;; ids <-- pnats ;; pret (OUAdd h ids)) args
        | 6 => (h <-- pZ ;; ids <-- pnats ;; rels <-- prels ;; pret (OUAddRel h ids rels)) args
        | 7 => (h <-- pZ ;; ids <-- pnats ;; pret (OURemove h ids)) args
        | 8 => (h <-- pZ ;; add <-- pnats ;; rem <-- pnats ;; rels <-- prels ;; pret (OUExchange h add rem rels)) args
        | 9 => (h <-- pZ ;; c <-- pnat ;; v <-- pZ ;; pret (OWrite h c v)) args
        | 10 => (h <-- pZ ;; rels <-- prels ;; pret (OUSetRel h rels)) args
        | 11 => (h <-- pZ ;; pret (ORemoveEntity h)) args
        | 12 => (f <-- pnat ;; rels <-- prels ;; nf <-- pflag ;; pret (ORemoveEntities f rels nf)) args
        | 13 => pret OReset args
        | 14 => (b <-- pbool ;; pret (OShrink b)) args
        | 15 => (u <-- pbool ;; ids <-- pnats ;; wo <-- pnats ;; ex <-- pbool ;; rels <-- prels ;; pret (OFilterNew u ids wo ex rels)) args
        | 16 => (f <-- pnat ;; pret (OFilterRegister f)) args
        | 17 => (f <-- pnat ;; pret (OFilterUnregister f)) args
        | 18 => (f <-- pnat ;; rels <-- prels ;; pret (OQueryAll f rels)) args
        | 19 => (f <-- pnat ;; rels <-- prels ;; pret (OQueryOpen f rels)) args
        | 20 => (q <-- pnat ;; pret (OQueryNext q)) args
        | 21 => (q <-- pnat ;; pret (OQueryClose q)) args
        | 22 => (q <-- pnat ;; pret (OQueryCount q)) args
        | 23 => (q <-- pnat ;; i <-- pnat ;; pret (OQueryEntityAt q i)) args
        | 24 => (q <-- pnat ;; pret (OQueryEntity q)) args
        | 25 => (e <-- pnat ;; f <-- pnats ;; w <-- pnats ;; wo <-- pnats ;; ex <-- pbool ;; cb <-- pnat ;; pret (OObsNew e f w wo ex cb)) args
        | 26 => (o <-- pnat ;; pret (OObsRegister o)) args
        | 27 => (o <-- pnat ;; pret (OObsUnregister o)) args
        | 28 => (e <-- pnat ;; h <-- pZ ;; cs <-- pnats ;; pret (OEmit e h cs)) args
        | 29 => (h <-- pZ ;; c <-- pnat ;; v <-- pZ ;; pret (OMapSet h c v)) args
        | 30 => (n <-- pnat ;; ids <-- pnats ;; rels <-- prels ;; vals <-- pvals ;; nf <-- pflag ;; pret (ONewBatch n ids rels vals nf)) args
        | 31 => (f <-- pnat ;; br <-- prels ;; add <-- pnats ;; rem <-- pnats ;; rels <-- prels ;; vals <-- pvals ;; pret (OExchangeBatch f br add rem rels vals)) args
        | 32 => (f <-- pnat ;; br <-- prels ;; mids <-- pnats ;; rels <-- prels ;; pret (OSetRelBatch f br mids rels)) args
        | 33 => (h <-- pZ ;; pret (OAlive h)) args
        | 34 => (h <-- pZ ;; c <-- pnat ;; pret (OHas h c)) args
        | 35 => (h <-- pZ ;; c <-- pnat ;; pret (OGetRel h c)) args
        | 36 => (h <-- pZ ;; pret (OIDs h)) args
        | 37 => (h <-- pZ ;; c <-- pnat ;; pret (OGet h c)) args
        | 38 => pret OStats args
        | _ => None
        end%Z in
      match r with Some (o, []) => Some o | _ => None end
  end.

(** ** Initial state *)

Record script_cfg := { sc_cap : nat; sc_caprel : nat; sc_bits : nat; sc_debug : bool; sc_kinds : list ckind }.

(** Component type codes of the harness: 0-3 plain structs {V int64}; 4,5 pointer-bearing
    (non-trivial) {V int64; S string}; 6 zero-size struct{}; 7,8 relations {RelationMarker; V int64};
    9 zero-size relation {RelationMarker}; >= 100 dynamically built plain padding types. *)
Definition kind_of_code (z : Z) : ckind :=
  if (Z.eqb z 4 || Z.eqb z 5)%bool then {| ck_rel := false; ck_zs := false; ck_triv := false |}
  else if Z.eqb z 6 then {| ck_rel := false; ck_zs := true; ck_triv := true |}
  else if (Z.eqb z 7 || Z.eqb z 8)%bool then {| ck_rel := true; ck_zs := false; ck_triv := true |}
  else if Z.eqb z 9 then {| ck_rel := true; ck_zs := true; ck_triv := true |}
  else {| ck_rel := false; ck_zs := false; ck_triv := true |}.

Definition decode_cfg (l : list Z) : option script_cfg :=
  match (c <-- pnat ;; cr <-- pnat ;; b <-- pnat ;; d <-- pbool ;; ks <-- plist pZ ;;
         pret {| sc_cap := c; sc_caprel := cr; sc_bits := b; sc_debug := d; sc_kinds := map kind_of_code ks |}) l with
  | Some (c, []) => Some c
  | _ => None
  end.

Definition init_world (c : script_cfg) : W :=
  let a0 := {| a_mask := 0%N; a_comps := []; a_isrel := []; a_tables := [0]; a_free := [];
               a_reltabs := []; a_tgttabs := []; a_numrel := 0 |} in
  let n := length (sc_kinds c) in
  {| w_cfg := {| cf_cap := sc_cap c; cf_caprel := sc_caprel c; cf_bits := sc_bits c |};
     w_reg := sc_kinds c;
     w_pool := pool_new;
     w_index := [(None, 0); (None, 0)];
     w_istarget := [false; false];
     w_archs := [a0];
     w_tables := [new_table 0 a0 [] (sc_cap c) [] []];
     w_relarchs := [];
     w_compindex := repeat [] n;
     w_archcount := repeat 0 n;
     w_version := 1%N;
     w_cheap := []; w_centries := []; w_cpool := ipool_new;
     w_lock := lock_new;
     w_obs := []; w_olists := []; w_oagg := []; w_opool := ipool_new; w_ototal := 0; w_omax := 0;
     w_filters := []; w_queries := [];
     w_res := [];
     w_issued := [];
     w_log := [] |}.

(** ** Step *)

Definition handle (s : W) (h : Z) : option ent :=
  if Z.ltb h 0 then Some zero_ent else nth_error (w_issued s) (Z.to_nat h).

Definition resolveH (h : Z) : MW ent := s <- get ;; of_opt (handle s h) EMisuse.
Definition resolveR (rels : list hrel) : MW (list rel) :=
  mapM rels (fun r => e <- resolveH (snd r) ;; ret (fst r, e)).

(** A relation given by INDEX (ecs.RelIdx) instead of by component ID is encoded by a component code >= 1000
    (index = code - 1000). The script-level queries are UnsafeFilter.Query, which rejects it (relationIDForUnsafe
    panics), and Filter0.Query, which resolves it against the components added with With (ids[index], an index
    out of range panics). Both happen while the relations are converted, BEFORE a lock bit is taken and before a
    query object exists. *)
Definition no_relidx (rels : list rel) : bool := forallb (fun r : rel => Nat.ltb (fst r) 1000) rels.
Definition resolve_relidx (fi : nat) (rels : list rel) : MW (list rel) :=
  if no_relidx rels then ret rels else
  f <- getF fi ;;
  if f_unsafe f then fail EMisuse else
  mapM rels (fun r => if Nat.ltb (fst r) 1000 then ret r
                      else c <- of_opt (nth_error (f_ids f) (fst r - 1000)) EIndex ;; ret (c, snd r)).

(** UnsafeFilter.Query validates its relation arguments as the generic filters do (repair: a relation given for a
    component that is not a relation component REQUIRED BY THE FILTER is rejected when the query is created,
    before a lock bit is taken; it used to be accepted and then listed entities that do not have that relation -
    all entities of relation-free archetypes, or, for a plain component in a later position, everything). *)
Definition check_unsafe_rels (fi : nat) (rels : list rel) : MW unit :=
  if is_nil rels then ret tt else
  f <- getF fi ;;
  whenM (f_unsafe f)
    (forM_ rels (fun r => s <- get ;;
                          guard (is_rel_comp s (fst r)) ENotRelation ;;;
                          guard (mk_get (f_mask f) (fst r)) ERelNotInMask)).

Definition issue (e : ent) : MW unit := modify (fun s => s <| w_issued ::= fun l => l ++ [e] |>).

(** Entities reported by batch callbacks (log entries tagged 101). *)
Definition logged_entities (lg : list (list Z)) : list ent :=
  flat_map (fun l => match l with
                     | [101%Z; i; g] => [(Z.to_nat i, Z.to_N g)]
                     | _ => []
                     end) lg.

(** Unsafe.Get / Map.Get: component cell address of an entity. *)
Definition cell_of (debug : bool) (e : ent) (c : nat) : MW (nat * nat * nat) :=
  s <- get ;; guard (alive s e) EDead ;;;
  ix <- get_index e ;;
  let '(tid, row) := ix in
  t <- getT tid ;;
  match tbl_colidx t c with
  | Some ci => ret (tid, ci, row)
  | None => fail (if debug then EMissingComp else ENil)
  end.

Definition write_cell (tid ci row : nat) (v : Z) : MW unit :=
  t <- getT tid ;;
  k <- of_opt (nth_error (t_kinds t) ci) EIndex ;;
  whenM (negb (ck_zs k)) (modT tid (fun t => t <| t_cols ::= updf ci (upd row v) |>)).

(** Filter*.Batch(rel...) *)
Definition batch_rels (fi : nat) (brels : list rel) : MW (list rel) :=
  f <- getF fi ;;
  to_relations (f_mask f) brels ;;;
  ret (match f_cache f with Some _ => brels | None => f_rels f ++ brels end).

(** Stats(): the figures compared with the implementation (entity counts, per archetype sizes,
    capacities, table counts, filters, observers, lock). *)
Definition stats_vec (s : W) : list Z :=
  [Zn (pool_len (w_pool s)); Zn (pool_cap (w_pool s)); Zn (pavail (w_pool s));
   Zb (is_locked s); Zn (length (w_centries s)); Zn (w_ototal s); Zn (length (w_archs s))] ++
  flat_map (fun a =>
    let tabs := flat_map (fun tid => match nth_error (w_tables s) tid with Some t => [t] | None => [] end) (a_tables a) in
    let frees := flat_map (fun tid => match nth_error (w_tables s) tid with Some t => [t] | None => [] end) (a_free a) in
    [Zn (length (a_comps a)); Zn (a_numrel a); Zn (length (a_free a));
     Zn (fold_left (fun acc t => acc + t_len t) tabs 0);
     Zn (fold_left (fun acc t => acc + t_cap t) (tabs ++ frees) 0);
     Zn (length tabs)] ++
    flat_map (fun t => [Zn (t_len t); Zn (t_cap t)]) tabs) (w_archs s).

Definition step_op (debug : bool) (o : op) : MW (list Z) :=
  match o with
  | ONewEntity =>
      check_locked ;;;
      e <- create_entity 0 ;;
      m <- arch_mask_of_table 0 ;;
      fire_create_entity_if_has e m ;;;
      ret (Zent e)
  | OUNew ids =>
      r <- new_entity ids [] ;;
      let '(e, m) := r in
      fire_create_entity_if_has e m ;;;
      ret (Zent e)
  | OUNewRel ids hrels =>
      rels <- resolveR hrels ;;
      r <- new_entity ids rels ;;
      let '(e, m) := r in
      fire_create_entity_if_has e m ;;;
      whenM (negb (is_nil rels)) (fire_create_entity_rel_if_has e m) ;;;
      ret (Zent e)
  | ONewEntities n nofn =>
      w_new_entities n (negb nofn) ;;; ret []
  | OCopy h =>
      e <- resolveH h ;;
      ne <- w_copy_entity e ;;
      ret (Zent ne)
  | OUAdd h ids =>
      e <- resolveH h ;;
      s <- get ;; guard (alive s e) EDead ;;;
      r <- w_add e ids [] ;;
      fire_add_if_has EvAddComponents e (fst r) (snd r) ;;; ret []
  | OUAddRel h ids hrels =>
      e <- resolveH h ;;
      s <- get ;; guard (alive s e) EDead ;;;
      rels <- resolveR hrels ;;
      r <- w_add e ids rels ;;
      fire_add_if_has EvAddComponents e (fst r) (snd r) ;;;
      whenM (negb (is_nil rels)) (fire_add_if_has EvAddRelations e (fst r) (snd r)) ;;;
      ret []
  | OURemove h ids =>
      e <- resolveH h ;;
      s <- get ;; guard (alive s e) EDead ;;;
      w_remove e ids ;;; ret []
  | OUExchange h add rem hrels =>
      e <- resolveH h ;;
      s <- get ;; guard (alive s e) EDead ;;;
      rels <- resolveR hrels ;;
      r <- w_exchange e add rem rels ;;
      whenM (negb (is_nil add)) (
        fire_add_if_has EvAddComponents e (fst r) (snd r) ;;;
        whenM (negb (is_nil rels)) (fire_add_if_has EvAddRelations e (fst r) (snd r))) ;;;
      ret []
  | OWrite h c v =>
      e <- resolveH h ;;
      a <- cell_of debug e c ;;
      let '(tid, ci, row) := a in
      write_cell tid ci row v ;;; ret []
  | OUSetRel h hrels =>
      e <- resolveH h ;;
      rels <- resolveR hrels ;;
      w_set_relations e rels ;;; ret []
  | ORemoveEntity h =>
      e <- resolveH h ;;
      check_locked ;;;
      storage_remove_entity e ;;; ret []
  | ORemoveEntities f hbrels nofn =>
      brels <- resolveR hbrels ;;
      br <- batch_rels f brels ;;
      w_remove_entities f br (negb nofn) ;;; ret []
  | OReset => w_reset ;;; ret []
  | OShrink stop0 => b <- w_shrink stop0 ;; ret [Zb b]
  | OFilterNew unsafe ids without excl hrels =>
      rels <- resolveR hrels ;;
      let m := mk_of_list ids in
      s <- get ;;
      whenM (negb unsafe) (to_relations m rels) ;;;
      let f := {| f_ids := ids; f_mask := m;
                  f_without := if excl then mk_not (cf_bits (w_cfg s)) m else mk_of_list without;
                  f_haswithout := (excl || negb (is_nil without))%bool;
                  f_cache := None; f_rels := rels; f_unsafe := unsafe |} in
      modify (fun s => s <| w_filters ::= fun l => l ++ [f] |>) ;;;
      ret [Zn (length (w_filters s))]
  | OFilterRegister f => filter_register f ;;; ret []
  | OFilterUnregister f => filter_unregister f ;;; ret []
  | OQueryAll f hrels =>
      rels <- resolveR hrels ;;
      rels <- resolve_relidx f rels ;;
      check_unsafe_rels f rels ;;;
      qi <- query_open f rels ;;
      cnt <- query_count qi ;;
      es <- (fix go (fuel : nat) (acc : list ent) : MW (list ent) :=
               match fuel with
               | O => ret acc
               | S fu =>
                   more <- query_next debug qi ;;
                   if more then e <- query_entity debug qi ;; go fu (acc ++ [e]) else ret acc
               end) (S cnt) [] ;;
      (* a query that yields more than Count() entities is closed by the harness *)
      query_close qi ;;;
      ret (Zn cnt :: Zn (length es) :: flat_map Zent es)
  | OQueryOpen f hrels =>
      rels <- resolveR hrels ;;
      rels <- resolve_relidx f rels ;;
      check_unsafe_rels f rels ;;;
      qi <- query_open f rels ;; ret [Zn qi]
  | OQueryNext q => b <- query_next debug q ;; ret [Zb b]
  | OQueryClose q => query_close q ;;; ret []
  | OQueryCount q => n <- query_count q ;; ret [Zn n]
  | OQueryEntityAt q i => e <- query_entity_at q i ;; ret (Zent e)
  | OQueryEntity q => e <- query_entity debug q ;; ret (Zent e)
  | OObsNew evt for_ with_ without excl cb =>
      s <- get ;;
      let o := {| o_event := evt; o_for := for_; o_withl := with_; o_withoutl := without; o_excl := excl;
                  o_comps := 0%N; o_with := 0%N; o_without := 0%N;
                  o_hascomps := false; o_haswith := false; o_haswithout := false; o_id := None; o_cb := cb |} in
      modify (fun s => s <| w_obs ::= fun l => l ++ [o] |>) ;;;
      ret [Zn (length (w_obs s))]
  | OObsRegister o => add_observer o ;;; ret []
  | OObsUnregister o => remove_observer o ;;; ret []
  | OEmit evt h comps =>
      e <- resolveH h ;;
      guard (Nat.leb evt 248) EMisuse ;;;
      s <- get ;;
      if negb (has_obs s evt) then ret []
      else
        let em := mk_of_list comps in
        m <- (if Nat.eqb (fst e) 0 then
                guard (mk_is_zero em) EMisuse ;;; arch_mask_of_table 0
              else
                guard (alive s e) EDead ;;;
                ix <- get_index e ;; arch_mask_of_table (fst ix)) ;;
        guard (mk_contains m em) EMissingComp ;;;
        _ <- fire_set evt e em m true ;; ret []
  | OMapSet h c v =>
      e <- resolveH h ;;
      a <- cell_of debug e c ;;
      let '(tid, ci, row) := a in
      write_cell tid ci row v ;;;
      s <- get ;;
      whenM (has_obs s EvSetComponents) (
        m <- arch_mask_of_table tid ;;
        _ <- fire_set EvSetComponents e (mk_of_list [c]) m true ;; ret tt) ;;;
      ret []
  | ONewBatch n ids hrels vals nofn =>
      rels <- resolveR hrels ;;
      w_new_batch n ids rels vals (negb nofn) ;;; ret []
  | OExchangeBatch f hbrels add rem hrels vals =>
      brels <- resolveR hbrels ;;
      rels <- resolveR hrels ;;
      br <- batch_rels f brels ;;
      to_relations (mk_of_list add) rels ;;;
      w_exchange_batch f br add rem rels vals ;;; ret []
  | OSetRelBatch f hbrels mids hrels =>
      brels <- resolveR hbrels ;;
      rels <- resolveR hrels ;;
      br <- batch_rels f brels ;;
      to_relations (mk_of_list mids) rels ;;;
      w_set_relations_batch f br rels ;;; ret []
  | OAlive h => e <- resolveH h ;; s <- get ;; ret [Zb (alive s e)]
  | OHas h c =>
      e <- resolveH h ;; s <- get ;; guard (alive s e) EDead ;;;
      ix <- get_index e ;; t <- getT (fst ix) ;;
      ret [Zb (match tbl_colidx t c with Some _ => true | None => false end)]
  | OGetRel h c =>
      e <- resolveH h ;;
      a <- cell_of debug e c ;;
      let '(tid, ci, _) := a in
      t <- getT tid ;;
      tg <- of_opt (nth_error (t_targets t) ci) EIndex ;;
      ret (Zent tg)
  | OIDs h =>
      e <- resolveH h ;; s <- get ;; guard (alive s e) EDead ;;;
      ix <- get_index e ;; t <- getT (fst ix) ;;
      ret (map Zn (t_ids t))
  | OGet h c =>
      e <- resolveH h ;;
      a <- cell_of debug e c ;;
      let '(tid, ci, row) := a in
      t <- getT tid ;;
      col <- of_opt (nth_error (t_cols t) ci) EIndex ;;
      ret [nth row col 0%Z]
  | OStats => s <- get ;; ret (stats_vec s)
  end.

(** Which operations hand out new handles through their batch callback. *)
Definition issues_from_log (o : op) : bool :=
  match o with ONewEntities _ _ | ONewBatch _ _ _ _ _ => true | _ => false end.

Definition returns_entity (o : op) : bool :=
  match o with ONewEntity | OUNew _ | OUNewRel _ _ | OCopy _ => true | _ => false end.

(** ** Observations *)

(** API-level view: for every handle ever issued whether it is alive and, if so, its
    components, values and relation targets; plus used-entity count and lock state. *)
Definition obs_api (s : W) : list Z :=
  Zn (length (w_issued s)) ::
  flat_map (fun e =>
    if alive s e then
      match snapshot_entity s e with
      | Some l => 1%Z :: l
      | None => [2%Z]
      end
    else [0%Z]) (w_issued s) ++
  [Zn (pool_len (w_pool s)); Zb (is_locked s)].

Definition Zlist (l : list nat) : list Z := Zn (length l) :: map Zn l.
Definition Zipool (p : ipool) : list Z := Zlist (ip p) ++ [Zn (inext p); Zn (iavail p)].
Definition Zamap (m : list (nat * list nat)) : list Z :=
  let m' := asort m in
  Zn (length m') :: flat_map (fun kv => Zn (fst kv) :: Zlist (snd kv)) m'.
Definition Zmask (m : mask) : list Z := Zlist (mk_to_list m 256).

Definition dump_table (t : table) : list Z :=
  [Zn (t_arch t); Zn (t_len t); Zn (t_cap t); Zb (t_free t)] ++
  (Zn (length (t_rels t)) :: flat_map (fun r : rel => Zn (fst r) :: Zent (snd r)) (t_rels t)) ++
  (Zn (length (t_targets t)) :: flat_map Zent (t_targets t)) ++
  flat_map Zent (firstn (t_len t) (t_ents t)) ++
  flat_map (fun col => col) (t_cols t).

Definition dump_arch (a : arch) : list Z :=
  Zlist (a_comps a) ++ Zlist (a_tables a) ++ Zlist (a_free a) ++ [Zn (a_numrel a)] ++
  flat_map Zamap (a_reltabs a) ++ Zamap (a_tgttabs a).

Definition dump (s : W) : list Z :=
  [Zn (length (pe (w_pool s))); Zn (pnext (w_pool s)); Zn (pavail (w_pool s))] ++
  flat_map Zent (pe (w_pool s)) ++
  (Zn (length (w_index s)) ::
   flat_map (fun ix : option nat * nat => [match fst ix with Some t => Zn t | None => (-1)%Z end; Zn (snd ix)]) (w_index s)) ++
  (Zn (length (w_istarget s)) :: map Zb (w_istarget s)) ++
  (Zn (length (w_tables s)) :: flat_map dump_table (w_tables s)) ++
  (Zn (length (w_archs s)) :: flat_map dump_arch (w_archs s)) ++
  Zlist (w_relarchs s) ++
  flat_map Zlist (w_compindex s) ++ map Zn (w_archcount s) ++ [Z.of_N (w_version s)] ++
  (Zn (length (w_centries s)) ::
   flat_map (fun addr => match nth_error (w_cheap s) addr with
                         | Some e => Zn (ce_id e) :: Zlist (ce_tables e)
                         | None => [(-1)%Z] end) (w_centries s)) ++
  Zipool (w_cpool s) ++
  Zmask (lk_mask (w_lock s)) ++ Zipool (lk_pool (w_lock s)) ++
  [Zn (w_ototal s); Zn (w_omax s)] ++
  (let evs := filter (fun ev => (negb (is_nil (olist s ev)) || has_obs s ev)%bool) (seq 0 256) in
   Zn (length evs) ::
   flat_map (fun ev =>
     let g := get_agg s ev in
     Zn ev :: Zlist (flat_map (fun oi => match nth_error (w_obs s) oi with
                                         | Some o => match o_id o with Some i => [i] | None => [] end
                                         | None => [] end) (olist s ev)) ++
     [Zb (g_has g)] ++ Zmask (g_allcomps g) ++ Zmask (g_allwith g) ++ [Zb (g_anynocomps g); Zb (g_anynowith g)]) evs) ++
  Zipool (w_opool s).

(** One step: result line = [err; results...] followed by the callback log entries
    (each prefixed by its length), the API view and (if requested) the internal dump. *)
Definition flatten_log (lg : list (list Z)) : list Z :=
  Zn (length lg) :: flat_map (fun l => Zn (length l) :: l) lg.

Definition step (debug with_dump : bool) (s : W) (line : list Z) : W * list Z :=
  match decode_op line with
  | None => (s, [(-1)%Z])
  | Some o =>
      let r := step_op debug o (s <| w_log := [] |>) in
      let s1 := state_of r in
      let lg := w_log s1 in
      let s2 := if (issues_from_log o && negb (is_err r))%bool
                then s1 <| w_issued ::= fun l => l ++ logged_entities lg |> else s1 in
      let s3 := match r with
                | Ok (i :: g :: _) _ =>
                    if returns_entity o then s2 <| w_issued ::= fun l => l ++ [(Z.to_nat i, Z.to_N g)] |> else s2
                | _ => s2
                end in
      let s4 := s3 <| w_log := [] |> in
      let head := match r with Ok res _ => 0%Z :: Zn (length res) :: res | Err _ _ => [1%Z; 0%Z] end in
      (s4, head ++ flatten_log lg ++ obs_api s4 ++ (if with_dump then dump s4 else []))
  end.

Fixpoint run_lines (debug with_dump : bool) (s : W) (lines : list (list Z)) : list (list Z) :=
  match lines with
  | [] => []
  | l :: rest => let '(s', out) := step debug with_dump s l in out :: run_lines debug with_dump s' rest
  end.

(** A script: first line configuration, second line [with_dump], then one operation per line. *)
Definition run_script (lines : list (list Z)) : list (list Z) :=
  match lines with
  | cfg :: [wd] :: ops =>
      match decode_cfg cfg with
      | Some c => run_lines (sc_debug c) (negb (Z.eqb wd 0)) (init_world c) ops
      | None => [[(-2)%Z]]
      end
  | _ => [[(-2)%Z]]
  end.
