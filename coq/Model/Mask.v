(** * Mask: bit masks of component IDs.

    The world model uses one arbitrary-precision [N] per mask ([mk_*] below).
    [Mask256]/[Mask64] model the two Go implementations word by word
    (mask256.go, mask64.go); Proofs/MaskProofs.v shows that both refine [mk_*]
    through [m256_to_N]/[m64_to_N] for all component IDs below their width. *)
From Ark Require Import Model.Base.

Definition mask := N.

Definition mk_get (m : mask) (i : nat) : bool := N.testbit m (N.of_nat i).
Definition mk_set (m : mask) (i : nat) : mask := N.setbit m (N.of_nat i).
Definition mk_clear (m : mask) (i : nat) : mask := N.clearbit m (N.of_nat i).
Definition mk_or (a b : mask) : mask := N.lor a b.
Definition mk_contains (a b : mask) : bool := N.eqb (N.land a b) b.          (* b subset of a *)
Definition mk_contains_any (a b : mask) : bool := negb (N.eqb (N.land a b) 0).
Definition mk_not (bits : nat) (m : mask) : mask := N.lxor m (N.ones (N.of_nat bits)).
Definition mk_is_zero (m : mask) : bool := N.eqb m 0.
Definition mk_of_list (l : list nat) : mask := fold_left mk_set l 0%N.

(** Ascending list of the set bits below [n] (Go: [toTypes], bounded by the registered count). *)
Fixpoint mk_to_list_from (m : mask) (i n : nat) : list nat :=
  match n with
  | O => []
  | S n' => if mk_get m i then i :: mk_to_list_from m (S i) n' else mk_to_list_from m (S i) n'
  end.
Definition mk_to_list (m : mask) (n : nat) : list nat := mk_to_list_from m 0 n.

(** ** Word-level model of bitMask256 (mask256.go) *)

Definition w64 : N := 18446744073709551616%N.        (* 2^64 *)
Definition wnot (x : N) : N := N.lxor x (N.ones 64).  (* Go: ^x on uint64 *)

Record m256 := { b0 : N; b1 : N; b2 : N; b3 : N }.

Definition m256_zero : m256 := {| b0 := 0; b1 := 0; b2 := 0; b3 := 0 |}.
Definition m256_word (b : m256) (idx : N) : N :=
  match idx with 0%N => b0 b | 1%N => b1 b | 2%N => b2 b | _ => b3 b end.
Definition m256_setword (b : m256) (idx : N) (x : N) : m256 :=
  match idx with
  | 0%N => {| b0 := x; b1 := b1 b; b2 := b2 b; b3 := b3 b |}
  | 1%N => {| b0 := b0 b; b1 := x; b2 := b2 b; b3 := b3 b |}
  | 2%N => {| b0 := b0 b; b1 := b1 b; b2 := x; b3 := b3 b |}
  | _ => {| b0 := b0 b; b1 := b1 b; b2 := b2 b; b3 := x |}
  end.

(** bit is a uint8: [idx := bit >> 6], [mask := 1 << (bit & 63)]. *)
Definition m256_get (b : m256) (bit : N) : bool :=
  let idx := N.shiftr bit 6 in
  let mk := N.shiftl 1 (N.land bit 63) in
  N.eqb (N.land (m256_word b idx) mk) mk.
Definition m256_set (b : m256) (bit : N) : m256 :=
  let idx := N.shiftr bit 6 in
  let mk := N.shiftl 1 (N.land bit 63) in
  m256_setword b idx (N.lor (m256_word b idx) mk).
Definition m256_clear (b : m256) (bit : N) : m256 :=
  let idx := N.shiftr bit 6 in
  let mk := N.shiftl 1 (N.land bit 63) in
  m256_setword b idx (N.land (m256_word b idx) (wnot mk)).   (* &^= *)
Definition m256_not (b : m256) : m256 :=
  {| b0 := wnot (b0 b); b1 := wnot (b1 b); b2 := wnot (b2 b); b3 := wnot (b3 b) |}.
Definition m256_or (a b : m256) : m256 :=
  {| b0 := N.lor (b0 a) (b0 b); b1 := N.lor (b1 a) (b1 b);
     b2 := N.lor (b2 a) (b2 b); b3 := N.lor (b3 a) (b3 b) |}.
Definition m256_is_zero (b : m256) : bool :=
  N.eqb (b0 b) 0 && N.eqb (b1 b) 0 && N.eqb (b2 b) 0 && N.eqb (b3 b) 0.
Definition m256_contains (b o : m256) : bool :=
  N.eqb (N.land (b0 b) (b0 o)) (b0 o) && N.eqb (N.land (b1 b) (b1 o)) (b1 o) &&
  N.eqb (N.land (b2 b) (b2 o)) (b2 o) && N.eqb (N.land (b3 b) (b3 o)) (b3 o).
Definition m256_contains_any (b o : m256) : bool :=
  negb (N.eqb (N.land (b0 b) (b0 o)) 0) || negb (N.eqb (N.land (b1 b) (b1 o)) 0) ||
  negb (N.eqb (N.land (b2 b) (b2 o)) 0) || negb (N.eqb (N.land (b3 b) (b3 o)) 0).
Definition m256_equals (a b : m256) : bool :=
  N.eqb (b0 a) (b0 b) && N.eqb (b1 a) (b1 b) && N.eqb (b2 a) (b2 b) && N.eqb (b3 a) (b3 b).

Definition m256_to_N (b : m256) : N :=
  N.lor (b0 b) (N.lor (N.shiftl (b1 b) 64) (N.lor (N.shiftl (b2 b) 128) (N.shiftl (b3 b) 192))).

(** [toTypes] as repaired (mask256.go): scan the four words; in word [i] look at
    [min(total - 64 i, 64)] bits (none if that is not positive). *)
Fixpoint m256_scan (b : m256) (base : nat) (j cnt : nat) : list nat :=
  match cnt with
  | O => []
  | S c => if m256_get b (N.of_nat (base + j)) then (base + j) :: m256_scan b base (S j) c
           else m256_scan b base (S j) c
  end.
Definition m256_to_types (b : m256) (total : nat) : list nat :=
  flat_map (fun i =>
    if N.eqb (m256_word b (N.of_nat i)) 0 then []
    else m256_scan b (64 * i) 0 (Nat.min (total - 64 * i) 64)) [0; 1; 2; 3].

(** ** Word-level model of bitMask64 (mask64.go), for bits below 64 *)

Definition m64_get (b : N) (bit : N) : bool :=
  let mk := N.modulo (N.shiftl 1 bit) w64 in N.eqb (N.land b mk) mk.
Definition m64_set (b : N) (bit : N) : N := N.lor b (N.modulo (N.shiftl 1 bit) w64).
Definition m64_clear (b : N) (bit : N) : N := N.land b (wnot (N.modulo (N.shiftl 1 bit) w64)).
Definition m64_not (b : N) : N := wnot b.
Definition m64_or (a b : N) : N := N.lor a b.
Definition m64_contains (b o : N) : bool := N.eqb (N.land b o) o.
Definition m64_contains_any (b o : N) : bool := negb (N.eqb (N.land b o) 0).
Fixpoint m64_scan (b : N) (j cnt : nat) : list nat :=
  match cnt with
  | O => []
  | S c => if m64_get b (N.of_nat j) then j :: m64_scan b (S j) c else m64_scan b (S j) c
  end.
Definition m64_to_types (b : N) (total : nat) : list nat :=
  if N.eqb b 0 then [] else m64_scan b 0 total.
