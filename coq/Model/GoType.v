(** * GoType: the shape of Go types as far as util.go's isTrivial looks at them. *)
From Ark Require Import Model.Base.

Inductive gotype :=
| TScalar                       (* bool, ints, floats, complex, uintptr, unsafe.Pointer is not used by components *)
| TPtr | TSlice | TMap | TChan | TIface | TString | TFunc
| TStruct (fields : list gotype)
| TArray (n : nat) (elem : gotype).

(** isTrivial (util.go): false for pointer, slice, map, chan, interface, string themselves; structs and
    arrays are inspected recursively; everything else (incl. func, which the code does not list) is trivial. *)
Fixpoint is_trivial (t : gotype) : bool :=
  match t with
  | TPtr | TSlice | TMap | TChan | TIface | TString => false
  | TStruct fs => (fix all (l : list gotype) : bool :=
                     match l with [] => true | f :: r => (is_trivial f && all r)%bool end) fs
  | TArray _ e => is_trivial e
  | TScalar | TFunc => true
  end.

(** The kinds the garbage collector must see as pointers and that isTrivial recognises. *)
Inductive pointerish : gotype -> Prop :=
| P_ptr : pointerish TPtr | P_slice : pointerish TSlice | P_map : pointerish TMap
| P_chan : pointerish TChan | P_iface : pointerish TIface | P_string : pointerish TString
| P_field : forall fs f, In f fs -> pointerish f -> pointerish (TStruct fs)
| P_elem : forall n e, pointerish e -> pointerish (TArray n e).
