(** * GoType: the shape of Go types as far as util.go's isTrivial looks at them. *)
From Ark Require Import Model.Base.

Inductive gotype :=
| TScalar                       (* bool, ints, floats, complex, uintptr *)
| TPtr | TSlice | TMap | TChan | TIface | TString | TFunc | TUnsafePtr
| TStruct (fields : list gotype)
| TArray (n : nat) (elem : gotype).

(** isTrivial (util.go): false for pointer, slice, map, chan, interface, string, func and unsafe.Pointer
    themselves; structs and arrays are inspected recursively; everything else is trivial.
    (func and unsafe.Pointer were missing from the code's list until fix 65b60f3: a component holding only a
    closure was moved without write barriers and the collector lost it.) *)
Fixpoint is_trivial (t : gotype) : bool :=
  match t with
  | TPtr | TSlice | TMap | TChan | TIface | TString | TFunc | TUnsafePtr => false
  | TStruct fs => (fix all (l : list gotype) : bool :=
                     match l with [] => true | f :: r => (is_trivial f && all r)%bool end) fs
  | TArray _ e => is_trivial e
  | TScalar => true
  end.

(** The kinds the garbage collector must see as pointers: every Go kind whose representation contains a
    pointer word (reflect.Kind: Pointer, Slice, Map, Chan, Interface, String, Func, UnsafePointer). *)
Inductive pointerish : gotype -> Prop :=
| P_ptr : pointerish TPtr | P_slice : pointerish TSlice | P_map : pointerish TMap
| P_chan : pointerish TChan | P_iface : pointerish TIface | P_string : pointerish TString
| P_func : pointerish TFunc | P_unsafe : pointerish TUnsafePtr
| P_field : forall fs f, In f fs -> pointerish f -> pointerish (TStruct fs)
| P_elem : forall n e, pointerish e -> pointerish (TArray n e).
