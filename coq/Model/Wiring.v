(** * Wiring: the data model of the generated generic API (maps_gen.go, query_gen.go, filter_gen.go,
    exchange_gen.go, observers_gen.go, query_*debug_gen.go).

    The typed API of arity N is ID-based code plus WIRING: which type parameter (0 = A, 1 = B, ...)
    every lettered field, local, type argument and literal index of a statement refers to. The
    translator harness/cmd/wiring extracts one [wunit] per assignment whose left side is lettered
    ([WAssign]: tags of the left side, tags of the right side), per multi-valued return and
    composite literal ([WList]: tags per element, in order) and per call with several lettered
    arguments ([WArgs]) from /repo's current source into build/WiringData.v on every run. *)
From Coq Require Import List Arith Bool.
Import ListNotations.

Inductive wkind := WAssign | WList | WArgs.
Record wunit := mk_wunit { wu_kind : wkind; wu_line : nat; wu_lhs : list nat; wu_elems : list (list nat) }.

Definition all_eq (k : nat) (l : list nat) : bool := forallb (Nat.eqb k) l.

(** strictly ascending single tags; untagged elements are skipped; an element with several tags is
    inconsistent *)
Fixpoint ascending (prev : option nat) (elems : list (list nat)) : bool :=
  match elems with
  | [] => true
  | [] :: rest => ascending prev rest
  | [t] :: rest =>
      (match prev with None => true | Some p => Nat.ltb p t end) && ascending (Some t) rest
  | _ :: _ => false
  end.

Definition unit_ok (u : wunit) : bool :=
  match wu_kind u with
  | WAssign =>
      match wu_lhs u with
      | [k] => forallb (all_eq k) (wu_elems u)
      | _ => true
      end
  | WList => ascending None (wu_elems u)
  | WArgs =>
      match concat (wu_elems u) with
      | [] => true
      | k :: rest => all_eq k rest || ascending None (wu_elems u)
      end
  end.

(** ** What the wiring means: the typed accessors as ID-based accessors composed with a wiring.

    A typed accessor of arity [n] over component list [ids] hands out, at position [i], the result
    of the ID-based accessor for component [nth (w i) ids]: [w] is the wiring of that accessor. *)
Definition typed_get {V} (get : nat -> V) (ids : list nat) (w : list nat) : list V :=
  map (fun k => get (nth k ids 0)) w.
Definition id_get {V} (get : nat -> V) (ids : list nat) : list V := map get ids.
