package sim

import (
	"fmt"
	"reflect"
	"unsafe"

	"github.com/mlange-42/ark/ecs"
)

// Config is the first line of a script.
type Config struct {
	Cap, CapRel int
	Bits        int
	Debug       bool
	Codes       []int // type code per component ID
	WithDump    bool
}

func (c Config) Line() []int64 {
	d := int64(0)
	if c.Debug {
		d = 1
	}
	out := []int64{int64(c.Cap), int64(c.CapRel), int64(c.Bits), d, int64(len(c.Codes))}
	for _, k := range c.Codes {
		out = append(out, int64(k))
	}
	return out
}

type queryObj interface {
	Next() bool
	Entity() ecs.Entity
	Close()
	Count() int
	EntityAt(int) ecs.Entity
}

type filterObj struct {
	unsafe  bool
	f0      *ecs.Filter0
	uf      ecs.UnsafeFilter
	ids     []int
	without []int
	excl    bool
	rels    [][2]int64
}

type observerObj struct {
	obs        *ecs.Observer
	evt        int
	cb         int
	registered bool
	rejected   bool // the last Register call panicked: the library left the object with a stale id
	Foreign    bool // rejected before the last Reset: like a pre-Reset handle, not used any more (known finding)
}

// Sim is one world under test plus the user-side objects a script refers to by index.
type Sim struct {
	Cfg        Config
	W          *ecs.World
	IDs        []ecs.ID
	Types      []reflect.Type
	Issued     []ecs.Entity
	Filters    []*filterObj
	Queries    []queryObj
	Observers  []*observerObj
	setters    map[int]mapSetter
	mappers    map[string]batchMapper
	exchanges  map[string]batchExchange
	cbFilter   *ecs.Filter0
	log        [][]int64
	lastEntity ecs.Entity
	cbEntities []ecs.Entity
	// GoChecks collects violations detected by the harness itself (access paths that must
	// agree inside the implementation, e.g. Map.Get vs Unsafe.Get).
	GoChecks []string
}

// NewSimOn wraps an existing world (whose component types were registered in the configured order)
// with fresh user-side bookkeeping: used for the twin comparison of a reset world with a new one.
func NewSimOn(cfg Config, w *ecs.World) *Sim {
	s := &Sim{Cfg: cfg, W: w, setters: map[int]mapSetter{}, mappers: map[string]batchMapper{}, exchanges: map[string]batchExchange{}}
	for i, code := range cfg.Codes {
		tp := typeOfCode(code)
		id := ecs.TypeID(w, tp)
		if int(id.Index()) != i {
			panic(fmt.Sprintf("component %d got id %d", i, id.Index()))
		}
		s.IDs = append(s.IDs, id)
		s.Types = append(s.Types, tp)
	}
	s.cbFilter = ecs.NewFilter0(w)
	return s
}

// NewSim creates a world and registers the component types in the configured order.
func NewSim(cfg Config) *Sim {
	if cfg.Bits != ecs.VerifMaskBits {
		panic(fmt.Sprintf("script wants %d mask bits, build has %d", cfg.Bits, ecs.VerifMaskBits))
	}
	if cfg.Debug != ecs.VerifIsDebug {
		panic(fmt.Sprintf("script debug=%v, build debug=%v", cfg.Debug, ecs.VerifIsDebug))
	}
	w := ecs.NewWorld(cfg.Cap, cfg.CapRel)
	s := &Sim{Cfg: cfg, W: w, setters: map[int]mapSetter{}, mappers: map[string]batchMapper{}, exchanges: map[string]batchExchange{}}
	for i, code := range cfg.Codes {
		tp := typeOfCode(code)
		id := ecs.TypeID(w, tp)
		if int(id.Index()) != i {
			panic(fmt.Sprintf("component %d got id %d", i, id.Index()))
		}
		s.IDs = append(s.IDs, id)
		s.Types = append(s.Types, tp)
	}
	s.cbFilter = ecs.NewFilter0(w)
	return s
}

func (s *Sim) codeOf(comp int) int { return s.Cfg.Codes[comp] }

// compOfCode returns the component ID registered for a type code, or -1.
func (s *Sim) compOfCode(code int) int {
	for i, c := range s.Cfg.Codes {
		if c == code {
			return i
		}
	}
	return -1
}

func (s *Sim) handle(h int64) ecs.Entity {
	if h < 0 {
		return ecs.Entity{}
	}
	if int(h) >= len(s.Issued) {
		panic("script error: unknown handle")
	}
	return s.Issued[h]
}

func (s *Sim) ids(l []int64) []ecs.ID {
	out := make([]ecs.ID, len(l))
	for i, c := range l {
		out[i] = s.IDs[c]
	}
	return out
}

func (s *Sim) rels(l [][2]int64) []ecs.Relation {
	out := make([]ecs.Relation, len(l))
	for i, r := range l {
		if r[0] >= 1000 {
			// misuse: a relation given by index to the ID-based API (queries of UnsafeFilter / Filter0)
			out[i] = ecs.RelIdx(int(r[0]-1000), s.handle(r[1]))
			continue
		}
		out[i] = ecs.RelID(s.IDs[r[0]], s.handle(r[1]))
	}
	return out
}

func (s *Sim) comps(l []int64) []ecs.Comp {
	out := make([]ecs.Comp, len(l))
	for i, c := range l {
		out[i] = ecs.VerifComp(s.Types[c])
	}
	return out
}

func b2i(b bool) int64 {
	if b {
		return 1
	}
	return 0
}

// snapshot: [ncomps; (comp, value, target id, target gen)*] of an alive entity.
func (s *Sim) snapshot(e ecs.Entity) []int64 {
	u := s.W.Unsafe()
	ids := u.IDs(e)
	out := []int64{int64(ids.Len())}
	for i := 0; i < ids.Len(); i++ {
		id := ids.Get(i)
		c := int(id.Index())
		var v int64
		if !codeIsZero(s.codeOf(c)) {
			p := u.Get(e, id)
			v = readCell(p)
			if st := s.setter(c); st != nil {
				if st.Get(e) != p {
					s.GoChecks = append(s.GoChecks, fmt.Sprintf("Map.Get and Unsafe.Get disagree for entity %v component %d", e, c))
				}
			}
		}
		tg := u.GetRelation(e, id)
		out = append(out, int64(c), v, int64(tg.ID()), int64(tg.Gen()))
	}
	return out
}

func (s *Sim) setter(comp int) mapSetter {
	if st, ok := s.setters[comp]; ok {
		return st
	}
	st := newMapSetter(s.W, s.codeOf(comp))
	s.setters[comp] = st
	return st
}

// callback installed on every observer (mirrors run_callback in World.v).
func (s *Sim) makeCallback(oi int) func(ecs.Entity) {
	return func(e ecs.Entity) {
		locked := s.W.IsLocked()
		alive := s.W.Alive(e)
		cnt := 0
		var view []int64 // world_view in World.v: every row a full query lists, as entity + snapshot
		q := s.cbFilter.Query()
		for q.Next() {
			x := q.Entity()
			if x == e {
				cnt++
			}
			view = append(view, int64(x.ID()), int64(x.Gen()))
			view = append(view, s.snapshot(x)...)
		}
		entry := []int64{100, int64(oi), int64(e.ID()), int64(e.Gen()), b2i(locked), b2i(alive), int64(cnt)}
		if alive {
			entry = append(entry, s.snapshot(e)...)
		}
		entry = append(entry, view...)
		s.log = append(s.log, entry)
		o := s.Observers[oi]
		switch {
		case o.cb == 1:
			if o.registered {
				o.obs.Unregister(s.W)
				o.registered = false
			}
		case o.cb >= 2:
			k := o.cb - 2
			if k < len(s.Observers) && s.Observers[k].registered {
				s.Observers[k].obs.Unregister(s.W)
				s.Observers[k].registered = false
			}
		}
	}
}

func (s *Sim) batchCb(e ecs.Entity) {
	s.cbEntities = append(s.cbEntities, e)
	s.log = append(s.log, []int64{101, int64(e.ID()), int64(e.Gen())})
}

// APIView mirrors obs_api in Run.v.
func (s *Sim) APIView() []int64 {
	out := []int64{int64(len(s.Issued))}
	for _, e := range s.Issued {
		if s.W.Alive(e) {
			var snap []int64
			func() {
				defer func() {
					if r := recover(); r != nil {
						snap = nil
					}
				}()
				snap = s.snapshot(e)
			}()
			if snap == nil {
				out = append(out, 2)
			} else {
				out = append(out, 1)
				out = append(out, snap...)
			}
		} else {
			out = append(out, 0)
		}
	}
	st := s.W.Stats()
	out = append(out, int64(st.Entities.Used), b2i(s.W.IsLocked()))
	return out
}

func (s *Sim) statsVec() []int64 {
	st := s.W.Stats()
	out := []int64{int64(st.Entities.Used), int64(st.Entities.Total), int64(st.Entities.Recycled),
		b2i(st.Locked), int64(st.CachedFilters), int64(st.Observers), int64(len(st.Archetypes))}
	for i := range st.Archetypes {
		a := &st.Archetypes[i]
		out = append(out, int64(len(a.ComponentIDs)), int64(a.NumRelations), int64(a.FreeTables),
			int64(a.Size), int64(a.Capacity), int64(len(a.Tables)))
		for j := range a.Tables {
			out = append(out, int64(a.Tables[j].Size), int64(a.Tables[j].Capacity))
		}
	}
	return out
}

// ---- argument parsing ----

type reader struct {
	l   []int64
	pos int
}

func (r *reader) num() int64 {
	if r.pos >= len(r.l) {
		panic("script error: short line")
	}
	v := r.l[r.pos]
	r.pos++
	return v
}

// flag reads the optional trailing flag of ops 3, 12, 30 (absent = 0). Odd: no callback is passed;
// >= 2 (op 30, one component): the single-component Map[T] is used instead of Map1[T].
func (r *reader) flag() int64 {
	if r.pos >= len(r.l) {
		return 0
	}
	return r.num()
}
func (r *reader) list() []int64 {
	n := int(r.num())
	out := make([]int64, n)
	for i := range out {
		out[i] = r.num()
	}
	return out
}
func (r *reader) pairs() [][2]int64 {
	n := int(r.num())
	out := make([][2]int64, n)
	for i := range out {
		out[i][0] = r.num()
		out[i][1] = r.num()
	}
	return out
}

func entRes(e ecs.Entity) []int64 { return []int64{int64(e.ID()), int64(e.Gen())} }

func (s *Sim) created(e ecs.Entity) []int64 {
	s.lastEntity = e
	return entRes(e)
}

func (s *Sim) codesOf(comps []int64) []int {
	out := make([]int, len(comps))
	for i, c := range comps {
		out[i] = s.codeOf(int(c))
	}
	return out
}

func (s *Sim) mapper(comps []int64) batchMapper {
	codes := s.codesOf(comps)
	key := fmt.Sprint(codes)
	if m, ok := s.mappers[key]; ok {
		return m
	}
	m := newBatchMapper(s.W, codes)
	if m == nil {
		panic("script error: no typed mapper for " + key)
	}
	s.mappers[key] = m
	return m
}

func (s *Sim) exchange(add, rem []int64) batchExchange {
	key := fmt.Sprint(s.codesOf(add), s.codesOf(rem))
	if m, ok := s.exchanges[key]; ok {
		return m
	}
	m := newBatchExchange(s.W, s.codesOf(add), s.codesOf(rem))
	if m == nil {
		panic("script error: no typed exchange for " + key)
	}
	s.exchanges[key] = m
	return m
}

// valsCb builds the batch callback that logs the entity and stores the given values through the
// component pointers (position i of the mapper corresponds to comps[i]).
func (s *Sim) valsCb(comps []int64, vals [][2]int64) func(ecs.Entity, []unsafe.Pointer) {
	return func(e ecs.Entity, ptrs []unsafe.Pointer) {
		s.batchCb(e)
		for _, cv := range vals {
			for i, c := range comps {
				if c == cv[0] && !codeIsZero(s.codeOf(int(c))) {
					writeCell(ptrs[i], cv[1])
				}
			}
		}
	}
}

func (s *Sim) filterBatch(f *filterObj, rels []ecs.Relation) ecs.Batch {
	if f.unsafe {
		panic("script error: batch from unsafe filter")
	}
	return f.f0.Batch(rels...)
}

// exec runs one operation; it panics exactly when the library panics.
func (s *Sim) exec(line []int64) []int64 {
	r := &reader{l: line}
	w := s.W
	u := w.Unsafe()
	switch code := r.num(); code {
	case 0:
		return s.created(w.NewEntity())
	case 1:
		return s.created(u.NewEntity(s.ids(r.list())...))
	case 2:
		ids := s.ids(r.list())
		return s.created(u.NewEntityRel(ids, s.rels(r.pairs())...))
	case 3:
		n := int(r.num())
		if r.flag()%2 == 1 {
			w.NewEntities(n, nil)
		} else {
			w.NewEntities(n, s.batchCb)
		}
	case 4:
		return s.created(w.CopyEntity(s.handle(r.num())))
	case 5:
		e := s.handle(r.num())
		u.Add(e, s.ids(r.list())...)
	case 6:
		e := s.handle(r.num())
		ids := s.ids(r.list())
		u.AddRel(e, ids, s.rels(r.pairs())...)
	case 7:
		e := s.handle(r.num())
		u.Remove(e, s.ids(r.list())...)
	case 8:
		e := s.handle(r.num())
		add := s.ids(r.list())
		rem := s.ids(r.list())
		u.Exchange(e, add, rem, s.rels(r.pairs())...)
	case 9:
		e := s.handle(r.num())
		c := int(r.num())
		v := r.num()
		p := u.Get(e, s.IDs[c])
		if codeIsZero(s.codeOf(c)) {
			_ = p
		} else {
			writeCell(p, v)
		}
	case 10:
		e := s.handle(r.num())
		u.SetRelations(e, s.rels(r.pairs())...)
	case 11:
		w.RemoveEntity(s.handle(r.num()))
	case 12:
		f := s.Filters[r.num()]
		rels := s.rels(r.pairs())
		if r.flag()%2 == 1 {
			w.RemoveEntities(s.filterBatch(f, rels), nil)
		} else {
			w.RemoveEntities(s.filterBatch(f, rels), s.batchCb)
		}
	case 13:
		w.Reset()
		for _, o := range s.Observers {
			o.registered = false
			if o.rejected {
				o.Foreign = true
			}
		}
	case 14:
		if r.num() != 0 {
			return []int64{b2i(w.Shrink(0))}
		}
		return []int64{b2i(w.Shrink())}
	case 15:
		uns := r.num() != 0
		ids := r.list()
		without := r.list()
		excl := r.num() != 0
		relPairs := r.pairs()
		rels := s.rels(relPairs)
		fo := &filterObj{unsafe: uns, excl: excl, rels: relPairs}
		for _, c := range ids {
			fo.ids = append(fo.ids, int(c))
		}
		for _, c := range without {
			fo.without = append(fo.without, int(c))
		}
		if uns {
			uf := ecs.NewUnsafeFilter(w, s.ids(ids)...)
			if len(without) > 0 {
				uf = uf.Without(s.ids(without)...)
			}
			if excl {
				uf = uf.Exclusive()
			}
			fo.uf = uf
		} else {
			f := ecs.NewFilter0(w).With(s.comps(ids)...)
			if len(without) > 0 {
				f = f.Without(s.comps(without)...)
			}
			if excl {
				f = f.Exclusive()
			}
			if len(rels) > 0 {
				f = f.Relations(rels...)
			}
			fo.f0 = f
		}
		s.Filters = append(s.Filters, fo)
		return []int64{int64(len(s.Filters) - 1)}
	case 16:
		f := s.Filters[r.num()]
		if f.unsafe {
			panic("script error: register unsafe filter")
		}
		f.f0.Register()
	case 17:
		f := s.Filters[r.num()]
		f.f0.Unregister()
	case 18:
		f := s.Filters[r.num()]
		rels := s.rels(r.pairs())
		q := s.openQuery(f, rels)
		s.Queries = append(s.Queries, q)
		cnt := q.Count()
		var es []ecs.Entity
		for i := 0; i < cnt+1; i++ {
			if !q.Next() {
				break
			}
			es = append(es, q.Entity())
		}
		q.Close()
		out := []int64{int64(cnt), int64(len(es))}
		for _, e := range es {
			out = append(out, entRes(e)...)
		}
		return out
	case 19:
		f := s.Filters[r.num()]
		rels := s.rels(r.pairs())
		q := s.openQuery(f, rels)
		s.Queries = append(s.Queries, q)
		return []int64{int64(len(s.Queries) - 1)}
	case 20:
		return []int64{b2i(s.Queries[r.num()].Next())}
	case 21:
		s.Queries[r.num()].Close()
	case 22:
		return []int64{int64(s.Queries[r.num()].Count())}
	case 23:
		q := s.Queries[r.num()]
		return entRes(q.EntityAt(int(r.num())))
	case 24:
		return entRes(s.Queries[r.num()].Entity())
	case 25:
		evt := int(r.num())
		for_ := r.list()
		with := r.list()
		without := r.list()
		excl := r.num() != 0
		cb := int(r.num())
		oi := len(s.Observers)
		o := ecs.Observe(ecs.EventType(evt)).For(s.comps(for_)...).With(s.comps(with)...).Without(s.comps(without)...)
		if excl {
			o = o.Exclusive()
		}
		o = o.Do(s.makeCallback(oi))
		s.Observers = append(s.Observers, &observerObj{obs: o, evt: evt, cb: cb})
		return []int64{int64(oi)}
	case 26:
		o := s.Observers[r.num()]
		o.rejected = !o.registered
		o.obs.Register(w)
		o.registered = true
		o.rejected = false
	case 27:
		o := s.Observers[r.num()]
		o.obs.Unregister(w)
		o.registered = false
	case 28:
		evt := ecs.EventType(r.num())
		e := s.handle(r.num())
		comps := s.comps(r.list())
		w.Event(evt).For(comps...).Emit(e)
	case 29:
		e := s.handle(r.num())
		c := int(r.num())
		v := r.num()
		st := s.setter(c)
		if st == nil {
			panic("script error: MapSet on a dynamic component")
		}
		st.Set(e, v)
	case 30:
		n := int(r.num())
		comps := r.list()
		relPairs := r.pairs()
		rels := s.rels(relPairs)
		vals := r.pairs()
		fl := r.flag()
		cb := s.valsCb(comps, vals)
		if fl%2 == 1 {
			cb = nil
		}
		single := fl >= 2 && len(comps) == 1 && (len(relPairs) == 0 || (len(relPairs) == 1 && relPairs[0][0] == comps[0]))
		if single {
			var targets []ecs.Entity
			for _, rl := range relPairs {
				targets = append(targets, s.handle(rl[1]))
			}
			var cb1 func(ecs.Entity, unsafe.Pointer)
			if cb != nil {
				cb1 = func(e ecs.Entity, p unsafe.Pointer) { cb(e, []unsafe.Pointer{p}) }
			}
			s.setter(int(comps[0])).NewBatchFn(n, cb1, targets...)
		} else {
			s.mapper(comps).NewBatchFn(n, cb, rels)
		}
	case 31:
		f := s.Filters[r.num()]
		brels := s.rels(r.pairs())
		add := r.list()
		rem := r.list()
		rels := s.rels(r.pairs())
		vals := r.pairs()
		batch := s.filterBatch(f, brels)
		switch {
		case len(add) > 0 && len(rem) == 0:
			s.mapper(add).AddBatchFn(batch, s.valsCb(add, vals), rels)
		case len(add) == 0 && len(rem) > 0:
			s.mapper(rem).RemoveBatch(batch, s.batchCb)
		case len(add) > 0 && len(rem) > 0:
			s.exchange(add, rem).ExchangeBatchFn(batch, s.valsCb(add, vals), rels)
		default:
			panic("script error: empty exchange batch")
		}
	case 32:
		f := s.Filters[r.num()]
		brels := s.rels(r.pairs())
		mids := r.list()
		rels := s.rels(r.pairs())
		batch := s.filterBatch(f, brels)
		s.mapper(mids).SetRelationsBatch(batch, s.batchCb, rels)
	case 33:
		return []int64{b2i(w.Alive(s.handle(r.num())))}
	case 34:
		e := s.handle(r.num())
		return []int64{b2i(u.Has(e, s.IDs[r.num()]))}
	case 35:
		e := s.handle(r.num())
		return entRes(u.GetRelation(e, s.IDs[r.num()]))
	case 36:
		ids := u.IDs(s.handle(r.num()))
		out := make([]int64, ids.Len())
		for i := range out {
			out[i] = int64(ids.Get(i).Index())
		}
		return out
	case 37:
		e := s.handle(r.num())
		c := int(r.num())
		p := u.Get(e, s.IDs[c])
		if codeIsZero(s.codeOf(c)) {
			return []int64{0}
		}
		return []int64{readCell(p)}
	case 38:
		return s.statsVec()
	default:
		panic(fmt.Sprintf("script error: unknown op %d", code))
	}
	return nil
}

func (s *Sim) openQuery(f *filterObj, rels []ecs.Relation) queryObj {
	if f.unsafe {
		q := f.uf.Query(rels...)
		return &q
	}
	q := f.f0.Query(rels...)
	return &q
}

func returnsEntity(code int64) bool { return code == 0 || code == 1 || code == 2 || code == 4 }
func issuesFromLog(code int64) bool { return code == 3 || code == 30 }

// Step executes one operation line and returns the observation line in the model's format.
func (s *Sim) Step(line []int64) []int64 {
	s.log = nil
	s.cbEntities = nil
	var res []int64
	failed := false
	func() {
		defer func() {
			if r := recover(); r != nil {
				if str, ok := r.(string); ok && len(str) > 13 && str[:13] == "script error:" {
					panic(r)
				}
				failed = true
			}
		}()
		res = s.exec(line)
	}()
	var out []int64
	if failed {
		out = []int64{1, 0}
	} else {
		out = append([]int64{0, int64(len(res))}, res...)
		if returnsEntity(line[0]) {
			s.Issued = append(s.Issued, s.lastEntity)
		}
		if issuesFromLog(line[0]) {
			s.Issued = append(s.Issued, s.cbEntities...)
		}
	}
	out = append(out, int64(len(s.log)))
	for _, l := range s.log {
		out = append(out, int64(len(l)))
		out = append(out, l...)
	}
	out = append(out, s.APIView()...)
	if s.Cfg.WithDump {
		out = append(out, w_dump(s.W)...)
	}
	if len(s.GoChecks) > 0 {
		out = append(out, -999)
	}
	return out
}

func w_dump(w *ecs.World) []int64 { return w.VerifDump() }
