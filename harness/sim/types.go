// Package sim drives the real ark library with integer-encoded operation scripts (the format
// decoded by the Coq model, coq/Model/Run.v) and prints the observations the model predicts.
package sim

import (
	"fmt"
	"reflect"
	"unsafe"

	"github.com/mlange-42/ark/ecs"
)

// Static component types. Type codes (see kind_of_code in Run.v):
// 0-3 plain, 4-5 non-trivial (contain a string), 6 zero-size, 7-8 relations, 9 zero-size relation,
// >=100 dynamically built plain types.
type A struct{ V int64 }
type B struct{ V int64 }
type C struct{ V int64 }
type D struct{ V int64 }
type N1 struct {
	V int64
	S string
}
type N2 struct {
	V int64
	S string
}
type Z0 struct{}
type R1 struct {
	ecs.RelationMarker
	V int64
}
type R2 struct {
	ecs.RelationMarker
	V int64
}
type RZ struct{ ecs.RelationMarker }

const (
	CodeA = iota
	CodeB
	CodeC
	CodeD
	CodeN1
	CodeN2
	CodeZ0
	CodeR1
	CodeR2
	CodeRZ
	CodeDyn = 100
)

func typeOfCode(code int) reflect.Type {
	switch code {
	case CodeA:
		return reflect.TypeFor[A]()
	case CodeB:
		return reflect.TypeFor[B]()
	case CodeC:
		return reflect.TypeFor[C]()
	case CodeD:
		return reflect.TypeFor[D]()
	case CodeN1:
		return reflect.TypeFor[N1]()
	case CodeN2:
		return reflect.TypeFor[N2]()
	case CodeZ0:
		return reflect.TypeFor[Z0]()
	case CodeR1:
		return reflect.TypeFor[R1]()
	case CodeR2:
		return reflect.TypeFor[R2]()
	case CodeRZ:
		return reflect.TypeFor[RZ]()
	}
	if code >= CodeDyn {
		return reflect.StructOf([]reflect.StructField{{Name: fmt.Sprintf("V%d", code), Type: reflect.TypeFor[int64]()}})
	}
	panic(fmt.Sprintf("unknown type code %d", code))
}

func codeIsRel(code int) bool  { return code == CodeR1 || code == CodeR2 || code == CodeRZ }
func codeIsZero(code int) bool { return code == CodeZ0 || code == CodeRZ }

func readCell(p unsafe.Pointer) int64     { return *(*int64)(p) }
func writeCell(p unsafe.Pointer, v int64) { *(*int64)(p) = v }

// setter for static Map[T].Set (the typed path that fires OnSetComponents).
type mapSetter interface {
	Set(e ecs.Entity, v int64)
	Get(e ecs.Entity) unsafe.Pointer
	// Map[T].NewBatchFn (cb may be nil: the callback-free path)
	NewBatchFn(count int, cb func(e ecs.Entity, p unsafe.Pointer), target ...ecs.Entity)
}

type ms[T any] struct{ m *ecs.Map[T] }

func (s ms[T]) Set(e ecs.Entity, v int64) {
	var t T
	if unsafe.Sizeof(t) > 0 {
		*(*int64)(unsafe.Pointer(&t)) = v
	}
	s.m.Set(e, &t)
}
func (s ms[T]) Get(e ecs.Entity) unsafe.Pointer { return unsafe.Pointer(s.m.Get(e)) }
func (s ms[T]) NewBatchFn(count int, cb func(ecs.Entity, unsafe.Pointer), target ...ecs.Entity) {
	if cb == nil {
		s.m.NewBatchFn(count, nil, target...)
		return
	}
	s.m.NewBatchFn(count, func(e ecs.Entity, a *T) { cb(e, unsafe.Pointer(a)) }, target...)
}

func newMapSetter(w *ecs.World, code int) mapSetter {
	switch code {
	case CodeA:
		return ms[A]{ecs.NewMap[A](w)}
	case CodeB:
		return ms[B]{ecs.NewMap[B](w)}
	case CodeC:
		return ms[C]{ecs.NewMap[C](w)}
	case CodeD:
		return ms[D]{ecs.NewMap[D](w)}
	case CodeN1:
		return ms[N1]{ecs.NewMap[N1](w)}
	case CodeN2:
		return ms[N2]{ecs.NewMap[N2](w)}
	case CodeZ0:
		return ms[Z0]{ecs.NewMap[Z0](w)}
	case CodeR1:
		return ms[R1]{ecs.NewMap[R1](w)}
	case CodeR2:
		return ms[R2]{ecs.NewMap[R2](w)}
	case CodeRZ:
		return ms[RZ]{ecs.NewMap[RZ](w)}
	}
	return nil
}

// Typed mappers for the batch operations, which only exist in the generic API.
type batchMapper interface {
	// cb may be nil (the callback-free path)
	NewBatchFn(count int, cb func(e ecs.Entity, ptrs []unsafe.Pointer), rels []ecs.Relation)
	AddBatchFn(b ecs.Batch, cb func(e ecs.Entity, ptrs []unsafe.Pointer), rels []ecs.Relation)
	RemoveBatch(b ecs.Batch, cb func(e ecs.Entity))
	SetRelationsBatch(b ecs.Batch, cb func(e ecs.Entity), rels []ecs.Relation)
}

type bm1[T1 any] struct{ m *ecs.Map1[T1] }

func (x bm1[T1]) NewBatchFn(count int, cb func(ecs.Entity, []unsafe.Pointer), rels []ecs.Relation) {
	if cb == nil {
		x.m.NewBatchFn(count, nil, rels...)
		return
	}
	x.m.NewBatchFn(count, func(e ecs.Entity, a *T1) { cb(e, []unsafe.Pointer{unsafe.Pointer(a)}) }, rels...)
}
func (x bm1[T1]) AddBatchFn(b ecs.Batch, cb func(ecs.Entity, []unsafe.Pointer), rels []ecs.Relation) {
	x.m.AddBatchFn(b, func(e ecs.Entity, a *T1) { cb(e, []unsafe.Pointer{unsafe.Pointer(a)}) }, rels...)
}
func (x bm1[T1]) RemoveBatch(b ecs.Batch, cb func(ecs.Entity)) { x.m.RemoveBatch(b, cb) }
func (x bm1[T1]) SetRelationsBatch(b ecs.Batch, cb func(ecs.Entity), rels []ecs.Relation) {
	x.m.SetRelationsBatch(b, cb, rels...)
}

type bm2[T1, T2 any] struct{ m *ecs.Map2[T1, T2] }

func (x bm2[T1, T2]) NewBatchFn(count int, cb func(ecs.Entity, []unsafe.Pointer), rels []ecs.Relation) {
	if cb == nil {
		x.m.NewBatchFn(count, nil, rels...)
		return
	}
	x.m.NewBatchFn(count, func(e ecs.Entity, a *T1, b *T2) {
		cb(e, []unsafe.Pointer{unsafe.Pointer(a), unsafe.Pointer(b)})
	}, rels...)
}
func (x bm2[T1, T2]) AddBatchFn(bt ecs.Batch, cb func(ecs.Entity, []unsafe.Pointer), rels []ecs.Relation) {
	x.m.AddBatchFn(bt, func(e ecs.Entity, a *T1, b *T2) {
		cb(e, []unsafe.Pointer{unsafe.Pointer(a), unsafe.Pointer(b)})
	}, rels...)
}
func (x bm2[T1, T2]) RemoveBatch(b ecs.Batch, cb func(ecs.Entity)) { x.m.RemoveBatch(b, cb) }
func (x bm2[T1, T2]) SetRelationsBatch(b ecs.Batch, cb func(ecs.Entity), rels []ecs.Relation) {
	x.m.SetRelationsBatch(b, cb, rels...)
}

type bm3[T1, T2, T3 any] struct{ m *ecs.Map3[T1, T2, T3] }

func (x bm3[T1, T2, T3]) NewBatchFn(count int, cb func(ecs.Entity, []unsafe.Pointer), rels []ecs.Relation) {
	if cb == nil {
		x.m.NewBatchFn(count, nil, rels...)
		return
	}
	x.m.NewBatchFn(count, func(e ecs.Entity, a *T1, b *T2, c *T3) {
		cb(e, []unsafe.Pointer{unsafe.Pointer(a), unsafe.Pointer(b), unsafe.Pointer(c)})
	}, rels...)
}
func (x bm3[T1, T2, T3]) AddBatchFn(bt ecs.Batch, cb func(ecs.Entity, []unsafe.Pointer), rels []ecs.Relation) {
	x.m.AddBatchFn(bt, func(e ecs.Entity, a *T1, b *T2, c *T3) {
		cb(e, []unsafe.Pointer{unsafe.Pointer(a), unsafe.Pointer(b), unsafe.Pointer(c)})
	}, rels...)
}
func (x bm3[T1, T2, T3]) RemoveBatch(b ecs.Batch, cb func(ecs.Entity)) { x.m.RemoveBatch(b, cb) }
func (x bm3[T1, T2, T3]) SetRelationsBatch(b ecs.Batch, cb func(ecs.Entity), rels []ecs.Relation) {
	x.m.SetRelationsBatch(b, cb, rels...)
}

// MapperMenu lists the type-code combinations for which a typed mapper exists in the harness.
var MapperMenu = [][]int{
	{CodeA}, {CodeB}, {CodeC}, {CodeD}, {CodeN1}, {CodeZ0}, {CodeR1}, {CodeR2}, {CodeRZ},
	{CodeA, CodeB}, {CodeA, CodeC}, {CodeB, CodeC}, {CodeA, CodeR1}, {CodeR1, CodeR2}, {CodeA, CodeN1}, {CodeB, CodeR2},
	{CodeA, CodeB, CodeC}, {CodeA, CodeR1, CodeR2},
}

func newBatchMapper(w *ecs.World, codes []int) batchMapper {
	key := fmt.Sprint(codes)
	switch key {
	case fmt.Sprint([]int{CodeA}):
		return bm1[A]{ecs.NewMap1[A](w)}
	case fmt.Sprint([]int{CodeB}):
		return bm1[B]{ecs.NewMap1[B](w)}
	case fmt.Sprint([]int{CodeC}):
		return bm1[C]{ecs.NewMap1[C](w)}
	case fmt.Sprint([]int{CodeD}):
		return bm1[D]{ecs.NewMap1[D](w)}
	case fmt.Sprint([]int{CodeN1}):
		return bm1[N1]{ecs.NewMap1[N1](w)}
	case fmt.Sprint([]int{CodeZ0}):
		return bm1[Z0]{ecs.NewMap1[Z0](w)}
	case fmt.Sprint([]int{CodeR1}):
		return bm1[R1]{ecs.NewMap1[R1](w)}
	case fmt.Sprint([]int{CodeR2}):
		return bm1[R2]{ecs.NewMap1[R2](w)}
	case fmt.Sprint([]int{CodeRZ}):
		return bm1[RZ]{ecs.NewMap1[RZ](w)}
	case fmt.Sprint([]int{CodeA, CodeB}):
		return bm2[A, B]{ecs.NewMap2[A, B](w)}
	case fmt.Sprint([]int{CodeA, CodeC}):
		return bm2[A, C]{ecs.NewMap2[A, C](w)}
	case fmt.Sprint([]int{CodeB, CodeC}):
		return bm2[B, C]{ecs.NewMap2[B, C](w)}
	case fmt.Sprint([]int{CodeA, CodeR1}):
		return bm2[A, R1]{ecs.NewMap2[A, R1](w)}
	case fmt.Sprint([]int{CodeR1, CodeR2}):
		return bm2[R1, R2]{ecs.NewMap2[R1, R2](w)}
	case fmt.Sprint([]int{CodeA, CodeN1}):
		return bm2[A, N1]{ecs.NewMap2[A, N1](w)}
	case fmt.Sprint([]int{CodeB, CodeR2}):
		return bm2[B, R2]{ecs.NewMap2[B, R2](w)}
	case fmt.Sprint([]int{CodeA, CodeB, CodeC}):
		return bm3[A, B, C]{ecs.NewMap3[A, B, C](w)}
	case fmt.Sprint([]int{CodeA, CodeR1, CodeR2}):
		return bm3[A, R1, R2]{ecs.NewMap3[A, R1, R2](w)}
	}
	return nil
}

// Typed exchanges (add set; remove set).
type batchExchange interface {
	ExchangeBatchFn(b ecs.Batch, cb func(e ecs.Entity, ptrs []unsafe.Pointer), rels []ecs.Relation)
}

type bx1[T1 any] struct{ x *ecs.Exchange1[T1] }

func (x bx1[T1]) ExchangeBatchFn(b ecs.Batch, cb func(ecs.Entity, []unsafe.Pointer), rels []ecs.Relation) {
	x.x.ExchangeBatchFn(b, func(e ecs.Entity, a *T1) { cb(e, []unsafe.Pointer{unsafe.Pointer(a)}) }, rels...)
}

type bx2[T1, T2 any] struct{ x *ecs.Exchange2[T1, T2] }

func (x bx2[T1, T2]) ExchangeBatchFn(bt ecs.Batch, cb func(ecs.Entity, []unsafe.Pointer), rels []ecs.Relation) {
	x.x.ExchangeBatchFn(bt, func(e ecs.Entity, a *T1, b *T2) {
		cb(e, []unsafe.Pointer{unsafe.Pointer(a), unsafe.Pointer(b)})
	}, rels...)
}

// ExchangeMenu: (added codes, removed codes).
var ExchangeMenu = [][2][]int{
	{{CodeB}, {CodeA}}, {{CodeC}, {CodeA}}, {{CodeC}, {CodeB}}, {{CodeA}, {CodeB}},
	{{CodeB, CodeC}, {CodeA}}, {{CodeC}, {CodeA, CodeB}},
	{{CodeR1}, {CodeR2}}, {{CodeR2}, {CodeR1}}, {{CodeA}, {CodeR1}}, {{CodeR1}, {CodeA}},
	{{CodeN1}, {CodeA}}, {{CodeA, CodeR1}, {CodeB}},
}

func compsOf(codes []int) []ecs.Comp {
	out := make([]ecs.Comp, len(codes))
	for i, c := range codes {
		out[i] = ecs.VerifComp(typeOfCode(c))
	}
	return out
}

func newBatchExchange(w *ecs.World, add, rem []int) batchExchange {
	key := fmt.Sprint(add)
	r := compsOf(rem)
	switch key {
	case fmt.Sprint([]int{CodeA}):
		return bx1[A]{ecs.NewExchange1[A](w).Removes(r...)}
	case fmt.Sprint([]int{CodeB}):
		return bx1[B]{ecs.NewExchange1[B](w).Removes(r...)}
	case fmt.Sprint([]int{CodeC}):
		return bx1[C]{ecs.NewExchange1[C](w).Removes(r...)}
	case fmt.Sprint([]int{CodeR1}):
		return bx1[R1]{ecs.NewExchange1[R1](w).Removes(r...)}
	case fmt.Sprint([]int{CodeR2}):
		return bx1[R2]{ecs.NewExchange1[R2](w).Removes(r...)}
	case fmt.Sprint([]int{CodeN1}):
		return bx1[N1]{ecs.NewExchange1[N1](w).Removes(r...)}
	case fmt.Sprint([]int{CodeB, CodeC}):
		return bx2[B, C]{ecs.NewExchange2[B, C](w).Removes(r...)}
	case fmt.Sprint([]int{CodeA, CodeR1}):
		return bx2[A, R1]{ecs.NewExchange2[A, R1](w).Removes(r...)}
	}
	return nil
}
