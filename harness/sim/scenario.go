package sim

// Scenarios: short randomised operation sequences that steer a script into the situations the
// properties single out (several source tables collapsing into one destination, destination
// tables that already hold rows, relation tables emptied and recycled, several targets dying in
// one batch, filters registered around table creation and freeing, ...). A scenario is enqueued as
// a list of lazily built operations; random operations continue afterwards.

type lazyOp func() []int64

func (g *Gen) firstComp(pred func(code int) bool) int {
	for c, code := range g.S.Cfg.Codes {
		if pred(code) {
			return c
		}
	}
	return -1
}

func (g *Gen) relComps() []int {
	var out []int
	for c, code := range g.S.Cfg.Codes {
		if codeIsRel(code) && code != CodeRZ {
			out = append(out, c)
		}
	}
	return out
}

// handleRef is filled in when the creating operation is emitted.
type handleRef struct{ idx int }

func (g *Gen) valid(h *handleRef) bool { return h.idx >= 0 && h.idx < len(g.S.Issued) }

func (g *Gen) mkNew(h *handleRef, ids []int, rels func() [][2]int64) lazyOp {
	return func() []int64 {
		h.idx = len(g.S.Issued)
		if rels == nil {
			if len(ids) == 0 {
				return []int64{0}
			}
			return cat([]int64{1}, encList(ids))
		}
		r := rels()
		if r == nil {
			h.idx = -1
			return nil
		}
		return cat([]int64{2}, encList(ids), encPairs(r))
	}
}

func (g *Gen) relTo(c int, t *handleRef) func() [][2]int64 {
	return func() [][2]int64 {
		if !g.valid(t) {
			return nil
		}
		return [][2]int64{{int64(c), int64(t.idx)}}
	}
}

func (g *Gen) mkFilter(fi *int, ids, without []int) lazyOp {
	return func() []int64 {
		*fi = len(g.S.Filters)
		return cat([]int64{15, 0}, encList(ids), encList(without), []int64{0}, encPairs(nil))
	}
}

func (g *Gen) mkObserver(evt int, for_ []int, register bool) []lazyOp {
	oi := -1
	ops := []lazyOp{func() []int64 {
		oi = len(g.S.Observers)
		return cat([]int64{25, int64(evt)}, encList(for_), encList(nil), encList(nil), []int64{0, 0})
	}}
	if register {
		ops = append(ops, func() []int64 {
			if oi < 0 || oi >= len(g.S.Observers) {
				return nil
			}
			return []int64{26, int64(oi)}
		})
	}
	return ops
}

// Scenario enqueues one scenario chosen at random (if applicable to the layout).
func (g *Gen) Scenario() {
	rels := g.relComps()
	a := g.firstComp(func(code int) bool { return code == CodeA })
	if len(rels) == 0 || a < 0 || g.S.W.IsLocked() {
		return
	}
	r1 := rels[g.R.Intn(len(rels))]
	withObs := g.St.Weights["obsnew"] > 0
	var q []lazyOp
	t1, t2 := &handleRef{-1}, &handleRef{-1}
	fi := -1
	n1, n2 := 1+g.R.Intn(3), 1+g.R.Intn(3)
	avail := []int{0, 1, 2, 3, 4, 5, 6, 7, 12, 12, 13, 13, 15, 15, 16, 16, -1, -1}
	if withObs {
		avail = append(avail, 8, 9, 10, 11, 14, 14, 17, 17, 18)
	}
	pick := avail[g.R.Intn(len(avail))]
	if pick < 0 {
		g.scenarioReuse()
		return
	}
	switch pick {
	case 15: // a query of a registered filter stays open while that filter is unregistered and ANOTHER filter is
		// registered (a recycled cache entry must not be handed to the open query)
		fj, qi := -1, -1
		q = append(q, g.mkNew(t1, nil, nil))
		for i := 0; i < n1+1; i++ {
			q = append(q, g.mkNew(&handleRef{-1}, []int{a}, nil))
		}
		q = append(q, g.mkNew(&handleRef{-1}, []int{a, r1}, g.relTo(r1, t1)))
		q = append(q, g.mkFilter(&fi, []int{a}, nil), g.mkFilter(&fj, []int{r1}, nil))
		q = append(q, func() []int64 {
			if fi < 0 || fi >= len(g.S.Filters) {
				return nil
			}
			g.registered[fi] = true
			return []int64{16, int64(fi)}
		})
		q = append(q, func() []int64 {
			if fi < 0 || fi >= len(g.S.Filters) {
				return nil
			}
			qi = len(g.S.Queries)
			g.openQueries[qi] = true
			return cat([]int64{19, int64(fi)}, encPairs(nil))
		})
		qop := func(code int64, extra ...int64) lazyOp {
			return func() []int64 {
				if qi < 0 || qi >= len(g.S.Queries) {
					return nil
				}
				if code == 21 {
					delete(g.openQueries, qi)
				}
				return append([]int64{code, int64(qi)}, extra...)
			}
		}
		q = append(q, qop(20))
		q = append(q, func() []int64 {
			if fi < 0 || fi >= len(g.S.Filters) {
				return nil
			}
			g.registered[fi] = false
			return []int64{17, int64(fi)}
		})
		q = append(q, func() []int64 {
			if fj < 0 || fj >= len(g.S.Filters) {
				return nil
			}
			g.registered[fj] = true
			return []int64{16, int64(fj)}
		})
		q = append(q, qop(22), qop(23, int64(n1)), qop(20), qop(24), qop(20), qop(20), qop(21))
	case 16: // RemoveEntities restricted to the entities WITHOUT a parent, several of which are parents themselves:
		// their children are moved into the very table the batch has just cleared
		p3 := &handleRef{-1}
		zero := func() [][2]int64 { return [][2]int64{{int64(r1), -1}} }
		q = append(q, g.mkNew(t1, []int{a, r1}, zero), g.mkNew(t2, []int{a, r1}, zero), g.mkNew(p3, []int{a, r1}, zero))
		for i := 0; i < n1; i++ {
			q = append(q, g.mkNew(&handleRef{-1}, []int{a, r1}, g.relTo(r1, t1)))
		}
		for i := 0; i < n2; i++ {
			q = append(q, g.mkNew(&handleRef{-1}, []int{a, r1}, g.relTo(r1, t2)))
		}
		q = append(q, g.mkFilter(&fi, []int{r1}, nil))
		if g.R.Chance(40) {
			q = append(q, func() []int64 {
				if fi < 0 || fi >= len(g.S.Filters) {
					return nil
				}
				g.registered[fi] = true
				return []int64{16, int64(fi)}
			})
		}
		q = append(q, func() []int64 {
			if fi < 0 || fi >= len(g.S.Filters) {
				return nil
			}
			return cat([]int64{12, int64(fi)}, encPairs(zero()), []int64{g.fnFlag(false)})
		})
		q = append(q, func() []int64 {
			if fi < 0 || fi >= len(g.S.Filters) {
				return nil
			}
			return cat([]int64{18, int64(fi)}, encPairs(zero()))
		})
	case 17: // SetRelations naming two relation components: one target really changes, the other is the one already
		// held - observers For the UNCHANGED relation must not fire
		if len(rels) < 2 {
			return
		}
		r2 := rels[0]
		if r2 == r1 {
			r2 = rels[1]
		}
		t3, e := &handleRef{-1}, &handleRef{-1}
		q = append(q, g.mkNew(t1, nil, nil), g.mkNew(t2, nil, nil), g.mkNew(t3, nil, nil))
		both := func(x, y *handleRef) func() [][2]int64 {
			return func() [][2]int64 {
				if !g.valid(x) || !g.valid(y) {
					return nil
				}
				return [][2]int64{{int64(r1), int64(x.idx)}, {int64(r2), int64(y.idx)}}
			}
		}
		q = append(q, g.mkNew(e, []int{a, r1, r2}, both(t1, t2)))
		q = append(q, g.mkObserver(254, []int{r2}, true)...)
		q = append(q, g.mkObserver(255, []int{r2}, true)...)
		q = append(q, g.mkObserver(254, []int{r1, r2}, true)...)
		q = append(q, g.mkObserver(255, []int{r1}, true)...)
		q = append(q, func() []int64 {
			r := both(t3, t2)()
			if r == nil || !g.valid(e) {
				return nil
			}
			return cat([]int64{10, int64(e.idx)}, encPairs(r))
		})
	case 18: // a REJECTED observer registration (relation event observed For a plain component) must not count
		q = append(q, g.mkObserver(254+g.R.Intn(2), []int{a}, true)...)
		q = append(q, func() []int64 { return []int64{38} })
		q = append(q, g.mkObserver(249, nil, true)...)
		q = append(q, func() []int64 { return []int64{38} })
		q = append(q, func() []int64 { return g.build("reset") })
		q = append(q, func() []int64 { return []int64{38} })
	case 14: // batch exchange that removes the relation component of children of several targets (source tables
		// merge into ONE destination) while adding a component, with OnAdd / OnRemove observers registered:
		// every affected entity is reported exactly once, after the move, with its own data
		b := g.firstComp(func(code int) bool { return code == CodeB })
		if b < 0 {
			return
		}
		q = append(q, g.mkNew(t1, nil, nil), g.mkNew(t2, nil, nil))
		for i := 0; i < n1; i++ {
			q = append(q, g.mkNew(&handleRef{-1}, []int{a, r1}, g.relTo(r1, t1)))
		}
		for i := 0; i < n2; i++ {
			q = append(q, g.mkNew(&handleRef{-1}, []int{a, r1}, g.relTo(r1, t2)))
		}
		if g.R.Chance(50) { // the destination may already hold rows
			q = append(q, g.mkNew(&handleRef{-1}, []int{a, b}, nil))
		}
		q = append(q, g.mkObserver(251, nil, true)...)
		q = append(q, g.mkObserver([]int{252, 255, 254}[g.R.Intn(3)], nil, true)...)
		q = append(q, g.mkFilter(&fi, []int{a, r1}, nil))
		q = append(q, func() []int64 {
			if fi < 0 || fi >= len(g.S.Filters) {
				return nil
			}
			vals := [][2]int64{{int64(b), int64(1000 + g.R.Intn(1000))}}
			return cat([]int64{31, int64(fi)}, encPairs(nil), encList([]int{b}), encList([]int{r1}), encPairs(nil), encPairs(vals))
		})
	case 13: // a stale handle of a recycled ID used as relation target while the new incarnation has a table
		c1, c2 := &handleRef{-1}, &handleRef{-1}
		q = append(q, g.mkNew(t1, nil, nil), g.mkNew(c1, []int{r1}, g.relTo(r1, t1)))
		q = append(q, func() []int64 {
			if !g.valid(t1) {
				return nil
			}
			return []int64{11, int64(t1.idx)}
		})
		q = append(q, g.mkNew(t2, nil, nil)) // recycles the ID of t1
		q = append(q, g.mkNew(c2, []int{r1}, g.relTo(r1, t2)))
		stale := func() [][2]int64 { return [][2]int64{{int64(r1), int64(t1.idx)}} }
		q = append(q, func() []int64 { // create with the stale target: must panic
			if !g.valid(t1) {
				return nil
			}
			return cat([]int64{2}, encList([]int{r1}), encPairs(stale()))
		})
		q = append(q, func() []int64 { // assign the stale target: must panic
			if !g.valid(t1) || !g.valid(c1) {
				return nil
			}
			return cat([]int64{10, int64(c1.idx)}, encPairs(stale()))
		})
		q = append(q, func() []int64 { // add the relation component with the stale target to a plain entity
			if !g.valid(t1) || !g.valid(t2) {
				return nil
			}
			return cat([]int64{6, int64(t2.idx)}, encList([]int{r1}), encPairs(stale()))
		})
		q = append(q, func() []int64 {
			if !g.valid(c2) {
				return nil
			}
			return []int64{35, int64(c2.idx), int64(r1)}
		})
	case 12: // one filter: a batch with a per-call target, then two simultaneously open queries with different per-query targets
		t3 := &handleRef{-1}
		q = append(q, g.mkNew(t1, nil, nil), g.mkNew(t2, nil, nil), g.mkNew(t3, nil, nil))
		for i := 0; i < n1; i++ {
			q = append(q, g.mkNew(&handleRef{-1}, []int{r1}, g.relTo(r1, t1)))
		}
		for i := 0; i < n2+1; i++ {
			q = append(q, g.mkNew(&handleRef{-1}, []int{a, r1}, g.relTo(r1, t2)))
		}
		q = append(q, g.mkNew(&handleRef{-1}, []int{r1}, g.relTo(r1, t3)))
		q = append(q, g.mkFilter(&fi, []int{r1}, nil))
		if g.R.Chance(30) {
			q = append(q, func() []int64 {
				if fi < 0 || fi >= len(g.S.Filters) {
					return nil
				}
				g.registered[fi] = true
				return []int64{16, int64(fi)}
			})
		}
		q = append(q, func() []int64 {
			if fi < 0 || fi >= len(g.S.Filters) || !g.valid(t3) {
				return nil
			}
			return cat([]int64{12, int64(fi)}, encPairs([][2]int64{{int64(r1), int64(t3.idx)}}), []int64{g.fnFlag(false)})
		})
		qa, qb := -1, -1
		open := func(qv *int, t *handleRef) lazyOp {
			return func() []int64 {
				if fi < 0 || fi >= len(g.S.Filters) || !g.valid(t) || len(g.openQueries) >= 5 {
					return nil
				}
				*qv = len(g.S.Queries)
				g.openQueries[*qv] = true
				return cat([]int64{19, int64(fi)}, encPairs([][2]int64{{int64(r1), int64(t.idx)}}))
			}
		}
		qop := func(qv *int, code int64, extra ...int64) lazyOp {
			return func() []int64 {
				if *qv < 0 || *qv >= len(g.S.Queries) {
					return nil
				}
				if code == 21 {
					delete(g.openQueries, *qv)
				}
				return append([]int64{code, int64(*qv)}, extra...)
			}
		}
		q = append(q, open(&qa, t1), open(&qb, t2), qop(&qa, 22), qop(&qb, 22), qop(&qa, 23, 0), qop(&qb, 23, 0))
		for i := 0; i < n1+1; i++ {
			q = append(q, qop(&qa, 20))
			if i == 0 {
				q = append(q, qop(&qa, 24), qop(&qb, 20), qop(&qb, 24))
			}
		}
		q = append(q, qop(&qb, 21), qop(&qa, 21))
	case 7: // a filter / query naming a relation target that died and whose ID was recycled
		c1 := &handleRef{-1}
		fu := -1
		q = append(q, g.mkNew(t1, nil, nil), g.mkNew(c1, []int{r1}, g.relTo(r1, t1)))
		q = append(q, func() []int64 { // typed filter with the target fixed in the filter
			if !g.valid(t1) {
				return nil
			}
			fi = len(g.S.Filters)
			return cat([]int64{15, 0}, encList([]int{r1}), encList(nil), []int64{0}, encPairs([][2]int64{{int64(r1), int64(t1.idx)}}))
		})
		q = append(q, func() []int64 { // unsafe filter; the stale target is passed per query
			fu = len(g.S.Filters)
			return cat([]int64{15, 1}, encList([]int{r1}), encList(nil), []int64{0}, encPairs(nil))
		})
		if g.R.Chance(50) {
			q = append(q, func() []int64 {
				if fi < 0 || fi >= len(g.S.Filters) {
					return nil
				}
				g.registered[fi] = true
				return []int64{16, int64(fi)}
			})
		}
		q = append(q, func() []int64 {
			if !g.valid(t1) {
				return nil
			}
			return []int64{11, int64(t1.idx)}
		})
		q = append(q, g.mkNew(t2, nil, nil)) // recycles the ID of t1
		for i := 0; i < n1; i++ {
			q = append(q, g.mkNew(&handleRef{-1}, []int{r1}, g.relTo(r1, t2)))
		}
		q = append(q, func() []int64 {
			if fi < 0 || fi >= len(g.S.Filters) {
				return nil
			}
			return cat([]int64{18, int64(fi)}, encPairs(nil))
		})
		q = append(q, func() []int64 {
			if fu < 0 || fu >= len(g.S.Filters) || !g.valid(t1) {
				return nil
			}
			return cat([]int64{18, int64(fu)}, encPairs([][2]int64{{int64(r1), int64(t1.idx)}}))
		})
		q = append(q, func() []int64 { // batch selection through the stale filter
			if fi < 0 || fi >= len(g.S.Filters) {
				return nil
			}
			return cat([]int64{12, int64(fi)}, encPairs(nil))
		})
	case 10, 11: // callback-free batch operations with exactly one observer: the world must still be locked in its callback
		for oi, o := range g.S.Observers {
			if o.registered {
				oi := oi
				q = append(q, func() []int64 {
					if oi >= len(g.S.Observers) || !g.S.Observers[oi].registered {
						return nil
					}
					return []int64{27, int64(oi)}
				})
			}
		}
		only := func(evt int, ops ...lazyOp) {
			oi := -1
			q = append(q, func() []int64 {
				oi = len(g.S.Observers)
				return cat([]int64{25, int64(evt)}, encList(nil), encList(nil), encList(nil), []int64{0, 0})
			}, func() []int64 {
				if oi < 0 || oi >= len(g.S.Observers) {
					return nil
				}
				return []int64{26, int64(oi)}
			})
			q = append(q, ops...)
			q = append(q, func() []int64 {
				if oi < 0 || oi >= len(g.S.Observers) || !g.S.Observers[oi].registered {
					return nil
				}
				return []int64{27, int64(oi)}
			})
		}
		newBatch := func(fl int64) lazyOp {
			return func() []int64 {
				if !g.valid(t1) {
					return nil
				}
				return cat([]int64{30, int64(n1)}, encList([]int{r1}), encPairs([][2]int64{{int64(r1), int64(t1.idx)}}), encPairs(nil), []int64{fl})
			}
		}
		q = append(q, g.mkNew(t1, nil, nil))
		only(254, newBatch(3), newBatch(1))
		q = append(q, g.mkFilter(&fi, []int{r1}, nil))
		only([]int{255, 250}[g.R.Intn(2)], func() []int64 {
			if fi < 0 || fi >= len(g.S.Filters) {
				return nil
			}
			return cat([]int64{12, int64(fi)}, encPairs(nil), []int64{1})
		})
		only(249, func() []int64 { return []int64{3, int64(n2), 1} }, newBatch(3))
	case 8, 9: // a wildcard observer in front of filtered ones; unregister a filtered one, then the wildcard
		evt := []int{249, 251, 252, 253, 250}[g.R.Intn(5)]
		b := g.firstComp(func(code int) bool { return code == CodeB })
		if b < 0 {
			return
		}
		var ois [3]int
		mk := func(k int, for_, with []int) lazyOp {
			return func() []int64 {
				ois[k] = len(g.S.Observers)
				return cat([]int64{25, int64(evt)}, encList(for_), encList(with), encList(nil), []int64{0, 0})
			}
		}
		regop := func(k int, code int64) lazyOp {
			return func() []int64 {
				if ois[k] >= len(g.S.Observers) {
					return nil
				}
				return []int64{code, int64(ois[k])}
			}
		}
		var forA, withA, forB, withB []int
		if evt == 249 || evt == 250 || g.R.Chance(50) {
			withA, withB = []int{a}, []int{b}
		} else {
			forA, forB = []int{a}, []int{b}
		}
		q = append(q, mk(0, nil, nil), mk(1, forA, withA), mk(2, forB, withB))
		order := [][]int{{0, 1, 2}, {0, 2, 1}, {1, 0, 2}}[g.R.Intn(3)]
		for _, k := range order {
			q = append(q, regop(k, 26))
		}
		q = append(q, regop(2, 27), regop(0, 27))
		// trigger: create / add / remove / set with component a
		hnd := &handleRef{-1}
		q = append(q, g.mkNew(hnd, []int{a, b}, nil))
		q = append(q, func() []int64 {
			if !g.valid(hnd) {
				return nil
			}
			return []int64{29, int64(hnd.idx), int64(a), 5}
		})
		q = append(q, func() []int64 {
			if !g.valid(hnd) {
				return nil
			}
			return cat([]int64{7, int64(hnd.idx)}, encList([]int{a}))
		})
		q = append(q, func() []int64 {
			if !g.valid(hnd) {
				return nil
			}
			return cat([]int64{5, int64(hnd.idx)}, encList([]int{a}))
		})
		q = append(q, func() []int64 {
			if !g.valid(hnd) {
				return nil
			}
			return []int64{11, int64(hnd.idx)}
		})
	case 0: // several source tables collapse into one destination: remove the relation component in a batch
		q = append(q, g.mkNew(t1, nil, nil), g.mkNew(t2, nil, nil))
		for i := 0; i < n1; i++ {
			q = append(q, g.mkNew(&handleRef{-1}, []int{a, r1}, g.relTo(r1, t1)))
		}
		for i := 0; i < n2; i++ {
			q = append(q, g.mkNew(&handleRef{-1}, []int{a, r1}, g.relTo(r1, t2)))
		}
		q = append(q, g.mkFilter(&fi, []int{r1}, nil))
		if withObs {
			q = append(q, g.mkObserver(255, nil, true)...)
			q = append(q, g.mkObserver(252, nil, true)...)
		}
		q = append(q, func() []int64 {
			if fi < 0 || fi >= len(g.S.Filters) {
				return nil
			}
			return cat([]int64{31, int64(fi)}, encPairs(nil), encList(nil), encList([]int{r1}), encPairs(nil), encPairs(nil))
		})
	case 1: // batch-add a relation into a destination table that already holds rows
		q = append(q, g.mkNew(t1, nil, nil))
		for i := 0; i < n1; i++ {
			q = append(q, g.mkNew(&handleRef{-1}, []int{a, r1}, g.relTo(r1, t1)))
		}
		for i := 0; i < n2+1; i++ {
			q = append(q, g.mkNew(&handleRef{-1}, []int{a}, nil))
		}
		q = append(q, g.mkFilter(&fi, []int{a}, []int{r1}))
		if withObs {
			q = append(q, g.mkObserver(254, nil, true)...)
			q = append(q, g.mkObserver(251, nil, true)...)
		}
		q = append(q, func() []int64 {
			if fi < 0 || fi >= len(g.S.Filters) || !g.valid(t1) || !g.batchSafe(fi, nil, []int{r1}, nil) {
				return nil
			}
			return cat([]int64{31, int64(fi)}, encPairs(nil), encList([]int{r1}), encList(nil),
				encPairs([][2]int64{{int64(r1), int64(t1.idx)}}), encPairs(g.valsFor([]int{r1})))
		})
	case 2: // batch relation change into a table that already holds rows
		q = append(q, g.mkNew(t1, nil, nil), g.mkNew(t2, nil, nil))
		for i := 0; i < n1; i++ {
			q = append(q, g.mkNew(&handleRef{-1}, []int{r1}, g.relTo(r1, t1)))
		}
		for i := 0; i < n2; i++ {
			q = append(q, g.mkNew(&handleRef{-1}, []int{r1}, g.relTo(r1, t2)))
		}
		q = append(q, g.mkFilter(&fi, []int{r1}, nil))
		if withObs {
			q = append(q, g.mkObserver(254, nil, true)...)
			q = append(q, g.mkObserver(255, nil, true)...)
		}
		q = append(q, func() []int64 {
			if fi < 0 || fi >= len(g.S.Filters) || !g.valid(t2) || g.S.compOfCode(g.S.codeOf(r1)) < 0 {
				return nil
			}
			var brels [][2]int64
			if g.R.Chance(50) && g.valid(t1) {
				brels = [][2]int64{{int64(r1), int64(t1.idx)}}
			}
			return cat([]int64{32, int64(fi)}, encPairs(brels), encList([]int{r1}), encPairs([][2]int64{{int64(r1), int64(t2.idx)}}))
		})
	case 3: // relation table emptied, Shrink, table recycled for the same or another target, target removed
		c1 := &handleRef{-1}
		q = append(q, g.mkNew(t1, nil, nil), g.mkNew(t2, nil, nil), g.mkNew(c1, []int{r1}, g.relTo(r1, t1)))
		q = append(q, g.mkFilter(&fi, []int{r1}, nil))
		if g.R.Chance(50) {
			q = append(q, func() []int64 {
				if fi < 0 || fi >= len(g.S.Filters) {
					return nil
				}
				g.registered[fi] = true
				return []int64{16, int64(fi)}
			})
		}
		q = append(q, func() []int64 {
			if !g.valid(c1) {
				return nil
			}
			return []int64{11, int64(c1.idx)}
		})
		q = append(q, func() []int64 { return []int64{14, int64(g.R.Intn(2))} })
		tgt := t1
		if g.R.Chance(50) {
			tgt = t2
		}
		q = append(q, g.mkNew(&handleRef{-1}, []int{r1}, g.relTo(r1, tgt)), g.mkNew(&handleRef{-1}, []int{r1}, g.relTo(r1, t2)))
		q = append(q, func() []int64 {
			if fi < 0 || fi >= len(g.S.Filters) {
				return nil
			}
			return cat([]int64{18, int64(fi)}, encPairs(nil))
		})
		q = append(q, func() []int64 {
			if !g.valid(t1) {
				return nil
			}
			return []int64{11, int64(t1.idx)}
		})
		q = append(q, g.mkNew(&handleRef{-1}, []int{r1}, g.relTo(r1, t2)))
	case 4: // two targets of one table die in one batch
		if len(rels) < 2 {
			return
		}
		r2 := rels[(g.R.Intn(len(rels)-1)+1+indexOf(rels, r1))%len(rels)]
		q = append(q, g.mkNew(t1, []int{a}, nil), g.mkNew(t2, []int{a}, nil))
		q = append(q, func() []int64 {
			if !g.valid(t1) || !g.valid(t2) {
				return nil
			}
			return cat([]int64{2}, encList([]int{r1, r2}), encPairs([][2]int64{{int64(r1), int64(t1.idx)}, {int64(r2), int64(t2.idx)}}))
		})
		q = append(q, g.mkFilter(&fi, []int{a}, rels))
		if withObs {
			q = append(q, g.mkObserver(250, nil, true)...)
		}
		q = append(q, func() []int64 {
			if fi < 0 || fi >= len(g.S.Filters) {
				return nil
			}
			return cat([]int64{12, int64(fi)}, encPairs(nil))
		})
	case 5: // filters registered around table creation, freeing and recycling
		q = append(q, g.mkFilter(&fi, []int{r1}, nil))
		q = append(q, func() []int64 {
			if fi < 0 || fi >= len(g.S.Filters) {
				return nil
			}
			g.registered[fi] = true
			return []int64{16, int64(fi)}
		})
		q = append(q, g.mkNew(t1, nil, nil), g.mkNew(&handleRef{-1}, []int{r1}, g.relTo(r1, t1)))
		q = append(q, func() []int64 {
			if !g.valid(t1) {
				return nil
			}
			return []int64{11, int64(t1.idx)}
		})
		q = append(q, g.mkNew(t2, nil, nil), g.mkNew(&handleRef{-1}, []int{r1}, g.relTo(r1, t2)))
		q = append(q, func() []int64 {
			if fi < 0 || fi >= len(g.S.Filters) {
				return nil
			}
			return cat([]int64{18, int64(fi)}, encPairs(nil))
		})
	case 6: // same target in two relation components of one entity, then the target dies and tables are recycled
		if len(rels) < 2 {
			return
		}
		r2 := rels[(indexOf(rels, r1)+1)%len(rels)]
		q = append(q, g.mkNew(t1, nil, nil), g.mkNew(t2, nil, nil))
		q = append(q, func() []int64 {
			if !g.valid(t1) {
				return nil
			}
			return cat([]int64{2}, encList([]int{r1, r2}), encPairs([][2]int64{{int64(r1), int64(t1.idx)}, {int64(r2), int64(t1.idx)}}))
		})
		q = append(q, func() []int64 {
			if !g.valid(t1) {
				return nil
			}
			return []int64{11, int64(t1.idx)}
		})
		for i := 0; i < 2; i++ {
			tt := &handleRef{-1}
			q = append(q, g.mkNew(tt, nil, nil))
			q = append(q, func() []int64 {
				if !g.valid(tt) || !g.valid(t2) {
					return nil
				}
				return cat([]int64{2}, encList([]int{r1, r2}), encPairs([][2]int64{{int64(r1), int64(tt.idx)}, {int64(r2), int64(t2.idx)}}))
			})
		}
	}
	g.queue = append(g.queue, q...)
}

func indexOf(l []int, x int) int {
	for i, y := range l {
		if y == x {
			return i
		}
	}
	return 0
}

// scenarioReuse: fill a table, write values, empty it in one go (table reset, both zeroing
// strategies: more than 64 rows of a plain component, or a pointer-bearing component), then
// re-populate it without initial values: everything must read as zero.
func (g *Gen) scenarioReuse() {
	x := g.firstComp(func(code int) bool { return code == CodeA })
	n := 66 + g.R.Intn(6)
	if g.R.Chance(60) {
		if c := g.firstComp(func(code int) bool { return code == CodeN1 }); c >= 0 {
			x = c
			n = 1 + g.R.Intn(5)
		}
	}
	if x < 0 || g.S.W.IsLocked() {
		return
	}
	fi := -1
	var q []lazyOp
	q = append(q, func() []int64 {
		return cat([]int64{30, int64(n)}, encList([]int{x}), encPairs(nil), encPairs([][2]int64{{int64(x), int64(1000 + g.R.Intn(1000))}}))
	})
	q = append(q, func() []int64 {
		fi = len(g.S.Filters)
		return cat([]int64{15, 0}, encList([]int{x}), encList(nil), []int64{1}, encPairs(nil))
	})
	switch g.R.Intn(3) {
	case 0:
		q = append(q, func() []int64 {
			if fi < 0 || fi >= len(g.S.Filters) {
				return nil
			}
			return cat([]int64{12, int64(fi)}, encPairs(nil))
		})
	case 1:
		q = append(q, func() []int64 {
			g.registered = map[int]bool{}
			if !g.S.W.IsLocked() {
				g.epoch = len(g.S.Issued)
			}
			return []int64{13}
		})
	default: // batch exchange away from the table (source table reset), then back
		b := g.firstComp(func(code int) bool { return code == CodeB })
		if b < 0 || x == b {
			return
		}
		q = append(q, func() []int64 {
			if fi < 0 || fi >= len(g.S.Filters) {
				return nil
			}
			return cat([]int64{31, int64(fi)}, encPairs(nil), encList([]int{b}), encList(nil), encPairs(nil), encPairs(nil))
		})
	}
	m := 1 + g.R.Intn(4)
	q = append(q, func() []int64 {
		return cat([]int64{30, int64(m)}, encList([]int{x}), encPairs(nil), encPairs(nil))
	})
	q = append(q, func() []int64 { return cat([]int64{1}, encList([]int{x})) })
	g.queue = append(g.queue, q...)
}
