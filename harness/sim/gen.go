package sim

import (
	"fmt"
	"sort"

	"github.com/mlange-42/ark/ecs"
)

// Rng is SplitMix64; every random choice of a run derives from one seed.
type Rng struct{ s uint64 }

// NewRng scrambles the seed before using it as the state: with state = a*seed+b consecutive seeds
// would give the same stream shifted by one draw (scripts k and k+1 would share their choices).
func NewRng(seed uint64) *Rng {
	r := &Rng{s: seed ^ 0x1234567}
	r.s = r.Next() ^ (r.Next() << 1)
	return r
}
func (r *Rng) Next() uint64 {
	r.s += 0x9E3779B97F4A7C15
	z := r.s
	z = (z ^ (z >> 30)) * 0xBF58476D1CE4E5B9
	z = (z ^ (z >> 27)) * 0x94D049BB133111EB
	return z ^ (z >> 31)
}
func (r *Rng) Intn(n int) int {
	if n <= 0 {
		return 0
	}
	return int(r.Next() % uint64(n))
}
func (r *Rng) Chance(percent int) bool { return r.Intn(100) < percent }

// Stream describes a family of scripts: which components exist, capacities and op weights.
type Stream struct {
	Name      string
	Codes     [][]int // candidate component layouts (type code per ID)
	Caps      [][2]int
	Ops       int // operations per script
	Weights   map[string]int
	Invalid   int  // percent of deliberately invalid calls
	MaxEnt    int  // soft cap on alive entities
	WithDump  bool // compare internals after every step
	Scenarios int  // percent chance per operation to start a scenario (sim/scenario.go)
}

var layoutSmall = []int{CodeA, CodeB, CodeC, CodeR1, CodeR2, CodeN1, CodeZ0, CodeRZ}
var layoutPlain = []int{CodeA, CodeB, CodeC, CodeD, CodeN1, CodeZ0}
var layoutRel = []int{CodeA, CodeR1, CodeR2, CodeB, CodeRZ}

// layoutWide places the interesting components around the 64-bit word boundaries.
func layoutWide() []int {
	l := make([]int, 0, 200)
	place := map[int]int{0: CodeA, 1: CodeR1, 62: CodeB, 63: CodeC, 64: CodeR2, 65: CodeN1, 127: CodeD, 128: CodeZ0, 191: CodeRZ, 192: CodeN2}
	for i := 0; i < 194; i++ {
		if c, ok := place[i]; ok {
			l = append(l, c)
		} else {
			l = append(l, CodeDyn+i)
		}
	}
	return l
}

var baseWeights = map[string]int{
	"new": 6, "unew": 10, "unewrel": 8, "newentities": 3, "copy": 4, "add": 10, "addrel": 6, "remove": 8,
	"exchange": 8, "write": 8, "setrel": 8, "removeentity": 8, "removeentities": 3, "reset": 1, "shrink": 3,
	"filternew": 5, "register": 3, "unregister": 2, "queryall": 8, "queryopen": 2, "querynext": 4, "queryclose": 3,
	"querycount": 2, "queryat": 2, "queryentity": 1, "obsnew": 3, "obsreg": 3, "obsunreg": 2, "emit": 2, "mapset": 3,
	"newbatch": 3, "exbatch": 5, "setrelbatch": 3, "probe": 4, "stats": 2,
}

func weights(over map[string]int) map[string]int {
	m := map[string]int{}
	for k, v := range baseWeights {
		m[k] = v
	}
	for k, v := range over {
		m[k] = v
	}
	return m
}

// layout64 registers EXACTLY 64 component types (the whole 64-bit mask, a full first word of the 256-bit mask):
// the boundary at which the two mask widths must still agree.
func layout64() []int {
	l := make([]int, 0, 64)
	place := map[int]int{0: CodeA, 1: CodeR1, 31: CodeB, 32: CodeC, 33: CodeR2, 61: CodeN1, 62: CodeD, 63: CodeZ0}
	for i := 0; i < 64; i++ {
		if c, ok := place[i]; ok {
			l = append(l, c)
		} else {
			l = append(l, CodeDyn+i)
		}
	}
	return l
}

// Streams are the generator families referred to by the per-property checks.
var Streams = map[string]Stream{
	"store": {Name: "store", Codes: [][]int{layoutSmall, layoutPlain, layoutWide(), layout64()}, Caps: [][2]int{{1, 1}, {2, 1}, {3, 2}, {8, 4}}, Ops: 60,
		Weights: weights(map[string]int{"obsnew": 0, "obsreg": 0, "obsunreg": 0, "emit": 0}), Invalid: 4, MaxEnt: 24, WithDump: true, Scenarios: 2},
	"relations": {Name: "relations", Codes: [][]int{layoutRel, layoutSmall}, Caps: [][2]int{{1, 1}, {2, 2}, {4, 1}}, Ops: 70,
		Weights: weights(map[string]int{"unewrel": 16, "addrel": 10, "setrel": 14, "removeentity": 12, "removeentities": 6, "setrelbatch": 6, "shrink": 5,
			"obsnew": 0, "obsreg": 0, "obsunreg": 0, "emit": 0, "mapset": 1}), Invalid: 3, MaxEnt: 20, WithDump: true, Scenarios: 5},
	"cache": {Name: "cache", Codes: [][]int{layoutSmall, layoutRel}, Caps: [][2]int{{1, 1}, {2, 2}}, Ops: 70,
		Weights: weights(map[string]int{"filternew": 10, "register": 10, "unregister": 7, "queryall": 14, "queryopen": 5, "querynext": 8, "queryclose": 5,
			"removeentity": 10, "shrink": 5, "reset": 2, "obsnew": 0, "obsreg": 0, "obsunreg": 0, "emit": 0}), Invalid: 3, MaxEnt: 20, WithDump: true, Scenarios: 5},
	"batch": {Name: "batch", Codes: [][]int{layoutSmall, layoutRel}, Caps: [][2]int{{1, 1}, {2, 2}, {8, 4}}, Ops: 60,
		Weights: weights(map[string]int{"newbatch": 8, "exbatch": 14, "setrelbatch": 8, "removeentities": 8, "newentities": 6, "filternew": 8,
			"obsnew": 2, "obsreg": 2}), Invalid: 2, MaxEnt: 30, WithDump: true, Scenarios: 6},
	"lock": {Name: "lock", Codes: [][]int{layoutSmall}, Caps: [][2]int{{2, 2}}, Ops: 80,
		Weights: weights(map[string]int{"lockburst": 1, "queryopen": 16, "querynext": 14, "queryclose": 12, "querycount": 3, "filternew": 6, "write": 6, "mapset": 4, "emit": 3}), Invalid: 2, MaxEnt: 12, WithDump: true},
	"observers": {Name: "observers", Codes: [][]int{layoutSmall, layoutRel}, Caps: [][2]int{{1, 1}, {4, 2}}, Ops: 70,
		Weights: weights(map[string]int{"obsnew": 10, "obsreg": 10, "obsunreg": 5, "emit": 6, "mapset": 6, "exbatch": 6, "setrelbatch": 4, "newbatch": 4, "removeentities": 4}), Invalid: 2, MaxEnt: 16, WithDump: true, Scenarios: 6},
	"misuse": {Name: "misuse", Codes: [][]int{layoutSmall, layoutRel, layout64()}, Caps: [][2]int{{1, 1}, {2, 2}}, Ops: 60,
		Weights: weights(map[string]int{"probe": 12, "queryopen": 4, "queryclose": 4}), Invalid: 35, MaxEnt: 14, WithDump: true, Scenarios: 4},
	"reset": {Name: "reset", Codes: [][]int{layoutSmall}, Caps: [][2]int{{1, 1}, {3, 2}}, Ops: 80,
		Weights: weights(map[string]int{"reset": 5, "obsnew": 4, "obsreg": 5, "register": 5, "filternew": 6}), Invalid: 2, MaxEnt: 16, WithDump: true, Scenarios: 3},
	"shrink": {Name: "shrink", Codes: [][]int{layoutSmall, layoutRel}, Caps: [][2]int{{1, 1}, {2, 1}, {8, 2}}, Ops: 70,
		Weights: weights(map[string]int{"shrink": 12, "newbatch": 6, "newentities": 6, "removeentities": 6, "removeentity": 12, "register": 5, "stats": 4}), Invalid: 2, MaxEnt: 40, WithDump: true, Scenarios: 5},
	"stats": {Name: "stats", Codes: [][]int{layoutSmall, layoutRel}, Caps: [][2]int{{1, 1}, {4, 2}}, Ops: 60,
		Weights: weights(map[string]int{"stats": 14, "shrink": 5, "reset": 2}), Invalid: 2, MaxEnt: 24, WithDump: true, Scenarios: 3},
	"query": {Name: "query", Codes: [][]int{layoutSmall, layoutRel, layoutWide(), layout64()}, Caps: [][2]int{{1, 1}, {4, 2}}, Ops: 60,
		Weights: weights(map[string]int{"filternew": 12, "queryall": 20, "queryopen": 4, "querynext": 8, "querycount": 5, "queryat": 6, "queryentity": 3, "register": 4}), Invalid: 3, MaxEnt: 24, WithDump: true, Scenarios: 3},
}

// Gen produces operation lines from the live state of a Sim.
type Gen struct {
	R  *Rng
	S  *Sim
	St Stream
	// bookkeeping the generator needs but the library does not expose
	openQueries map[int]bool
	registered  map[int]bool // filters
	epoch       int          // handles issued before the last Reset are foreign to the world
	queue       []lazyOp     // pending scenario operations
	hotEvents   []int        // event types most observers of this script use
	Scenarios   int          // percent chance per operation to start a scenario
}

func NewGen(r *Rng, s *Sim, st Stream) *Gen {
	return &Gen{R: r, S: s, St: st, openQueries: map[int]bool{}, registered: map[int]bool{}, Scenarios: st.Scenarios}
}

// Pending is the number of queued scenario operations (a script is not cut in the middle of a scenario).
func (g *Gen) Pending() int { return len(g.queue) }

// Epoch is the index of the first handle issued since the last successful Reset.
func (g *Gen) Epoch() int { return g.epoch }

func (g *Gen) aliveHandles() []int {
	var out []int
	for i, e := range g.S.Issued {
		if i >= g.epoch && g.S.W.Alive(e) {
			out = append(out, i)
		}
	}
	return out
}

func (g *Gen) deadHandles() []int {
	var out []int
	for i, e := range g.S.Issued {
		if i >= g.epoch && !g.S.W.Alive(e) {
			out = append(out, i)
		}
	}
	return out
}

func (g *Gen) compsOf(h int) []int {
	defer func() {
		if r := recover(); r != nil {
			panic(fmt.Sprintf("compsOf(%d = %v) alive=%v: %v; dump=%v", h, g.S.Issued[h], g.S.W.Alive(g.S.Issued[h]), r, g.S.W.VerifDump()[:40]))
		}
	}()
	ids := g.S.W.Unsafe().IDs(g.S.Issued[h])
	out := make([]int, ids.Len())
	for i := range out {
		out[i] = int(ids.Get(i).Index())
	}
	return out
}

func (g *Gen) ncomps() int { return len(g.S.Cfg.Codes) }

// interesting components: non-padding ones get most of the probability mass.
func (g *Gen) pickComp() int {
	n := g.ncomps()
	if n > 12 && g.R.Chance(85) {
		for tries := 0; tries < 20; tries++ {
			c := g.R.Intn(n)
			if g.S.codeOf(c) < CodeDyn {
				return c
			}
		}
	}
	return g.R.Intn(n)
}

func contains(l []int, x int) bool {
	for _, y := range l {
		if y == x {
			return true
		}
	}
	return false
}

func (g *Gen) pickSubsetNotIn(have []int, max int) []int {
	var out []int
	k := 1 + g.R.Intn(max)
	for tries := 0; tries < 12 && len(out) < k; tries++ {
		c := g.pickComp()
		if !contains(have, c) && !contains(out, c) {
			out = append(out, c)
		}
	}
	return out
}

func (g *Gen) pickSubsetOf(have []int, max int) []int {
	if len(have) == 0 {
		return nil
	}
	var out []int
	k := 1 + g.R.Intn(max)
	for tries := 0; tries < 8 && len(out) < k; tries++ {
		c := have[g.R.Intn(len(have))]
		if !contains(out, c) {
			out = append(out, c)
		}
	}
	return out
}

func (g *Gen) isRel(c int) bool { return codeIsRel(g.S.codeOf(c)) }

// target handle: an alive entity, the zero entity, or (rarely) a dead one.
func (g *Gen) pickTarget(invalid bool) int64 {
	if invalid {
		if d := g.deadHandles(); len(d) > 0 {
			return int64(d[g.R.Intn(len(d))])
		}
	}
	al := g.aliveHandles()
	if len(al) == 0 || g.R.Chance(15) {
		return -1
	}
	// few shared targets: prefer low handles
	if g.R.Chance(60) {
		return int64(al[g.R.Intn(1+len(al)/3)])
	}
	return int64(al[g.R.Intn(len(al))])
}

// relsFor builds relation targets for all relation components in ids.
func (g *Gen) relsFor(ids []int, invalid bool) [][2]int64 {
	var out [][2]int64
	for _, c := range ids {
		if g.isRel(c) {
			out = append(out, [2]int64{int64(c), g.pickTarget(invalid)})
		}
	}
	// malformed lists (at the stream's misuse rate): a relation component named twice, named twice
	// instead of another one, or a relation for a component that is not among ids
	if len(out) > 0 && g.R.Chance(g.St.Invalid) {
		switch g.R.Intn(3) {
		case 0:
			out = append(out, [2]int64{out[0][0], g.pickTarget(false)})
		case 1:
			if len(out) >= 2 {
				out[1][0] = out[0][0]
			} else {
				out = append(out, [2]int64{out[0][0], g.pickTarget(false)})
			}
		default:
			for c := range g.S.IDs {
				if g.isRel(c) && !contains(ids, c) {
					out = append(out, [2]int64{int64(c), g.pickTarget(false)})
					break
				}
			}
		}
	}
	return out
}

func encList(l []int) []int64 {
	out := []int64{int64(len(l))}
	for _, x := range l {
		out = append(out, int64(x))
	}
	return out
}
func encPairs(l [][2]int64) []int64 {
	out := []int64{int64(len(l))}
	for _, p := range l {
		out = append(out, p[0], p[1])
	}
	return out
}

func cat(parts ...[]int64) []int64 {
	var out []int64
	for _, p := range parts {
		out = append(out, p...)
	}
	return out
}

func (g *Gen) pickHandle(invalidOK bool) (int64, bool) {
	if invalidOK && g.R.Chance(g.St.Invalid) {
		k := g.R.Intn(3)
		if d := g.deadHandles(); len(d) > 0 && k < 2 {
			return int64(d[g.R.Intn(len(d))]), true
		}
		return -1, true
	}
	al := g.aliveHandles()
	if len(al) == 0 {
		return 0, false
	}
	return int64(al[g.R.Intn(len(al))]), true
}

func (g *Gen) aliveOrNil(h int64) bool {
	return h >= 0 && int(h) >= g.epoch && int(h) < len(g.S.Issued) && g.S.W.Alive(g.S.Issued[h])
}

// filters usable for batches / typed queries (Filter0-based)
func (g *Gen) filterIdx(needSafe bool) (int, bool) {
	var cands []int
	for i, f := range g.S.Filters {
		if !needSafe || !f.unsafe {
			cands = append(cands, i)
		}
	}
	if len(cands) == 0 {
		return 0, false
	}
	return cands[g.R.Intn(len(cands))], true
}

// per-query relation targets: relation components named in the filter
func (g *Gen) queryRels(fi int) [][2]int64 {
	f := g.S.Filters[fi]
	var out [][2]int64
	if g.R.Chance(60) {
		return out
	}
	for _, c := range f.ids {
		if g.isRel(c) && g.R.Chance(70) {
			out = append(out, [2]int64{int64(c), g.pickTarget(g.R.Chance(g.St.Invalid))})
		}
	}
	return out
}

// queryRelsMisuse: per-query targets as queryRels gives them, and (at the stream's misuse rate) a
// target for a relation component the filter does not require: a typed filter rejects it when
// the query is created, an unsafe query only fails once iteration reaches a table lacking it.
func (g *Gen) queryRelsMisuse(fi int) [][2]int64 {
	out := g.queryRels(fi)
	if g.R.Chance(g.St.Invalid) {
		f := g.S.Filters[fi]
		var cand []int
		for c := range g.S.IDs {
			if g.isRel(c) && !contains(f.ids, c) {
				cand = append(cand, c)
			}
		}
		if len(cand) > 0 {
			out = append(out, [2]int64{int64(cand[g.R.Intn(len(cand))]), g.pickTarget(false)})
		}
	}
	if g.R.Chance(g.St.Invalid) {
		// a relation given by index (ecs.RelIdx): rejected while the relations are converted, before the
		// query takes its lock bit
		out = append(out, [2]int64{int64(1000 + g.R.Intn(2)), g.pickTarget(false)})
	}
	return out
}

// matchingHandles evaluates a filter (plus per-call relation targets) over the alive handles
// using only read accessors, so that probing does not disturb the world (no query, no lock).
func (g *Gen) matchingHandles(fi int, brels [][2]int64) []int {
	f := g.S.Filters[fi]
	u := g.S.W.Unsafe()
	var out []int
	for _, h := range g.aliveHandles() {
		have := g.compsOf(h)
		ok := true
		for _, c := range f.ids {
			if !contains(have, c) {
				ok = false
			}
		}
		for _, c := range f.without {
			if contains(have, c) {
				ok = false
			}
		}
		if f.excl && len(have) != len(f.ids) {
			ok = false
		}
		for _, r := range append(append([][2]int64{}, f.rels...), brels...) {
			if !contains(have, int(r[0])) || u.GetRelation(g.S.Issued[h], g.S.IDs[r[0]]) != g.S.handle(r[1]) {
				ok = false
			}
		}
		if ok {
			out = append(out, h)
		}
	}
	return out
}

// batchSafe: every selected entity lacks all of add and has all of rem.
func (g *Gen) batchSafe(fi int, brels [][2]int64, add, rem []int) bool {
	for _, h := range g.matchingHandles(fi, brels) {
		have := g.compsOf(h)
		for _, c := range add {
			if contains(have, c) {
				return false
			}
		}
		for _, c := range rem {
			if !contains(have, c) {
				return false
			}
		}
	}
	return true
}

func (g *Gen) menuFor(pred func(codes []int) bool) [][]int {
	var out [][]int
	for _, m := range MapperMenu {
		ok := true
		for _, c := range m {
			if g.S.compOfCode(c) < 0 {
				ok = false
			}
		}
		if ok && pred(m) {
			out = append(out, m)
		}
	}
	return out
}

func (g *Gen) compsOfCodes(codes []int) []int {
	out := make([]int, len(codes))
	for i, c := range codes {
		out[i] = g.S.compOfCode(c)
	}
	return out
}

func (g *Gen) valsFor(comps []int) [][2]int64 {
	var out [][2]int64
	for _, c := range comps {
		if !codeIsZero(g.S.codeOf(c)) && g.R.Chance(80) {
			out = append(out, [2]int64{int64(c), int64(1 + g.R.Intn(1000000))})
		}
	}
	return out
}

// NextOp returns the next operation line, or nil if the chosen kind is not applicable now.
func (g *Gen) NextOp() []int64 {
	for len(g.queue) > 0 {
		op := g.queue[0]
		g.queue = g.queue[1:]
		if l := op(); l != nil {
			return l
		}
	}
	if g.Scenarios > 0 && g.R.Chance(g.Scenarios) && !g.tooMany() {
		g.Scenario()
		if len(g.queue) > 0 {
			return g.NextOp()
		}
	}
	kinds := make([]string, 0, len(g.St.Weights))
	for k := range g.St.Weights {
		kinds = append(kinds, k)
	}
	sort.Strings(kinds)
	total := 0
	for _, k := range kinds {
		total += g.St.Weights[k]
	}
	if g.S.W.IsLocked() && len(g.openQueries) > 0 && g.R.Chance(30) {
		if g.R.Chance(60) {
			if l := g.build("queryclose"); l != nil {
				return l
			}
		}
		if l := g.build("querynext"); l != nil {
			return l
		}
	}
	for tries := 0; tries < 50; tries++ {
		x := g.R.Intn(total)
		kind := ""
		for _, k := range kinds {
			if x < g.St.Weights[k] {
				kind = k
				break
			}
			x -= g.St.Weights[k]
		}
		if l := g.build(kind); l != nil {
			return l
		}
	}
	return []int64{0}
}

func (g *Gen) tooMany() bool { return len(g.aliveHandles()) >= g.St.MaxEnt }

func (g *Gen) build(kind string) []int64 {
	inv := g.R.Chance(g.St.Invalid)
	switch kind {
	case "new":
		if g.tooMany() {
			return nil
		}
		return []int64{0}
	case "unew":
		if g.tooMany() {
			return nil
		}
		ids := g.pickSubsetNotIn(nil, 3)
		// without relation targets: drop relation components unless an invalid call is wanted
		var keep []int
		for _, c := range ids {
			if !g.isRel(c) || inv {
				keep = append(keep, c)
			}
		}
		if inv && len(keep) > 0 && g.R.Chance(30) {
			keep = append(keep, keep[0]) // duplicate component
		}
		return cat([]int64{1}, encList(keep))
	case "unewrel":
		if g.tooMany() {
			return nil
		}
		ids := g.pickSubsetNotIn(nil, 3)
		hasRel := false
		for _, c := range ids {
			if g.isRel(c) {
				hasRel = true
			}
		}
		if !hasRel {
			for c := 0; c < g.ncomps(); c++ {
				if g.isRel(c) && !contains(ids, c) {
					ids = append(ids, c)
					break
				}
			}
		}
		rels := g.relsFor(ids, inv)
		if inv && len(rels) > 0 && g.R.Chance(40) {
			rels = rels[:len(rels)-1] // omit a required target
		}
		return cat([]int64{2}, encList(ids), encPairs(rels))
	case "newentities":
		if g.tooMany() {
			return nil
		}
		return []int64{3, int64(g.R.Intn(5)), g.fnFlag(false)}
	case "copy":
		if g.tooMany() {
			return nil
		}
		h, ok := g.pickHandle(true)
		if !ok {
			return nil
		}
		return []int64{4, h}
	case "add", "addrel":
		h, ok := g.pickHandle(true)
		if !ok {
			return nil
		}
		var have []int
		if g.aliveOrNil(h) {
			have = g.compsOf(int(h))
		}
		ids := g.pickSubsetNotIn(have, 2)
		if inv {
			switch g.R.Intn(3) {
			case 0:
				ids = nil
			case 1:
				if len(have) > 0 {
					ids = append(ids, have[g.R.Intn(len(have))])
				}
			}
		}
		rels := g.relsFor(ids, inv && g.R.Chance(50))
		if len(rels) == 0 && kind == "add" {
			return cat([]int64{5, h}, encList(ids))
		}
		if len(rels) > 0 && inv && g.R.Chance(30) {
			rels = rels[:len(rels)-1]
		}
		return cat([]int64{6, h}, encList(ids), encPairs(rels))
	case "remove":
		h, ok := g.pickHandle(true)
		if !ok {
			return nil
		}
		var have []int
		if g.aliveOrNil(h) {
			have = g.compsOf(int(h))
		}
		ids := g.pickSubsetOf(have, 2)
		if inv {
			if g.R.Chance(50) {
				ids = g.pickSubsetNotIn(have, 1)
			} else {
				ids = nil
			}
		}
		if len(ids) == 0 && !inv {
			return nil
		}
		return cat([]int64{7, h}, encList(ids))
	case "exchange":
		h, ok := g.pickHandle(true)
		if !ok {
			return nil
		}
		var have []int
		if g.aliveOrNil(h) {
			have = g.compsOf(int(h))
		}
		add := g.pickSubsetNotIn(have, 2)
		rem := g.pickSubsetOf(have, 2)
		if g.R.Chance(20) {
			add = nil
		}
		if len(add) == 0 && len(rem) == 0 && !inv {
			return nil
		}
		if inv && g.R.Chance(40) && len(rem) > 0 {
			add = append(add, rem[0]) // added and removed in the same exchange
		}
		rels := g.relsFor(add, inv && g.R.Chance(50))
		return cat([]int64{8, h}, encList(add), encList(rem), encPairs(rels))
	case "write", "mapset":
		h, ok := g.pickHandle(true)
		if !ok {
			return nil
		}
		var have []int
		if g.aliveOrNil(h) {
			have = g.compsOf(int(h))
		}
		var c int
		if len(have) > 0 && !inv {
			c = have[g.R.Intn(len(have))]
		} else if inv {
			c = g.pickComp()
		} else {
			return nil
		}
		if kind == "mapset" {
			if g.S.codeOf(c) >= CodeDyn {
				return nil
			}
			return []int64{29, h, int64(c), int64(1 + g.R.Intn(1000000))}
		}
		return []int64{9, h, int64(c), int64(1 + g.R.Intn(1000000))}
	case "setrel":
		h, ok := g.pickHandle(true)
		if !ok {
			return nil
		}
		var have []int
		if g.aliveOrNil(h) {
			have = g.compsOf(int(h))
		}
		var rels [][2]int64
		for _, c := range have {
			if g.isRel(c) && g.R.Chance(75) {
				rels = append(rels, [2]int64{int64(c), g.pickTarget(inv)})
			}
		}
		// malformed calls (at the stream's misuse rate): a target for a plain component the entity has,
		// a relation component named twice (the second assignment restoring the current target or not),
		// a relation component the entity lacks
		if len(have) > 0 && g.R.Chance(g.St.Invalid) {
			switch g.R.Intn(3) {
			case 0:
				for _, c := range have {
					if !g.isRel(c) {
						rels = append(rels, [2]int64{int64(c), g.pickTarget(false)})
						break
					}
				}
			case 1:
				if len(rels) > 0 {
					first := rels[0]
					cur := int64(-1)
					if e := int(h); g.aliveOrNil(h) {
						tg := g.S.W.Unsafe().GetRelation(g.S.Issued[e], g.S.IDs[first[0]])
						for i, x := range g.S.Issued {
							if x == tg {
								cur = int64(i)
							}
						}
					}
					if g.R.Chance(60) {
						rels = append(rels, [2]int64{first[0], cur})
					} else {
						rels = append(rels, [2]int64{first[0], g.pickTarget(false)})
					}
				}
			default:
				for c := range g.S.IDs {
					if g.isRel(c) && !contains(have, c) {
						rels = append(rels, [2]int64{int64(c), g.pickTarget(false)})
						break
					}
				}
			}
		}
		if len(rels) == 0 && !inv {
			return nil
		}
		return cat([]int64{10, h}, encPairs(rels))
	case "removeentity":
		h, ok := g.pickHandle(true)
		if !ok {
			return nil
		}
		return []int64{11, h}
	case "removeentities":
		fi, ok := g.filterIdx(true)
		if !ok {
			return nil
		}
		return cat([]int64{12, int64(fi)}, encPairs(g.queryRels(fi)), []int64{g.fnFlag(false)})
	case "reset":
		g.registered = map[int]bool{}
		if !g.S.W.IsLocked() {
			g.epoch = len(g.S.Issued)
		}
		return []int64{13}
	case "shrink":
		return []int64{14, int64(g.R.Intn(2))}
	case "filternew":
		if len(g.S.Filters) >= 8 {
			return nil
		}
		uns := g.R.Chance(25)
		var ids []int
		if !g.R.Chance(15) {
			ids = g.pickSubsetNotIn(nil, 2)
		}
		var without []int
		excl := false
		if g.R.Chance(30) {
			without = g.pickSubsetNotIn(ids, 2)
		} else if g.R.Chance(15) {
			excl = true
		}
		var rels [][2]int64
		if !uns && g.R.Chance(40) {
			for _, c := range ids {
				if g.isRel(c) {
					rels = append(rels, [2]int64{int64(c), g.pickTarget(inv)})
				}
			}
		}
		return cat([]int64{15, b2i(uns)}, encList(ids), encList(without), []int64{b2i(excl)}, encPairs(rels))
	case "register":
		fi, ok := g.filterIdx(true)
		if !ok || (g.registered[fi] && !inv) {
			return nil
		}
		g.registered[fi] = true
		return []int64{16, int64(fi)}
	case "unregister":
		fi, ok := g.filterIdx(true)
		if !ok || (!g.registered[fi] && !inv) {
			return nil
		}
		g.registered[fi] = false
		return []int64{17, int64(fi)}
	case "queryall":
		fi, ok := g.filterIdx(false)
		if !ok {
			return nil
		}
		return cat([]int64{18, int64(fi)}, encPairs(g.queryRelsMisuse(fi)))
	case "queryopen":
		fi, ok := g.filterIdx(false)
		if !ok || len(g.openQueries) >= 6 {
			return nil
		}
		g.openQueries[len(g.S.Queries)] = true
		return cat([]int64{19, int64(fi)}, encPairs(g.queryRelsMisuse(fi)))
	case "lockburst":
		// 62..66 simultaneously open queries (the lock has 64 bits: the 65th and 66th are rejected), a
		// structural call in the middle, then all of them closed in a random order
		fi, ok := g.filterIdx(false)
		if !ok || len(g.openQueries) > 0 || g.S.W.IsLocked() {
			return nil
		}
		n := 62 + g.R.Intn(5)
		var opened []int
		for i := 0; i < n; i++ {
			g.queue = append(g.queue, func() []int64 {
				opened = append(opened, len(g.S.Queries))
				g.openQueries[len(g.S.Queries)] = true
				return cat([]int64{19, int64(fi)}, encPairs(nil))
			})
		}
		g.queue = append(g.queue, func() []int64 { return []int64{0} })
		perm := make([]int, n)
		for i := range perm {
			perm[i] = i
		}
		for i := n - 1; i > 0; i-- {
			j := g.R.Intn(i + 1)
			perm[i], perm[j] = perm[j], perm[i]
		}
		closed := map[int]bool{}
		for _, k := range perm {
			k := k
			g.queue = append(g.queue, func() []int64 {
				if k >= len(opened) {
					return nil
				}
				qi := opened[k]
				if qi >= len(g.S.Queries) || closed[qi] {
					return nil
				}
				closed[qi] = true
				delete(g.openQueries, qi)
				if g.R.Chance(15) {
					return []int64{20, int64(qi)}
				}
				return []int64{21, int64(qi)}
			})
		}
		return g.NextOp()
	case "querynext", "queryclose", "querycount", "queryat", "queryentity":
		if len(g.S.Queries) == 0 {
			return nil
		}
		qi := g.R.Intn(len(g.S.Queries))
		if !g.openQueries[qi] && !g.R.Chance(10) {
			// mostly operate on open queries
			var open []int
			for k := range g.openQueries {
				if k < len(g.S.Queries) {
					open = append(open, k)
				}
			}
			if len(open) == 0 {
				return nil
			}
			sort.Ints(open)
			qi = open[g.R.Intn(len(open))]
		}
		switch kind {
		case "querynext":
			return []int64{20, int64(qi)}
		case "queryclose":
			delete(g.openQueries, qi)
			return []int64{21, int64(qi)}
		case "querycount":
			return []int64{22, int64(qi)}
		case "queryat":
			return []int64{23, int64(qi), int64(g.R.Intn(6))}
		default:
			return []int64{24, int64(qi)}
		}
	case "obsnew":
		if len(g.S.Observers) >= 8 {
			return nil
		}
		evt := 249 + g.R.Intn(7)
		if g.R.Chance(10) {
			evt = g.R.Intn(3)
		}
		// concentrate observers on a few event types per script, so that several observers
		// share one event type (aggregates, early-out, unregister order)
		if g.hotEvents == nil {
			g.hotEvents = []int{249 + g.R.Intn(7), 249 + g.R.Intn(7)}
		}
		if g.R.Chance(65) {
			evt = g.hotEvents[g.R.Intn(len(g.hotEvents))]
		}
		var for_, with, without []int
		if g.R.Chance(60) {
			for_ = g.pickSubsetNotIn(nil, 2)
			if evt == 254 || evt == 255 {
				var rel []int
				for _, c := range for_ {
					if g.isRel(c) || inv {
						rel = append(rel, c)
					}
				}
				for_ = rel
			}
		}
		if g.R.Chance(30) {
			with = g.pickSubsetNotIn(nil, 2)
		}
		excl := false
		if g.R.Chance(25) {
			without = g.pickSubsetNotIn(with, 2)
		} else if g.R.Chance(10) {
			excl = true
		}
		cb := 0
		if g.R.Chance(15) {
			cb = 1
		} else if g.R.Chance(10) {
			cb = 2 + g.R.Intn(len(g.S.Observers)+1)
		}
		return cat([]int64{25, int64(evt)}, encList(for_), encList(with), encList(without), []int64{b2i(excl), int64(cb)})
	case "obsreg":
		if len(g.S.Observers) == 0 {
			return nil
		}
		oi := g.R.Intn(len(g.S.Observers))
		if g.S.Observers[oi].Foreign || (g.S.Observers[oi].registered && !inv) {
			return nil
		}
		return []int64{26, int64(oi)}
	case "obsunreg":
		if len(g.S.Observers) == 0 {
			return nil
		}
		oi := g.R.Intn(len(g.S.Observers))
		if g.S.Observers[oi].Foreign || (!g.S.Observers[oi].registered && !inv) {
			return nil
		}
		return []int64{27, int64(oi)}
	case "emit":
		evt := g.R.Intn(3)
		h, ok := g.pickHandle(true)
		if !ok {
			return nil
		}
		var comps []int
		if g.aliveOrNil(h) && g.R.Chance(60) {
			comps = g.pickSubsetOf(g.compsOf(int(h)), 2)
		}
		if inv {
			comps = g.pickSubsetNotIn(nil, 1)
		}
		return cat([]int64{28, int64(evt), h}, encList(comps))
	case "newbatch":
		if g.tooMany() {
			return nil
		}
		menu := g.menuFor(func([]int) bool { return true })
		if len(menu) == 0 {
			return nil
		}
		codes := menu[g.R.Intn(len(menu))]
		comps := g.compsOfCodes(codes)
		rels := g.relsFor(comps, inv)
		return cat([]int64{30, int64(g.R.Intn(4))}, encList(comps), encPairs(rels), encPairs(g.valsFor(comps)), []int64{g.fnFlag(true)})
	case "exbatch":
		fi, ok := g.filterIdx(true)
		if !ok {
			return nil
		}
		f := g.S.Filters[fi]
		brels := g.queryRels(fi)
		mode := g.R.Intn(3)
		switch mode {
		case 0: // add components none of the filter's required components overlap with
			menu := g.menuFor(func(codes []int) bool {
				for _, c := range codes {
					if contains(f.ids, g.S.compOfCode(c)) {
						return false
					}
				}
				return true
			})
			if len(menu) == 0 {
				return nil
			}
			add := g.compsOfCodes(menu[g.R.Intn(len(menu))])
			if !g.batchSafe(fi, brels, add, nil) && !g.R.Chance(g.St.Invalid) {
				return nil
			}
			return cat([]int64{31, int64(fi)}, encPairs(brels), encList(add), encList(nil), encPairs(g.relsFor(add, inv)), encPairs(g.valsFor(add)))
		case 1: // remove components required by the filter
			menu := g.menuFor(func(codes []int) bool {
				for _, c := range codes {
					if !contains(f.ids, g.S.compOfCode(c)) {
						return false
					}
				}
				return true
			})
			if len(menu) == 0 {
				return nil
			}
			rem := g.compsOfCodes(menu[g.R.Intn(len(menu))])
			return cat([]int64{31, int64(fi)}, encPairs(brels), encList(nil), encList(rem), encPairs(nil), encPairs(nil))
		default:
			var cands [][2][]int
			for _, x := range ExchangeMenu {
				ok := true
				for _, c := range x[0] {
					if g.S.compOfCode(c) < 0 || contains(f.ids, g.S.compOfCode(c)) {
						ok = false
					}
				}
				for _, c := range x[1] {
					if g.S.compOfCode(c) < 0 || !contains(f.ids, g.S.compOfCode(c)) {
						ok = false
					}
				}
				if ok {
					cands = append(cands, x)
				}
			}
			if len(cands) == 0 {
				return nil
			}
			x := cands[g.R.Intn(len(cands))]
			add := g.compsOfCodes(x[0])
			rem := g.compsOfCodes(x[1])
			if !g.batchSafe(fi, brels, add, rem) && !g.R.Chance(g.St.Invalid) {
				return nil
			}
			return cat([]int64{31, int64(fi)}, encPairs(brels), encList(add), encList(rem), encPairs(g.relsFor(add, inv)), encPairs(g.valsFor(add)))
		}
	case "setrelbatch":
		fi, ok := g.filterIdx(true)
		if !ok {
			return nil
		}
		f := g.S.Filters[fi]
		menu := g.menuFor(func(codes []int) bool {
			hasRel := false
			for _, c := range codes {
				if !contains(f.ids, g.S.compOfCode(c)) {
					return false
				}
				if codeIsRel(c) {
					hasRel = true
				}
			}
			return hasRel
		})
		if len(menu) == 0 {
			return nil
		}
		mids := g.compsOfCodes(menu[g.R.Intn(len(menu))])
		var rels [][2]int64
		for _, c := range mids {
			if g.isRel(c) && (len(rels) == 0 || g.R.Chance(60)) {
				rels = append(rels, [2]int64{int64(c), g.pickTarget(inv)})
			}
		}
		return cat([]int64{32, int64(fi)}, encPairs(g.queryRels(fi)), encList(mids), encPairs(rels))
	case "probe":
		h, ok := g.pickHandle(true)
		if !ok {
			return nil
		}
		c := g.pickComp()
		if g.aliveOrNil(h) && g.R.Chance(70) {
			if have := g.compsOf(int(h)); len(have) > 0 {
				c = have[g.R.Intn(len(have))]
			}
		}
		switch g.R.Intn(5) {
		case 0:
			return []int64{33, h}
		case 1:
			return []int64{34, h, int64(c)}
		case 2:
			if !g.aliveOrNil(h) || contains(g.compsOf(int(h)), c) || inv {
				return []int64{35, h, int64(c)}
			}
			return []int64{33, h}
		case 3:
			return []int64{36, h}
		default:
			if !g.aliveOrNil(h) || contains(g.compsOf(int(h)), c) || inv {
				return []int64{37, h, int64(c)}
			}
			return []int64{33, h}
		}
	case "stats":
		return []int64{38}
	}
	return nil
}

var _ = ecs.Entity{}

// fnFlag draws the optional trailing flag of ops 3, 12 and 30: about a third of the batch operations
// pass no callback; for op 30 half use the single-component Map[T] where possible.
func (g *Gen) fnFlag(mapT bool) int64 {
	f := int64(0)
	if g.R.Intn(3) == 0 {
		f = 1
	}
	if mapT && g.R.Intn(2) == 0 {
		f += 2
	}
	return f
}
