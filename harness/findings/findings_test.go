// Package findings: probes for the known (recorded, not repaired) findings listed in
// /verif/known_findings.json. Each probe prints one line per call, "FINDING-PROBE <property> <call>:
// panicked=<bool>", and never fails: the check runs it under the build configurations concerned,
// compares the outcomes and reports KNOWN-FINDING for a listed divergence, VIOLATION for any other.
package findings

import (
	"fmt"
	"testing"

	"github.com/mlange-42/ark/ecs"
)

type A struct{ V int64 }
type B struct{ V int64 }

func probe(prop, call string, fn func()) {
	panicked := false
	func() {
		defer func() {
			if recover() != nil {
				panicked = true
			}
		}()
		fn()
	}()
	fmt.Printf("FINDING-PROBE %s %s: panicked=%v\n", prop, call, panicked)
}

// C20: calls on a typed query that has no current table (before the first Next, after exhaustion,
// after Close). Entity/Next/Count/EntityAt are control calls that agree between the builds.
func TestFinding_C20_TypedQueryOutsideIteration(t *testing.T) {
	w := ecs.NewWorld(2, 1)
	m := ecs.NewMap2[A, B](w)
	for i := 0; i < 3; i++ {
		m.NewEntity(&A{int64(i)}, &B{int64(i)})
	}
	f1 := ecs.NewFilter1[A](w)
	f2 := ecs.NewFilter2[A, B](w)

	q := f1.Query()
	probe("C20", "Query1.Get before Next", func() { _ = q.Get() })
	probe("C20", "Query1.Entity before Next", func() { _ = q.Entity() })
	probe("C20", "Query1.Count before Next", func() { _ = q.Count() })
	for q.Next() {
	}
	probe("C20", "Query1.Get after exhaustion", func() { _ = q.Get() })
	probe("C20", "Query1.Entity after exhaustion", func() { _ = q.Entity() })
	probe("C20", "Query1.Next after exhaustion", func() { _ = q.Next() })

	q2 := f2.Query()
	probe("C20", "Query2.Get before Next", func() { _, _ = q2.Get() })
	q2.Next()
	probe("C20", "Query2.Get inside iteration", func() { _, _ = q2.Get() })
	probe("C20", "Query2.Entity inside iteration", func() { _ = q2.Entity() })
	q2.Close()
	probe("C20", "Query2.Get after Close", func() { _, _ = q2.Get() })
	probe("C20", "Query2.Entity after Close", func() { _ = q2.Entity() })
	probe("C20", "Query2.Next after Close", func() { _ = q2.Next() })
	probe("C20", "Query2.Close after Close", func() { q2.Close() })

	uq := ecs.NewUnsafeFilter(w, ecs.ComponentID[A](w)).Query()
	probe("C20", "UnsafeQuery.Get before Next", func() { _ = uq.Get(ecs.ComponentID[A](w)) })
	probe("C20", "UnsafeQuery.Entity before Next", func() { _ = uq.Entity() })
	uq.Close()
	probe("C20", "UnsafeQuery.Get after Close", func() { _ = uq.Get(ecs.ComponentID[A](w)) })
	if w.IsLocked() {
		t.Fatal("world locked after all queries were finished or closed")
	}
}

type R1 struct {
	ecs.RelationMarker
	V int64
}
type R2 struct {
	ecs.RelationMarker
	V int64
}

// C16: the same calls on a world that was used and Reset and on a brand-new world. The control
// calls agree; a query naming a relation target for a component its filter does not require used to depend
// on the archetypes that the previous history left behind (repaired by 69d7fda; the probe stays so that a
// return of the divergence is reported).
func TestFinding_C16_ResetWorldVsNewWorld(t *testing.T) {
	used := ecs.NewWorld(2, 1)
	idA := ecs.ComponentID[A](used)
	idR1 := ecs.ComponentID[R1](used)
	idR2 := ecs.ComponentID[R2](used)
	tg := used.NewEntity()
	used.Unsafe().NewEntityRel([]ecs.ID{idA, idR2}, ecs.RelID(idR2, tg)) // leaves an archetype {A, R2}
	used.Reset()
	fresh := ecs.NewWorld(2, 1)
	ecs.ComponentID[A](fresh)
	ecs.ComponentID[R1](fresh)
	ecs.ComponentID[R2](fresh)
	for _, c := range []struct {
		name string
		w    *ecs.World
	}{{"reset-world", used}, {"new-world", fresh}} {
		w := c.w
		u := w.Unsafe()
		x := w.NewEntity()
		u.NewEntityRel([]ecs.ID{idA, idR1}, ecs.RelID(idR1, x))
		probe("C16", c.name+" UnsafeFilter(A).Query(Rel(R1)) Count", func() {
			q := ecs.NewUnsafeFilter(w, idA).Query(ecs.RelID(idR1, x))
			defer q.Close()
			_ = q.Count()
		})
		probe("C16", c.name+" UnsafeFilter(A,R1).Query(Rel(R1)) Count", func() {
			q := ecs.NewUnsafeFilter(w, idA, idR1).Query(ecs.RelID(idR1, x))
			defer q.Close()
			_ = q.Count()
		})
		probe("C16", c.name+" Filter2[A,R1].Query(RelIdx) Count", func() {
			q := ecs.NewFilter2[A, R1](w).Query(ecs.RelIdx(1, x))
			defer q.Close()
			_ = q.Count()
		})
		probe("C16", c.name+" NewEntity after everything", func() { w.NewEntity() })
	}
}

// C16 (observer objects): an observer whose registration was REJECTED keeps the id it was handed (the id is
// taken from the pool before the For-list is validated). On a new world that id is never handed out again, so a
// later Unregister of the object panics "not found". A used world hands the same id out again after Reset: there
// the same Unregister call silently removes ANOTHER observer (known finding rejected-observer-after-reset).
func TestFinding_C16_RejectedObserverAfterReset(t *testing.T) {
	for _, name := range []string{"reset-world", "new-world"} {
		w := ecs.NewWorld(2, 1)
		ecs.ComponentID[A](w)
		ecs.ComponentID[R1](w)
		zombie := ecs.Observe(ecs.OnAddRelations).For(ecs.C[A]()).Do(func(ecs.Entity) {})
		probe("C16", name+" observer For(plain A) of OnAddRelations: Register", func() { zombie.Register(w) })
		pre := ecs.Observe(ecs.OnCreateEntity).Do(func(ecs.Entity) {})
		pre.Register(w) // (Reset only resets the observer id pool when something is registered)
		if name == "reset-world" {
			w.Reset()
		} else {
			pre.Unregister(w)
		}
		fired := 0
		o1 := ecs.Observe(ecs.OnAddRelations).Do(func(ecs.Entity) { fired++ })
		probe("C16", name+" fresh observer: Register", func() { o1.Register(w) })
		probe("C16", name+" rejected observer: Unregister", func() { zombie.Unregister(w) })
		x := w.NewEntity()
		ecs.NewMap1[R1](w).NewEntity(&R1{}, ecs.RelIdx(0, x))
		fmt.Printf("FINDING-PROBE C16 %s fresh observer fired after that: panicked=%v\n", name, fired == 0)
	}
}
