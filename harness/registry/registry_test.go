// Package registry: Go-side part of the C18 check (run for both mask widths): component and resource
// registries assign stable sequential IDs, the documented maximum is usable, exceeding it or
// registering on a locked world panics without consuming an ID, resources behave as a map.
package registry

import (
	"fmt"
	"os"
	"reflect"
	"strconv"
	"testing"

	"verif/harness/sim"

	"github.com/mlange-42/ark/ecs"
)

func seed() uint64 {
	if s := os.Getenv("VERIF_SEED"); s != "" {
		v, _ := strconv.ParseUint(s, 10, 64)
		return v
	}
	return 1
}
func thorough() bool { return os.Getenv("VERIF_TIER") == "thorough" }

func dynType(i int) reflect.Type {
	return reflect.StructOf([]reflect.StructField{{Name: fmt.Sprintf("V%d", i), Type: reflect.TypeFor[int64]()}})
}

func panics(fn func()) (p bool) {
	defer func() {
		if r := recover(); r != nil {
			p = true
		}
	}()
	fn()
	return false
}

const bits = ecs.VerifMaskBits

func TestComponentRegistryOrders(t *testing.T) {
	n := 60
	if thorough() {
		n = 1500
	}
	for k := 0; k < n; k++ {
		r := sim.NewRng(seed()*31 + uint64(k))
		w := ecs.NewWorld(2)
		total := 1 + r.Intn(bits)
		if r.Chance(25) {
			total = bits
		}
		assigned := map[int]int{} // type number -> id
		next := 0
		for step := 0; step < total*2 && next < total; step++ {
			var tn int
			if len(assigned) > 0 && r.Chance(35) {
				tn = r.Intn(next) // an already registered type
			} else {
				tn = next
			}
			id := int(ecs.TypeID(w, dynType(tn)).Index())
			if want, ok := assigned[tn]; ok {
				if id != want {
					t.Fatalf("VERIF-REPLAY seed=%d k=%d: type %d had id %d, now %d", seed(), k, tn, want, id)
				}
			} else {
				if id != next {
					t.Fatalf("VERIF-REPLAY seed=%d k=%d: new type %d got id %d, want %d", seed(), k, tn, id, next)
				}
				assigned[tn] = id
				next++
			}
		}
		if got := len(ecs.ComponentIDs(w)); got != next {
			t.Fatalf("VERIF-REPLAY seed=%d k=%d: ComponentIDs has %d entries, want %d", seed(), k, got, next)
		}
		for tn, id := range assigned {
			info, ok := ecs.ComponentInfo(w, ecs.ComponentIDs(w)[id])
			if !ok || info.Type != dynType(tn) {
				t.Fatalf("VERIF-REPLAY seed=%d k=%d: ComponentInfo(%d) = %v %v", seed(), k, id, info, ok)
			}
		}
		// registering on a locked world panics and consumes no ID
		f := ecs.NewUnsafeFilter(w)
		q := f.Query()
		if next < bits {
			if !panics(func() { ecs.TypeID(w, dynType(10000)) }) {
				t.Fatalf("VERIF-REPLAY seed=%d k=%d: registering a new type on a locked world did not panic", seed(), k)
			}
			if got := len(ecs.ComponentIDs(w)); got != next {
				t.Fatalf("VERIF-REPLAY seed=%d k=%d: failed registration on a locked world changed the number of IDs to %d", seed(), k, got)
			}
			// known types are still found while locked
			if next > 0 && int(ecs.TypeID(w, dynType(0)).Index()) != assigned[0] {
				t.Fatalf("lookup of a known type on a locked world changed its id")
			}
		}
		q.Close()
		if next < bits {
			id := int(ecs.TypeID(w, dynType(10000)).Index())
			if id != next {
				t.Fatalf("VERIF-REPLAY seed=%d k=%d: after the rejected registration the next id is %d, want %d", seed(), k, id, next)
			}
			// and it is usable
			e := w.Unsafe().NewEntity(ecs.ComponentIDs(w)[id])
			if !w.Unsafe().Has(e, ecs.ComponentIDs(w)[id]) {
				t.Fatalf("component registered after a rejected registration is unusable")
			}
		}
	}
}

func TestComponentLimitAndFullWorld(t *testing.T) {
	w := ecs.NewWorld(2)
	ids := make([]ecs.ID, bits)
	for i := 0; i < bits; i++ {
		ids[i] = ecs.TypeID(w, dynType(i))
		if int(ids[i].Index()) != i {
			t.Fatalf("type %d got id %d", i, ids[i].Index())
		}
	}
	for extra := 0; extra < 3; extra++ {
		if !panics(func() { ecs.TypeID(w, dynType(bits + extra)) }) {
			t.Fatalf("registration number %d did not panic", bits+1+extra)
		}
		if got := len(ecs.ComponentIDs(w)); got != bits {
			t.Fatalf("ComponentIDs has %d entries after exceeding the maximum, want %d", got, bits)
		}
	}
	for i := 0; i < bits; i++ { // all types still map to their IDs
		if int(ecs.TypeID(w, dynType(i)).Index()) != i {
			t.Fatalf("type %d changed its id after exceeding the maximum", i)
		}
	}
	u := w.Unsafe()
	// entities using IDs at every word boundary, and the highest ID
	probe := []int{0, 1, 62, 63}
	if bits == 256 {
		probe = append(probe, 64, 65, 127, 128, 191, 192, 254, 255)
	}
	var ents []ecs.Entity
	for i, c := range probe {
		var e ecs.Entity
		if panics(func() { e = u.NewEntity(ids[c], ids[probe[(i+1)%len(probe)]]) }) {
			t.Fatalf("creating an entity with ids %d,%d in a full registry panicked", c, probe[(i+1)%len(probe)])
		}
		*(*int64)(u.Get(e, ids[c])) = int64(1000 + c)
		ents = append(ents, e)
	}
	for i, c := range probe {
		e := ents[i]
		if *(*int64)(u.Get(e, ids[c])) != int64(1000+c) {
			t.Fatalf("value of id %d lost", c)
		}
		got := u.IDs(e)
		a, b := c, probe[(i+1)%len(probe)]
		if a > b {
			a, b = b, a
		}
		if got.Len() != 2 || int(got.Get(0).Index()) != a || int(got.Get(1).Index()) != b {
			t.Fatalf("IDs of entity %d wrong", i)
		}
		// query by the single id c: the entities having c are i and i-1
		f := ecs.NewUnsafeFilter(w, ids[c])
		q := f.Query()
		n := 0
		for q.Next() {
			if !q.Has(ids[c]) {
				t.Fatalf("query over id %d yielded an entity without it", c)
			}
			n++
		}
		if n != 2 {
			t.Fatalf("query over id %d visited %d entities, want 2", c, n)
		}
		// typed filter path (rare component, cached)
		f0 := ecs.NewFilter0(w).With(ecs.VerifComp(dynType(c))).Register()
		q0 := f0.Query()
		if q0.Count() != 2 {
			t.Fatalf("cached query over id %d counts %d, want 2", c, q0.Count())
		}
		q0.Close()
		f0.Unregister()
	}
	// the whole mask at once
	all := u.NewEntity(ids...)
	allIDs := u.IDs(all)
	if allIDs.Len() != bits {
		t.Fatalf("entity with all components has %d ids", allIDs.Len())
	}
	for i := 0; i < bits; i++ {
		if !u.Has(all, ids[i]) {
			t.Fatalf("entity with all components lacks id %d", i)
		}
	}
}

type res0 struct{ V int }

func TestResourcesAsMap(t *testing.T) {
	n := 60
	if thorough() {
		n = 2000
	}
	for k := 0; k < n; k++ {
		r := sim.NewRng(seed()*17 + uint64(k))
		w := ecs.NewWorld(2)
		nt := 1 + r.Intn(12)
		resIDs := make([]ecs.ResID, nt)
		for i := 0; i < nt; i++ {
			resIDs[i] = ecs.ResourceTypeID(w, dynType(i))
			if int(resIDs[i].Index()) != i {
				t.Fatalf("resource type %d got id %d", i, resIDs[i].Index())
			}
		}
		oracle := map[int]any{}
		for step := 0; step < 80; step++ {
			i := r.Intn(nt)
			id := resIDs[i]
			if int(ecs.ResourceTypeID(w, dynType(i)).Index()) != i {
				t.Fatalf("resource id of type %d changed", i)
			}
			switch r.Intn(5) {
			case 0:
				v := &res0{V: step}
				_, have := oracle[i]
				p := panics(func() { w.Resources().Add(id, v) })
				if p != have {
					t.Fatalf("VERIF-REPLAY seed=%d k=%d step=%d: Add present=%v panicked=%v", seed(), k, step, have, p)
				}
				if !have {
					oracle[i] = v
				}
			case 1:
				_, have := oracle[i]
				p := panics(func() { w.Resources().Remove(id) })
				if p == have {
					t.Fatalf("VERIF-REPLAY seed=%d k=%d step=%d: Remove present=%v panicked=%v", seed(), k, step, have, p)
				}
				delete(oracle, i)
			case 2:
				_, have := oracle[i]
				if w.Resources().Has(id) != have {
					t.Fatalf("VERIF-REPLAY seed=%d k=%d step=%d: Has=%v want %v", seed(), k, step, !have, have)
				}
			case 3:
				got := w.Resources().Get(id)
				want, have := oracle[i]
				if have && got != want || !have && got != nil {
					t.Fatalf("VERIF-REPLAY seed=%d k=%d step=%d: Get returns %v want %v", seed(), k, step, got, want)
				}
			case 4:
				if r.Chance(10) {
					w.Reset()
					oracle = map[int]any{}
				}
			}
		}
	}
	// resource registry limit
	w := ecs.NewWorld(2)
	for i := 0; i < bits; i++ {
		if int(ecs.ResourceTypeID(w, dynType(i)).Index()) != i {
			t.Fatalf("resource type %d id mismatch", i)
		}
	}
	if !panics(func() { ecs.ResourceTypeID(w, dynType(bits)) }) {
		t.Fatalf("resource registration beyond the maximum did not panic")
	}
	if len(ecs.ResourceIDs(w)) != bits {
		t.Fatalf("ResourceIDs has %d entries", len(ecs.ResourceIDs(w)))
	}
}

type regPlain struct{ V int64 }
type regRel struct {
	ecs.RelationMarker
	V int64
}
type regRel2 struct {
	ecs.RelationMarker
}
type regLate struct{ V int32 }

// A registration rejected on a locked world leaves every registry entry as it was: same types, same
// IDs, same relation flags, whatever kind of component was registered last; also when it would have
// been the first registration ever.
func TestRejectedRegistrationLeavesRegistryUntouched(t *testing.T) {
	orders := [][]int{{0, 1}, {1, 0}, {0, 1, 2}, {2, 0, 1}, {1}, {0}, {}}
	for oi, order := range orders {
		w := ecs.NewWorld(2)
		var ids []ecs.ID
		for _, k := range order {
			switch k {
			case 0:
				ids = append(ids, ecs.ComponentID[regPlain](w))
			case 1:
				ids = append(ids, ecs.ComponentID[regRel](w))
			case 2:
				ids = append(ids, ecs.ComponentID[regRel2](w))
			}
		}
		type entry struct {
			tp  string
			rel bool
		}
		snapshot := func() []entry {
			var out []entry
			for _, id := range ecs.ComponentIDs(w) {
				info, ok := ecs.ComponentInfo(w, id)
				if !ok {
					t.Fatalf("order %d: ComponentInfo missing for id %d", oi, id.Index())
				}
				out = append(out, entry{info.Type.String(), info.IsRelation})
			}
			return out
		}
		before := snapshot()
		q := ecs.NewUnsafeFilter(w).Query()
		if !panics(func() { ecs.ComponentID[regLate](w) }) {
			t.Fatalf("order %d: registration on a locked world did not panic", oi)
		}
		if !panics(func() { ecs.ComponentID[regLate](w) }) {
			t.Fatalf("order %d: second registration attempt on a locked world did not panic", oi)
		}
		q.Close()
		after := snapshot()
		if fmt.Sprint(before) != fmt.Sprint(after) {
			t.Fatalf("order %d: rejected registration changed the registry: before %v after %v", oi, before, after)
		}
		// the relation components still behave as relations, the plain one as plain
		tg := w.NewEntity()
		u := w.Unsafe()
		for i, k := range order {
			if k == 0 {
				u.NewEntity(ids[i])
				if !panics(func() { u.NewEntityRel([]ecs.ID{ids[i]}, ecs.RelID(ids[i], tg)) }) && len(order) == 1 {
					// (with the archetype already present the library accepts and ignores the target: see DESIGN I.7)
				}
			} else {
				e := u.NewEntityRel([]ecs.ID{ids[i]}, ecs.RelID(ids[i], tg))
				if u.GetRelation(e, ids[i]) != tg {
					t.Fatalf("order %d: relation component %d lost its target", oi, i)
				}
			}
		}
		late := ecs.ComponentID[regLate](w)
		if int(late.Index()) != len(order) {
			t.Fatalf("order %d: after the rejected registration the next id is %d, want %d", oi, late.Index(), len(order))
		}
	}
}
