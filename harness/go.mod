module verif/harness

go 1.24

require github.com/mlange-42/ark v0.0.0

replace github.com/mlange-42/ark => /repo
