//go:build !ark_tiny

package witness

import (
	"fmt"
	"reflect"
	"testing"

	"github.com/mlange-42/ark/ecs"
)

func dynType(i int) reflect.Type {
	return reflect.StructOf([]reflect.StructField{{Name: fmt.Sprintf("V%d", i), Type: reflect.TypeFor[int64]()}})
}

// C18: exactly 256 component types can be registered and the highest IDs used.
func TestWitness_C18_Full256(t *testing.T) {
	w := ecs.NewWorld(4)
	ids := make([]ecs.ID, 256)
	for i := 0; i < 256; i++ {
		ids[i] = ecs.TypeID(w, dynType(i))
		if int(ids[i].Index()) != i {
			t.Fatalf("type %d got id %d", i, ids[i].Index())
		}
	}
	mustPanic(t, "257th registration", func() { ecs.TypeID(w, dynType(256)) })
	if n := len(ecs.ComponentIDs(w)); n != 256 {
		t.Fatalf("ComponentIDs has %d entries after failed registration, want 256", n)
	}
	u := w.Unsafe()
	var e ecs.Entity
	mustNotPanic(t, "create entity with ids 0,63,64,255 in a full registry", func() {
		e = u.NewEntity(ids[0], ids[63], ids[64], ids[255])
	})
	got := u.IDs(e)
	want := []int{0, 63, 64, 255}
	if got.Len() != 4 {
		t.Fatalf("IDs len %d", got.Len())
	}
	for i, x := range want {
		if int(got.Get(i).Index()) != x {
			t.Fatalf("IDs[%d]=%d want %d", i, got.Get(i).Index(), x)
		}
	}
	f := ecs.NewUnsafeFilter(w, ids[255])
	q := f.Query()
	n := 0
	for q.Next() {
		n++
		*(*int64)(q.Get(ids[255])) = 42
	}
	if n != 1 || *(*int64)(u.Get(e, ids[255])) != 42 {
		t.Fatalf("query over id 255: n=%d", n)
	}
}
