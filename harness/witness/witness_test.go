// Package witness holds one small public-API program per genuine defect that was
// found in mlange-42/ark and repaired by a "fix:" commit (see /verif/known_findings.json).
// Every check runs the witnesses of its property first, so a violation that returns is
// reported again with the witness as replay.
package witness

import (
	"fmt"
	"sync"
	"testing"
	"time"

	"github.com/mlange-42/ark/ecs"
)

type compA struct{ V int64 }
type compB struct{ V int64 }
type compC struct{ V int64 }
type rel1 struct {
	ecs.RelationMarker
	V int64
}
type rel2 struct {
	ecs.RelationMarker
	V int64
}

func mustNotPanic(t *testing.T, what string, fn func()) {
	t.Helper()
	defer func() {
		if r := recover(); r != nil {
			t.Fatalf("%s panicked: %v", what, r)
		}
	}()
	fn()
}

func mustPanic(t *testing.T, what string, fn func()) {
	t.Helper()
	defer func() {
		if r := recover(); r == nil {
			t.Fatalf("%s did not panic", what)
		}
	}()
	fn()
}

// C08: an OnRemoveComponents observer For(A,B) must fire only when A and B are removed together.
func TestWitness_C08_RemovePredicate(t *testing.T) {
	w := ecs.NewWorld(4)
	mapAB := ecs.NewMap2[compA, compB](w)
	mapA := ecs.NewMap1[compA](w)
	fired := 0
	ecs.Observe(ecs.OnRemoveComponents).For(ecs.C[compA](), ecs.C[compB]()).Do(func(e ecs.Entity) { fired++ }).Register(w)
	e := mapAB.NewEntity(&compA{1}, &compB{2})
	mapA.Remove(e) // removes only A from {A,B}
	if fired != 0 {
		t.Fatalf("observer For(A,B) fired %d times when only A was removed from {A,B}", fired)
	}
	e2 := mapA.NewEntity(&compA{1})
	mapA.Remove(e2) // removes A from {A}: B is not removed (entity never had it)
	if fired != 0 {
		t.Fatalf("observer For(A,B) fired %d times when A was removed from {A}", fired)
	}
	e3 := mapAB.NewEntity(&compA{1}, &compB{2})
	mapAB.Remove(e3)
	if fired != 1 {
		t.Fatalf("observer For(A,B) fired %d times when A and B were removed together, want 1", fired)
	}
}

// C08: an observer that unregisters itself from inside its callback must not break dispatch.
func TestWitness_C08_SelfUnregister(t *testing.T) {
	w := ecs.NewWorld(4)
	var o1 *ecs.Observer
	n1, n2 := 0, 0
	o1 = ecs.Observe(ecs.OnCreateEntity).Do(func(e ecs.Entity) { n1++; o1.Unregister(w) })
	o1.Register(w)
	ecs.Observe(ecs.OnCreateEntity).Do(func(e ecs.Entity) { n2++ }).Register(w)
	mustNotPanic(t, "NewEntity with self-unregistering observer", func() { w.NewEntity() })
	if n1 != 1 || n2 != 1 {
		t.Fatalf("observers fired (%d,%d) times, want (1,1)", n1, n2)
	}
	w.NewEntity()
	if n1 != 1 || n2 != 2 {
		t.Fatalf("after unregistering: observers fired (%d,%d) times, want (1,2)", n1, n2)
	}
}

// C09: inside an OnRemoveComponents callback the entity appears exactly once in a query.
func TestWitness_C09_RemoveSeenOnce(t *testing.T) {
	w := ecs.NewWorld(4)
	mapAB := ecs.NewMap2[compA, compB](w)
	mapA := ecs.NewMap1[compA](w)
	filter := ecs.NewFilter0(w)
	var target ecs.Entity
	seen := -1
	ecs.Observe(ecs.OnRemoveComponents).Do(func(e ecs.Entity) {
		seen = 0
		q := filter.Query()
		for q.Next() {
			if q.Entity() == target {
				seen++
			}
		}
	}).Register(w)
	target = mapAB.NewEntity(&compA{1}, &compB{2})
	mapA.Remove(target)
	if seen != 1 {
		t.Fatalf("Map1.Remove: entity seen %d times in a query inside OnRemoveComponents, want 1", seen)
	}
	// same for exchange
	ex := ecs.NewExchange1[compC](w).Removes(ecs.C[compB]())
	seen = -1
	ex.Exchange(target, &compC{3})
	if seen != 1 {
		t.Fatalf("Exchange: entity seen %d times in a query inside OnRemoveComponents, want 1", seen)
	}
}

// C09/C06: OnAddRelations callbacks of SetRelationsBatch report the moved entities.
func TestWitness_C09_SetRelationsBatchEntity(t *testing.T) {
	w := ecs.NewWorld(4)
	mapR := ecs.NewMap1[rel1](w)
	p1 := w.NewEntity()
	p2 := w.NewEntity()
	// two rows already in the destination table (target p2)
	mapR.NewEntity(&rel1{V: 1}, ecs.RelIdx(0, p2))
	mapR.NewEntity(&rel1{V: 2}, ecs.RelIdx(0, p2))
	c1 := mapR.NewEntity(&rel1{V: 3}, ecs.RelIdx(0, p1))
	var got []ecs.Entity
	ecs.Observe(ecs.OnAddRelations).Do(func(e ecs.Entity) { got = append(got, e) }).Register(w)
	filter := ecs.NewFilter1[rel1](w)
	mapR.SetRelationsBatch(filter.Batch(ecs.RelIdx(0, p1)), nil, ecs.RelIdx(0, p2))
	if len(got) != 1 || got[0] != c1 {
		t.Fatalf("OnAddRelations callback got %v, want [%v]", got, c1)
	}
	if !w.Alive(got[0]) {
		t.Fatalf("OnAddRelations callback got a dead entity %v", got[0])
	}
}

// C10: CopyEntity of a dead entity panics and leaves the world unchanged.
func TestWitness_C10_CopyDead(t *testing.T) {
	w := ecs.NewWorld(4)
	mapA := ecs.NewMap1[compA](w)
	e := mapA.NewEntity(&compA{1})
	w.RemoveEntity(e)
	before := w.Stats().Entities
	mustPanic(t, "CopyEntity(dead)", func() { w.CopyEntity(e) })
	after := w.Stats().Entities
	if before.Used != after.Used || before.Recycled != after.Recycled || before.Total != after.Total {
		t.Fatalf("entity pool changed by failed CopyEntity: %+v -> %+v", before, after)
	}
	// recycled ID with a newer incarnation: the stale handle must be rejected, not copied
	e2 := mapA.NewEntity(&compA{7})
	if e2.ID() != e.ID() {
		t.Fatalf("expected recycling of id %d, got %d", e.ID(), e2.ID())
	}
	mustPanic(t, "CopyEntity(stale handle of recycled id)", func() { w.CopyEntity(e) })
	// the zero entity
	mustPanic(t, "CopyEntity(zero)", func() { w.CopyEntity(ecs.Entity{}) })
	if w.Stats().Entities.Used != 1 {
		t.Fatalf("used entities = %d, want 1", w.Stats().Entities.Used)
	}
}

// C16: after Reset no observer fires, including when an observer of event type 255 was registered.
func TestWitness_C16_ResetObservers255(t *testing.T) {
	w := ecs.NewWorld(4)
	n := 0
	oc := ecs.Observe(ecs.OnCreateEntity).Do(func(e ecs.Entity) { n++ })
	oc.Register(w)
	or := ecs.Observe(ecs.OnRemoveRelations).Do(func(e ecs.Entity) { n++ })
	or.Register(w)
	w.Reset()
	w.NewEntity()
	if n != 0 {
		t.Fatalf("observer fired %d times after Reset", n)
	}
	if w.Stats().Observers != 0 {
		t.Fatalf("Stats().Observers = %d after Reset", w.Stats().Observers)
	}
	// can be registered again
	mustNotPanic(t, "re-register after Reset", func() { oc.Register(w); or.Register(w) })
	w.NewEntity()
	if n != 1 {
		t.Fatalf("re-registered observer fired %d times, want 1", n)
	}
}

// C05: unregistering another filter while a query of a registered filter is open.
func TestWitness_C05_UnregisterOtherWhileOpen(t *testing.T) {
	w := ecs.NewWorld(4)
	mapA := ecs.NewMap1[compA](w)
	mapA.NewEntity(&compA{1})
	mapA.NewEntity(&compA{2})
	fa := ecs.NewFilter1[compA](w).Register()
	fb := ecs.NewFilter1[compA](w).Register()
	q := fb.Query()
	fa.Unregister()
	cnt := 0
	for q.Next() {
		cnt++
	}
	if cnt != 2 {
		t.Fatalf("cached query visited %d entities after unregistering another filter, want 2", cnt)
	}
	if w.IsLocked() {
		t.Fatalf("world still locked")
	}
	// unregistering the filter of the open query itself
	q2 := fb.Query()
	fb.Unregister()
	cnt = 0
	for q2.Next() {
		cnt++
	}
	if cnt != 2 {
		t.Fatalf("cached query visited %d entities after unregistering its own filter, want 2", cnt)
	}
}

// C04: two targets of one table removed in one batch.
func TestWitness_C04_TwoTargetsOneBatch(t *testing.T) {
	w := ecs.NewWorld(4)
	mapA := ecs.NewMap1[compA](w)
	mapRR := ecs.NewMap2[rel1, rel2](w)
	t1 := mapA.NewEntity(&compA{1})
	t2 := mapA.NewEntity(&compA{2})
	child := mapRR.NewEntity(&rel1{V: 5}, &rel2{V: 6}, ecs.RelIdx(0, t1), ecs.RelIdx(1, t2))
	fa := ecs.NewFilter1[compA](w)
	mustNotPanic(t, "RemoveEntities of two targets of one table", func() { w.RemoveEntities(fa.Batch(), nil) })
	if w.IsLocked() {
		t.Fatalf("world left locked")
	}
	if !w.Alive(child) {
		t.Fatalf("child died")
	}
	if tg := mapRR.GetRelation(child, 0); !tg.IsZero() {
		t.Fatalf("relation 0 target = %v, want zero", tg)
	}
	if tg := mapRR.GetRelation(child, 1); !tg.IsZero() {
		t.Fatalf("relation 1 target = %v, want zero", tg)
	}
	a, b := mapRR.Get(child)
	if a.V != 5 || b.V != 6 {
		t.Fatalf("child values changed: %d %d", a.V, b.V)
	}
}

// C15/C03: Shrink frees an empty relation table whose target is alive; later use of the same target.
func TestWitness_C15_ShrinkFreesRelationTable(t *testing.T) {
	w := ecs.NewWorld(4)
	mapR := ecs.NewMap1[rel1](w)
	parent := w.NewEntity()
	c := mapR.NewEntity(&rel1{V: 1}, ecs.RelIdx(0, parent))
	w.RemoveEntity(c)
	w.Shrink()
	c2 := mapR.NewEntity(&rel1{V: 2}, ecs.RelIdx(0, parent))
	f := ecs.NewFilter1[rel1](w)
	q := f.Query(ecs.RelIdx(0, parent))
	cnt := 0
	for q.Next() {
		if q.Entity() != c2 {
			t.Fatalf("unexpected entity %v", q.Entity())
		}
		cnt++
	}
	if cnt != 1 {
		t.Fatalf("relation query visited the child %d times after Shrink, want 1", cnt)
	}
	// registered filter sees the same
	fr := ecs.NewFilter1[rel1](w).Register()
	w.RemoveEntity(c2)
	w.Shrink()
	c3 := mapR.NewEntity(&rel1{V: 3}, ecs.RelIdx(0, parent))
	q2 := fr.Query()
	cnt = 0
	for q2.Next() {
		if q2.Entity() != c3 {
			t.Fatalf("unexpected entity %v", q2.Entity())
		}
		cnt++
	}
	if cnt != 1 {
		t.Fatalf("cached query visited the child %d times after Shrink, want 1", cnt)
	}
	// removing the target afterwards still works and detaches
	mustNotPanic(t, "RemoveEntity(parent)", func() { w.RemoveEntity(parent) })
	if tg := mapR.GetRelation(c3, 0); !tg.IsZero() {
		t.Fatalf("target = %v, want zero", tg)
	}
}

// C13: concurrent first use of one shared (uncached) filter is race-free (run with -race).
func TestWitness_C13_SharedFilterRace(t *testing.T) {
	w := ecs.NewWorld(16)
	mapA := ecs.NewMap1[compA](w)
	for i := 0; i < 10; i++ {
		mapA.NewEntity(&compA{int64(i)})
	}
	for round := 0; round < 50; round++ {
		f := ecs.NewFilter1[compA](w)
		var wg sync.WaitGroup
		start := make(chan struct{})
		for g := 0; g < 8; g++ {
			wg.Add(1)
			go func() {
				defer wg.Done()
				<-start
				for k := 0; k < 3; k++ {
					q := f.Query()
					n := 0
					for q.Next() {
						n++
					}
					if n != 10 {
						t.Errorf("query visited %d, want 10", n)
					}
				}
			}()
		}
		close(start)
		wg.Wait()
		if w.IsLocked() {
			t.Fatalf("world locked after all queries finished")
		}
	}
}

// C16/C02: after Reset no previously issued handle is reported alive (until it is issued again).
func TestWitness_C16_ResetAlive(t *testing.T) {
	w := ecs.NewWorld(4)
	var es []ecs.Entity
	for i := 0; i < 6; i++ {
		es = append(es, w.NewEntity())
	}
	w.RemoveEntity(es[1])
	w.Reset()
	for _, e := range es {
		if w.Alive(e) {
			t.Fatalf("handle %v reported alive after Reset", e)
		}
	}
	e := w.NewEntity()
	if e != es[0] {
		t.Fatalf("first entity after Reset is %v, want %v", e, es[0])
	}
	for i, h := range es {
		if w.Alive(h) != (i == 0) {
			t.Fatalf("handle %v: Alive=%v after re-creating only %v", h, w.Alive(h), e)
		}
	}
}

// C20/C07: Next on a closed or finished query panics on every call, with and without ark_debug.
func TestWitness_C20_NextAfterClose(t *testing.T) {
	w := ecs.NewWorld(4)
	mapA := ecs.NewMap1[compA](w)
	for i := 0; i < 3; i++ {
		mapA.NewEntity(&compA{int64(i)})
	}
	f := ecs.NewFilter1[compA](w)
	// closed manually in the middle of a table
	q := f.Query()
	if !q.Next() {
		t.Fatal("expected an entity")
	}
	q.Close()
	mustPanic(t, "Next after manual Close", func() { q.Next() })
	mustPanic(t, "second Next after manual Close", func() { q.Next() })
	mustPanic(t, "third Next after manual Close", func() { q.Next() })
	// finished by iteration
	q2 := f.Query()
	for q2.Next() {
	}
	mustPanic(t, "Next after exhaustion", func() { q2.Next() })
	mustPanic(t, "second Next after exhaustion", func() { q2.Next() })
	// unsafe query
	uq := ecs.NewUnsafeFilter(w, ecs.ComponentID[compA](w)).Query()
	uq.Next()
	uq.Close()
	mustPanic(t, "unsafe Next after Close", func() { uq.Next() })
	mustPanic(t, "unsafe second Next after Close", func() { uq.Next() })
	if w.IsLocked() {
		t.Fatal("world locked")
	}
}

// C20: after a Next that did not yield an entity the query has no current table any more: Entity() panics
// in the default build exactly as it does with ark_debug (after a Next that panicked in the middle of the
// archetype walk it used to return the last entity of the previous table in the default build only). The
// walk can no longer be made to panic through the public API - the query that did it (an ID-based query
// with a relation on a component outside its filter) first stopped panicking (69d7fda) and is now rejected
// when it is created - so the witness pins the remaining observable behaviour: after exhaustion and after
// Close, Entity panics in all four builds, Next does not yield, the world is unlocked.
func TestWitness_C20_EntityAfterFailedNext(t *testing.T) {
	w := ecs.NewWorld(1, 1)
	idR := ecs.ComponentID[rel1](w)
	idS := ecs.ComponentID[rel2](w)
	u := w.Unsafe()
	a := w.NewEntity()
	b := w.NewEntity()
	c := u.NewEntityRel([]ecs.ID{idR}, ecs.RelID(idR, a))
	u.NewEntityRel([]ecs.ID{idS}, ecs.RelID(idS, a))
	mustPanic(t, "query with a relation on a component outside its filter", func() { ecs.NewUnsafeFilter(w).Query(ecs.RelID(idR, b)) })
	if w.IsLocked() {
		t.Fatal("rejected query left the world locked")
	}
	q := ecs.NewUnsafeFilter(w, idR).Query(ecs.RelID(idR, a))
	if !q.Next() || q.Entity() != c {
		t.Fatal("expected the child of a")
	}
	more := true
	func() {
		defer func() { _ = recover() }()
		more = q.Next()
	}()
	if more {
		t.Fatalf("Next yields %v after the only match", q.Entity())
	}
	mustPanic(t, "Entity after the final Next", func() { _ = q.Entity() })
	func() {
		defer func() { _ = recover() }()
		if q.Next() {
			t.Fatal("Next after the final Next yields an entity")
		}
	}()
	if w.IsLocked() {
		t.Fatal("world locked")
	}
}

// C20 (and C10): MapN.Set on an entity lacking one of the mapped components panics in every build and
// leaves the components it has untouched (the default build used to overwrite the earlier components
// before panicking on the missing one, the ark_debug build did not).
func TestWitness_C20_SetMissingComponent(t *testing.T) {
	w := ecs.NewWorld(2, 1)
	mA := ecs.NewMap1[compA](w)
	e := mA.NewEntity(&compA{V: 1})
	m2 := ecs.NewMap2[compA, compB](w)
	mustPanic(t, "Map2.Set on an entity without the second component", func() { m2.Set(e, &compA{V: 99}, &compB{V: 5}) })
	if v := mA.Get(e).V; v != 1 {
		t.Fatalf("rejected Set changed component A to %d", v)
	}
	m3 := ecs.NewMap3[compA, compC, compB](w)
	mustPanic(t, "Map3.Set on an entity without the later components", func() { m3.Set(e, &compA{V: 77}, &compC{V: 5}, &compB{V: 5}) })
	if v := mA.Get(e).V; v != 1 {
		t.Fatalf("rejected Set changed component A to %d", v)
	}
}

// C10/C04: a relation component named twice (which hides an omitted target of another relation
// component from the "fully specified" count) is rejected. It used to succeed and left the table with
// a shadowed target that was never detached when it died: afterwards every valid Add/Remove on the
// entity panicked with "dead entity as relation target".
func TestWitness_C10_DuplicateRelationComponent(t *testing.T) {
	w := ecs.NewWorld(2, 1)
	idA := ecs.ComponentID[compA](w)
	id1 := ecs.ComponentID[rel1](w)
	id2 := ecs.ComponentID[rel2](w)
	u := w.Unsafe()
	t0, t1 := w.NewEntity(), w.NewEntity()
	mustPanic(t, "NewEntityRel naming one relation component twice and omitting the other", func() {
		u.NewEntityRel([]ecs.ID{id1, id2}, ecs.RelID(id1, t0), ecs.RelID(id1, t1))
	})
	e := u.NewEntityRel([]ecs.ID{id1, id2}, ecs.RelID(id1, t0), ecs.RelID(id2, t1))
	mustPanic(t, "AddRel naming a relation component twice", func() {
		u.AddRel(w.NewEntity(), []ecs.ID{id1}, ecs.RelID(id1, t0), ecs.RelID(id1, t1))
	})
	w.RemoveEntity(t0)
	u.Add(e, idA) // a valid call: must not fail
	if u.GetRelation(e, id1) != (ecs.Entity{}) || u.GetRelation(e, id2) != t1 {
		t.Fatal("targets wrong after the target of the first relation was removed")
	}
	if w.IsLocked() {
		t.Fatal("world locked")
	}
}

// C10: a batch operation that is rejected (a component that some matched entities already have, a
// removed entity as relation target) panics and leaves the world unlocked and unchanged; it used to
// leave the world locked for ever.
func TestWitness_C10_RejectedBatchLeavesWorldUnlocked(t *testing.T) {
	w := ecs.NewWorld(2, 1)
	mapA := ecs.NewMap1[compA](w)
	mapAB := ecs.NewMap2[compA, compB](w)
	e0 := mapA.NewEntity(&compA{1})
	e1 := mapAB.NewEntity(&compA{2}, &compB{3})
	fA := ecs.NewFilter1[compA](w)
	mapB := ecs.NewMap1[compB](w)
	mustPanic(t, "AddBatch of a component that one matched table already has", func() {
		mapB.AddBatch(fA.Batch(), &compB{9})
	})
	if w.IsLocked() {
		t.Fatal("world locked after the rejected AddBatch")
	}
	if mapB.HasAll(e0) || !mapAB.HasAll(e1) {
		t.Fatal("rejected AddBatch changed entities")
	}
	_, b := mapAB.Get(e1)
	if b.V != 3 {
		t.Fatal("rejected AddBatch changed values")
	}
	// a removed entity as target in SetRelationsBatch
	mapR := ecs.NewMap1[rel1](w)
	tg := w.NewEntity()
	dead := w.NewEntity()
	w.RemoveEntity(dead)
	c := mapR.NewEntity(&rel1{}, ecs.RelIdx(0, tg))
	fR := ecs.NewFilter1[rel1](w)
	mustPanic(t, "SetRelationsBatch with a removed entity as target", func() {
		mapR.SetRelationsBatch(fR.Batch(), nil, ecs.RelIdx(0, dead))
	})
	if w.IsLocked() {
		t.Fatal("world locked after the rejected SetRelationsBatch")
	}
	if mapR.GetRelation(c, 0) != tg {
		t.Fatal("rejected SetRelationsBatch changed a target")
	}
	w.NewEntity() // structural changes work again
}

// C04/C10: the targets of a relation table are registered when the table is created, also when the
// operation that created it is rejected afterwards (a batch whose second table is not eligible).
// Otherwise removing the target skips the cleanup, the table keeps the dead target, and a stale
// handle of that target is accepted as relation target (entity with a dead target).
func TestWitness_C04_TargetsRegisteredWithTable(t *testing.T) {
	w := ecs.NewWorld(2, 1)
	idA := ecs.ComponentID[compA](w)
	idR := ecs.ComponentID[rel1](w)
	u := w.Unsafe()
	tg := w.NewEntity()
	other := w.NewEntity()
	u.NewEntity(idA)
	u.NewEntityRel([]ecs.ID{idA, idR}, ecs.RelID(idR, other))
	f := ecs.NewFilter0(w).With(ecs.C[compA]())
	mapR := ecs.NewMap1[rel1](w)
	// first table {A}: destination {A,R->tg} is created; second table {A,R} already has R: rejected
	mustPanic(t, "AddBatch of a relation component some matched entities already have", func() {
		mapR.AddBatch(f.Batch(), &rel1{}, ecs.RelIdx(0, tg))
	})
	if w.IsLocked() {
		t.Fatal("world locked after the rejected batch")
	}
	w.RemoveEntity(tg)
	mustPanic(t, "NewEntityRel with the removed entity as target", func() {
		u.NewEntityRel([]ecs.ID{idA, idR}, ecs.RelID(idR, tg))
	})
}

// C01/C04: SetRelations rejects a target for a non-relation component and a relation component named
// twice. Both used to "move" the entity into its own table (the new relation list equalled the old
// one, so GetTable returned the entity's own table): the entity's index entry then pointed behind the
// table's length - the entity was lost and later operations corrupted its neighbours.
func TestWitness_C04_SetRelationsIntoOwnTable(t *testing.T) {
	w := ecs.NewWorld(2, 1)
	idA := ecs.ComponentID[compA](w)
	idR := ecs.ComponentID[rel1](w)
	u := w.Unsafe()
	t0, t1 := w.NewEntity(), w.NewEntity()
	e := u.NewEntityRel([]ecs.ID{idA, idR}, ecs.RelID(idR, t0))
	*(*compA)(u.Get(e, idA)) = compA{V: 42}
	mustPanic(t, "SetRelations with a target for a non-relation component", func() {
		u.SetRelations(e, ecs.RelID(idA, t1))
	})
	mustPanic(t, "SetRelations naming a relation component twice", func() {
		u.SetRelations(e, ecs.RelID(idR, t1), ecs.RelID(idR, t0))
	})
	if u.GetRelation(e, idR) != t0 || (*compA)(u.Get(e, idA)).V != 42 {
		t.Fatal("rejected SetRelations changed the entity")
	}
	// the entity is still where queries find it, exactly once
	n := 0
	q := ecs.NewFilter1[compA](w).Query()
	for q.Next() {
		if q.Entity() == e {
			n++
		}
	}
	if n != 1 {
		t.Fatalf("entity listed %d times", n)
	}
	u.SetRelations(e, ecs.RelID(idR, t1)) // a valid call still works
	if u.GetRelation(e, idR) != t1 {
		t.Fatal("valid SetRelations did not change the target")
	}
}

// C16 (and C03): a creation that is rejected after its archetype was created must not leave an
// archetype without table behind: Reset and queries over all entities index table 0 of every
// relation-free archetype. Before the repair Reset panicked half-way (index and pool already
// cleared, tables not) and a later query listed a stale row next to the new entity.
func TestWitness_C16_ResetAfterRejectedCreation(t *testing.T) {
	w := ecs.NewWorld(2, 1)
	idA := ecs.ComponentID[compA](w)
	idB := ecs.ComponentID[compB](w)
	idR := ecs.ComponentID[rel1](w)
	u := w.Unsafe()
	x := w.NewEntity()
	// misuse calls that used to be rejected after createArchetype: whatever they do now (accepted and
	// the superfluous relation ignored, or rejected), the world must stay usable
	func() { defer func() { _ = recover() }(); u.NewEntityRel([]ecs.ID{idA}, ecs.RelID(idA, x)) }()
	func() { defer func() { _ = recover() }(); u.NewEntityRel([]ecs.ID{idB}, ecs.RelID(idR, x)) }()
	e := u.NewEntity(idB)
	// a query over everything works
	n := 0
	q := ecs.NewUnsafeFilter(w).Query()
	for q.Next() {
		n++
	}
	if n != w.Stats().Entities.Used {
		t.Fatalf("query over all entities visits %d, world has %d", n, w.Stats().Entities.Used)
	}
	w.Reset() // must not panic
	if w.Alive(e) || w.Stats().Entities.Used != 0 {
		t.Fatal("Reset left entities behind")
	}
	e2 := u.NewEntity(idB)
	n = 0
	q2 := ecs.NewFilter1[compB](w).Query()
	for q2.Next() {
		if q2.Entity() != e2 {
			t.Fatalf("query after Reset lists %v, only %v exists", q2.Entity(), e2)
		}
		n++
	}
	if n != 1 {
		t.Fatalf("query after Reset lists %d entities, want 1", n)
	}
}

// C16 (and C03): a query that names a relation target for a component its filter does not require
// has the same outcome in a world that was used and Reset and in a brand-new world. History of this
// witness: originally the call panicked (index -1 / nil column) as soon as the walk reached a relation
// archetype lacking the component - which depended on the archetypes an earlier history had left behind
// (repaired by 69d7fda: no match instead of a panic); it then still listed entities that do not have the
// relation (all entities of relation-free archetypes), so UnsafeFilter.Query now validates its relation
// arguments like the generic filters: the call is rejected when the query is created, in both worlds,
// and takes no lock bit.
func TestWitness_C16_QueryRelationOnForeignComponent(t *testing.T) {
	used := ecs.NewWorld(2, 1)
	idA := ecs.ComponentID[compA](used)
	idR1 := ecs.ComponentID[rel1](used)
	idR2 := ecs.ComponentID[rel2](used)
	tg := used.NewEntity()
	used.Unsafe().NewEntityRel([]ecs.ID{idA, idR2}, ecs.RelID(idR2, tg)) // leaves an archetype {A, R2}
	used.Reset()
	fresh := ecs.NewWorld(2, 1)
	ecs.ComponentID[compA](fresh)
	ecs.ComponentID[rel1](fresh)
	ecs.ComponentID[rel2](fresh)
	var outcome [2]string
	for i, w := range []*ecs.World{used, fresh} {
		u := w.Unsafe()
		x := w.NewEntity()
		y := w.NewEntity()
		plain := u.NewEntity(idA)
		u.NewEntityRel([]ecs.ID{idA, idR1}, ecs.RelID(idR1, x))
		u.NewEntityRel([]ecs.ID{idA, idR1}, ecs.RelID(idR1, y))
		u.NewEntityRel([]ecs.ID{idA, idR2}, ecs.RelID(idR2, x)) // has A, has relations, lacks R1
		func() {
			defer func() {
				if r := recover(); r != nil {
					outcome[i] = "rejected"
				}
			}()
			q := ecs.NewUnsafeFilter(w, idA).Query(ecs.RelID(idR1, x)) // R1 is not required by the filter
			n := q.Count()
			var list []ecs.Entity
			for q.Next() {
				list = append(list, q.Entity())
			}
			outcome[i] = fmt.Sprint(n, list)
			for _, e := range list {
				if e == plain || !u.Has(e, idR1) || u.GetRelation(e, idR1) != x {
					t.Fatalf("world %d: the query for (R1, %v) lists %v, which does not have that relation", i, x, e)
				}
			}
		}()
		if w.IsLocked() {
			t.Fatalf("world %d left locked (outcome %s)", i, outcome[i])
		}
		// the same relation on a filter that requires R1 works and lists exactly the one child of x
		q := ecs.NewUnsafeFilter(w, idA, idR1).Query(ecs.RelID(idR1, x))
		if q.Count() != 1 {
			t.Fatalf("world %d: UnsafeFilter(A, R1).Query(R1 -> x) counts %d, want 1", i, q.Count())
		}
		q.Close()
		// a relation given for a plain component is rejected, too
		mustPanic(t, "relation target for a plain component", func() { ecs.NewUnsafeFilter(w, idA).Query(ecs.RelID(idA, x)) })
		if w.IsLocked() {
			t.Fatalf("world %d left locked by a rejected query", i)
		}
	}
	if outcome[0] != outcome[1] {
		t.Fatalf("reset world: %s, new world: %s", outcome[0], outcome[1])
	}
}

// C15 / C07: Shrink while a query is open. Shrink frees empty relation tables, which swap-removes them
// from the archetype's table list - the very slice an open query is walking - and reallocates the
// columns the query's cursor points into. Before the repair the call went through on a locked world
// and the open query then skipped an entity (or wrote through pointers into dropped arrays). Shrink
// changes storage structure, so like every other structure-changing operation it now panics, without
// effect, on a locked world; the query then visits exactly what it would have visited.
func TestWitness_C15_ShrinkInsideQuery(t *testing.T) {
	build := func() (*ecs.World, *ecs.Map1[rel1], []ecs.Entity) {
		w := ecs.NewWorld(16, 1)
		mapR := ecs.NewMap1[rel1](w)
		var tg, kids []ecs.Entity
		for i := 0; i < 5; i++ {
			tg = append(tg, w.NewEntity())
		}
		for i := 0; i < 5; i++ {
			kids = append(kids, mapR.NewEntity(&rel1{V: int64(i)}, ecs.RelIdx(0, tg[i])))
		}
		// empty the tables of targets 1 and 3 while the targets stay alive: work for Shrink
		w.RemoveEntity(kids[1])
		w.RemoveEntity(kids[3])
		return w, mapR, kids
	}
	walk := func(shrinkAt int) (visited []ecs.Entity, shrinkPanicked bool) {
		w, _, _ := build()
		q := ecs.NewFilter1[rel1](w).Query()
		for i := 0; ; i++ {
			if i == shrinkAt {
				func() {
					defer func() { shrinkPanicked = recover() != nil }()
					w.Shrink()
				}()
			}
			if !q.Next() {
				break
			}
			visited = append(visited, q.Entity())
		}
		if w.IsLocked() {
			t.Fatalf("world locked after the walk (Shrink at %d)", shrinkAt)
		}
		return
	}
	base, _ := walk(-1)
	if len(base) != 3 {
		t.Fatalf("baseline walk visits %d entities, want 3", len(base))
	}
	notRejected := false
	for at := 0; at <= 3; at++ {
		got, panicked := walk(at)
		seen := map[ecs.Entity]int{}
		for _, e := range got {
			seen[e]++
		}
		for _, e := range base {
			if seen[e] != 1 {
				t.Fatalf("Shrink before Next #%d (panicked=%v): the open query visits %v %d times; baseline %v, got %v", at, panicked, e, seen[e], base, got)
			}
		}
		if len(got) != len(base) {
			t.Fatalf("Shrink before Next #%d: the open query visits %v, baseline %v", at, got, base)
		}
		notRejected = notRejected || !panicked
	}
	if notRejected {
		t.Fatal("Shrink on a world locked by an open query did not panic")
	}
	// outside a query Shrink works as before and the freed tables are reused
	w, mapR, kids := build()
	mustNotPanic(t, "Shrink on an unlocked world", func() {
		for w.Shrink(0) {
		}
	})
	q := ecs.NewFilter1[rel1](w).Query()
	if q.Count() != 3 {
		t.Fatalf("Count after Shrink = %d, want 3", q.Count())
	}
	q.Close()
	if mapR.Get(kids[4]).V != 4 {
		t.Fatal("value changed by Shrink")
	}
}

// C07: up to 64 queries may be open at once; the 65th is rejected. After recovering from that panic
// the open queries can still be closed and the world unlocks when the last one is closed. Before the
// repair lock.LockSafe panicked inside bitPool.Get while holding its mutex, so every later Close (and
// every later Query) blocked for ever: the world could never be unlocked again.
func TestWitness_C07_SixtyFifthQueryDoesNotDeadlock(t *testing.T) {
	w := ecs.NewWorld(4)
	mapA := ecs.NewMap1[compA](w)
	mapA.NewEntity(&compA{1})
	f := ecs.NewFilter1[compA](w)
	qs := make([]ecs.Query1[compA], 0, 64)
	for i := 0; i < 64; i++ {
		qs = append(qs, f.Query())
	}
	mustPanic(t, "the 65th simultaneous query", func() { f.Query() })
	if !w.IsLocked() {
		t.Fatal("world not locked with 64 open queries")
	}
	done := make(chan string, 1)
	go func() {
		defer func() {
			if r := recover(); r != nil {
				done <- "Close panicked"
				return
			}
			done <- ""
		}()
		for i := range qs {
			qs[i].Close()
		}
	}()
	select {
	case msg := <-done:
		if msg != "" {
			t.Fatal(msg)
		}
	case <-time.After(10 * time.Second):
		t.Fatal("closing the open queries after the rejected 65th blocks for ever (mutex left locked)")
	}
	if w.IsLocked() {
		t.Fatal("world still locked after closing all 64 queries")
	}
	mustNotPanic(t, "structural operation after unlocking", func() { mapA.NewEntity(&compA{2}) })
	q := f.Query()
	if q.Count() != 2 {
		t.Fatalf("Count = %d, want 2", q.Count())
	}
	q.Close()
	// all 64 bits are usable again
	qs = qs[:0]
	for i := 0; i < 64; i++ {
		qs = append(qs, f.Query())
	}
	for i := range qs {
		qs[i].Close()
	}
	if w.IsLocked() {
		t.Fatal("world locked after the second round")
	}
}

// C09: "for a batch operation all removal callbacks run before any entity of the batch is changed and
// all other callbacks after all of them are changed" - for relation batches over several tables, too.
// Before the repair setRelationsBatch fired OnRemoveRelations / OnAddRelations table by table (the source
// carried a TODO): the removal callback of the second table saw the first table's entities already
// re-targeted, and the add callback of the first table saw the second table's entities not yet changed.
func TestWitness_C09_SetRelationsBatchEventOrder(t *testing.T) {
	w := ecs.NewWorld(4, 2)
	m := ecs.NewMap1[rel1](w)
	a, b, c := w.NewEntity(), w.NewEntity(), w.NewEntity()
	var kids []ecs.Entity
	for i := 0; i < 2; i++ {
		kids = append(kids, m.NewEntity(&rel1{V: int64(i)}, ecs.RelIdx(0, a)))
	}
	for i := 2; i < 5; i++ {
		kids = append(kids, m.NewEntity(&rel1{V: int64(i)}, ecs.RelIdx(0, b)))
	}
	old := map[ecs.Entity]ecs.Entity{}
	for _, k := range kids {
		old[k] = m.GetRelation(k, 0)
	}
	removes, adds := 0, 0
	ecs.Observe(ecs.OnRemoveRelations).Do(func(e ecs.Entity) {
		removes++
		if adds != 0 {
			t.Errorf("removal callback for %v after an add callback", e)
		}
		for _, k := range kids {
			if got := m.GetRelation(k, 0); got != old[k] {
				t.Errorf("removal callback for %v: batch member %v already has target %v (was %v)", e, k, got, old[k])
			}
		}
		if !w.IsLocked() {
			t.Errorf("world not locked in a batch callback")
		}
	}).Register(w)
	ecs.Observe(ecs.OnAddRelations).Do(func(e ecs.Entity) {
		adds++
		if removes != len(kids) {
			t.Errorf("add callback for %v after only %d of %d removal callbacks", e, removes, len(kids))
		}
		for _, k := range kids {
			if got := m.GetRelation(k, 0); got != c {
				t.Errorf("add callback for %v: batch member %v still has target %v", e, k, got)
			}
		}
	}).Register(w)
	cb := 0
	m.SetRelationsBatch(ecs.NewFilter1[rel1](w).Batch(), func(e ecs.Entity) { cb++ }, ecs.RelIdx(0, c))
	if removes != len(kids) || adds != len(kids) || cb != len(kids) {
		t.Fatalf("removal callbacks %d, add callbacks %d, batch callbacks %d, want %d each", removes, adds, cb, len(kids))
	}
	for i, k := range kids {
		if m.GetRelation(k, 0) != c || m.Get(k).V != int64(i) {
			t.Fatalf("entity %v: target %v value %d", k, m.GetRelation(k, 0), m.Get(k).V)
		}
	}
	if w.IsLocked() {
		t.Fatal("world locked after the batch")
	}
	// a batch rejected for one of its tables changes none of them (it used to change the earlier ones)
	w2 := ecs.NewWorld(4, 2)
	idR1, idR2 := ecs.ComponentID[rel1](w2), ecs.ComponentID[rel2](w2)
	u := w2.Unsafe()
	x, y, z := w2.NewEntity(), w2.NewEntity(), w2.NewEntity()
	e1 := u.NewEntityRel([]ecs.ID{idR1}, ecs.RelID(idR1, x))
	e2 := u.NewEntityRel([]ecs.ID{idR1}, ecs.RelID(idR1, y))
	w2.RemoveEntity(z)
	func() {
		defer func() { _ = recover() }()
		ecs.NewMap1[rel1](w2).SetRelationsBatch(ecs.NewFilter1[rel1](w2).Batch(), nil, ecs.RelIdx(0, z)) // dead target
	}()
	_ = idR2
	if u.GetRelation(e1, idR1) != x || u.GetRelation(e2, idR1) != y || w2.IsLocked() {
		t.Fatalf("rejected relation batch changed targets: %v %v locked=%v", u.GetRelation(e1, idR1), u.GetRelation(e2, idR1), w2.IsLocked())
	}
}
