// arkh: generates operation scripts from seeded streams while executing them on the real ark
// library (built from /repo's working tree), or replays given scripts. Output format: the
// integer lines of coq/Model/Run.v; scripts are separated by a line "#".
package main

import (
	"bufio"
	"flag"
	"fmt"
	"os"
	"sort"
	"strconv"
	"strings"

	"verif/harness/sim"

	"github.com/mlange-42/ark/ecs"
)

func writeLine(w *bufio.Writer, l []int64) {
	for i, x := range l {
		if i > 0 {
			w.WriteByte(' ')
		}
		w.WriteString(strconv.FormatInt(x, 10))
	}
	w.WriteByte('\n')
}

func parseLine(s string) []int64 {
	f := strings.Fields(s)
	out := make([]int64, len(f))
	for i, x := range f {
		v, err := strconv.ParseInt(x, 10, 64)
		if err != nil {
			panic(err)
		}
		out[i] = v
	}
	return out
}

func cfgFromLines(cfgLine, dumpLine []int64) sim.Config {
	c := sim.Config{Cap: int(cfgLine[0]), CapRel: int(cfgLine[1]), Bits: int(cfgLine[2]), Debug: cfgLine[3] != 0}
	n := int(cfgLine[4])
	for i := 0; i < n; i++ {
		c.Codes = append(c.Codes, int(cfgLine[5+i]))
	}
	c.WithDump = dumpLine[0] != 0
	return c
}

func main() {
	if len(os.Args) < 2 {
		fmt.Fprintln(os.Stderr, "usage: arkh gen|replay|info ...")
		os.Exit(2)
	}
	switch os.Args[1] {
	case "info":
		fmt.Printf("bits=%d debug=%v\n", ecs.VerifMaskBits, ecs.VerifIsDebug)
	case "gen":
		fs := flag.NewFlagSet("gen", flag.ExitOnError)
		stream := fs.String("stream", "store", "stream name")
		seed := fs.Uint64("seed", 1, "seed")
		n := fs.Int("n", 10, "number of scripts")
		out := fs.String("out", ".", "output directory")
		ops := fs.Int("ops", 0, "operations per script (0 = stream default)")
		dump := fs.Int("dump", -1, "override with-dump (0/1)")
		fs.Parse(os.Args[2:])
		st, ok := sim.Streams[*stream]
		if !ok {
			fmt.Fprintln(os.Stderr, "unknown stream", *stream)
			os.Exit(2)
		}
		if *ops > 0 {
			st.Ops = *ops
		}
		if *dump >= 0 {
			st.WithDump = *dump != 0
		}
		sf, _ := os.Create(*out + "/scripts.txt")
		of, _ := os.Create(*out + "/observed.txt")
		sw := bufio.NewWriterSize(sf, 1<<20)
		ow := bufio.NewWriterSize(of, 1<<20)
		opHist := map[int64]int{}
		errCount := 0
		totalOps := 0
		goChecks := []string{}
		maxEnt, maxTables := 0, 0
		for k := 0; k < *n; k++ {
			rng := sim.NewRng(*seed*1000003 + uint64(k))
			var layouts [][]int
			for _, l := range st.Codes {
				if len(l) <= ecs.VerifMaskBits {
					layouts = append(layouts, l)
				}
			}
			codes := layouts[rng.Intn(len(layouts))]
			caps := st.Caps[rng.Intn(len(st.Caps))]
			cfg := sim.Config{Cap: caps[0], CapRel: caps[1], Bits: ecs.VerifMaskBits, Debug: ecs.VerifIsDebug, Codes: codes, WithDump: st.WithDump}
			s := sim.NewSim(cfg)
			g := sim.NewGen(rng, s, st)
			writeLine(sw, cfg.Line())
			if cfg.WithDump {
				writeLine(sw, []int64{1})
			} else {
				writeLine(sw, []int64{0})
			}
			for i := 0; i < st.Ops; i++ {
				line := g.NextOp()
				writeLine(sw, line)
				if os.Getenv("ARKH_TRACE") != "" {
					sw.Flush()
				}
				obs := s.Step(line)
				writeLine(ow, obs)
				opHist[line[0]]++
				totalOps++
				if obs[0] == 1 {
					errCount++
				}
			}
			stt := s.W.Stats()
			if stt.Entities.Used > maxEnt {
				maxEnt = stt.Entities.Used
			}
			nt := 0
			for i := range stt.Archetypes {
				nt += len(stt.Archetypes[i].Tables) + stt.Archetypes[i].FreeTables
			}
			if nt > maxTables {
				maxTables = nt
			}
			goChecks = append(goChecks, s.GoChecks...)
			if !s.W.VerifTableIndexConsistent() {
				goChecks = append(goChecks, fmt.Sprintf("script %d: storage.components column shortcut inconsistent with tables", k))
			}
			sw.WriteString("#\n")
			ow.WriteString("#\n")
		}
		sw.Flush()
		ow.Flush()
		sf.Close()
		of.Close()
		// distribution summary on stdout (JSON)
		keys := make([]int, 0)
		for k := range opHist {
			keys = append(keys, int(k))
		}
		sort.Ints(keys)
		var hs []string
		for _, k := range keys {
			hs = append(hs, fmt.Sprintf("\"%d\": %d", k, opHist[int64(k)]))
		}
		gc, _ := jsonStrings(goChecks)
		fmt.Printf("{\"stream\": %q, \"scripts\": %d, \"ops\": %d, \"panics\": %d, \"max_entities\": %d, \"max_tables\": %d, \"op_hist\": {%s}, \"go_checks\": %s}\n",
			*stream, *n, totalOps, errCount, maxEnt, maxTables, strings.Join(hs, ", "), gc)
	case "replay":
		fs := flag.NewFlagSet("replay", flag.ExitOnError)
		script := fs.String("script", "", "script file")
		fs.Parse(os.Args[2:])
		f, err := os.Open(*script)
		if err != nil {
			panic(err)
		}
		sc := bufio.NewScanner(f)
		sc.Buffer(make([]byte, 1<<20), 1<<26)
		ow := bufio.NewWriterSize(os.Stdout, 1<<20)
		defer ow.Flush()
		var lines [][]int64
		flush := func() {
			if len(lines) < 2 {
				lines = nil
				return
			}
			cfg := cfgFromLines(lines[0], lines[1])
			s := sim.NewSim(cfg)
			for _, l := range lines[2:] {
				writeLine(ow, s.Step(l))
			}
			for _, c := range s.GoChecks {
				fmt.Fprintln(os.Stderr, "GOCHECK:", c)
			}
			ow.WriteString("#\n")
			lines = nil
		}
		for sc.Scan() {
			t := sc.Text()
			if strings.HasPrefix(t, "#") {
				flush()
				continue
			}
			if strings.TrimSpace(t) == "" {
				continue
			}
			lines = append(lines, parseLine(t))
		}
		flush()
	default:
		fmt.Fprintln(os.Stderr, "unknown command")
		os.Exit(2)
	}
}

func jsonStrings(l []string) (string, error) {
	var parts []string
	for _, s := range l {
		parts = append(parts, strconv.Quote(s))
	}
	return "[" + strings.Join(parts, ", ") + "]", nil
}
