// arkh: generates operation scripts from seeded streams while executing them on the real ark
// library (built from /repo's working tree), or replays given scripts. Output format: the
// integer lines of coq/Model/Run.v; scripts are separated by a line "#".
package main

import (
	"bufio"
	"flag"
	"fmt"
	"os"
	"sort"
	"strconv"
	"strings"

	"verif/harness/sim"

	"github.com/mlange-42/ark/ecs"
)

func writeLine(w *bufio.Writer, l []int64) {
	for i, x := range l {
		if i > 0 {
			w.WriteByte(' ')
		}
		w.WriteString(strconv.FormatInt(x, 10))
	}
	w.WriteByte('\n')
}

func parseLine(s string) []int64 {
	f := strings.Fields(s)
	out := make([]int64, len(f))
	for i, x := range f {
		v, err := strconv.ParseInt(x, 10, 64)
		if err != nil {
			panic(err)
		}
		out[i] = v
	}
	return out
}

func cfgFromLines(cfgLine, dumpLine []int64) sim.Config {
	c := sim.Config{Cap: int(cfgLine[0]), CapRel: int(cfgLine[1]), Bits: int(cfgLine[2]), Debug: cfgLine[3] != 0}
	n := int(cfgLine[4])
	for i := 0; i < n; i++ {
		c.Codes = append(c.Codes, int(cfgLine[5+i]))
	}
	c.WithDump = dumpLine[0] != 0
	return c
}

func main() {
	if len(os.Args) < 2 {
		fmt.Fprintln(os.Stderr, "usage: arkh gen|replay|info ...")
		os.Exit(2)
	}
	switch os.Args[1] {
	case "info":
		fmt.Printf("bits=%d debug=%v\n", ecs.VerifMaskBits, ecs.VerifIsDebug)
	case "gen":
		fs := flag.NewFlagSet("gen", flag.ExitOnError)
		stream := fs.String("stream", "store", "stream name")
		seed := fs.Uint64("seed", 1, "seed")
		n := fs.Int("n", 10, "number of scripts")
		out := fs.String("out", ".", "output directory")
		ops := fs.Int("ops", 0, "operations per script (0 = stream default)")
		dump := fs.Int("dump", -1, "override with-dump (0/1)")
		fs.Parse(os.Args[2:])
		st, ok := sim.Streams[*stream]
		if !ok {
			fmt.Fprintln(os.Stderr, "unknown stream", *stream)
			os.Exit(2)
		}
		if *ops > 0 {
			st.Ops = *ops
		}
		if *dump >= 0 {
			st.WithDump = *dump != 0
		}
		sf, _ := os.Create(*out + "/scripts.txt")
		of, _ := os.Create(*out + "/observed.txt")
		sw := bufio.NewWriterSize(sf, 1<<20)
		ow := bufio.NewWriterSize(of, 1<<20)
		opHist := map[int64]int{}
		errCount := 0
		totalOps := 0
		goChecks := []string{}
		maxEnt, maxTables := 0, 0
		for k := 0; k < *n; k++ {
			rng := sim.NewRng(*seed*1000003 + uint64(k))
			var layouts [][]int
			for _, l := range st.Codes {
				if len(l) <= ecs.VerifMaskBits {
					layouts = append(layouts, l)
				}
			}
			codes := layouts[rng.Intn(len(layouts))]
			caps := st.Caps[rng.Intn(len(st.Caps))]
			cfg := sim.Config{Cap: caps[0], CapRel: caps[1], Bits: ecs.VerifMaskBits, Debug: ecs.VerifIsDebug, Codes: codes, WithDump: st.WithDump}
			s := sim.NewSim(cfg)
			g := sim.NewGen(rng, s, st)
			writeLine(sw, cfg.Line())
			if cfg.WithDump {
				writeLine(sw, []int64{1})
			} else {
				writeLine(sw, []int64{0})
			}
			for i := 0; i < st.Ops || (g.Pending() > 0 && i < st.Ops+200); i++ {
				line := g.NextOp()
				writeLine(sw, line)
				if os.Getenv("ARKH_TRACE") != "" {
					sw.Flush()
				}
				obs := s.Step(line)
				writeLine(ow, obs)
				opHist[line[0]]++
				totalOps++
				if obs[0] == 1 {
					errCount++
				}
			}
			stt := s.W.Stats()
			if stt.Entities.Used > maxEnt {
				maxEnt = stt.Entities.Used
			}
			nt := 0
			for i := range stt.Archetypes {
				nt += len(stt.Archetypes[i].Tables) + stt.Archetypes[i].FreeTables
			}
			if nt > maxTables {
				maxTables = nt
			}
			goChecks = append(goChecks, s.GoChecks...)
			if !s.W.VerifTableIndexConsistent() {
				goChecks = append(goChecks, fmt.Sprintf("script %d: storage.components column shortcut inconsistent with tables", k))
			}
			sw.WriteString("#\n")
			ow.WriteString("#\n")
		}
		sw.Flush()
		ow.Flush()
		sf.Close()
		of.Close()
		// distribution summary on stdout (JSON)
		keys := make([]int, 0)
		for k := range opHist {
			keys = append(keys, int(k))
		}
		sort.Ints(keys)
		var hs []string
		for _, k := range keys {
			hs = append(hs, fmt.Sprintf("\"%d\": %d", k, opHist[int64(k)]))
		}
		gc, _ := jsonStrings(goChecks)
		fmt.Printf("{\"stream\": %q, \"scripts\": %d, \"ops\": %d, \"panics\": %d, \"max_entities\": %d, \"max_tables\": %d, \"op_hist\": {%s}, \"go_checks\": %s}\n",
			*stream, *n, totalOps, errCount, maxEnt, maxTables, strings.Join(hs, ", "), gc)
	case "twin":
		// C16: a world that was used and then Reset behaves like a new world. History H1 runs on world A,
		// then A.Reset(); H2 is generated online against A (fresh bookkeeping) and mirrored line by line on a
		// brand-new world B. Both observation traces are written; bin/checklib.py compares them up to the
		// identity of entity handles (k-th handle issued in A <-> k-th handle issued in B).
		fs := flag.NewFlagSet("twin", flag.ExitOnError)
		seed := fs.Uint64("seed", 1, "seed")
		n := fs.Int("n", 10, "number of scripts")
		out := fs.String("out", ".", "output directory")
		mode := fs.String("mode", "reset", "reset: used+Reset world vs new world; shrink: history with Shrink calls vs the same history without them")
		fs.Parse(os.Args[2:])
		if *mode == "shrink" {
			// C15: Shrink never changes the outcome of any later operation. World A executes a history with
			// Shrink calls, world B the same history with every Shrink replaced by a read-only Stats call.
			stS := sim.Streams["shrink"]
			sf, _ := os.Create(*out + "/twin_scripts.txt")
			af, _ := os.Create(*out + "/twin_a.txt")
			bf, _ := os.Create(*out + "/twin_b.txt")
			sw, aw, bw := bufio.NewWriterSize(sf, 1<<20), bufio.NewWriterSize(af, 1<<20), bufio.NewWriterSize(bf, 1<<20)
			for k := 0; k < *n; k++ {
				rng := sim.NewRng(*seed*9000011 + uint64(k))
				var layouts [][]int
				for _, l := range stS.Codes {
					if len(l) <= ecs.VerifMaskBits {
						layouts = append(layouts, l)
					}
				}
				codes := layouts[rng.Intn(len(layouts))]
				caps := stS.Caps[rng.Intn(len(stS.Caps))]
				cfg := sim.Config{Cap: caps[0], CapRel: caps[1], Bits: ecs.VerifMaskBits, Debug: ecs.VerifIsDebug, Codes: codes, WithDump: false}
				a, b := sim.NewSim(cfg), sim.NewSim(cfg)
				g := sim.NewGen(rng, a, stS)
				writeLine(sw, cfg.Line())
				for i := 0; i < stS.Ops || (g.Pending() > 0 && i < stS.Ops+200); i++ {
					line := g.NextOp()
					writeLine(sw, line)
					writeLine(aw, a.Step(line))
					if line[0] == 14 {
						writeLine(bw, b.Step([]int64{38}))
					} else {
						writeLine(bw, b.Step(line))
					}
				}
				sw.WriteString("#\n")
				aw.WriteString("#\n")
				bw.WriteString("#\n")
			}
			sw.Flush()
			aw.Flush()
			bw.Flush()
			sf.Close()
			af.Close()
			bf.Close()
			fmt.Printf("{\"twin_scripts\": %d}\n", *n)
			return
		}
		st1 := sim.Streams["reset"]
		sf, _ := os.Create(*out + "/twin_scripts.txt")
		af, _ := os.Create(*out + "/twin_a.txt")
		bf, _ := os.Create(*out + "/twin_b.txt")
		sw, aw, bw := bufio.NewWriterSize(sf, 1<<20), bufio.NewWriterSize(af, 1<<20), bufio.NewWriterSize(bf, 1<<20)
		done := 0
		for k := 0; done < *n && k < 4**n; k++ {
			rng := sim.NewRng(*seed*7000003 + uint64(k))
			codes := st1.Codes[rng.Intn(len(st1.Codes))]
			if len(codes) > ecs.VerifMaskBits {
				continue
			}
			caps := st1.Caps[rng.Intn(len(st1.Caps))]
			cfg := sim.Config{Cap: caps[0], CapRel: caps[1], Bits: ecs.VerifMaskBits, Debug: ecs.VerifIsDebug, Codes: codes, WithDump: false}
			// H1 on A (any stream's mix: take one at random)
			names := []string{"store", "relations", "cache", "batch", "observers", "shrink", "reset"}
			h1 := sim.Streams[names[rng.Intn(len(names))]]
			h1.Codes = [][]int{codes}
			a1 := sim.NewSim(cfg)
			g1 := sim.NewGen(rng, a1, h1)
			for i := 0; i < 20+rng.Intn(60); i++ {
				a1.Step(g1.NextOp())
			}
			if a1.W.IsLocked() {
				continue // H1 left queries open; Reset would be rejected
			}
			a1.W.Reset()
			a := sim.NewSimOn(cfg, a1.W)
			b := sim.NewSim(cfg)
			h2 := sim.Streams[names[rng.Intn(len(names))]]
			h2.Codes = [][]int{codes}
			g2 := sim.NewGen(rng, a, h2)
			writeLine(sw, cfg.Line())
			for i := 0; i < 60; i++ {
				line := g2.NextOp()
				writeLine(sw, line)
				writeLine(aw, a.Step(line))
				writeLine(bw, b.Step(line))
			}
			sw.WriteString("#\n")
			aw.WriteString("#\n")
			bw.WriteString("#\n")
			done++
		}
		sw.Flush()
		aw.Flush()
		bw.Flush()
		sf.Close()
		af.Close()
		bf.Close()
		fmt.Printf("{\"twin_scripts\": %d}\n", done)
	case "replay":
		fs := flag.NewFlagSet("replay", flag.ExitOnError)
		script := fs.String("script", "", "script file")
		fs.Parse(os.Args[2:])
		f, err := os.Open(*script)
		if err != nil {
			panic(err)
		}
		sc := bufio.NewScanner(f)
		sc.Buffer(make([]byte, 1<<20), 1<<26)
		ow := bufio.NewWriterSize(os.Stdout, 1<<20)
		defer ow.Flush()
		var lines [][]int64
		flush := func() {
			if len(lines) < 2 {
				lines = nil
				return
			}
			cfg := cfgFromLines(lines[0], lines[1])
			s := sim.NewSim(cfg)
			for _, l := range lines[2:] {
				writeLine(ow, s.Step(l))
			}
			for _, c := range s.GoChecks {
				fmt.Fprintln(os.Stderr, "GOCHECK:", c)
			}
			ow.WriteString("#\n")
			lines = nil
		}
		for sc.Scan() {
			t := sc.Text()
			if strings.HasPrefix(t, "#") {
				flush()
				continue
			}
			if strings.TrimSpace(t) == "" {
				continue
			}
			lines = append(lines, parseLine(t))
		}
		flush()
	default:
		fmt.Fprintln(os.Stderr, "unknown command")
		os.Exit(2)
	}
}

func jsonStrings(l []string) (string, error) {
	var parts []string
	for _, s := range l {
		parts = append(parts, strconv.Quote(s))
	}
	return "[" + strings.Join(parts, ", ") + "]", nil
}
