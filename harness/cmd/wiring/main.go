// wiring: a translator from the generated generic API of package ecs (*_gen.go) to a Coq data file.
// For every function of a generic type with type parameters A, B, C, ... it extracts the "wiring":
// which type parameter every lettered piece of an assignment, a return list or an argument list
// refers to (columnPtrC, itemSizeC, storageC, get[C], (*C)(...), components[2], ids[2], c *C ...).
// The Coq side (Model/Wiring.v + Proofs/WiringProofs.v) checks by computation that every unit is
// consistent (left and right side of an assignment refer to the same parameter; the k-th lettered
// element of a return or argument list refers to parameters in ascending order) and proves that a
// consistent wiring makes the typed accessors equal to the ID-based ones position by position.
package main

import (
	"flag"
	"fmt"
	"go/ast"
	"go/parser"
	"go/token"
	"os"
	"path/filepath"
	"sort"
	"strconv"
	"strings"
	"unicode"
)

type unit struct {
	file, fn, kind string
	line           int
	lhs            []int   // tags of the left-hand side (assignments)
	elems          [][]int // tags per element (rhs of an assignment = one element)
}

var letters = "ABCDEFGHIJKLMNOP"

func main() {
	dir := flag.String("dir", "/repo/ecs", "package directory")
	out := flag.String("out", "", "Coq file to write (empty: only check)")
	flag.Parse()
	files, _ := filepath.Glob(filepath.Join(*dir, "*_gen.go"))
	sort.Strings(files)
	fset := token.NewFileSet()
	var units []unit
	nfuncs := 0
	for _, path := range files {
		f, err := parser.ParseFile(fset, path, nil, 0)
		if err != nil {
			fmt.Fprintln(os.Stderr, "parse:", err)
			os.Exit(2)
		}
		for _, d := range f.Decls {
			fd, ok := d.(*ast.FuncDecl)
			if !ok || fd.Body == nil {
				continue
			}
			params := typeParams(fd)
			if len(params) == 0 {
				continue
			}
			nfuncs++
			name := fd.Name.Name
			if fd.Recv != nil && len(fd.Recv.List) > 0 {
				name = recvName(fd.Recv.List[0].Type) + "." + name
			}
			x := &extractor{fset: fset, params: params, file: filepath.Base(path), fn: name, lower: map[string]int{}}
			// value parameters named after their type parameter: a *A, b *B ...
			if fd.Type.Params != nil {
				for _, p := range fd.Type.Params.List {
					if st, ok := p.Type.(*ast.StarExpr); ok {
						if id, ok := st.X.(*ast.Ident); ok {
							if k, ok := params[id.Name]; ok {
								for _, n := range p.Names {
									x.lower[n.Name] = k
								}
							}
						}
					}
				}
			}
			x.collectFamilies(fd.Body)
			x.walk(fd.Body)
			units = append(units, x.units...)
		}
	}
	bad := 0
	for _, u := range units {
		if msg := check(u); msg != "" {
			fmt.Printf("WIRING %s:%d %s: %s\n", u.file, u.line, u.fn, msg)
			bad++
		}
	}
	fmt.Printf("wiring: %d generic functions, %d units, %d inconsistent\n", nfuncs, len(units), bad)
	if *out != "" {
		writeCoq(*out, units)
	}
	if bad > 0 {
		os.Exit(1)
	}
}

func typeParams(fd *ast.FuncDecl) map[string]int {
	m := map[string]int{}
	add := func(names []string) {
		for _, n := range names {
			if len(n) == 1 && strings.Contains(letters, n) {
				m[n] = len(m)
			}
		}
	}
	if fd.Recv != nil && len(fd.Recv.List) > 0 {
		t := fd.Recv.List[0].Type
		if st, ok := t.(*ast.StarExpr); ok {
			t = st.X
		}
		switch ix := t.(type) {
		case *ast.IndexExpr:
			if id, ok := ix.Index.(*ast.Ident); ok {
				add([]string{id.Name})
			}
		case *ast.IndexListExpr:
			var ns []string
			for _, e := range ix.Indices {
				if id, ok := e.(*ast.Ident); ok {
					ns = append(ns, id.Name)
				}
			}
			add(ns)
		}
	}
	if fd.Type.TypeParams != nil {
		var ns []string
		for _, p := range fd.Type.TypeParams.List {
			for _, n := range p.Names {
				ns = append(ns, n.Name)
			}
		}
		add(ns)
	}
	if len(m) < 2 {
		return nil // a single type parameter cannot be mis-wired
	}
	return m
}

func recvName(t ast.Expr) string {
	if st, ok := t.(*ast.StarExpr); ok {
		t = st.X
	}
	switch ix := t.(type) {
	case *ast.IndexExpr:
		return fmt.Sprint(ix.X)
	case *ast.IndexListExpr:
		return fmt.Sprint(ix.X)
	}
	return fmt.Sprint(t)
}

type extractor struct {
	fset     *token.FileSet
	params   map[string]int
	lower    map[string]int
	families map[string]bool // prefixes that occur with at least two different letters
	file, fn string
	units    []unit
}

func splitLettered(name string) (string, string, bool) {
	if len(name) < 2 {
		return "", "", false
	}
	last := name[len(name)-1:]
	prev := rune(name[len(name)-2])
	if strings.Contains(letters, last) && (unicode.IsLower(prev) || unicode.IsDigit(prev)) {
		return name[:len(name)-1], last, true
	}
	return "", "", false
}

func (x *extractor) collectFamilies(body ast.Node) {
	seen := map[string]map[string]bool{}
	ast.Inspect(body, func(n ast.Node) bool {
		if id, ok := n.(*ast.Ident); ok {
			if p, l, ok := splitLettered(id.Name); ok {
				if _, isParam := x.params[l]; isParam {
					if seen[p] == nil {
						seen[p] = map[string]bool{}
					}
					seen[p][l] = true
				}
			}
		}
		return true
	})
	x.families = map[string]bool{}
	for p, ls := range seen {
		if len(ls) >= 2 || len(x.params) >= 2 {
			_ = ls
			x.families[p] = true
		}
	}
}

// tags of an expression, not descending into argument lists of calls that have several lettered
// arguments themselves (those are separate ordered units).
func (x *extractor) tags(n ast.Node) []int {
	set := map[int]bool{}
	ast.Inspect(n, func(n ast.Node) bool {
		switch e := n.(type) {
		case *ast.FuncLit:
			return false
		case *ast.Ident:
			if k, ok := x.params[e.Name]; ok {
				set[k] = true
			} else if k, ok := x.lower[e.Name]; ok {
				set[k] = true
			} else if p, l, ok := splitLettered(e.Name); ok && x.families[p] {
				if k, ok := x.params[l]; ok {
					set[k] = true
				}
			}
		case *ast.IndexExpr:
			if lit, ok := e.Index.(*ast.BasicLit); ok && lit.Kind == token.INT {
				base := fmt.Sprint(lastSel(e.X))
				if base == "components" || base == "ids" {
					if k, err := strconv.Atoi(lit.Value); err == nil && k < len(x.params) {
						set[k] = true
					}
				}
			}
		}
		return true
	})
	var out []int
	for k := range set {
		out = append(out, k)
	}
	sort.Ints(out)
	return out
}

func lastSel(e ast.Expr) string {
	switch v := e.(type) {
	case *ast.SelectorExpr:
		return v.Sel.Name
	case *ast.Ident:
		return v.Name
	}
	return ""
}

func (x *extractor) add(kind string, pos token.Pos, lhs []int, elems [][]int) {
	n := 0
	for _, e := range elems {
		n += len(e)
	}
	if len(lhs)+n == 0 {
		return
	}
	x.units = append(x.units, unit{file: x.file, fn: x.fn, kind: kind, line: x.fset.Position(pos).Line, lhs: lhs, elems: elems})
}

func (x *extractor) walk(body ast.Node) {
	ast.Inspect(body, func(n ast.Node) bool {
		switch s := n.(type) {
		case *ast.AssignStmt:
			if len(s.Lhs) == len(s.Rhs) {
				for i := range s.Lhs {
					l := x.tags(s.Lhs[i])
					if len(l) > 0 {
						x.add("assign", s.Pos(), l, [][]int{x.tags(s.Rhs[i])})
					}
				}
			}
		case *ast.ReturnStmt:
			if len(s.Results) > 1 {
				var el [][]int
				for _, r := range s.Results {
					el = append(el, x.tags(r))
				}
				x.add("return", s.Pos(), nil, el)
			}
		case *ast.CallExpr:
			if len(s.Args) > 1 {
				var el [][]int
				lettered := 0
				for _, a := range s.Args {
					t := x.tags(a)
					if len(t) > 0 {
						lettered++
					}
					el = append(el, t)
				}
				if lettered > 1 {
					x.add("args", s.Pos(), nil, el)
				}
			}
		case *ast.CompositeLit:
			if len(s.Elts) > 1 {
				var el [][]int
				lettered := 0
				for _, a := range s.Elts {
					t := x.tags(a)
					if len(t) > 0 {
						lettered++
					}
					el = append(el, t)
				}
				if lettered > 1 {
					x.add("elems", s.Pos(), nil, el)
				}
			}
		}
		return true
	})
}

// check mirrors unit_ok in Model/Wiring.v.
func check(u unit) string {
	if u.kind == "assign" {
		if len(u.lhs) != 1 {
			return ""
		}
		for _, t := range u.elems[0] {
			if t != u.lhs[0] {
				return fmt.Sprintf("left side refers to parameter %c, right side to %c", letters[u.lhs[0]], letters[t])
			}
		}
		return ""
	}
	if u.kind == "args" {
		// a helper applied to pieces of ONE parameter: unsafe.Add(q.columnPtrB, index*q.itemSizeB)
		same, first := true, -1
		for _, e := range u.elems {
			for _, t := range e {
				if first < 0 {
					first = t
				} else if t != first {
					same = false
				}
			}
		}
		if same {
			return ""
		}
	}
	prev := -1
	for _, e := range u.elems {
		if len(e) == 0 {
			continue
		}
		if len(e) > 1 {
			return fmt.Sprintf("one element of a %s list refers to several parameters", u.kind)
		}
		if e[0] <= prev {
			return fmt.Sprintf("%s list is not in parameter order (%c after %c)", u.kind, letters[e[0]], letters[prev])
		}
		prev = e[0]
	}
	return ""
}

func writeCoq(path string, units []unit) {
	var b strings.Builder
	b.WriteString("(* Generated by /verif/harness/cmd/wiring from /repo/ecs/*_gen.go; DO NOT EDIT. *)\n")
	b.WriteString("From Ark Require Import Model.Wiring.\nFrom Coq Require Import List. Import ListNotations.\n\n")
	b.WriteString("Definition extracted_units : list wunit := [\n")
	for i, u := range units {
		kind := "WAssign"
		if u.kind == "args" {
			kind = "WArgs"
		} else if u.kind != "assign" {
			kind = "WList"
		}
		var el []string
		for _, e := range u.elems {
			el = append(el, natList(e))
		}
		sep := ";"
		if i == len(units)-1 {
			sep = ""
		}
		fmt.Fprintf(&b, "  mk_wunit %s %d %s [%s]%s (* %s %s *)\n", kind, u.line, natList(u.lhs), strings.Join(el, "; "), sep, u.file, u.fn)
	}
	b.WriteString("].\n")
	if err := os.WriteFile(path, []byte(b.String()), 0o644); err != nil {
		fmt.Fprintln(os.Stderr, err)
		os.Exit(2)
	}
}

func natList(l []int) string {
	var s []string
	for _, v := range l {
		s = append(s, strconv.Itoa(v))
	}
	return "[" + strings.Join(s, "; ") + "]"
}
