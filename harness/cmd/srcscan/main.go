// srcscan: type-checks /repo/ecs (one build configuration per call) and lists every construct
// through which the behaviour of the package could depend on something other than the sequence of
// operations: range over a map, goroutines, select, time and random sources, pointer formatting,
// map iteration through reflect. The C12 check compares the list with an allowlist in which every
// entry names the theorem (or the argument) showing that the construct cannot influence results.
package main

import (
	"flag"
	"fmt"
	"go/ast"
	"go/build"
	"go/importer"
	"go/parser"
	"go/token"
	"go/types"
	"os"
	"path/filepath"
	"sort"
	"strings"
)

func main() {
	dir := flag.String("dir", "/repo/ecs", "package directory")
	tags := flag.String("tags", "", "comma separated build tags")
	flag.Parse()
	ctx := build.Default
	if *tags != "" {
		ctx.BuildTags = strings.Split(*tags, ",")
	}
	pkg, err := ctx.ImportDir(*dir, 0)
	if err != nil {
		fmt.Fprintln(os.Stderr, "import:", err)
		os.Exit(2)
	}
	fset := token.NewFileSet()
	var files []*ast.File
	for _, name := range pkg.GoFiles {
		f, err := parser.ParseFile(fset, filepath.Join(*dir, name), nil, 0)
		if err != nil {
			fmt.Fprintln(os.Stderr, "parse:", err)
			os.Exit(2)
		}
		files = append(files, f)
	}
	info := &types.Info{Types: map[ast.Expr]types.TypeAndValue{}, Uses: map[*ast.Ident]types.Object{}}
	conf := types.Config{Importer: importer.ForCompiler(fset, "source", nil), Error: func(err error) {}}
	if _, err := conf.Check(pkg.ImportPath, fset, files, info); err != nil {
		fmt.Fprintln(os.Stderr, "typecheck:", err)
		os.Exit(2)
	}
	var out []string
	add := func(kind string, pos token.Pos, fn, detail string) {
		p := fset.Position(pos)
		out = append(out, fmt.Sprintf("%s\t%s\t%s\t%s", kind, filepath.Base(p.Filename), fn, detail))
	}
	for _, f := range files {
		for _, d := range f.Decls {
			fd, ok := d.(*ast.FuncDecl)
			if !ok || fd.Body == nil {
				continue
			}
			fn := fd.Name.Name
			if fd.Recv != nil && len(fd.Recv.List) > 0 {
				fn = types.ExprString(fd.Recv.List[0].Type) + "." + fn
			}
			ast.Inspect(fd.Body, func(n ast.Node) bool {
				switch x := n.(type) {
				case *ast.RangeStmt:
					if tv, ok := info.Types[x.X]; ok {
						if _, isMap := tv.Type.Underlying().(*types.Map); isMap {
							add("map-range", x.Pos(), fn, types.ExprString(x.X))
						}
					}
				case *ast.GoStmt:
					add("go-stmt", x.Pos(), fn, "")
				case *ast.SelectStmt:
					add("select", x.Pos(), fn, "")
				case *ast.SelectorExpr:
					if id, ok := x.X.(*ast.Ident); ok {
						if pn, ok := info.Uses[id].(*types.PkgName); ok {
							path := pn.Imported().Path()
							switch {
							case path == "time" && (x.Sel.Name == "Now" || x.Sel.Name == "Since" || x.Sel.Name == "After" || x.Sel.Name == "Tick"):
								add("clock", x.Pos(), fn, "time."+x.Sel.Name)
							case strings.HasPrefix(path, "math/rand") || path == "crypto/rand":
								add("random", x.Pos(), fn, path+"."+x.Sel.Name)
							case path == "reflect" && (x.Sel.Name == "MapRange" || x.Sel.Name == "MapKeys"):
								add("map-range", x.Pos(), fn, "reflect."+x.Sel.Name)
							case path == "os" && (x.Sel.Name == "Getenv" || x.Sel.Name == "Getpid" || x.Sel.Name == "Hostname"):
								add("environment", x.Pos(), fn, "os."+x.Sel.Name)
							case path == "runtime" && (x.Sel.Name == "NumGoroutine" || x.Sel.Name == "NumCPU" || x.Sel.Name == "GOMAXPROCS"):
								add("environment", x.Pos(), fn, "runtime."+x.Sel.Name)
							}
						}
					}
				case *ast.BasicLit:
					if x.Kind == token.STRING && strings.Contains(x.Value, "%p") {
						add("pointer-format", x.Pos(), fn, x.Value)
					}
				}
				return true
			})
		}
	}
	sort.Strings(out)
	for _, l := range out {
		fmt.Println(l)
	}
}
