// Package gcsafe: the runtime half of C11 that no Gallina model can express. Components containing
// pointers, slices, maps and strings keep referring to valid, unchanged data across moves between
// tables, growth, swap-removal, Shrink, batch operations and garbage collections; data referenced
// only by removed components (removed entities, removed components, Reset, emptied tables) becomes
// collectable (finalizers run).
package gcsafe

import (
	"fmt"
	"os"
	"reflect"
	"runtime"
	"strconv"
	"sync/atomic"
	"testing"
	"time"
	"unsafe"

	"verif/harness/sim"

	"github.com/mlange-42/ark/ecs"
)

type payload struct {
	id  int
	pad [4]int64
}

type P struct {
	Ptr *payload
	S   []int
	M   map[int]int
	Str string
}
type A struct{ V int64 }
type B struct{ V [3]int64 }
type R struct {
	ecs.RelationMarker
	Ptr *payload
}

func seed() uint64 {
	if s := os.Getenv("VERIF_SEED"); s != "" {
		v, _ := strconv.ParseUint(s, 10, 64)
		return v
	}
	return 1
}
func thorough() bool { return os.Getenv("VERIF_TIER") == "thorough" }

func mk(k int) P {
	return P{Ptr: &payload{id: k}, S: []int{k, k + 1, k + 2}, M: map[int]int{k: k * 7}, Str: fmt.Sprintf("entity-%d-%s", k, string(make([]byte, k%5)))}
}
func check(t *testing.T, p *P, k int, what string) {
	if p.Ptr == nil || p.Ptr.id != k || len(p.S) != 3 || p.S[0] != k || p.S[2] != k+2 || p.M[k] != k*7 || p.Str != fmt.Sprintf("entity-%d-%s", k, string(make([]byte, k%5))) {
		t.Fatalf("VERIF-REPLAY seed=%d: component of entity #%d corrupted after %s: %+v", seed(), k, what, *p)
	}
}

func TestPointerComponentsSurviveMovesAndGC(t *testing.T) {
	rounds := 6
	if thorough() {
		rounds = 80
	}
	steps := 0
	for round := 0; round < rounds; round++ {
		r := sim.NewRng(seed()*977 + uint64(round))
		w := ecs.NewWorld(1+r.Intn(4), 1)
		mP := ecs.NewMap1[P](w)
		mA := ecs.NewMap1[A](w)
		mB := ecs.NewMap1[B](w)
		mPA := ecs.NewMap2[P, A](w)
		fP := ecs.NewFilter1[P](w)
		type ent struct {
			e ecs.Entity
			k int
		}
		var live []ent
		next := 0
		verify := func(what string) {
			for _, x := range live {
				check(t, mP.Get(x.e), x.k, what)
			}
			q := fP.Query()
			n := 0
			for q.Next() {
				n++
			}
			if n != len(live) {
				t.Fatalf("VERIF-REPLAY seed=%d: query sees %d entities with P, %d expected after %s", seed(), n, len(live), what)
			}
		}
		for i := 0; i < 120; i++ {
			steps++
			switch r.Intn(9) {
			case 0, 1:
				p := mk(next)
				live = append(live, ent{mP.NewEntity(&p), next})
				next++
			case 2:
				p := mk(next)
				live = append(live, ent{mPA.NewEntity(&p, &A{int64(next)}), next})
				next++
			case 3: // move: add or remove another component
				if len(live) > 0 {
					x := live[r.Intn(len(live))]
					if mA.HasAll(x.e) {
						mA.Remove(x.e)
					} else {
						mA.Add(x.e, &A{1})
					}
				}
			case 4:
				if len(live) > 0 {
					x := live[r.Intn(len(live))]
					if mB.HasAll(x.e) {
						mB.Remove(x.e)
					} else {
						mB.Add(x.e, &B{})
					}
				}
			case 5: // swap-remove
				if len(live) > 0 {
					j := r.Intn(len(live))
					w.RemoveEntity(live[j].e)
					live = append(live[:j], live[j+1:]...)
				}
			case 6: // batch move of everything with P
				if r.Intn(2) == 0 {
					f := ecs.NewFilter1[P](w).Without(ecs.C[B]())
					mB.AddBatch(f.Batch(), &B{})
				} else {
					f := ecs.NewFilter2[P, B](w)
					mB.RemoveBatch(f.Batch(), nil)
				}
			case 7:
				w.Shrink()
			case 8:
				runtime.GC()
			}
			if i%10 == 9 {
				runtime.GC()
				verify(fmt.Sprintf("round %d step %d", round, i))
			}
		}
		runtime.GC()
		verify("the end of the round")
	}
	fmt.Printf("VERIF-STAT {\"gc_rounds\": %d, \"gc_steps\": %d}\n", rounds, steps)
}

func collected(counter *int64, want int64) bool {
	for i := 0; i < 50; i++ {
		runtime.GC()
		if atomic.LoadInt64(counter) >= want {
			return true
		}
		time.Sleep(2 * time.Millisecond)
	}
	return false
}

// Data referenced only by removed components is released: the slots are zeroed when rows are removed,
// tables are emptied, or the world is reset, so nothing in the world keeps the objects alive.
func TestRemovedComponentsAreCollectable(t *testing.T) {
	type scenario struct {
		name string
		run  func(w *ecs.World, es []ecs.Entity, mP *ecs.Map1[P])
	}
	scenarios := []scenario{
		{"RemoveEntity (last row first)", func(w *ecs.World, es []ecs.Entity, mP *ecs.Map1[P]) {
			for i := len(es) - 1; i >= 0; i-- {
				w.RemoveEntity(es[i])
			}
		}},
		{"RemoveEntity (swap-remove order)", func(w *ecs.World, es []ecs.Entity, mP *ecs.Map1[P]) {
			for _, e := range es {
				w.RemoveEntity(e)
			}
		}},
		{"Remove component", func(w *ecs.World, es []ecs.Entity, mP *ecs.Map1[P]) {
			for _, e := range es {
				mP.Remove(e)
			}
		}},
		{"RemoveEntities batch", func(w *ecs.World, es []ecs.Entity, mP *ecs.Map1[P]) {
			w.RemoveEntities(ecs.NewFilter1[P](w).Batch(), nil)
		}},
		{"RemoveBatch of the component", func(w *ecs.World, es []ecs.Entity, mP *ecs.Map1[P]) {
			mP.RemoveBatch(ecs.NewFilter1[P](w).Batch(), nil)
		}},
		{"Reset", func(w *ecs.World, es []ecs.Entity, mP *ecs.Map1[P]) { w.Reset() }},
		{"overwrite through Set", func(w *ecs.World, es []ecs.Entity, mP *ecs.Map1[P]) {
			for _, e := range es {
				mP.Set(e, &P{})
			}
		}},
	}
	for _, n := range []int{1, 3, 70} { // 70: more rows than the small-table zeroing path handles at once
		for _, sc := range scenarios {
			var finalized int64
			w := ecs.NewWorld(2, 1)
			mP := ecs.NewMap1[P](w)
			var es []ecs.Entity
			func() { // keep the payloads out of this frame's live variables
				for k := 0; k < n; k++ {
					pl := &payload{id: k}
					runtime.SetFinalizer(pl, func(*payload) { atomic.AddInt64(&finalized, 1) })
					es = append(es, mP.NewEntity(&P{Ptr: pl, S: []int{k}}))
				}
			}()
			runtime.GC()
			if f := atomic.LoadInt64(&finalized); f != 0 {
				t.Fatalf("%s (n=%d): %d payloads collected while their components are alive", sc.name, n, f)
			}
			sc.run(w, es, mP)
			if !collected(&finalized, int64(n)) {
				t.Fatalf("%s (n=%d): only %d of %d payloads were collected after their components were removed", sc.name, n, atomic.LoadInt64(&finalized), n)
			}
			runtime.KeepAlive(w)
		}
	}
}

// F: a component whose only reference is a func value (a closure is a pointer to a heap object).
// Repaired defect (fix 65b60f3): isTrivial did not list reflect.Func / reflect.UnsafePointer, such a
// component was classified pointer-free and moved with the write-barrier-free raw copy; with the
// collector running the closures were lost within milliseconds ("found bad pointer in Go heap", or
// another closure's value). The test keeps the collector busy while every entity is moved between
// two tables, and calls every closure after each round.
type F struct {
	Fn func() int
}

var fnSink []func() int

func TestFuncComponentsSurviveMovesAndGC(t *testing.T) {
	w := ecs.NewWorld(64)
	fm := ecs.NewMap1[F](w)
	am := ecs.NewMap1[A](w)
	n := 6000
	ents := make([]ecs.Entity, n)
	for i := 0; i < n; i++ {
		v := i
		ents[i] = fm.NewEntity(&F{Fn: func() int { return v }})
	}
	var stop atomic.Bool
	done := make(chan struct{})
	go func() {
		for !stop.Load() {
			runtime.GC()
		}
		close(done)
	}()
	get := ecs.NewMap[F](w)
	dur := 2 * time.Second
	if thorough() {
		dur = 20 * time.Second
	}
	deadline := time.Now().Add(dur)
	for round := 0; time.Now().Before(deadline); round++ {
		for i, e := range ents {
			if round%2 == 0 {
				am.Add(e, &A{V: int64(i)})
			} else {
				am.Remove(e)
			}
			k := -i - 1
			fnSink = append(fnSink[:0], func() int { return k }) // garbage of the same size class
		}
		for i, e := range ents {
			if got := get.Get(e).Fn(); got != i {
				stop.Store(true)
				<-done
				t.Fatalf("VERIF-REPLAY seed=%d: round %d: the closure stored in entity #%d returns %d", seed(), round, i, got)
			}
		}
	}
	stop.Store(true)
	<-done
}

// The classification behind the copy strategy, tied to the Coq model (Model/GoType.v is_trivial):
// (1) an independent oracle that enumerates EVERY reflect.Kind (an unknown kind fails the test), and
// (2) the sample shapes of Properties/C11.v Example C11_classification_samples, in the same order,
//
//	with the vector computed there by vm_compute.
func containsPointerWord(t *testing.T, tp reflect.Type) bool {
	switch tp.Kind() {
	case reflect.Bool, reflect.Int, reflect.Int8, reflect.Int16, reflect.Int32, reflect.Int64,
		reflect.Uint, reflect.Uint8, reflect.Uint16, reflect.Uint32, reflect.Uint64, reflect.Uintptr,
		reflect.Float32, reflect.Float64, reflect.Complex64, reflect.Complex128:
		return false
	case reflect.Chan, reflect.Func, reflect.Interface, reflect.Map, reflect.Pointer, reflect.Slice,
		reflect.String, reflect.UnsafePointer:
		return true
	case reflect.Array:
		return containsPointerWord(t, tp.Elem())
	case reflect.Struct:
		for i := 0; i < tp.NumField(); i++ {
			if containsPointerWord(t, tp.Field(i).Type) {
				return true
			}
		}
		return false
	default:
		t.Fatalf("reflect.Kind %v is not classified by the oracle", tp.Kind())
		return true
	}
}

func TestIsTrivialClassification(t *testing.T) {
	type inner struct {
		A int32
		B [2]float64
	}
	samples := []struct {
		v    any
		triv bool // Model/GoType.v is_trivial on the same shape (C11_classification_samples)
	}{
		{int64(0), true},                      // TScalar
		{(*int)(nil), false},                  // TPtr
		{[]int(nil), false},                   // TSlice
		{map[int]int(nil), false},             // TMap
		{(chan int)(nil), false},              // TChan
		{struct{ I any }{}, false},            // TStruct [TIface]
		{"", false},                           // TString
		{(func() int)(nil), false},            // TFunc
		{unsafe.Pointer(nil), false},          // TUnsafePtr
		{struct{ F func() int }{}, false},     // TStruct [TFunc]
		{struct{ P unsafe.Pointer }{}, false}, // TStruct [TUnsafePtr]
		{inner{}, true},                       // TStruct [TScalar; TArray 2 TScalar]
		{[3]inner{}, true},                    // TArray 3 (TStruct [...])
		{[2]struct {
			X int
			F func()
		}{}, false}, // TArray 2 (TStruct [TScalar; TFunc])
		{struct {
			A inner
			S struct{ Z []byte }
		}{}, false}, // nested slice
		{struct{}{}, true}, // TStruct []
		{uintptr(0), true}, // TScalar (uintptr is not a pointer for the collector)
		{[0]*int{}, false}, // TArray 0 TPtr: the code looks at the element type only
	}
	for i, s := range samples {
		tp := reflect.TypeOf(s.v)
		got := ecs.VerifIsTrivial(tp)
		if got != s.triv {
			t.Fatalf("sample %d (%v): isTrivial = %v, the model says %v", i, tp, got, s.triv)
		}
		if got == containsPointerWord(t, tp) {
			t.Fatalf("sample %d (%v): isTrivial = %v but the type %s a pointer word", i, tp, got, map[bool]string{true: "contains", false: "does not contain"}[!got])
		}
	}
	// every kind is covered by the samples or by the scalar list
	for _, v := range []any{false, int(0), int8(0), int16(0), int32(0), uint(0), uint8(0), uint16(0), uint32(0), uint64(0), float32(0), float64(0), complex64(0), complex128(0)} {
		tp := reflect.TypeOf(v)
		if !ecs.VerifIsTrivial(tp) || containsPointerWord(t, tp) {
			t.Fatalf("scalar %v not trivial", tp)
		}
	}
}
