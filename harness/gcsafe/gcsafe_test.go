// Package gcsafe: the runtime half of C11 that no Gallina model can express. Components containing
// pointers, slices, maps and strings keep referring to valid, unchanged data across moves between
// tables, growth, swap-removal, Shrink, batch operations and garbage collections; data referenced
// only by removed components (removed entities, removed components, Reset, emptied tables) becomes
// collectable (finalizers run).
package gcsafe

import (
	"fmt"
	"os"
	"runtime"
	"strconv"
	"sync/atomic"
	"testing"
	"time"

	"verif/harness/sim"

	"github.com/mlange-42/ark/ecs"
)

type payload struct {
	id  int
	pad [4]int64
}

type P struct {
	Ptr *payload
	S   []int
	M   map[int]int
	Str string
}
type A struct{ V int64 }
type B struct{ V [3]int64 }
type R struct {
	ecs.RelationMarker
	Ptr *payload
}

func seed() uint64 {
	if s := os.Getenv("VERIF_SEED"); s != "" {
		v, _ := strconv.ParseUint(s, 10, 64)
		return v
	}
	return 1
}
func thorough() bool { return os.Getenv("VERIF_TIER") == "thorough" }

func mk(k int) P {
	return P{Ptr: &payload{id: k}, S: []int{k, k + 1, k + 2}, M: map[int]int{k: k * 7}, Str: fmt.Sprintf("entity-%d-%s", k, string(make([]byte, k%5)))}
}
func check(t *testing.T, p *P, k int, what string) {
	if p.Ptr == nil || p.Ptr.id != k || len(p.S) != 3 || p.S[0] != k || p.S[2] != k+2 || p.M[k] != k*7 || p.Str != fmt.Sprintf("entity-%d-%s", k, string(make([]byte, k%5))) {
		t.Fatalf("VERIF-REPLAY seed=%d: component of entity #%d corrupted after %s: %+v", seed(), k, what, *p)
	}
}

func TestPointerComponentsSurviveMovesAndGC(t *testing.T) {
	rounds := 6
	if thorough() {
		rounds = 80
	}
	steps := 0
	for round := 0; round < rounds; round++ {
		r := sim.NewRng(seed()*977 + uint64(round))
		w := ecs.NewWorld(1+r.Intn(4), 1)
		mP := ecs.NewMap1[P](w)
		mA := ecs.NewMap1[A](w)
		mB := ecs.NewMap1[B](w)
		mPA := ecs.NewMap2[P, A](w)
		fP := ecs.NewFilter1[P](w)
		type ent struct {
			e ecs.Entity
			k int
		}
		var live []ent
		next := 0
		verify := func(what string) {
			for _, x := range live {
				check(t, mP.Get(x.e), x.k, what)
			}
			q := fP.Query()
			n := 0
			for q.Next() {
				n++
			}
			if n != len(live) {
				t.Fatalf("VERIF-REPLAY seed=%d: query sees %d entities with P, %d expected after %s", seed(), n, len(live), what)
			}
		}
		for i := 0; i < 120; i++ {
			steps++
			switch r.Intn(9) {
			case 0, 1:
				p := mk(next)
				live = append(live, ent{mP.NewEntity(&p), next})
				next++
			case 2:
				p := mk(next)
				live = append(live, ent{mPA.NewEntity(&p, &A{int64(next)}), next})
				next++
			case 3: // move: add or remove another component
				if len(live) > 0 {
					x := live[r.Intn(len(live))]
					if mA.HasAll(x.e) {
						mA.Remove(x.e)
					} else {
						mA.Add(x.e, &A{1})
					}
				}
			case 4:
				if len(live) > 0 {
					x := live[r.Intn(len(live))]
					if mB.HasAll(x.e) {
						mB.Remove(x.e)
					} else {
						mB.Add(x.e, &B{})
					}
				}
			case 5: // swap-remove
				if len(live) > 0 {
					j := r.Intn(len(live))
					w.RemoveEntity(live[j].e)
					live = append(live[:j], live[j+1:]...)
				}
			case 6: // batch move of everything with P
				if r.Intn(2) == 0 {
					f := ecs.NewFilter1[P](w).Without(ecs.C[B]())
					mB.AddBatch(f.Batch(), &B{})
				} else {
					f := ecs.NewFilter2[P, B](w)
					mB.RemoveBatch(f.Batch(), nil)
				}
			case 7:
				w.Shrink()
			case 8:
				runtime.GC()
			}
			if i%10 == 9 {
				runtime.GC()
				verify(fmt.Sprintf("round %d step %d", round, i))
			}
		}
		runtime.GC()
		verify("the end of the round")
	}
	fmt.Printf("VERIF-STAT {\"gc_rounds\": %d, \"gc_steps\": %d}\n", rounds, steps)
}

func collected(counter *int64, want int64) bool {
	for i := 0; i < 50; i++ {
		runtime.GC()
		if atomic.LoadInt64(counter) >= want {
			return true
		}
		time.Sleep(2 * time.Millisecond)
	}
	return false
}

// Data referenced only by removed components is released: the slots are zeroed when rows are removed,
// tables are emptied, or the world is reset, so nothing in the world keeps the objects alive.
func TestRemovedComponentsAreCollectable(t *testing.T) {
	type scenario struct {
		name string
		run  func(w *ecs.World, es []ecs.Entity, mP *ecs.Map1[P])
	}
	scenarios := []scenario{
		{"RemoveEntity (last row first)", func(w *ecs.World, es []ecs.Entity, mP *ecs.Map1[P]) {
			for i := len(es) - 1; i >= 0; i-- {
				w.RemoveEntity(es[i])
			}
		}},
		{"RemoveEntity (swap-remove order)", func(w *ecs.World, es []ecs.Entity, mP *ecs.Map1[P]) {
			for _, e := range es {
				w.RemoveEntity(e)
			}
		}},
		{"Remove component", func(w *ecs.World, es []ecs.Entity, mP *ecs.Map1[P]) {
			for _, e := range es {
				mP.Remove(e)
			}
		}},
		{"RemoveEntities batch", func(w *ecs.World, es []ecs.Entity, mP *ecs.Map1[P]) {
			w.RemoveEntities(ecs.NewFilter1[P](w).Batch(), nil)
		}},
		{"RemoveBatch of the component", func(w *ecs.World, es []ecs.Entity, mP *ecs.Map1[P]) {
			mP.RemoveBatch(ecs.NewFilter1[P](w).Batch(), nil)
		}},
		{"Reset", func(w *ecs.World, es []ecs.Entity, mP *ecs.Map1[P]) { w.Reset() }},
		{"overwrite through Set", func(w *ecs.World, es []ecs.Entity, mP *ecs.Map1[P]) {
			for _, e := range es {
				mP.Set(e, &P{})
			}
		}},
	}
	for _, n := range []int{1, 3, 70} { // 70: more rows than the small-table zeroing path handles at once
		for _, sc := range scenarios {
			var finalized int64
			w := ecs.NewWorld(2, 1)
			mP := ecs.NewMap1[P](w)
			var es []ecs.Entity
			func() { // keep the payloads out of this frame's live variables
				for k := 0; k < n; k++ {
					pl := &payload{id: k}
					runtime.SetFinalizer(pl, func(*payload) { atomic.AddInt64(&finalized, 1) })
					es = append(es, mP.NewEntity(&P{Ptr: pl, S: []int{k}}))
				}
			}()
			runtime.GC()
			if f := atomic.LoadInt64(&finalized); f != 0 {
				t.Fatalf("%s (n=%d): %d payloads collected while their components are alive", sc.name, n, f)
			}
			sc.run(w, es, mP)
			if !collected(&finalized, int64(n)) {
				t.Fatalf("%s (n=%d): only %d of %d payloads were collected after their components were removed", sc.name, n, atomic.LoadInt64(&finalized), n)
			}
			runtime.KeepAlive(w)
		}
	}
}
