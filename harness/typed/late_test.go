// Hand-written companion of the generated twin tests: typed wrappers (MapN, Map, FilterN/QueryN, typed observers)
// resolve their component storages when they are CREATED; they must stay valid when more component types are registered
// afterwards and new archetypes / tables appear (seeded change C14-d: component storage slices reallocated on late
// registration left earlier wrappers pointing at the abandoned array). Typed access is compared with ID-based access.
package typed

import (
	"testing"

	"github.com/mlange-42/ark/ecs"
)

type late[P any] struct{ V int32 }

func registerLate(w *ecs.World) []ecs.ID {
	return []ecs.ID{
		ecs.ComponentID[late[[1]int8]](w),
		ecs.ComponentID[late[[2]int8]](w),
		ecs.ComponentID[late[[3]int8]](w),
		ecs.ComponentID[late[[4]int8]](w),
		ecs.ComponentID[late[[5]int8]](w),
		ecs.ComponentID[late[[6]int8]](w),
		ecs.ComponentID[late[[7]int8]](w),
		ecs.ComponentID[late[[8]int8]](w),
		ecs.ComponentID[late[[9]int8]](w),
		ecs.ComponentID[late[[10]int8]](w),
		ecs.ComponentID[late[[11]int8]](w),
		ecs.ComponentID[late[[12]int8]](w),
		ecs.ComponentID[late[[13]int8]](w),
		ecs.ComponentID[late[[14]int8]](w),
		ecs.ComponentID[late[[15]int8]](w),
		ecs.ComponentID[late[[16]int8]](w),
		ecs.ComponentID[late[[17]int8]](w),
		ecs.ComponentID[late[[18]int8]](w),
		ecs.ComponentID[late[[19]int8]](w),
		ecs.ComponentID[late[[20]int8]](w),
		ecs.ComponentID[late[[21]int8]](w),
		ecs.ComponentID[late[[22]int8]](w),
		ecs.ComponentID[late[[23]int8]](w),
		ecs.ComponentID[late[[24]int8]](w),
		ecs.ComponentID[late[[25]int8]](w),
		ecs.ComponentID[late[[26]int8]](w),
		ecs.ComponentID[late[[27]int8]](w),
		ecs.ComponentID[late[[28]int8]](w),
		ecs.ComponentID[late[[29]int8]](w),
		ecs.ComponentID[late[[30]int8]](w),
		ecs.ComponentID[late[[31]int8]](w),
		ecs.ComponentID[late[[32]int8]](w),
		ecs.ComponentID[late[[33]int8]](w),
		ecs.ComponentID[late[[34]int8]](w),
		ecs.ComponentID[late[[35]int8]](w),
		ecs.ComponentID[late[[36]int8]](w),
		ecs.ComponentID[late[[37]int8]](w),
		ecs.ComponentID[late[[38]int8]](w),
		ecs.ComponentID[late[[39]int8]](w),
		ecs.ComponentID[late[[40]int8]](w),
		ecs.ComponentID[late[[41]int8]](w),
		ecs.ComponentID[late[[42]int8]](w),
		ecs.ComponentID[late[[43]int8]](w),
		ecs.ComponentID[late[[44]int8]](w),
		ecs.ComponentID[late[[45]int8]](w),
		ecs.ComponentID[late[[46]int8]](w),
		ecs.ComponentID[late[[47]int8]](w),
		ecs.ComponentID[late[[48]int8]](w),
		ecs.ComponentID[late[[49]int8]](w),
		ecs.ComponentID[late[[50]int8]](w),
		ecs.ComponentID[late[[51]int8]](w),
		ecs.ComponentID[late[[52]int8]](w),
		ecs.ComponentID[late[[53]int8]](w),
		ecs.ComponentID[late[[54]int8]](w),
		ecs.ComponentID[late[[55]int8]](w),
		ecs.ComponentID[late[[56]int8]](w),
		ecs.ComponentID[late[[57]int8]](w),
		ecs.ComponentID[late[[58]int8]](w),
		ecs.ComponentID[late[[59]int8]](w),
		ecs.ComponentID[late[[60]int8]](w),
		ecs.ComponentID[late[[61]int8]](w),
		ecs.ComponentID[late[[62]int8]](w),
		ecs.ComponentID[late[[63]int8]](w),
		ecs.ComponentID[late[[64]int8]](w),
		ecs.ComponentID[late[[65]int8]](w),
		ecs.ComponentID[late[[66]int8]](w),
		ecs.ComponentID[late[[67]int8]](w),
		ecs.ComponentID[late[[68]int8]](w),
		ecs.ComponentID[late[[69]int8]](w),
		ecs.ComponentID[late[[70]int8]](w),
	}
}

func TestTypedWrappersSurviveLateRegistration(t *testing.T) {
	w := ecs.NewWorld(2)
	idA := ecs.ComponentID[T1](w)
	m1 := ecs.NewMap1[T1](w)
	gm := ecs.NewMap[T1](w)
	f1 := ecs.NewFilter1[T1](w)
	seen := map[ecs.Entity]int64{}
	obs := ecs.Observe1[T1](ecs.OnAddComponents).Do(func(e ecs.Entity, a *T1) { seen[e] = a.V })
	obs.Register(w)
	e0 := m1.NewEntity(&T1{V: 100})
	lateIDs := registerLate(w) // 70 more component types: beyond any small pre-allocation
	u := w.Unsafe()
	var ents []ecs.Entity
	ents = append(ents, e0)
	for i, id := range lateIDs {
		// a new archetype and table per late component, created AFTER the wrappers
		e := u.NewEntity(idA, id)
		(*T1)(u.Get(e, idA)).V = int64(200 + i)
		ents = append(ents, e)
	}
	// an entity that gets T1 added later through the old mapper (typed observer fires with the typed pointer)
	x := u.NewEntity(lateIDs[3])
	m1.Add(x, &T1{V: 999})
	ents = append(ents, x)
	if seen[x] != 999 {
		t.Fatalf("typed observer saw %d for the late entity, want 999", seen[x])
	}
	for _, e := range ents {
		want := (*T1)(u.Get(e, idA)).V
		if !m1.HasAll(e) {
			t.Fatalf("Map1.HasAll(%v) = false", e)
		}
		if got := m1.Get(e).V; got != want {
			t.Fatalf("Map1.Get(%v).V = %d, Unsafe.Get says %d", e, got, want)
		}
		if got := gm.Get(e).V; got != want {
			t.Fatalf("Map.Get(%v).V = %d, Unsafe.Get says %d", e, got, want)
		}
	}
	q := f1.Query()
	n := 0
	for q.Next() {
		a := q.Get()
		if a.V != (*T1)(u.Get(q.Entity(), idA)).V {
			t.Fatalf("Query1.Get for %v = %d, Unsafe.Get says %d", q.Entity(), a.V, (*T1)(u.Get(q.Entity(), idA)).V)
		}
		n++
	}
	uq := ecs.NewUnsafeFilter(w, idA).Query()
	if n != uq.Count() || n != len(ents) {
		t.Fatalf("typed query visits %d, unsafe query counts %d, %d entities have T1", n, uq.Count(), len(ents))
	}
	uq.Close()
	// writes through the old typed wrapper land in the storage the ID-based API reads
	m1.Get(ents[5]).V = -5
	if (*T1)(u.Get(ents[5], idA)).V != -5 {
		t.Fatal("write through Map1.Get not visible through Unsafe.Get")
	}
}
