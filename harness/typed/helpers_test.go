// Package typed: Go-side part of the C14 check. helpers for the generated twin-world tests.
package typed

import (
	"fmt"
	"sort"
	"testing"
	"unsafe"

	"github.com/mlange-42/ark/ecs"
)

// twin keeps corresponding entities of the typed world (a) and the ID-based world (b).
type twin struct {
	t        *testing.T
	wa, wb   *ecs.World
	ids      []ecs.ID
	idsB     []ecs.ID
	ea, eb   []ecs.Entity
	hadAll   []bool // at the last check: entity had all mapped components
	wasEmpty []bool // at the last check: entity had no components
}

func (tw *twin) add(a, b ecs.Entity) {
	tw.ea = append(tw.ea, a)
	tw.eb = append(tw.eb, b)
	tw.hadAll = append(tw.hadAll, false)
	tw.wasEmpty = append(tw.wasEmpty, false)
}

func describe(w *ecs.World, e ecs.Entity) string {
	if !w.Alive(e) {
		return "dead"
	}
	u := w.Unsafe()
	ids := u.IDs(e)
	s := ""
	for i := 0; i < ids.Len(); i++ {
		id := ids.Get(i)
		tg := u.GetRelation(e, id)
		s += fmt.Sprintf("[%d=%d->%d.%d]", id.Index(), *(*int64)(u.Get(e, id)), tg.ID(), tg.Gen())
	}
	return s
}

// check compares both worlds entity by entity (same handles are expected: both worlds perform the
// same creations in the same order) and their statistics.
func (tw *twin) check(what string) {
	tw.t.Helper()
	for i := range tw.ea {
		if tw.ea[i] != tw.eb[i] {
			tw.t.Fatalf("%s: handles differ: typed %v, ID-based %v", what, tw.ea[i], tw.eb[i])
		}
		da, db := describe(tw.wa, tw.ea[i]), describe(tw.wb, tw.eb[i])
		if da != db {
			tw.t.Fatalf("%s: entity %v differs: typed %s, ID-based %s", what, tw.ea[i], da, db)
		}
		if tw.wa.Alive(tw.ea[i]) {
			all := true
			for _, id := range tw.ids {
				if !tw.wa.Unsafe().Has(tw.ea[i], id) {
					all = false
				}
			}
			tw.hadAll[i] = all
			idl := tw.wa.Unsafe().IDs(tw.ea[i])
			tw.wasEmpty[i] = idl.Len() == 0
		} else {
			tw.hadAll[i], tw.wasEmpty[i] = false, false
		}
	}
	sa, sb := tw.wa.Stats(), tw.wb.Stats()
	if sa.Entities.Used != sb.Entities.Used || len(sa.Archetypes) != len(sb.Archetypes) {
		tw.t.Fatalf("%s: stats differ: typed used=%d archetypes=%d, ID-based used=%d archetypes=%d", what, sa.Entities.Used, len(sa.Archetypes), sb.Entities.Used, len(sb.Archetypes))
	}
	for i := range sa.Archetypes {
		if sa.Archetypes[i].Size != sb.Archetypes[i].Size || fmt.Sprint(sa.Archetypes[i].ComponentIDs) != fmt.Sprint(sb.Archetypes[i].ComponentIDs) {
			tw.t.Fatalf("%s: archetype %d differs", what, i)
		}
	}
}

func (tw *twin) ptr(what string, got, want unsafe.Pointer, v, wantV int64) {
	tw.t.Helper()
	if got != want {
		tw.t.Fatalf("%s: pointer does not address the component at this parameter position", what)
	}
	if v != wantV {
		tw.t.Fatalf("%s: value %d, want %d", what, v, wantV)
	}
}

type queryLike interface {
	Next() bool
	Entity() ecs.Entity
}

func collect(t *testing.T, mk func() queryLike) []int {
	q := mk()
	var out []int
	for q.Next() {
		out = append(out, int(q.Entity().ID()))
	}
	sort.Ints(out)
	return out
}

func collectU(q ecs.UnsafeQuery) []int {
	var out []int
	for q.Next() {
		out = append(out, int(q.Entity().ID()))
	}
	sort.Ints(out)
	return out
}

func sameSet(a, b []int) bool { return fmt.Sprint(a) == fmt.Sprint(b) }
