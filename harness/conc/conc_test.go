// Package conc: Go-side part of the C13 check, run under the race detector: queries created,
// iterated, counted and closed from several goroutines at once (shared and separate filters, cached
// and uncached, with relation targets, first use and first use after new archetypes) are race-free,
// exact, and leave the world unlocked; up to 64 queries are open simultaneously.
package conc

import (
	"fmt"
	"os"
	"sort"
	"strconv"
	"sync"
	"testing"

	"verif/harness/sim"

	"github.com/mlange-42/ark/ecs"
)

type A struct{ V int64 }
type B struct{ V int64 }
type C struct{ V int64 }
type R struct {
	ecs.RelationMarker
	V int64
}

func seed() uint64 {
	if s := os.Getenv("VERIF_SEED"); s != "" {
		v, _ := strconv.ParseUint(s, 10, 64)
		return v
	}
	return 1
}
func thorough() bool { return os.Getenv("VERIF_TIER") == "thorough" }

type world struct {
	w       *ecs.World
	targets []ecs.Entity
}

func build(r *sim.Rng) *world {
	w := ecs.NewWorld(4, 2)
	mA := ecs.NewMap1[A](w)
	mAB := ecs.NewMap2[A, B](w)
	mABC := ecs.NewMap3[A, B, C](w)
	mAR := ecs.NewMap2[A, R](w)
	x := &world{w: w}
	for i := 0; i < 3; i++ {
		x.targets = append(x.targets, w.NewEntity())
	}
	for i := 0; i < 5+r.Intn(30); i++ {
		switch r.Intn(4) {
		case 0:
			mA.NewEntity(&A{int64(i)})
		case 1:
			mAB.NewEntity(&A{int64(i)}, &B{int64(i)})
		case 2:
			mABC.NewEntity(&A{int64(i)}, &B{int64(i)}, &C{int64(i)})
		case 3:
			mAR.NewEntity(&A{int64(i)}, &R{V: int64(i)}, ecs.RelIdx(1, x.targets[r.Intn(3)]))
		}
	}
	return x
}

type queryFn func() []ecs.Entity

func collect1(q ecs.Query1[A]) []ecs.Entity {
	var out []ecs.Entity
	n := q.Count()
	for q.Next() {
		e := q.Entity()
		_ = q.Get().V
		out = append(out, e)
	}
	if n != len(out) {
		out = append(out, ecs.Entity{}) // poison: Count disagrees with iteration
	}
	return out
}

func collect2(q ecs.Query2[A, R]) []ecs.Entity {
	var out []ecs.Entity
	n := q.Count()
	var first ecs.Entity
	for q.Next() {
		out = append(out, q.Entity())
		if tg := q.GetRelation(1); len(out) == 1 {
			first = tg
		} else if tg != first {
			out = append(out, ecs.Entity{}) // poison: one query yields rows of two targets
		}
	}
	if n != len(out) {
		out = append(out, ecs.Entity{})
	}
	return out
}

// collectU drains an ID-based query (UnsafeFilter.Query takes and releases the world lock through the same
// mutex-protected path as the generated queries).
func collectU(q ecs.UnsafeQuery) []ecs.Entity {
	var out []ecs.Entity
	for q.Next() {
		out = append(out, q.Entity())
	}
	return out
}

func key(es []ecs.Entity) string {
	ids := make([]int, len(es))
	for i, e := range es {
		ids[i] = int(e.ID())<<8 | int(e.Gen()&0xff)
	}
	sort.Ints(ids)
	return fmt.Sprint(ids)
}

func TestConcurrentQueries(t *testing.T) {
	rounds := 12
	if thorough() {
		rounds = 200
	}
	total := 0
	for k := 0; k < rounds; k++ {
		r := sim.NewRng(seed()*101 + uint64(k))
		x := build(r)
		w := x.w
		shared := ecs.NewFilter1[A](w)
		sharedCached := ecs.NewFilter1[A](w).With(ecs.C[B]()).Register()
		sharedRel := ecs.NewFilter2[A, R](w)
		tgt := x.targets[r.Intn(3)]
		if r.Intn(2) == 0 {
			// a batch selection through the shared filter with a per-call target (fills the filter's
			// internal relation buffer); later queries with their own targets must not share it
			_ = sharedRel.Batch(ecs.RelIdx(1, x.targets[r.Intn(3)]))
		}
		idA, idB, idR := ecs.ComponentID[A](w), ecs.ComponentID[B](w), ecs.ComponentID[R](w)
		sharedUnsafe := ecs.NewUnsafeFilter(w, idA)
		fns := []queryFn{
			func() []ecs.Entity { return collect2(sharedRel.Query(ecs.RelIdx(1, x.targets[0]))) },
			func() []ecs.Entity { return collect2(sharedRel.Query(ecs.RelIdx(1, x.targets[1]))) },
			func() []ecs.Entity { return collect2(sharedRel.Query(ecs.RelIdx(1, x.targets[2]))) },
			func() []ecs.Entity { return collect1(shared.Query()) },
			func() []ecs.Entity { return collect1(sharedCached.Query()) },
			func() []ecs.Entity { return collect2(sharedRel.Query(ecs.RelIdx(1, tgt))) },
			func() []ecs.Entity { return collect1(ecs.NewFilter1[A](w).Without(ecs.C[C]()).Query()) },
			func() []ecs.Entity {
				q := shared.Query()
				n := q.Count()
				var out []ecs.Entity
				for i := 0; i < n; i++ {
					out = append(out, q.EntityAt(i))
				}
				q.Close()
				return out
			},
			// ID-based queries: a shared UnsafeFilter, per-call filters, per-query relation targets, early Close
			func() []ecs.Entity { return collectU(sharedUnsafe.Query()) },
			func() []ecs.Entity { return collectU(ecs.NewUnsafeFilter(w, idA, idB).Query()) },
			func() []ecs.Entity { return collectU(ecs.NewUnsafeFilter(w, idA, idR).Query(ecs.RelID(idR, tgt))) },
			func() []ecs.Entity {
				q := sharedUnsafe.Query()
				q.Next()
				q.Close() // closed early: the bit goes back while other goroutines take theirs
				return collectU(sharedUnsafe.Query())
			},
		}
		// sequential reference on fresh filters
		want := []string{
			key(collect2(ecs.NewFilter2[A, R](w).Query(ecs.RelIdx(1, x.targets[0])))),
			key(collect2(ecs.NewFilter2[A, R](w).Query(ecs.RelIdx(1, x.targets[1])))),
			key(collect2(ecs.NewFilter2[A, R](w).Query(ecs.RelIdx(1, x.targets[2])))),
			key(collect1(ecs.NewFilter1[A](w).Query())),
			key(collect1(ecs.NewFilter1[A](w).With(ecs.C[B]()).Query())),
			key(collect2(ecs.NewFilter2[A, R](w).Query(ecs.RelIdx(1, tgt)))),
			key(collect1(ecs.NewFilter1[A](w).Without(ecs.C[C]()).Query())),
			key(collect1(ecs.NewFilter1[A](w).Query())),
			key(collect1(ecs.NewFilter1[A](w).Query())),
			key(collect1(ecs.NewFilter1[A](w).With(ecs.C[B]()).Query())),
			key(collect2(ecs.NewFilter2[A, R](w).Query(ecs.RelIdx(1, tgt)))),
			key(collect1(ecs.NewFilter1[A](w).Query())),
		}
		goroutines := []int{2, 8, 64}[r.Intn(3)]
		for phase := 0; phase < 2; phase++ {
			if phase == 1 {
				// new archetype => registry version changes => the shared filters refresh their hint concurrently
				ecs.NewMap2[A, C](w).NewEntity(&A{1}, &C{1})
				want[3] = key(collect1(ecs.NewFilter1[A](w).Query()))
				want[6] = key(collect1(ecs.NewFilter1[A](w).Without(ecs.C[C]()).Query()))
				want[7] = want[3]
				want[8] = want[3]
				want[11] = want[3]
			}
			var wg sync.WaitGroup
			start := make(chan struct{})
			errs := make(chan string, goroutines)
			for g := 0; g < goroutines; g++ {
				wg.Add(1)
				go func(g int) {
					defer wg.Done()
					<-start
					for i := 0; i < 4; i++ {
						j := (g + i) % len(fns)
						if got := key(fns[j]()); got != want[j] {
							errs <- fmt.Sprintf("query kind %d in goroutine %d: got %s want %s", j, g, got, want[j])
							return
						}
					}
				}(g)
			}
			close(start)
			wg.Wait()
			close(errs)
			for e := range errs {
				t.Fatalf("VERIF-REPLAY seed=%d round=%d phase=%d goroutines=%d: %s", seed(), k, phase, goroutines, e)
			}
			if w.IsLocked() {
				t.Fatalf("VERIF-REPLAY seed=%d round=%d: world locked after all queries finished", seed(), k)
			}
			total += goroutines * 4
		}
		sharedCached.Unregister()
	}
	fmt.Printf("VERIF-STAT {\"concurrent_rounds\": %d, \"queries_run_concurrently\": %d}\n", rounds, total)
}

// 64 queries open at the same time from 64 goroutines, closed in a shuffled order.
func TestSixtyFourOpenQueries(t *testing.T) {
	r := sim.NewRng(seed())
	x := build(r)
	w := x.w
	f := ecs.NewFilter1[A](w)
	qs := make([]ecs.Query1[A], 64)
	var wg sync.WaitGroup
	for g := 0; g < 64; g++ {
		wg.Add(1)
		go func(g int) {
			defer wg.Done()
			qs[g] = f.Query()
		}(g)
	}
	wg.Wait()
	if !w.IsLocked() {
		t.Fatal("world not locked with 64 open queries")
	}
	order := make([]int, 64)
	for i := range order {
		order[i] = i
	}
	for i := 63; i > 0; i-- {
		j := r.Intn(i + 1)
		order[i], order[j] = order[j], order[i]
	}
	for g := 0; g < 64; g++ {
		wg.Add(1)
		go func(i int) {
			defer wg.Done()
			q := &qs[i]
			if i%2 == 0 {
				for q.Next() {
				}
			}
			q.Close()
			q.Close() // closing again is harmless
		}(order[g])
	}
	wg.Wait()
	if w.IsLocked() {
		t.Fatal("world locked after closing all 64 queries")
	}
	// all 64 bits can be taken again
	for g := 0; g < 64; g++ {
		qs[g] = f.Query()
	}
	for g := 0; g < 64; g++ {
		qs[g].Close()
	}
	if w.IsLocked() {
		t.Fatal("world locked after second round")
	}
}
