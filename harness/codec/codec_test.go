// Package codec: Go-side part of the C17 check. (1) differential test of the entity codecs
// against the extracted Coq model (build/arkmodel, codec mode); (2) dump/load twin-world oracle:
// loading a dump into a fresh and into a reset world reproduces Alive for every handle ever issued
// and the handles of subsequent creations.
package codec

import (
	"bytes"
	"encoding/json"
	"fmt"
	"os"
	"os/exec"
	"strconv"
	"strings"
	"testing"
	"unsafe"

	"verif/harness/sim"

	"github.com/mlange-42/ark/ecs"
)

func seed() uint64 {
	if s := os.Getenv("VERIF_SEED"); s != "" {
		v, _ := strconv.ParseUint(s, 10, 64)
		return v
	}
	return 1
}
func thorough() bool { return os.Getenv("VERIF_TIER") == "thorough" }

func mkEntity(id, gen uint32) ecs.Entity {
	var e ecs.Entity
	p := (*[2]uint32)(unsafe.Pointer(&e))
	p[0], p[1] = id, gen
	return e
}

func ints(bs []byte) string {
	var sb strings.Builder
	for _, b := range bs {
		fmt.Fprintf(&sb, " %d", b)
	}
	return sb.String()
}

func TestCodecAgainstModel(t *testing.T) {
	r := sim.NewRng(seed())
	bounds := []uint32{0, 1, 2, 255, 256, 257, 65535, 65536, 65537, 1<<24 - 1, 1 << 24, 1<<31 - 1, 1 << 31, 1<<32 - 2, 1<<32 - 1}
	type pair struct{ id, gen uint32 }
	var pairs []pair
	for _, a := range bounds {
		for _, b := range bounds {
			pairs = append(pairs, pair{a, b})
		}
	}
	n := 2000
	if thorough() {
		n = 100000
	}
	for i := 0; i < n; i++ {
		pairs = append(pairs, pair{uint32(r.Next()), uint32(r.Next() >> uint(r.Intn(32)))})
	}
	var in strings.Builder
	var want []string
	in.WriteString("-100\n")
	for _, p := range pairs {
		e := mkEntity(p.id, p.gen)
		if e.ID() != p.id || e.Gen() != p.gen {
			t.Fatalf("entity layout assumption broken")
		}
		bin, err := e.MarshalBinary()
		if err != nil {
			t.Fatalf("MarshalBinary error %v", err)
		}
		app, _ := e.AppendBinary([]byte{9, 9})
		if !bytes.Equal(app, append([]byte{9, 9}, bin...)) {
			t.Fatalf("VERIF-REPLAY AppendBinary(%d,%d) != prefix ++ MarshalBinary", p.id, p.gen)
		}
		var back ecs.Entity
		if err := back.UnmarshalBinary(bin); err != nil || back != e {
			t.Fatalf("VERIF-REPLAY binary round trip of (%d,%d) gives %v err %v", p.id, p.gen, back, err)
		}
		js, _ := json.Marshal(e)
		var backj ecs.Entity
		if err := json.Unmarshal(js, &backj); err != nil || backj != e {
			t.Fatalf("VERIF-REPLAY JSON round trip of (%d,%d) via %s gives %v err %v", p.id, p.gen, js, backj, err)
		}
		fmt.Fprintf(&in, "1 %d %d\n", p.id, p.gen)
		want = append(want, strings.TrimSpace(ints(bin)))
		fmt.Fprintf(&in, "2%s\n", ints(bin))
		want = append(want, fmt.Sprintf("1 %d %d", p.id, p.gen))
		fmt.Fprintf(&in, "3 %d %d\n", p.id, p.gen)
		want = append(want, strings.TrimSpace(ints(js)))
		fmt.Fprintf(&in, "4%s\n", ints(js))
		want = append(want, fmt.Sprintf("1 %d %d", p.id, p.gen))
	}
	// malformed binary input: every length other than 8 is an error, for the code and for the model
	bad := 0
	for i := 0; i < 400; i++ {
		ln := r.Intn(17)
		bs := make([]byte, ln)
		for j := range bs {
			bs[j] = byte(r.Next())
		}
		var e ecs.Entity
		err := e.UnmarshalBinary(bs)
		if (ln != 8) != (err != nil) {
			t.Fatalf("VERIF-REPLAY UnmarshalBinary of %d bytes %v: err=%v", ln, bs, err)
		}
		fmt.Fprintf(&in, "2%s\n", ints(bs))
		if ln != 8 {
			want = append(want, "0")
			bad++
		} else {
			want = append(want, fmt.Sprintf("1 %d %d", e.ID(), e.Gen()))
		}
	}
	// capPow2 is not exported; it is compared through table capacities in the streams.
	cmd := exec.Command("../../build/arkmodel")
	cmd.Stdin = strings.NewReader(in.String())
	out, err := cmd.Output()
	if err != nil {
		t.Fatalf("model interpreter failed: %v", err)
	}
	got := strings.Split(strings.TrimSpace(string(out)), "\n")
	if len(got) > 0 && got[len(got)-1] == "#" {
		got = got[:len(got)-1]
	}
	if len(got) != len(want) {
		t.Fatalf("model returned %d lines, want %d", len(got), len(want))
	}
	for i := range want {
		if strings.TrimSpace(got[i]) != want[i] {
			t.Fatalf("VERIF-REPLAY codec case %d: implementation %q, model %q", i, want[i], got[i])
		}
	}
	fmt.Printf("VERIF-STAT {\"codec_pairs\": %d, \"malformed_inputs\": %d, \"model_cases\": %d}\n", len(pairs), bad, len(want))
}

// history drives a world with a seeded stream (no internal dump needed here).
func history(r *sim.Rng, ops int, caps [2]int) (*sim.Sim, int) {
	st := sim.Streams["store"]
	st.WithDump = false
	cfg := sim.Config{Cap: caps[0], CapRel: caps[1], Bits: ecs.VerifMaskBits, Debug: ecs.VerifIsDebug,
		Codes: []int{sim.CodeA, sim.CodeB, sim.CodeC, sim.CodeR1, sim.CodeR2, sim.CodeN1, sim.CodeZ0, sim.CodeRZ}}
	s := sim.NewSim(cfg)
	g := sim.NewGen(r, s, st)
	for i := 0; i < ops; i++ {
		s.Step(g.NextOp())
	}
	// close everything that is still open so that the world is unlocked
	for _, q := range s.Queries {
		func() {
			defer func() { _ = recover() }()
			q.Close()
		}()
	}
	return s, g.Epoch()
}

func TestDumpLoadTwinWorlds(t *testing.T) {
	n := 150
	if thorough() {
		n = 3000
	}
	reached := 0
	maxIssued := 0
	for k := 0; k < n; k++ {
		r := sim.NewRng(seed()*7919 + uint64(k))
		caps := [][2]int{{1, 1}, {2, 1}, {4, 2}, {16, 4}}[r.Intn(4)]
		src, epoch := history(r, 40+r.Intn(60), caps)
		if src.W.IsLocked() {
			continue // a lock leaked by a panicking batch: creation in the source world is impossible
		}
		dump := src.W.Unsafe().DumpEntities()
		fresh := ecs.NewWorld(caps[0]+r.Intn(3), caps[1])
		fresh.Unsafe().LoadEntities(&dump)
		other, _ := history(r, 20+r.Intn(30), caps)
		if other.W.IsLocked() {
			continue
		}
		other.W.Reset()
		other.W.Unsafe().LoadEntities(&dump)
		reached++
		if len(src.Issued) > maxIssued {
			maxIssued = len(src.Issued)
		}
		alive := src.W.Stats().Entities.Used
		for i, h := range src.Issued {
			if i < epoch {
				continue // issued before the last Reset of the source world: not a handle of that world any more
			}
			a := src.W.Alive(h)
			if fresh.Alive(h) != a || other.W.Alive(h) != a {
				t.Fatalf("VERIF-REPLAY seed=%d k=%d: handle #%d %v alive in source=%v fresh=%v reset=%v", seed(), k, i, h, a, fresh.Alive(h), other.W.Alive(h))
			}
		}
		if fresh.Stats().Entities.Used != alive || other.W.Stats().Entities.Used != alive {
			t.Fatalf("VERIF-REPLAY seed=%d k=%d: used entities source=%d fresh=%d reset=%d", seed(), k, alive, fresh.Stats().Entities.Used, other.W.Stats().Entities.Used)
		}
		// the loaded worlds are usable: every alive entity is found by a query, exactly once
		cnt := 0
		q := ecs.NewFilter0(fresh).Query()
		for q.Next() {
			if !src.W.Alive(q.Entity()) {
				t.Fatalf("VERIF-REPLAY seed=%d k=%d: loaded world iterates dead entity %v", seed(), k, q.Entity())
			}
			cnt++
		}
		if cnt != alive {
			t.Fatalf("VERIF-REPLAY seed=%d k=%d: loaded world iterates %d entities, want %d", seed(), k, cnt, alive)
		}
		for j := 0; j < 1+r.Intn(40); j++ {
			a, b, c := src.W.NewEntity(), fresh.NewEntity(), other.W.NewEntity()
			if a != b || a != c {
				t.Fatalf("VERIF-REPLAY seed=%d k=%d: creation %d after load returns %v (source) %v (fresh) %v (reset)", seed(), k, j, a, b, c)
			}
			if r.Chance(30) {
				src.W.RemoveEntity(a)
				fresh.RemoveEntity(b)
				other.W.RemoveEntity(c)
			}
		}
	}
	fmt.Printf("VERIF-STAT {\"dump_load_histories\": %d, \"max_issued_handles\": %d}\n", reached, maxIssued)
	if reached < n/2 {
		t.Fatalf("only %d of %d histories reached the dump point", reached, n)
	}
}

// A dump is a snapshot: what the source world does after DumpEntities (removals, recycling, new
// entities, Reset) and what a world loaded from the dump does must not change the dump. Loading it
// later reproduces the alive/dead status the handles had AT DUMP TIME, and the same dump can be loaded
// into several worlds that then evolve independently.
func TestDumpIsASnapshot(t *testing.T) {
	n := 120
	if thorough() {
		n = 2000
	}
	for k := 0; k < n; k++ {
		r := sim.NewRng(seed()*104729 + uint64(k))
		caps := [][2]int{{1, 1}, {2, 1}, {4, 2}, {32, 4}}[r.Intn(4)]
		w := ecs.NewWorld(caps[0], caps[1])
		var hs []ecs.Entity
		for i := 0; i < 3+r.Intn(30); i++ {
			hs = append(hs, w.NewEntity())
			if r.Chance(35) && len(hs) > 0 {
				j := r.Intn(len(hs))
				if w.Alive(hs[j]) {
					w.RemoveEntity(hs[j])
				}
			}
		}
		dump := w.Unsafe().DumpEntities()
		atDump := make([]bool, len(hs))
		for i, h := range hs {
			atDump[i] = w.Alive(h)
		}
		// the source world goes on
		switch r.Intn(3) {
		case 0:
			for _, h := range hs {
				if w.Alive(h) && r.Chance(60) {
					w.RemoveEntity(h)
				}
			}
			for i := 0; i < r.Intn(5); i++ {
				w.NewEntity()
			}
		case 1:
			w.Reset()
			for i := 0; i < r.Intn(6); i++ {
				w.NewEntity()
			}
		default:
			for i := 0; i < 1+r.Intn(40); i++ { // growth beyond the capacity
				w.NewEntity()
			}
		}
		check := func(name string, x *ecs.World) {
			for i, h := range hs {
				if x.Alive(h) != atDump[i] {
					t.Fatalf("VERIF-REPLAY seed=%d k=%d: %s: handle %v alive=%v, at dump time %v", seed(), k, name, h, x.Alive(h), atDump[i])
				}
			}
		}
		a := ecs.NewWorld(caps[0], caps[1])
		a.Unsafe().LoadEntities(&dump)
		check("first load (after the source world changed)", a)
		// the first loaded world evolves; a second load of the same dump is unaffected
		for _, h := range hs {
			if a.Alive(h) && r.Chance(50) {
				a.RemoveEntity(h)
			}
		}
		for i := 0; i < r.Intn(6); i++ {
			a.NewEntity()
		}
		b := ecs.NewWorld(caps[0], caps[1])
		b.Unsafe().LoadEntities(&dump)
		check("second load of the same dump", b)
		// and the two loaded worlds are independent
		for _, h := range hs {
			if b.Alive(h) && r.Chance(50) {
				b.RemoveEntity(h)
			}
		}
		c := ecs.NewWorld(caps[0], caps[1])
		c.Unsafe().LoadEntities(&dump)
		check("third load of the same dump", c)
		// save / restore in place: the dump goes back into its own source world after a Reset
		// (whatever that world did in between), and allocation continues as in a fresh load
		w.Reset()
		w.Unsafe().LoadEntities(&dump)
		check("load into the reset source world", w)
		for j := 0; j < 1+r.Intn(40); j++ {
			x, y := w.NewEntity(), c.NewEntity()
			if x != y {
				t.Fatalf("VERIF-REPLAY seed=%d k=%d: creation #%d after restoring in place: source world %v, fresh load %v", seed(), k, j, x, y)
			}
		}
	}
}

// poolScript runs a pool script (0 _ = create; 1 k = remove the k-th handle issued since the last
// Reset if it is alive; 2 _ = Reset) through the World API; the same script runs on the Coq model
// (Model/DumpLoad.v, prun).
func poolScript(w *ecs.World, ops [][2]int) []ecs.Entity {
	var issued []ecs.Entity
	for _, o := range ops {
		switch o[0] {
		case 0:
			issued = append(issued, w.NewEntity())
		case 1:
			if o[1] < len(issued) && w.Alive(issued[o[1]]) {
				w.RemoveEntity(issued[o[1]])
			}
		default:
			w.Reset()
			issued = nil
		}
	}
	return issued
}

func tryLoad(w *ecs.World, d *ecs.EntityDump) (ok bool) {
	defer func() {
		if recover() != nil {
			ok = false
		}
	}()
	w.Unsafe().LoadEntities(d)
	return true
}

// TestDumpLoadAgainstModel ties the pool-level model of DumpEntities / LoadEntities (the subject of
// the C17 dump/load theorems) to the implementation: random source and target scripts; the dump of
// the source is offered to the target as it is (accepted or rejected) and after a Reset; then Alive of
// every handle of the source and the next creations are compared with the extracted model.
func TestDumpLoadAgainstModel(t *testing.T) {
	n := 400
	if thorough() {
		n = 6000
	}
	r := sim.NewRng(seed()*15485863 + 11)
	genOps := func(ln int) [][2]int {
		ops := make([][2]int, ln)
		created := 0
		for i := range ops {
			switch x := r.Intn(100); {
			case x < 55:
				ops[i] = [2]int{0, 0}
				created++
			case x < 94:
				ops[i] = [2]int{1, r.Intn(created + 2)}
			default:
				ops[i] = [2]int{2, 0}
				created = 0
			}
		}
		return ops
	}
	var in strings.Builder
	var want []string
	in.WriteString("-100\n")
	rejected, emptyTargets, maxIssued, removed := 0, 0, 0, 0
	for k := 0; k < n; k++ {
		src := genOps(r.Intn(70))
		var tgt [][2]int
		if !r.Chance(25) {
			tgt = genOps(r.Intn(25))
		}
		next := 1 + r.Intn(14)
		caps := [][2]int{{1, 1}, {2, 1}, {4, 2}, {32, 4}}[r.Intn(4)]
		sw := ecs.NewWorld(caps[0], caps[1])
		issued := poolScript(sw, src)
		tw := ecs.NewWorld(caps[0]+r.Intn(3), caps[1])
		poolScript(tw, tgt)
		dump := sw.Unsafe().DumpEntities()
		var line []string
		rej := !tryLoad(tw, &dump)
		if rej {
			rejected++
			line = append(line, "1")
		} else {
			line = append(line, "0")
			emptyTargets++
		}
		tw.Reset()
		if !tryLoad(tw, &dump) {
			line = append(line, "0")
		} else {
			line = append(line, "1")
			for _, h := range issued {
				if sw.Alive(h) != tw.Alive(h) {
					t.Fatalf("VERIF-REPLAY dumpload case %d: handle %v alive in source=%v, loaded=%v", k, h, sw.Alive(h), tw.Alive(h))
				}
				if tw.Alive(h) {
					line = append(line, "1")
				} else {
					line = append(line, "0")
					removed++
				}
			}
			for j := 0; j < next; j++ {
				e := tw.NewEntity()
				line = append(line, strconv.Itoa(int(e.ID())), strconv.Itoa(int(e.Gen())))
			}
		}
		if len(issued) > maxIssued {
			maxIssued = len(issued)
		}
		want = append(want, strings.Join(line, " "))
		fmt.Fprintf(&in, "6 %d %d", next, len(src))
		for _, o := range src {
			fmt.Fprintf(&in, " %d %d", o[0], o[1])
		}
		for _, o := range tgt {
			fmt.Fprintf(&in, " %d %d", o[0], o[1])
		}
		in.WriteString("\n")
	}
	cmd := exec.Command("../../build/arkmodel")
	cmd.Stdin = strings.NewReader(in.String())
	out, err := cmd.Output()
	if err != nil {
		t.Fatalf("model interpreter failed: %v", err)
	}
	got := strings.Split(strings.TrimSpace(string(out)), "\n")
	if len(got) > 0 && got[len(got)-1] == "#" {
		got = got[:len(got)-1]
	}
	if len(got) != len(want) {
		t.Fatalf("model returned %d lines, want %d", len(got), len(want))
	}
	inLines := strings.Split(in.String(), "\n")
	for i := range want {
		if strings.TrimSpace(got[i]) != want[i] {
			t.Fatalf("VERIF-REPLAY dumpload case %d (%s): implementation %q, model %q", i, inLines[i+1], want[i], got[i])
		}
	}
	fmt.Printf("VERIF-STAT {\"dumpload_cases\": %d, \"dumpload_rejected_before_reset\": %d, \"dumpload_accepted_without_reset\": %d, \"dumpload_max_handles\": %d, \"dumpload_dead_handles_compared\": %d}\n", n, rejected, emptyTargets, maxIssued, removed)
}

// TestWorldDumpLoadAgainstModel ties the world-level model of DumpEntities / LoadEntities
// (Model/DumpLoadW.v: Alive list in Filter0 order, rebuilt entity index, target flags and
// component-less table) to the implementation: a seeded history of the `store` / `relations`
// streams runs on the implementation and (as a script) on the extracted model; the entity dump of
// the final state is loaded into a new world of the same configuration, or into a world that has a
// history of its own and was Reset; the full internal dump
// (VerifDump) of the loaded world must equal the model's.
func TestWorldDumpLoadAgainstModel(t *testing.T) {
	n := 60
	if thorough() {
		n = 700
	}
	var in strings.Builder
	var want []string
	maxAlive, totalAlive, relWorlds, resetTargets := 0, 0, 0, 0
	for k := 0; k < n; k++ {
		r := sim.NewRng(seed()*32452843 + uint64(k))
		name := []string{"store", "relations", "store"}[r.Intn(3)]
		st := sim.Streams[name]
		st.WithDump = false
		caps := [][2]int{{1, 1}, {2, 1}, {4, 2}, {16, 4}}[r.Intn(4)]
		cfg := sim.Config{Cap: caps[0], CapRel: caps[1], Bits: ecs.VerifMaskBits, Debug: ecs.VerifIsDebug,
			Codes: []int{sim.CodeA, sim.CodeB, sim.CodeC, sim.CodeR1, sim.CodeR2, sim.CodeN1, sim.CodeZ0, sim.CodeRZ}}
		s := sim.NewSim(cfg)
		g := sim.NewGen(r, s, st)
		var lines [][]int64
		for i, ops := 0, 10+r.Intn(90); i < ops; i++ {
			l := g.NextOp()
			lines = append(lines, append([]int64{}, l...))
			s.Step(l)
		}
		if s.W.IsLocked() {
			continue // DumpEntities runs a query of its own; keep the case simple
		}
		if name == "relations" {
			relWorlds++
		}
		dump := s.W.Unsafe().DumpEntities()
		fresh := sim.NewSim(cfg)
		// two cases in three: the receiving world has a history of its own and is Reset before loading
		var tlines [][]int64
		if !r.Chance(33) {
			tst := sim.Streams[[]string{"store", "relations"}[r.Intn(2)]]
			tst.WithDump = false
			tg := sim.NewGen(r, fresh, tst)
			for i, ops := 0, 5+r.Intn(50); i < ops; i++ {
				l := tg.NextOp()
				tlines = append(tlines, append([]int64{}, l...))
				fresh.Step(l)
			}
			if fresh.W.IsLocked() {
				fresh, tlines = sim.NewSim(cfg), nil
			} else {
				tlines = append(tlines, []int64{13})
				fresh.Step([]int64{13})
				resetTargets++
			}
		}
		fresh.W.Unsafe().LoadEntities(&dump)
		if len(dump.Alive) > maxAlive {
			maxAlive = len(dump.Alive)
		}
		totalAlive += len(dump.Alive)
		var sb strings.Builder
		for i, v := range fresh.W.VerifDump() {
			if i > 0 {
				sb.WriteByte(' ')
			}
			sb.WriteString(strconv.FormatInt(v, 10))
		}
		// leading 1: the model evaluates the hypotheses of the world-level theorems (alive_okb) on the source state
		want = append(want, "1 "+sb.String())
		in.WriteString("-102\n")
		for _, l := range append(append([][]int64{cfg.Line(), {int64(len(tlines))}}, tlines...), lines...) {
			for i, v := range l {
				if i > 0 {
					in.WriteByte(' ')
				}
				in.WriteString(strconv.FormatInt(v, 10))
			}
			in.WriteByte('\n')
		}
		in.WriteString("#\n")
	}
	cmd := exec.Command("../../build/arkmodel")
	cmd.Stdin = strings.NewReader(in.String())
	out, err := cmd.Output()
	if err != nil {
		t.Fatalf("model interpreter failed: %v", err)
	}
	var got []string
	for _, l := range strings.Split(strings.TrimSpace(string(out)), "\n") {
		if l != "#" {
			got = append(got, strings.TrimSpace(l))
		}
	}
	if len(got) != len(want) {
		t.Fatalf("model returned %d lines, want %d", len(got), len(want))
	}
	for i := range want {
		if got[i] != want[i] {
			t.Fatalf("VERIF-REPLAY world dumpload case %d (seed %d): loaded world differs\nimplementation %s\nmodel          %s", i, seed(), want[i], got[i])
		}
	}
	fmt.Printf("VERIF-STAT {\"world_dumpload_cases\": %d, \"world_dumpload_relation_worlds\": %d, \"world_dumpload_max_alive\": %d, \"world_dumpload_alive_total\": %d, \"world_dumpload_reset_targets\": %d}\n", len(want), relWorlds, maxAlive, totalAlive, resetTargets)
}
